import MimeModel.Lemmas.C10Base
import MimeModel.Props.C08
/-
  C10 on a *truncated* header: when only the first `lim` bytes of an RFC 8259 document are
  examined and the member that decides a query lies completely inside them, the sub-type
  detector still answers "yes".

  1. `querySatisfied` is never reset (`flag_mono`);
  2. `Decided`: a grammar over the bytes that follow an opening `{`, saying "complete members,
     one of which decides a query; then anything";
  3. `decided_sets`: on such bytes `consumeObject` sets the flag, whatever its result;
  4. `subtype_truncated` and its instances for GeoJSON, HAR, glTF.
-/
namespace Mime.JsonTrunc
open Mime Mime.Json Mime.Gen.Json Mime.Spec Mime.JsonQuery Mime.JsonLeaf Mime.JsonForward Mime.JsonPrefix

abbrev Query := Mime.Gen.Json.Query

/-! ### Step 1 — the flag is monotone -/

theorem applyQuery_mono (q : Option Query) (vb : Bytes) (s : PState) (h : s.querySatisfied = true) :
    (applyQuery q vb s).querySatisfied = true := by
  cases q with
  | none => exact h
  | some q =>
    simp only [applyQuery]
    split
    · rfl
    · split
      · rfl
      · exact h

theorem finishAny_mono (nq : Bool) (lvl t : Nat) (res : Option Bytes × PState) (h : res.2.querySatisfied = true) :
    (finishAny nq lvl t res).2.querySatisfied = true := by
  obtain ⟨o, s2⟩ := res
  have h2 : ((s2.setFirst lvl t).setQ nq).querySatisfied = true := by
    simp only [PState.setQ, PState.setFirst]
    split
    · rfl
    · split
      · exact h
      · exact h
  cases o with
  | none => exact h2
  | some r => simp only [finishAny, consumeSpace_spec]; exact h2

variable (qs : List Query) (cap : Nat)

def MonoAny (f : Nat) : Prop := ∀ (lvl : Nat) (b : Bytes) (s : PState),
  s.querySatisfied = true → (consumeAny qs cap f lvl b s).2.querySatisfied = true
def MonoArr (f : Nat) : Prop := ∀ (lvl : Nat) (b : Bytes) (s : PState),
  s.querySatisfied = true → (arrayLoop qs cap f lvl b s).2.querySatisfied = true
def MonoObj (f : Nat) : Prop := ∀ (lvl : Nat) (b : Bytes) (s : PState),
  s.querySatisfied = true → (objectLoop qs cap f lvl b s).2.querySatisfied = true

theorem mono_any_step (f : Nat) (hA : MonoArr qs cap f) (hO : MonoObj qs cap f) : MonoAny qs cap (f + 1) := by
  intro lvl b s h
  simp only [consumeAny]
  split
  · exact h
  · rw [consumeSpace_spec]
    cases J.skipWs b with
    | nil => exact h
    | cons c cs =>
      simp only
      apply finishAny_mono
      generalize b.length - (c :: cs).length = k0
      cases classify c with
      | str => simp only; rw [(consumeString_fields cs .norm _).2]; exact h
      | arr =>
        simp only
        split
        · exact h
        · exact hA _ _ _ h
      | obj => exact hO _ _ _ h
      | litT => simp only; rw [(consumeConst_fields wTrue _ _).2]; exact h
      | litF => simp only; rw [(consumeConst_fields wFalse _ _).2]; exact h
      | litN => simp only; rw [(consumeConst_fields wNull _ _).2]; exact h
      | num => simp only; rw [(consumeNumber_fields _ .start _).2]; exact h

theorem mono_arr_step (f : Nat) (hV : MonoAny qs cap f) (hA : MonoArr qs cap f) : MonoArr qs cap (f + 1) := by
  intro lvl b s h
  simp only [arrayLoop]
  rw [consumeSpace_spec]
  cases J.skipWs b with
  | nil => exact h
  | cons c cs =>
    simp only
    generalize b.length - (c :: cs).length = k0
    split
    · exact h
    · have h2 := hV lvl (c :: cs) (s.bump k0) h
      generalize consumeAny qs cap f lvl (c :: cs) (s.bump k0) = res at h2
      obtain ⟨o, s2⟩ := res
      cases o with
      | none => exact h2
      | some r =>
        cases r with
        | nil => exact h2
        | cons d ds =>
          simp only
          split
          · exact hA _ _ _ h2
          · split
            · exact h2
            · exact h2

theorem mono_obj_step (f : Nat) (hV : MonoAny qs cap f) (hO : MonoObj qs cap f) : MonoObj qs cap (f + 1) := by
  intro lvl b s h
  simp only [objectLoop]
  rw [consumeSpace_spec]
  cases J.skipWs b with
  | nil => exact h
  | cons c cs =>
    simp only
    generalize b.length - (c :: cs).length = k0
    split
    · exact h
    split
    · exact h
    have h2 := (consumeString_fields cs .norm (s.bump k0).bump).2
    generalize consumeString .norm cs (s.bump k0).bump = res at h2
    obtain ⟨o, s2⟩ := res
    simp only [bump_qs] at h2
    rw [h] at h2
    cases o with
    | none => exact h2
    | some r =>
      simp only
      rw [consumeSpace_spec]
      cases J.skipWs r with
      | nil => exact h2
      | cons d ds =>
        simp only
        split
        · exact h2
        rw [consumeSpace_spec]
        cases J.skipWs ds with
        | nil => exact h2
        | cons e es =>
          simp only
          generalize hs5 : (((s2.push ((consumed cs r).dropLast)).bump (r.length - (d :: ds).length)).bump).bump
            (ds.length - (e :: es).length) = s5
          have h5 : s5.querySatisfied = true := by rw [← hs5]; exact h2
          have h6 := hV lvl (e :: es) s5 h5
          generalize consumeAny qs cap f lvl (e :: es) s5 = res at h6
          obtain ⟨o, s6⟩ := res
          cases o with
          | none => exact h6
          | some r2 =>
            simp only
            have h7 := applyQuery_mono
              (if (s2.push ((consumed cs r).dropLast)).querySatisfied = true then none
               else queryPathMatch qs (s2.push ((consumed cs r).dropLast)).currPath) (consumed (e :: es) r2) s6 h6
            generalize applyQuery _ (consumed (e :: es) r2) s6 = s7 at h7
            cases r2 with
            | nil => exact h7
            | cons g gs =>
              simp only
              split
              · exact hO _ _ _ h7
              · split
                · exact h7
                · exact h7

/-- **the flag is monotone**: once `querySatisfied` is set, no call of the scanner resets it -/
theorem flag_mono : ∀ f, MonoAny qs cap f ∧ MonoArr qs cap f ∧ MonoObj qs cap f := by
  intro f
  induction f with
  | zero =>
    refine ⟨?_, ?_, ?_⟩
    · intro lvl b s h; exact h
    · intro lvl b s h; exact h
    · intro lvl b s h; exact h
  | succ f ih =>
    obtain ⟨hV, hA, hO⟩ := ih
    exact ⟨mono_any_step qs cap f hA hO, mono_arr_step qs cap f hV hA, mono_obj_step qs cap f hV hO⟩

/-! ### the reference recogniser: more fuel never hurts -/

def SV (f : Nat) : Prop := ∀ (b : Bytes) (v : J.JVal) (r : Bytes),
  J.value true f b = .ok v r → J.value true (f + 1) b = .ok v r
def SI (f : Nat) : Prop := ∀ (b : Bytes) (acc : List J.JVal) (first : Bool) (v : J.JVal) (r : Bytes),
  J.items true f b acc first = .ok v r → J.items true (f + 1) b acc first = .ok v r
def SM (f : Nat) : Prop := ∀ (b : Bytes) (acc : List (Bytes × J.JVal)) (first : Bool) (v : J.JVal) (r : Bytes),
  J.members true f b acc first = .ok v r → J.members true (f + 1) b acc first = .ok v r

theorem sv_step (f : Nat) (hI : SI f) (hM : SM f) : SV (f + 1) := by
  intro b v r h
  rw [J.value] at h ⊢
  cases hsk : J.skipWs b with
  | nil => simp [hsk] at h
  | cons c cs =>
    simp only [hsk] at h ⊢
    by_cases h1 : (c == 0x22) = true
    · simp only [h1, ↓reduceIte] at h ⊢; exact h
    · have h1' : (c == 0x22) = false := by simpa using h1
      simp only [h1', Bool.false_eq_true, ↓reduceIte] at h ⊢
      by_cases h2 : (c == 0x5B) = true
      · simp only [h2, ↓reduceIte] at h ⊢; exact hI _ _ _ _ _ h
      · have h2' : (c == 0x5B) = false := by simpa using h2
        simp only [h2', Bool.false_eq_true, ↓reduceIte] at h ⊢
        by_cases h3 : (c == 0x7B) = true
        · simp only [h3, ↓reduceIte] at h ⊢; exact hM _ _ _ _ _ h
        · have h3' : (c == 0x7B) = false := by simpa using h3
          simp only [h3', Bool.false_eq_true, ↓reduceIte] at h ⊢
          exact h

theorem si_step (f : Nat) (hV : SV f) (hI : SI f) : SI (f + 1) := by
  intro b acc first v r h
  rw [J.items] at h ⊢
  cases hsk : J.skipWs b with
  | nil => simp [hsk] at h
  | cons c cs =>
    simp only [hsk] at h ⊢
    by_cases hc : (c == 0x5D && (first || !true)) = true
    · simp only [hc, ↓reduceIte] at h ⊢; exact h
    · have hc' : (c == 0x5D && (first || !true)) = false := by simpa using hc
      simp only [hc', Bool.false_eq_true, ↓reduceIte] at h ⊢
      cases hv : J.value true f (c :: cs) with
      | more => simp [hv] at h
      | bad => simp [hv] at h
      | ok v1 r1 =>
        rw [hV _ _ _ hv]
        simp only [hv] at h ⊢
        cases hs1 : J.skipWs r1 with
        | nil => simp [hs1] at h
        | cons d ds =>
          simp only [hs1] at h ⊢
          by_cases hd : (d == 0x2C) = true
          · simp only [hd, ↓reduceIte] at h ⊢; exact hI _ _ _ _ _ h
          · have hd' : (d == 0x2C) = false := by simpa using hd
            simp only [hd', Bool.false_eq_true, ↓reduceIte] at h ⊢
            exact h

theorem sm_step (f : Nat) (hV : SV f) (hM : SM f) : SM (f + 1) := by
  intro b acc first v r h
  rw [J.members] at h ⊢
  cases hsk : J.skipWs b with
  | nil => simp [hsk] at h
  | cons c cs =>
    simp only [hsk] at h ⊢
    by_cases hc : (c == 0x7D && (first || !true)) = true
    · simp only [hc, ↓reduceIte] at h ⊢; exact h
    · have hc' : (c == 0x7D && (first || !true)) = false := by simpa using hc
      simp only [hc', Bool.false_eq_true, ↓reduceIte] at h ⊢
      by_cases hq : (c != 0x22) = true
      · simp [hq] at h
      · have hq' : (c != 0x22) = false := by simpa using hq
        simp only [hq', Bool.false_eq_true, ↓reduceIte] at h ⊢
        cases hstr : J.str true cs [] with
        | more => simp [hstr] at h
        | bad => simp [hstr] at h
        | ok key r0 =>
          simp only [hstr] at h ⊢
          cases hs0 : J.skipWs r0 with
          | nil => simp [hs0] at h
          | cons d ds =>
            simp only [hs0] at h ⊢
            by_cases hcol : (d != 0x3A) = true
            · simp [hcol] at h
            · have hcol' : (d != 0x3A) = false := by simpa using hcol
              simp only [hcol', Bool.false_eq_true, ↓reduceIte] at h ⊢
              cases hv : J.value true f ds with
              | more => simp [hv] at h
              | bad => simp [hv] at h
              | ok v1 r1 =>
                rw [hV _ _ _ hv]
                simp only [hv] at h ⊢
                cases hs1 : J.skipWs r1 with
                | nil => simp [hs1] at h
                | cons g gs =>
                  simp only [hs1] at h ⊢
                  by_cases hd : (g == 0x2C) = true
                  · simp only [hd, ↓reduceIte] at h ⊢; exact hM _ _ _ _ _ h
                  · have hd' : (g == 0x2C) = false := by simpa using hd
                    simp only [hd', Bool.false_eq_true, ↓reduceIte] at h ⊢
                    exact h

theorem spec_fuel_all : ∀ f, SV f ∧ SI f ∧ SM f := by
  intro f
  induction f with
  | zero =>
    refine ⟨?_, ?_, ?_⟩
    · intro b v r h; simp [J.value] at h
    · intro b acc first v r h; simp [J.items] at h
    · intro b acc first v r h; simp [J.members] at h
  | succ f ih =>
    obtain ⟨hV, hI, hM⟩ := ih
    exact ⟨sv_step f hI hM, si_step f hV hI, sm_step f hV hM⟩

/-- a value recognised with fuel `f` is recognised, with the same tree and rest, with any larger fuel -/
theorem value_fuel_le (f g : Nat) (hfg : f ≤ g) (b : Bytes) (v : J.JVal) (r : Bytes)
    (h : J.value true f b = .ok v r) : J.value true g b = .ok v r := by
  obtain ⟨d, rfl⟩ := Nat.exists_eq_add_of_le hfg
  induction d with
  | zero => exact h
  | succ d ih => exact (spec_fuel_all (f + d)).1 b v r (ih (by omega))

/-! ### one complete value, at any sufficient scanner fuel -/

theorem finish_run (lvl t : Nat) (X : Option Bytes × PState) (r : Bytes) (h : X.1 = some r) :
    (finishAny false lvl t X).1 = some (J.skipWs r) ∧
    (finishAny false lvl t X).2.currPath = X.2.currPath ∧
    (finishAny false lvl t X).2.querySatisfied = X.2.querySatisfied := by
  obtain ⟨o, s2⟩ := X
  simp only at h
  subst h
  exact ⟨(finishAny_some false lvl t r s2).1, finishAny_currPath _ _ _, finishAny_qs _ _ _⟩

/-- a literal `w` at the head of the input -/
theorem lit_run (w : Bytes) (lvl t : Nat) (y r : Bytes) (st : PState) (u : Unit) (h : J.lit w y = .ok u r) (hw : 0 < w.length) :
    (finishAny false lvl t (consumeConst y w st)).1 = some (J.skipWs r) ∧
    (finishAny false lvl t (consumeConst y w st)).2.currPath = st.currPath ∧
    (finishAny false lvl t (consumeConst y w st)).2.querySatisfied = st.querySatisfied ∧ r.length < y.length := by
  have hb := lit_ok_iff _ _ _ h
  have hc := consumeConst_ok w y r st hb
  obtain ⟨f1, f2, f3⟩ := finish_run lvl t (consumeConst y w st) r (by rw [hc])
  refine ⟨f1, by rw [f2, hc]; rfl, by rw [f3, hc]; rfl, ?_⟩
  rw [hb]; simp; omega

/-- one value with spec and scanner at the same fuel; a delimiter is needed after numbers only -/
theorem value_step_nd (hne : qs.isEmpty = false) (hq : ValsQuoted qs) (G L : Nat) (b : Bytes) (v : J.JVal) (r : Bytes)
    (s : PState) (hv : J.value true (G + 1) b = .ok v r) (hd : v = .num → Delim r) (hcap : CapOK cap L (J.depth v)) :
    (consumeAny qs cap (G + 1) L b s).1 = some (J.skipWs r) ∧
    (consumeAny qs cap (G + 1) L b s).2.currPath = s.currPath ∧
    (consumeAny qs cap (G + 1) L b s).2.querySatisfied = (s.querySatisfied || qsatV qs s.currPath v) ∧
    r.length < b.length := by
  by_cases hD : Delim r
  · obtain ⟨a1, _, a3⟩ := (forward_all qs cap (G + 1)).1 L b v r s hv hD hcap
    obtain ⟨q1, q2⟩ := (query_all qs hne hq cap (G + 1)).1 L b v r s hv hD hcap
    exact ⟨a1, q1, q2, a3⟩
  · have hnn : v ≠ .num := fun e => hD (hd e)
    have hpass := capOK_pass hcap
    rw [J.value] at hv
    cases hsk : J.skipWs b with
    | nil => simp [hsk] at hv
    | cons c cs =>
      simp only [hsk] at hv
      have hlb := skipWs_length_le b
      rw [hsk] at hlb
      simp only [List.length_cons] at hlb
      rw [consumeAny_eq]
      simp only [hpass, Bool.false_eq_true, ↓reduceIte]
      rw [spaceScan_val, hsk]
      simp only [anyHead, finishScan, hne]
      generalize hst : (s.enter L).bump (b.length - (c :: cs).length) = st
      have hp : st.currPath = s.currPath := by rw [← hst]; rfl
      have hf : st.querySatisfied = s.querySatisfied := by rw [← hst]; rfl
      rcases classify_cases c with ⟨rfl, hk⟩ | ⟨rfl, hk⟩ | ⟨rfl, hk⟩ | ⟨rfl, hk⟩ | ⟨rfl, hk⟩ | ⟨rfl, hk⟩ | ⟨n1, n2, n3, n4, n5, n6, hk⟩
      · -- string
        simp only [hk, kindScan]
        simp only [beq_self_eq_true, ↓reduceIte] at hv
        cases hstr : J.str true cs [] with
        | more => simp [hstr] at hv
        | bad => simp [hstr] at hv
        | ok body r' =>
          simp only [hstr, J.R.ok.injEq] at hv
          obtain ⟨rfl, rfl⟩ := hv
          obtain ⟨k1, k2⟩ := str_forward true cs [] body r' st.bump hstr
          obtain ⟨f1, f2, f3⟩ := finish_run L Kind.str.tok (consumeString .norm cs st.bump) r' (by rw [k1])
          refine ⟨f1, ?_, ?_, by omega⟩
          · rw [f2, k1]; exact hp
          · rw [f3, k1]; simp only [qsatV, Bool.or_false]; exact hf
      · -- array
        simp only [hk, kindScan]
        simp only [show ((0x5B : Nat) == 0x22) = false by decide, Bool.false_eq_true, ↓reduceIte, beq_self_eq_true] at hv
        obtain ⟨xs, rfl⟩ := items_arr true G cs [] true v r hv
        have hnec : cs.isEmpty = false := by
          cases cs with
          | nil => cases G <;> simp [J.items, J.skipWs] at hv
          | cons _ _ => rfl
        simp only [hnec, Bool.false_eq_true, ↓reduceIte]
        have hx : ∀ x ∈ xs, CapOK cap (L + 1) (J.depth x) := by
          intro x hx
          rcases hcap with h | h
          · exact Or.inl h
          · right
            have := depth_mem_list x xs hx
            simp only [J.depth] at h
            omega
        obtain ⟨i1, _, i3⟩ := (forward_all qs cap G).2.1 (L + 1) cs [] true xs r (st.bump.push [0x5B]) hv hx
        obtain ⟨ys, e1, e2, e3⟩ := (query_all qs hne hq cap G).2.1 (L + 1) cs [] true xs r (st.bump.push [0x5B]) hv hx
        simp only [List.reverse_nil, List.nil_append] at e1
        subst e1
        obtain ⟨f1, f2, f3⟩ := finish_run L Kind.arr.tok (arrayLoop qs cap G (L + 1) cs (st.bump.push [0x5B])) r i1
        refine ⟨f1, ?_, ?_, by omega⟩
        · rw [f2, e2]; simp [hp]
        · rw [f3, e3]; simp [hp, hf, qsatV]
      · -- object
        simp only [hk, kindScan]
        simp only [show ((0x7B : Nat) == 0x22) = false by decide, show ((0x7B : Nat) == 0x5B) = false by decide,
          Bool.false_eq_true, ↓reduceIte, beq_self_eq_true] at hv
        obtain ⟨ms, rfl⟩ := members_obj true G cs [] true v r hv
        have hx : ∀ m ∈ ms, CapOK cap (L + 1) (J.depth m.2) := by
          intro m hm
          rcases hcap with h | h
          · exact Or.inl h
          · right
            have := depth_mem_members m.1 m.2 ms (by simpa using hm)
            simp only [J.depth] at h
            omega
        obtain ⟨i1, _, i3⟩ := (forward_all qs cap G).2.2 (L + 1) cs [] true ms r st.bump hv hx
        obtain ⟨ns, e1, e2, e3⟩ := (query_all qs hne hq cap G).2.2 (L + 1) cs [] true ms r st.bump hv hx
        simp only [List.reverse_nil, List.nil_append] at e1
        subst e1
        obtain ⟨f1, f2, f3⟩ := finish_run L Kind.obj.tok (objectLoop qs cap G (L + 1) cs st.bump) r i1
        refine ⟨f1, ?_, ?_, by omega⟩
        · rw [f2, e2]; simp [hp]
        · rw [f3, e3]; simp [hp, hf, qsatV]
      · -- true
        simp only [hk, kindScan]
        simp only [show ((0x74 : Nat) == 0x22) = false by decide, show ((0x74 : Nat) == 0x5B) = false by decide,
          show ((0x74 : Nat) == 0x7B) = false by decide, Bool.false_eq_true, ↓reduceIte, beq_self_eq_true] at hv
        cases hl : J.lit [0x74, 0x72, 0x75, 0x65] (0x74 :: cs) with
        | more => simp [hl] at hv
        | bad => simp [hl] at hv
        | ok u r' =>
          simp only [hl, J.R.ok.injEq] at hv
          obtain ⟨rfl, rfl⟩ := hv
          obtain ⟨f1, f2, f3, f4⟩ := lit_run wTrue L Kind.litT.tok _ _ st u hl (by decide)
          simp only [List.length_cons] at f4
          exact ⟨f1, by rw [f2, hp], by rw [f3, hf]; simp [qsatV], by omega⟩
      · -- false
        simp only [hk, kindScan]
        simp only [show ((0x66 : Nat) == 0x22) = false by decide, show ((0x66 : Nat) == 0x5B) = false by decide,
          show ((0x66 : Nat) == 0x7B) = false by decide, show ((0x66 : Nat) == 0x74) = false by decide, Bool.false_eq_true,
          ↓reduceIte, beq_self_eq_true] at hv
        cases hl : J.lit [0x66, 0x61, 0x6C, 0x73, 0x65] (0x66 :: cs) with
        | more => simp [hl] at hv
        | bad => simp [hl] at hv
        | ok u r' =>
          simp only [hl, J.R.ok.injEq] at hv
          obtain ⟨rfl, rfl⟩ := hv
          obtain ⟨f1, f2, f3, f4⟩ := lit_run wFalse L Kind.litF.tok _ _ st u hl (by decide)
          simp only [List.length_cons] at f4
          exact ⟨f1, by rw [f2, hp], by rw [f3, hf]; simp [qsatV], by omega⟩
      · -- null
        simp only [hk, kindScan]
        simp only [show ((0x6E : Nat) == 0x22) = false by decide, show ((0x6E : Nat) == 0x5B) = false by decide,
          show ((0x6E : Nat) == 0x7B) = false by decide, show ((0x6E : Nat) == 0x74) = false by decide,
          show ((0x6E : Nat) == 0x66) = false by decide, Bool.false_eq_true, ↓reduceIte, beq_self_eq_true] at hv
        cases hl : J.lit [0x6E, 0x75, 0x6C, 0x6C] (0x6E :: cs) with
        | more => simp [hl] at hv
        | bad => simp [hl] at hv
        | ok u r' =>
          simp only [hl, J.R.ok.injEq] at hv
          obtain ⟨rfl, rfl⟩ := hv
          obtain ⟨f1, f2, f3, f4⟩ := lit_run wNull L Kind.litN.tok _ _ st u hl (by decide)
          simp only [List.length_cons] at f4
          exact ⟨f1, by rw [f2, hp], by rw [f3, hf]; simp [qsatV], by omega⟩
      · -- number: excluded, a number is followed by a delimiter
        exfalso
        have e1 : (c == 0x22) = false := by simpa using n1
        have e2 : (c == 0x5B) = false := by simpa using n2
        have e3 : (c == 0x7B) = false := by simpa using n3
        have e4 : (c == 0x74) = false := by simpa using n4
        have e5 : (c == 0x66) = false := by simpa using n5
        have e6 : (c == 0x6E) = false := by simpa using n6
        simp only [e1, e2, e3, e4, e5, e6, Bool.false_eq_true, ↓reduceIte] at hv
        cases hn : J.numStrict (c :: cs) with
        | more => simp [hn] at hv
        | bad => simp [hn] at hv
        | ok u r' =>
          simp only [hn, J.R.ok.injEq] at hv
          exact hnn hv.1.symm

/-- the scanner on a complete RFC 8259 value (followed by a delimiter if it is a number): result,
    path and flag (`forward_all` + `query_all`, with the fuels of the two sides decoupled) -/
theorem value_run (hne : qs.isEmpty = false) (hq : ValsQuoted qs) (f F L : Nat) (ds : Bytes) (v : J.JVal) (r2 : Bytes)
    (s : PState) (hv : J.value true f ds = .ok v r2) (hd : v = .num → Delim r2) (hcap : CapOK cap L (J.depth v))
    (hF : 2 * ds.length + 1 ≤ F) :
    (consumeAny qs cap F L ds s).1 = some (J.skipWs r2) ∧
    (consumeAny qs cap F L ds s).2.currPath = s.currPath ∧
    (consumeAny qs cap F L ds s).2.querySatisfied = (s.querySatisfied || qsatV qs s.currPath v) ∧
    r2.length < ds.length := by
  obtain ⟨G, hG⟩ : ∃ G, max f F = G + 1 := ⟨max f F - 1, by have := Nat.le_max_right f F; omega⟩
  have hv' := value_fuel_le f (G + 1) (by rw [← hG]; exact Nat.le_max_left _ _) ds v r2 hv
  rw [consumeAny_fuel qs cap L ds s F (G + 1) hF (by have := Nat.le_max_right f F; omega)]
  exact value_step_nd qs cap hne hq G L ds v r2 s hv' hd hcap

/-! ### Step 2 — "the deciding member has been read", as a grammar over bytes -/

/-- `Decided qs n path b`: `b` = the bytes after a `{` whose key path is `path`. They consist of
    complete members `"key" : value ,` and then a member that decides a query of `qs`: either its
    complete value does (`hit`), or its value is an object whose opening `{` is followed by
    `Decided` bytes (`inner`; that object need not be complete).  What follows the deciding
    member is arbitrary (e.g. the cut-off remainder of the document), except that after a deciding
    *number* it must not continue the number literal (`Delim`: no digit, `.`, `e`, `E`).  `n` bounds the nesting depth of the complete member
    values (so that the recursion cap can be stated). -/
inductive Decided (qs : List Query) : Nat → List Bytes → Bytes → Prop
  | hit (n : Nat) (path : List Bytes) (b cs key r ds : Bytes) (v : J.JVal) (r2 : Bytes) :
      J.skipWs b = 0x22 :: cs → J.str true cs [] = .ok key r → J.skipWs r = 0x3A :: ds →
      (∃ f, J.value true f ds = .ok v r2) → (v = .num → Delim r2) → J.depth v ≤ n →
      (matchHere qs (path ++ [key]) v || qsatV qs (path ++ [key]) v) = true → Decided qs n path b
  | skip (n : Nat) (path : List Bytes) (b cs key r ds : Bytes) (v : J.JVal) (r2 b' : Bytes) :
      J.skipWs b = 0x22 :: cs → J.str true cs [] = .ok key r → J.skipWs r = 0x3A :: ds →
      (∃ f, J.value true f ds = .ok v r2) → J.depth v ≤ n → J.skipWs r2 = 0x2C :: b' →
      Decided qs n path b' → Decided qs n path b
  | inner (n : Nat) (path : List Bytes) (b cs key r ds b' : Bytes) :
      J.skipWs b = 0x22 :: cs → J.str true cs [] = .ok key r → J.skipWs r = 0x3A :: ds →
      J.skipWs ds = 0x7B :: b' → Decided qs n (path ++ [key]) b' → Decided qs (n + 1) path b

theorem Decided.mono {qs : List Query} {n : Nat} {path : List Bytes} {b : Bytes} (h : Decided qs n path b) :
    ∀ m, n ≤ m → Decided qs m path b := by
  induction h with
  | hit n path b cs key r ds v r2 h1 h2 h3 h4 h5 h6 h7 =>
    intro m hm; exact .hit m path b cs key r ds v r2 h1 h2 h3 h4 h5 (by omega) h7
  | skip n path b cs key r ds v r2 b' h1 h2 h3 h4 h5 h6 _ ih =>
    intro m hm; exact .skip m path b cs key r ds v r2 b' h1 h2 h3 h4 (by omega) h6 (ih m hm)
  | inner n path b cs key r ds b' h1 h2 h3 h4 _ ih =>
    intro m hm
    obtain ⟨m', rfl⟩ : ∃ m', m = m' + 1 := ⟨m - 1, by omega⟩
    exact .inner m' path b cs key r ds b' h1 h2 h3 h4 (ih m' (by omega))

/-! ### Step 3 — the scanner sets the flag on `Decided` input -/

theorem objAfterVal_flag (F L : Nat) (qm : Option Query) (tag r2 : Bytes) (s6 : PState)
    (h : (applyQuery qm tag s6).querySatisfied = true) :
    (objAfterVal qs cap F L qm tag r2 s6).2.querySatisfied = true := by
  cases r2 with
  | nil => exact h
  | cons g gs =>
    simp only [objAfterVal]
    split
    · exact (flag_mono qs cap F).2.2 _ _ _ h
    · split
      · exact h
      · exact h

theorem objValue_flag (F L : Nat) (qm : Option Query) (y : Bytes) (s5 : PState)
    (h : (consumeAny qs cap F L y s5).2.querySatisfied = true) :
    (objValue qs cap F L qm y s5).2.querySatisfied = true := by
  cases y with
  | nil =>
    cases F with
    | zero => exact h
    | succ F' =>
      rw [consumeAny] at h
      simp only [consumeSpace] at h
      split at h <;> exact h
  | cons e es =>
    simp only [objValue]
    generalize consumeAny qs cap F L (e :: es) s5 = res at h
    obtain ⟨o, s6⟩ := res
    cases o with
    | none => exact h
    | some r2 => exact objAfterVal_flag qs cap F L qm _ r2 s6 (applyQuery_mono _ _ _ h)

/-- `consumeObject` up to the value of its first member `"key" :` -/
theorem obj_to_value (F L : Nat) (b cs key r ds : Bytes) (s : PState)
    (h1 : J.skipWs b = 0x22 :: cs) (h2 : J.str true cs [] = .ok key r) (h3 : J.skipWs r = 0x3A :: ds) :
    ∃ s5, objectLoop qs cap (F + 1) L b s =
        objValue qs cap F L (if s.querySatisfied then none else queryPathMatch qs (s.currPath ++ [key])) (J.skipWs ds) s5 ∧
      s5.currPath = s.currPath ++ [key] ∧ s5.querySatisfied = s.querySatisfied := by
  rw [objectLoop_eq, spaceScan_val, h1]
  simp only [objHead, show ((0x22 : Nat) == 0x7D) = false by decide, show ((0x22 : Nat) != 0x22) = false by decide,
    Bool.false_eq_true, ↓reduceIte]
  obtain ⟨k1, _⟩ := str_forward true cs [] key r (s.bump (b.length - (0x22 :: cs).length)).bump h2
  rw [k1]
  simp only [objAfterKey]
  rw [consumed_key cs key r (by simpa using str_body true cs [] key r h2), spaceScan_val, h3]
  simp only [objColon, show ((0x3A : Nat) != 0x3A) = false by decide, Bool.false_eq_true, ↓reduceIte]
  rw [spaceScan_val]
  simp only [push_currPath, bump_currPath, push_qs, bump_qs]
  exact ⟨_, rfl, by simp, by simp⟩

/-- `consumeObject` on a complete first member: the flag after the member, and how the loop goes on -/
theorem member_run (hne : qs.isEmpty = false) (hq : ValsQuoted qs) (F L : Nat) (b cs key r ds : Bytes) (v : J.JVal)
    (r2 : Bytes) (s : PState)
    (h1 : J.skipWs b = 0x22 :: cs) (h2 : J.str true cs [] = .ok key r) (h3 : J.skipWs r = 0x3A :: ds)
    (h4 : ∃ f, J.value true f ds = .ok v r2) (hd : v = .num → Delim r2) (hcap : CapOK cap L (J.depth v))
    (hF : 2 * b.length + 2 ≤ F + 1) :
    ∃ (qm : Option Query) (tag : Bytes) (s6 : PState),
      objectLoop qs cap (F + 1) L b s = objAfterVal qs cap F L qm tag (J.skipWs r2) s6 ∧
      (applyQuery qm tag s6).currPath = s.currPath ++ [key] ∧
      (applyQuery qm tag s6).querySatisfied =
        ((s.querySatisfied || qsatV qs (s.currPath ++ [key]) v) || matchHere qs (s.currPath ++ [key]) v) ∧
      r2.length + 4 ≤ b.length := by
  obtain ⟨f, hv⟩ := h4
  obtain ⟨s5, e5, p5, q5⟩ := obj_to_value qs cap F L b cs key r ds s h1 h2 h3
  have l1 := skipWs_length_le b
  have l2 := (str_forward true cs [] key r s h2).2
  have l3 := skipWs_length_le r
  have l4 := skipWs_length_le ds
  rw [h1] at l1
  rw [h3] at l3
  simp only [List.length_cons] at l1 l3
  cases hs2 : J.skipWs ds with
  | nil =>
    exfalso
    rw [value_skipWs, hs2] at hv
    cases f <;> simp [J.value, J.skipWs] at hv
  | cons e es =>
    rw [hs2] at e5 l4
    have hv' : J.value true f (e :: es) = .ok v r2 := by rw [← hs2, ← value_skipWs]; exact hv
    have hesp : isSpace e = false := by rw [isSpace_eq_ws]; exact skipWs_head ds e es hs2
    obtain ⟨a1, a2, a3, a4⟩ := value_run qs cap hne hq f F L (e :: es) v r2 s5 hv' hd hcap (by omega)
    have hvt := valText_of_value f e es v r2 hv' hesp a4
    rw [e5]
    simp only [objValue]
    generalize consumeAny qs cap F L (e :: es) s5 = res at a1 a2 a3
    obtain ⟨o, s6⟩ := res
    simp only at a1 a2 a3
    subst a1
    simp only
    have hmono : s.querySatisfied = true → s6.querySatisfied = true := by
      intro h; rw [a3, q5, h]; rfl
    obtain ⟨m1, m2⟩ := member_effect qs hq (s.currPath ++ [key]) s.querySatisfied _ v s6 hvt (by rw [a2, p5]) hmono
    refine ⟨_, _, s6, rfl, m1, ?_, by omega⟩
    rw [m2, a3, q5, p5]

/-- **the scanner sets the flag on `Decided` input**, whatever follows the deciding member and
    whatever the scanner's result -/
theorem decided_sets (hne : qs.isEmpty = false) (hq : ValsQuoted qs) {n : Nat} {path : List Bytes} {b : Bytes}
    (h : Decided qs n path b) :
    ∀ (F L : Nat) (s : PState), s.currPath = path → (cap = 0 ∨ L + n ≤ cap) → 2 * b.length + 2 ≤ F →
      (objectLoop qs cap F L b s).2.querySatisfied = true := by
  induction h with
  | hit n path b cs key r ds v r2 h1 h2 h3 h4 h5 h6 h7 =>
    intro F L s hp hc hF
    obtain ⟨F', rfl⟩ : ∃ F', F = F' + 1 := ⟨F - 1, by omega⟩
    have hcap : CapOK cap L (J.depth v) := by rcases hc with h | h; exact Or.inl h; exact Or.inr (by omega)
    obtain ⟨qm, tag, s6, e, _, m2, _⟩ := member_run qs cap hne hq F' L b cs key r ds v r2 s h1 h2 h3 h4 h5 hcap hF
    rw [e]
    apply objAfterVal_flag
    rw [m2, hp]
    rw [Bool.or_comm] at h7
    cases hs : s.querySatisfied
    · simpa using h7
    · rfl
  | skip n path b cs key r ds v r2 b' h1 h2 h3 h4 h5 h6 _ ih =>
    intro F L s hp hc hF
    obtain ⟨F', rfl⟩ : ∃ F', F = F' + 1 := ⟨F - 1, by omega⟩
    have hcap : CapOK cap L (J.depth v) := by rcases hc with h | h; exact Or.inl h; exact Or.inr (by omega)
    have hd : v = .num → Delim r2 := fun _ => delim_of_skipWs r2 _ _ h6 (Or.inl rfl)
    obtain ⟨qm, tag, s6, e, m1, _, hl⟩ := member_run qs cap hne hq F' L b cs key r ds v r2 s h1 h2 h3 h4 hd hcap hF
    rw [e, h6]
    simp only [objAfterVal, beq_self_eq_true, ↓reduceIte]
    have l5 := skipWs_length_le r2
    rw [h6] at l5
    simp only [List.length_cons] at l5
    apply ih F' L _ _ hc (by omega)
    simp only [bump_currPath, pop_currPath]
    rw [m1, hp]
    simp
  | inner n path b cs key r ds b' h1 h2 h3 h4 _ ih =>
    intro F L s hp hc hF
    obtain ⟨F', rfl⟩ : ∃ F', F = F' + 1 := ⟨F - 1, by omega⟩
    obtain ⟨s5, e5, p5, _⟩ := obj_to_value qs cap F' L b cs key r ds s h1 h2 h3
    have l1 := skipWs_length_le b
    have l2 := (str_forward true cs [] key r s h2).2
    have l3 := skipWs_length_le r
    have l4 := skipWs_length_le ds
    rw [h1] at l1
    rw [h3] at l3
    rw [h4] at l4
    simp only [List.length_cons] at l1 l3 l4
    rw [e5]
    apply objValue_flag
    rw [h4]
    obtain ⟨F'', rfl⟩ : ∃ F'', F' = F'' + 1 := ⟨F' - 1, by omega⟩
    have hpass : (cap != 0 && decide (L > cap)) = false := by
      rcases hc with h | h
      · simp [h]
      · simp; omega
    rw [consumeAny_eq]
    simp only [hpass, Bool.false_eq_true, ↓reduceIte]
    rw [spaceScan_val]
    have hsk : J.skipWs (0x7B :: b') = 0x7B :: b' := by simp [J.skipWs, J.ws]
    rw [hsk]
    simp only [anyHead, finishScan, show classify 0x7B = .obj by decide, kindScan]
    apply finishAny_mono
    apply ih F'' (L + 1) _ _ (by rcases hc with h | h; exact Or.inl h; exact Or.inr (by omega)) (by omega)
    simp only [bump_currPath, enter_currPath]
    rw [p5, hp]

/-! ### Step 4 — the detectors on a truncated document -/

/-- the scanner's run on a whole RFC 8259 document, for any queries: everything consumed, every
    byte counted (`C08.run_on_doc` for arbitrary `qs`) -/
theorem run_on_doc (D : Bytes) (v : J.JVal) (hdoc : J.doc true D = some v) (hdepth : J.depth v ≤ maxRecursion) :
    ∃ s', consumeAny qs maxRecursion (J.fuelFor D) 0 D PState.fresh.reset = (some [], s') ∧ s'.ib = D.length := by
  obtain ⟨c, cs, r, hsk, hc, hval, hr⟩ := C08.doc_inv D v hdoc
  have hfw := (forward_all qs maxRecursion (J.fuelFor D)).1 0 D v r PState.fresh.reset hval
    (delim_of_ws_only r (by simp [hr])) (Or.inr (by omega))
  obtain ⟨f1, f2, _⟩ := hfw
  rw [hr] at f1 f2
  generalize consumeAny qs maxRecursion (J.fuelFor D) 0 D PState.fresh.reset = res at f1 f2
  obtain ⟨o, s'⟩ := res
  simp only at f1 f2
  subst f1
  exact ⟨s', rfl, by rw [f2]; simp [PState.reset, PState.fresh]⟩

/-- every byte of a cut of an RFC 8259 document is inspected, for any queries
    (the `inspected == len` half of `C08.strict_accepts_truncated`) -/
theorem inspected_truncated (D : Bytes) (v : J.JVal) (lim : Nat)
    (hdoc : J.doc true D = some v) (hdepth : J.depth v ≤ maxRecursion) (hlim : lim ≤ D.length) :
    (consumeAny qs maxRecursion (fuelFor (D.take lim)) 0 (D.take lim) PState.fresh.reset).2.ib = lim := by
  obtain ⟨s', hrun, hib⟩ := run_on_doc qs D v hdoc hdepth
  have hlenP : (D.take lim).length = lim := by simp; omega
  have law := (prefix_all qs maxRecursion (J.fuelFor D)).1 0 D PState.fresh.reset [] s' hrun
  have hfuel := consumeAny_fuel qs maxRecursion 0 (D.take lim) PState.fresh.reset
    (fuelFor (D.take lim)) (J.fuelFor D) (by simp [fuelFor]) (by simp only [J.fuelFor, hlenP]; omega)
  rw [hfuel]
  obtain ⟨_, _, l3⟩ := law
  simp only [List.length_nil, Nat.sub_zero] at l3
  by_cases hk : lim < D.length
  · have := ((l3 lim).1 hk).1
    rw [this]; simp [PState.reset, PState.fresh]
  · have := (l3 lim).2 (by omega)
    rw [this, hib]; omega

/-- the flag after the top-level call on `{` followed by `Decided` bytes -/
theorem top_decided (hne : qs.isEmpty = false) (hq : ValsQuoted qs) (P b : Bytes) (n : Nat) (s : PState)
    (hopen : J.skipWs P = 0x7B :: b) (hdec : Decided qs n [] b) (hcap : cap = 0 ∨ 1 + n ≤ cap)
    (hs : s.currPath = []) :
    (consumeAny qs cap (fuelFor P) 0 P s).2.querySatisfied = true := by
  have hl := skipWs_length_le P
  rw [hopen] at hl
  simp only [List.length_cons] at hl
  have hff : fuelFor P = (2 * P.length + 3) + 1 := by simp [fuelFor]
  have hpass : (cap != 0 && decide (0 > cap)) = false := by simp
  rw [hff, consumeAny_eq]
  simp only [hpass, Bool.false_eq_true, ↓reduceIte]
  rw [spaceScan_val, hopen]
  simp only [anyHead, finishScan, show classify 0x7B = .obj by decide, kindScan]
  apply finishAny_mono
  apply decided_sets qs cap hne hq hdec _ 1 _ _ (by simpa using hcap) (by omega)
  simp only [bump_currPath, enter_currPath]
  exact hs

/-- **C10 (truncated)**: when only the first `lim` bytes of an RFC 8259 document (nesting depth
    within the cap) are examined, they start (after white space) with `{`, and the member that
    decides a query of `qs` lies inside them (`Decided`), the detector built from `qs` answers
    "yes" — wherever the cut falls after that member -/
theorem subtype_truncated (qs : List Query) (hne : qs.isEmpty = false) (hq : ValsQuoted qs)
    (D : Bytes) (v : J.JVal) (lim : Nat) (b : Bytes) (n : Nat)
    (hdoc : J.doc true D = some v) (hdepth : J.depth v ≤ maxRecursion)
    (hlim : lim ≤ D.length) (hlim0 : lim ≠ 0)
    (hopen : J.skipWs (D.take lim) = 0x7B :: b)
    (hdec : Decided qs n [] b) (hn : n < maxRecursion) :
    jsonHelper (D.take lim) lim qs tokObject = true := by
  have hlenP : (D.take lim).length = lim := by simp; omega
  have hlook := C08.looksLike_of_skipWs _ _ _ hopen (Or.inl rfl)
  have hib := inspected_truncated qs D v lim hdoc hdepth hlim
  have hflag := top_decided qs maxRecursion hne hq (D.take lim) b n PState.fresh.reset hopen hdec
    (Or.inr (by omega)) rfl
  have hff : fuelFor (D.take lim) = (2 * (D.take lim).length + 3) + 1 := by simp [fuelFor]
  have hfirst := C10Base.top_first qs maxRecursion (2 * (D.take lim).length + 3) (D.take lim) PState.fresh.reset
    0x7B b hopen (by decide)
  rw [← hff] at hfirst
  unfold jsonHelper parse parseWith
  simp only [hlook, Bool.not_true, Bool.false_eq_true, ↓reduceIte]
  generalize consumeAny qs maxRecursion (fuelFor (D.take lim)) 0 (D.take lim) PState.fresh.reset = res
    at hib hflag hfirst
  obtain ⟨rv, sP⟩ := res
  simp only at hib hflag hfirst ⊢
  have htok : ((classify 0x7B).tok &&& tokObject == 0) = false := by decide
  simp only [hflag, Bool.not_true, Bool.false_or, hfirst, htok, Bool.false_eq_true, ↓reduceIte, hlenP, hib]
  simp [hlim0]
  omega

/-- **GeoJSON, truncated** -/
theorem geo_truncated (D : Bytes) (v : J.JVal) (lim : Nat) (b : Bytes) (n : Nat)
    (hdoc : J.doc true D = some v) (hdepth : J.depth v ≤ maxRecursion) (hlim : lim ≤ D.length) (hlim0 : lim ≠ 0)
    (hopen : J.skipWs (D.take lim) = 0x7B :: b) (hdec : Decided q_geo n [] b) (hn : n < maxRecursion) :
    jsonHelper (D.take lim) lim q_geo tokObject = true :=
  subtype_truncated q_geo (by decide) C10Base.quoted_geo D v lim b n hdoc hdepth hlim hlim0 hopen hdec hn

/-- **HAR, truncated** -/
theorem har_truncated (D : Bytes) (v : J.JVal) (lim : Nat) (b : Bytes) (n : Nat)
    (hdoc : J.doc true D = some v) (hdepth : J.depth v ≤ maxRecursion) (hlim : lim ≤ D.length) (hlim0 : lim ≠ 0)
    (hopen : J.skipWs (D.take lim) = 0x7B :: b) (hdec : Decided q_har n [] b) (hn : n < maxRecursion) :
    jsonHelper (D.take lim) lim q_har tokObject = true :=
  subtype_truncated q_har (by decide) C10Base.quoted_har D v lim b n hdoc hdepth hlim hlim0 hopen hdec hn

/-- **glTF, truncated** -/
theorem gltf_truncated (D : Bytes) (v : J.JVal) (lim : Nat) (b : Bytes) (n : Nat)
    (hdoc : J.doc true D = some v) (hdepth : J.depth v ≤ maxRecursion) (hlim : lim ≤ D.length) (hlim0 : lim ≠ 0)
    (hopen : J.skipWs (D.take lim) = 0x7B :: b) (hdec : Decided q_gltf n [] b) (hn : n < maxRecursion) :
    jsonHelper (D.take lim) lim q_gltf tokObject = true :=
  subtype_truncated q_gltf (by decide) C10Base.quoted_gltf D v lim b n hdoc hdepth hlim hlim0 hopen hdec hn

/-! ### readable sufficient conditions for `Decided` -/

/-- `b` starts (after white space) with the complete member `"key" : v`; `r2` is what follows the value -/
def IsMember (b key : Bytes) (v : J.JVal) (r2 : Bytes) : Prop :=
  ∃ cs r ds, J.skipWs b = 0x22 :: cs ∧ J.str true cs [] = .ok key r ∧ J.skipWs r = 0x3A :: ds ∧
    ∃ f, J.value true f ds = .ok v r2

/-- `b` starts (after white space) with `"key" : {`; `b'` is what follows the brace -/
def OpensObject (b key b' : Bytes) : Prop :=
  ∃ cs r ds, J.skipWs b = 0x22 :: cs ∧ J.str true cs [] = .ok key r ∧ J.skipWs r = 0x3A :: ds ∧
    J.skipWs ds = 0x7B :: b'

/-- `Members n b b'`: `b` starts with complete members (values of nesting depth at most `n`), each
    followed by a comma; `b'` is what follows the last of these commas -/
inductive Members (n : Nat) : Bytes → Bytes → Prop
  | done (b : Bytes) : Members n b b
  | more (b key : Bytes) (v : J.JVal) (r2 b' b'' : Bytes) :
      IsMember b key v r2 → J.depth v ≤ n → J.skipWs r2 = 0x2C :: b' → Members n b' b'' → Members n b b''

theorem Decided.of_members {qs : List Query} {n : Nat} {path : List Bytes} {b b' : Bytes}
    (hm : Members n b b') (hd : Decided qs n path b') : Decided qs n path b := by
  induction hm with
  | done b => exact hd
  | more b key v r2 b' b'' h1 h2 h3 _ ih =>
    obtain ⟨cs, r, ds, a1, a2, a3, a4⟩ := h1
    exact .skip n path b cs key r ds v r2 b' a1 a2 a3 a4 h2 h3 (ih hd)

theorem Decided.of_hit {qs : List Query} {n : Nat} {path : List Bytes} {b key : Bytes} {v : J.JVal} {r2 : Bytes}
    (hm : IsMember b key v r2) (hnum : v = .num → Delim r2) (hdep : J.depth v ≤ n)
    (hq : (matchHere qs (path ++ [key]) v || qsatV qs (path ++ [key]) v) = true) : Decided qs n path b := by
  obtain ⟨cs, r, ds, a1, a2, a3, a4⟩ := hm
  exact .hit n path b cs key r ds v r2 a1 a2 a3 a4 hnum hdep hq

theorem Decided.of_inner {qs : List Query} {n : Nat} {path : List Bytes} {b key b' : Bytes}
    (ho : OpensObject b key b') (hd : Decided qs n (path ++ [key]) b') : Decided qs (n + 1) path b := by
  obtain ⟨cs, r, ds, a1, a2, a3, a4⟩ := ho
  exact .inner n path b cs key r ds b' a1 a2 a3 a4 hd

/-- GeoJSON: complete members, then `"type" : "<one of the nine RFC 7946 names>"`, then anything -/
theorem decided_geo (n : Nat) (b b' name r2 : Bytes) (hm : Members n b b')
    (ht : IsMember b' (ofString "type") (.str name) r2) (hname : name ∈ J.geoNames) : Decided q_geo n [] b := by
  apply Decided.of_members hm
  apply Decided.of_hit ht (fun h => nomatch h) (by simp [J.depth])
  rw [C10Base.q_geo_eq, C10Base.kType_eq]
  simp only [List.nil_append, C10Base.geo_here, beq_self_eq_true, Bool.true_and, C10Base.geoVal]
  simp [hname]

/-- glTF: complete members, then `"asset" : {`, complete members, then `"version" : "1.0"` or
    `"2.0"`, then anything -/
theorem decided_gltf (n : Nat) (b b1 b2 b3 ver r2 : Bytes) (hm : Members (n + 1) b b1)
    (ho : OpensObject b1 (ofString "asset") b2) (hm2 : Members n b2 b3)
    (ht : IsMember b3 (ofString "version") (.str ver) r2) (hver : ver = ofString "1.0" ∨ ver = ofString "2.0") :
    Decided q_gltf (n + 1) [] b := by
  apply Decided.of_members hm
  apply Decided.of_inner ho
  apply Decided.of_members hm2
  apply Decided.of_hit ht (fun h => nomatch h) (by simp [J.depth])
  rw [C10Base.q_gltf_eq, C10Base.kAsset_eq, C10Base.kVersion_eq]
  simp only [List.nil_append, List.cons_append, C10Base.gltf_here2, beq_self_eq_true, Bool.true_and, C10Base.gltfVer]
  rcases hver with rfl | rfl
  · rw [C10Base.v10_eq]; simp
  · rw [C10Base.v20_eq]; simp

/-- HAR: complete members, then `"log" : {`, complete members, then a member named `version`,
    `creator` or `entries` with any complete value, then anything (not continuing a number) -/
theorem decided_har (n : Nat) (b b1 b2 b3 key : Bytes) (v : J.JVal) (r2 : Bytes) (hm : Members (n + 1) b b1)
    (ho : OpensObject b1 (ofString "log") b2) (hm2 : Members n b2 b3)
    (ht : IsMember b3 key v r2) (hkey : key = ofString "version" ∨ key = ofString "creator" ∨ key = ofString "entries")
    (hdep : J.depth v ≤ n) (hnum : v = .num → Delim r2) : Decided q_har (n + 1) [] b := by
  apply Decided.of_members hm
  apply Decided.of_inner ho
  apply Decided.of_members hm2
  apply Decided.of_hit ht hnum hdep
  rw [C10Base.q_har_eq, C10Base.kLog_eq]
  simp only [List.nil_append, List.cons_append, C10Base.har_here2, beq_self_eq_true, Bool.true_and]
  rcases hkey with rfl | rfl | rfl
  · rw [C10Base.kVersion_eq]; simp
  · rw [C10Base.kCreator_eq]; simp
  · rw [C10Base.kEntries_eq]; simp

/-! ### non-vacuity -/

/- the detectors on cut headers, evaluated -/
-- {"a":[1],"type":"Feature","geometry":{"ty
example : jsonHelper [123, 34, 97, 34, 58, 91, 49, 93, 44, 34, 116, 121, 112, 101, 34, 58, 34, 70, 101, 97, 116, 117, 114, 101, 34, 44, 34, 103, 101, 111, 109, 101, 116, 114, 121, 34, 58, 123, 34, 116, 121] 41 q_geo tokObject = true := by decide
-- {"asset":{"generator":"x","version":"2.0","copy
example : jsonHelper [123, 34, 97, 115, 115, 101, 116, 34, 58, 123, 34, 103, 101, 110, 101, 114, 97, 116, 111, 114, 34, 58, 34, 120, 34, 44, 34, 118, 101, 114, 115, 105, 111, 110, 34, 58, 34, 50, 46, 48, 34, 44, 34, 99, 111, 112, 121] 47 q_gltf tokObject = true := by decide
-- {"log":{"version":"1.2","creator":{"name":"x"},"entries":[],"pag
example : jsonHelper [123, 34, 108, 111, 103, 34, 58, 123, 34, 118, 101, 114, 115, 105, 111, 110, 34, 58, 34, 49, 46, 50, 34, 44, 34, 99, 114, 101, 97, 116, 111, 114, 34, 58, 123, 34, 110, 97, 109, 101, 34, 58, 34, 120, 34, 125, 44, 34, 101, 110, 116, 114, 105, 101, 115, 34, 58, 91, 93, 44, 34, 112, 97, 103] 64 q_har tokObject = true := by decide

/- why `Decided.hit` asks for a delimiter after a deciding *number*: the reference recogniser reads
   the value `0` in front of `1e+x`, the liberal scanner reads on and fails inside the exponent -/
-- {"log":{"version":01e+x
example : (parse q_har [123, 34, 108, 111, 103, 34, 58, 123, 34, 118, 101, 114, 115, 105, 111, 110, 34, 58, 48, 49, 101, 43, 120]).querySatisfied = false := by decide

/- the theorems applied: every hypothesis discharged on a concrete document -/
-- {"a":[1],"type":"Feature","geometry":{"type":"Point","coordinates":[1,2]}}
private def geoDoc : Bytes := [123, 34, 97, 34, 58, 91, 49, 93, 44, 34, 116, 121, 112, 101, 34, 58, 34, 70, 101, 97, 116, 117, 114, 101, 34, 44, 34, 103, 101, 111, 109, 101, 116, 114, 121, 34, 58, 123, 34, 116, 121, 112, 101, 34, 58, 34, 80, 111, 105, 110, 116, 34, 44, 34, 99, 111, 111, 114, 100, 105, 110, 97, 116, 101, 115, 34, 58, 91, 49, 44, 50, 93, 125, 125]
private def geoTree : J.JVal := .obj [([97], .arr [.num]), ([116, 121, 112, 101], .str [70, 101, 97, 116, 117, 114, 101]),
  ([103, 101, 111, 109, 101, 116, 114, 121], .obj [([116, 121, 112, 101], .str [80, 111, 105, 110, 116]), ([99, 111, 111, 114, 100, 105, 110, 97, 116, 101, 115], .arr [.num, .num])])]

/-- cut inside the key of `geometry`'s first member: `{"a":[1],"type":"Feature","geometry":{"ty` -/
example : jsonHelper (geoDoc.take 41) 41 q_geo tokObject = true := by
  have hdoc : J.doc true geoDoc = some geoTree := by rfl
  have e1 : ofString "Feature" = [70, 101, 97, 116, 117, 114, 101] := by decide +kernel
  have hm : Members 1 [34, 97, 34, 58, 91, 49, 93, 44, 34, 116, 121, 112, 101, 34, 58, 34, 70, 101, 97, 116, 117, 114, 101, 34, 44, 34, 103, 101, 111, 109, 101, 116, 114, 121, 34, 58, 123, 34, 116, 121] [34, 116, 121, 112, 101, 34, 58, 34, 70, 101, 97, 116, 117, 114, 101, 34, 44, 34, 103, 101, 111, 109, 101, 116, 114, 121, 34, 58, 123, 34, 116, 121] :=
    .more _ _ _ _ _ _ ⟨_, _, _, rfl, rfl, rfl, 3, rfl⟩ (by decide) rfl (.done _)
  have ht : IsMember [34, 116, 121, 112, 101, 34, 58, 34, 70, 101, 97, 116, 117, 114, 101, 34, 44, 34, 103, 101, 111, 109, 101, 116, 114, 121, 34, 58, 123, 34, 116, 121] (ofString "type") (.str (ofString "Feature")) [44, 34, 103, 101, 111, 109, 101, 116, 114, 121, 34, 58, 123, 34, 116, 121] := by
    rw [C10Base.kType_eq, e1]; exact ⟨_, _, _, rfl, rfl, rfl, 1, rfl⟩
  exact geo_truncated geoDoc geoTree 41 _ 1 hdoc (by decide) (by decide) (by decide) rfl
    (decided_geo 1 _ _ _ _ hm ht (by simp [J.geoNames])) (by decide)

-- {"asset":{"generator":"x","version":"2.0","copyright":"c"},"scenes":[]}
private def gltfDoc : Bytes := [123, 34, 97, 115, 115, 101, 116, 34, 58, 123, 34, 103, 101, 110, 101, 114, 97, 116, 111, 114, 34, 58, 34, 120, 34, 44, 34, 118, 101, 114, 115, 105, 111, 110, 34, 58, 34, 50, 46, 48, 34, 44, 34, 99, 111, 112, 121, 114, 105, 103, 104, 116, 34, 58, 34, 99, 34, 125, 44, 34, 115, 99, 101, 110, 101, 115, 34, 58, 91, 93, 125]
private def gltfTree : J.JVal := .obj [([97, 115, 115, 101, 116], .obj [([103, 101, 110, 101, 114, 97, 116, 111, 114], .str [120]),
  ([118, 101, 114, 115, 105, 111, 110], .str [50, 46, 48]), ([99, 111, 112, 121, 114, 105, 103, 104, 116], .str [99])]), ([115, 99, 101, 110, 101, 115], .arr [])]

/-- cut inside the key after `version`: `{"asset":{"generator":"x","version":"2.0","copy` -/
example : jsonHelper (gltfDoc.take 47) 47 q_gltf tokObject = true := by
  have hdoc : J.doc true gltfDoc = some gltfTree := by rfl
  have e1 : ofString "2.0" = [50, 46, 48] := by decide +kernel
  have ho : OpensObject [34, 97, 115, 115, 101, 116, 34, 58, 123, 34, 103, 101, 110, 101, 114, 97, 116, 111, 114, 34, 58, 34, 120, 34, 44, 34, 118, 101, 114, 115, 105, 111, 110, 34, 58, 34, 50, 46, 48, 34, 44, 34, 99, 111, 112, 121] (ofString "asset") [34, 103, 101, 110, 101, 114, 97, 116, 111, 114, 34, 58, 34, 120, 34, 44, 34, 118, 101, 114, 115, 105, 111, 110, 34, 58, 34, 50, 46, 48, 34, 44, 34, 99, 111, 112, 121] := by
    rw [C10Base.kAsset_eq]; exact ⟨_, _, _, rfl, rfl, rfl, rfl⟩
  have hm2 : Members 0 [34, 103, 101, 110, 101, 114, 97, 116, 111, 114, 34, 58, 34, 120, 34, 44, 34, 118, 101, 114, 115, 105, 111, 110, 34, 58, 34, 50, 46, 48, 34, 44, 34, 99, 111, 112, 121] [34, 118, 101, 114, 115, 105, 111, 110, 34, 58, 34, 50, 46, 48, 34, 44, 34, 99, 111, 112, 121] :=
    .more _ _ _ _ _ _ ⟨_, _, _, rfl, rfl, rfl, 1, rfl⟩ (by decide) rfl (.done _)
  have ht : IsMember [34, 118, 101, 114, 115, 105, 111, 110, 34, 58, 34, 50, 46, 48, 34, 44, 34, 99, 111, 112, 121] (ofString "version") (.str (ofString "2.0")) [44, 34, 99, 111, 112, 121] := by
    rw [C10Base.kVersion_eq, e1]; exact ⟨_, _, _, rfl, rfl, rfl, 1, rfl⟩
  exact gltf_truncated gltfDoc gltfTree 47 _ 1 hdoc (by decide) (by decide) (by decide) rfl
    (decided_gltf 0 _ _ _ _ _ _ (.done _) ho hm2 ht (Or.inr rfl)) (by decide)

-- {"log":{"version":"1.2","creator":{"name":"x"},"entries":[],"pages":[]}}
private def harDoc : Bytes := [123, 34, 108, 111, 103, 34, 58, 123, 34, 118, 101, 114, 115, 105, 111, 110, 34, 58, 34, 49, 46, 50, 34, 44, 34, 99, 114, 101, 97, 116, 111, 114, 34, 58, 123, 34, 110, 97, 109, 101, 34, 58, 34, 120, 34, 125, 44, 34, 101, 110, 116, 114, 105, 101, 115, 34, 58, 91, 93, 44, 34, 112, 97, 103, 101, 115, 34, 58, 91, 93, 125, 125]
private def harTree : J.JVal := .obj [([108, 111, 103], .obj [([118, 101, 114, 115, 105, 111, 110], .str [49, 46, 50]),
  ([99, 114, 101, 97, 116, 111, 114], .obj [([110, 97, 109, 101], .str [120])]), ([101, 110, 116, 114, 105, 101, 115], .arr []), ([112, 97, 103, 101, 115], .arr [])])]

/-- `entries` as the deciding member, cut inside its successor's key: `{"log":{"version":"1.2","creator":{"name":"x"},"entries":[],"pag` -/
example : jsonHelper (harDoc.take 64) 64 q_har tokObject = true := by
  have hdoc : J.doc true harDoc = some harTree := by rfl
  have ho : OpensObject [34, 108, 111, 103, 34, 58, 123, 34, 118, 101, 114, 115, 105, 111, 110, 34, 58, 34, 49, 46, 50, 34, 44, 34, 99, 114, 101, 97, 116, 111, 114, 34, 58, 123, 34, 110, 97, 109, 101, 34, 58, 34, 120, 34, 125, 44, 34, 101, 110, 116, 114, 105, 101, 115, 34, 58, 91, 93, 44, 34, 112, 97, 103] (ofString "log") [34, 118, 101, 114, 115, 105, 111, 110, 34, 58, 34, 49, 46, 50, 34, 44, 34, 99, 114, 101, 97, 116, 111, 114, 34, 58, 123, 34, 110, 97, 109, 101, 34, 58, 34, 120, 34, 125, 44, 34, 101, 110, 116, 114, 105, 101, 115, 34, 58, 91, 93, 44, 34, 112, 97, 103] := by
    rw [C10Base.kLog_eq]; exact ⟨_, _, _, rfl, rfl, rfl, rfl⟩
  have hm2 : Members 1 [34, 118, 101, 114, 115, 105, 111, 110, 34, 58, 34, 49, 46, 50, 34, 44, 34, 99, 114, 101, 97, 116, 111, 114, 34, 58, 123, 34, 110, 97, 109, 101, 34, 58, 34, 120, 34, 125, 44, 34, 101, 110, 116, 114, 105, 101, 115, 34, 58, 91, 93, 44, 34, 112, 97, 103] [34, 101, 110, 116, 114, 105, 101, 115, 34, 58, 91, 93, 44, 34, 112, 97, 103] :=
    .more _ _ _ _ _ _ ⟨_, _, _, rfl, rfl, rfl, 1, rfl⟩ (by decide) rfl
      (.more _ _ _ _ _ _ ⟨_, _, _, rfl, rfl, rfl, 3, rfl⟩ (by decide) rfl (.done _))
  have ht : IsMember [34, 101, 110, 116, 114, 105, 101, 115, 34, 58, 91, 93, 44, 34, 112, 97, 103] (ofString "entries") (.arr []) [44, 34, 112, 97, 103] := by
    rw [C10Base.kEntries_eq]; exact ⟨_, _, _, rfl, rfl, rfl, 2, rfl⟩
  exact har_truncated harDoc harTree 64 _ 2 hdoc (by decide) (by decide) (by decide) rfl
    (decided_har 1 _ _ _ _ _ _ _ (.done _) ho hm2 ht (Or.inr (Or.inr rfl)) (by decide) (fun h => nomatch h)) (by decide)

end Mime.JsonTrunc
