import MimeModel.Model.HtmlTokFull
import MimeModel.Lemmas.HtmlTok
/-
  Theorems about `Mime.HtmlEnt.unescape` (character references, escape.go of x/net/html) and the
  total tokenizer model `Mime.HtmlTok.startTagsFull` / `fromHTMLBytesFull`.

  * `unescape_nil`, `unescape_noAmp`, `unescapeLoop_noAmp`   nothing to do without `&`
  * `unescapeEntity_pos`, `unescapeLoop_fuel`, `unescape_eq_loop`
                                            a reference consumes ≥ 1 byte, so the fuel is irrelevant
  * `unescape_amp_step`, `unescape_cons_noAmp`, `unescape_append_noAmp_left`
                                            the loop equations without fuel
  * `unescape_amp_only`, `unescape_amp_end` `&` in front of a byte that cannot start a reference
  * `convNL_noAmp`, `finishTagFull_of_noAmp`, `startTagsFull_of_startTags`,
    `fromHTMLBytesFull_of_fromHTMLBytes`    the total model extends the `Option` one
  * `metaAttrs_congr`, `fromHTMLToks_congr`, `fromHTML_values_unescaped`
                                            fromHTML reads three attribute values of `meta` tags, no others
  * `fromHTMLBytesFull_meta_decides`, `charset_value_unescaped`, `charset_value_unescaped_simple`
                                            C12, HTML clause, WITHOUT the "no `&`" side condition
  * examples by `decide`
-/
namespace Mime.HtmlUnescapeLemmas
open Mime Mime.Charset Mime.HtmlTok Mime.HtmlEnt Mime.HtmlTokLemmas

/-! ### no `&`: nothing happens -/

theorem noAmp_iff (b : Bytes) : b.contains 0x26 = false ↔ ∀ x ∈ b, x ≠ 0x26 := by
  rw [List.contains_eq_any_beq, List.any_eq_false]
  constructor
  · intro h x hx e
    exact h x hx (by rw [e]; rfl)
  · intro h x hx e
    have e' : (38 : Nat) = x := by simpa using e
    exact h x hx e'.symm

theorem noAmp_cons (c : Nat) (r : Bytes) :
    (c :: r).contains 0x26 = false ↔ (c == 0x26) = false ∧ r.contains 0x26 = false := by
  rw [noAmp_iff, noAmp_iff]
  simp only [List.mem_cons, forall_eq_or_imp, beq_eq_false_iff_ne, ne_eq]

theorem unescape_nil (a : Bool) : unescape a [] = [] := rfl

/-- the fast path of `unescape` (return `b` when it has no `&`) is what the loop would compute -/
theorem unescapeLoop_noAmp (a : Bool) : ∀ (f : Nat) (b : Bytes), b.contains 0x26 = false → unescapeLoop a f b = b
  | 0, b, _ => by simp only [unescapeLoop]
  | f + 1, [], _ => by simp only [unescapeLoop]
  | f + 1, c :: r, h => by
    obtain ⟨hc, hr⟩ := (noAmp_cons c r).mp h
    simp only [unescapeLoop, hc, Bool.false_eq_true, ↓reduceIte]
    rw [unescapeLoop_noAmp a f r hr]

/-- **unescape_noAmp**: without `&` the value is returned as it is -/
theorem unescape_noAmp (a : Bool) (b : Bytes) (h : b.contains 0x26 = false) : unescape a b = b := by
  simp only [unescape, h, Bool.false_eq_true, ↓reduceIte]

/-! ### the fuel is irrelevant -/

/-- `unescapeEntity` always advances `src` -/
theorem unescapeEntity_pos (a : Bool) (s : Bytes) : 1 ≤ (unescapeEntity a s).2 := by
  unfold unescapeEntity
  dsimp only
  repeat' split
  all_goals first
    | exact Nat.le_refl 1
    | omega

theorem unescapeLoop_fuel (a : Bool) : ∀ (f g : Nat) (b : Bytes), b.length ≤ f → b.length ≤ g →
    unescapeLoop a f b = unescapeLoop a g b
  | 0, g, b, hf, _ => by
    have : b = [] := List.eq_nil_of_length_eq_zero (Nat.le_zero.mp hf)
    subst this
    cases g <;> simp only [unescapeLoop]
  | f + 1, g, [], _, _ => by cases g <;> simp only [unescapeLoop]
  | f + 1, 0, c :: r, _, hg => by simp at hg
  | f + 1, g + 1, c :: r, hf, hg => by
    simp only [List.length_cons] at hf hg
    simp only [unescapeLoop]
    split
    · have hp := unescapeEntity_pos a (c :: r)
      have hl : ((c :: r).drop (unescapeEntity a (c :: r)).2).length ≤ r.length := by
        rw [List.length_drop, List.length_cons]; omega
      rw [unescapeLoop_fuel a f g _ (by omega) (by omega)]
    · rw [unescapeLoop_fuel a f g r (by omega) (by omega)]

/-- `unescape` is the copy loop with any sufficient fuel -/
theorem unescape_eq_loop (a : Bool) (f : Nat) (b : Bytes) (h : b.length ≤ f) : unescape a b = unescapeLoop a f b := by
  unfold unescape
  split
  · exact unescapeLoop_fuel a _ _ b (Nat.le_refl _) h
  · rename_i hc
    exact (unescapeLoop_noAmp a f b (by simpa using hc)).symm

/-- at `&`: the bytes `unescapeEntity` writes, then the rest -/
theorem unescape_amp_step (a : Bool) (r : Bytes) :
    unescape a (0x26 :: r) =
      (unescapeEntity a (0x26 :: r)).1 ++ unescape a ((0x26 :: r).drop (unescapeEntity a (0x26 :: r)).2) := by
  rw [unescape_eq_loop a (r.length + 1) (0x26 :: r) (by simp)]
  simp only [unescapeLoop, beq_self_eq_true, ↓reduceIte]
  rw [unescape_eq_loop a r.length]
  have hp := unescapeEntity_pos a (0x26 :: r)
  rw [List.length_drop, List.length_cons]; omega

/-- any other byte is copied -/
theorem unescape_cons_noAmp (a : Bool) (c : Nat) (r : Bytes) (hc : c ≠ 0x26) :
    unescape a (c :: r) = c :: unescape a r := by
  rw [unescape_eq_loop a (r.length + 1) (c :: r) (by simp), unescape_eq_loop a r.length r (Nat.le_refl _)]
  have : (c == 0x26) = false := by simpa using hc
  simp only [unescapeLoop, this, Bool.false_eq_true, ↓reduceIte]

/-- **unescape_append_noAmp_left**: a `&`-free prefix is copied -/
theorem unescape_append_noAmp_left (a : Bool) (p s : Bytes) (h : p.contains 0x26 = false) :
    unescape a (p ++ s) = p ++ unescape a s := by
  induction p with
  | nil => rfl
  | cons c p ih =>
    obtain ⟨hc, hp⟩ := (noAmp_cons c p).mp h
    rw [List.cons_append, unescape_cons_noAmp a c _ (by simpa using hc), ih hp, List.cons_append]

/-! ### `&` that starts no reference -/

theorem entity_semicolon : entity.lookup [0x3B] = none := by decide +kernel
theorem entity2_semicolon : entity2.lookup [0x3B] = none := by decide +kernel

/-- `&` followed by a byte that is neither `#` nor alphanumeric: one byte (two for `&;`) copied -/
theorem unescapeEntity_amp_only (a : Bool) (c : Nat) (rest : Bytes) (h1 : c ≠ 0x23) (h2 : isAlnum c = false) :
    unescapeEntity a (0x26 :: c :: rest) = if c = 0x3B then ([0x26, 0x3B], 2) else ([0x26], 1) := by
  have e1 : (c == 0x23) = false := by simpa using h1
  unfold unescapeEntity
  simp only [List.length_cons, List.getD_cons_succ, List.getD_cons_zero, e1, List.drop_succ_cons, List.drop_zero,
    scanName, h2, Bool.false_eq_true, ↓reduceIte]
  have l1 : ¬ (rest.length + 1 + 1 ≤ 1) := by omega
  simp only [l1, ↓reduceIte]
  by_cases hs : c = 0x3B
  · subst hs
    simp only [beq_self_eq_true, ↓reduceIte, Nat.reduceAdd, List.take_succ_cons, List.take_zero, List.drop_succ_cons,
      List.drop_zero, List.getLast?_singleton, bne_self_eq_false, Bool.and_false,
      entity_semicolon, entity2_semicolon, List.length_singleton, Nat.sub_self, Nat.zero_min, prefixLoop]
    cases a <;> simp
  · have e2 : (c == 0x3B) = false := by simpa using hs
    simp [e2, hs]

/-- **unescape_amp_only**: `&` followed by a byte that cannot start a reference (not `#`, not
    `[a-zA-Z0-9]`) stays `&`, and unescaping goes on with that byte -/
theorem unescape_amp_only (a : Bool) (c : Nat) (rest : Bytes) (h1 : c ≠ 0x23) (h2 : isAlnum c = false) :
    unescape a (0x26 :: c :: rest) = 0x26 :: unescape a (c :: rest) := by
  rw [unescape_amp_step, unescapeEntity_amp_only a c rest h1 h2]
  by_cases hs : c = 0x3B
  · subst hs
    rw [unescape_cons_noAmp a 0x3B rest (by decide)]
    simp
  · simp [hs]

/-- `&` as the last byte stays -/
theorem unescape_amp_end (a : Bool) (p : Bytes) (h : p.contains 0x26 = false) : unescape a (p ++ [0x26]) = p ++ [0x26] := by
  rw [unescape_append_noAmp_left a p _ h]
  cases a <;> rfl

/-! ### the total tokenizer model extends the `Option` one -/

theorem convNLAux_noAmp : ∀ (v : Bytes) (afterCR : Bool), v.contains 0x26 = false → (convNLAux afterCR v).contains 0x26 = false
  | [], _, _ => rfl
  | c :: r, afterCR, h => by
    obtain ⟨hc, hr⟩ := (noAmp_cons c r).mp h
    simp only [convNLAux]
    split
    · exact (noAmp_cons _ _).mpr ⟨by decide, convNLAux_noAmp r true hr⟩
    · split
      · exact convNLAux_noAmp r false hr
      · exact (noAmp_cons _ _).mpr ⟨hc, convNLAux_noAmp r false hr⟩

/-- `convertNewlines` introduces no `&` -/
theorem convNL_noAmp (v : Bytes) (h : v.contains 0x26 = false) : (convNL v).contains 0x26 = false :=
  convNLAux_noAmp v false h

theorem finishTagFull_of_noAmp (t : Tag) (h : hasAmp t = false) : finishTagFull t = finishTag t := by
  simp only [finishTagFull, finishTag, Tag.mk.injEq, true_and]
  apply List.map_congr_left
  intro kv hkv
  simp only [hasAmp, List.any_eq_false] at h
  have := h kv hkv
  rw [unescape_noAmp true _ (convNL_noAmp kv.2 (by simpa using this))]

/-- **startTagsFull_of_startTags**: wherever `startTags` answers, the total one answers the same -/
theorem startTagsFull_of_startTags (c : Bytes) (ts : List Tag) (h : startTags c = some ts) : startTagsFull c = ts := by
  unfold startTags at h
  simp only at h
  split at h
  · exact absurd h (by simp)
  · rename_i hany
    injection h with h
    rw [← h]
    unfold startTagsFull
    apply List.map_congr_left
    intro t ht
    apply finishTagFull_of_noAmp
    simp only [Bool.not_eq_true, List.any_eq_false] at hany
    simpa using hany t ht

theorem fromHTMLBytesFull_of_fromHTMLBytes (c l : Bytes) (h : fromHTMLBytes c = some l) : fromHTMLBytesFull c = l := by
  unfold fromHTMLBytes at h
  cases hs : startTags c with
  | none => simp [hs] at h
  | some ts =>
    rw [hs, Option.map_some] at h
    injection h with h
    rw [← h, fromHTMLBytesFull, startTagsFull_of_startTags c ts hs]

/-! ### `fromHTML` reads three attribute values of `meta` tags and no others -/

/-- the keys whose VALUES `fromHTML` looks at (of `meta` tags only) -/
def readKey (k : Bytes) : Bool := k == kHttpEquiv || k == kContent || k == kwCharset

/-- `TagAttr` with `f` as the value post-processing -/
def mapVals (f : Bytes → Bytes) (t : Tag) : Tag := { name := t.name, attrs := t.attrs.map (fun kv => (kv.1, f kv.2)) }

theorem finishTag_eq_mapVals : finishTag = mapVals convNL := rfl
theorem finishTagFull_eq_mapVals : finishTagFull = mapVals (fun v => unescape true (convNL v)) := rfl

theorem metaAttrs_congr (f g : Bytes → Bytes) : ∀ (as : List (Bytes × Bytes)) (seen : List Bytes) (gp : Bool) (need : Need) (name : Bytes),
    (∀ kv ∈ as, readKey kv.1 = true → f kv.2 = g kv.2) →
    metaAttrs (as.map (fun kv => (kv.1, f kv.2))) seen gp need name =
      metaAttrs (as.map (fun kv => (kv.1, g kv.2))) seen gp need name
  | [], _, _, _, _, _ => rfl
  | (k, v) :: rest, seen, gp, need, name, h => by
    have hrest : ∀ kv ∈ rest, readKey kv.1 = true → f kv.2 = g kv.2 := fun kv hkv => h kv (List.mem_cons_of_mem _ hkv)
    simp only [List.map_cons, metaAttrs]
    by_cases hs : seen.contains k = true
    · simp only [hs, ↓reduceIte]
      exact metaAttrs_congr f g rest _ _ _ _ hrest
    · simp only [hs, Bool.false_eq_true, ↓reduceIte]
      by_cases hr : readKey k = true
      · rw [h (k, v) (List.mem_cons_self ..) hr]
        split
        · exact metaAttrs_congr f g rest _ _ _ _ hrest
        · split
          · exact metaAttrs_congr f g rest _ _ _ _ hrest
          · split <;> exact metaAttrs_congr f g rest _ _ _ _ hrest
      · simp only [readKey, Bool.or_eq_true, not_or, Bool.not_eq_true] at hr
        simp only [hr.1.1, hr.1.2, hr.2, Bool.false_eq_true, ↓reduceIte]
        exact metaAttrs_congr f g rest _ _ _ _ hrest

/-- two value post-processings that agree on the http-equiv / content / charset values of the
    `meta` tags give the same prescan result -/
theorem fromHTMLToks_congr (f g : Bytes → Bytes) : ∀ (ts : List Tag),
    (∀ t ∈ ts, t.name = kMeta → ∀ kv ∈ t.attrs, readKey kv.1 = true → f kv.2 = g kv.2) →
    fromHTMLToks (ts.map (mapVals f)) = fromHTMLToks (ts.map (mapVals g))
  | [], _ => rfl
  | t :: ts, h => by
    have hts := fromHTMLToks_congr f g ts (fun u hu => h u (List.mem_cons_of_mem _ hu))
    simp only [List.map_cons, fromHTMLToks, mapVals]
    by_cases hn : t.name = kMeta
    · rw [metaAttrs_congr f g t.attrs _ _ _ _ (h t (List.mem_cons_self ..) hn)]
      rw [hts]
    · have : (t.name != kMeta) = true := by simpa using hn
      simp only [this, ↓reduceIte]
      exact hts

/-- **fromHTML_values_unescaped** (tag level): if the http-equiv / content / charset values of the
    `meta` tags contain no `&`, character references anywhere else — other attributes of those
    tags, attributes of other tags, keys, text — do not change the answer of `FromHTML` -/
theorem fromHTML_values_unescaped (c : Bytes)
    (h : ∀ t ∈ rawTags c, t.name = kMeta → ∀ kv ∈ t.attrs, readKey kv.1 = true → kv.2.contains 0x26 = false) :
    fromHTMLBytesFull c = Charset.fromHTML c ((rawTags c).map finishTag) := by
  unfold fromHTMLBytesFull startTagsFull Charset.fromHTML
  rw [finishTagFull_eq_mapVals, finishTag_eq_mapVals,
    fromHTMLToks_congr (fun v => unescape true (convNL v)) convNL (rawTags c)
      (fun t ht hn kv hkv hr => unescape_noAmp true _ (convNL_noAmp kv.2 (h t ht hn kv hkv hr)))]

/-! ### C12, HTML clause, without the "no `&` in a reported value" side condition -/

/-- `fromHTMLBytes_meta_decides` for the total model: no coverage hypothesis -/
theorem fromHTMLBytesFull_meta_decides (P nm ws0 : Bytes) (as : List AttrSrc) (rest result : Bytes)
    (hP : Prologue P) (hnm : lowerASCII nm = kMeta)
    (hws : ∀ x ∈ ws0, isWS x = true) (hws0 : ws0 = [] → as = []) (hwf : attrsWf as)
    (hres : ∀ more, fromHTMLToks (finishTagFull { name := kMeta, attrs := parsed as } :: more) = result)
    (hne : result ≠ [])
    (hbom : fromBOM (P ++ tagText nm ws0 as ++ rest) = csNone) :
    fromHTMLBytesFull (P ++ tagText nm ws0 as ++ rest) = result := by
  obtain ⟨T, hT, hrun⟩ := hP.skips
  have hraw : rawTags (P ++ tagText nm ws0 as ++ rest) =
      T ++ { name := kMeta, attrs := parsed as } :: rawTags rest := by
    have := meta_first_tag_raw nm ws0 as rest hnm hws hws0 hwf
    simp only [rawTags] at this ⊢
    rw [List.append_assoc, hrun, this]
  unfold fromHTMLBytesFull startTagsFull
  rw [hraw]
  unfold fromHTML
  simp only [hbom, bne_self_eq_false, Bool.false_eq_true, ↓reduceIte]
  have hskip : ∀ t ∈ T.map finishTagFull, t.name ≠ kMeta := by
    intro t ht
    obtain ⟨u, hu, rfl⟩ := List.mem_map.mp ht
    exact hT u hu
  have hval : fromHTMLToks (List.map finishTagFull
      (T ++ { name := kMeta, attrs := parsed as } :: rawTags rest)) = result := by
    rw [List.map_append, fromHTMLToks_skip _ _ hskip, List.map_cons]
    exact hres _
  rw [hval]
  have : (result != []) = true := by simpa using hne
  simp [this]

theorem inert_finishedFull (l : List AttrSrc) (hl : ∀ a ∈ l, inertKey a.key) :
    ∀ p ∈ (parsed l).map (fun kv => (kv.1, unescape true (convNL kv.2))),
      p.1 ≠ kContent ∧ p.1 ≠ kwCharset ∧ p.1 ≠ kHttpEquiv := by
  intro p hp
  simp only [parsed, List.map_map, List.mem_map, Function.comp] at hp
  obtain ⟨a, ha, rfl⟩ := hp
  exact hl a ha

/-- **charset_value_unescaped** (`declared_charset_reported` for the total model).
    `doc = P ++ "<meta" ws pre… charset=L post… ">" ++ rest`: if the label `L` contains no `&`
    (and no CR), `FromHTML` answers the normalised label — WHATEVER the other attributes of the
    tag (inert keys, arbitrary values), the prologue and the rest of the document contain:
    character references there are decoded by the tokenizer but never reach the answer.
    Compared with `declared_charset_reported` the hypothesis `startTags doc ≠ none` is gone. -/
theorem charset_value_unescaped (P nm ws0 : Bytes) (pre post : List AttrSrc)
    (cs : Bytes) (form : ValForm) (L sep rest : Bytes)
    (hP : Prologue P) (hnm : lowerASCII nm = kMeta)
    (hws : ∀ x ∈ ws0, isWS x = true) (hws0 : ws0 ≠ [])
    (hcs : lowerASCII cs = kwCharset)
    (hwf : attrsWf (pre ++ charsetAttr cs form L sep :: post))
    (hpre : ∀ a ∈ pre, inertKey a.key) (hpost : ∀ a ∈ post, inertKey a.key)
    (hL : L ≠ []) (hcr : ∀ c ∈ L, c ≠ 0x0D) (hamp : L.contains 0x26 = false)
    (hbom : fromBOM (P ++ tagText nm ws0 (pre ++ charsetAttr cs form L sep :: post) ++ rest) = csNone) :
    fromHTMLBytesFull (P ++ tagText nm ws0 (pre ++ charsetAttr cs form L sep :: post) ++ rest) = norm L := by
  refine fromHTMLBytesFull_meta_decides P nm ws0 _ rest (norm L) hP hnm hws (fun h => absurd h hws0) hwf ?_
    (norm_ne_nil L hL) hbom
  intro more
  have hparsed : (parsed (pre ++ charsetAttr cs form L sep :: post)).map (fun kv => (kv.1, unescape true (convNL kv.2))) =
      (parsed pre).map (fun kv => (kv.1, unescape true (convNL kv.2))) ++ (kwCharset, L) ::
        (parsed post).map (fun kv => (kv.1, unescape true (convNL kv.2))) := by
    simp [parsed, charsetAttr, hcs, convNL_id L hcr, unescape_noAmp true L hamp]
  simp only [finishTagFull, hparsed]
  exact C12.meta_charset_anywhere L _ _ _ (inert_finishedFull pre hpre) (inert_finishedFull post hpost)

/-- and `fromHTMLBytes` agrees wherever it answers: the switch to `startTagsFull` changes nothing
    that was claimed before -/
theorem charset_value_unescaped_agrees (doc l : Bytes) (h : fromHTMLBytes doc = some l) : fromHTMLBytesFull doc = l :=
  fromHTMLBytesFull_of_fromHTMLBytes doc l h


/-- **charset_value_unescaped**, the plain form `P ++ "<meta charset=" q L q ">" ++ rest` (`meta` /
    `charset` in any letter case; `q` = `"`, `'` or nothing; `L` a non-empty label of token bytes,
    which excludes `&`): with no BOM, `FromHTML` answers the lower-cased label (utf-8 for utf-16
    labels).  Unlike `declared_charset_simple` nothing is assumed about `&` in `P` and `rest`. -/
theorem charset_value_unescaped_simple (P nm cs : Bytes) (form : ValForm) (L rest : Bytes)
    (hP : Prologue P) (hnm : lowerASCII nm = kMeta) (hcs : lowerASCII cs = kwCharset)
    (hL : L ≠ []) (htok : ∀ c ∈ L, tokenChar c = true)
    (hbom : fromBOM (P ++ tagText nm [0x20] [charsetAttr cs form L []] ++ rest) = csNone) :
    fromHTMLBytesFull (P ++ tagText nm [0x20] [charsetAttr cs form L []] ++ rest) = norm L := by
  have hcsl := letters_of_lower cs kwCharset hcs kwCharset_lower
  have htok' : ∀ c ∈ L, isWS c = false ∧ c ≠ 0x3E ∧ c ≠ 0x22 ∧ c ≠ 0x27 ∧ c ≠ 0x26 := by
    intro c hc
    have := htok c hc
    simp only [tokenChar, Bool.not_eq_true', Bool.or_eq_false_iff, beq_eq_false_iff_ne, ne_eq] at this
    exact ⟨this.1.1.1.1, this.1.1.1.2, this.1.1.2, this.1.2, this.2⟩
  have hwf : attrsWf ([] ++ charsetAttr cs form L [] :: []) := by
    refine ⟨⟨?_, fun c hc => isLetter_keyChar (hcsl c hc), by simp [charsetAttr], ?_⟩, by simp, trivial⟩
    · intro e
      simp only [charsetAttr] at e
      rw [e] at hcs
      exact absurd hcs (by decide)
    · cases form with
      | dq => exact fun c hc => (htok' c hc).2.2.1
      | sq => exact fun c hc => (htok' c hc).2.2.2.1
      | bare =>
        refine ⟨hL, fun c hc => ?_, ?_, ?_⟩
        · simp [bareChar, (htok' c hc).1, (htok' c hc).2.1]
        · cases L with
          | nil => exact absurd rfl hL
          | cons x xs => simpa [charsetAttr] using (htok' x (List.mem_cons_self ..)).2.2.1
        · cases L with
          | nil => exact absurd rfl hL
          | cons x xs => simpa [charsetAttr] using (htok' x (List.mem_cons_self ..)).2.2.2.1
  exact charset_value_unescaped P nm [0x20] [] [] cs form L [] rest hP hnm (by decide) (by decide) hcs hwf
    (by simp) (by simp) hL (fun c hc => by have := (htok' c hc).1; intro e; subst e; simp [isWS] at this)
    ((noAmp_iff L).mpr (fun c hc => (htok' c hc).2.2.2.2)) hbom

/-! ### examples (kernel evaluation of the model; every one is also a line of the validation run) -/

/-- `&amp;` -> `&` (attribute mode) -/
example : unescape true [38, 97, 109, 112, 59] = [38] := by decide +kernel
/-- `&ampx` -> `&ampx` — the alphanumeric run is the name; no prefix matching in attribute mode (attribute mode) -/
example : unescape true [38, 97, 109, 112, 120] = [38, 97, 109, 112, 120] := by decide +kernel
/-- `&amp=` -> `&amp=` — no `;` and `=` follows: left alone (attribute mode) -/
example : unescape true [38, 97, 109, 112, 61] = [38, 97, 109, 112, 61] := by decide +kernel
/-- `&amp=` -> `&=` (text mode) -/
example : unescape false [38, 97, 109, 112, 61] = [38, 61] := by decide +kernel
/-- `&amp;=` -> `&=` (attribute mode) -/
example : unescape true [38, 97, 109, 112, 59, 61] = [38, 61] := by decide +kernel
/-- `&notit;` -> `¬it;` — longest prefix `not` without `;` (text mode) -/
example : unescape false [38, 110, 111, 116, 105, 116, 59] = [194, 172, 105, 116, 59] := by decide +kernel
/-- `&notit;` -> `&notit;` — prefix matching is text-mode only (attribute mode) -/
example : unescape true [38, 110, 111, 116, 105, 116, 59] = [38, 110, 111, 116, 105, 116, 59] := by decide +kernel
/-- `&#128;` -> `€` — Windows-1252 replacement table: E2 82 AC (attribute mode) -/
example : unescape true [38, 35, 49, 50, 56, 59] = [226, 130, 172] := by decide +kernel
/-- `&#xD800;` -> `U+FFFD` — surrogate: U+FFFD = EF BF BD (attribute mode) -/
example : unescape true [38, 35, 120, 68, 56, 48, 48, 59] = [239, 191, 189] := by decide +kernel
/-- `&lt` -> `<` — a legacy name needs no `;` (attribute mode) -/
example : unescape true [38, 108, 116] = [60] := by decide +kernel
/-- `&LT;&GT` -> `<>` (attribute mode) -/
example : unescape true [38, 76, 84, 59, 38, 71, 84] = [60, 62] := by decide +kernel
/-- `&NotEqualTilde;` -> `≂̸` — two code points (entity2) (attribute mode) -/
example : unescape true [38, 78, 111, 116, 69, 113, 117, 97, 108, 84, 105, 108, 100, 101, 59] = [226, 137, 130, 204, 184] := by decide +kernel
/-- `&nGt;` -> `&nGt;` — commented out of entity2: would grow in place (attribute mode) -/
example : unescape true [38, 110, 71, 116, 59] = [38, 110, 71, 116, 59] := by decide +kernel
/-- `&#1x` -> `&#1x` — sic: ONE decimal digit without `;` is "no characters matched" (`i <= 3`) (attribute mode) -/
example : unescape true [38, 35, 49, 120] = [38, 35, 49, 120] := by decide +kernel
/-- `&#1;` -> `\x01` (attribute mode) -/
example : unescape true [38, 35, 49, 59] = [1] := by decide +kernel
/-- `&#12x` -> `\x0Cx` — two digits are enough (attribute mode) -/
example : unescape true [38, 35, 49, 50, 120] = [12, 120] := by decide +kernel
/-- `&#x1z` -> `\x01z` — and so is one hex digit (attribute mode) -/
example : unescape true [38, 35, 120, 49, 122] = [1, 122] := by decide +kernel
/-- `&#x;` -> `U+FFFD` — sic: no digit at all, but `&#x;` is 4 bytes: U+FFFD (attribute mode) -/
example : unescape true [38, 35, 120, 59] = [239, 191, 189] := by decide +kernel
/-- `&#;` -> `&#;` (attribute mode) -/
example : unescape true [38, 35, 59] = [38, 35, 59] := by decide +kernel
/-- `&#xg` -> `&#xg` (attribute mode) -/
example : unescape true [38, 35, 120, 103] = [38, 35, 120, 103] := by decide +kernel
/-- `&#65` -> `A` — no `;` needed (attribute mode) -/
example : unescape true [38, 35, 54, 53] = [65] := by decide +kernel
/-- `&#6` -> `&#6` — one digit, at the end of the value or not (attribute mode) -/
example : unescape true [38, 35, 54] = [38, 35, 54] := by decide +kernel
/-- `&#4294967361;` -> `A` — int32 wrap-around: 2^32 + 65 (attribute mode) -/
example : unescape true [38, 35, 52, 50, 57, 52, 57, 54, 55, 51, 54, 49, 59] = [65] := by decide +kernel
/-- `&#2147483648;` -> `U+FFFD` — negative rune: U+FFFD by utf8.EncodeRune (attribute mode) -/
example : unescape true [38, 35, 50, 49, 52, 55, 52, 56, 51, 54, 52, 56, 59] = [239, 191, 189] := by decide +kernel
/-- `&#0;` -> `U+FFFD` (attribute mode) -/
example : unescape true [38, 35, 48, 59] = [239, 191, 189] := by decide +kernel
/-- `&#x10FFFF;` -> `U+10FFFF` = F4 8F BF BF (attribute mode) -/
example : unescape true [38, 35, 120, 49, 48, 70, 70, 70, 70, 59] = [244, 143, 191, 191] := by decide +kernel
/-- `&#x110000;` -> `U+FFFD` (attribute mode) -/
example : unescape true [38, 35, 120, 49, 49, 48, 48, 48, 48, 59] = [239, 191, 189] := by decide +kernel
/-- `&&amp;&;&` -> `&&&;&` (attribute mode) -/
example : unescape true [38, 38, 97, 109, 112, 59, 38, 59, 38] = [38, 38, 38, 59, 38] := by decide +kernel
/-- `c3266561637574653ba9` -> `c3c3a9a9` — raw bytes around a reference are copied (attribute mode) -/
example : unescape true [195, 38, 101, 97, 99, 117, 116, 101, 59, 169] = [195, 195, 169, 169] := by decide +kernel

/-- `TagAttr` = `unescape(convertNewlines(val), true)`: newline conversion comes FIRST, so a CR written
    as `&#13;` survives, next to a raw CR LF that becomes LF:  `a\r\nb&#13;&#10;c` -> `a\nb\r\nc` -/
example : unescape true (convNL [97, 13, 10, 98, 38, 35, 49, 51, 59, 38, 35, 49, 48, 59, 99]) = [97, 10, 98, 13, 10, 99] := by decide +kernel

/-- `<meta charset="utf&#45;8">`: `fromHTMLBytes` declines, the total one reads `utf-8` -/
example : fromHTMLBytes [60, 109, 101, 116, 97, 32, 99, 104, 97, 114, 115, 101, 116, 61, 34, 117, 116, 102, 38, 35, 52, 53, 59, 56, 34, 62] = none ∧
    fromHTMLBytesFull [60, 109, 101, 116, 97, 32, 99, 104, 97, 114, 115, 101, 116, 61, 34, 117, 116, 102, 38, 35, 52, 53, 59, 56, 34, 62] = [117, 116, 102, 45, 56] := by decide +kernel

/-- `<meta name="a&amp;b" charset=koi8-r>`: a reference in another attribute does not matter -/
example : fromHTMLBytesFull [60, 109, 101, 116, 97, 32, 110, 97, 109, 101, 61, 34, 97, 38, 97, 109, 112, 59, 98, 34, 32, 99, 104, 97, 114, 115, 101, 116, 61, 107, 111, 105, 56, 45, 114, 62] = [107, 111, 105, 56, 45, 114] := by decide +kernel

/-- keys are not unescaped: `<meta charset&#61;x=y>` has the key `charset&#61;x` -/
example : startTagsFull [60, 109, 101, 116, 97, 32, 99, 104, 97, 114, 115, 101, 116, 38, 35, 54, 49, 59, 120, 61, 121, 62] = [{ name := kMeta, attrs := [([99, 104, 97, 114, 115, 101, 116, 38, 35, 54, 49, 59, 120], [121])] }] := by
  decide +kernel

/-- the pragma form with references in the content value:
    `<meta http-equiv=Content-Type content="text/html&semi; charset&equals;x">` -> `x` -/
example : fromHTMLBytesFull [60, 109, 101, 116, 97, 32, 104, 116, 116, 112, 45, 101, 113, 117, 105, 118, 61, 67, 111, 110, 116, 101, 110, 116, 45, 84, 121, 112, 101, 32, 99, 111, 110, 116, 101, 110, 116, 61, 34, 116, 101, 120, 116, 47, 104, 116, 109, 108, 38, 115, 101, 109, 105, 59, 32, 99, 104, 97, 114, 115, 101, 116, 38, 101, 113, 117, 97, 108, 115, 59, 120, 34, 62] = [120] := by
  decide +kernel

end Mime.HtmlUnescapeLemmas
