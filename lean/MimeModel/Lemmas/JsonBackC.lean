import MimeModel.Lemmas.JsonBack
import MimeModel.Lemmas.JsonForward
/-
  Backward simulation, container level (by induction on fuel, with enough fuel):
  * the scanner succeeds  ⇒  the relaxed reference grammar accepts, with the same rest;
  * the scanner fails having inspected every byte  ⇒  the reference says `more`
    (the input is a proper prefix of something it could accept).
-/
namespace Mime.JsonBack
open Mime Mime.Json Mime.Spec Mime.JsonLeaf Mime.JsonForward

variable (qs : List Mime.Gen.Json.Query) (cap : Nat)

/-- reference outcome with the trailing white space skipped and the value mapped -/
def mapWs {α β : Type} (x : J.R α) (g : α → β) : J.R β :=
  match x with
  | .ok v r => .ok (g v) (J.skipWs r)
  | .more => .more
  | .bad => .bad

/-- the reference value, then white space -/
def valueWs (f : Nat) (b : Bytes) : J.R J.JVal := mapWs (J.value false f b) id

def BAny (f : Nat) : Prop := ∀ lvl b s, 2 * b.length + 1 ≤ f → Back (consumeAny qs cap f lvl b s) s b (valueWs f b)
def BArr (f : Nat) : Prop := ∀ lvl b s acc first, 2 * b.length + 2 ≤ f →
  Back (arrayLoop qs cap f lvl b s) s b (J.items false f b acc first)
def BObj (f : Nat) : Prop := ∀ lvl b s acc first, 2 * b.length + 2 ≤ f →
  Back (objectLoop qs cap f lvl b s) s b (J.members false f b acc first)

theorem setFlags_ib (x : PState) (q : Bool) (lvl t : Nat) : ((x.setFirst lvl t).setQ q).ib = x.ib := by
  unfold PState.setFirst PState.setQ; split <;> split <;> rfl

/-- the tail of `consumeAny` preserves the agreement -/
theorem finish_back {α β : Type} (q : Bool) (lvl t : Nat) (res : Option Bytes × PState) (s0 : PState) (y0 : Bytes)
    (spec : J.R α) (g : α → β) (h : Back res s0 y0 spec) : Back (finishAny q lvl t res) s0 y0 (mapWs spec g) := by
  obtain ⟨o, s'⟩ := res
  cases o with
  | none =>
    obtain ⟨h1, h2⟩ := h
    refine ⟨by simp only [finishAny, setFlags_ib]; exact h1, ?_⟩
    intro e
    simp only [finishAny, setFlags_ib] at e
    rw [h2 e]; rfl
  | some r =>
    obtain ⟨⟨v, hv⟩, h2, h3⟩ := h
    have hle := skipWs_length_le r
    simp only [finishAny, consumeSpace_spec]
    refine ⟨⟨g v, by rw [hv]; rfl⟩, ?_, by omega⟩
    simp only [bump_ib, setFlags_ib]
    omega

theorem value_nil (f : Nat) : J.value false (f + 1) [] = .more := by
  rw [J.value]; rfl

theorem items_nil (f : Nat) (acc : List J.JVal) (first : Bool) : J.items false (f + 1) [] acc first = .more := by
  rw [J.items]; rfl

theorem members_nil (f : Nat) (acc : List (Bytes × J.JVal)) (first : Bool) : J.members false (f + 1) [] acc first = .more := by
  rw [J.members]; rfl

theorem any_back_step (f : Nat) (hA : BArr qs cap f) (hO : BObj qs cap f) : BAny qs cap (f + 1) := by
  intro lvl b s hb
  rw [consumeAny]
  split
  · -- over the cap: nothing inspected
    refine ⟨by simp, ?_⟩
    intro e
    simp only [enter_ib] at e
    have : b = [] := List.eq_nil_of_length_eq_zero (by omega)
    subst this
    simp [valueWs, value_nil, mapWs]
  · rw [consumeSpace_spec]
    have hle := skipWs_length_le b
    cases hy : J.skipWs b with
    | nil =>
      simp only
      refine Back.fail_all _ _ _ _ (by simp [hy]) ?_
      simp [valueWs, J.value, hy, mapWs]
    | cons c cs =>
      simp only
      rw [hy] at hle
      simp only [List.length_cons] at hle
      -- the reference on the same input
      have hval : ∀ (x : J.R J.JVal), J.value false (f + 1) b = x → valueWs (f + 1) b = mapWs x id := by
        intro x hx; rw [valueWs, hx]
      have hs1 : ((s.enter lvl).bump (b.length - (c :: cs).length)).ib + (c :: cs).length = s.ib + b.length := by
        simp only [bump_ib, enter_ib, List.length_cons]; omega
      have hf2 : 2 ≤ f := by omega
      generalize (s.enter lvl).bump (b.length - (c :: cs).length) = s1 at hs1 ⊢
      simp only [List.length_cons] at hs1
      obtain ⟨f', rfl⟩ : ∃ f', f = f' + 1 := ⟨f - 1, by omega⟩
      rcases classify_cases c with ⟨rfl, hk⟩ | ⟨rfl, hk⟩ | ⟨rfl, hk⟩ | ⟨rfl, hk⟩ | ⟨rfl, hk⟩ | ⟨rfl, hk⟩ | ⟨n1, n2, n3, n4, n5, n6, hk⟩
      · -- string
        simp only [hk]
        have hspec : valueWs (f' + 1 + 1) b = mapWs (J.str false cs []) J.JVal.str := by
          simp only [valueWs, J.value, hy]
          cases J.str false cs [] <;> rfl
        rw [hspec]
        apply Back.rebase _ s s1.bump b cs _ (finish_back _ _ _ _ _ _ _ _ (str_back cs [] _))
        · simp only [bump_ib]; omega
        · omega
      · -- array
        simp only [hk]
        have hspec : valueWs (f' + 1 + 1) b = mapWs (J.items false (f' + 1) cs [] true) id := by
          simp only [valueWs, J.value, hy]
          rfl
        rw [hspec]
        have harr : Back (if cs.isEmpty then (none, s1.bump.push [0x5B]) else arrayLoop qs cap (f' + 1) (lvl + 1) cs (s1.bump.push [0x5B]))
            s1.bump cs (J.items false (f' + 1) cs [] true) := by
          cases cs with
          | nil =>
            simp only [List.isEmpty_nil, ↓reduceIte]
            exact Back.fail_all _ _ _ _ (by simp) (items_nil _ _ _)
          | cons d ds =>
            simp only [List.isEmpty_cons, Bool.false_eq_true, ↓reduceIte]
            exact Back.rebase _ _ _ _ _ _ (hA (lvl + 1) (d :: ds) _ [] true (by simp only [List.length_cons] at hle ⊢; omega)) rfl (Nat.le_refl _)
        apply Back.rebase _ s s1.bump b cs _ (finish_back _ _ _ _ _ _ _ _ harr)
        · simp only [bump_ib]; omega
        · omega
      · -- object
        simp only [hk]
        have hspec : valueWs (f' + 1 + 1) b = mapWs (J.members false (f' + 1) cs [] true) id := by
          simp only [valueWs, J.value, hy]
          rfl
        rw [hspec]
        apply Back.rebase _ s s1.bump b cs _ (finish_back _ _ _ _ _ _ _ _ (hO (lvl + 1) cs _ [] true (by omega)))
        · simp only [bump_ib]; omega
        · omega
      · -- true
        simp only [hk]
        have hspec : valueWs (f' + 1 + 1) b = mapWs (J.lit wTrue (0x74 :: cs)) (fun _ => J.JVal.bool true) := by
          simp only [valueWs, J.value, hy]
          show mapWs (match J.lit wTrue (0x74 :: cs) with | .ok _ r => _ | .more => _ | .bad => _) id = _
          cases J.lit wTrue (0x74 :: cs) <;> rfl
        rw [hspec]
        exact Back.rebase _ s _ b _ _ (finish_back _ _ _ _ _ _ _ _ (lit_back wTrue _ _)) (by simp only [List.length_cons]; omega) (by simp only [List.length_cons]; omega)
      · -- false
        simp only [hk]
        have hspec : valueWs (f' + 1 + 1) b = mapWs (J.lit wFalse (0x66 :: cs)) (fun _ => J.JVal.bool false) := by
          simp only [valueWs, J.value, hy]
          show mapWs (match J.lit wFalse (0x66 :: cs) with | .ok _ r => _ | .more => _ | .bad => _) id = _
          cases J.lit wFalse (0x66 :: cs) <;> rfl
        rw [hspec]
        exact Back.rebase _ s _ b _ _ (finish_back _ _ _ _ _ _ _ _ (lit_back wFalse _ _)) (by simp only [List.length_cons]; omega) (by simp only [List.length_cons]; omega)
      · -- null
        simp only [hk]
        have hspec : valueWs (f' + 1 + 1) b = mapWs (J.lit wNull (0x6E :: cs)) (fun _ => J.JVal.null) := by
          simp only [valueWs, J.value, hy]
          show mapWs (match J.lit wNull (0x6E :: cs) with | .ok _ r => _ | .more => _ | .bad => _) id = _
          cases J.lit wNull (0x6E :: cs) <;> rfl
        rw [hspec]
        exact Back.rebase _ s _ b _ _ (finish_back _ _ _ _ _ _ _ _ (lit_back wNull _ _)) (by simp only [List.length_cons]; omega) (by simp only [List.length_cons]; omega)
      · -- number
        simp only [hk]
        have hspec : valueWs (f' + 1 + 1) b = mapWs (J.numRelaxed (c :: cs)) (fun _ => J.JVal.num) := by
          simp only [valueWs, J.value, hy]
          have e1 : (c == 0x22) = false := by simpa using n1
          have e2 : (c == 0x5B) = false := by simpa using n2
          have e3 : (c == 0x7B) = false := by simpa using n3
          have e4 : (c == 0x74) = false := by simpa using n4
          have e5 : (c == 0x66) = false := by simpa using n5
          have e6 : (c == 0x6E) = false := by simpa using n6
          simp only [e1, e2, e3, e4, e5, e6, Bool.false_eq_true, ↓reduceIte]
          cases J.numRelaxed (c :: cs) <;> rfl
        rw [hspec]
        exact Back.rebase _ s _ b _ _ (finish_back _ _ _ _ _ _ _ _ (num_back _ _)) (by simp only [List.length_cons]; omega) (by simp only [List.length_cons]; omega)

theorem valueWs_cases (f : Nat) (y : Bytes) :
    (∃ v r0, J.value false f y = .ok v r0 ∧ valueWs f y = .ok v (J.skipWs r0)) ∨
    (J.value false f y = .more ∧ valueWs f y = .more) ∨ (J.value false f y = .bad ∧ valueWs f y = .bad) := by
  unfold valueWs
  cases h : J.value false f y with
  | ok v r => left; exact ⟨v, r, rfl, rfl⟩
  | more => right; left; exact ⟨rfl, rfl⟩
  | bad => right; right; exact ⟨rfl, rfl⟩

theorem arr_back_step (f : Nat) (hV : BAny qs cap f) (hA : BArr qs cap f) : BArr qs cap (f + 1) := by
  intro lvl b s acc first hb
  rw [arrayLoop, consumeSpace_spec, J.items]
  have hle := skipWs_length_le b
  cases hy : J.skipWs b with
  | nil => exact Back.fail_all _ _ _ _ (by simp [hy]) rfl
  | cons c cs =>
    simp only
    rw [hy] at hle
    simp only [List.length_cons] at hle
    generalize hs1 : s.bump (b.length - (c :: cs).length) = s1
    have hib1 : s1.ib + (cs.length + 1) = s.ib + b.length := by
      rw [← hs1]; simp only [bump_ib, List.length_cons]; omega
    by_cases hc : c = 0x5D
    · subst hc
      simp only [beq_self_eq_true, ↓reduceIte, Bool.not_false, Bool.or_true, Bool.and_self]
      exact ⟨⟨_, rfl⟩, by simp only [pop_ib, bump_ib]; omega, by omega⟩
    · have hc' : (c == 0x5D) = false := by simpa using hc
      simp only [hc', Bool.false_eq_true, ↓reduceIte, Bool.false_and]
      have ih := hV lvl (c :: cs) s1 (by simp only [List.length_cons]; omega)
      generalize consumeAny qs cap f lvl (c :: cs) s1 = res at ih
      obtain ⟨o, s2⟩ := res
      cases o with
      | none =>
        obtain ⟨i1, i2⟩ := ih
        simp only [List.length_cons] at i1 i2
        refine ⟨by omega, ?_⟩
        intro e
        have := i2 (by omega)
        rcases valueWs_cases f (c :: cs) with ⟨v, r0, h1, h2⟩ | ⟨h1, h2⟩ | ⟨h1, h2⟩
        · rw [h2] at this; cases this
        · rw [h1]
        · rw [h2] at this; cases this
      | some r2 =>
        obtain ⟨⟨v, hv⟩, i2, i3⟩ := ih
        simp only [List.length_cons] at i2 i3
        rcases valueWs_cases f (c :: cs) with ⟨v', r0, h1, h2⟩ | ⟨h1, h2⟩ | ⟨h1, h2⟩
        · rw [h2] at hv
          simp only [J.R.ok.injEq] at hv
          obtain ⟨rfl, hr⟩ := hv
          rw [h1]
          simp only
          rw [hr]
          cases r2 with
          | nil =>
            simp only
            exact Back.fail_all _ _ _ _ (by simp only [List.length_nil] at i2; omega) rfl
          | cons d ds =>
            simp only
            simp only [List.length_cons] at i2 i3
            by_cases hd : d = 0x2C
            · subst hd
              simp only [beq_self_eq_true, ↓reduceIte]
              exact Back.rebase _ _ _ _ _ _ (hA lvl ds s2.bump (v' :: acc) false (by omega)) (by simp only [bump_ib]; omega) (by omega)
            · have hd' : (d == 0x2C) = false := by simpa using hd
              simp only [hd', Bool.false_eq_true, ↓reduceIte]
              by_cases hd2 : d = 0x5D
              · subst hd2
                simp only [beq_self_eq_true, ↓reduceIte]
                exact ⟨⟨_, rfl⟩, by simp only [pop_ib, bump_ib]; omega, by omega⟩
              · have hd2' : (d == 0x5D) = false := by simpa using hd2
                simp only [hd2', Bool.false_eq_true, ↓reduceIte]
                exact Back.fail_early _ _ _ _ (by omega)
        · rw [h2] at hv; cases hv
        · rw [h2] at hv; cases hv

theorem obj_back_step (f : Nat) (hV : BAny qs cap f) (hO : BObj qs cap f) : BObj qs cap (f + 1) := by
  intro lvl b s acc first hb
  rw [objectLoop, consumeSpace_spec, J.members]
  have hle := skipWs_length_le b
  cases hy : J.skipWs b with
  | nil => exact Back.fail_all _ _ _ _ (by simp [hy]) rfl
  | cons c cs =>
    simp only
    rw [hy] at hle
    simp only [List.length_cons] at hle
    generalize hs1 : s.bump (b.length - (c :: cs).length) = s1
    have hib1 : s1.ib + (cs.length + 1) = s.ib + b.length := by
      rw [← hs1]; simp only [bump_ib, List.length_cons]; omega
    by_cases hc : c = 0x7D
    · subst hc
      simp only [beq_self_eq_true, ↓reduceIte, Bool.not_false, Bool.or_true, Bool.and_self]
      exact ⟨⟨_, rfl⟩, by simp only [bump_ib]; omega, by omega⟩
    · have hc' : (c == 0x7D) = false := by simpa using hc
      simp only [hc', Bool.false_eq_true, ↓reduceIte, Bool.false_and]
      by_cases hq : c = 0x22
      · subst hq
        simp only [bne_self_eq_false, Bool.false_eq_true, ↓reduceIte]
        -- the key
        have ik := str_back cs [] s1.bump
        generalize consumeString .norm cs s1.bump = resk at ik
        obtain ⟨ok, s2⟩ := resk
        cases ok with
        | none =>
          obtain ⟨i1, i2⟩ := ik
          simp only [bump_ib] at i1 i2
          refine ⟨by omega, ?_⟩
          intro e
          rw [i2 (by omega)]
        | some r =>
          obtain ⟨⟨k, hk⟩, i2, i3⟩ := ik
          simp only [bump_ib] at i2
          rw [hk]
          simp only
          rw [consumeSpace_spec]
          have hler := skipWs_length_le r
          generalize hs4 : (s2.push (consumed cs r).dropLast).bump (r.length - (J.skipWs r).length) = s4
          have hib4 : s4.ib + (J.skipWs r).length = s.ib + b.length := by
            rw [← hs4]; simp only [bump_ib, push_ib]; omega
          generalize hqm : (if (s2.push (consumed cs r).dropLast).querySatisfied = true then none
            else queryPathMatch qs (s2.push (consumed cs r).dropLast).currPath) = qm
          cases hyr : J.skipWs r with
          | nil =>
            rw [hyr] at hib4
            exact Back.fail_all _ _ _ _ (by simpa using hib4) rfl
          | cons d ds =>
            rw [hyr] at hib4 hler
            simp only [List.length_cons] at hib4 hler
            simp only
            by_cases hd : d = 0x3A
            · subst hd
              simp only [bne_self_eq_false, Bool.false_eq_true, ↓reduceIte]
              rw [consumeSpace_spec, value_skipWs]
              have hled := skipWs_length_le ds
              generalize hs5 : s4.bump.bump (ds.length - (J.skipWs ds).length) = s5
              have hib5 : s5.ib + (J.skipWs ds).length = s.ib + b.length := by
                rw [← hs5]; simp only [bump_ib]; omega
              obtain ⟨f', rfl⟩ : ∃ f', f = f' + 1 := ⟨f - 1, by omega⟩
              cases hyd : J.skipWs ds with
              | nil =>
                rw [hyd] at hib5
                simp only
                refine Back.fail_all _ _ _ _ (by simpa using hib5) ?_
                rw [value_nil]
              | cons e es =>
                rw [hyd] at hib5 hled
                simp only [List.length_cons] at hib5 hled
                simp only
                have ih := hV lvl (e :: es) s5 (by simp only [List.length_cons]; omega)
                generalize consumeAny qs cap (f' + 1) lvl (e :: es) s5 = res at ih
                obtain ⟨o, s6⟩ := res
                cases o with
                | none =>
                  obtain ⟨j1, j2⟩ := ih
                  simp only [List.length_cons] at j1 j2
                  refine ⟨by omega, ?_⟩
                  intro e0
                  have := j2 (by omega)
                  rcases valueWs_cases (f' + 1) (e :: es) with ⟨v, r0, h1, h2⟩ | ⟨h1, h2⟩ | ⟨h1, h2⟩
                  · rw [h2] at this; cases this
                  · rw [h1]
                  · rw [h2] at this; cases this
                | some r2 =>
                  obtain ⟨⟨v, hv⟩, j2, j3⟩ := ih
                  simp only [List.length_cons] at j2 j3
                  rcases valueWs_cases (f' + 1) (e :: es) with ⟨v', r0, h1, h2⟩ | ⟨h1, h2⟩ | ⟨h1, h2⟩
                  · rw [h2] at hv
                    simp only [J.R.ok.injEq] at hv
                    obtain ⟨rfl, hr⟩ := hv
                    rw [h1]
                    simp only
                    rw [hr]
                    cases r2 with
                    | nil =>
                      simp only
                      exact Back.fail_all _ _ _ _ (by simp only [applyQuery_ib, List.length_nil] at j2 ⊢; omega) rfl
                    | cons g gs =>
                      simp only
                      simp only [List.length_cons] at j2 j3
                      by_cases hg : g = 0x2C
                      · subst hg
                        simp only [beq_self_eq_true, ↓reduceIte]
                        exact Back.rebase _ _ _ _ _ _ (hO lvl gs _ ((k, v') :: acc) false (by omega))
                          (by simp only [bump_ib, pop_ib, applyQuery_ib]; omega) (by omega)
                      · have hg' : (g == 0x2C) = false := by simpa using hg
                        simp only [hg', Bool.false_eq_true, ↓reduceIte]
                        by_cases hg2 : g = 0x7D
                        · subst hg2
                          simp only [beq_self_eq_true, ↓reduceIte]
                          exact ⟨⟨_, rfl⟩, by simp only [pop_ib, bump_ib, applyQuery_ib]; omega, by omega⟩
                        · have hg2' : (g == 0x7D) = false := by simpa using hg2
                          simp only [hg2', Bool.false_eq_true, ↓reduceIte]
                          exact Back.fail_early _ _ _ _ (by simp only [applyQuery_ib]; omega)
                  · rw [h2] at hv; cases hv
                  · rw [h2] at hv; cases hv
            · have hd' : (d != 0x3A) = true := by simpa using hd
              simp only [hd', ↓reduceIte]
              exact Back.fail_early _ _ _ _ (by omega)
      · have hq' : (c != 0x22) = true := by simpa using hq
        simp only [hq', ↓reduceIte]
        exact Back.fail_early _ _ _ _ (by omega)

/-- **backward simulation of the three container scanners, for every fuel** -/
theorem back_all : ∀ f, BAny qs cap f ∧ BArr qs cap f ∧ BObj qs cap f := by
  intro f
  induction f with
  | zero => refine ⟨?_, ?_, ?_⟩ <;> intro lvl b s <;> intros <;> omega
  | succ f ih =>
    obtain ⟨hV, hA, hO⟩ := ih
    exact ⟨any_back_step qs cap f hA hO, arr_back_step qs cap f hV hA, obj_back_step qs cap f hV hO⟩

end Mime.JsonBack
