import MimeModel.Spec.Json
import MimeModel.Lemmas.JsonBackC
/-
  Every viable JSON prefix (Spec.J.viable) can be completed to a relaxed document.
  Reference grammar only (Spec/Json.lean); no reference to the scanner model.
-/
namespace Mime.SpecComplete
open Mime Mime.Spec.J

/-! ### closers -/

/-- bytes after which a value certainly stops: `]`, `}` and a blank -/
def stopc (c : Nat) : Bool := c == 0x5D || c == 0x7D || c == 0x20

/-- the appended text starts with `]`, `}` or a blank -/
def Closer (t : Bytes) : Prop := ∃ c r, t = c :: r ∧ stopc c = true

/-- appending `x` behind a recognised construct with rest `r` cannot change the outcome -/
def Safe (r x : Bytes) : Prop := r ≠ [] ∨ Closer x

theorem stopc_cases {c : Nat} (h : stopc c = true) : c = 0x5D ∨ c = 0x7D ∨ c = 0x20 := by
  simp [stopc] at h
  omega

theorem closer_rb (t : Bytes) : Closer (0x5D :: t) := ⟨_, _, rfl, by decide⟩
theorem closer_rc (t : Bytes) : Closer (0x7D :: t) := ⟨_, _, rfl, by decide⟩
theorem closer_sp (t : Bytes) : Closer (0x20 :: t) := ⟨_, _, rfl, by decide⟩

theorem safe_of_ne {r x : Bytes} (h : r ≠ []) : Safe r x := Or.inl h
theorem safe_of_closer {r x : Bytes} (h : Closer x) : Safe r x := Or.inr h

theorem safe_nil {x : Bytes} (h : Safe [] x) : Closer x := by
  rcases h with h | h
  · exact absurd rfl h
  · exact h

/-! ### white space -/

theorem skipWs_app_cons (x : Bytes) (c : Nat) (cs : Bytes) :
    ∀ b : Bytes, skipWs b = c :: cs → skipWs (b ++ x) = c :: (cs ++ x) := by
  intro b
  induction b with
  | nil => intro h; simp [skipWs] at h
  | cons a as ih =>
    intro h
    by_cases ha : ws a = true
    · simp only [skipWs, ha, if_true, List.cons_append] at h ⊢
      exact ih h
    · simp only [skipWs, ha, List.cons_append] at h ⊢
      simp at h ⊢
      simp [h.1, h.2]

theorem skipWs_app_nil (x : Bytes) : ∀ b : Bytes, skipWs b = [] → skipWs (b ++ x) = skipWs x := by
  intro b
  induction b with
  | nil => intro _; rfl
  | cons a as ih =>
    intro h
    by_cases ha : ws a = true
    · simp only [skipWs, ha, if_true, List.cons_append] at h ⊢
      exact ih h
    · simp [skipWs, ha] at h

theorem skipWs_nonws (c : Nat) (t : Bytes) (h : ws c = false) : skipWs (c :: t) = c :: t := by
  simp [skipWs, h]

theorem skipWs_ne_of_cons {b : Bytes} {c : Nat} {cs : Bytes} (h : skipWs b = c :: cs) : b ≠ [] := by
  intro hb; subst hb; simp [skipWs] at h

/-! ### digits -/

theorem digits_cons_digit (c : Nat) (cs : Bytes) (h : digit c = true) :
    digits (c :: cs) = ((digits cs).1 + 1, (digits cs).2) := by
  rw [digits, if_pos h]

theorem digits_cons_non (c : Nat) (cs : Bytes) (h : digit c = false) :
    digits (c :: cs) = (0, c :: cs) := by
  rw [digits]; simp [h]

theorem stop_facts {c : Nat} (h : stopc c = true) :
    digit c = false ∧ (c == 0x2E) = false ∧ isExpChar c = false ∧ (c == 0x2D) = false ∧ (c == 0x2B) = false := by
  rcases stopc_cases h with h | h | h <;> subst h <;> decide

theorem digits_safe (x : Bytes) : ∀ b : Bytes, Safe (digits b).2 x →
    digits (b ++ x) = ((digits b).1, (digits b).2 ++ x) := by
  intro b
  induction b with
  | nil =>
    intro h
    obtain ⟨c, r, rfl, hc⟩ := safe_nil h
    simp [digits_cons_non c r (stop_facts hc).1, digits]
  | cons a as ih =>
    intro h
    by_cases ha : digit a = true
    · rw [digits_cons_digit a as ha] at h ⊢
      rw [List.cons_append, digits_cons_digit a _ ha, ih h]
    · have ha' : digit a = false := by simpa using ha
      rw [digits_cons_non a as ha', List.cons_append, digits_cons_non a _ ha']

theorem digits_zero : ∀ b : Bytes, (digits b).1 = 0 → (digits b).2 = b := by
  intro b
  cases b with
  | nil => intro _; rfl
  | cons a as =>
    intro h
    by_cases ha : digit a = true
    · rw [digits_cons_digit a as ha] at h; simp at h
    · have ha' : digit a = false := by simpa using ha
      rw [digits_cons_non a as ha']

/-! ### numbers -/

def fracPart (r1 : Bytes) : Nat × Bytes :=
  match r1 with
  | 0x2E :: r => digits r
  | _ => (0, r1)

def numStage (b : Bytes) : Nat × Bytes :=
  ((digits (dropMinus b)).1 + (fracPart (digits (dropMinus b)).2).1, (fracPart (digits (dropMinus b)).2).2)

theorem numRelaxed_eq (b : Bytes) : numRelaxed b =
    if (numStage b).1 == 0 then (if (numStage b).2.isEmpty then .more else .bad) else expPart (numStage b).2 := by
  unfold numRelaxed numStage
  dsimp only
  generalize (digits (dropMinus b)).2 = r1
  generalize (digits (dropMinus b)).1 = n1
  rcases r1 with _ | ⟨c, r⟩
  · rfl
  · by_cases hc : c = 0x2E
    · subst hc; rfl
    · have : fracPart (c :: r) = (0, c :: r) := by
        unfold fracPart; split
        · rename_i h; simp at h; exact absurd h.1 hc
        · rfl
      rw [this]
      split
      · rename_i h; simp at h; exact absurd h.1 hc
      · rfl

theorem safe_imp {r r' x : Bytes} (h : Safe r x) (himp : r' = [] → r = []) : Safe r' x := by
  rcases h with h | h
  · exact Or.inl (fun h' => h (himp h'))
  · exact Or.inr h

theorem fracPart_nil : fracPart [] = (0, []) := rfl
theorem fracPart_dot (r : Bytes) : fracPart (0x2E :: r) = digits r := rfl
theorem fracPart_non (c : Nat) (r : Bytes) (hc : (c == 0x2E) = false) : fracPart (c :: r) = (0, c :: r) := by
  unfold fracPart; split
  · rename_i h; simp at h; simp [h.1] at hc
  · rfl

theorem fracPart_safe (x : Bytes) (r1 : Bytes) (h : Safe (fracPart r1).2 x) :
    fracPart (r1 ++ x) = ((fracPart r1).1, (fracPart r1).2 ++ x) := by
  rcases r1 with _ | ⟨c, r⟩
  · obtain ⟨d, t, rfl, hd⟩ := safe_nil h
    rw [List.nil_append, fracPart_non d t (stop_facts hd).2.1]; rfl
  · by_cases hc : c = 0x2E
    · subst hc
      rw [fracPart_dot] at h ⊢
      rw [List.cons_append, fracPart_dot, digits_safe x r h]
    · have hc' : (c == 0x2E) = false := by simpa using hc
      rw [fracPart_non c r hc', List.cons_append, fracPart_non c _ hc']

theorem dropMinus_nil : dropMinus [] = [] := rfl
theorem dropMinus_minus (r : Bytes) : dropMinus (0x2D :: r) = r := rfl
theorem dropMinus_non (c : Nat) (r : Bytes) (hc : (c == 0x2D) = false) : dropMinus (c :: r) = c :: r := by
  unfold dropMinus; split
  · rename_i h; simp at h; simp [h.1] at hc
  · rfl

theorem dropMinus_app (b x : Bytes) (h : Safe b x) : dropMinus (b ++ x) = dropMinus b ++ x := by
  rcases b with _ | ⟨c, r⟩
  · obtain ⟨d, t, rfl, hd⟩ := safe_nil h
    rw [List.nil_append, dropMinus_non d t (stop_facts hd).2.2.2.1]; rfl
  · by_cases hc : c = 0x2D
    · subst hc; rfl
    · have hc' : (c == 0x2D) = false := by simpa using hc
      rw [dropMinus_non c r hc', List.cons_append, dropMinus_non c _ hc']

theorem numStage_safe (x b : Bytes) (h : Safe (numStage b).2 x) :
    numStage (b ++ x) = ((numStage b).1, (numStage b).2 ++ x) := by
  have hf : Safe (fracPart (digits (dropMinus b)).2).2 x := h
  have h1 : Safe (digits (dropMinus b)).2 x := safe_imp hf (fun e => by rw [e]; rfl)
  have h0 : Safe b x := safe_imp h1 (fun e => by rw [e]; rfl)
  unfold numStage
  rw [dropMinus_app b x h0, digits_safe x _ h1]
  dsimp only
  rw [fracPart_safe x _ hf]

theorem digits1_safe (x y r : Bytes) (h : digits1 y = .ok () r) (hs : Safe r x) :
    digits1 (y ++ x) = .ok () (r ++ x) := by
  unfold digits1 at h ⊢
  dsimp only at h ⊢
  by_cases hn : ((digits y).1 == 0) = true
  · rw [if_pos hn] at h; split at h <;> cases h
  · rw [if_neg hn] at h
    cases h
    rw [digits_safe x y hs]
    dsimp only
    rw [if_neg hn]

theorem dropSign_nil : dropSign [] = [] := rfl
theorem dropSign_cons (s : Nat) (t : Bytes) :
    dropSign (s :: t) = if s == 0x2B || s == 0x2D then t else s :: t := rfl

theorem dropSign_app (t x : Bytes) (h : t ≠ []) : dropSign (t ++ x) = dropSign t ++ x := by
  rcases t with _ | ⟨s, t⟩
  · exact absurd rfl h
  · rw [List.cons_append, dropSign_cons, dropSign_cons]; split <;> rfl

theorem expPart_nil : expPart [] = .ok () [] := rfl
theorem expPart_cons (e : Nat) (t : Bytes) :
    expPart (e :: t) = if isExpChar e then digits1 (dropSign t) else .ok () (e :: t) := rfl

theorem expPart_safe (x r3 r : Bytes) (h : expPart r3 = .ok () r) (hs : Safe r x) :
    expPart (r3 ++ x) = .ok () (r ++ x) := by
  rcases r3 with _ | ⟨e, t⟩
  · cases h
    obtain ⟨d, u, rfl, hd⟩ := safe_nil hs
    show expPart (d :: u) = R.ok () (d :: u)
    rw [expPart_cons, (stop_facts hd).2.2.1]; rfl
  · rw [expPart_cons] at h
    rw [List.cons_append, expPart_cons]
    by_cases he : isExpChar e = true
    · rw [if_pos he] at h ⊢
      have ht : t ≠ [] := by
        intro e; subst e; cases h
      rw [dropSign_app t x ht]
      exact digits1_safe x _ r h hs
    · rw [if_neg he] at h ⊢
      cases h; rfl

/-- a recognised number stays recognised (same end) when safe text follows -/
theorem numRelaxed_safe (x b r : Bytes) (h : numRelaxed b = .ok () r) (hs : Safe r x) :
    numRelaxed (b ++ x) = .ok () (r ++ x) := by
  rw [numRelaxed_eq] at h ⊢
  by_cases hn : ((numStage b).1 == 0) = true
  · rw [if_pos hn] at h; split at h <;> cases h
  · rw [if_neg hn] at h
    have h3 : Safe (numStage b).2 x := safe_imp hs (fun e => by rw [e] at h; cases h; rfl)
    rw [numStage_safe x b h3]
    dsimp only
    rw [if_neg hn]
    exact expPart_safe x _ r h hs

theorem digits1_more (y : Bytes) (h : digits1 y = .more) : y = [] := by
  unfold digits1 at h
  dsimp only at h
  by_cases hn : ((digits y).1 == 0) = true
  · rw [if_pos hn] at h
    have h2 := digits_zero y (by simpa using hn)
    rw [h2] at h
    cases y with
    | nil => rfl
    | cons a as => simp at h
  · rw [if_neg hn] at h; cases h

theorem dropSign_eq_nil (t : Bytes) (h : dropSign t = []) :
    t = [] ∨ ∃ s, t = [s] ∧ (s == 0x2B || s == 0x2D) = true := by
  rcases t with _ | ⟨s, t⟩
  · exact Or.inl rfl
  · rw [dropSign_cons] at h
    by_cases hs : (s == 0x2B || s == 0x2D) = true
    · rw [if_pos hs] at h; subst h; exact Or.inr ⟨s, rfl, hs⟩
    · rw [if_neg hs] at h; cases h

theorem numStage_zero (b : Bytes) (h1 : (numStage b).1 = 0) (h2 : (numStage b).2 = []) :
    b = [] ∨ b = [0x2D] ∨ b = [0x2E] ∨ b = [0x2D, 0x2E] := by
  unfold numStage at h1 h2
  dsimp only at h1 h2
  have hn1 : (digits (dropMinus b)).1 = 0 := by omega
  have hr1 := digits_zero _ hn1
  rw [hr1] at h1 h2
  have hb1 : dropMinus b = [] ∨ dropMinus b = [0x2E] := by
    generalize dropMinus b = b1 at h1 h2
    rcases b1 with _ | ⟨c, r⟩
    · exact Or.inl rfl
    · by_cases hc : c = 0x2E
      · subst hc
        rw [fracPart_dot] at h1 h2
        have := digits_zero r (by omega)
        rw [h2] at this; subst this; exact Or.inr rfl
      · have hc' : (c == 0x2E) = false := by simpa using hc
        rw [fracPart_non c r hc'] at h2; cases h2
  rcases b with _ | ⟨c, r⟩
  · exact Or.inl rfl
  · by_cases hc : c = 0x2D
    · subst hc
      rw [dropMinus_minus] at hb1
      rcases hb1 with e | e <;> subst e <;> simp
    · have hc' : (c == 0x2D) = false := by simpa using hc
      rw [dropMinus_non c r hc'] at hb1
      rcases hb1 with e | e
      · cases e
      · rw [e]; simp

/-- a number cut short is completed by one `0` -/
theorem numRelaxed_complete0 (b : Bytes) (h : numRelaxed b = .more) :
    numRelaxed (b ++ [0x30]) = .ok () [] := by
  rw [numRelaxed_eq] at h
  by_cases hn : ((numStage b).1 == 0) = true
  · rw [if_pos hn] at h
    by_cases he : (numStage b).2.isEmpty = true
    · have h2 : (numStage b).2 = [] := by simpa using he
      rcases numStage_zero b (by simpa using hn) h2 with e | e | e | e <;> subst e <;> rfl
    · rw [if_neg he] at h; cases h
  · rw [if_neg hn] at h
    rcases h3 : (numStage b).2 with _ | ⟨e, t⟩
    · rw [h3] at h; cases h
    · rw [h3, expPart_cons] at h
      by_cases hx : isExpChar e = true
      · rw [if_pos hx] at h
        have hd := digits1_more _ h
        rw [numRelaxed_eq, numStage_safe [0x30] b (Or.inl (by rw [h3]; simp))]
        dsimp only
        rw [if_neg hn, h3, List.cons_append, expPart_cons, if_pos hx]
        rcases dropSign_eq_nil t hd with e1 | ⟨s, e1, hs⟩
        · subst e1; rfl
        · subst e1
          rw [List.cons_append, dropSign_cons, if_pos hs]; rfl
      · rw [if_neg hx] at h; cases h

theorem numRelaxed_complete (b t : Bytes) (h : numRelaxed b = .more) (ht : Closer t) :
    numRelaxed (b ++ 0x30 :: t) = .ok () t := by
  have := numRelaxed_safe t (b ++ [0x30]) [] (numRelaxed_complete0 b h) (Or.inr ht)
  simpa using this

theorem numRelaxed_zero (t : Bytes) (ht : Closer t) : numRelaxed (0x30 :: t) = .ok () t := by
  have := numRelaxed_safe t [0x30] [] rfl (Or.inr ht)
  simpa using this

/-! ### literals -/

theorem lit_word (w t : Bytes) : lit w (w ++ t) = .ok () t := by
  unfold lit
  have : w.isPrefixOf (w ++ t) = true := List.isPrefixOf_iff_prefix.mpr (List.prefix_append w t)
  rw [if_pos this, List.drop_left]

theorem lit_safe (w b r x : Bytes) (h : lit w b = .ok () r) : lit w (b ++ x) = .ok () (r ++ x) := by
  unfold lit at h
  by_cases hp : w.isPrefixOf b = true
  · rw [if_pos hp] at h
    obtain ⟨k, rfl⟩ := List.isPrefixOf_iff_prefix.mp hp
    rw [List.drop_left] at h
    cases h
    rw [List.append_assoc, lit_word]
  · rw [if_neg hp] at h; split at h <;> cases h

theorem lit_complete (w b : Bytes) (h : lit w b = .more) : ∃ s, ∀ t, lit w (b ++ (s ++ t)) = .ok () t := by
  unfold lit at h
  by_cases hp : w.isPrefixOf b = true
  · rw [if_pos hp] at h; cases h
  · rw [if_neg hp] at h
    by_cases hq : b.isPrefixOf w = true
    · obtain ⟨k, rfl⟩ := List.isPrefixOf_iff_prefix.mp hq
      refine ⟨k, fun t => ?_⟩
      rw [← List.append_assoc, lit_word]
    · rw [if_neg hq] at h; cases h

/-! ### strings -/

theorem str_quote (s : Bool) (c : Nat) (cs acc : Bytes) (h : (c == 0x22) = true) :
    str s (c :: cs) acc = .ok acc.reverse cs := by
  rw [str.eq_def]; simp [h]
theorem str_esc_simple (s : Bool) (c e : Nat) (es acc : Bytes) (h1 : ¬ (c == 0x22) = true) (h2 : (c == 0x5C) = true)
    (h3 : (e == 0x22 || e == 0x5C || e == 0x2F || e == 0x62 || e == 0x66 || e == 0x6E || e == 0x72 || e == 0x74) = true) :
    str s (c :: e :: es) acc = str s es (e :: c :: acc) := by
  rw [str.eq_def]; simp only [h1, h2, h3, if_true, Bool.false_eq_true, if_false]
theorem str_esc_u4 (s : Bool) (c e h1 h2 h3 h4 : Nat) (r acc : Bytes) (hc1 : ¬ (c == 0x22) = true) (hc2 : (c == 0x5C) = true)
    (he1 : ¬ (e == 0x22 || e == 0x5C || e == 0x2F || e == 0x62 || e == 0x66 || e == 0x6E || e == 0x72 || e == 0x74) = true)
    (he2 : (e == 0x75) = true) (hh : (hexd h1 && hexd h2 && hexd h3 && hexd h4) = true) :
    str s (c :: e :: h1 :: h2 :: h3 :: h4 :: r) acc = str s r (h4 :: h3 :: h2 :: h1 :: e :: c :: acc) := by
  rw [str.eq_def]; simp only [hc1, hc2, he1, he2, hh, if_true, Bool.false_eq_true, if_false]
theorem str_plain (c : Nat) (cs acc : Bytes) (h1 : ¬ (c == 0x22) = true) (h2 : ¬ (c == 0x5C) = true) :
    str false (c :: cs) acc = str false cs (c :: acc) := by
  rw [str.eq_def]; simp [h1, h2]

theorem str_safe (x : Bytes) (cs acc : Bytes) :
    ∀ v r, str false cs acc = .ok v r → str false (cs ++ x) acc = .ok v (r ++ x) := by
  fun_induction str false cs acc <;> intro v r h
  case case2 hc => cases h; rw [List.cons_append, str_quote _ _ _ _ hc]
  case case4 hc1 hc2 e es he ih =>
    rw [List.cons_append, List.cons_append, str_esc_simple _ _ _ _ _ hc1 hc2 he]; exact ih v r h
  case case5 hc1 hc2 e he1 he2 h1 h2 h3 h4 r' hh ih =>
    simp only [List.cons_append]
    rw [str_esc_u4 _ _ _ _ _ _ _ _ _ hc1 hc2 he1 he2 hh]; exact ih v r h
  case case11 hc1 hc2 _ ih =>
    rw [List.cons_append, str_plain _ _ _ hc1 hc2]; exact ih v r h
  all_goals cases h

theorem hexd_zero : hexd 0x30 = true := by decide

theorem str_complete (cs acc : Bytes) :
    str false cs acc = .more → ∃ s, ∀ t, ∃ v, str false (cs ++ (s ++ t)) acc = .ok v t := by
  fun_induction str false cs acc <;> intro h
  case case1 => exact ⟨[0x22], fun t => ⟨_, str_quote _ _ _ _ rfl⟩⟩
  case case3 c acc hc1 hc2 =>
    refine ⟨[0x6E, 0x22], fun t => ?_⟩; apply Exists.intro
    show str false (c :: 0x6E :: 0x22 :: t) acc = _
    rw [str_esc_simple _ _ _ _ _ hc1 hc2 (by decide), str_quote _ _ _ _ rfl]
  case case4 hc1 hc2 e es he ih =>
    obtain ⟨s, hs⟩ := ih h
    refine ⟨s, fun t => ?_⟩
    obtain ⟨v, hv⟩ := hs t
    exact ⟨v, by rw [List.cons_append, List.cons_append, str_esc_simple _ _ _ _ _ hc1 hc2 he]; exact hv⟩
  case case5 hc1 hc2 e he1 he2 h1 h2 h3 h4 r' hh ih =>
    obtain ⟨s, hs⟩ := ih h
    refine ⟨s, fun t => ?_⟩
    obtain ⟨v, hv⟩ := hs t
    refine ⟨v, ?_⟩
    simp only [List.cons_append]
    rw [str_esc_u4 _ _ _ _ _ _ _ _ _ hc1 hc2 he1 he2 hh]; exact hv
  case case7 c acc hc1 hc2 e he1 he2 l hl hall =>
    rcases l with _ | ⟨a1, _ | ⟨a2, _ | ⟨a3, _ | ⟨a4, l⟩⟩⟩⟩
    · refine ⟨[0x30, 0x30, 0x30, 0x30, 0x22], fun t => ?_⟩; apply Exists.intro
      show str false (c :: e :: 0x30 :: 0x30 :: 0x30 :: 0x30 :: 0x22 :: t) acc = _
      rw [str_esc_u4 _ _ _ _ _ _ _ _ _ hc1 hc2 he1 he2 (by decide), str_quote _ _ _ _ rfl]
    · refine ⟨[0x30, 0x30, 0x30, 0x22], fun t => ?_⟩; apply Exists.intro
      show str false (c :: e :: a1 :: 0x30 :: 0x30 :: 0x30 :: 0x22 :: t) acc = _
      simp [List.all] at hall
      rw [str_esc_u4 _ _ _ _ _ _ _ _ _ hc1 hc2 he1 he2 (by simp [hall, hexd_zero]), str_quote _ _ _ _ rfl]
    · refine ⟨[0x30, 0x30, 0x22], fun t => ?_⟩; apply Exists.intro
      show str false (c :: e :: a1 :: a2 :: 0x30 :: 0x30 :: 0x22 :: t) acc = _
      simp [List.all] at hall
      rw [str_esc_u4 _ _ _ _ _ _ _ _ _ hc1 hc2 he1 he2 (by simp [hall, hexd_zero]), str_quote _ _ _ _ rfl]
    · refine ⟨[0x30, 0x22], fun t => ?_⟩; apply Exists.intro
      show str false (c :: e :: a1 :: a2 :: a3 :: 0x30 :: 0x22 :: t) acc = _
      simp [List.all] at hall
      rw [str_esc_u4 _ _ _ _ _ _ _ _ _ hc1 hc2 he1 he2 (by simp [hall, hexd_zero]), str_quote _ _ _ _ rfl]
    · exact absurd rfl (fun e => hl _ _ _ _ _ e)
  case case11 hc1 hc2 _ ih =>
    obtain ⟨s, hs⟩ := ih h
    refine ⟨s, fun t => ?_⟩
    obtain ⟨v, hv⟩ := hs t
    exact ⟨v, by rw [List.cons_append, str_plain _ _ _ hc1 hc2]; exact hv⟩
  all_goals cases h

/-! ### the mutual block, one layer at a time -/

def wrap {α : Type} (g : α → JVal) (x : R α) : R JVal :=
  match x with
  | .ok a r => .ok (g a) r
  | .more => .more
  | .bad => .bad

def valueHead (s : Bool) (f : Nat) (c : Nat) (cs : Bytes) : R JVal :=
  if c == 0x22 then wrap .str (str s cs [])
  else if c == 0x5B then items s f cs [] true
  else if c == 0x7B then members s f cs [] true
  else if c == 0x74 then wrap (fun _ => .bool true) (lit [0x74, 0x72, 0x75, 0x65] (c :: cs))
  else if c == 0x66 then wrap (fun _ => .bool false) (lit [0x66, 0x61, 0x6C, 0x73, 0x65] (c :: cs))
  else if c == 0x6E then wrap (fun _ => .null) (lit [0x6E, 0x75, 0x6C, 0x6C] (c :: cs))
  else wrap (fun _ => .num) (if s then numStrict (c :: cs) else numRelaxed (c :: cs))

theorem value_succ (s : Bool) (f : Nat) (b : Bytes) :
    value s (f + 1) b = match skipWs b with | [] => .more | c :: cs => valueHead s f c cs := by
  rw [value]
  cases skipWs b with
  | nil => rfl
  | cons c cs =>
    dsimp only
    unfold valueHead wrap
    split
    · cases str s cs [] <;> rfl
    split
    · rfl
    split
    · rfl
    split
    · cases lit _ (c :: cs) <;> rfl
    split
    · cases lit _ (c :: cs) <;> rfl
    split
    · cases lit _ (c :: cs) <;> rfl
    cases (if s = true then numStrict (c :: cs) else numRelaxed (c :: cs)) <;> rfl

def itemsAfter (s : Bool) (f : Nat) (acc : List JVal) (x : R JVal) : R JVal :=
  match x with
  | .bad => .bad
  | .more => .more
  | .ok v r =>
    match skipWs r with
    | [] => .more
    | d :: ds =>
      if d == 0x2C then items s f ds (v :: acc) false
      else if d == 0x5D then .ok (.arr (v :: acc).reverse) ds
      else .bad

theorem items_succ (s : Bool) (f : Nat) (b : Bytes) (acc : List JVal) (first : Bool) :
    items s (f + 1) b acc first =
      match skipWs b with
      | [] => .more
      | c :: cs =>
        if c == 0x5D && (first || !s) then .ok (.arr acc.reverse) cs
        else itemsAfter s f acc (value s f (c :: cs)) := by
  rw [items]; rfl

def membersAfterVal (s : Bool) (f : Nat) (acc : List (Bytes × JVal)) (k : Bytes) (x : R JVal) : R JVal :=
  match x with
  | .bad => .bad
  | .more => .more
  | .ok v r2 =>
    match skipWs r2 with
    | [] => .more
    | e :: es =>
      if e == 0x2C then members s f es ((k, v) :: acc) false
      else if e == 0x7D then .ok (.obj ((k, v) :: acc).reverse) es
      else .bad

def membersAfterKey (s : Bool) (f : Nat) (acc : List (Bytes × JVal)) (x : R Bytes) : R JVal :=
  match x with
  | .bad => .bad
  | .more => .more
  | .ok k r =>
    match skipWs r with
    | [] => .more
    | d :: ds =>
      if d != 0x3A then .bad else membersAfterVal s f acc k (value s f ds)

theorem members_succ (s : Bool) (f : Nat) (b : Bytes) (acc : List (Bytes × JVal)) (first : Bool) :
    members s (f + 1) b acc first =
      match skipWs b with
      | [] => .more
      | c :: cs =>
        if c == 0x7D && (first || !s) then .ok (.obj acc.reverse) cs
        else if c != 0x22 then .bad
        else membersAfterKey s f acc (str s cs []) := by
  rw [members]; rfl

theorem wrap_ok {α : Type} (g : α → JVal) (a : α) (r : Bytes) : wrap g (.ok a r) = .ok (g a) r := rfl

theorem wrap_ok_inv {α : Type} {g : α → JVal} {x : R α} {v : JVal} {r : Bytes}
    (h : wrap g x = .ok v r) : ∃ a, x = .ok a r ∧ v = g a := by
  cases x with
  | ok a r' => cases h; exact ⟨a, rfl, rfl⟩
  | more => cases h
  | bad => cases h

theorem wrap_more_inv {α : Type} {g : α → JVal} {x : R α} (h : wrap g x = .more) : x = .more := by
  cases x with
  | ok a r' => cases h
  | more => rfl
  | bad => cases h

section cases
variable {s : Bool} {f : Nat} {b : Bytes} {c : Nat} {cs : Bytes}

theorem value_nil (h : skipWs b = []) : value s (f + 1) b = .more := by
  rw [value_succ, h]

theorem value_cons (h : skipWs b = c :: cs) : value s (f + 1) b = valueHead s f c cs := by
  rw [value_succ, h]

theorem items_nil {acc : List JVal} {first : Bool} (h : skipWs b = []) :
    items s (f + 1) b acc first = .more := by
  rw [items_succ, h]

theorem items_close {acc : List JVal} {first : Bool} (h : skipWs b = c :: cs)
    (hc : (c == 0x5D && (first || !s)) = true) :
    items s (f + 1) b acc first = .ok (.arr acc.reverse) cs := by
  rw [items_succ, h]; dsimp only; rw [if_pos hc]

theorem items_val {acc : List JVal} {first : Bool} (h : skipWs b = c :: cs)
    (hc : ¬ (c == 0x5D && (first || !s)) = true) :
    items s (f + 1) b acc first = itemsAfter s f acc (value s f (c :: cs)) := by
  rw [items_succ, h]; dsimp only; rw [if_neg hc]

theorem itemsAfter_nil {acc : List JVal} {v : JVal} {r : Bytes} (h : skipWs r = []) :
    itemsAfter s f acc (.ok v r) = .more := by
  unfold itemsAfter; dsimp only; rw [h]

theorem itemsAfter_cons {acc : List JVal} {v : JVal} {r : Bytes} {d : Nat} {ds : Bytes} (h : skipWs r = d :: ds) :
    itemsAfter s f acc (.ok v r) =
      if d == 0x2C then items s f ds (v :: acc) false
      else if d == 0x5D then .ok (.arr (v :: acc).reverse) ds
      else .bad := by
  unfold itemsAfter; dsimp only; rw [h]

theorem members_nil {acc : List (Bytes × JVal)} {first : Bool} (h : skipWs b = []) :
    members s (f + 1) b acc first = .more := by
  rw [members_succ, h]

theorem members_close {acc : List (Bytes × JVal)} {first : Bool} (h : skipWs b = c :: cs)
    (hc : (c == 0x7D && (first || !s)) = true) :
    members s (f + 1) b acc first = .ok (.obj acc.reverse) cs := by
  rw [members_succ, h]; dsimp only; rw [if_pos hc]

theorem members_key {acc : List (Bytes × JVal)} {first : Bool} (h : skipWs b = c :: cs)
    (hc : ¬ (c == 0x7D && (first || !s)) = true) :
    members s (f + 1) b acc first =
      if c != 0x22 then .bad else membersAfterKey s f acc (str s cs []) := by
  rw [members_succ, h]; dsimp only; rw [if_neg hc]

theorem membersAfterKey_nil {acc : List (Bytes × JVal)} {k r : Bytes} (h : skipWs r = []) :
    membersAfterKey s f acc (.ok k r) = .more := by
  unfold membersAfterKey; dsimp only; rw [h]

theorem membersAfterKey_cons {acc : List (Bytes × JVal)} {k r : Bytes} {d : Nat} {ds : Bytes}
    (h : skipWs r = d :: ds) :
    membersAfterKey s f acc (.ok k r) =
      if d != 0x3A then .bad else membersAfterVal s f acc k (value s f ds) := by
  unfold membersAfterKey; dsimp only; rw [h]

theorem membersAfterVal_nil {acc : List (Bytes × JVal)} {k : Bytes} {v : JVal} {r : Bytes} (h : skipWs r = []) :
    membersAfterVal s f acc k (.ok v r) = .more := by
  unfold membersAfterVal; dsimp only; rw [h]

theorem membersAfterVal_cons {acc : List (Bytes × JVal)} {k : Bytes} {v : JVal} {r : Bytes} {e : Nat} {es : Bytes}
    (h : skipWs r = e :: es) :
    membersAfterVal s f acc k (.ok v r) =
      if e == 0x2C then members s f es ((k, v) :: acc) false
      else if e == 0x7D then .ok (.obj ((k, v) :: acc).reverse) es
      else .bad := by
  unfold membersAfterVal; dsimp only; rw [h]

end cases

/-! ### 1. more fuel keeps a successful parse -/

def MV (s : Bool) (f : Nat) : Prop := ∀ b v r, value s f b = .ok v r → value s (f + 1) b = .ok v r
def MI (s : Bool) (f : Nat) : Prop :=
  ∀ b acc first v r, items s f b acc first = .ok v r → items s (f + 1) b acc first = .ok v r
def MM (s : Bool) (f : Nat) : Prop :=
  ∀ b acc first v r, members s f b acc first = .ok v r → members s (f + 1) b acc first = .ok v r

theorem valueHead_mono {s : Bool} {f : Nat} (hI : MI s f) (hM : MM s f) (c : Nat) (cs : Bytes) (v : JVal) (r : Bytes)
    (h : valueHead s f c cs = .ok v r) : valueHead s (f + 1) c cs = .ok v r := by
  unfold valueHead at h ⊢
  by_cases h1 : (c == 0x22) = true
  · rw [if_pos h1] at h ⊢; exact h
  rw [if_neg h1] at h ⊢
  by_cases h2 : (c == 0x5B) = true
  · rw [if_pos h2] at h ⊢; exact hI _ _ _ _ _ h
  rw [if_neg h2] at h ⊢
  by_cases h3 : (c == 0x7B) = true
  · rw [if_pos h3] at h ⊢; exact hM _ _ _ _ _ h
  rw [if_neg h3] at h ⊢
  exact h

theorem itemsAfter_mono {s : Bool} {f : Nat} (hV : MV s f) (hI : MI s f) (acc : List JVal) (y : Bytes) (v : JVal) (r : Bytes)
    (h : itemsAfter s f acc (value s f y) = .ok v r) : itemsAfter s (f + 1) acc (value s (f + 1) y) = .ok v r := by
  rcases hv : value s f y with ⟨v1, r1⟩ | _ | _
  · rw [hv] at h
    rw [hV _ _ _ hv]
    rcases hr : skipWs r1 with _ | ⟨d, ds⟩
    · rw [itemsAfter_nil hr] at h; cases h
    · rw [itemsAfter_cons hr] at h ⊢
      by_cases hd : (d == 0x2C) = true
      · rw [if_pos hd] at h ⊢; exact hI _ _ _ _ _ h
      · rw [if_neg hd] at h ⊢; exact h
  · rw [hv] at h; cases h
  · rw [hv] at h; cases h

theorem membersAfterVal_mono {s : Bool} {f : Nat} (hV : MV s f) (hM : MM s f) (acc : List (Bytes × JVal)) (k y : Bytes)
    (v : JVal) (r : Bytes)
    (h : membersAfterVal s f acc k (value s f y) = .ok v r) :
    membersAfterVal s (f + 1) acc k (value s (f + 1) y) = .ok v r := by
  rcases hv : value s f y with ⟨v1, r1⟩ | _ | _
  · rw [hv] at h
    rw [hV _ _ _ hv]
    rcases hr : skipWs r1 with _ | ⟨d, ds⟩
    · rw [membersAfterVal_nil hr] at h; cases h
    · rw [membersAfterVal_cons hr] at h ⊢
      by_cases hd : (d == 0x2C) = true
      · rw [if_pos hd] at h ⊢; exact hM _ _ _ _ _ h
      · rw [if_neg hd] at h ⊢; exact h
  · rw [hv] at h; cases h
  · rw [hv] at h; cases h

theorem membersAfterKey_mono {s : Bool} {f : Nat} (hV : MV s f) (hM : MM s f) (acc : List (Bytes × JVal))
    (x : R Bytes) (v : JVal) (r : Bytes)
    (h : membersAfterKey s f acc x = .ok v r) : membersAfterKey s (f + 1) acc x = .ok v r := by
  rcases x with ⟨k, r1⟩ | _ | _
  · rcases hr : skipWs r1 with _ | ⟨d, ds⟩
    · rw [membersAfterKey_nil hr] at h; cases h
    · rw [membersAfterKey_cons hr] at h ⊢
      by_cases hd : (d != 0x3A) = true
      · rw [if_pos hd] at h; cases h
      · rw [if_neg hd] at h ⊢; exact membersAfterVal_mono hV hM _ _ _ _ _ h
  · cases h
  · cases h

theorem mono_step {s : Bool} {f : Nat} (hV : MV s f) (hI : MI s f) (hM : MM s f) :
    MV s (f + 1) ∧ MI s (f + 1) ∧ MM s (f + 1) := by
  refine ⟨?_, ?_, ?_⟩
  · intro b v r h
    rcases hb : skipWs b with _ | ⟨c, cs⟩
    · rw [value_nil hb] at h; cases h
    · rw [value_cons hb] at h ⊢; exact valueHead_mono hI hM _ _ _ _ h
  · intro b acc first v r h
    rcases hb : skipWs b with _ | ⟨c, cs⟩
    · rw [items_nil hb] at h; cases h
    · by_cases hc : (c == 0x5D && (first || !s)) = true
      · rw [items_close hb hc] at h ⊢; exact h
      · rw [items_val hb hc] at h ⊢; exact itemsAfter_mono hV hI _ _ _ _ h
  · intro b acc first v r h
    rcases hb : skipWs b with _ | ⟨c, cs⟩
    · rw [members_nil hb] at h; cases h
    · by_cases hc : (c == 0x7D && (first || !s)) = true
      · rw [members_close hb hc] at h ⊢; exact h
      · rw [members_key hb hc] at h ⊢
        by_cases hq : (c != 0x22) = true
        · rw [if_pos hq] at h; cases h
        · rw [if_neg hq] at h ⊢; exact membersAfterKey_mono hV hM _ _ _ _ h

theorem mono_all (s : Bool) : ∀ f, MV s f ∧ MI s f ∧ MM s f := by
  intro f
  induction f with
  | zero =>
    refine ⟨?_, ?_, ?_⟩
    · intro b v r h; rw [value] at h; cases h
    · intro b acc first v r h; rw [items] at h; cases h
    · intro b acc first v r h; rw [members] at h; cases h
  | succ f ih => exact mono_step ih.1 ih.2.1 ih.2.2

/-- fuel monotonicity for successful parses -/
theorem value_mono_le (s : Bool) (b : Bytes) (v : JVal) (r : Bytes) (f g : Nat) (hfg : f ≤ g)
    (h : value s f b = .ok v r) : value s g b = .ok v r := by
  induction hfg with
  | refl => exact h
  | step _ ih => exact (mono_all s _).1 _ _ _ ih

/-! ### 2. a successful parse is unaffected by safe text appended behind it -/

def SV (f : Nat) : Prop :=
  ∀ b v r x, value false f b = .ok v r → Safe r x → value false f (b ++ x) = .ok v (r ++ x)
def SI (f : Nat) : Prop :=
  ∀ b acc first v r x, items false f b acc first = .ok v r → Safe r x →
    items false f (b ++ x) acc first = .ok v (r ++ x)
def SM (f : Nat) : Prop :=
  ∀ b acc first v r x, members false f b acc first = .ok v r → Safe r x →
    members false f (b ++ x) acc first = .ok v (r ++ x)

theorem wrap_lit_safe (g : Unit → JVal) (w : Bytes) (c : Nat) (cs x : Bytes) (v : JVal) (r : Bytes)
    (h : wrap g (lit w (c :: cs)) = .ok v r) : wrap g (lit w (c :: (cs ++ x))) = .ok v (r ++ x) := by
  obtain ⟨a, ha, rfl⟩ := wrap_ok_inv h
  have := lit_safe w (c :: cs) r x ha
  rw [List.cons_append] at this
  rw [this]; rfl

theorem valueHead_safe {f : Nat} (hI : SI f) (hM : SM f) (c : Nat) (cs x : Bytes) (v : JVal) (r : Bytes)
    (h : valueHead false f c cs = .ok v r) (hs : Safe r x) :
    valueHead false f c (cs ++ x) = .ok v (r ++ x) := by
  unfold valueHead at h ⊢
  by_cases h1 : (c == 0x22) = true
  · rw [if_pos h1] at h ⊢
    obtain ⟨a, ha, rfl⟩ := wrap_ok_inv h
    rw [str_safe x cs [] a r ha]; rfl
  rw [if_neg h1] at h ⊢
  by_cases h2 : (c == 0x5B) = true
  · rw [if_pos h2] at h ⊢; exact hI _ _ _ _ _ _ h hs
  rw [if_neg h2] at h ⊢
  by_cases h3 : (c == 0x7B) = true
  · rw [if_pos h3] at h ⊢; exact hM _ _ _ _ _ _ h hs
  rw [if_neg h3] at h ⊢
  by_cases h4 : (c == 0x74) = true
  · rw [if_pos h4] at h ⊢; exact wrap_lit_safe _ _ _ _ _ _ _ h
  rw [if_neg h4] at h ⊢
  by_cases h5 : (c == 0x66) = true
  · rw [if_pos h5] at h ⊢; exact wrap_lit_safe _ _ _ _ _ _ _ h
  rw [if_neg h5] at h ⊢
  by_cases h6 : (c == 0x6E) = true
  · rw [if_pos h6] at h ⊢; exact wrap_lit_safe _ _ _ _ _ _ _ h
  rw [if_neg h6] at h ⊢
  simp only [Bool.false_eq_true, if_false] at h ⊢
  obtain ⟨a, ha, rfl⟩ := wrap_ok_inv h
  have := numRelaxed_safe x (c :: cs) r ha hs
  rw [List.cons_append] at this
  rw [this]; rfl

theorem itemsAfter_safe {f : Nat} (hV : SV f) (hI : SI f) (acc : List JVal) (y x : Bytes) (v : JVal) (r : Bytes)
    (h : itemsAfter false f acc (value false f y) = .ok v r) (hs : Safe r x) :
    itemsAfter false f acc (value false f (y ++ x)) = .ok v (r ++ x) := by
  rcases hv : value false f y with ⟨v1, r1⟩ | _ | _
  · rw [hv] at h
    rcases hr : skipWs r1 with _ | ⟨d, ds⟩
    · rw [itemsAfter_nil hr] at h; cases h
    · have hne : r1 ≠ [] := skipWs_ne_of_cons hr
      rw [hV _ _ _ x hv (Or.inl hne)]
      rw [itemsAfter_cons hr] at h
      rw [itemsAfter_cons (skipWs_app_cons x d ds r1 hr)]
      by_cases hd : (d == 0x2C) = true
      · rw [if_pos hd] at h ⊢; exact hI _ _ _ _ _ _ h hs
      · rw [if_neg hd] at h ⊢
        by_cases hd2 : (d == 0x5D) = true
        · rw [if_pos hd2] at h ⊢; cases h; rfl
        · rw [if_neg hd2] at h; cases h
  · rw [hv] at h; cases h
  · rw [hv] at h; cases h

theorem membersAfterVal_safe {f : Nat} (hV : SV f) (hM : SM f) (acc : List (Bytes × JVal)) (k y x : Bytes)
    (v : JVal) (r : Bytes)
    (h : membersAfterVal false f acc k (value false f y) = .ok v r) (hs : Safe r x) :
    membersAfterVal false f acc k (value false f (y ++ x)) = .ok v (r ++ x) := by
  rcases hv : value false f y with ⟨v1, r1⟩ | _ | _
  · rw [hv] at h
    rcases hr : skipWs r1 with _ | ⟨d, ds⟩
    · rw [membersAfterVal_nil hr] at h; cases h
    · have hne : r1 ≠ [] := skipWs_ne_of_cons hr
      rw [hV _ _ _ x hv (Or.inl hne)]
      rw [membersAfterVal_cons hr] at h
      rw [membersAfterVal_cons (skipWs_app_cons x d ds r1 hr)]
      by_cases hd : (d == 0x2C) = true
      · rw [if_pos hd] at h ⊢; exact hM _ _ _ _ _ _ h hs
      · rw [if_neg hd] at h ⊢
        by_cases hd2 : (d == 0x7D) = true
        · rw [if_pos hd2] at h ⊢; cases h; rfl
        · rw [if_neg hd2] at h; cases h
  · rw [hv] at h; cases h
  · rw [hv] at h; cases h

theorem membersAfterKey_safe {f : Nat} (hV : SV f) (hM : SM f) (acc : List (Bytes × JVal)) (y x : Bytes)
    (v : JVal) (r : Bytes)
    (h : membersAfterKey false f acc (str false y []) = .ok v r) (hs : Safe r x) :
    membersAfterKey false f acc (str false (y ++ x) []) = .ok v (r ++ x) := by
  rcases hk : str false y [] with ⟨k, r1⟩ | _ | _
  · rw [hk] at h
    rw [str_safe x y [] k r1 hk]
    rcases hr : skipWs r1 with _ | ⟨d, ds⟩
    · rw [membersAfterKey_nil hr] at h; cases h
    · rw [membersAfterKey_cons hr] at h
      rw [membersAfterKey_cons (skipWs_app_cons x d ds r1 hr)]
      by_cases hd : (d != 0x3A) = true
      · rw [if_pos hd] at h; cases h
      · rw [if_neg hd] at h ⊢; exact membersAfterVal_safe hV hM _ _ _ _ _ _ h hs
  · rw [hk] at h; cases h
  · rw [hk] at h; cases h

theorem safe_step {f : Nat} (hV : SV f) (hI : SI f) (hM : SM f) : SV (f + 1) ∧ SI (f + 1) ∧ SM (f + 1) := by
  refine ⟨?_, ?_, ?_⟩
  · intro b v r x h hs
    rcases hb : skipWs b with _ | ⟨c, cs⟩
    · rw [value_nil hb] at h; cases h
    · rw [value_cons hb] at h
      rw [value_cons (skipWs_app_cons x c cs b hb)]
      exact valueHead_safe hI hM _ _ _ _ _ h hs
  · intro b acc first v r x h hs
    rcases hb : skipWs b with _ | ⟨c, cs⟩
    · rw [items_nil hb] at h; cases h
    · have hb' := skipWs_app_cons x c cs b hb
      by_cases hc : (c == 0x5D && (first || !false)) = true
      · rw [items_close hb hc] at h; rw [items_close hb' hc]; cases h; rfl
      · rw [items_val hb hc] at h; rw [items_val hb' hc]
        exact itemsAfter_safe hV hI _ (c :: cs) _ _ _ h hs
  · intro b acc first v r x h hs
    rcases hb : skipWs b with _ | ⟨c, cs⟩
    · rw [members_nil hb] at h; cases h
    · have hb' := skipWs_app_cons x c cs b hb
      by_cases hc : (c == 0x7D && (first || !false)) = true
      · rw [members_close hb hc] at h; rw [members_close hb' hc]; cases h; rfl
      · rw [members_key hb hc] at h; rw [members_key hb' hc]
        by_cases hq : (c != 0x22) = true
        · rw [if_pos hq] at h; cases h
        · rw [if_neg hq] at h ⊢; exact membersAfterKey_safe hV hM _ _ _ _ _ h hs

theorem safe_all : ∀ f, SV f ∧ SI f ∧ SM f := by
  intro f
  induction f with
  | zero =>
    refine ⟨?_, ?_, ?_⟩
    · intro b v r x h; rw [value] at h; cases h
    · intro b acc first v r x h; rw [items] at h; cases h
    · intro b acc first v r x h; rw [members] at h; cases h
  | succ f ih => exact safe_step ih.1 ih.2.1 ih.2.2

/-! ### 3. an unfinished parse can be finished -/

def CV (f : Nat) : Prop :=
  ∀ b, value false f b = .more → ∃ s, ∀ t, Closer t → ∃ v, value false (f + 1) (b ++ (s ++ t)) = .ok v t
def CI (f : Nat) : Prop :=
  ∀ b acc first, items false f b acc first = .more →
    ∃ s, ∀ t, Closer t → ∃ v, items false (f + 1) (b ++ (s ++ t)) acc first = .ok v t
def CM (f : Nat) : Prop :=
  ∀ b acc first, members false f b acc first = .more →
    ∃ s, ∀ t, Closer t → ∃ v, members false (f + 1) (b ++ (s ++ t)) acc first = .ok v t

theorem valueHead_zero (f : Nat) (t : Bytes) (ht : Closer t) : valueHead false f 0x30 t = .ok .num t := by
  unfold valueHead
  simp only [Bool.false_eq_true, if_false]
  rw [if_neg (by decide), if_neg (by decide), if_neg (by decide), if_neg (by decide), if_neg (by decide),
    if_neg (by decide), numRelaxed_zero t ht]
  rfl

theorem value_zero (f : Nat) (t : Bytes) (ht : Closer t) : value false (f + 1) (0x30 :: t) = .ok .num t := by
  rw [value_cons (skipWs_nonws 0x30 t (by decide))]; exact valueHead_zero f t ht

theorem wrap_lit_complete (g : Unit → JVal) (w : Bytes) (c : Nat) (cs : Bytes)
    (h : wrap g (lit w (c :: cs)) = .more) :
    ∃ s, ∀ t, Closer t → ∃ v, wrap g (lit w (c :: (cs ++ (s ++ t)))) = .ok v t := by
  obtain ⟨s, hs⟩ := lit_complete w (c :: cs) (wrap_more_inv h)
  refine ⟨s, fun t _ => ⟨g (), ?_⟩⟩
  have := hs t
  rw [List.cons_append] at this
  rw [this]; rfl

theorem valueHead_complete {f : Nat} (hI : CI f) (hM : CM f) (c : Nat) (cs : Bytes)
    (h : valueHead false f c cs = .more) :
    ∃ s, ∀ t, Closer t → ∃ v, valueHead false (f + 1) c (cs ++ (s ++ t)) = .ok v t := by
  unfold valueHead at h ⊢
  by_cases h1 : (c == 0x22) = true
  · rw [if_pos h1] at h
    obtain ⟨s, hs⟩ := str_complete cs [] (wrap_more_inv h)
    refine ⟨s, fun t _ => ?_⟩
    obtain ⟨k, hk⟩ := hs t
    refine ⟨.str k, ?_⟩
    rw [if_pos h1, hk]; rfl
  rw [if_neg h1] at h
  by_cases h2 : (c == 0x5B) = true
  · rw [if_pos h2] at h
    obtain ⟨s, hs⟩ := hI _ _ _ h
    refine ⟨s, fun t ht => ?_⟩
    rw [if_neg h1, if_pos h2]; exact hs t ht
  rw [if_neg h2] at h
  by_cases h3 : (c == 0x7B) = true
  · rw [if_pos h3] at h
    obtain ⟨s, hs⟩ := hM _ _ _ h
    refine ⟨s, fun t ht => ?_⟩
    rw [if_neg h1, if_neg h2, if_pos h3]; exact hs t ht
  rw [if_neg h3] at h
  by_cases h4 : (c == 0x74) = true
  · rw [if_pos h4] at h
    obtain ⟨s, hs⟩ := wrap_lit_complete _ _ _ _ h
    refine ⟨s, fun t ht => ?_⟩
    rw [if_neg h1, if_neg h2, if_neg h3, if_pos h4]; exact hs t ht
  rw [if_neg h4] at h
  by_cases h5 : (c == 0x66) = true
  · rw [if_pos h5] at h
    obtain ⟨s, hs⟩ := wrap_lit_complete _ _ _ _ h
    refine ⟨s, fun t ht => ?_⟩
    rw [if_neg h1, if_neg h2, if_neg h3, if_neg h4, if_pos h5]; exact hs t ht
  rw [if_neg h5] at h
  by_cases h6 : (c == 0x6E) = true
  · rw [if_pos h6] at h
    obtain ⟨s, hs⟩ := wrap_lit_complete _ _ _ _ h
    refine ⟨s, fun t ht => ?_⟩
    rw [if_neg h1, if_neg h2, if_neg h3, if_neg h4, if_neg h5, if_pos h6]; exact hs t ht
  rw [if_neg h6] at h
  simp only [Bool.false_eq_true, if_false] at h
  have hn := wrap_more_inv h
  refine ⟨[0x30], fun t ht => ⟨.num, ?_⟩⟩
  rw [if_neg h1, if_neg h2, if_neg h3, if_neg h4, if_neg h5, if_neg h6]
  simp only [Bool.false_eq_true, if_false]
  have := numRelaxed_complete (c :: cs) t hn ht
  rw [List.cons_append] at this
  show wrap _ (numRelaxed (c :: (cs ++ 0x30 :: t))) = _
  rw [this]; rfl

theorem itemsAfter_close (f : Nat) (acc : List JVal) (v : JVal) (t : Bytes) :
    itemsAfter false f acc (.ok v (0x5D :: t)) = .ok (.arr (v :: acc).reverse) t := by
  rw [itemsAfter_cons (skipWs_nonws 0x5D t (by decide)), if_neg (by decide), if_pos (by decide)]

theorem membersAfterVal_close (f : Nat) (acc : List (Bytes × JVal)) (k : Bytes) (v : JVal) (t : Bytes) :
    membersAfterVal false f acc k (.ok v (0x7D :: t)) = .ok (.obj ((k, v) :: acc).reverse) t := by
  rw [membersAfterVal_cons (skipWs_nonws 0x7D t (by decide)), if_neg (by decide), if_pos (by decide)]

theorem itemsAfter_complete {f : Nat} (hV : CV f) (hI : CI f) (acc : List JVal) (y : Bytes)
    (h : itemsAfter false f acc (value false f y) = .more) :
    ∃ s, ∀ t, Closer t → ∃ v, itemsAfter false (f + 1) acc (value false (f + 1) (y ++ (s ++ t))) = .ok v t := by
  rcases hv : value false f y with ⟨v1, r1⟩ | _ | _
  · rw [hv] at h
    rcases hr : skipWs r1 with _ | ⟨d, ds⟩
    · refine ⟨[0x5D], fun t _ => ?_⟩; apply Exists.intro
      have h1 := (safe_all f).1 _ _ _ (0x5D :: t) hv (Or.inr (closer_rb t))
      have h2 := (mono_all false f).1 _ _ _ h1
      show itemsAfter false (f + 1) acc (value false (f + 1) (y ++ 0x5D :: t)) = _
      rw [h2, itemsAfter_cons (by rw [skipWs_app_nil _ _ hr]; exact skipWs_nonws 0x5D t (by decide)),
        if_neg (by decide), if_pos (by decide)]
    · rw [itemsAfter_cons hr] at h
      by_cases hd : (d == 0x2C) = true
      · rw [if_pos hd] at h
        obtain ⟨s, hs⟩ := hI _ _ _ h
        refine ⟨s, fun t ht => ?_⟩
        have h1 := (safe_all f).1 _ _ _ (s ++ t) hv (Or.inl (skipWs_ne_of_cons hr))
        have h2 := (mono_all false f).1 _ _ _ h1
        rw [h2, itemsAfter_cons (skipWs_app_cons (s ++ t) d ds r1 hr), if_pos hd]
        exact hs t ht
      · rw [if_neg hd] at h; split at h <;> cases h
  · obtain ⟨s, hs⟩ := hV _ hv
    refine ⟨s ++ [0x5D], fun t _ => ?_⟩
    obtain ⟨v, hv2⟩ := hs (0x5D :: t) (closer_rb t)
    have e : y ++ ((s ++ [0x5D]) ++ t) = y ++ (s ++ 0x5D :: t) := by simp
    rw [e, hv2, itemsAfter_close]
    exact ⟨_, rfl⟩
  · rw [hv] at h; cases h

theorem membersAfterVal_complete {f : Nat} (hV : CV f) (hM : CM f) (acc : List (Bytes × JVal)) (k y : Bytes)
    (h : membersAfterVal false f acc k (value false f y) = .more) :
    ∃ s, ∀ t, Closer t → ∃ v, membersAfterVal false (f + 1) acc k (value false (f + 1) (y ++ (s ++ t))) = .ok v t := by
  rcases hv : value false f y with ⟨v1, r1⟩ | _ | _
  · rw [hv] at h
    rcases hr : skipWs r1 with _ | ⟨d, ds⟩
    · refine ⟨[0x7D], fun t _ => ?_⟩; apply Exists.intro
      have h1 := (safe_all f).1 _ _ _ (0x7D :: t) hv (Or.inr (closer_rc t))
      have h2 := (mono_all false f).1 _ _ _ h1
      show membersAfterVal false (f + 1) acc k (value false (f + 1) (y ++ 0x7D :: t)) = _
      rw [h2, membersAfterVal_cons (by rw [skipWs_app_nil _ _ hr]; exact skipWs_nonws 0x7D t (by decide)),
        if_neg (by decide), if_pos (by decide)]
    · rw [membersAfterVal_cons hr] at h
      by_cases hd : (d == 0x2C) = true
      · rw [if_pos hd] at h
        obtain ⟨s, hs⟩ := hM _ _ _ h
        refine ⟨s, fun t ht => ?_⟩
        have h1 := (safe_all f).1 _ _ _ (s ++ t) hv (Or.inl (skipWs_ne_of_cons hr))
        have h2 := (mono_all false f).1 _ _ _ h1
        rw [h2, membersAfterVal_cons (skipWs_app_cons (s ++ t) d ds r1 hr), if_pos hd]
        exact hs t ht
      · rw [if_neg hd] at h; split at h <;> cases h
  · obtain ⟨s, hs⟩ := hV _ hv
    refine ⟨s ++ [0x7D], fun t _ => ?_⟩
    obtain ⟨v, hv2⟩ := hs (0x7D :: t) (closer_rc t)
    have e : y ++ ((s ++ [0x7D]) ++ t) = y ++ (s ++ 0x7D :: t) := by simp
    rw [e, hv2, membersAfterVal_close]
    exact ⟨_, rfl⟩
  · rw [hv] at h; cases h

/-- after a key (and blanks) the text `:0}` finishes the object -/
theorem membersAfterKey_finish (f : Nat) (acc : List (Bytes × JVal)) (k r1 t : Bytes) (hr : skipWs r1 = []) :
    membersAfterKey false (f + 1) acc (.ok k (r1 ++ 0x3A :: 0x30 :: 0x7D :: t)) =
      .ok (.obj ((k, .num) :: acc).reverse) t := by
  rw [membersAfterKey_cons (by rw [skipWs_app_nil _ _ hr]; exact skipWs_nonws 0x3A _ (by decide)),
    if_neg (by decide), value_zero f _ (closer_rc t), membersAfterVal_close]

theorem membersAfterKey_complete {f : Nat} (hV : CV f) (hM : CM f) (acc : List (Bytes × JVal)) (y : Bytes)
    (h : membersAfterKey false f acc (str false y []) = .more) :
    ∃ s, ∀ t, Closer t → ∃ v, membersAfterKey false (f + 1) acc (str false (y ++ (s ++ t)) []) = .ok v t := by
  rcases hk : str false y [] with ⟨k, r1⟩ | _ | _
  · rw [hk] at h
    rcases hr : skipWs r1 with _ | ⟨d, ds⟩
    · refine ⟨[0x3A, 0x30, 0x7D], fun t _ => ?_⟩; apply Exists.intro
      show membersAfterKey false (f + 1) acc (str false (y ++ 0x3A :: 0x30 :: 0x7D :: t) []) = _
      rw [str_safe _ y [] k r1 hk, membersAfterKey_finish f acc k r1 t hr]
    · rw [membersAfterKey_cons hr] at h
      by_cases hd : (d != 0x3A) = true
      · rw [if_pos hd] at h; cases h
      · rw [if_neg hd] at h
        obtain ⟨s, hs⟩ := membersAfterVal_complete hV hM _ _ _ h
        refine ⟨s, fun t ht => ?_⟩
        rw [str_safe (s ++ t) y [] k r1 hk, membersAfterKey_cons (skipWs_app_cons (s ++ t) d ds r1 hr), if_neg hd]
        exact hs t ht
  · obtain ⟨s, hs⟩ := str_complete y [] hk
    refine ⟨s ++ [0x3A, 0x30, 0x7D], fun t _ => ?_⟩
    obtain ⟨k, hk2⟩ := hs (0x3A :: 0x30 :: 0x7D :: t)
    have e : y ++ ((s ++ [0x3A, 0x30, 0x7D]) ++ t) = y ++ (s ++ 0x3A :: 0x30 :: 0x7D :: t) := by simp
    rw [e, hk2]
    exact ⟨_, membersAfterKey_finish f acc k [] t rfl⟩
  · rw [hk] at h; cases h

theorem complete_step {f : Nat} (hV : CV f) (hI : CI f) (hM : CM f) : CV (f + 1) ∧ CI (f + 1) ∧ CM (f + 1) := by
  refine ⟨?_, ?_, ?_⟩
  · intro b h
    rcases hb : skipWs b with _ | ⟨c, cs⟩
    · refine ⟨[0x30], fun t ht => ⟨.num, ?_⟩⟩
      show value false (f + 1 + 1) (b ++ 0x30 :: t) = _
      rw [value_cons (by rw [skipWs_app_nil _ _ hb]; exact skipWs_nonws 0x30 t (by decide))]
      exact valueHead_zero _ t ht
    · rw [value_cons hb] at h
      obtain ⟨s, hs⟩ := valueHead_complete hI hM c cs h
      refine ⟨s, fun t ht => ?_⟩
      rw [value_cons (skipWs_app_cons (s ++ t) c cs b hb)]
      exact hs t ht
  · intro b acc first h
    rcases hb : skipWs b with _ | ⟨c, cs⟩
    · refine ⟨[0x5D], fun t _ => ?_⟩; apply Exists.intro
      show items false (f + 1 + 1) (b ++ 0x5D :: t) acc first = _
      rw [items_close (by rw [skipWs_app_nil _ _ hb]; exact skipWs_nonws 0x5D t (by decide)) (by simp)]
    · by_cases hc : (c == 0x5D && (first || !false)) = true
      · rw [items_close hb hc] at h; cases h
      · rw [items_val hb hc] at h
        obtain ⟨s, hs⟩ := itemsAfter_complete hV hI acc (c :: cs) h
        refine ⟨s, fun t ht => ?_⟩
        rw [items_val (skipWs_app_cons (s ++ t) c cs b hb) hc]
        exact hs t ht
  · intro b acc first h
    rcases hb : skipWs b with _ | ⟨c, cs⟩
    · refine ⟨[0x7D], fun t _ => ?_⟩; apply Exists.intro
      show members false (f + 1 + 1) (b ++ 0x7D :: t) acc first = _
      rw [members_close (by rw [skipWs_app_nil _ _ hb]; exact skipWs_nonws 0x7D t (by decide)) (by simp)]
    · by_cases hc : (c == 0x7D && (first || !false)) = true
      · rw [members_close hb hc] at h; cases h
      · rw [members_key hb hc] at h
        by_cases hq : (c != 0x22) = true
        · rw [if_pos hq] at h; cases h
        · rw [if_neg hq] at h
          obtain ⟨s, hs⟩ := membersAfterKey_complete hV hM acc cs h
          refine ⟨s, fun t ht => ?_⟩
          rw [members_key (skipWs_app_cons (s ++ t) c cs b hb) hc, if_neg hq]
          exact hs t ht

theorem complete_all : ∀ f, CV f ∧ CI f ∧ CM f := by
  intro f
  induction f with
  | zero =>
    refine ⟨?_, ?_, ?_⟩
    · intro b h; rw [value] at h; cases h
    · intro b acc first h; rw [items] at h; cases h
    · intro b acc first h; rw [members] at h; cases h
  | succ f ih => exact complete_step ih.1 ih.2.1 ih.2.2

/-! ### top level -/

theorem relaxedDoc_of_value (b : Bytes) (c : Nat) (cs : Bytes) (v : JVal) (r : Bytes)
    (hb : skipWs b = c :: cs) (hc : ¬ (c != 0x7B && c != 0x5B) = true)
    (hv : value false (fuelFor b) b = .ok v r) (hr : (skipWs r).isEmpty = true) :
    relaxedDoc b = true := by
  unfold relaxedDoc doc firstNonWs
  rw [hb]
  dsimp only [List.head?]
  rw [if_neg hc, hv]
  dsimp only
  rw [if_pos hr]; rfl

/-- every viable prefix can be completed to a relaxed document -/
theorem viable_completable (b : Bytes) (h : Mime.Spec.J.viable b = true) :
    ∃ s : Bytes, Mime.Spec.J.relaxedDoc (b ++ s) = true := by
  unfold viable firstNonWs at h
  rcases hb : skipWs b with _ | ⟨c, cs⟩
  · rw [hb] at h; cases h
  · rw [hb] at h
    dsimp only [List.head?] at h
    by_cases hc : (c != 0x7B && c != 0x5B) = true
    · rw [if_pos hc] at h; cases h
    · rw [if_neg hc] at h
      rcases hv : value false (fuelFor b) b with ⟨v, r⟩ | _ | _
      · rw [hv] at h
        refine ⟨[], ?_⟩
        rw [List.append_nil]
        exact relaxedDoc_of_value b c cs v r hb hc hv h
      · obtain ⟨s, hs⟩ := (complete_all (fuelFor b)).1 b hv
        obtain ⟨v, hv2⟩ := hs [0x20] (closer_sp [])
        refine ⟨s ++ [0x20], ?_⟩
        have hf : fuelFor b + 1 ≤ fuelFor (b ++ (s ++ [0x20])) := by
          unfold fuelFor; simp only [List.length_append, List.length_cons, List.length_nil]; omega
        have hv3 := value_mono_le false _ _ _ _ _ hf hv2
        exact relaxedDoc_of_value _ c (cs ++ (s ++ [0x20])) v [0x20]
          (skipWs_app_cons _ c cs b hb) hc hv3 (by decide)
      · rw [hv] at h; cases h

/-! ### non-vacuity -/

example : Mime.Spec.J.viable [0x5B, 0x7B, 0x22, 0x61] = true := by decide
example : Mime.Spec.J.relaxedDoc ([0x5B, 0x7B, 0x22, 0x61] ++ [0x22, 0x3A, 0x30, 0x7D, 0x5D]) = true := by decide
-- the suffix the construction yields ends in a blank
example : Mime.Spec.J.relaxedDoc ([0x5B, 0x7B, 0x22, 0x61] ++ [0x22, 0x3A, 0x30, 0x7D, 0x5D, 0x20]) = true := by decide
-- `[1,` : trailing comma, closed by `]`
example : Mime.Spec.J.viable [0x5B, 0x31, 0x2C] = true := by decide
example : Mime.Spec.J.relaxedDoc ([0x5B, 0x31, 0x2C] ++ [0x5D]) = true := by decide
-- `{"k":-` : a cut number gets `0`, then `}`
example : Mime.Spec.J.viable [0x7B, 0x22, 0x6B, 0x22, 0x3A, 0x2D] = true := by decide
example : Mime.Spec.J.relaxedDoc ([0x7B, 0x22, 0x6B, 0x22, 0x3A, 0x2D] ++ [0x30, 0x7D]) = true := by decide
-- `["\u1` : pad the escape, close the string, close the array
example : Mime.Spec.J.viable [0x5B, 0x22, 0x5C, 0x75, 0x31] = true := by decide
example : Mime.Spec.J.relaxedDoc ([0x5B, 0x22, 0x5C, 0x75, 0x31] ++ [0x30, 0x30, 0x30, 0x22, 0x5D]) = true := by decide
-- `[tr` : finish the literal
example : Mime.Spec.J.viable [0x5B, 0x74, 0x72] = true := by decide
example : Mime.Spec.J.relaxedDoc ([0x5B, 0x74, 0x72] ++ [0x75, 0x65, 0x5D]) = true := by decide
-- not everything is viable
example : Mime.Spec.J.viable [0x5B, 0x5D, 0x5D] = false := by decide
example : Mime.Spec.J.viable [0x31] = false := by decide

end Mime.SpecComplete
