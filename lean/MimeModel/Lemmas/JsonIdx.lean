import MimeModel.Model.JsonIdx
import MimeModel.Lemmas.JsonFuel
import MimeModel.Lemmas.JsonQuery
/-
  The index-level transliteration of parser.go (Model/JsonIdx.lean) never panics, never runs
  out of fuel, and computes exactly what the list model (Model/Json.lean) computes.

  One simulation lemma per Go function: for every cursor position `n ≤ len b`, the index-level
  function run on `(b, n)` returns `Out.ok` with the cursor `k` and the state for which the
  list-level function, run on `b.drop n`, returns the suffix `b.drop k` and the same state.
-/
namespace Mime.JsonIdxLemmas
open Mime Mime.Gen.Json
open Mime.Json (PState SMode NMode numStep isSimpleEsc isE ParseResult fuelFor tokInvalid)
open Mime.JsonIdx (G Out St elemAt sliceFrom liftG popPath)
open Mime.JsonLeaf

/-! ### the monad, the checked primitives -/

@[simp] theorem bind_ok {α β : Type} (v : α) (f : α → Out β) : (Out.ok v >>= f) = f v := rfl
@[simp] theorem pure_ok {α : Type} (v : α) : (pure v : Out α) = Out.ok v := rfl

theorem elemAt_nat {α : Type} (b : List α) (i : Nat) (h : i < b.length) : liftG (elemAt b (i : Int)) = .ok b[i] := by
  unfold elemAt
  rw [if_pos ⟨by omega, by omega⟩]
  simp only [Int.toNat_natCast, List.getElem?_eq_getElem h]
  rfl

theorem sliceFrom_nat {α : Type} (b : List α) (n : Nat) (h : n ≤ b.length) : liftG (sliceFrom b (n : Int)) = .ok (b.drop n) := by
  unfold sliceFrom
  rw [if_pos ⟨by omega, by omega⟩]
  simp only [Int.toNat_natCast]
  rfl

theorem elemAt_zero_cons {α : Type} (c : α) (cs : List α) : liftG (elemAt (c :: cs) 0) = .ok c := by
  have := elemAt_nat (c :: cs) 0 (by simp)
  simpa using this

theorem sliceFrom_one_cons {α : Type} (c : α) (cs : List α) : liftG (sliceFrom (c :: cs) 1) = .ok cs := by
  have := sliceFrom_nat (c :: cs) 1 (by simp)
  simpa using this

theorem slice_nat {α : Type} (b : List α) (lo hi : Nat) (h1 : lo ≤ hi) (h2 : hi ≤ b.length) :
    liftG (JsonIdx.slice b (lo : Int) (hi : Int)) = .ok ((b.drop lo).take (hi - lo)) := by
  unfold JsonIdx.slice
  rw [if_pos ⟨by omega, by omega, by omega⟩]
  simp only [Int.toNat_natCast, List.drop_take]
  rfl

/-- reading at the cursor: the cursor is at the end -/
theorem peek_nil {b : Bytes} {n : Nat} (hn : n ≤ b.length) (hd : b.drop n = []) :
    liftG (sliceFrom b (n : Int)) = .ok [] := by
  rw [sliceFrom_nat b n hn, hd]

/-- reading at the cursor: a byte is there -/
theorem peek_cons {b : Bytes} {n : Nat} {c : Nat} {r : Bytes} (hd : b.drop n = c :: r) :
    n < b.length ∧ liftG (sliceFrom b (n : Int)) = .ok (c :: r) ∧ liftG (elemAt b (n : Int)) = .ok c ∧ b.drop (n + 1) = r := by
  have hlt : n < b.length := by
    have : (b.drop n).length = b.length - n := List.length_drop
    rw [hd] at this
    simp only [List.length_cons] at this
    omega
  have h2 := List.drop_eq_getElem_cons hlt
  rw [hd] at h2
  simp only [List.cons.injEq] at h2
  refine ⟨hlt, ?_, ?_, h2.2.symm⟩
  · rw [sliceFrom_nat b n (by omega), hd]
  · rw [elemAt_nat b n hlt, ← h2.1]

theorem drop_nil_le {b : Bytes} {n : Nat} (hd : b.drop n = []) : b.length ≤ n := List.drop_eq_nil_iff.mp hd

section ites
variable {β : Type}
theorem ite_pos_cons (c : Nat) (r : Bytes) (x y : β) : (if (c :: r).length > 0 then x else y) = x := by
  rw [if_pos (by simp)]
theorem ite_pos_nil (x y : β) : (if ([] : Bytes).length > 0 then x else y) = y := by
  rw [if_neg (by simp)]
theorem ite_zero_cons (c : Nat) (r : Bytes) (x y : β) : (if ((c :: r).length == 0) = true then x else y) = y := by
  rw [if_neg (by simp)]
theorem ite_zero_nil (x y : β) : (if (([] : Bytes).length == 0) = true then x else y) = x := by
  rw [if_pos (by simp)]
end ites

/-! ### the state -/

/-- the Go state that a list-model state stands for (`maxLvl` is a ghost of the list model) -/
def view (s : PState) (mr : Nat) (c : Bool) : St :=
  { ib := s.ib, maxRecursion := mr, currPath := s.currPath, firstToken := s.firstToken,
    querySatisfied := s.querySatisfied, complete := c }

section view
variable (s : PState) (mr : Nat) (c : Bool)
@[simp] theorem view_incIb : (view s mr c).incIb = view s.bump mr c := rfl
@[simp] theorem view_push (k : Bytes) : (view s mr c).push k = view (s.push k) mr c := rfl
@[simp] theorem view_enter (l : Nat) : view (s.enter l) mr c = view s mr c := rfl
@[simp] theorem view_maxRecursion : (view s mr c).maxRecursion = mr := rfl
@[simp] theorem view_currPath : (view s mr c).currPath = s.currPath := rfl
@[simp] theorem view_qs : (view s mr c).querySatisfied = s.querySatisfied := rfl
theorem view_satisfy : (view s mr c).satisfy = view { s with querySatisfied := true } mr c := rfl
end view

theorem bump_one_add (s : PState) (k : Nat) : s.bump.bump k = s.bump (k + 1) := by
  simp [Nat.add_comm]

theorem popPath_view (s : PState) (mr : Nat) (c : Bool) (h : s.currPath ≠ []) :
    popPath (view s mr c) = .ok (view s.pop mr c) := by
  unfold popPath
  have hl : 0 < s.currPath.length := List.length_pos_iff.mpr h
  have : ((view s mr c).currPath.length : Int) - 1 = ((s.currPath.length - 1 : Nat) : Int) := by
    simp only [view_currPath]; omega
  rw [this]
  have h2 := slice_nat (view s mr c).currPath 0 (s.currPath.length - 1) (by omega) (by simp only [view_currPath]; omega)
  simp only [Int.natCast_zero] at h2
  rw [h2]
  simp only [bind_ok, pure_ok, view_currPath, List.drop_zero, Nat.sub_zero]
  rw [← List.dropLast_eq_take]
  rfl

/-- the simulation relation for a scanner run from cursor `n` of `b`: the list model fails and
    Go returns 0, or the list model returns the suffix `b.drop k` and Go returns `k` -/
def SimAt (mr : Nat) (c : Bool) (b : Bytes) (n : Nat) (out : Out (Nat × St)) (res : Option Bytes × PState) : Prop :=
  match res.1 with
  | none => out = .ok (0, view res.2 mr c)
  | some r => ∃ k, n < k ∧ k ≤ b.length ∧ r = b.drop k ∧ out = .ok (k, view res.2 mr c)

theorem SimAt.mono {mr c b n n' out res} (h : SimAt mr c b n' out res) (hn : n ≤ n') : SimAt mr c b n out res := by
  obtain ⟨o, s'⟩ := res
  cases o with
  | none => exact h
  | some r =>
    obtain ⟨k, h1, h2, h3, h4⟩ := h
    exact ⟨k, by omega, h2, h3, h4⟩

/-! ### `consumeSpace` -/

/-- the number of leading white-space bytes -/
def nsp : Bytes → Nat
  | [] => 0
  | c :: cs => if isSpace c then nsp cs + 1 else 0

theorem nsp_le (b : Bytes) : nsp b ≤ b.length := by
  induction b with
  | nil => simp [nsp]
  | cons c cs ih => simp only [nsp]; split <;> simp <;> omega

theorem consumeSpace_eq (b : Bytes) (s : PState) : Json.consumeSpace b s = (b.drop (nsp b), s.bump (nsp b)) := by
  induction b generalizing s with
  | nil => simp [Json.consumeSpace, nsp]
  | cons c cs ih =>
    simp only [Json.consumeSpace, nsp]
    split
    · rw [ih, bump_one_add]; rfl
    · simp

theorem consumeSpaceLoop_sim (mr : Nat) (c : Bool) : ∀ (fuel : Nat) (b : Bytes) (n : Nat) (s : PState), b.length + 1 ≤ fuel →
    JsonIdx.consumeSpaceLoop fuel b n (view s mr c) = .ok (n + nsp b, view (s.bump (nsp b)) mr c) := by
  intro fuel
  induction fuel with
  | zero => intro b n s h; omega
  | succ f ih =>
    intro b n s h
    rw [JsonIdx.consumeSpaceLoop]
    cases b with
    | nil => simp [nsp]
    | cons x xs =>
      rw [ite_pos_cons, elemAt_zero_cons, bind_ok]
      simp only [nsp]
      split
      · rw [sliceFrom_one_cons, bind_ok, view_incIb, ih xs (n + 1) s.bump (by simp only [List.length_cons] at h; omega)]
        rw [bump_one_add]
        congr 2; omega
      · simp

theorem consumeSpace_sim (mr : Nat) (c : Bool) (b : Bytes) (s : PState) :
    JsonIdx.consumeSpace b (view s mr c) = .ok (nsp b, view (s.bump (nsp b)) mr c) := by
  unfold JsonIdx.consumeSpace
  rw [consumeSpaceLoop_sim mr c _ b 0 s (Nat.le_refl _)]
  simp

/-- `spaceScan` of the prefix-law development, in cursor form -/
theorem spaceScan_eq (b : Bytes) (s : PState) : JsonPrefix.spaceScan b s = (some (b.drop (nsp b)), s.bump (nsp b)) := by
  simp only [JsonPrefix.spaceScan, consumeSpace_eq]

/-! ### `consumeConst` -/

theorem consumeConst_nil (b : Bytes) (s : PState) : Json.consumeConst b [] s = (some b, s) := by
  cases b <;> rfl

theorem consumeConstLoop_sim (mr : Nat) (c : Bool) (b w : Bytes) : ∀ (fuel i : Nat) (s : PState),
    i ≤ w.length → i ≤ b.length → w.length - i + 1 ≤ fuel →
    match (Json.consumeConst (b.drop i) (w.drop i) s).1 with
    | none => JsonIdx.consumeConstLoop fuel b w b.length i (view s mr c) = .ok (0, view (Json.consumeConst (b.drop i) (w.drop i) s).2 mr c)
    | some r => w.length ≤ b.length ∧ r = b.drop w.length ∧
        JsonIdx.consumeConstLoop fuel b w b.length i (view s mr c) = .ok (w.length, view (Json.consumeConst (b.drop i) (w.drop i) s).2 mr c) := by
  intro fuel
  induction fuel with
  | zero => intro i s h1 h2 h3; omega
  | succ f ih =>
    intro i s h1 h2 h3
    rw [JsonIdx.consumeConstLoop]
    by_cases hi : i < w.length
    · rw [if_pos hi, elemAt_nat w i hi, bind_ok]
      rw [List.drop_eq_getElem_cons hi]
      cases hd : b.drop i with
      | nil =>
        have := drop_nil_le hd
        rw [if_neg (by omega)]
        rfl
      | cons x r =>
        obtain ⟨hlt, _, h5, h6⟩ := peek_cons hd
        rw [if_pos hlt, h5, bind_ok]
        rw [Json.consumeConst]
        by_cases hx : (x == w[i]) = true
        · rw [if_pos hx, if_pos hx, view_incIb, ← h6]
          exact ih (i + 1) s.bump (by omega) (by omega) (by omega)
        · rw [if_neg hx, if_neg hx]
          rfl
    · have hiw : i = w.length := by omega
      rw [if_neg hi, List.drop_eq_nil_of_le (as := w) (by omega), consumeConst_nil]
      exact ⟨by omega, by rw [hiw], rfl⟩

theorem consumeConst_sim (mr : Nat) (c : Bool) (b w : Bytes) (s : PState) (hw : 0 < w.length) :
    SimAt mr c b 0 (JsonIdx.consumeConst b w (view s mr c)) (Json.consumeConst b w s) := by
  have h := consumeConstLoop_sim mr c b w (w.length + 1) 0 s (by omega) (by omega) (by omega)
  simp only [List.drop_zero] at h
  unfold JsonIdx.consumeConst
  unfold SimAt
  generalize Json.consumeConst b w s = res at h
  obtain ⟨o, s'⟩ := res
  cases o with
  | none => exact h
  | some r => exact ⟨w.length, hw, h.1, h.2.1, h.2.2⟩

/-! ### `consumeString` -/

/-- the inner `\uXXXX` loop on the list level: `k` hex digits still wanted, cursor `n`;
    `none` = a non-hex byte, `some (n', rest)` = the loop ended with cursor `n'` -/
def hexL : Nat → Bytes → Nat → PState → Option (Nat × Bytes) × PState
  | 0, t, n, s => (some (n, t), s)
  | _ + 1, [], n, s => (some (n, []), s)
  | k + 1, x :: xs, n, s => if isXDigit x then hexL k xs (n + 1) s.bump else (none, s)

theorem hexLoop_sim (mr : Nat) (c : Bool) (b : Bytes) : ∀ (k fuel n : Nat) (s : PState), k ≤ 4 → k + 1 ≤ fuel → n ≤ b.length →
    JsonIdx.hexLoop fuel b n (4 - k) (view s mr c) =
      .ok ((hexL k (b.drop n) n s).1.map (·.1), view (hexL k (b.drop n) n s).2 mr c) := by
  intro k
  induction k with
  | zero =>
    intro fuel n s h1 h2 h3
    obtain ⟨f, rfl⟩ : ∃ f, fuel = f + 1 := ⟨fuel - 1, by omega⟩
    rw [JsonIdx.hexLoop, if_neg (by omega)]
    rfl
  | succ k ih =>
    intro fuel n s h1 h2 h3
    obtain ⟨f, rfl⟩ : ∃ f, fuel = f + 1 := ⟨fuel - 1, by omega⟩
    rw [JsonIdx.hexLoop, if_pos (by omega)]
    cases hd : b.drop n with
    | nil =>
      rw [peek_nil h3 hd, bind_ok, ite_pos_nil]
      rfl
    | cons x r =>
      obtain ⟨hlt, h4, h5, h6⟩ := peek_cons hd
      rw [h4, bind_ok, ite_pos_cons, h5, bind_ok]
      simp only [hexL]
      by_cases hx : isXDigit x = true
      · simp only [hx, Bool.not_true, Bool.false_eq_true, if_false, if_true, view_incIb]
        have : 4 - (k + 1) + 1 = 4 - k := by omega
        rw [this, ih f (n + 1) s.bump (by omega) (by omega) (by omega), h6]
      · simp only [hx, Bool.not_false, if_true]
        rfl

theorem hexL_cursor (b : Bytes) : ∀ (k n : Nat) (s : PState) (n' : Nat) (r : Bytes) (s' : PState), n ≤ b.length →
    hexL k (b.drop n) n s = (some (n', r), s') → n ≤ n' ∧ n' ≤ b.length ∧ r = b.drop n' := by
  intro k
  induction k with
  | zero =>
    intro n s n' r s' hn h
    simp only [hexL, Prod.mk.injEq, Option.some.injEq] at h
    obtain ⟨⟨rfl, rfl⟩, _⟩ := h
    exact ⟨Nat.le_refl _, hn, rfl⟩
  | succ k ih =>
    intro n s n' r s' hn h
    cases hd : b.drop n with
    | nil =>
      rw [hd] at h
      simp only [hexL, Prod.mk.injEq, Option.some.injEq] at h
      obtain ⟨⟨rfl, rfl⟩, _⟩ := h
      exact ⟨Nat.le_refl _, hn, hd.symm⟩
    | cons x xs =>
      obtain ⟨hlt, _, _, h6⟩ := peek_cons hd
      rw [hd] at h
      simp only [hexL] at h
      split at h
      · rw [← h6] at h
        obtain ⟨a1, a2, a3⟩ := ih (n + 1) s.bump n' r s' (by omega) h
        exact ⟨by omega, a2, a3⟩
      · cases h

/-- the list model in `hex k` mode does what the inner loop does, then goes on in `norm` mode -/
theorem consumeString_hex : ∀ (k : Nat) (t : Bytes) (n : Nat) (s : PState), 1 ≤ k →
    Json.consumeString (.hex k) t s =
      match hexL k t n s with
      | (none, s') => (none, s')
      | (some (_, r), s') => Json.consumeString .norm r s' := by
  intro k
  induction k with
  | zero => intro t n s h; omega
  | succ k ih =>
    intro t n s _
    cases t with
    | nil => simp only [hexL, cs_nil]
    | cons x xs =>
      simp only [hexL]
      by_cases hx : isXDigit x = true
      · rw [cs_hex_ok _ _ _ _ hx, if_pos hx]
        by_cases hk : k = 0
        · subst hk
          simp [hexL]
        · rw [if_neg (by omega), Nat.add_sub_cancel]
          exact ih xs (n + 1) s.bump (by omega)
      · rw [cs_hex_bad _ _ _ _ (by simpa using hx), if_neg hx]

theorem consumeStringLoop_sim (mr : Nat) (c : Bool) (b : Bytes) : ∀ (fuel n : Nat) (s : PState), n ≤ b.length → b.length - n + 1 ≤ fuel →
    SimAt mr c b n (JsonIdx.consumeStringLoop fuel b n (view s mr c)) (Json.consumeString .norm (b.drop n) s) := by
  intro fuel
  induction fuel with
  | zero => intro n s h1 h2; omega
  | succ f ih =>
    intro n s h1 h2
    rw [JsonIdx.consumeStringLoop]
    cases hd : b.drop n with
    | nil =>
      rw [peek_nil h1 hd, bind_ok, ite_pos_nil, cs_nil]
      rfl
    | cons x r =>
      obtain ⟨hlt, h4, h5, h6⟩ := peek_cons hd
      rw [h4, bind_ok, ite_pos_cons, h5, bind_ok]
      simp only [view_incIb]
      by_cases hx : x = 0x5C
      · subst hx
        rw [if_pos (by rfl), cs_norm_bs]
        cases hd2 : b.drop (n + 1) with
        | nil =>
          rw [peek_nil (by omega) hd2, bind_ok, ite_zero_nil]
          rw [← h6, hd2, cs_nil]
          rfl
        | cons e r2 =>
          obtain ⟨hlt2, g4, g5, g6⟩ := peek_cons hd2
          rw [g4, bind_ok, ite_zero_cons, g5, bind_ok, ← h6, hd2]
          by_cases he : isSimpleEsc e = true
          · rw [if_pos he, cs_esc_simple _ _ _ he, ← g6]
            exact (ih (n + 1 + 1) s.bump.bump (by omega) (by omega)).mono (by omega)
          · rw [if_neg he]
            by_cases hu : e = 0x75
            · subst hu
              rw [if_pos (by rfl), cs_esc_u]
              have hh := hexLoop_sim mr c b 4 5 (n + 1 + 1) s.bump.bump (by omega) (by omega) (by omega)
              simp only [Nat.sub_self] at hh
              rw [hh, bind_ok, consumeString_hex 4 r2 (n + 1 + 1) s.bump.bump (by omega), ← g6]
              have hc := hexL_cursor b 4 (n + 1 + 1) s.bump.bump
              generalize hexL 4 (b.drop (n + 1 + 1)) (n + 1 + 1) s.bump.bump = res at hc
              obtain ⟨o, s'⟩ := res
              cases o with
              | none => rfl
              | some nr =>
                obtain ⟨n', rr⟩ := nr
                obtain ⟨a1, a2, a3⟩ := hc n' rr s' (by omega) rfl
                subst a3
                exact (ih n' s' a2 (by omega)).mono (by omega)
            · have he' : isSimpleEsc e = false := by simpa using he
              have hu' : (e == 0x75) = false := by simpa using hu
              rw [if_neg (by simpa using hu), cs_esc_bad _ _ _ he' hu']
              rfl
      · have hx1 : (x == 0x5C) = false := by simpa using hx
        rw [if_neg (by simpa using hx)]
        by_cases hq : x = 0x22
        · subst hq
          rw [if_pos (by rfl), cs_norm_quote]
          exact ⟨n + 1, by omega, by omega, h6.symm, rfl⟩
        · have hq1 : (x == 0x22) = false := by simpa using hq
          rw [if_neg (by simpa using hq), cs_norm_other _ _ _ hx1 hq1, ← h6]
          exact (ih (n + 1) s.bump (by omega) (by omega)).mono (by omega)

theorem consumeString_sim (mr : Nat) (c : Bool) (b : Bytes) (s : PState) :
    SimAt mr c b 0 (JsonIdx.consumeString b (view s mr c)) (Json.consumeString .norm b s) := by
  have h := consumeStringLoop_sim mr c b (b.length + 1) 0 s (by omega) (by omega)
  rwa [List.drop_zero] at h

/-! ### `consumeNumber` -/

/-- a digit loop on the list level: rest, counter, `got`, state -/
def digL : Bytes → Nat → Bool → PState → Bytes × Nat × Bool × PState
  | [], i, g, s => ([], i, g, s)
  | x :: xs, i, g, s => if isDigit x then digL xs (i + 1) true s.bump else (x :: xs, i, g, s)

theorem digitLoop_sim (mr : Nat) (c : Bool) : ∀ (fuel : Nat) (b : Bytes) (i : Nat) (g : Bool) (s : PState), b.length + 1 ≤ fuel →
    JsonIdx.digitLoop fuel b i g (view s mr c) =
      .ok ((digL b i g s).1, (digL b i g s).2.1, (digL b i g s).2.2.1, view (digL b i g s).2.2.2 mr c) := by
  intro fuel
  induction fuel with
  | zero => intro b i g s h; omega
  | succ f ih =>
    intro b i g s h
    rw [JsonIdx.digitLoop]
    cases b with
    | nil => rfl
    | cons x xs =>
      rw [ite_pos_cons, elemAt_zero_cons, bind_ok]
      simp only [digL]
      by_cases hx : isDigit x = true
      · simp only [hx, Bool.not_true, Bool.false_eq_true, if_false, if_true]
        rw [sliceFrom_one_cons, bind_ok, view_incIb]
        exact ih xs (i + 1) true s.bump (by simp only [List.length_cons] at h; omega)
      · simp only [hx, Bool.not_false, if_true]
        rfl

theorem digL_spec : ∀ (b : Bytes) (i : Nat) (g : Bool) (s : PState),
    ∃ k, k ≤ b.length ∧ (digL b i g s).1 = b.drop k ∧ (digL b i g s).2.1 = i + k ∧
      ((digL b i g s).2.2.1 = true → g = true ∨ 0 < k) ∧ (∀ x ∈ (digL b i g s).1.head?, isDigit x = false) := by
  intro b
  induction b with
  | nil => intro i g s; exact ⟨0, by simp [digL]⟩
  | cons x xs ih =>
    intro i g s
    simp only [digL]
    by_cases hx : isDigit x = true
    · simp only [hx, if_true]
      obtain ⟨k, h1, h2, h3, h4, h5⟩ := ih (i + 1) true s.bump
      exact ⟨k + 1, by simp only [List.length_cons]; omega, h2, by omega, fun _ => Or.inr (by omega), h5⟩
    · simp only [hx]
      exact ⟨0, by simp, rfl, rfl, fun h => Or.inl h, by simpa using hx⟩

/-- the three digit-consuming mode families of the list model -/
def DigitMode (mk : Bool → NMode) : Prop := ∀ g x, isDigit x = true → numStep (mk g) x = some (mk true)

theorem digitMode_int : DigitMode .int := by intro g x h; simp [numStep, h]
theorem digitMode_frac : DigitMode .frac := by intro g x h; simp [numStep, h]
theorem digitMode_exp : DigitMode .exp := by intro g x h; simp [numStep, h]

theorem digL_run (mk : Bool → NMode) (hmk : DigitMode mk) : ∀ (b : Bytes) (i : Nat) (g : Bool) (s : PState),
    Json.consumeNumber (mk g) b s = Json.consumeNumber (mk (digL b i g s).2.2.1) (digL b i g s).1 (digL b i g s).2.2.2 := by
  intro b
  induction b with
  | nil => intro i g s; rfl
  | cons x xs ih =>
    intro i g s
    simp only [digL]
    by_cases hx : isDigit x = true
    · simp only [hx, if_true]
      rw [cn_step _ _ _ _ _ (hmk g x hx)]
      exact ih (i + 1) true s.bump
    · simp only [hx, Bool.false_eq_true, if_false]

/-- the relation for the stages of `consumeNumber`: `b` is the re-sliced rest, `i` the counter -/
def NumSim (mr : Nat) (c : Bool) (b : Bytes) (i : Nat) (out : Out (Nat × St)) (res : Option Bytes × PState) : Prop :=
  match res.1 with
  | none => out = .ok (0, view res.2 mr c)
  | some r => ∃ k, k ≤ b.length ∧ r = b.drop k ∧ 0 < i + k ∧ out = .ok (i + k, view res.2 mr c)

theorem NumSim.shift {mr c b i out res} (j : Nat) (hj : j ≤ b.length) (h : NumSim mr c (b.drop j) (i + j) out res) :
    NumSim mr c b i out res := by
  obtain ⟨o, s'⟩ := res
  cases o with
  | none => exact h
  | some r =>
    obtain ⟨k, h1, h2, h3, h4⟩ := h
    rw [List.length_drop] at h1
    rw [List.drop_drop] at h2
    exact ⟨j + k, by omega, h2, by omega, by rw [h4]; congr 2; omega⟩

theorem numOut_sim (mr : Nat) (c : Bool) (m : NMode) (b : Bytes) (i : Nat) (s : PState) (hg : m.got = true → 0 < i)
    (hstop : ∀ x ∈ b.head?, numStep m x = none) :
    NumSim mr c b i (JsonIdx.numOut m.got i (view s mr c)) (Json.consumeNumber m b s) := by
  have hres : Json.consumeNumber m b s = (if m.got then some b else none, s) := by
    cases b with
    | nil => rw [cn_nil]
    | cons x t => rw [cn_stop m x t s (hstop x (by simp))]
  rw [hres]
  unfold JsonIdx.numOut NumSim
  cases hm : m.got with
  | false => rfl
  | true => exact ⟨0, by omega, rfl, by have := hg hm; omega, rfl⟩

theorem expSign_eq_exp (x : Nat) (t : Bytes) (s : PState) (hx : (x == 0x2B || x == 0x2D) = false) :
    Json.consumeNumber .expSign (x :: t) s = Json.consumeNumber (.exp false) (x :: t) s := by
  by_cases hd : isDigit x = true
  · rw [cn_step .expSign (.exp true) x t s (by simp [numStep, hx, hd]), cn_step (.exp false) (.exp true) x t s (by simp [numStep, hd])]
  · rw [cn_stop .expSign x t s (by simp [numStep, hx, hd]), cn_stop (.exp false) x t s (by simp [numStep, hd])]
    rfl

theorem start_eq_int (x : Nat) (t : Bytes) (s : PState) (hx : (x == 0x2D) = false) :
    Json.consumeNumber .start (x :: t) s = Json.consumeNumber (.int false) (x :: t) s := by
  cases h : numStep .start x with
  | none =>
    have h2 : numStep (.int false) x = none := by
      simp only [numStep, hx] at h ⊢
      simpa using h
    rw [cn_stop _ _ _ _ h, cn_stop _ _ _ _ h2]
    rfl
  | some m' =>
    have h2 : numStep (.int false) x = some m' := by
      simp only [numStep, hx] at h ⊢
      simpa using h
    rw [cn_step _ _ _ _ _ h, cn_step _ _ _ _ _ h2]

/-- digits in mode family `mk`, then the function `K` on what is left -/
theorem digits_then (mr : Nat) (c : Bool) (mk : Bool → NMode) (hmk : DigitMode mk) (b : Bytes) (i : Nat) (g : Bool) (s : PState)
    (K : Bytes → Nat → Bool → St → Out (Nat × St)) (hg : g = true → 0 < i)
    (hK : ∀ (b' : Bytes) (i' : Nat) (g' : Bool) (s' : PState), (g' = true → 0 < i') → (∀ x ∈ b'.head?, isDigit x = false) →
      NumSim mr c b' i' (K b' i' g' (view s' mr c)) (Json.consumeNumber (mk g') b' s')) :
    NumSim mr c b i
      (JsonIdx.digitLoop (b.length + 1) b i g (view s mr c) >>= fun x => K x.1 x.2.1 x.2.2.1 x.2.2.2)
      (Json.consumeNumber (mk g) b s) := by
  rw [digitLoop_sim mr c _ b i g s (Nat.le_refl _), bind_ok, digL_run mk hmk b i g s]
  obtain ⟨k, h1, h2, h3, h4, h5⟩ := digL_spec b i g s
  apply NumSim.shift k h1
  rw [← h2, ← h3]
  apply hK _ _ _ _ _ h5
  intro hg'
  rcases h4 hg' with h | h
  · have := hg h; omega
  · omega

theorem numExp_sim (mr : Nat) (c : Bool) (x : Nat) (t : Bytes) (i : Nat) (s : PState) :
    NumSim mr c t (i + 1) (JsonIdx.numExp (x :: t) i (view s mr c)) (Json.consumeNumber .expSign t s.bump) := by
  unfold JsonIdx.numExp
  rw [sliceFrom_one_cons, bind_ok, view_incIb]
  cases t with
  | nil =>
    rw [ite_zero_nil]
    exact numOut_sim mr c .expSign [] (i + 1) s.bump (by intro h; cases h) (by simp)
  | cons y u =>
    rw [ite_zero_cons, elemAt_zero_cons, bind_ok]
    have hK : ∀ (b' : Bytes) (i' : Nat) (g' : Bool) (s' : PState), (g' = true → 0 < i') → (∀ x ∈ b'.head?, isDigit x = false) →
        NumSim mr c b' i' ((fun _ i g p => JsonIdx.numOut g i p) b' i' g' (view s' mr c)) (Json.consumeNumber (.exp g') b' s') := by
      intro b' i' g' s' h1 h2
      exact numOut_sim mr c (.exp g') b' i' s' h1 (by intro z hz; simp [numStep, h2 z hz])
    by_cases hy : (y == 0x2B || y == 0x2D) = true
    · rw [if_pos hy, sliceFrom_one_cons, bind_ok, pure_ok, bind_ok, view_incIb]
      rw [cn_step .expSign (.exp false) y u s.bump (by simp only [numStep, hy, if_true])]
      apply NumSim.shift (b := y :: u) 1 (by simp)
      exact digits_then mr c .exp digitMode_exp u (i + 1 + 1) false s.bump.bump _ (by omega) hK
    · rw [if_neg hy, pure_ok, bind_ok, expSign_eq_exp y u _ (by simpa using hy)]
      exact digits_then mr c .exp digitMode_exp (y :: u) (i + 1) false s.bump _ (by omega) hK

/-- the list-model mode agrees with Go's test `got && (b[0] == 'e' || b[0] == 'E')` -/
def TailOK (m : NMode) (b : Bytes) : Prop :=
  ∀ x ∈ b.head?, numStep m x = if (m.got && (x == 0x65 || x == 0x45)) = true then some .expSign else none

theorem numTail_sim (mr : Nat) (c : Bool) (m : NMode) (b : Bytes) (i : Nat) (s : PState) (hg : m.got = true → 0 < i)
    (hok : TailOK m b) :
    NumSim mr c b i (JsonIdx.numTail b i m.got (view s mr c)) (Json.consumeNumber m b s) := by
  unfold JsonIdx.numTail
  cases b with
  | nil =>
    rw [ite_zero_nil]
    exact numOut_sim mr c m [] i s hg (by simp)
  | cons x t =>
    rw [ite_zero_cons, elemAt_zero_cons, bind_ok]
    have hx := hok x (by simp)
    by_cases he : (m.got && (x == 0x65 || x == 0x45)) = true
    · rw [if_pos he] at hx ⊢
      rw [cn_step m .expSign x t s hx]
      apply NumSim.shift (b := x :: t) 1 (by simp)
      exact numExp_sim mr c x t i s
    · rw [if_neg he] at hx ⊢
      exact numOut_sim mr c m (x :: t) i s hg (by intro z hz; simp at hz; subst hz; exact hx)

theorem numFrac_sim (mr : Nat) (c : Bool) (g : Bool) (x : Nat) (t : Bytes) (i : Nat) (s : PState)
    (hx : isDigit x = false) (hg : g = true → 0 < i) :
    NumSim mr c (x :: t) i (JsonIdx.numFrac (x :: t) i g (view s mr c)) (Json.consumeNumber (.int g) (x :: t) s) := by
  unfold JsonIdx.numFrac
  rw [elemAt_zero_cons, bind_ok]
  by_cases hdot : (x == 0x2E) = true
  · rw [if_pos hdot, sliceFrom_one_cons, bind_ok, pure_ok, bind_ok, view_incIb]
    rw [cn_step (.int g) (.frac g) x t s (by simp [numStep, hx, hdot])]
    apply NumSim.shift (b := x :: t) 1 (by simp)
    apply digits_then mr c .frac digitMode_frac t (i + 1) g s.bump (fun b i g p => JsonIdx.numTail b i g p) (by omega)
    intro b' i' g' s' h1 h2
    exact numTail_sim mr c (.frac g') b' i' s' h1 (by intro z hz; simp [numStep, h2 z hz, NMode.got, isE])
  · rw [if_neg hdot, pure_ok, bind_ok]
    have h0 := digitLoop_sim mr c ((x :: t).length + 1) (x :: t) i g s (Nat.le_refl _)
    simp only [digL, hx, Bool.false_eq_true, if_false] at h0
    dsimp only
    rw [h0, bind_ok]
    exact numTail_sim mr c (.int g) (x :: t) i s hg (by
      intro z hz
      simp at hz; subst hz
      have : (x == 0x2E) = false := by simpa using hdot
      simp [numStep, hx, this, NMode.got, isE])

theorem numInt_sim (mr : Nat) (c : Bool) (b : Bytes) (i : Nat) (g : Bool) (s : PState) (hg : g = true → 0 < i) :
    NumSim mr c b i (JsonIdx.numInt b i g (view s mr c)) (Json.consumeNumber (.int g) b s) := by
  unfold JsonIdx.numInt
  apply digits_then mr c .int digitMode_int b i g s
    (fun b i g p => if (b.length == 0) = true then JsonIdx.numOut g i p else JsonIdx.numFrac b i g p) hg
  intro b' i' g' s' h1 h2
  cases b' with
  | nil =>
    simp only [ite_zero_nil]
    exact numOut_sim mr c (.int g') [] i' s' h1 (by simp)
  | cons x t =>
    simp only [ite_zero_cons]
    exact numFrac_sim mr c g' x t i' s' (h2 x (by simp)) h1

theorem consumeNumber_sim (mr : Nat) (c : Bool) (b : Bytes) (s : PState) :
    SimAt mr c b 0 (JsonIdx.consumeNumber b (view s mr c)) (Json.consumeNumber .start b s) := by
  have key : NumSim mr c b 0 (JsonIdx.consumeNumber b (view s mr c)) (Json.consumeNumber .start b s) := by
    unfold JsonIdx.consumeNumber
    cases b with
    | nil =>
      rw [ite_zero_nil]
      exact numOut_sim mr c .start [] 0 s (by intro h; cases h) (by simp)
    | cons x t =>
      rw [ite_zero_cons, elemAt_zero_cons, bind_ok]
      by_cases hm : (x == 0x2D) = true
      · rw [if_pos hm, sliceFrom_one_cons, bind_ok, pure_ok, bind_ok, view_incIb]
        rw [cn_step .start (.int false) x t s (by simp [numStep, hm])]
        apply NumSim.shift (b := x :: t) 1 (by simp)
        exact numInt_sim mr c t (0 + 1) false s.bump (by intro h; cases h)
      · rw [if_neg hm, pure_ok, bind_ok, start_eq_int x t s (by simpa using hm)]
        exact numInt_sim mr c (x :: t) 0 false s (by intro h; cases h)
  unfold NumSim at key
  unfold SimAt
  generalize Json.consumeNumber .start b s = res at key
  obtain ⟨o, s'⟩ := res
  cases o with
  | none => exact key
  | some r =>
    obtain ⟨k, h1, h2, h3, h4⟩ := key
    exact ⟨k, by omega, h1, h2, by rw [h4]; congr 2; omega⟩

/-! ### `eq`, `queryPathMatch`, the query bookkeeping of `consumeObject` -/

theorem eqLoop_sim (a b : List Bytes) (hl : a.length = b.length) : ∀ (fuel i : Nat), i ≤ a.length → a.length - i + 1 ≤ fuel →
    JsonIdx.eqLoop fuel a b i = .ok (decide (a.drop i = b.drop i)) := by
  intro fuel
  induction fuel with
  | zero => intro i h1 h2; omega
  | succ f ih =>
    intro i h1 h2
    rw [JsonIdx.eqLoop]
    by_cases hi : i < a.length
    · have hib : i < b.length := by omega
      rw [if_pos hi, elemAt_nat a i hi, bind_ok, elemAt_nat b i hib, bind_ok]
      rw [List.drop_eq_getElem_cons hi, List.drop_eq_getElem_cons hib]
      by_cases hx : a[i] = b[i]
      · simp only [hx, decide_true, Bool.not_true, Bool.false_eq_true, if_false, List.cons.injEq, true_and]
        exact ih (i + 1) (by omega) (by omega)
      · have hne : ¬ (a[i] :: a.drop (i + 1) = b[i] :: b.drop (i + 1)) := by
          intro h; injection h with h1 _; exact hx h1
        simp only [hx, hne, decide_false, Bool.not_false, if_true]
        rfl
    · rw [if_neg hi, List.drop_eq_nil_of_le (by omega), List.drop_eq_nil_of_le (by omega)]
      rfl

theorem eqPath_sim (a b : List Bytes) : JsonIdx.eqPath a b = .ok (Json.pathEq a b) := by
  unfold JsonIdx.eqPath Json.pathEq
  by_cases hl : a.length = b.length
  · rw [if_neg (by simpa using hl), eqLoop_sim a b hl _ 0 (by omega) (by omega)]
    simp
  · rw [if_pos (by simpa using hl)]
    have : a ≠ b := by intro h; rw [h] at hl; exact hl rfl
    simp [this]

/-- Go's `queryMatched` (an index into `qs`, or -1) against the list model's `Option Query` -/
def QRes (qs : List Query) (o : Option Query) (j : Int) : Prop :=
  match o with
  | none => j = -1
  | some q => ∃ k : Nat, j = (k : Int) ∧ qs[k]? = some q

theorem queryPathMatchLoop_sim (qs : List Query) (path : List Bytes) : ∀ (fuel i : Nat), i ≤ qs.length → qs.length - i + 1 ≤ fuel →
    ∃ j, JsonIdx.queryPathMatchLoop fuel qs path i = .ok j ∧ QRes qs (Json.queryPathMatch (qs.drop i) path) j := by
  intro fuel
  induction fuel with
  | zero => intro i h1 h2; omega
  | succ f ih =>
    intro i h1 h2
    rw [JsonIdx.queryPathMatchLoop]
    by_cases hi : i < qs.length
    · rw [if_pos hi, elemAt_nat qs i hi, bind_ok, eqPath_sim, bind_ok, List.drop_eq_getElem_cons hi, Json.queryPathMatch]
      by_cases he : Json.pathEq qs[i].path path = true
      · rw [if_pos he, if_pos he]
        exact ⟨_, rfl, i, rfl, List.getElem?_eq_getElem hi⟩
      · rw [if_neg he, if_neg he]
        exact ih (i + 1) (by omega) (by omega)
    · rw [if_neg hi, List.drop_eq_nil_of_le (by omega)]
      exact ⟨_, rfl, rfl⟩

theorem queryPathMatch_sim (qs : List Query) (path : List Bytes) :
    ∃ j, JsonIdx.queryPathMatch qs path = .ok j ∧ QRes qs (Json.queryPathMatch qs path) j := by
  have := queryPathMatchLoop_sim qs path (qs.length + 1) 0 (by omega) (by omega)
  rwa [List.drop_zero] at this

theorem foldl_satisfy (t : Bytes) : ∀ (vals : List Bytes) (p : St),
    vals.foldl (fun p v => if decide (v = t) = true then p.satisfy else p) p =
      if vals.any (fun v => decide (v = t)) = true then p.satisfy else p := by
  intro vals
  induction vals with
  | nil => intro p; rfl
  | cons v vs ih =>
    intro p
    rw [List.foldl_cons, ih, List.any_cons]
    by_cases hv : v = t
    · simp only [hv, decide_true, if_true, Bool.true_or]
      split <;> rfl
    · simp only [hv, decide_false, Bool.false_eq_true, if_false, Bool.false_or]

theorem applyQuery_sim (mr : Nat) (c : Bool) (qs : List Query) (o : Option Query) (j : Int) (h : QRes qs o j) (val : Bytes) (s : PState) :
    JsonIdx.applyQuery qs j val (view s mr c) = .ok (view (Json.applyQuery o val s) mr c) := by
  unfold JsonIdx.applyQuery
  cases o with
  | none =>
    have hj : j = -1 := h
    subst hj
    rfl
  | some q =>
    obtain ⟨k, hj, hk⟩ := h
    subst hj
    have hlt : k < qs.length := by
      rcases Nat.lt_or_ge k qs.length with h | h
      · exact h
      · rw [List.getElem?_eq_none h] at hk; cases hk
    rw [if_pos (by simp), elemAt_nat qs k hlt, bind_ok]
    have hq : qs[k] = q := by
      rw [List.getElem?_eq_getElem hlt] at hk
      exact Option.some.inj hk
    rw [hq, pure_ok, foldl_satisfy]
    simp only [Json.applyQuery]
    cases hv : q.vals with
    | nil => rfl
    | cons v vs =>
      simp only [List.length_cons, Nat.add_one_ne_zero, beq_iff_eq, if_false, List.isEmpty_cons, Bool.false_eq_true]
      split <;> rfl

/-! ### the containers: the index-level functions cut into the pieces of Lemmas/JsonPrefixC.lean -/

section pieces
variable (qs : List Query) (f : Nat) (b : Bytes) (lvl : Nat)

/-- `consumeArray` from `n += innerParsed` on -/
def arrAfterI (n : Nat) (p : St) : Out (Nat × St) := do
  let t ← liftG (sliceFrom b n)
  if t.length == 0 then pure (0, p)
  else do
    let d ← liftG (elemAt b n)
    if d == 0x2C then JsonIdx.arrayLoop qs f b (n + 1) lvl p.incIb
    else if d == 0x5D then do
      let p ← popPath p.incIb
      pure (n + 1, p)
    else pure (0, p)

/-- the loop body of `consumeArray` after `n += p.consumeSpace(b[n:])` -/
def arrHeadI (n : Nat) (p : St) : Out (Nat × St) := do
  let t ← liftG (sliceFrom b n)
  if t.length == 0 then pure (0, p)
  else do
    let c ← liftG (elemAt b n)
    if c == 0x5D then do
      let p ← popPath p.incIb
      pure (n + 1, p)
    else do
      let t ← liftG (sliceFrom b n)
      let (innerParsed, p) ← JsonIdx.consumeAny qs f t lvl p
      if innerParsed == 0 then pure (0, p)
      else arrAfterI qs f b lvl (n + innerParsed) p

theorem arrayLoopI_eq (n : Nat) (p : St) : JsonIdx.arrayLoop qs (f + 1) b n lvl p =
    if n < b.length then do
      let t ← liftG (sliceFrom b n)
      let (k, p) ← JsonIdx.consumeSpace t p
      arrHeadI qs f b lvl (n + k) p
    else pure (0, p) := by
  rw [JsonIdx.arrayLoop]; rfl

/-- `consumeObject` from `n += valLen` on -/
def objAfterValI (n : Nat) (p : St) : Out (Nat × St) := do
  let t ← liftG (sliceFrom b n)
  if t.length == 0 then pure (0, p)
  else do
    let g ← liftG (elemAt b n)
    if g == 0x2C then do
      let p ← popPath p
      JsonIdx.consumeObject qs f b (n + 1) lvl p.incIb
    else if g == 0x7D then do
      let p ← popPath p
      pure (n + 1, p.incIb)
    else pure (0, p)

/-- `consumeObject` from the third `if len(b[n:]) == 0` (parser.go:355) on -/
def objValueI (queryMatched : Int) (n : Nat) (p : St) : Out (Nat × St) := do
  let t ← liftG (sliceFrom b n)
  if t.length == 0 then pure (0, p)
  else do
    let t ← liftG (sliceFrom b n)
    let (valLen, p) ← JsonIdx.consumeAny qs f t lvl p
    if valLen == 0 then pure (0, p)
    else do
      let val ← liftG (JsonIdx.slice b n ((n : Int) + valLen))
      let p ← JsonIdx.applyQuery qs queryMatched val p
      objAfterValI qs f b lvl (n + valLen) p

/-- `consumeObject` from the second `if len(b[n:]) == 0` (parser.go:345) on -/
def objColonI (queryMatched : Int) (n : Nat) (p : St) : Out (Nat × St) := do
  let t ← liftG (sliceFrom b n)
  if t.length == 0 then pure (0, p)
  else do
    let d ← liftG (elemAt b n)
    if d != 0x3A then pure (0, p)
    else do
      let n := n + 1
      let p := p.incIb
      let t ← liftG (sliceFrom b n)
      let (k, p) ← JsonIdx.consumeSpace t p
      objValueI qs f b lvl queryMatched (n + k) p

/-- `consumeObject` after `consumeString` returned `keyLen ≠ 0` -/
def objAfterKeyI (n keyLen : Nat) (p : St) : Out (Nat × St) := do
  let key ← liftG (JsonIdx.slice b n ((n : Int) + keyLen - 1))
  let p := p.push key
  let queryMatched ←
    (if !p.querySatisfied then JsonIdx.queryPathMatch qs p.currPath else pure (-1) : Out Int)
  let n := n + keyLen
  let t ← liftG (sliceFrom b n)
  let (k, p) ← JsonIdx.consumeSpace t p
  objColonI qs f b lvl queryMatched (n + k) p

/-- the loop body of `consumeObject` after `n += p.consumeSpace(b[n:])` -/
def objHeadI (n : Nat) (p : St) : Out (Nat × St) := do
  let t ← liftG (sliceFrom b n)
  if t.length == 0 then pure (0, p)
  else do
    let c ← liftG (elemAt b n)
    if c == 0x7D then pure (n + 1, p.incIb)
    else if c != 0x22 then pure (0, p)
    else do
      let n := n + 1
      let p := p.incIb
      let t ← liftG (sliceFrom b n)
      let (keyLen, p) ← JsonIdx.consumeString t p
      if keyLen == 0 then pure (0, p)
      else objAfterKeyI qs f b lvl n keyLen p

theorem consumeObjectI_eq (n : Nat) (p : St) : JsonIdx.consumeObject qs (f + 1) b n lvl p =
    if n < b.length then do
      let t ← liftG (sliceFrom b n)
      let (k, p) ← JsonIdx.consumeSpace t p
      objHeadI qs f b lvl (n + k) p
    else pure (0, p) := by
  rw [JsonIdx.consumeObject]; rfl

/-- the `switch b[n]` of `consumeAny` -/
def anySwitchI (n : Nat) (c : Nat) (p : St) : Out (Nat × Nat × Nat × St) :=
  if c == 0x22 then do
    let n := n + 1
    let p := p.incIb
    let t ← liftG (sliceFrom b n)
    let (rv, p) ← JsonIdx.consumeString t p
    pure (n, rv, Json.tokString, p)
  else if c == 0x5B then do
    let n := n + 1
    let p := p.incIb
    let t ← liftG (sliceFrom b n)
    let (rv, p) ← JsonIdx.consumeArrayWith (JsonIdx.arrayLoop qs f) t (lvl + 1) p
    pure (n, rv, Json.tokArray, p)
  else if c == 0x7B then do
    let n := n + 1
    let p := p.incIb
    let t ← liftG (sliceFrom b n)
    let (rv, p) ← JsonIdx.consumeObject qs f t 0 (lvl + 1) p
    pure (n, rv, Json.tokObject, p)
  else if c == 0x74 then do
    let t ← liftG (sliceFrom b n)
    let (rv, p) ← JsonIdx.consumeConst t Json.wTrue p
    pure (n, rv, Json.tokTrue, p)
  else if c == 0x66 then do
    let t ← liftG (sliceFrom b n)
    let (rv, p) ← JsonIdx.consumeConst t Json.wFalse p
    pure (n, rv, Json.tokFalse, p)
  else if c == 0x6E then do
    let t ← liftG (sliceFrom b n)
    let (rv, p) ← JsonIdx.consumeConst t Json.wNull p
    pure (n, rv, Json.tokNull, p)
  else do
    let t ← liftG (sliceFrom b n)
    let (rv, p) ← JsonIdx.consumeNumber t p
    pure (n, rv, Json.tokNumber, p)

/-- `consumeAny` after the `switch` -/
def anyTailI (x : Nat × Nat × Nat × St) : Out (Nat × St) :=
  match x with
  | (n, rv, tok, p) =>
    let p := if lvl == 0 then { p with firstToken := tok } else p
    let p := if qs.length == 0 then p.satisfy else p
    if rv ≤ 0 then
      (if lvl > 0 then pure (0, p) else pure (n, p))
    else do
      let p := if lvl == 0 then { p with complete := true } else p
      let n := n + rv
      let t ← liftG (sliceFrom b n)
      let (k, p) ← JsonIdx.consumeSpace t p
      pure (n + k, p)

/-- `consumeAny` after `n += p.consumeSpace(b)` -/
def anyHeadI (n : Nat) (p : St) : Out (Nat × St) := do
  let t ← liftG (sliceFrom b n)
  if t.length == 0 then pure (0, p)
  else do
    let c ← liftG (elemAt b n)
    let x ← anySwitchI qs f b lvl n c p
    anyTailI qs b lvl x

theorem consumeAnyI_eq (p : St) : JsonIdx.consumeAny qs (f + 1) b lvl p =
    if (p.maxRecursion != 0 && decide (lvl > p.maxRecursion)) = true then pure (0, p)
    else (do
      let (k, p) ← JsonIdx.consumeSpace b p
      anyHeadI qs f b lvl (0 + k) p) := by
  rw [JsonIdx.consumeAny]; rfl

end pieces

/-! ### the simulation of the containers -/

section sim
variable (qs : List Query) (cap : Nat)

/-- a loop (`consumeArray`, `consumeObject`) run from cursor `n` of `b`; on success the path
    stack is `path` -/
def SimLoop (c : Bool) (b : Bytes) (n : Nat) (path : List Bytes) (out : Out (Nat × St)) (res : Option Bytes × PState) : Prop :=
  match res.1 with
  | none => out = .ok (0, view res.2 cap c)
  | some r => ∃ k, n < k ∧ k ≤ b.length ∧ r = b.drop k ∧ res.2.currPath = path ∧ out = .ok (k, view res.2 cap c)

/-- `consumeAny(b, qs, lvl)`: on failure Go returns 0 below the top level (and the bytes consumed
    so far at the top level) and leaves `complete` alone; on success it returns the cursor, the
    path stack is balanced, and `complete` is set iff `lvl == 0` -/
def SimAny (c : Bool) (lvl : Nat) (b : Bytes) (path : List Bytes) (out : Out (Nat × St)) (res : Option Bytes × PState) : Prop :=
  match res.1 with
  | none => ∃ k, (0 < lvl → k = 0) ∧ out = .ok (k, view res.2 cap c)
  | some r => ∃ k, 0 < k ∧ k ≤ b.length ∧ r = b.drop k ∧ res.2.currPath = path ∧
      out = .ok (k, view res.2 cap (c || lvl == 0))

variable {cap}

theorem SimLoop.mono {c b n n' path out res} (h : SimLoop cap c b n' path out res) (hn : n ≤ n') :
    SimLoop cap c b n path out res := by
  obtain ⟨o, s'⟩ := res
  cases o with
  | none => exact h
  | some r =>
    obtain ⟨k, h1, h2, h3, h4, h5⟩ := h
    exact ⟨k, by omega, h2, h3, h4, h5⟩

theorem SimLoop.of_simAt {c b n path out res} (h : SimAt cap c b n out res) (hp : res.2.currPath = path) :
    SimLoop cap c b n path out res := by
  obtain ⟨o, s'⟩ := res
  cases o with
  | none => exact h
  | some r =>
    obtain ⟨k, h1, h2, h3, h4⟩ := h
    exact ⟨k, h1, h2, h3, hp, h4⟩

variable (cap)

def SAny (f : Nat) : Prop := ∀ (lvl : Nat) (b : Bytes) (s : PState) (c : Bool), 2 * b.length + 1 ≤ f →
  SimAny cap c lvl b s.currPath (JsonIdx.consumeAny qs f b lvl (view s cap c)) (Json.consumeAny qs cap f lvl b s)

def SArr (f : Nat) : Prop := ∀ (lvl : Nat) (b : Bytes) (n : Nat) (s : PState) (c : Bool),
  0 < lvl → n ≤ b.length → 2 * (b.length - n) + 2 ≤ f → s.currPath ≠ [] →
  SimLoop cap c b n s.currPath.dropLast (JsonIdx.arrayLoop qs f b n lvl (view s cap c)) (Json.arrayLoop qs cap f lvl (b.drop n) s)

def SObj (f : Nat) : Prop := ∀ (lvl : Nat) (b : Bytes) (n : Nat) (s : PState) (c : Bool),
  0 < lvl → n ≤ b.length → 2 * (b.length - n) + 2 ≤ f →
  SimLoop cap c b n s.currPath (JsonIdx.consumeObject qs f b n lvl (view s cap c)) (Json.objectLoop qs cap f lvl (b.drop n) s)

variable {qs cap}

theorem or_lvl (c : Bool) {lvl : Nat} (hl : 0 < lvl) : (c || lvl == 0) = c := by
  have : (lvl == 0) = false := by simp; omega
  rw [this, Bool.or_false]

theorem beq_zero_of_pos {k : Nat} (hk : 0 < k) : ¬ ((k == 0) = true) := by simp; omega

/-! #### arrays -/

theorem arrAfter_sim {f : Nat} (hA : SArr qs cap f) (lvl : Nat) (b : Bytes) (n : Nat) (s : PState) (c : Bool)
    (hl : 0 < lvl) (hn : n ≤ b.length) (hf : 2 * (b.length - n) ≤ f) (hp : s.currPath ≠ []) :
    SimLoop cap c b n s.currPath.dropLast (arrAfterI qs f b lvl n (view s cap c)) (JsonPrefix.arrAfter qs cap f lvl (b.drop n) s) := by
  unfold arrAfterI
  cases hd : b.drop n with
  | nil =>
    rw [peek_nil hn hd, bind_ok, ite_zero_nil]
    rfl
  | cons d ds =>
    obtain ⟨hlt, h4, h5, h6⟩ := peek_cons hd
    rw [h4, bind_ok, ite_zero_cons, h5, bind_ok]
    simp only [JsonPrefix.arrAfter]
    by_cases hc : (d == 0x2C) = true
    · rw [if_pos hc, if_pos hc, view_incIb, ← h6]
      exact (hA lvl b (n + 1) s.bump c hl (by omega) (by omega) hp).mono (by omega)
    · rw [if_neg hc, if_neg hc]
      by_cases hb : (d == 0x5D) = true
      · rw [if_pos hb, if_pos hb, view_incIb, popPath_view s.bump _ _ hp, bind_ok]
        exact ⟨n + 1, by omega, by omega, h6.symm, rfl, rfl⟩
      · rw [if_neg hb, if_neg hb]
        rfl

theorem arrHead_sim {f : Nat} (hV : SAny qs cap f) (hA : SArr qs cap f) (lvl : Nat) (b : Bytes) (n : Nat) (s : PState) (c : Bool)
    (hl : 0 < lvl) (hn : n ≤ b.length) (hf : 2 * (b.length - n) + 1 ≤ f) (hp : s.currPath ≠ []) :
    SimLoop cap c b n s.currPath.dropLast (arrHeadI qs f b lvl n (view s cap c)) (JsonPrefix.arrHead qs cap f lvl (b.drop n) s) := by
  unfold arrHeadI
  cases hd : b.drop n with
  | nil =>
    rw [peek_nil hn hd, bind_ok, ite_zero_nil]
    rfl
  | cons x xs =>
    obtain ⟨hlt, h4, h5, h6⟩ := peek_cons hd
    rw [h4, bind_ok, ite_zero_cons, h5, bind_ok]
    simp only [JsonPrefix.arrHead]
    by_cases hb : (x == 0x5D) = true
    · rw [if_pos hb, if_pos hb, view_incIb, popPath_view s.bump _ _ hp, bind_ok]
      exact ⟨n + 1, by omega, by omega, h6.symm, rfl, rfl⟩
    · rw [if_neg hb, if_neg hb, bind_ok]
      have hv := hV lvl (b.drop n) s c (by rw [List.length_drop]; omega)
      have hlen : (b.drop n).length = b.length - n := List.length_drop
      rw [hd] at hv hlen
      have hdr : ∀ k, (x :: xs).drop k = b.drop (n + k) := by intro k; rw [← hd, List.drop_drop]
      generalize JsonIdx.consumeAny qs f (x :: xs) lvl (view s cap c) = out at hv ⊢
      generalize Json.consumeAny qs cap f lvl (x :: xs) s = res at hv ⊢
      obtain ⟨o, s2⟩ := res
      cases o with
      | none =>
        obtain ⟨k, hk, ho⟩ := hv
        have := hk hl
        subst this
        rw [ho, bind_ok]
        rfl
      | some r2 =>
        obtain ⟨k, hk0, hk1, hr, hpath, ho⟩ := hv
        rw [ho, bind_ok]
        dsimp only
        rw [if_neg (beq_zero_of_pos hk0), or_lvl c hl, hr, hdr k]
        have := arrAfter_sim hA lvl b (n + k) s2 c hl (by omega) (by omega) (by rw [hpath]; exact hp)
        rw [hpath] at this
        exact this.mono (by omega)

theorem arr_step {f : Nat} (hV : SAny qs cap f) (hA : SArr qs cap f) : SArr qs cap (f + 1) := by
  intro lvl b n s c hl hn hf hp
  rw [arrayLoopI_eq, JsonPrefix.arrayLoop_eq, spaceScan_eq]
  dsimp only
  by_cases hlt : n < b.length
  · rw [if_pos hlt, sliceFrom_nat b n hn, bind_ok, consumeSpace_sim, bind_ok, List.drop_drop]
    have hle := nsp_le (b.drop n)
    rw [List.length_drop] at hle
    exact (arrHead_sim hV hA lvl b (n + nsp (b.drop n)) (s.bump (nsp (b.drop n))) c hl (by omega) (by omega) hp).mono (by omega)
  · rw [if_neg hlt, List.drop_eq_nil_of_le (as := b) (i := n) (by omega)]
    rfl

/-- `consumeArray`: the push, the empty test, the loop -/
theorem consumeArrayWith_sim {f : Nat} (hA : SArr qs cap f) (lvl : Nat) (t : Bytes) (s : PState) (c : Bool)
    (hl : 0 < lvl) (hf : 2 * t.length + 2 ≤ f) :
    SimLoop cap c t 0 s.currPath (JsonIdx.consumeArrayWith (JsonIdx.arrayLoop qs f) t lvl (view s cap c))
      (if t.isEmpty = true then (none, s.push [0x5B]) else Json.arrayLoop qs cap f lvl t (s.push [0x5B])) := by
  unfold JsonIdx.consumeArrayWith
  cases t with
  | nil => rfl
  | cons x xs =>
    dsimp only
    rw [ite_zero_cons, if_neg (by simp), view_push]
    have := hA lvl (x :: xs) 0 (s.push [0x5B]) c hl (by omega) (by simp only [List.length_cons] at hf ⊢; omega) (by simp [PState.push])
    rw [List.drop_zero] at this
    have hpath : (s.push [0x5B]).currPath.dropLast = s.currPath := by simp [PState.push]
    rw [hpath] at this
    exact this

/-! #### objects -/

theorem applyQuery_currPath (o : Option Query) (v : Bytes) (s : PState) : (Json.applyQuery o v s).currPath = s.currPath := by
  cases o with
  | none => rfl
  | some q =>
    simp only [Json.applyQuery]
    split <;> split <;> rfl

theorem objAfterVal_sim {f : Nat} (hO : SObj qs cap f) (o : Option Query) (tag : Bytes) (lvl : Nat) (b : Bytes) (n : Nat) (s : PState) (c : Bool)
    (hl : 0 < lvl) (hn : n ≤ b.length) (hf : 2 * (b.length - n) ≤ f) (hp : s.currPath ≠ []) :
    SimLoop cap c b n s.currPath.dropLast (objAfterValI qs f b lvl n (view (Json.applyQuery o tag s) cap c))
      (JsonPrefix.objAfterVal qs cap f lvl o tag (b.drop n) s) := by
  have hp7 : (Json.applyQuery o tag s).currPath ≠ [] := by rw [applyQuery_currPath]; exact hp
  have hq7 : (Json.applyQuery o tag s).currPath.dropLast = s.currPath.dropLast := by rw [applyQuery_currPath]
  unfold objAfterValI
  cases hd : b.drop n with
  | nil =>
    rw [peek_nil hn hd, bind_ok, ite_zero_nil]
    rfl
  | cons g gs =>
    obtain ⟨hlt, h4, h5, h6⟩ := peek_cons hd
    rw [h4, bind_ok, ite_zero_cons, h5, bind_ok]
    simp only [JsonPrefix.objAfterVal]
    by_cases hc : (g == 0x2C) = true
    · rw [if_pos hc, if_pos hc, popPath_view _ _ _ hp7, bind_ok, view_incIb, ← h6]
      have := hO lvl b (n + 1) (Json.applyQuery o tag s).pop.bump c hl (by omega) (by omega)
      rw [show (Json.applyQuery o tag s).pop.bump.currPath = s.currPath.dropLast from hq7] at this
      exact this.mono (by omega)
    · rw [if_neg hc, if_neg hc]
      by_cases hb : (g == 0x7D) = true
      · rw [if_pos hb, if_pos hb, popPath_view _ _ _ hp7, bind_ok, view_incIb]
        exact ⟨n + 1, by omega, by omega, h6.symm, hq7, rfl⟩
      · rw [if_neg hb, if_neg hb]
        rfl

theorem consumed_drop (y : Bytes) (k : Nat) (hk : k ≤ y.length) : Json.consumed y (y.drop k) = y.take k := by
  unfold Json.consumed
  rw [List.length_drop]
  congr 1; omega

theorem objValue_sim {f : Nat} (hV : SAny qs cap f) (hO : SObj qs cap f) (o : Option Query) (j : Int) (hq : QRes qs o j)
    (lvl : Nat) (b : Bytes) (n : Nat) (s : PState) (c : Bool)
    (hl : 0 < lvl) (hn : n ≤ b.length) (hf : 2 * (b.length - n) + 1 ≤ f) (hp : s.currPath ≠ []) :
    SimLoop cap c b n s.currPath.dropLast (objValueI qs f b lvl j n (view s cap c)) (JsonPrefix.objValue qs cap f lvl o (b.drop n) s) := by
  unfold objValueI
  cases hd : b.drop n with
  | nil =>
    rw [peek_nil hn hd, bind_ok, ite_zero_nil]
    rfl
  | cons x xs =>
    obtain ⟨hlt, h4, h5, h6⟩ := peek_cons hd
    rw [h4, bind_ok, ite_zero_cons, bind_ok]
    simp only [JsonPrefix.objValue]
    have hv := hV lvl (b.drop n) s c (by rw [List.length_drop]; omega)
    have hlen : (b.drop n).length = b.length - n := List.length_drop
    rw [hd] at hv hlen
    have hdr : ∀ k, (x :: xs).drop k = b.drop (n + k) := by intro k; rw [← hd, List.drop_drop]
    generalize JsonIdx.consumeAny qs f (x :: xs) lvl (view s cap c) = out at hv ⊢
    generalize Json.consumeAny qs cap f lvl (x :: xs) s = res at hv ⊢
    obtain ⟨o2, s2⟩ := res
    cases o2 with
    | none =>
      obtain ⟨k, hk, ho⟩ := hv
      have := hk hl
      subst this
      rw [ho, bind_ok]
      rfl
    | some r2 =>
      obtain ⟨k, hk0, hk1, hr, hpath, ho⟩ := hv
      rw [ho, bind_ok]
      dsimp only
      rw [if_neg (beq_zero_of_pos hk0), or_lvl c hl, ← Int.natCast_add, slice_nat b n (n + k) (by omega) (by omega), bind_ok,
        Nat.add_sub_cancel_left, hd, hr, consumed_drop _ k hk1]
      rw [applyQuery_sim cap c qs o j hq, bind_ok, hdr k]
      have := objAfterVal_sim hO o ((x :: xs).take k) lvl b (n + k) s2 c hl (by omega) (by omega) (by rw [hpath]; exact hp)
      rw [hpath] at this
      exact this.mono (by omega)

theorem objColon_sim {f : Nat} (hV : SAny qs cap f) (hO : SObj qs cap f) (o : Option Query) (j : Int) (hq : QRes qs o j)
    (lvl : Nat) (b : Bytes) (n : Nat) (s : PState) (c : Bool)
    (hl : 0 < lvl) (hn : n ≤ b.length) (hf : 2 * (b.length - n) + 1 ≤ f) (hp : s.currPath ≠ []) :
    SimLoop cap c b n s.currPath.dropLast (objColonI qs f b lvl j n (view s cap c)) (JsonPrefix.objColon qs cap f lvl o (b.drop n) s) := by
  unfold objColonI
  cases hd : b.drop n with
  | nil =>
    rw [peek_nil hn hd, bind_ok, ite_zero_nil]
    rfl
  | cons d ds =>
    obtain ⟨hlt, h4, h5, h6⟩ := peek_cons hd
    rw [h4, bind_ok, ite_zero_cons, h5, bind_ok]
    simp only [JsonPrefix.objColon]
    by_cases hc : (d != 0x3A) = true
    · rw [if_pos hc, if_pos hc]
      rfl
    · rw [if_neg hc, if_neg hc, sliceFrom_nat b (n + 1) (by omega), bind_ok, view_incIb, consumeSpace_sim, bind_ok,
        spaceScan_eq, ← h6, List.drop_drop]
      dsimp only
      have hle := nsp_le (b.drop (n + 1))
      rw [List.length_drop] at hle
      exact (objValue_sim hV hO o j hq lvl b (n + 1 + nsp (b.drop (n + 1))) (s.bump.bump (nsp (b.drop (n + 1)))) c hl
        (by omega) (by omega) hp).mono (by omega)

theorem take_dropLast (y : Bytes) (k : Nat) (hk : k ≤ y.length) : (y.take k).dropLast = y.take (k - 1) := by
  rw [List.dropLast_eq_take, List.take_take, List.length_take]
  congr 1; omega

theorem objAfterKey_sim {f : Nat} (hV : SAny qs cap f) (hO : SObj qs cap f)
    (lvl : Nat) (b : Bytes) (n k : Nat) (s : PState) (c : Bool)
    (hl : 0 < lvl) (hk0 : 0 < k) (hn : n + k ≤ b.length) (hf : 2 * (b.length - (n + k)) + 1 ≤ f) :
    SimLoop cap c b (n + k) s.currPath (objAfterKeyI qs f b lvl n k (view s cap c))
      (JsonPrefix.objAfterKey qs cap f lvl ((b.drop n).take k) (b.drop (n + k)) s) := by
  unfold objAfterKeyI
  have hcast : (n : Int) + (k : Int) - 1 = ((n + k - 1 : Nat) : Int) := by omega
  rw [hcast, slice_nat b n (n + k - 1) (by omega) (by omega), bind_ok]
  have hkey : (b.drop n).take (n + k - 1 - n) = ((b.drop n).take k).dropLast := by
    rw [take_dropLast _ k (by rw [List.length_drop]; omega)]
    congr 1; omega
  obtain ⟨key, hkd⟩ : ∃ key, key = ((b.drop n).take k).dropLast := ⟨_, rfl⟩
  rw [hkey, ← hkd]
  simp only [JsonPrefix.objAfterKey]
  rw [view_push, ← hkd]
  have hp3 : (s.push key).currPath ≠ [] := by simp [PState.push]
  have hq3 : (s.push key).currPath.dropLast = s.currPath := by simp [PState.push]
  -- the query lookup
  have hQ : ∃ j, (if (!(view (s.push key) cap c).querySatisfied) = true then JsonIdx.queryPathMatch qs (view (s.push key) cap c).currPath else pure (-1) : Out Int) = .ok j ∧
      QRes qs (if (s.push key).querySatisfied = true then none else Json.queryPathMatch qs (s.push key).currPath) j := by
    show ∃ j, (if (!(s.push key).querySatisfied) = true then JsonIdx.queryPathMatch qs (s.push key).currPath else pure (-1) : Out Int) = .ok j ∧
      QRes qs (if (s.push key).querySatisfied = true then none else Json.queryPathMatch qs (s.push key).currPath) j
    cases hsat : (s.push key).querySatisfied with
    | true => exact ⟨-1, rfl, rfl⟩
    | false => exact queryPathMatch_sim qs (s.push key).currPath
  obtain ⟨j, hj1, hj2⟩ := hQ
  rw [hj1, bind_ok, sliceFrom_nat b (n + k) hn, bind_ok, consumeSpace_sim, bind_ok, spaceScan_eq, List.drop_drop]
  dsimp only
  have hle := nsp_le (b.drop (n + k))
  rw [List.length_drop] at hle
  have := objColon_sim hV hO _ j hj2 lvl b (n + k + nsp (b.drop (n + k))) ((s.push key).bump (nsp (b.drop (n + k)))) c hl
    (by omega) (by omega) hp3
  rw [show ((s.push key).bump (nsp (b.drop (n + k)))).currPath.dropLast = s.currPath from hq3] at this
  exact this.mono (by omega)

theorem objHead_sim {f : Nat} (hV : SAny qs cap f) (hO : SObj qs cap f)
    (lvl : Nat) (b : Bytes) (n : Nat) (s : PState) (c : Bool)
    (hl : 0 < lvl) (hn : n ≤ b.length) (hf : 2 * (b.length - n) + 1 ≤ f) :
    SimLoop cap c b n s.currPath (objHeadI qs f b lvl n (view s cap c)) (JsonPrefix.objHead qs cap f lvl (b.drop n) s) := by
  unfold objHeadI
  cases hd : b.drop n with
  | nil =>
    rw [peek_nil hn hd, bind_ok, ite_zero_nil]
    rfl
  | cons x xs =>
    obtain ⟨hlt, h4, h5, h6⟩ := peek_cons hd
    rw [h4, bind_ok, ite_zero_cons, h5, bind_ok]
    simp only [JsonPrefix.objHead]
    by_cases hb : (x == 0x7D) = true
    · rw [if_pos hb, if_pos hb]
      exact ⟨n + 1, by omega, by omega, h6.symm, rfl, rfl⟩
    · rw [if_neg hb, if_neg hb]
      by_cases hq : (x != 0x22) = true
      · rw [if_pos hq, if_pos hq]
        rfl
      · rw [if_neg hq, if_neg hq, sliceFrom_nat b (n + 1) (by omega), bind_ok, view_incIb, h6]
        have hs := consumeString_sim cap c (b.drop (n + 1)) s.bump
        have hfld := (JsonQuery.consumeString_fields (b.drop (n + 1)) .norm s.bump).1
        rw [h6] at hs hfld
        have hlen : xs.length = b.length - (n + 1) := by rw [← h6, List.length_drop]
        have hdr : ∀ k, xs.drop k = b.drop (n + 1 + k) := by intro k; rw [← h6, List.drop_drop]
        generalize JsonIdx.consumeString xs (view s.bump cap c) = out at hs ⊢
        generalize Json.consumeString .norm xs s.bump = res at hs hfld ⊢
        obtain ⟨o, s2⟩ := res
        cases o with
        | none =>
          have ho : out = .ok (0, view s2 cap c) := hs
          rw [ho, bind_ok]
          rfl
        | some r =>
          obtain ⟨k, hk0, hk1, hr, ho⟩ := hs
          rw [ho, bind_ok]
          dsimp only
          rw [if_neg (beq_zero_of_pos hk0), hr, consumed_drop xs k hk1, hdr k, ← h6]
          have := objAfterKey_sim hV hO lvl b (n + 1) k s2 c hl hk0 (by omega) (by omega)
          rw [show s2.currPath = s.currPath from hfld] at this
          exact this.mono (by omega)

theorem obj_step {f : Nat} (hV : SAny qs cap f) (hO : SObj qs cap f) : SObj qs cap (f + 1) := by
  intro lvl b n s c hl hn hf
  rw [consumeObjectI_eq, JsonPrefix.objectLoop_eq, spaceScan_eq]
  dsimp only
  by_cases hlt : n < b.length
  · rw [if_pos hlt, sliceFrom_nat b n hn, bind_ok, consumeSpace_sim, bind_ok, List.drop_drop]
    have hle := nsp_le (b.drop n)
    rw [List.length_drop] at hle
    exact (objHead_sim hV hO lvl b (n + nsp (b.drop n)) (s.bump (nsp (b.drop n))) c hl (by omega) (by omega)).mono (by omega)
  · rw [if_neg hlt, List.drop_eq_nil_of_le (as := b) (i := n) (by omega)]
    rfl

/-! #### values -/

/-- the `switch` of `consumeAny` run at cursor `n`: `(n', rv, tok, p)` -/
def SimSw (c : Bool) (b : Bytes) (n : Nat) (path : List Bytes) (tok : Nat) (out : Out (Nat × Nat × Nat × St))
    (res : Option Bytes × PState) : Prop :=
  match res.1 with
  | none => ∃ n', out = .ok (n', 0, tok, view res.2 cap c)
  | some r => ∃ n' rv, 0 < rv ∧ n ≤ n' ∧ n' + rv ≤ b.length ∧ r = b.drop (n' + rv) ∧ res.2.currPath = path ∧
      out = .ok (n', rv, tok, view res.2 cap c)

/-- a scanner run on the slice `b[n':]` from its cursor 0, seen from `b` -/
theorem SimSw.of_loop {c : Bool} {b : Bytes} {n n' : Nat} {path : List Bytes} (tok : Nat) {out : Out (Nat × St)}
    {res : Option Bytes × PState} (h : SimLoop cap c (b.drop n') 0 path out res) (hn : n ≤ n') (hn' : n' ≤ b.length) :
    SimSw (cap := cap) c b n path tok (out >>= fun x => pure (n', x.1, tok, x.2)) res := by
  obtain ⟨o, s'⟩ := res
  cases o with
  | none =>
    have ho : out = .ok (0, view s' cap c) := h
    rw [ho, bind_ok]
    exact ⟨n', rfl⟩
  | some r =>
    obtain ⟨k, h1, h2, h3, h4, h5⟩ := h
    rw [List.length_drop] at h2
    rw [List.drop_drop] at h3
    rw [h5, bind_ok]
    exact ⟨n', k, h1, hn, by omega, h3, h4, rfl⟩

theorem classify_tok_str : Json.tokString = Json.Kind.str.tok := rfl

theorem anySwitch_sim {f : Nat} (hA : SArr qs cap f) (hO : SObj qs cap f) (lvl : Nat) (b : Bytes) (n : Nat) (s : PState) (c : Bool)
    (x : Nat) (xs : Bytes) (hd : b.drop n = x :: xs) (hf : 2 * (b.length - n) ≤ f) :
    SimSw (cap := cap) c b n s.currPath (Json.classify x).tok (anySwitchI qs f b lvl n x (view s cap c))
      (JsonPrefix.kindScan qs cap f lvl (Json.classify x) (x :: xs) s) := by
  obtain ⟨hlt, h4, h5, h6⟩ := peek_cons hd
  have hlen : xs.length = b.length - (n + 1) := by rw [← h6, List.length_drop]
  unfold anySwitchI
  by_cases h1 : (x == 0x22) = true
  · rw [if_pos h1]
    dsimp only
    rw [sliceFrom_nat b (n + 1) (by omega), bind_ok, view_incIb]
    have hk : Json.classify x = .str := by simp only [Json.classify, h1, if_true]
    rw [hk]
    simp only [JsonPrefix.kindScan]
    rw [← h6]
    exact SimSw.of_loop Json.tokString
      (SimLoop.of_simAt (consumeString_sim cap c (b.drop (n + 1)) s.bump) (JsonQuery.consumeString_fields _ .norm s.bump).1)
      (by omega) (by omega)
  rw [if_neg h1]
  by_cases h2 : (x == 0x5B) = true
  · rw [if_pos h2]
    dsimp only
    rw [sliceFrom_nat b (n + 1) (by omega), bind_ok, view_incIb]
    have hk : Json.classify x = .arr := by simp only [Json.classify, h1, h2, if_true, Bool.false_eq_true, if_false]
    rw [hk]
    simp only [JsonPrefix.kindScan]
    rw [← h6]
    exact SimSw.of_loop Json.tokArray
      (consumeArrayWith_sim hA (lvl + 1) (b.drop (n + 1)) s.bump c (by omega) (by rw [List.length_drop]; omega))
      (by omega) (by omega)
  rw [if_neg h2]
  by_cases h3 : (x == 0x7B) = true
  · rw [if_pos h3]
    dsimp only
    rw [sliceFrom_nat b (n + 1) (by omega), bind_ok, view_incIb]
    have hk : Json.classify x = .obj := by simp only [Json.classify, h1, h2, h3, if_true, Bool.false_eq_true, if_false]
    rw [hk]
    simp only [JsonPrefix.kindScan]
    rw [← h6]
    have := hO (lvl + 1) (b.drop (n + 1)) 0 s.bump c (by omega) (by omega) (by rw [List.length_drop]; omega)
    rw [List.drop_zero] at this
    exact SimSw.of_loop Json.tokObject this (by omega) (by omega)
  rw [if_neg h3]
  have hfc : ∀ w, (Json.consumeConst (x :: xs) w s).2.currPath = s.currPath := fun w => (JsonQuery.consumeConst_fields w (x :: xs) s).1
  by_cases h7 : (x == 0x74) = true
  · rw [if_pos h7, sliceFrom_nat b n (by omega), bind_ok]
    have hk : Json.classify x = .litT := by simp only [Json.classify, h1, h2, h3, h7, if_true, Bool.false_eq_true, if_false]
    rw [hk]
    simp only [JsonPrefix.kindScan]
    rw [← hd] at hfc ⊢
    exact SimSw.of_loop Json.tokTrue
      (SimLoop.of_simAt (consumeConst_sim cap c (b.drop n) Json.wTrue s (by decide)) (hfc _)) (by omega) (by omega)
  rw [if_neg h7]
  by_cases h8 : (x == 0x66) = true
  · rw [if_pos h8, sliceFrom_nat b n (by omega), bind_ok]
    have hk : Json.classify x = .litF := by simp only [Json.classify, h1, h2, h3, h7, h8, if_true, Bool.false_eq_true, if_false]
    rw [hk]
    simp only [JsonPrefix.kindScan]
    rw [← hd] at hfc ⊢
    exact SimSw.of_loop Json.tokFalse
      (SimLoop.of_simAt (consumeConst_sim cap c (b.drop n) Json.wFalse s (by decide)) (hfc _)) (by omega) (by omega)
  rw [if_neg h8]
  by_cases h9 : (x == 0x6E) = true
  · rw [if_pos h9, sliceFrom_nat b n (by omega), bind_ok]
    have hk : Json.classify x = .litN := by simp only [Json.classify, h1, h2, h3, h7, h8, h9, if_true, Bool.false_eq_true, if_false]
    rw [hk]
    simp only [JsonPrefix.kindScan]
    rw [← hd] at hfc ⊢
    exact SimSw.of_loop Json.tokNull
      (SimLoop.of_simAt (consumeConst_sim cap c (b.drop n) Json.wNull s (by decide)) (hfc _)) (by omega) (by omega)
  rw [if_neg h9, sliceFrom_nat b n (by omega), bind_ok]
  have hk : Json.classify x = .num := by simp only [Json.classify, h1, h2, h3, h7, h8, h9, Bool.false_eq_true, if_false]
  rw [hk]
  simp only [JsonPrefix.kindScan]
  rw [← hd]
  exact SimSw.of_loop Json.tokNumber
    (SimLoop.of_simAt (consumeNumber_sim cap c (b.drop n) s) (JsonQuery.consumeNumber_fields _ .start s).1) (by omega) (by omega)

theorem view_flags (s : PState) (c : Bool) (lvl tok : Nat) :
    (if (qs.length == 0) = true then (if (lvl == 0) = true then { view s cap c with firstToken := tok } else view s cap c).satisfy
      else (if (lvl == 0) = true then { view s cap c with firstToken := tok } else view s cap c)) =
    view ((s.setFirst lvl tok).setQ qs.isEmpty) cap c := by
  unfold PState.setFirst PState.setQ
  cases qs with
  | nil => simp only [List.length_nil, BEq.rfl, if_true, List.isEmpty_nil]; split <;> rfl
  | cons q qs' =>
    simp only [List.length_cons, Nat.add_one_ne_zero, beq_iff_eq, if_false, List.isEmpty_cons, Bool.false_eq_true]
    split <;> rfl

theorem flags_currPath (s : PState) (lvl tok : Nat) (e : Bool) : ((s.setFirst lvl tok).setQ e).currPath = s.currPath := by
  unfold PState.setFirst PState.setQ
  split <;> split <;> rfl

theorem view_complete (s : PState) (c : Bool) (lvl : Nat) :
    (if (lvl == 0) = true then { view s cap c with complete := true } else view s cap c) = view s cap (c || lvl == 0) := by
  cases hl : (lvl == 0) with
  | true => simp only [if_true, Bool.or_true]; rfl
  | false => simp only [Bool.false_eq_true, if_false, Bool.or_false]

theorem anyTail_sim (lvl : Nat) (b : Bytes) (n : Nat) (c : Bool) (path : List Bytes) (tok : Nat)
    (out : Out (Nat × Nat × Nat × St)) (res : Option Bytes × PState) (h : SimSw (cap := cap) c b n path tok out res) :
    SimAny cap c lvl b path (out >>= anyTailI qs b lvl) (Json.finishAny qs.isEmpty lvl tok res) := by
  obtain ⟨o, s2⟩ := res
  cases o with
  | none =>
    obtain ⟨n', ho⟩ := h
    rw [ho, bind_ok]
    simp only [anyTailI, Json.finishAny]
    rw [view_flags, if_pos (Nat.le_refl 0)]
    by_cases hl : lvl > 0
    · rw [if_pos hl]; exact ⟨0, fun _ => rfl, rfl⟩
    · rw [if_neg hl]; exact ⟨n', fun h => absurd h hl, rfl⟩
  | some r =>
    obtain ⟨n', rv, h1, h2, h3, h4, h5, ho⟩ := h
    rw [ho, bind_ok]
    simp only [anyTailI, Json.finishAny]
    rw [view_flags, if_neg (by omega), view_complete, sliceFrom_nat b (n' + rv) h3, bind_ok, consumeSpace_sim, bind_ok,
      consumeSpace_eq, h4, List.drop_drop]
    have hle := nsp_le (b.drop (n' + rv))
    rw [List.length_drop] at hle
    exact ⟨n' + rv + nsp (b.drop (n' + rv)), by omega, by omega, rfl, by
      show ((((s2.setFirst lvl tok).setQ qs.isEmpty).bump _).currPath = path)
      rw [← h5]; exact flags_currPath s2 lvl tok _, rfl⟩

theorem anyHead_sim {f : Nat} (hA : SArr qs cap f) (hO : SObj qs cap f) (lvl : Nat) (b : Bytes) (n : Nat) (s : PState) (c : Bool)
    (hn : n ≤ b.length) (hf : 2 * (b.length - n) ≤ f) :
    SimAny cap c lvl b s.currPath (anyHeadI qs f b lvl n (view s cap c)) (JsonPrefix.anyHead qs cap f lvl (b.drop n) s) := by
  unfold anyHeadI
  cases hd : b.drop n with
  | nil =>
    rw [peek_nil hn hd, bind_ok, ite_zero_nil]
    exact ⟨0, fun _ => rfl, rfl⟩
  | cons x xs =>
    obtain ⟨hlt, h4, h5, h6⟩ := peek_cons hd
    rw [h4, bind_ok, ite_zero_cons, h5, bind_ok]
    simp only [JsonPrefix.anyHead, JsonPrefix.finishScan]
    exact anyTail_sim lvl b n c s.currPath _ _ _ (anySwitch_sim hA hO lvl b n s c x xs hd hf)

theorem any_step {f : Nat} (hA : SArr qs cap f) (hO : SObj qs cap f) : SAny qs cap (f + 1) := by
  intro lvl b s c hf
  rw [consumeAnyI_eq, JsonPrefix.consumeAny_eq]
  rw [view_maxRecursion]
  by_cases hcap : (cap != 0 && decide (lvl > cap)) = true
  · rw [if_pos hcap, if_pos hcap]
    exact ⟨0, fun _ => rfl, rfl⟩
  · rw [if_neg hcap, if_neg hcap, spaceScan_eq]
    have e : view s cap c = view (s.enter lvl) cap c := rfl
    rw [e, consumeSpace_sim, bind_ok]
    dsimp only
    rw [Nat.zero_add]
    have hle := nsp_le b
    exact anyHead_sim hA hO lvl b (nsp b) ((s.enter lvl).bump (nsp b)) c hle (by omega)

/-- **the three container simulations, for every fuel** -/
theorem sim_all : ∀ f, SAny qs cap f ∧ SArr qs cap f ∧ SObj qs cap f := by
  intro f
  induction f with
  | zero =>
    refine ⟨?_, ?_, ?_⟩
    · intro lvl b s c h; omega
    · intro lvl b n s c _ _ h; omega
    · intro lvl b n s c _ _ h; omega
  | succ f ih =>
    obtain ⟨hV, hA, hO⟩ := ih
    exact ⟨any_step hA hO, arr_step hV hA, obj_step hV hO⟩

end sim

/-! ### `Parse` -/

/-- **refinement**: the index-level scanner never panics, never runs out of fuel, and computes
    exactly what the list model computes -/
theorem parseIdx_refines (qs : List Query) (cap : Nat) (raw : Bytes) :
    JsonIdx.parseIdx qs cap raw = .ok (Json.parseWith PState.fresh cap qs raw) := by
  have h := (sim_all (qs := qs) (cap := cap) (fuelFor raw)).1 0 raw PState.fresh false (by unfold fuelFor; omega)
  unfold JsonIdx.parseIdx Json.parseWith
  have e : JsonIdx.St.afterReset cap = view PState.fresh cap false := rfl
  have e2 : PState.fresh.reset = PState.fresh := rfl
  rw [e, e2]
  dsimp only
  generalize JsonIdx.consumeAny qs (fuelFor raw) raw 0 (view PState.fresh cap false) = out at h ⊢
  generalize Json.consumeAny qs cap (fuelFor raw) 0 raw PState.fresh = res at h ⊢
  obtain ⟨o, s'⟩ := res
  cases o with
  | none =>
    obtain ⟨k, _, ho⟩ := h
    rw [ho]
    rfl
  | some r =>
    obtain ⟨k, h1, h2, h3, _, ho⟩ := h
    rw [ho, h3]
    simp only [bind_ok, pure_ok, List.length_drop]
    have : raw.length - (raw.length - k) = k := by omega
    rw [this]
    rfl

/-- the Go scanner never indexes or slices out of range (nor pops an empty path stack) -/
theorem parseIdx_no_panic (qs : List Query) (cap : Nat) (raw : Bytes) : JsonIdx.parseIdx qs cap raw ≠ .panic := by
  rw [parseIdx_refines]; intro h; cases h

/-- every loop and the recursion of the Go scanner end within the stated fuel: `len b + 1`
    iterations for the byte loops, `2·len raw + 4` for the loops and calls of the containers -/
theorem parseIdx_terminates (qs : List Query) (cap : Nat) (raw : Bytes) : JsonIdx.parseIdx qs cap raw ≠ .fuel := by
  rw [parseIdx_refines]; intro h; cases h

/-- with the stated fuel, `consumeAny` itself (any level, any state of the pooled parser) returns
    normally: neither `panic` nor `fuel` -/
theorem consumeAny_ok (qs : List Query) (cap f lvl : Nat) (b : Bytes) (s : PState) (c : Bool) (hf : 2 * b.length + 1 ≤ f) :
    ∃ k st, JsonIdx.consumeAny qs f b lvl (view s cap c) = .ok (k, st) := by
  have h := (sim_all (qs := qs) (cap := cap) f).1 lvl b s c hf
  generalize JsonIdx.consumeAny qs f b lvl (view s cap c) = out at h ⊢
  generalize Json.consumeAny qs cap f lvl b s = res at h
  obtain ⟨o, s'⟩ := res
  cases o with
  | none => obtain ⟨k, _, ho⟩ := h; exact ⟨_, _, ho⟩
  | some r => obtain ⟨k, _, _, _, _, ho⟩ := h; exact ⟨_, _, ho⟩

/-- every Go parser state is the `view` of a list-model state -/
theorem view_surjective (p : St) : ∃ s, p = view s p.maxRecursion p.complete :=
  ⟨{ ib := p.ib, currPath := p.currPath, firstToken := p.firstToken, querySatisfied := p.querySatisfied }, rfl⟩

/-! ### sanity: the model computes, and the outcomes `panic` and `fuel` are reachable -/

section examples
open Mime.Json (tokArray tokObject tokString tokNumber)
open Mime.JsonIdx (parseIdx)

-- `[1,]`
example : parseIdx q_json 4096 [0x5B, 0x31, 0x2C, 0x5D] =
    .ok { parsed := 4, inspected := 4, firstToken := tokArray, querySatisfied := true } := by decide
-- `{"type":"Point"}` under the geo query
example : parseIdx q_geo 4096 [0x7B, 0x22, 0x74, 0x79, 0x70, 0x65, 0x22, 0x3A, 0x22, 0x50, 0x6F, 0x69, 0x6E, 0x74, 0x22, 0x7D] =
    .ok { parsed := 16, inspected := 16, firstToken := tokObject, querySatisfied := true } := by decide
-- `{"type":"L"}`: the path matches, the value does not
example : parseIdx q_geo 4096 [0x7B, 0x22, 0x74, 0x79, 0x70, 0x65, 0x22, 0x3A, 0x22, 0x4C, 0x22, 0x7D] =
    .ok { parsed := 12, inspected := 12, firstToken := tokObject, querySatisfied := false } := by decide
-- the truncated string `"\u12`
example : parseIdx q_json 4096 [0x22, 0x5C, 0x75, 0x31, 0x32] =
    .ok { parsed := 0, inspected := 5, firstToken := tokString, querySatisfied := true } := by decide
-- `[[1]]` with the recursion cap at 1
example : parseIdx q_json 1 [0x5B, 0x5B, 0x31, 0x5D, 0x5D] =
    .ok { parsed := 0, inspected := 2, firstToken := tokArray, querySatisfied := true } := by decide
-- `-1.5e+3 `
example : parseIdx q_json 4096 [0x2D, 0x31, 0x2E, 0x35, 0x65, 0x2B, 0x33, 0x20] =
    .ok { parsed := 8, inspected := 8, firstToken := tokNumber, querySatisfied := true } := by decide
-- the checked primitives do fail, and a function called outside its contract does panic / run dry
example : liftG (elemAt [1, 2] 2) = (.panic : Out Nat) := by decide
example : liftG (elemAt [1, 2] (-1)) = (.panic : Out Nat) := by decide
example : liftG (JsonIdx.slice [1, 2] 1 0) = (.panic : Out (List Nat)) := by decide
example : liftG (sliceFrom [1, 2] 3) = (.panic : Out (List Nat)) := by decide
example : popPath (St.afterReset 4096) = .panic := by decide
example : JsonIdx.arrayLoop [] 3 [0x5D] 0 1 (St.afterReset 4096) = .panic := by decide
example : JsonIdx.consumeAny [] 2 [0x5B, 0x5B, 0x5D, 0x5D] 0 (St.afterReset 4096) = .fuel := by decide
example : JsonIdx.consumeSpaceLoop 1 [0x20, 0x20] 0 (St.afterReset 4096) = .fuel := by decide
end examples

end Mime.JsonIdxLemmas
