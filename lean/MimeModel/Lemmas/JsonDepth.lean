import MimeModel.Props.C09
/-
  C16, the converse of the cap hypothesis of the forward simulation: whatever the scanner
  accepts has nesting depth within the recursion cap.

  Reading of the model (Model/Json.lean): `consumeAny … lvl` fails at once when
  `cap ≠ 0 ∧ lvl > cap`; the top-level value is scanned at `lvl = 0`; an array / object scanned
  at level `L` scans its items / member values at `L + 1`.  Hence a value (scalar or container)
  at level `L` needs `L ≤ cap`; a container with at least one child needs `L + 1 ≤ cap`; but an
  EMPTY container at level `L` needs only `L ≤ cap` although `J.depth` counts it as 1.  The
  tight bound in terms of `J.depth` is therefore

      lvl + J.depth v ≤ cap + 1

  (reached by `[[]]` at cap 1, see the examples at the end of the first section).
-/
namespace Mime.JsonDepth
open Mime Mime.Json Mime.Spec Mime.JsonLeaf Mime.JsonBack Mime.JsonForward

/-! ### small facts -/

theorem depthList_le (d : Nat) : ∀ xs : List J.JVal, (∀ x ∈ xs, J.depth x ≤ d) → J.depthList xs ≤ d
  | [], _ => by simp [J.depthList]
  | x :: xs, h => by
    simp only [J.depthList]
    have h1 := h x (by simp)
    have h2 := depthList_le d xs (fun y hy => h y (by simp [hy]))
    omega

theorem depthMembers_le (d : Nat) : ∀ ms : List (Bytes × J.JVal), (∀ m ∈ ms, J.depth m.2 ≤ d) → J.depthMembers ms ≤ d
  | [], _ => by simp [J.depthMembers]
  | (k, x) :: ms, h => by
    simp only [J.depthMembers]
    have h1 := h (k, x) (by simp)
    have h2 := depthMembers_le d ms (fun y hy => h y (by simp [hy]))
    simp only at h1
    omega

/-- a successful `finishAny` comes from a successful dispatched scanner -/
theorem finishAny_some (q : Bool) (lvl t : Nat) (res : Option Bytes × PState) (rest : Bytes)
    (h : (finishAny q lvl t res).1 = some rest) : ∃ r0, res.1 = some r0 := by
  obtain ⟨o, s'⟩ := res
  cases o with
  | none => simp [finishAny] at h
  | some r => exact ⟨r, rfl⟩

/-- the reference builds a scalar whenever the first significant byte is neither `[` nor `{` -/
theorem value_scalar (f : Nat) (b : Bytes) (c : Nat) (cs : Bytes) (v : J.JVal) (r : Bytes)
    (hy : J.skipWs b = c :: cs) (h1 : c ≠ 0x5B) (h2 : c ≠ 0x7B)
    (hv : J.value false (f + 1) b = .ok v r) : J.depth v = 0 := by
  have e1 : (c == 0x5B) = false := by simpa using h1
  have e2 : (c == 0x7B) = false := by simpa using h2
  simp only [J.value, hy, e1, e2, Bool.false_eq_true, ↓reduceIte] at hv
  repeat' split at hv
  all_goals (cases hv <;> first | rfl | simp [J.depth])

variable (qs : List Mime.Gen.Json.Query) (cap : Nat)

/-! ### the simulation with depth -/

/-- a value accepted at level `lvl` has `lvl + depth ≤ cap + 1` -/
def DAny (f : Nat) : Prop := ∀ (lvl : Nat) (b : Bytes) (s : PState) (rest : Bytes) (v : J.JVal) (r : Bytes),
  2 * b.length + 1 ≤ f → (consumeAny qs cap f lvl b s).1 = some rest → J.value false f b = .ok v r →
  lvl + J.depth v ≤ cap + 1

/-- every item collected by the array loop running at level `lvl` has `lvl + depth ≤ cap + 1` -/
def DArr (f : Nat) : Prop := ∀ (lvl : Nat) (b : Bytes) (s : PState) (acc : List J.JVal) (first : Bool)
    (rest : Bytes) (v : J.JVal) (r : Bytes),
  2 * b.length + 2 ≤ f → (arrayLoop qs cap f lvl b s).1 = some rest → J.items false f b acc first = .ok v r →
  (∀ x ∈ acc, lvl + J.depth x ≤ cap + 1) →
  ∃ xs, v = .arr xs ∧ ∀ x ∈ xs, lvl + J.depth x ≤ cap + 1

/-- every member value collected by the object loop running at level `lvl` has `lvl + depth ≤ cap + 1` -/
def DObj (f : Nat) : Prop := ∀ (lvl : Nat) (b : Bytes) (s : PState) (acc : List (Bytes × J.JVal)) (first : Bool)
    (rest : Bytes) (v : J.JVal) (r : Bytes),
  2 * b.length + 2 ≤ f → (objectLoop qs cap f lvl b s).1 = some rest → J.members false f b acc first = .ok v r →
  (∀ m ∈ acc, lvl + J.depth m.2 ≤ cap + 1) →
  ∃ ms, v = .obj ms ∧ ∀ m ∈ ms, lvl + J.depth m.2 ≤ cap + 1

theorem any_depth_step (hc : cap ≠ 0) (f : Nat) (hA : DArr qs cap f) (hO : DObj qs cap f) : DAny qs cap (f + 1) := by
  intro lvl b s rest v r hb h hv
  rw [consumeAny] at h
  split at h
  · cases h
  · rename_i hover
    have hlt : lvl ≤ cap := by
      simp only [Bool.and_eq_true, bne_iff_ne, ne_eq, decide_eq_true_eq, not_and, Nat.not_lt] at hover
      exact hover hc
    rw [consumeSpace_spec] at h
    have hle := skipWs_length_le b
    cases hy : J.skipWs b with
    | nil => rw [hy] at h; cases h
    | cons c cs =>
      rw [hy] at h hle
      simp only [List.length_cons] at hle
      simp only at h
      by_cases h5 : c = 0x5B
      · subst h5
        have hk : classify 0x5B = .arr := rfl
        simp only [hk] at h
        obtain ⟨r0, hr0⟩ := finishAny_some _ _ _ _ _ h
        cases cs with
        | nil => simp at hr0
        | cons d ds =>
          simp only [List.isEmpty_cons, Bool.false_eq_true, ↓reduceIte] at hr0
          have hspec : J.value false (f + 1) b = J.items false f (d :: ds) [] true := by
            simp only [J.value, hy]; rfl
          rw [hspec] at hv
          obtain ⟨xs, rfl, hxs⟩ := hA (lvl + 1) (d :: ds) _ [] true r0 v r
            (by simp only [List.length_cons] at hle ⊢; omega) hr0 hv (by simp)
          have := depthList_le (cap - lvl) xs (fun x hx => by have := hxs x hx; omega)
          simp only [J.depth]; omega
      · by_cases h7 : c = 0x7B
        · subst h7
          have hk : classify 0x7B = .obj := rfl
          simp only [hk] at h
          obtain ⟨r0, hr0⟩ := finishAny_some _ _ _ _ _ h
          have hspec : J.value false (f + 1) b = J.members false f cs [] true := by
            simp only [J.value, hy]; rfl
          rw [hspec] at hv
          obtain ⟨ms, rfl, hms⟩ := hO (lvl + 1) cs _ [] true r0 v r (by omega) hr0 hv (by simp)
          have := depthMembers_le (cap - lvl) ms (fun x hx => by have := hms x hx; omega)
          simp only [J.depth]; omega
        · rw [value_scalar f b c cs v r hy h5 h7 hv]; omega

theorem arr_depth_step (f : Nat) (hV : DAny qs cap f) (hA : DArr qs cap f) : DArr qs cap (f + 1) := by
  intro lvl b s acc first rest v r hb h hv hacc
  rw [arrayLoop, consumeSpace_spec] at h
  rw [J.items] at hv
  have hle := skipWs_length_le b
  cases hy : J.skipWs b with
  | nil => rw [hy] at h; cases h
  | cons c cs =>
    rw [hy] at h hv hle
    simp only [List.length_cons] at hle
    simp only at h hv
    generalize s.bump (b.length - (c :: cs).length) = s1 at h
    by_cases hc : c = 0x5D
    · subst hc
      simp only [beq_self_eq_true, Bool.not_false, Bool.or_true, Bool.and_self, ↓reduceIte, J.R.ok.injEq] at hv
      exact ⟨_, hv.1.symm, fun x hx => hacc x (List.mem_reverse.mp hx)⟩
    · have hc' : (c == 0x5D) = false := by simpa using hc
      simp only [hc', Bool.false_eq_true, ↓reduceIte, Bool.false_and] at h hv
      have ib := (back_all qs cap f).1 lvl (c :: cs) s1 (by simp only [List.length_cons]; omega)
      have id := hV lvl (c :: cs) s1
      generalize consumeAny qs cap f lvl (c :: cs) s1 = res at h ib id
      obtain ⟨o, s2⟩ := res
      cases o with
      | none => cases h
      | some r2 =>
        obtain ⟨⟨v', hv'⟩, _, i3⟩ := ib
        simp only [List.length_cons] at i3
        rcases valueWs_cases f (c :: cs) with ⟨v'', r0, h1, h2⟩ | ⟨h1, h2⟩ | ⟨h1, h2⟩
        · rw [h2] at hv'
          simp only [J.R.ok.injEq] at hv'
          obtain ⟨rfl, hr⟩ := hv'
          have hd := id r2 v'' r0 (by simp only [List.length_cons]; omega) rfl h1
          rw [h1] at hv
          simp only at hv
          rw [hr] at hv
          have hacc' : ∀ x ∈ v'' :: acc, lvl + J.depth x ≤ cap + 1 := by
            intro x hx
            rcases List.mem_cons.mp hx with rfl | hx
            · exact hd
            · exact hacc x hx
          cases r2 with
          | nil => cases h
          | cons d ds =>
            simp only at h hv
            simp only [List.length_cons] at i3
            by_cases hd1 : d = 0x2C
            · subst hd1
              simp only [beq_self_eq_true, ↓reduceIte] at h hv
              exact hA lvl ds s2.bump (v'' :: acc) false rest v r (by omega) h hv hacc'
            · have hd1' : (d == 0x2C) = false := by simpa using hd1
              simp only [hd1', Bool.false_eq_true, ↓reduceIte] at h hv
              by_cases hd2 : d = 0x5D
              · subst hd2
                simp only [beq_self_eq_true, ↓reduceIte, J.R.ok.injEq] at hv
                exact ⟨_, hv.1.symm, fun x hx => hacc' x (List.mem_reverse.mp hx)⟩
              · have hd2' : (d == 0x5D) = false := by simpa using hd2
                simp only [hd2', Bool.false_eq_true, ↓reduceIte] at h
                cases h
        · rw [h2] at hv'; cases hv'
        · rw [h2] at hv'; cases hv'

theorem obj_depth_step (f : Nat) (hV : DAny qs cap f) (hO : DObj qs cap f) : DObj qs cap (f + 1) := by
  intro lvl b s acc first rest v r hb h hv hacc
  rw [objectLoop, consumeSpace_spec] at h
  rw [J.members] at hv
  have hle := skipWs_length_le b
  cases hy : J.skipWs b with
  | nil => rw [hy] at h; cases h
  | cons c cs =>
    rw [hy] at h hv hle
    simp only [List.length_cons] at hle
    simp only at h hv
    generalize s.bump (b.length - (c :: cs).length) = s1 at h
    by_cases hc : c = 0x7D
    · subst hc
      simp only [beq_self_eq_true, Bool.not_false, Bool.or_true, Bool.and_self, ↓reduceIte, J.R.ok.injEq] at hv
      exact ⟨_, hv.1.symm, fun x hx => hacc x (List.mem_reverse.mp hx)⟩
    · have hc' : (c == 0x7D) = false := by simpa using hc
      simp only [hc', Bool.false_eq_true, ↓reduceIte, Bool.false_and] at h hv
      by_cases hq : c = 0x22
      · subst hq
        simp only [bne_self_eq_false, Bool.false_eq_true, ↓reduceIte] at h hv
        -- the key
        have ik := str_back cs [] s1.bump
        generalize consumeString .norm cs s1.bump = resk at h ik
        obtain ⟨ok, s2⟩ := resk
        cases ok with
        | none => cases h
        | some rk =>
          obtain ⟨⟨k, hk⟩, _, i3⟩ := ik
          rw [hk] at hv
          simp only at h hv
          rw [consumeSpace_spec] at h
          have hler := skipWs_length_le rk
          generalize (s2.push (consumed cs rk).dropLast).bump (rk.length - (J.skipWs rk).length) = s4 at h
          generalize (if (s2.push (consumed cs rk).dropLast).querySatisfied = true then none
            else queryPathMatch qs (s2.push (consumed cs rk).dropLast).currPath) = qm at h
          cases hyr : J.skipWs rk with
          | nil => rw [hyr] at h; cases h
          | cons d ds =>
            rw [hyr] at h hv hler
            simp only [List.length_cons] at hler
            simp only at h hv
            by_cases hd : d = 0x3A
            · subst hd
              simp only [bne_self_eq_false, Bool.false_eq_true, ↓reduceIte] at h hv
              rw [consumeSpace_spec] at h
              rw [value_skipWs] at hv
              have hled := skipWs_length_le ds
              generalize s4.bump.bump (ds.length - (J.skipWs ds).length) = s5 at h
              cases hyd : J.skipWs ds with
              | nil => rw [hyd] at h; cases h
              | cons e es =>
                rw [hyd] at h hv hled
                simp only [List.length_cons] at hled
                simp only at h
                have ib := (back_all qs cap f).1 lvl (e :: es) s5 (by simp only [List.length_cons]; omega)
                have id := hV lvl (e :: es) s5
                generalize consumeAny qs cap f lvl (e :: es) s5 = res at h ib id
                obtain ⟨o, s6⟩ := res
                cases o with
                | none => cases h
                | some r2 =>
                  obtain ⟨⟨v', hv'⟩, _, j3⟩ := ib
                  simp only [List.length_cons] at j3
                  rcases valueWs_cases f (e :: es) with ⟨v'', r0, h1, h2⟩ | ⟨h1, h2⟩ | ⟨h1, h2⟩
                  · rw [h2] at hv'
                    simp only [J.R.ok.injEq] at hv'
                    obtain ⟨rfl, hr⟩ := hv'
                    have hdv := id r2 v'' r0 (by simp only [List.length_cons]; omega) rfl h1
                    rw [h1] at hv
                    simp only at hv
                    rw [hr] at hv
                    have hacc' : ∀ m ∈ (k, v'') :: acc, lvl + J.depth m.2 ≤ cap + 1 := by
                      intro m hm
                      rcases List.mem_cons.mp hm with rfl | hm
                      · exact hdv
                      · exact hacc m hm
                    cases r2 with
                    | nil => cases h
                    | cons g gs =>
                      simp only at h hv
                      simp only [List.length_cons] at j3
                      by_cases hg : g = 0x2C
                      · subst hg
                        simp only [beq_self_eq_true, ↓reduceIte] at h hv
                        exact hO lvl gs _ ((k, v'') :: acc) false rest v r (by omega) h hv hacc'
                      · have hg' : (g == 0x2C) = false := by simpa using hg
                        simp only [hg', Bool.false_eq_true, ↓reduceIte] at h hv
                        by_cases hg2 : g = 0x7D
                        · subst hg2
                          simp only [beq_self_eq_true, ↓reduceIte, J.R.ok.injEq] at hv
                          exact ⟨_, hv.1.symm, fun x hx => hacc' x (List.mem_reverse.mp hx)⟩
                        · have hg2' : (g == 0x7D) = false := by simpa using hg2
                          simp only [hg2', Bool.false_eq_true, ↓reduceIte] at h
                          cases h
                  · rw [h2] at hv'; cases hv'
                  · rw [h2] at hv'; cases hv'
            · have hd' : (d != 0x3A) = true := by simpa using hd
              simp only [hd', ↓reduceIte] at h
              cases h
      · have hq' : (c != 0x22) = true := by simpa using hq
        simp only [hq', ↓reduceIte] at h
        cases h

/-- **the simulation with depth, for every fuel** (one conjunction over the three container scanners) -/
theorem depth_all (hc : cap ≠ 0) : ∀ f, DAny qs cap f ∧ DArr qs cap f ∧ DObj qs cap f := by
  intro f
  induction f with
  | zero => refine ⟨?_, ?_, ?_⟩ <;> intro lvl b s <;> intros <;> omega
  | succ f ih =>
    obtain ⟨hV, hA, hO⟩ := ih
    exact ⟨any_depth_step qs cap hc f hA hO, arr_depth_step qs cap f hV hA, obj_depth_step qs cap f hV hO⟩

/-- **values**: what `consumeAny` accepts at level `lvl` (non-zero cap, enough fuel) the relaxed reference
    accepts with a tree `v`, the same rest up to white space, and `lvl + depth v ≤ cap + 1` -/
theorem accepted_depth (hc : cap ≠ 0) (f lvl : Nat) (b : Bytes) (s : PState) (rest : Bytes)
    (hf : 2 * b.length + 1 ≤ f) (h : (consumeAny qs cap f lvl b s).1 = some rest) :
    ∃ v r, J.value false f b = .ok v r ∧ J.skipWs r = rest ∧ lvl + J.depth v ≤ cap + 1 := by
  have hd := fun v r => (depth_all qs cap hc f).1 lvl b s rest v r hf h
  have hb := (back_all qs cap f).1 lvl b s hf
  generalize consumeAny qs cap f lvl b s = res at h hb
  obtain ⟨o, s'⟩ := res
  simp only at h
  subst h
  obtain ⟨⟨v, hv⟩, _, _⟩ := hb
  rcases valueWs_cases f b with ⟨v', r0, e1, e2⟩ | ⟨e1, e2⟩ | ⟨e1, e2⟩
  · rw [e2] at hv
    simp only [J.R.ok.injEq] at hv
    exact ⟨v', r0, e1, hv.2, hd v' r0 e1⟩
  · rw [e2] at hv; cases hv
  · rw [e2] at hv; cases hv

/-- **arrays**: every item the array loop (running at level `lvl`) collects has `lvl + depth ≤ cap + 1` -/
theorem accepted_items_depth (hc : cap ≠ 0) (f lvl : Nat) (b : Bytes) (s : PState) (acc : List J.JVal) (first : Bool)
    (rest : Bytes) (hf : 2 * b.length + 2 ≤ f) (h : (arrayLoop qs cap f lvl b s).1 = some rest)
    (hacc : ∀ x ∈ acc, lvl + J.depth x ≤ cap + 1) :
    ∃ xs, J.items false f b acc first = .ok (.arr xs) rest ∧ ∀ x ∈ xs, lvl + J.depth x ≤ cap + 1 := by
  have hd := fun v r => (depth_all qs cap hc f).2.1 lvl b s acc first rest v r hf h
  have hb := (back_all qs cap f).2.1 lvl b s acc first hf
  generalize arrayLoop qs cap f lvl b s = res at h hb
  obtain ⟨o, s'⟩ := res
  simp only at h
  subst h
  obtain ⟨⟨v, hv⟩, _, _⟩ := hb
  obtain ⟨xs, rfl, hxs⟩ := hd v rest hv hacc
  exact ⟨xs, hv, hxs⟩

/-- **objects**: every member value the object loop (running at level `lvl`) collects has `lvl + depth ≤ cap + 1` -/
theorem accepted_members_depth (hc : cap ≠ 0) (f lvl : Nat) (b : Bytes) (s : PState) (acc : List (Bytes × J.JVal))
    (first : Bool) (rest : Bytes) (hf : 2 * b.length + 2 ≤ f) (h : (objectLoop qs cap f lvl b s).1 = some rest)
    (hacc : ∀ m ∈ acc, lvl + J.depth m.2 ≤ cap + 1) :
    ∃ ms, J.members false f b acc first = .ok (.obj ms) rest ∧ ∀ m ∈ ms, lvl + J.depth m.2 ≤ cap + 1 := by
  have hd := fun v r => (depth_all qs cap hc f).2.2 lvl b s acc first rest v r hf h
  have hb := (back_all qs cap f).2.2 lvl b s acc first hf
  generalize objectLoop qs cap f lvl b s = res at h hb
  obtain ⟨o, s'⟩ := res
  simp only at h
  subst h
  obtain ⟨⟨v, hv⟩, _, _⟩ := hb
  obtain ⟨ms, rfl, hms⟩ := hd v rest hv hacc
  exact ⟨ms, hv, hms⟩

/- tightness at cap 1: `[[]]` (depth 2 = cap + 1) is accepted, `[[[]]]` (depth 3 = cap + 2) is rejected;
   with a child in the innermost array the limit is one lower: `[1]` accepted, `[[1]]` rejected -/
example : (consumeAny [] 1 20 0 [0x5B, 0x5B, 0x5D, 0x5D] PState.fresh).1 = some [] ∧
    (J.doc false [0x5B, 0x5B, 0x5D, 0x5D]).map J.depth = some 2 := by decide
example : (consumeAny [] 1 20 0 [0x5B, 0x5B, 0x5B, 0x5D, 0x5D, 0x5D] PState.fresh).1 = none ∧
    (J.doc false [0x5B, 0x5B, 0x5B, 0x5D, 0x5D, 0x5D]).map J.depth = some 3 := by decide
example : (consumeAny [] 1 20 0 [0x5B, 0x31, 0x5D] PState.fresh).1 = some [] ∧
    (consumeAny [] 1 20 0 [0x5B, 0x5B, 0x31, 0x5D, 0x5D] PState.fresh).1 = none := by decide

/-! ### property level -/

omit qs cap in
/-- **C16**: a fully examined input that is reported as JSON (any of the four detectors, any query) is a
    relaxed document whose nesting depth is at most cap + 1 (tight: see the `decide` examples below and after `tower_not_reported`) — so
    anything nested deeper is not reported -/
theorem reported_depth_le (cap : Nat) (hc : cap ≠ 0) (raw : Bytes) (lim : Nat) (qs : List Gen.Json.Query) (w : Nat)
    (h : jsonHelperCap cap raw lim qs w = true) (hw : lim = 0 ∨ raw.length < lim) :
    ∃ v, J.doc false raw = some v ∧ J.depth v ≤ cap + 1 := by
  obtain ⟨hl, hrun⟩ := Mime.C09.helper_inv cap raw lim qs w h
  simp only at hrun
  have hcond : (lim == 0 || decide (raw.length < lim)) = true := by
    rcases hw with h0 | h1
    · simp [h0]
    · simp [h1]
  rw [if_pos hcond] at hrun
  have hne : raw ≠ [] := by
    intro e; subst e; simp [looksLikeObjectOrArray] at hl
  have hpos : 0 < raw.length := List.length_pos_iff.mpr hne
  cases hr : (consumeAny qs cap (fuelFor raw) 0 raw PState.fresh.reset).1 with
  | none => rw [hr] at hrun; simp only at hrun; omega
  | some rest =>
    rw [hr] at hrun
    simp only at hrun
    obtain ⟨v, r0, hv, hws, hd⟩ := accepted_depth qs cap hc (fuelFor raw) 0 raw PState.fresh.reset rest
      (by simp [fuelFor]) hr
    have hb := (back_all qs cap (fuelFor raw)).1 0 raw PState.fresh.reset (by simp [fuelFor])
    generalize consumeAny qs cap (fuelFor raw) 0 raw PState.fresh.reset = run at hr hb
    obtain ⟨o, s'⟩ := run
    simp only at hr
    subst hr
    obtain ⟨_, _, h3⟩ := hb
    have hrest : rest = [] := List.eq_nil_of_length_eq_zero (by omega)
    subst hrest
    obtain ⟨c, hc1, hc2⟩ := Mime.C09.firstNonWs_of_looksLike raw hl
    refine ⟨v, ?_, by omega⟩
    unfold J.doc
    simp only [hc1, hc2, Bool.false_eq_true, ↓reduceIte]
    have hff : J.fuelFor raw = fuelFor raw := rfl
    rw [hff, hv]
    simp [hws]

omit qs cap in
/-- **C16, contrapositive**: a relaxed document nested deeper than cap + 1 is not reported, whatever the
    query, the wanted token and the length of the input -/
theorem over_cap_not_reported (cap : Nat) (hc : cap ≠ 0) (raw : Bytes) (lim : Nat) (qs : List Gen.Json.Query) (w : Nat)
    (hw : lim = 0 ∨ raw.length < lim) (v : J.JVal) (hdoc : J.doc false raw = some v) (hdeep : cap + 1 < J.depth v) :
    jsonHelperCap cap raw lim qs w = false := by
  cases hh : jsonHelperCap cap raw lim qs w with
  | false => rfl
  | true =>
    obtain ⟨v', h1, h2⟩ := reported_depth_le cap hc raw lim qs w hh hw
    rw [hdoc] at h1
    simp only [Option.some.injEq] at h1
    subst h1
    omega

theorem maxRecursion_ne_zero : Gen.Json.maxRecursion ≠ 0 := by decide

omit qs cap in
/-- the instance for the detectors as wired in text.go (cap = `maxRecursion` = 4096) -/
theorem reported_depth_le_real (raw : Bytes) (lim : Nat) (qs : List Gen.Json.Query) (w : Nat)
    (h : jsonHelper raw lim qs w = true) (hw : lim = 0 ∨ raw.length < lim) :
    ∃ v, J.doc false raw = some v ∧ J.depth v ≤ Gen.Json.maxRecursion + 1 := by
  rw [Mime.C09.jsonHelper_eq] at h
  exact reported_depth_le _ maxRecursion_ne_zero raw lim qs w h hw

omit qs cap in
theorem over_cap_not_reported_real (raw : Bytes) (lim : Nat) (qs : List Gen.Json.Query) (w : Nat)
    (hw : lim = 0 ∨ raw.length < lim) (v : J.JVal) (hdoc : J.doc false raw = some v)
    (hdeep : Gen.Json.maxRecursion + 1 < J.depth v) : jsonHelper raw lim qs w = false := by
  rw [Mime.C09.jsonHelper_eq]
  exact over_cap_not_reported _ maxRecursion_ne_zero raw lim qs w hw v hdoc hdeep

/- tightness at the property level, cap 1: depth 2 reported, depth 3 not -/
example : jsonHelperCap 1 [0x5B, 0x5B, 0x5D, 0x5D] 0 Gen.Json.q_json (tokObject ||| tokArray) = true := by decide
example : jsonHelperCap 1 [0x5B, 0x5B, 0x5B, 0x5D, 0x5D, 0x5D] 0 Gen.Json.q_json (tokObject ||| tokArray) = false := by decide

/-! ### stronger: no assumption on the limit

  If the input is truncated (`lim ≤ raw.length`) the helper asks for `inspected = raw.length`.  A run that
  fails on a complete relaxed document never inspects every byte (backward simulation: a failure that
  inspected everything means the reference says `more`), and a run that succeeds obeys the depth bound. -/

theorem doc_inv (raw : Bytes) (v : J.JVal) (h : J.doc false raw = some v) :
    ∃ r, J.value false (J.fuelFor raw) raw = .ok v r ∧ J.skipWs r = [] := by
  unfold J.doc at h
  split at h
  · split at h
    · cases h
    · split at h
      · split at h
        · rename_i v' r heq hemp
          simp only [Option.some.injEq] at h
          subst h
          exact ⟨r, heq, by simpa [List.isEmpty_iff] using hemp⟩
        · cases h
      · cases h
  · cases h

omit qs cap in
/-- **C16, full strength**: a relaxed document nested deeper than cap + 1 is not reported — for every limit
    (whether or not the input was truncated), query, wanted token and input length -/
theorem over_cap_never_reported (cap : Nat) (hc : cap ≠ 0) (raw : Bytes) (lim : Nat) (qs : List Gen.Json.Query) (w : Nat)
    (v : J.JVal) (hdoc : J.doc false raw = some v) (hdeep : cap + 1 < J.depth v) :
    jsonHelperCap cap raw lim qs w = false := by
  cases hh : jsonHelperCap cap raw lim qs w with
  | false => rfl
  | true =>
    exfalso
    obtain ⟨hl, hrun⟩ := Mime.C09.helper_inv cap raw lim qs w hh
    simp only at hrun
    obtain ⟨r, hv, hr⟩ := doc_inv raw v hdoc
    have hff : J.fuelFor raw = fuelFor raw := rfl
    rw [hff] at hv
    have hne : raw ≠ [] := by
      intro e; subst e; simp [looksLikeObjectOrArray] at hl
    have hpos : 0 < raw.length := List.length_pos_iff.mpr hne
    cases hr1 : (consumeAny qs cap (fuelFor raw) 0 raw PState.fresh.reset).1 with
    | some rest =>
      obtain ⟨v', r', hv', _, hd⟩ := accepted_depth qs cap hc (fuelFor raw) 0 raw PState.fresh.reset rest
        (by simp [fuelFor]) hr1
      rw [hv] at hv'
      simp only [J.R.ok.injEq] at hv'
      rw [← hv'.1] at hd
      omega
    | none =>
      have hb := (back_all qs cap (fuelFor raw)).1 0 raw PState.fresh.reset (by simp [fuelFor])
      generalize consumeAny qs cap (fuelFor raw) 0 raw PState.fresh.reset = run at hr1 hrun hb
      obtain ⟨o, s'⟩ := run
      simp only at hr1
      subst hr1
      split at hrun
      · simp only at hrun; omega
      · obtain ⟨_, h2⟩ := hb
        have h0 : PState.fresh.reset.ib = 0 := rfl
        have := h2 (by simp only at hrun; rw [hrun, h0]; omega)
        rw [valueWs, hv] at this
        cases this

omit qs cap in
theorem over_cap_never_reported_real (raw : Bytes) (lim : Nat) (qs : List Gen.Json.Query) (w : Nat)
    (v : J.JVal) (hdoc : J.doc false raw = some v) (hdeep : Gen.Json.maxRecursion + 1 < J.depth v) :
    jsonHelper raw lim qs w = false := by
  rw [Mime.C09.jsonHelper_eq]
  exact over_cap_never_reported _ maxRecursion_ne_zero raw lim qs w v hdoc hdeep

/-! ### a concrete family: towers of brackets -/

/-- `[`ⁿ `]`ⁿ followed by `rest` -/
def tower : Nat → Bytes → Bytes
  | 0, rest => rest
  | n + 1, rest => 0x5B :: tower n (0x5D :: rest)

/-- the tree of `[`ⁿ⁺¹ `]`ⁿ⁺¹ -/
def towerVal : Nat → J.JVal
  | 0 => .arr []
  | n + 1 => .arr [towerVal n]

theorem tower_eq (n : Nat) : ∀ rest, tower n rest = List.replicate n 0x5B ++ List.replicate n 0x5D ++ rest := by
  induction n with
  | zero => intro rest; rfl
  | succ n ih =>
    intro rest
    rw [tower, ih, List.replicate_succ, List.replicate_succ' (n := n) (a := 0x5D)]
    simp

theorem tower_length (n : Nat) : ∀ rest, (tower n rest).length = 2 * n + rest.length := by
  induction n with
  | zero => intro rest; simp [tower]
  | succ n ih => intro rest; simp only [tower, List.length_cons, ih]; omega

theorem depth_towerVal (n : Nat) : J.depth (towerVal n) = n + 1 := by
  induction n with
  | zero => rfl
  | succ n ih => simp only [towerVal, J.depth, J.depthList, ih]; omega

theorem skipWs_nonws (c : Nat) (xs : Bytes) (h : J.ws c = false) : J.skipWs (c :: xs) = c :: xs := by
  simp [J.skipWs, h]

theorem value_open (f : Nat) (xs : Bytes) : J.value false (f + 1) (0x5B :: xs) = J.items false f xs [] true := by
  simp only [J.value, skipWs_nonws 0x5B xs rfl]; rfl

theorem items_close (f : Nat) (xs : Bytes) (acc : List J.JVal) (first : Bool) :
    J.items false (f + 1) (0x5D :: xs) acc first = .ok (.arr acc.reverse) xs := by
  simp [J.items, skipWs_nonws 0x5D xs rfl]

/-- one nested array item followed by `]` -/
theorem items_one (f : Nat) (xs r : Bytes) (v : J.JVal) (acc : List J.JVal) (first : Bool)
    (h : J.value false f (0x5B :: xs) = .ok v (0x5D :: r)) :
    J.items false (f + 1) (0x5B :: xs) acc first = .ok (.arr (v :: acc).reverse) r := by
  simp [J.items, skipWs_nonws 0x5B xs rfl, h, skipWs_nonws 0x5D r rfl]

/-- the reference reads a tower of `n + 1` brackets as the tree of depth `n + 1`, with fuel `2 (n + 1)` -/
theorem value_tower (n : Nat) : ∀ (f : Nat) (rest : Bytes), 2 * (n + 1) ≤ f →
    J.value false f (tower (n + 1) rest) = .ok (towerVal n) rest := by
  induction n with
  | zero =>
    intro f rest hf
    obtain ⟨f', rfl⟩ : ∃ f', f = f' + 1 + 1 := ⟨f - 2, by omega⟩
    show J.value false (f' + 1 + 1) (0x5B :: 0x5D :: rest) = _
    rw [value_open, items_close]; rfl
  | succ n ih =>
    intro f rest hf
    obtain ⟨f', rfl⟩ : ∃ f', f = f' + 1 + 1 := ⟨f - 2, by omega⟩
    have h1 := ih f' (0x5D :: rest) (by omega)
    show J.value false (f' + 1 + 1) (0x5B :: 0x5B :: tower n (0x5D :: 0x5D :: rest)) = _
    rw [value_open, items_one f' (tower n (0x5D :: 0x5D :: rest)) rest (towerVal n) [] true h1]; rfl

/-- **towers are documents of depth n**: `[`ⁿ `]`ⁿ (n ≥ 1) is a relaxed document whose tree has depth `n` -/
theorem doc_tower (n : Nat) : ∃ v, J.doc false (tower (n + 1) []) = some v ∧ J.depth v = n + 1 := by
  refine ⟨towerVal n, ?_, depth_towerVal n⟩
  have hv := value_tower n (J.fuelFor (tower (n + 1) [])) []
    (by simp only [J.fuelFor, tower_length, List.length_nil]; omega)
  unfold J.doc
  rw [hv]
  simp [J.firstNonWs, tower, skipWs_nonws 0x5B _ rfl, J.skipWs]

/-- the same on the literal byte string -/
theorem doc_tower_replicate (n : Nat) (hn : 0 < n) :
    ∃ v, J.doc false (List.replicate n 0x5B ++ List.replicate n 0x5D) = some v ∧ J.depth v = n := by
  obtain ⟨m, rfl⟩ : ∃ m, n = m + 1 := ⟨n - 1, by omega⟩
  have := doc_tower m
  rw [tower_eq, List.append_nil] at this
  exact this

omit qs cap in
/-- **"millions of nested brackets"**: a tower of more than cap + 1 brackets is never reported as JSON, for
    every height, every limit (truncated or not), query and wanted token -/
theorem tower_not_reported (cap : Nat) (hc : cap ≠ 0) (n : Nat) (hn : cap + 1 < n) (lim : Nat)
    (qs : List Gen.Json.Query) (w : Nat) :
    jsonHelperCap cap (List.replicate n 0x5B ++ List.replicate n 0x5D) lim qs w = false := by
  obtain ⟨v, hdoc, hd⟩ := doc_tower_replicate n (by omega)
  exact over_cap_never_reported cap hc _ lim qs w v hdoc (by omega)

omit qs cap in
/-- for the detectors as wired: more than 4097 nested brackets are never reported -/
theorem tower_not_reported_real (n : Nat) (hn : Gen.Json.maxRecursion + 1 < n) (lim : Nat)
    (qs : List Gen.Json.Query) (w : Nat) :
    jsonHelper (List.replicate n 0x5B ++ List.replicate n 0x5D) lim qs w = false := by
  rw [Mime.C09.jsonHelper_eq]
  exact tower_not_reported _ maxRecursion_ne_zero n hn lim qs w

/- the bound is reached: at cap 2 the tower of height 3 = cap + 1 is reported, height 4 is not -/
example : jsonHelperCap 2 (List.replicate 3 0x5B ++ List.replicate 3 0x5D) 0 Gen.Json.q_json (tokObject ||| tokArray) = true := by
  decide
example : jsonHelperCap 2 (List.replicate 4 0x5B ++ List.replicate 4 0x5D) 0 Gen.Json.q_json (tokObject ||| tokArray) = false := by
  decide

/-! ### the same for towers of objects: (`{"k":`)ⁿ `{}` `}`ⁿ -/

/-- the five bytes `{"k":` -/
def okey : Bytes := [0x7B, 0x22, 0x6B, 0x22, 0x3A]

/-- (`{"k":`)ⁿ `{}` `}`ⁿ followed by `rest` -/
def otower : Nat → Bytes → Bytes
  | 0, rest => 0x7B :: 0x7D :: rest
  | n + 1, rest => 0x7B :: 0x22 :: 0x6B :: 0x22 :: 0x3A :: otower n (0x7D :: rest)

def otowerVal : Nat → J.JVal
  | 0 => .obj []
  | n + 1 => .obj [([0x6B], otowerVal n)]

theorem otower_eq (n : Nat) : ∀ rest,
    otower n rest = (List.replicate n okey).flatten ++ [0x7B, 0x7D] ++ List.replicate n 0x7D ++ rest := by
  induction n with
  | zero => intro rest; rfl
  | succ n ih =>
    intro rest
    rw [otower, ih, List.replicate_succ, List.replicate_succ' (n := n) (a := 0x7D)]
    simp [okey]

theorem otower_length (n : Nat) : ∀ rest, (otower n rest).length = 6 * n + 2 + rest.length := by
  induction n with
  | zero => intro rest; simp only [otower, List.length_cons]; omega
  | succ n ih => intro rest; simp only [otower, List.length_cons, ih]; omega

theorem otower_head (n : Nat) (rest : Bytes) : ∃ xs, otower n rest = 0x7B :: xs := by
  cases n <;> exact ⟨_, rfl⟩

theorem depth_otowerVal (n : Nat) : J.depth (otowerVal n) = n + 1 := by
  induction n with
  | zero => rfl
  | succ n ih => simp only [otowerVal, J.depth, J.depthMembers, ih]; omega

theorem value_oopen (f : Nat) (xs : Bytes) : J.value false (f + 1) (0x7B :: xs) = J.members false f xs [] true := by
  simp only [J.value, skipWs_nonws 0x7B xs rfl]; rfl

theorem members_close (f : Nat) (xs : Bytes) (acc : List (Bytes × J.JVal)) (first : Bool) :
    J.members false (f + 1) (0x7D :: xs) acc first = .ok (.obj acc.reverse) xs := by
  simp [J.members, skipWs_nonws 0x7D xs rfl]

theorem str_k (xs : Bytes) : J.str false (0x6B :: 0x22 :: xs) [] = .ok [0x6B] xs := by
  rw [J.str.eq_def]
  simp only [beq_iff_eq, Nat.reduceEqDiff, ↓reduceIte, Bool.false_and, Bool.false_eq_true]
  rw [J.str.eq_def]
  simp

/-- one member `"k": v` followed by `}` -/
theorem members_one (f : Nat) (ds r : Bytes) (v : J.JVal) (acc : List (Bytes × J.JVal)) (first : Bool)
    (h : J.value false f ds = .ok v (0x7D :: r)) :
    J.members false (f + 1) (0x22 :: 0x6B :: 0x22 :: 0x3A :: ds) acc first = .ok (.obj (([0x6B], v) :: acc).reverse) r := by
  simp [J.members, skipWs_nonws 0x22 _ rfl, skipWs_nonws 0x3A _ rfl, skipWs_nonws 0x7D _ rfl, str_k, h]

theorem value_otower (n : Nat) : ∀ (f : Nat) (rest : Bytes), 2 * (n + 1) ≤ f →
    J.value false f (otower n rest) = .ok (otowerVal n) rest := by
  induction n with
  | zero =>
    intro f rest hf
    obtain ⟨f', rfl⟩ : ∃ f', f = f' + 1 + 1 := ⟨f - 2, by omega⟩
    show J.value false (f' + 1 + 1) (0x7B :: 0x7D :: rest) = _
    rw [value_oopen, members_close]; rfl
  | succ n ih =>
    intro f rest hf
    obtain ⟨f', rfl⟩ : ∃ f', f = f' + 1 + 1 := ⟨f - 2, by omega⟩
    have h1 := ih f' (0x7D :: rest) (by omega)
    show J.value false (f' + 1 + 1) (0x7B :: 0x22 :: 0x6B :: 0x22 :: 0x3A :: otower n (0x7D :: rest)) = _
    rw [value_oopen, members_one f' _ rest (otowerVal n) [] true h1]; rfl

/-- (`{"k":`)ⁿ `{}` `}`ⁿ is a relaxed document whose tree has depth `n + 1` -/
theorem doc_otower (n : Nat) : ∃ v, J.doc false (otower n []) = some v ∧ J.depth v = n + 1 := by
  refine ⟨otowerVal n, ?_, depth_otowerVal n⟩
  have hv := value_otower n (J.fuelFor (otower n [])) []
    (by simp only [J.fuelFor, otower_length, List.length_nil]; omega)
  unfold J.doc
  rw [hv]
  obtain ⟨xs, hxs⟩ := otower_head n []
  simp [J.firstNonWs, hxs, skipWs_nonws 0x7B _ rfl, J.skipWs]

omit qs cap in
/-- an object tower with more than cap + 1 levels (n + 1 > cap + 1) is never reported -/
theorem otower_not_reported (cap : Nat) (hc : cap ≠ 0) (n : Nat) (hn : cap < n) (lim : Nat)
    (qs : List Gen.Json.Query) (w : Nat) :
    jsonHelperCap cap ((List.replicate n okey).flatten ++ [0x7B, 0x7D] ++ List.replicate n 0x7D) lim qs w = false := by
  obtain ⟨v, hdoc, hd⟩ := doc_otower n
  rw [otower_eq, List.append_nil] at hdoc
  exact over_cap_never_reported cap hc _ lim qs w v hdoc (by omega)

omit qs cap in
theorem otower_not_reported_real (n : Nat) (hn : Gen.Json.maxRecursion < n) (lim : Nat)
    (qs : List Gen.Json.Query) (w : Nat) :
    jsonHelper ((List.replicate n okey).flatten ++ [0x7B, 0x7D] ++ List.replicate n 0x7D) lim qs w = false := by
  rw [Mime.C09.jsonHelper_eq]
  exact otower_not_reported _ maxRecursion_ne_zero n hn lim qs w

/- at cap 2: two levels of `{"k":` around `{}` (depth 3 = cap + 1) are reported, three are not -/
example : jsonHelperCap 2 ((List.replicate 2 okey).flatten ++ [0x7B, 0x7D] ++ List.replicate 2 0x7D) 0
    Gen.Json.q_json (tokObject ||| tokArray) = true := by decide
example : jsonHelperCap 2 ((List.replicate 3 okey).flatten ++ [0x7B, 0x7D] ++ List.replicate 3 0x7D) 0
    Gen.Json.q_json (tokObject ||| tokArray) = false := by decide

end Mime.JsonDepth
