import MimeModel.Lemmas.JsonForward
/-
  What a successful run of the scanner on an RFC 8259 value does to `currPath` and
  `querySatisfied`, in terms of the value's syntax tree: the path is restored, and the flag
  becomes true exactly if some member below has a key path matching a query (and, for queries
  with values, a string value that is one of them).  Keys and values are the raw bytes between
  the quotes (no escape processing: the scanner compares raw bytes).
-/
namespace Mime.JsonQuery
open Mime Mime.Json Mime.Spec Mime.JsonLeaf Mime.JsonForward

abbrev Query := Mime.Gen.Json.Query

def quote (s : Bytes) : Bytes := 0x22 :: s ++ [0x22]

/-- does value `v` satisfy query `q` (already matched by path) -/
def strVal (q : Query) (v : J.JVal) : Bool :=
  match v with
  | .str s => q.vals.any (fun x => decide (x = quote s))
  | _ => false

def matchVal (q : Query) (v : J.JVal) : Bool := q.vals.isEmpty || strVal q v

def matchHere (qs : List Query) (p : List Bytes) (v : J.JVal) : Bool :=
  match queryPathMatch qs p with
  | none => false
  | some q => matchVal q v

mutual
/-- parsing `v` at key path `p` satisfies a query -/
def qsatV (qs : List Query) : List Bytes → J.JVal → Bool
  | p, .obj ms => qsatM qs p ms
  | p, .arr xs => qsatL qs (p ++ [[0x5B]]) xs
  | _, _ => false
def qsatM (qs : List Query) : List Bytes → List (Bytes × J.JVal) → Bool
  | _, [] => false
  | p, (k, v) :: ms => (qsatV qs (p ++ [k]) v || matchHere qs (p ++ [k]) v) || qsatM qs p ms
def qsatL (qs : List Query) : List Bytes → List J.JVal → Bool
  | _, [] => false
  | p, x :: xs => qsatV qs p x || qsatL qs p xs
end

/-- every value of every query is a quoted string -/
def ValsQuoted (qs : List Query) : Prop := ∀ q ∈ qs, ∀ x ∈ q.vals, x.head? = some 0x22

/-! ### leaf scanners touch only `ib` -/

def SameFields (s s' : PState) : Prop := s'.currPath = s.currPath ∧ s'.querySatisfied = s.querySatisfied

theorem consumeString_fields (b : Bytes) : ∀ (m : SMode) (s : PState), SameFields s (consumeString m b s).2 := by
  induction b with
  | nil => intro m s; rw [cs_nil]; exact ⟨rfl, rfl⟩
  | cons c cs ih =>
    intro m s
    rw [consumeString.eq_def]
    cases m with
    | norm =>
      simp only
      split
      · exact ih _ s.bump
      · split
        · exact ⟨rfl, rfl⟩
        · exact ih _ s.bump
    | esc =>
      simp only
      split
      · exact ih _ s.bump
      · split
        · exact ih _ s.bump
        · exact ⟨rfl, rfl⟩
    | hex k =>
      simp only
      split
      · split
        · exact ih _ s.bump
        · exact ih _ s.bump
      · exact ⟨rfl, rfl⟩

theorem consumeConst_fields (w : Bytes) : ∀ (b : Bytes) (s : PState), SameFields s (consumeConst b w s).2 := by
  induction w with
  | nil => intro b s; cases b <;> exact ⟨rfl, rfl⟩
  | cons x xs ih =>
    intro b s
    cases b with
    | nil => exact ⟨rfl, rfl⟩
    | cons y ys =>
      rw [consumeConst]
      split
      · exact ih ys s.bump
      · exact ⟨rfl, rfl⟩

theorem consumeNumber_fields (b : Bytes) : ∀ (m : NMode) (s : PState), SameFields s (consumeNumber m b s).2 := by
  induction b with
  | nil => intro m s; rw [cn_nil]; exact ⟨rfl, rfl⟩
  | cons c cs ih =>
    intro m s
    rw [consumeNumber]
    split
    · exact ih _ s.bump
    · exact ⟨rfl, rfl⟩

theorem finishAny_fields (lvl t : Nat) (res : Option Bytes × PState) :
    (finishAny false lvl t res).2.currPath = res.2.currPath ∧
    (finishAny false lvl t res).2.querySatisfied = res.2.querySatisfied := by
  obtain ⟨o, s2⟩ := res
  have h1 : ((s2.setFirst lvl t).setQ false).currPath = s2.currPath := by
    simp only [PState.setQ, Bool.false_eq_true, ↓reduceIte, PState.setFirst]; split <;> rfl
  have h2 : ((s2.setFirst lvl t).setQ false).querySatisfied = s2.querySatisfied := by
    simp only [PState.setQ, Bool.false_eq_true, ↓reduceIte, PState.setFirst]; split <;> rfl
  cases o with
  | none => exact ⟨h1, h2⟩
  | some r => simp only [finishAny, consumeSpace_spec]; exact ⟨h1, h2⟩

theorem finishAny_currPath (lvl t : Nat) (res : Option Bytes × PState) :
    (finishAny false lvl t res).2.currPath = res.2.currPath := (finishAny_fields lvl t res).1
theorem finishAny_qs (lvl t : Nat) (res : Option Bytes × PState) :
    (finishAny false lvl t res).2.querySatisfied = res.2.querySatisfied := (finishAny_fields lvl t res).2

def isContainerV : J.JVal → Bool
  | .arr _ => true | .obj _ => true | _ => false

theorem not_container_qsat (qs : List Query) (p : List Bytes) (v : J.JVal)
    (h : isContainerV v = false) : qsatV qs p v = false := by
  cases v <;> simp_all [qsatV, isContainerV]

/-- the kind of value the reference builds is decided by the first non-space byte -/
theorem value_containerV (strict : Bool) (f : Nat) (l : Bytes) (c : Nat) (cs : Bytes) (v : J.JVal) (r : Bytes)
    (hsk : J.skipWs l = c :: cs) (hv : J.value strict f l = .ok v r) :
    isContainerV v = (c == 0x5B || c == 0x7B) := by
  cases f with
  | zero => simp [J.value] at hv
  | succ f =>
    simp only [J.value, hsk] at hv
    split at hv
    · rename_i hc
      have : c = 0x22 := by simpa using hc
      subst this
      cases hs : J.str strict cs [] <;> simp only [hs] at hv
      · simp only [J.R.ok.injEq] at hv; rw [← hv.1]; rfl
      · cases hv
      · cases hv
    split at hv
    · rename_i hc
      obtain ⟨xs, rfl⟩ := items_arr strict _ _ _ _ _ _ hv
      simp [isContainerV, hc]
    split at hv
    · rename_i _ hc
      obtain ⟨ms, rfl⟩ := members_obj strict _ _ _ _ _ _ hv
      simp [isContainerV, hc]
    rename_i n1 n2 n3
    have e2 : (c == 0x5B) = false := by simpa using n2
    have e3 : (c == 0x7B) = false := by simpa using n3
    rw [e2, e3]
    split at hv
    · split at hv
      · simp only [J.R.ok.injEq] at hv; rw [← hv.1]; rfl
      · cases hv
      · cases hv
    split at hv
    · split at hv
      · simp only [J.R.ok.injEq] at hv; rw [← hv.1]; rfl
      · cases hv
      · cases hv
    split at hv
    · split at hv
      · simp only [J.R.ok.injEq] at hv; rw [← hv.1]; rfl
      · cases hv
      · cases hv
    split at hv
    · simp only [J.R.ok.injEq] at hv; rw [← hv.1]; rfl
    · cases hv
    · cases hv

/-! ### the text of a member value, trimmed -/

def rtrim (l : Bytes) : Bytes := (l.reverse.dropWhile isSpace).reverse

theorem trimSpaces_eq (b : Bytes) : trimSpaces b = rtrim (b.dropWhile isSpace) := rfl

theorem rtrim_append_ws (l w : Bytes) (hw : ∀ c ∈ w, isSpace c = true) : rtrim (l ++ w) = rtrim l := by
  unfold rtrim
  rw [List.reverse_append, List.dropWhile_append_of_pos (fun c hc => hw c (List.mem_reverse.mp hc))]

theorem rtrim_snoc (l : Bytes) (q : Nat) (hq : isSpace q = false) : rtrim (l ++ [q]) = l ++ [q] := by
  unfold rtrim
  simp [List.dropWhile, hq]

theorem rtrim_head (e : Nat) (t : Bytes) (he : isSpace e = false) : (rtrim (e :: t)).head? = some e := by
  unfold rtrim
  rw [List.reverse_cons, List.dropWhile_append]
  split
  · simp [List.dropWhile, he]
  · simp

theorem trim_quoted (body w : Bytes) (hw : ∀ c ∈ w, isSpace c = true) : trimSpaces (quote body ++ w) = quote body := by
  rw [trimSpaces_eq]
  have hd : (quote body ++ w).dropWhile isSpace = quote body ++ w := by
    simp [quote, List.dropWhile, isSpace]
  rw [hd, rtrim_append_ws _ _ hw]
  have : quote body = (0x22 :: body) ++ [0x22] := rfl
  rw [this, rtrim_snoc _ _ (by decide)]

theorem trim_head (e : Nat) (t : Bytes) (he : isSpace e = false) : (trimSpaces (e :: t)).head? = some e := by
  rw [trimSpaces_eq]
  have hd : (e :: t).dropWhile isSpace = e :: t := by simp [List.dropWhile, he]
  rw [hd]
  exact rtrim_head e t he

theorem skipWs_split (r : Bytes) : ∃ w, r = w ++ J.skipWs r ∧ ∀ c ∈ w, isSpace c = true := by
  induction r with
  | nil => exact ⟨[], rfl, by simp⟩
  | cons c cs ih =>
    simp only [J.skipWs]
    split
    · rename_i hc
      obtain ⟨w, h1, h2⟩ := ih
      refine ⟨c :: w, by rw [List.cons_append, ← h1], ?_⟩
      intro x hx
      cases hx with
      | head => rw [isSpace_eq_ws]; exact hc
      | tail _ h => exact h2 x h
    · exact ⟨[], rfl, by simp⟩

/-- the body the reference returns for a string is the raw text up to the closing quote -/
theorem str_body (strict : Bool) (cs acc : Bytes) : ∀ (body r : Bytes),
    J.str strict cs acc = .ok body r → acc.reverse ++ cs = body ++ 0x22 :: r := by
  fun_induction J.str strict cs acc with
  | case1 => intro body r h; cases h
  | case2 c cs acc hq =>
    intro body r h
    simp only [J.R.ok.injEq] at h
    obtain ⟨rfl, rfl⟩ := h
    have hc : c = 0x22 := by simpa using hq
    rw [hc]
  | case3 => intro body r h; cases h
  | case4 c acc hq hb e es he ih =>
    intro body r h
    rw [← ih body r h]
    simp
  | case5 c acc hq hb e he hu h1 h2 h3 h4 r' hh ih =>
    intro body r h
    rw [← ih body r h]
    simp
  | case6 => intro body r h; cases h
  | case7 => intro body r h; cases h
  | case8 => intro body r h; cases h
  | case9 => intro body r h; cases h
  | case10 => intro body r h; cases h
  | case11 c cs acc hq hb hctl ih =>
    intro body r h
    rw [← ih body r h]
    simp

/-- the kind of the value and, for a string, its text -/
theorem value_str (f : Nat) (e : Nat) (es : Bytes) (v : J.JVal) (r2 : Bytes)
    (hv : J.value true f (e :: es) = .ok v r2) (he : isSpace e = false) :
    (e = 0x22 ∧ ∃ body, v = .str body ∧ es = body ++ 0x22 :: r2) ∨ (e ≠ 0x22 ∧ ∀ body, v ≠ .str body) := by
  cases f with
  | zero => simp [J.value] at hv
  | succ f =>
    have hsk : J.skipWs (e :: es) = e :: es := by
      simp only [J.skipWs]
      rw [← isSpace_eq_ws, he]; simp
    simp only [J.value, hsk] at hv
    split at hv
    · rename_i hc
      left
      have : e = 0x22 := by simpa using hc
      refine ⟨this, ?_⟩
      cases hs : J.str true es [] <;> simp only [hs] at hv
      · rename_i body r
        simp only [J.R.ok.injEq] at hv
        obtain ⟨rfl, rfl⟩ := hv
        exact ⟨body, rfl, by simpa using str_body true es [] body r hs⟩
      · cases hv
      · cases hv
    · rename_i hc
      right
      refine ⟨by simpa using hc, ?_⟩
      intro body hb
      subst hb
      split at hv
      · obtain ⟨xs, h⟩ := items_arr true _ _ _ _ _ _ hv; cases h
      split at hv
      · obtain ⟨ms, h⟩ := members_obj true _ _ _ _ _ _ hv; cases h
      split at hv
      · split at hv <;> cases hv
      split at hv
      · split at hv <;> cases hv
      split at hv
      · split at hv <;> cases hv
      split at hv <;> cases hv

/-! ### `applyQuery` on the text of a value -/

/-- what the scanner hands to `applyQuery` for a value `v`: the quoted text plus trailing
    white space for a string; something that does not start with a quote otherwise -/
def ValText (v : J.JVal) (valBytes : Bytes) : Prop :=
  (∃ body w, v = .str body ∧ valBytes = quote body ++ w ∧ ∀ c ∈ w, isSpace c = true) ∨
  (∃ e t, valBytes = e :: t ∧ isSpace e = false ∧ e ≠ 0x22 ∧ ∀ body, v ≠ .str body)

theorem applyQuery_some (q : Query) (hqv : ∀ x ∈ q.vals, x.head? = some 0x22) (valBytes : Bytes) (v : J.JVal)
    (s6 : PState) (ht : ValText v valBytes) :
    (applyQuery (some q) valBytes s6).currPath = s6.currPath ∧
    (applyQuery (some q) valBytes s6).querySatisfied = (s6.querySatisfied || matchVal q v) := by
  have hany : q.vals.any (fun x => decide (x = trimSpaces valBytes)) = strVal q v := by
    rcases ht with ⟨body, w, rfl, rfl, hw⟩ | ⟨e, t, rfl, he, hne, hns⟩
    · rw [trim_quoted body w hw]; rfl
    · have hfalse : q.vals.any (fun x => decide (x = trimSpaces (e :: t))) = false := by
        rw [List.any_eq_false]
        intro x hx
        simp only [decide_eq_true_eq]
        intro heq
        have h1 := hqv x hx
        rw [heq, trim_head e t he] at h1
        simp only [Option.some.injEq] at h1
        exact hne h1
      rw [hfalse]
      cases v with
      | str body => exact absurd rfl (hns body)
      | _ => rfl
  unfold applyQuery matchVal
  simp only [hany]
  generalize q.vals.isEmpty = A
  generalize strVal q v = B
  cases A <;> cases B <;> simp

theorem queryPathMatch_mem (qs : List Query) (p : List Bytes) (q : Query) (h : queryPathMatch qs p = some q) : q ∈ qs := by
  induction qs with
  | nil => simp [queryPathMatch] at h
  | cons x xs ih =>
    simp only [queryPathMatch] at h
    split at h
    · simp only [Option.some.injEq] at h; rw [← h]; exact List.mem_cons_self ..
    · exact List.mem_cons_of_mem _ (ih h)

/-- the member step of `consumeObject`: the query looked up before the value, applied after it -/
theorem member_effect (qs : List Query) (hq : ValsQuoted qs) (path : List Bytes) (flag0 : Bool) (valBytes : Bytes)
    (v : J.JVal) (s6 : PState) (ht : ValText v valBytes) (h6 : s6.currPath = path)
    (hmono : flag0 = true → s6.querySatisfied = true) :
    (applyQuery (if flag0 then none else queryPathMatch qs path) valBytes s6).currPath = path ∧
    (applyQuery (if flag0 then none else queryPathMatch qs path) valBytes s6).querySatisfied =
      (s6.querySatisfied || matchHere qs path v) := by
  cases hf : flag0 with
  | true =>
    simp only [↓reduceIte, applyQuery]
    exact ⟨h6, by rw [hmono hf]; rfl⟩
  | false =>
    simp only [Bool.false_eq_true, ↓reduceIte]
    unfold matchHere
    cases hm : queryPathMatch qs path with
    | none => simp only [applyQuery]; exact ⟨h6, by simp⟩
    | some q =>
      obtain ⟨a, b⟩ := applyQuery_some q (hq q (queryPathMatch_mem qs path q hm)) valBytes v s6 ht
      exact ⟨by rw [a, h6], b⟩

theorem consumed_key (cs key r0 : Bytes) (h : cs = key ++ 0x22 :: r0) : (consumed cs r0).dropLast = key := by
  subst h
  unfold consumed
  have : (key ++ 0x22 :: r0).length - r0.length = (key ++ [0x22]).length := by simp; omega
  rw [this]
  have e : key ++ 0x22 :: r0 = (key ++ [0x22]) ++ r0 := by simp
  rw [e, List.take_left']
  · simp
  · rfl

/-- the bytes between the start of a value and the rest the scanner returns -/
theorem valText_of_value (f : Nat) (e : Nat) (es : Bytes) (v : J.JVal) (r2 : Bytes)
    (hv : J.value true f (e :: es) = .ok v r2) (he : isSpace e = false) (hlen : r2.length < (e :: es).length) :
    ValText v (consumed (e :: es) (J.skipWs r2)) := by
  obtain ⟨w, hw1, hw2⟩ := skipWs_split r2
  have hle := skipWs_length_le r2
  rcases value_str f e es v r2 hv he with ⟨rfl, body, rfl, hes⟩ | ⟨hne, hns⟩
  · left
    refine ⟨body, w, rfl, ?_, hw2⟩
    unfold consumed
    have e1 : 0x22 :: es = (quote body ++ w) ++ J.skipWs r2 := by
      rw [hes, quote]
      simp only [List.cons_append, List.append_assoc, List.cons.injEq, true_and, List.nil_append]
      rw [← hw1]
    have e2 : (0x22 :: es).length - (J.skipWs r2).length = (quote body ++ w).length := by
      rw [e1]; simp; omega
    rw [e2, e1, List.take_left']
    rfl
  · right
    unfold consumed
    have : (e :: es).length - (J.skipWs r2).length = ((e :: es).length - (J.skipWs r2).length - 1) + 1 := by
      simp only [List.length_cons] at hlen ⊢; omega
    rw [this, List.take_succ_cons]
    exact ⟨e, _, rfl, he, hne, hns⟩

/-! ### the simulation -/

@[simp] theorem bump_currPath (s : PState) (k : Nat) : (s.bump k).currPath = s.currPath := rfl
@[simp] theorem bump_qs (s : PState) (k : Nat) : (s.bump k).querySatisfied = s.querySatisfied := rfl
@[simp] theorem pop_currPath (s : PState) : s.pop.currPath = s.currPath.dropLast := rfl
@[simp] theorem pop_qs (s : PState) : s.pop.querySatisfied = s.querySatisfied := rfl
@[simp] theorem push_currPath (s : PState) (k : Bytes) : (s.push k).currPath = s.currPath ++ [k] := rfl
@[simp] theorem push_qs (s : PState) (k : Bytes) : (s.push k).querySatisfied = s.querySatisfied := rfl
@[simp] theorem enter_currPath (s : PState) (l : Nat) : (s.enter l).currPath = s.currPath := rfl
@[simp] theorem enter_qs (s : PState) (l : Nat) : (s.enter l).querySatisfied = s.querySatisfied := rfl

def QV (qs : List Query) (cap f : Nat) : Prop :=
  ∀ (lvl : Nat) (b : Bytes) (v : J.JVal) (r : Bytes) (s : PState),
    J.value true f b = .ok v r → Delim r → CapOK cap lvl (J.depth v) →
    (consumeAny qs cap f lvl b s).2.currPath = s.currPath ∧
    (consumeAny qs cap f lvl b s).2.querySatisfied = (s.querySatisfied || qsatV qs s.currPath v)

def QI (qs : List Query) (cap f : Nat) : Prop :=
  ∀ (L : Nat) (b : Bytes) (acc : List J.JVal) (first : Bool) (xs : List J.JVal) (r : Bytes) (s : PState),
    J.items true f b acc first = .ok (.arr xs) r → (∀ x ∈ xs, CapOK cap L (J.depth x)) →
    ∃ ys, xs = acc.reverse ++ ys ∧
      (arrayLoop qs cap f L b s).2.currPath = s.currPath.dropLast ∧
      (arrayLoop qs cap f L b s).2.querySatisfied = (s.querySatisfied || qsatL qs s.currPath ys)

def QM (qs : List Query) (cap f : Nat) : Prop :=
  ∀ (L : Nat) (b : Bytes) (acc : List (Bytes × J.JVal)) (first : Bool) (ms : List (Bytes × J.JVal)) (r : Bytes) (s : PState),
    J.members true f b acc first = .ok (.obj ms) r → (∀ m ∈ ms, CapOK cap L (J.depth m.2)) →
    ∃ ns, ms = acc.reverse ++ ns ∧
      (objectLoop qs cap f L b s).2.currPath = s.currPath ∧
      (objectLoop qs cap f L b s).2.querySatisfied = (s.querySatisfied || qsatM qs s.currPath ns)

theorem qstep_value (qs : List Query) (hne : qs.isEmpty = false) (cap f : Nat)
    (hI : QI qs cap f) (hM : QM qs cap f) : QV qs cap (f + 1) := by
  intro lvl b v r s hv hd hcap
  have hpass := capOK_pass hcap
  have hv0 := hv
  simp only [J.value] at hv
  cases hsk : J.skipWs b with
  | nil => simp [hsk] at hv
  | cons c cs =>
    have hcs := consumeSpace_spec b (s.enter lvl)
    rw [hsk] at hcs
    simp only [consumeAny, hpass, Bool.false_eq_true, ↓reduceIte, hcs, hne]
    generalize b.length - (c :: cs).length = k0
    simp only [finishAny_currPath, finishAny_qs]
    simp only [hsk] at hv
    by_cases hA : c = 0x5B
    · -- array
      subst hA
      have hk : classify 0x5B = .arr := by decide
      simp only [hk]
      simp only [show (0x5B == 0x22) = false by decide, Bool.false_eq_true, ↓reduceIte, beq_self_eq_true] at hv
      obtain ⟨xs, rfl⟩ := items_arr true f cs [] true v r hv
      have hnec : cs.isEmpty = false := by
        cases cs with
        | nil => cases f <;> simp [J.items, J.skipWs] at hv
        | cons _ _ => rfl
      simp only [hnec, Bool.false_eq_true, ↓reduceIte]
      have hx : ∀ x ∈ xs, CapOK cap (lvl + 1) (J.depth x) := by
        intro x hx
        rcases hcap with h | h
        · exact Or.inl h
        · right
          have := depth_mem_list x xs hx
          simp only [J.depth] at h
          omega
      obtain ⟨ys, e1, e2, e3⟩ := hI (lvl + 1) cs [] true xs r ((((s.enter lvl).bump k0).bump).push [0x5B]) hv hx
      simp only [List.reverse_nil, List.nil_append] at e1
      subst e1
      rw [e2, e3]
      exact ⟨by simp [PState.push, PState.bump, PState.enter], by simp [PState.push, PState.bump, PState.enter, qsatV]⟩
    · by_cases hO : c = 0x7B
      · subst hO
        have hk : classify 0x7B = .obj := by decide
        simp only [hk]
        simp only [show (0x7B == 0x22) = false by decide, show (0x7B == 0x5B) = false by decide, Bool.false_eq_true,
          ↓reduceIte, beq_self_eq_true] at hv
        obtain ⟨ms, rfl⟩ := members_obj true f cs [] true v r hv
        have hx : ∀ m ∈ ms, CapOK cap (lvl + 1) (J.depth m.2) := by
          intro m hm
          rcases hcap with h | h
          · exact Or.inl h
          · right
            have := depth_mem_members m.1 m.2 ms (by simpa using hm)
            simp only [J.depth] at h
            omega
        obtain ⟨ns, e1, e2, e3⟩ := hM (lvl + 1) cs [] true ms r (((s.enter lvl).bump k0).bump) hv hx
        simp only [List.reverse_nil, List.nil_append] at e1
        subst e1
        rw [e2, e3]
        exact ⟨by simp [PState.bump, PState.enter], by simp [PState.bump, PState.enter, qsatV]⟩
      · -- a leaf: the fields are untouched and the value is no container
        have hleaf : qsatV qs s.currPath v = false := by
          apply not_container_qsat
          rw [value_containerV true (f + 1) b c cs v r hsk hv0]
          simp [hA, hO]
        rw [hleaf, Bool.or_false]
        rcases classify_cases c with ⟨rfl, hk⟩ | ⟨rfl, hk⟩ | ⟨rfl, hk⟩ | ⟨rfl, hk⟩ | ⟨rfl, hk⟩ | ⟨rfl, hk⟩ | ⟨_, _, _, _, _, _, hk⟩
        · simp only [hk]; exact consumeString_fields _ _ _
        · exact absurd rfl hA
        · exact absurd rfl hO
        · simp only [hk]; exact consumeConst_fields _ _ _
        · simp only [hk]; exact consumeConst_fields _ _ _
        · simp only [hk]; exact consumeConst_fields _ _ _
        · simp only [hk]; exact consumeNumber_fields _ _ _

theorem qstep_items (qs : List Query) (cap f : Nat) (hFV : FValue qs cap f)
    (hV : QV qs cap f) (hI : QI qs cap f) : QI qs cap (f + 1) := by
  intro L b acc first xs r s hv hx
  simp only [J.items] at hv
  cases hsk : J.skipWs b with
  | nil => simp [hsk] at hv
  | cons c cs =>
    simp only [hsk] at hv
    have hcs := consumeSpace_spec b s
    rw [hsk] at hcs
    simp only [arrayLoop, hcs]
    generalize b.length - (c :: cs).length = k0
    by_cases hc : (c == 0x5D) = true
    · simp only [hc, ↓reduceIte]
      simp only [hc, Bool.true_and] at hv
      split at hv
      · simp only [J.R.ok.injEq, J.JVal.arr.injEq] at hv
        obtain ⟨rfl, rfl⟩ := hv
        exact ⟨[], by simp, by simp [PState.pop, PState.bump], by simp [PState.pop, PState.bump, qsatL]⟩
      · exfalso
        have hc' : c = 0x5D := by simpa using hc
        subst hc'
        cases f with
        | zero => simp [J.value] at hv
        | succ f' =>
          simp [J.value, J.skipWs, J.ws, J.numStrict, J.dropMinus, J.digit] at hv
    · have hc' : (c == 0x5D) = false := by simpa using hc
      simp only [hc', Bool.false_and, Bool.false_eq_true, ↓reduceIte] at hv ⊢
      cases hval : J.value true f (c :: cs) with
      | more => simp [hval] at hv
      | bad => simp [hval] at hv
      | ok v r1 =>
        simp only [hval] at hv
        cases hs1 : J.skipWs r1 with
        | nil => simp [hs1] at hv
        | cons d ds =>
          simp only [hs1] at hv
          by_cases hd1 : (d == 0x2C) = true
          · simp only [hd1, ↓reduceIte] at hv
            have hvx : v ∈ xs := items_acc_mem true f ds (v :: acc) false xs r hv v (List.mem_cons_self ..)
            have hdl : Delim r1 := delim_of_skipWs r1 d ds hs1 (Or.inl (by simpa using hd1))
            obtain ⟨a1, _, _⟩ := hFV L (c :: cs) v r1 (s.bump k0) hval hdl (hx v hvx)
            obtain ⟨q1, q2⟩ := hV L (c :: cs) v r1 (s.bump k0) hval hdl (hx v hvx)
            generalize consumeAny qs cap f L (c :: cs) (s.bump k0) = res at a1 q1 q2
            obtain ⟨rv, s2⟩ := res
            simp only at a1 q1 q2
            subst a1
            rw [hs1]
            simp only [hd1, ↓reduceIte]
            obtain ⟨ys, e1, e2, e3⟩ := hI L ds (v :: acc) false xs r s2.bump hv hx
            simp only [bump_currPath, bump_qs] at q1 q2 e2 e3
            refine ⟨v :: ys, by rw [e1]; simp, ?_, ?_⟩
            · rw [e2, q1]
            · rw [e3, q2, q1]
              simp [qsatL, Bool.or_assoc]
          · have hd1' : (d == 0x2C) = false := by simpa using hd1
            simp only [hd1', Bool.false_eq_true, ↓reduceIte] at hv
            split at hv
            · rename_i hd2
              simp only [J.R.ok.injEq, J.JVal.arr.injEq] at hv
              obtain ⟨hxs, rfl⟩ := hv
              have hvx : v ∈ xs := by rw [← hxs]; simp
              have hdl : Delim r1 := delim_of_skipWs r1 d ds hs1 (Or.inr (Or.inl (by simpa using hd2)))
              obtain ⟨a1, _, _⟩ := hFV L (c :: cs) v r1 (s.bump k0) hval hdl (hx v hvx)
              obtain ⟨q1, q2⟩ := hV L (c :: cs) v r1 (s.bump k0) hval hdl (hx v hvx)
              generalize consumeAny qs cap f L (c :: cs) (s.bump k0) = res at a1 q1 q2
              obtain ⟨rv, s2⟩ := res
              simp only at a1 q1 q2
              subst a1
              rw [hs1]
              simp only [hd1', Bool.false_eq_true, ↓reduceIte, hd2]
              simp only [bump_currPath, bump_qs] at q1 q2
              refine ⟨[v], by rw [← hxs]; simp, ?_, ?_⟩
              · simp only [pop_currPath, bump_currPath]; rw [q1]
              · simp only [pop_qs, bump_qs]
                rw [q2]
                simp [qsatL]
            · cases hv

@[simp] theorem applyQuery_none (vb : Bytes) (s : PState) : applyQuery none vb s = s := rfl

theorem qstep_members (qs : List Query) (hq : ValsQuoted qs) (cap f : Nat) (hFV : FValue qs cap f)
    (hV : QV qs cap f) (hM : QM qs cap f) : QM qs cap (f + 1) := by
  intro L b acc first ms r s hv hx
  simp only [J.members] at hv
  cases hsk : J.skipWs b with
  | nil => simp [hsk] at hv
  | cons c cs =>
    simp only [hsk] at hv
    have hcs := consumeSpace_spec b s
    rw [hsk] at hcs
    simp only [objectLoop, hcs]
    generalize b.length - (c :: cs).length = k0
    by_cases hc : (c == 0x7D) = true
    · simp only [hc, ↓reduceIte]
      simp only [hc, Bool.true_and] at hv
      split at hv
      · simp only [J.R.ok.injEq, J.JVal.obj.injEq] at hv
        obtain ⟨rfl, rfl⟩ := hv
        exact ⟨[], by simp, by simp, by simp [qsatM]⟩
      · exfalso
        have hc' : c = 0x7D := by simpa using hc
        subst hc'
        simp at hv
    · have hc' : (c == 0x7D) = false := by simpa using hc
      simp only [hc', Bool.false_and, Bool.false_eq_true, ↓reduceIte] at hv ⊢
      by_cases hqt : (c != 0x22) = true
      · simp [hqt] at hv
      · have hq' : (c != 0x22) = false := by simpa using hqt
        simp only [hq', Bool.false_eq_true, ↓reduceIte] at hv ⊢
        cases hstr : J.str true cs [] with
        | more => simp [hstr] at hv
        | bad => simp [hstr] at hv
        | ok key r0 =>
          simp only [hstr] at hv
          obtain ⟨k1, _⟩ := str_forward true cs [] key r0 (s.bump k0).bump hstr
          rw [k1]
          simp only
          have hkey : (consumed cs r0).dropLast = key :=
            consumed_key cs key r0 (by simpa using str_body true cs [] key r0 hstr)
          rw [hkey]
          cases hs0 : J.skipWs r0 with
          | nil => simp [hs0] at hv
          | cons d ds =>
            simp only [hs0] at hv
            have hcs0 := consumeSpace_spec r0 ((((s.bump k0).bump).bump (cs.length - r0.length)).push key)
            rw [hs0] at hcs0
            rw [hcs0]
            simp only
            by_cases hcol : (d != 0x3A) = true
            · simp [hcol] at hv
            · have hcol' : (d != 0x3A) = false := by simpa using hcol
              simp only [hcol', Bool.false_eq_true, ↓reduceIte] at hv ⊢
              cases hval : J.value true f ds with
              | more => simp [hval] at hv
              | bad => simp [hval] at hv
              | ok v r2 =>
                simp only [hval] at hv
                cases hs2 : J.skipWs ds with
                | nil =>
                  exfalso
                  rw [value_skipWs, hs2] at hval
                  cases f <;> simp [J.value, J.skipWs] at hval
                | cons e es =>
                  have hcs2 := consumeSpace_spec ds (((((s.bump k0).bump).bump (cs.length - r0.length)).push key).bump (r0.length - (d :: ds).length)).bump
                  rw [hs2] at hcs2
                  rw [hcs2]
                  simp only
                  have hval' : J.value true f (e :: es) = .ok v r2 := by rw [← hs2, ← value_skipWs]; exact hval
                  have hesp : isSpace e = false := by
                    rw [isSpace_eq_ws]; exact skipWs_head ds e es hs2
                  cases hs3 : J.skipWs r2 with
                  | nil => simp [hs3] at hv
                  | cons g gs =>
                    simp only [hs3] at hv
                    have hdelim : (g = 0x2C ∨ g = 0x5D ∨ g = 0x7D) := by
                      by_cases hg1 : (g == 0x2C) = true
                      · left; simpa using hg1
                      · have hg1' : (g == 0x2C) = false := by simpa using hg1
                        simp only [hg1', Bool.false_eq_true, ↓reduceIte] at hv
                        split at hv
                        · rename_i hg2; right; right; simpa using hg2
                        · cases hv
                    have hdl : Delim r2 := delim_of_skipWs r2 g gs hs3 hdelim
                    have hvm : (key, v) ∈ ms := by
                      by_cases hg1 : (g == 0x2C) = true
                      · simp only [hg1, ↓reduceIte] at hv
                        exact members_acc_mem true f gs ((key, v) :: acc) false ms r hv (key, v) (List.mem_cons_self ..)
                      · have hg1' : (g == 0x2C) = false := by simpa using hg1
                        simp only [hg1', Bool.false_eq_true, ↓reduceIte] at hv
                        split at hv
                        · simp only [J.R.ok.injEq, J.JVal.obj.injEq] at hv
                          rw [← hv.1]; simp
                        · cases hv
                    generalize hs5 : ((((((s.bump k0).bump).bump (cs.length - r0.length)).push key).bump (r0.length - (d :: ds).length)).bump).bump
                      (ds.length - (e :: es).length) = s5
                    have h5p : s5.currPath = s.currPath ++ [key] := by rw [← hs5]; simp
                    have h5q : s5.querySatisfied = s.querySatisfied := by rw [← hs5]; simp
                    obtain ⟨a1, _, a3⟩ := hFV L (e :: es) v r2 s5 hval' hdl (hx (key, v) hvm)
                    obtain ⟨q1, q2⟩ := hV L (e :: es) v r2 s5 hval' hdl (hx (key, v) hvm)
                    generalize consumeAny qs cap f L (e :: es) s5 = res at a1 q1 q2
                    obtain ⟨rv, s6⟩ := res
                    simp only at a1 q1 q2
                    subst a1
                    rw [hs3]
                    simp only
                    rw [← hs3]
                    -- the query looked up before the value, applied after it
                    have hvt := valText_of_value f e es v r2 hval' hesp a3
                    have h6 : s6.currPath = ((((s.bump k0).bump).bump (cs.length - r0.length)).push key).currPath := by
                      rw [q1, h5p]; simp
                    have hmono : ((((s.bump k0).bump).bump (cs.length - r0.length)).push key).querySatisfied = true →
                        s6.querySatisfied = true := by
                      intro h
                      simp only [push_qs, bump_qs] at h
                      rw [q2, h5q, h]; rfl
                    obtain ⟨m1, m2⟩ := member_effect qs hq _ _ _ v s6 hvt h6 hmono
                    generalize applyQuery _ (consumed (e :: es) (J.skipWs r2)) s6 = s7 at m1 m2
                    simp only [push_currPath, bump_currPath] at m1 m2
                    rw [q2, h5q, h5p] at m2
                    by_cases hg1 : (g == 0x2C) = true
                    · simp only [hg1, ↓reduceIte] at hv ⊢
                      obtain ⟨ns, e1, e2, e3⟩ := hM L gs ((key, v) :: acc) false ms r s7.pop.bump hv hx
                      simp only [bump_currPath, bump_qs, pop_currPath, pop_qs] at e2 e3
                      rw [m1] at e2 e3
                      simp only [List.dropLast_concat] at e2 e3
                      refine ⟨(key, v) :: ns, by rw [e1]; simp, e2, ?_⟩
                      rw [e3, m2]
                      simp [qsatM, Bool.or_assoc]
                    · have hg1' : (g == 0x2C) = false := by simpa using hg1
                      simp only [hg1', Bool.false_eq_true, ↓reduceIte] at hv ⊢
                      split at hv
                      · rename_i hg2
                        simp only [J.R.ok.injEq, J.JVal.obj.injEq] at hv
                        obtain ⟨hms, rfl⟩ := hv
                        simp only [hg2, ↓reduceIte]
                        refine ⟨[(key, v)], by rw [← hms]; simp, ?_, ?_⟩
                        · simp only [bump_currPath, pop_currPath]; rw [m1]; simp
                        · simp only [bump_qs, pop_qs]; rw [m2]; simp [qsatM, Bool.or_assoc]
                      · cases hv

/-- **the effect of a successful run on `currPath` and `querySatisfied`**, for every fuel -/
theorem query_all (qs : List Query) (hne : qs.isEmpty = false) (hq : ValsQuoted qs) (cap : Nat) :
    ∀ f, QV qs cap f ∧ QI qs cap f ∧ QM qs cap f := by
  intro f
  induction f with
  | zero =>
    refine ⟨?_, ?_, ?_⟩
    · intro lvl b v r s h; simp [J.value] at h
    · intro L b acc first xs r s h; simp [J.items] at h
    · intro L b acc first ms r s h; simp [J.members] at h
  | succ f ih =>
    obtain ⟨hV, hI, hM⟩ := ih
    have hF := (forward_all qs cap f).1
    exact ⟨qstep_value qs hne cap f hI hM, qstep_items qs cap f hF hV hI, qstep_members qs hq cap f hF hV hM⟩

end Mime.JsonQuery
