import MimeModel.Lemmas.JsonLeaf
/-
  Forward simulation: whatever the reference RFC 8259 recogniser (`Spec.J.value true`)
  accepts, the scanner model consumes, counting every byte — at any nesting level allowed
  by the recursion cap.
-/
namespace Mime.JsonForward
open Mime Mime.Json Mime.Spec Mime.JsonLeaf

/-- the recursion cap allows a value of depth `d` at level `L` -/
def CapOK (cap L d : Nat) : Prop := cap = 0 ∨ L + d ≤ cap

theorem capOK_pass {cap L d : Nat} (h : CapOK cap L d) : (cap != 0 && decide (L > cap)) = false := by
  rcases h with h | h
  · simp [h]
  · simp; omega

theorem depth_mem_list (x : J.JVal) (xs : List J.JVal) (h : x ∈ xs) : J.depth x ≤ J.depthList xs := by
  induction xs with
  | nil => cases h
  | cons y ys ih =>
    simp only [J.depthList]
    cases h with
    | head => omega
    | tail _ h' => have := ih h'; omega

theorem depth_mem_members (k : Bytes) (x : J.JVal) (ms : List (Bytes × J.JVal)) (h : (k, x) ∈ ms) :
    J.depth x ≤ J.depthMembers ms := by
  induction ms with
  | nil => cases h
  | cons y ys ih =>
    obtain ⟨k', v'⟩ := y
    simp only [J.depthMembers]
    cases h with
    | head => omega
    | tail _ h' => have := ih h'; omega

/-- what follows a value inside a document is white space, a comma or a closing bracket -/
theorem delim_of_skipWs (r : Bytes) (d : Nat) (ds : Bytes) (h : J.skipWs r = d :: ds)
    (hd : d = 0x2C ∨ d = 0x5D ∨ d = 0x7D) : Delim r := by
  intro c hc
  cases r with
  | nil => simp at hc
  | cons x xs =>
    simp only [List.head?_cons, Option.mem_def, Option.some.injEq] at hc
    subst hc
    simp only [J.skipWs] at h
    split at h
    · rename_i hw
      simp only [J.ws, Bool.or_eq_true, beq_iff_eq] at hw
      rcases hw with ((hw | hw) | hw) | hw <;> subst hw <;> decide
    · simp only [List.cons.injEq] at h
      rw [h.1]
      rcases hd with rfl | rfl | rfl <;> decide

theorem delim_of_ws_only (r : Bytes) (h : (J.skipWs r).isEmpty = true) : Delim r := by
  intro c hc
  cases r with
  | nil => simp at hc
  | cons x xs =>
    simp only [List.head?_cons, Option.mem_def, Option.some.injEq] at hc
    subst hc
    simp only [J.skipWs] at h
    split at h
    · rename_i hw
      simp only [J.ws, Bool.or_eq_true, beq_iff_eq] at hw
      rcases hw with ((hw | hw) | hw) | hw <;> subst hw <;> decide
    · simp at h

/-- result of `finishAny` on a successful dispatched scanner -/
theorem finishAny_some (q : Bool) (lvl t : Nat) (r : Bytes) (s2 : PState) :
    (finishAny q lvl t (some r, s2)).1 = some (J.skipWs r) ∧
    (finishAny q lvl t (some r, s2)).2.ib = s2.ib + (r.length - (J.skipWs r).length) := by
  simp only [finishAny, consumeSpace_spec]
  refine ⟨trivial, ?_⟩
  simp only [bump_ib, PState.setQ, PState.setFirst]
  split <;> split <;> rfl

theorem classify_cases (c : Nat) :
    (c = 0x22 ∧ classify c = .str) ∨ (c = 0x5B ∧ classify c = .arr) ∨ (c = 0x7B ∧ classify c = .obj) ∨
    (c = 0x74 ∧ classify c = .litT) ∨ (c = 0x66 ∧ classify c = .litF) ∨ (c = 0x6E ∧ classify c = .litN) ∨
    (c ≠ 0x22 ∧ c ≠ 0x5B ∧ c ≠ 0x7B ∧ c ≠ 0x74 ∧ c ≠ 0x66 ∧ c ≠ 0x6E ∧ classify c = .num) := by
  unfold classify
  by_cases h1 : c = 0x22
  · left; simp [h1]
  · by_cases h2 : c = 0x5B
    · right; left; simp [h2]
    · by_cases h3 : c = 0x7B
      · right; right; left; simp [h3]
      · by_cases h4 : c = 0x74
        · right; right; right; left; simp [h4]
        · by_cases h5 : c = 0x66
          · right; right; right; right; left; simp [h5]
          · by_cases h6 : c = 0x6E
            · right; right; right; right; right; left; simp [h6]
            · right; right; right; right; right; right
              simp [h1, h2, h3, h4, h5, h6]

/-- the three statements proved together by induction on the fuel -/
def FValue (qs : List Gen.Json.Query) (cap fuel : Nat) : Prop :=
  ∀ (lvl : Nat) (b : Bytes) (v : J.JVal) (r : Bytes) (s : PState),
    J.value true fuel b = .ok v r → Delim r → CapOK cap lvl (J.depth v) →
    (consumeAny qs cap fuel lvl b s).1 = some (J.skipWs r) ∧
    (consumeAny qs cap fuel lvl b s).2.ib = s.ib + (b.length - (J.skipWs r).length) ∧ r.length < b.length

def FItems (qs : List Gen.Json.Query) (cap fuel : Nat) : Prop :=
  ∀ (L : Nat) (b : Bytes) (acc : List J.JVal) (first : Bool) (xs : List J.JVal) (r : Bytes) (s : PState),
    J.items true fuel b acc first = .ok (.arr xs) r → (∀ x ∈ xs, CapOK cap L (J.depth x)) →
    (arrayLoop qs cap fuel L b s).1 = some r ∧
    (arrayLoop qs cap fuel L b s).2.ib = s.ib + (b.length - r.length) ∧ r.length < b.length

def FMembers (qs : List Gen.Json.Query) (cap fuel : Nat) : Prop :=
  ∀ (L : Nat) (b : Bytes) (acc : List (Bytes × J.JVal)) (first : Bool) (ms : List (Bytes × J.JVal)) (r : Bytes) (s : PState),
    J.members true fuel b acc first = .ok (.obj ms) r → (∀ m ∈ ms, CapOK cap L (J.depth m.2)) →
    (objectLoop qs cap fuel L b s).1 = some r ∧
    (objectLoop qs cap fuel L b s).2.ib = s.ib + (b.length - r.length) ∧ r.length < b.length

end Mime.JsonForward

namespace Mime.JsonForward
open Mime Mime.Json Mime.Spec Mime.JsonLeaf

@[simp] theorem enter_ib (s : PState) (l : Nat) : (s.enter l).ib = s.ib := rfl
@[simp] theorem push_ib (s : PState) (k : Bytes) : (s.push k).ib = s.ib := rfl
@[simp] theorem pop_ib (s : PState) : s.pop.ib = s.ib := rfl

theorem items_arr (strict : Bool) : ∀ (fuel : Nat) (b : Bytes) (acc : List J.JVal) (first : Bool) (v : J.JVal) (r : Bytes),
    J.items strict fuel b acc first = .ok v r → ∃ xs, v = .arr xs := by
  intro fuel
  induction fuel with
  | zero => intro b acc first v r h; simp [J.items] at h
  | succ f ih =>
    intro b acc first v r h
    simp only [J.items] at h
    split at h
    · cases h
    · split at h
      · simp only [J.R.ok.injEq] at h; exact ⟨_, h.1.symm⟩
      · split at h
        · cases h
        · cases h
        · split at h
          · cases h
          · split at h
            · exact ih _ _ _ _ _ h
            · split at h
              · simp only [J.R.ok.injEq] at h; exact ⟨_, h.1.symm⟩
              · cases h

theorem members_obj (strict : Bool) : ∀ (fuel : Nat) (b : Bytes) (acc : List (Bytes × J.JVal)) (first : Bool) (v : J.JVal) (r : Bytes),
    J.members strict fuel b acc first = .ok v r → ∃ ms, v = .obj ms := by
  intro fuel
  induction fuel with
  | zero => intro b acc first v r h; simp [J.members] at h
  | succ f ih =>
    intro b acc first v r h
    simp only [J.members] at h
    split at h
    · cases h
    · split at h
      · simp only [J.R.ok.injEq] at h; exact ⟨_, h.1.symm⟩
      · split at h
        · cases h
        · split at h
          · cases h
          · cases h
          · split at h
            · cases h
            · split at h
              · cases h
              · split at h
                · cases h
                · cases h
                · split at h
                  · cases h
                  · split at h
                    · exact ih _ _ _ _ _ h
                    · split at h
                      · simp only [J.R.ok.injEq] at h; exact ⟨_, h.1.symm⟩
                      · cases h

theorem step_value (qs : List Gen.Json.Query) (cap f : Nat) (hI : FItems qs cap f) (hM : FMembers qs cap f) :
    FValue qs cap (f + 1) := by
  intro lvl b v r s hv hd hcap
  simp only [J.value] at hv
  cases hsk : J.skipWs b with
  | nil => simp [hsk] at hv
  | cons c cs =>
    simp only [hsk] at hv
    have hcs := consumeSpace_spec b (s.enter lvl)
    rw [hsk] at hcs
    have hlen : b.length = (b.length - (c :: cs).length) + (cs.length + 1) := by
      have := skipWs_length_le b
      rw [hsk] at this
      simp only [List.length_cons] at this ⊢
      omega
    have hpass : (cap != 0 && decide (lvl > cap)) = false := by
      rcases hcap with h | h
      · simp [h]
      · simp; omega
    simp only [consumeAny, hpass, Bool.false_eq_true, ↓reduceIte, hcs]
    generalize hk0 : b.length - (c :: cs).length = k0 at hlen ⊢
    rcases classify_cases c with ⟨rfl, hk⟩ | ⟨rfl, hk⟩ | ⟨rfl, hk⟩ | ⟨rfl, hk⟩ | ⟨rfl, hk⟩ | ⟨rfl, hk⟩ | ⟨n1, n2, n3, n4, n5, n6, hk⟩
    · -- string
      simp only [hk]
      simp only [beq_self_eq_true, ↓reduceIte] at hv
      cases hstr : J.str true cs [] with
      | more => simp [hstr] at hv
      | bad => simp [hstr] at hv
      | ok body r' =>
        simp only [hstr, J.R.ok.injEq] at hv
        obtain ⟨_, rfl⟩ := hv
        obtain ⟨h1, h2⟩ := str_forward true cs [] body r' ((s.enter lvl).bump k0).bump hstr
        rw [h1]
        obtain ⟨f1, f2⟩ := finishAny_some qs.isEmpty lvl Kind.str.tok r' ((((s.enter lvl).bump k0).bump).bump (cs.length - r'.length))
        refine ⟨f1, ?_, by omega⟩
        rw [f2]
        have := skipWs_length_le r'
        simp only [bump_ib, enter_ib]
        omega
    · -- array
      simp only [hk]
      simp only [show (0x5B == 0x22) = false by decide, Bool.false_eq_true, ↓reduceIte, beq_self_eq_true] at hv
      obtain ⟨xs, rfl⟩ := items_arr true f cs [] true v r hv
      have hne : cs.isEmpty = false := by
        cases cs with
        | nil => cases f <;> simp [J.items, J.skipWs] at hv
        | cons _ _ => rfl
      simp only [hne, Bool.false_eq_true, ↓reduceIte]
      have hx : ∀ x ∈ xs, CapOK cap (lvl + 1) (J.depth x) := by
        intro x hx
        rcases hcap with h | h
        · exact Or.inl h
        · right
          have := depth_mem_list x xs hx
          simp only [J.depth] at h
          omega
      obtain ⟨i1, i2, i3⟩ := hI (lvl + 1) cs [] true xs r ((((s.enter lvl).bump k0).bump).push [0x5B]) hv hx
      generalize arrayLoop qs cap f (lvl + 1) cs ((((s.enter lvl).bump k0).bump).push [0x5B]) = res at i1 i2
      obtain ⟨rv, s2⟩ := res
      simp only at i1 i2
      subst i1
      obtain ⟨f1, f2⟩ := finishAny_some qs.isEmpty lvl Kind.arr.tok r s2
      refine ⟨f1, ?_, by omega⟩
      rw [f2, i2]
      have := skipWs_length_le r
      simp only [push_ib, bump_ib, enter_ib]
      omega
    · -- object
      simp only [hk]
      simp only [show (0x7B == 0x22) = false by decide, show (0x7B == 0x5B) = false by decide, Bool.false_eq_true,
        ↓reduceIte, beq_self_eq_true] at hv
      obtain ⟨ms, rfl⟩ := members_obj true f cs [] true v r hv
      have hx : ∀ m ∈ ms, CapOK cap (lvl + 1) (J.depth m.2) := by
        intro m hm
        rcases hcap with h | h
        · exact Or.inl h
        · right
          have := depth_mem_members m.1 m.2 ms (by simpa using hm)
          simp only [J.depth] at h
          omega
      obtain ⟨i1, i2, i3⟩ := hM (lvl + 1) cs [] true ms r (((s.enter lvl).bump k0).bump) hv hx
      generalize objectLoop qs cap f (lvl + 1) cs (((s.enter lvl).bump k0).bump) = res at i1 i2
      obtain ⟨rv, s2⟩ := res
      simp only at i1 i2
      subst i1
      obtain ⟨f1, f2⟩ := finishAny_some qs.isEmpty lvl Kind.obj.tok r s2
      refine ⟨f1, ?_, by omega⟩
      rw [f2, i2]
      have := skipWs_length_le r
      simp only [bump_ib, enter_ib]
      omega
    · -- true
      simp only [hk]
      simp only [show (0x74 == 0x22) = false by decide, show (0x74 == 0x5B) = false by decide,
        show (0x74 == 0x7B) = false by decide, Bool.false_eq_true, ↓reduceIte, beq_self_eq_true] at hv
      cases hl : J.lit [0x74, 0x72, 0x75, 0x65] (0x74 :: cs) with
      | more => simp [hl] at hv
      | bad => simp [hl] at hv
      | ok u r' =>
        simp only [hl, J.R.ok.injEq] at hv
        obtain ⟨_, rfl⟩ := hv
        have hb := lit_ok_iff _ _ _ hl
        rw [consumeConst_ok wTrue (0x74 :: cs) r' _ hb]
        obtain ⟨f1, f2⟩ := finishAny_some qs.isEmpty lvl Kind.litT.tok r' (((s.enter lvl).bump k0).bump wTrue.length)
        have hl4 : (0x74 :: cs).length = 4 + r'.length := by rw [hb]; simp; omega
        simp only [List.length_cons] at hl4
        refine ⟨f1, ?_, by omega⟩
        rw [f2]
        have := skipWs_length_le r'
        simp only [bump_ib, enter_ib, wTrue, List.length_cons, List.length_nil]
        omega
    · -- false
      simp only [hk]
      simp only [show (0x66 == 0x22) = false by decide, show (0x66 == 0x5B) = false by decide,
        show (0x66 == 0x7B) = false by decide, show (0x66 == 0x74) = false by decide, Bool.false_eq_true, ↓reduceIte,
        beq_self_eq_true] at hv
      cases hl : J.lit [0x66, 0x61, 0x6C, 0x73, 0x65] (0x66 :: cs) with
      | more => simp [hl] at hv
      | bad => simp [hl] at hv
      | ok u r' =>
        simp only [hl, J.R.ok.injEq] at hv
        obtain ⟨_, rfl⟩ := hv
        have hb := lit_ok_iff _ _ _ hl
        rw [consumeConst_ok wFalse (0x66 :: cs) r' _ hb]
        obtain ⟨f1, f2⟩ := finishAny_some qs.isEmpty lvl Kind.litF.tok r' (((s.enter lvl).bump k0).bump wFalse.length)
        have hl4 : (0x66 :: cs).length = 5 + r'.length := by rw [hb]; simp; omega
        simp only [List.length_cons] at hl4
        refine ⟨f1, ?_, by omega⟩
        rw [f2]
        have := skipWs_length_le r'
        simp only [bump_ib, enter_ib, wFalse, List.length_cons, List.length_nil]
        omega
    · -- null
      simp only [hk]
      simp only [show (0x6E == 0x22) = false by decide, show (0x6E == 0x5B) = false by decide,
        show (0x6E == 0x7B) = false by decide, show (0x6E == 0x74) = false by decide, show (0x6E == 0x66) = false by decide,
        Bool.false_eq_true, ↓reduceIte, beq_self_eq_true] at hv
      cases hl : J.lit [0x6E, 0x75, 0x6C, 0x6C] (0x6E :: cs) with
      | more => simp [hl] at hv
      | bad => simp [hl] at hv
      | ok u r' =>
        simp only [hl, J.R.ok.injEq] at hv
        obtain ⟨_, rfl⟩ := hv
        have hb := lit_ok_iff _ _ _ hl
        rw [consumeConst_ok wNull (0x6E :: cs) r' _ hb]
        obtain ⟨f1, f2⟩ := finishAny_some qs.isEmpty lvl Kind.litN.tok r' (((s.enter lvl).bump k0).bump wNull.length)
        have hl4 : (0x6E :: cs).length = 4 + r'.length := by rw [hb]; simp; omega
        simp only [List.length_cons] at hl4
        refine ⟨f1, ?_, by omega⟩
        rw [f2]
        have := skipWs_length_le r'
        simp only [bump_ib, enter_ib, wNull, List.length_cons, List.length_nil]
        omega
    · -- number
      simp only [hk]
      have e1 : (c == 0x22) = false := by simpa using n1
      have e2 : (c == 0x5B) = false := by simpa using n2
      have e3 : (c == 0x7B) = false := by simpa using n3
      have e4 : (c == 0x74) = false := by simpa using n4
      have e5 : (c == 0x66) = false := by simpa using n5
      have e6 : (c == 0x6E) = false := by simpa using n6
      simp only [e1, e2, e3, e4, e5, e6, Bool.false_eq_true, ↓reduceIte] at hv
      cases hn : J.numStrict (c :: cs) with
      | more => simp [hn] at hv
      | bad => simp [hn] at hv
      | ok u r' =>
        simp only [hn, J.R.ok.injEq] at hv
        obtain ⟨_, rfl⟩ := hv
        obtain ⟨h1, h2⟩ := numStrict_forward (c :: cs) r' ((s.enter lvl).bump k0) hn hd
        rw [h1]
        obtain ⟨f1, f2⟩ := finishAny_some qs.isEmpty lvl Kind.num.tok r' (((s.enter lvl).bump k0).bump ((c :: cs).length - r'.length))
        simp only [List.length_cons] at h2
        refine ⟨f1, ?_, by omega⟩
        rw [f2]
        have := skipWs_length_le r'
        simp only [bump_ib, enter_ib, List.length_cons]
        omega


end Mime.JsonForward

namespace Mime.JsonForward
open Mime Mime.Json Mime.Spec Mime.JsonLeaf

theorem items_acc_mem (strict : Bool) : ∀ (fuel : Nat) (b : Bytes) (acc : List J.JVal) (first : Bool) (xs : List J.JVal) (r : Bytes),
    J.items strict fuel b acc first = .ok (.arr xs) r → ∀ a ∈ acc, a ∈ xs := by
  intro fuel
  induction fuel with
  | zero => intro b acc first xs r h; simp [J.items] at h
  | succ f ih =>
    intro b acc first xs r h a ha
    simp only [J.items] at h
    split at h
    · cases h
    · split at h
      · simp only [J.R.ok.injEq, J.JVal.arr.injEq] at h; rw [← h.1]; simpa using ha
      · split at h
        · cases h
        · cases h
        · split at h
          · cases h
          · split at h
            · exact ih _ _ _ _ _ h a (List.mem_cons_of_mem _ ha)
            · split at h
              · simp only [J.R.ok.injEq, J.JVal.arr.injEq] at h; rw [← h.1]; simp [ha]
              · cases h

theorem members_acc_mem (strict : Bool) : ∀ (fuel : Nat) (b : Bytes) (acc : List (Bytes × J.JVal)) (first : Bool)
    (ms : List (Bytes × J.JVal)) (r : Bytes),
    J.members strict fuel b acc first = .ok (.obj ms) r → ∀ a ∈ acc, a ∈ ms := by
  intro fuel
  induction fuel with
  | zero => intro b acc first ms r h; simp [J.members] at h
  | succ f ih =>
    intro b acc first ms r h a ha
    simp only [J.members] at h
    split at h
    · cases h
    · split at h
      · simp only [J.R.ok.injEq, J.JVal.obj.injEq] at h; rw [← h.1]; simpa using ha
      · split at h
        · cases h
        · split at h
          · cases h
          · cases h
          · split at h
            · cases h
            · split at h
              · cases h
              · split at h
                · cases h
                · cases h
                · split at h
                  · cases h
                  · split at h
                    · exact ih _ _ _ _ _ h a (List.mem_cons_of_mem _ ha)
                    · split at h
                      · simp only [J.R.ok.injEq, J.JVal.obj.injEq] at h; rw [← h.1]; simp [ha]
                      · cases h

theorem value_skipWs (strict : Bool) (fuel : Nat) (b : Bytes) : J.value strict fuel b = J.value strict fuel (J.skipWs b) := by
  cases fuel with
  | zero => simp [J.value]
  | succ f => simp only [J.value, skipWs_idem]

theorem step_items (qs : List Gen.Json.Query) (cap f : Nat) (hV : FValue qs cap f) (hI : FItems qs cap f) :
    FItems qs cap (f + 1) := by
  intro L b acc first xs r s hv hx
  simp only [J.items] at hv
  cases hsk : J.skipWs b with
  | nil => simp [hsk] at hv
  | cons c cs =>
    simp only [hsk] at hv
    have hcs := consumeSpace_spec b s
    rw [hsk] at hcs
    have hlen : b.length = (b.length - (c :: cs).length) + (cs.length + 1) := by
      have := skipWs_length_le b
      rw [hsk] at this
      simp only [List.length_cons] at this ⊢
      omega
    simp only [arrayLoop, hcs]
    generalize hk0 : b.length - (c :: cs).length = k0 at hlen ⊢
    by_cases hc : (c == 0x5D) = true
    · -- closing bracket
      simp only [hc, ↓reduceIte]
      simp only [hc, Bool.true_and] at hv
      split at hv
      · simp only [J.R.ok.injEq] at hv
        obtain ⟨_, rfl⟩ := hv
        refine ⟨by simp, ?_, by omega⟩
        simp only [pop_ib, bump_ib]; omega
      · -- strict and not first: the spec tries to read a value starting with ']' and fails
        exfalso
        have hc' : c = 0x5D := by simpa using hc
        subst hc'
        cases f with
        | zero => simp [J.value] at hv
        | succ f' =>
          simp [J.value, J.skipWs, J.ws, J.numStrict, J.dropMinus, J.digit] at hv
    · have hc' : (c == 0x5D) = false := by simpa using hc
      simp only [hc', Bool.false_and, Bool.false_eq_true, ↓reduceIte] at hv ⊢
      cases hval : J.value true f (c :: cs) with
      | more => simp [hval] at hv
      | bad => simp [hval] at hv
      | ok v r1 =>
        simp only [hval] at hv
        cases hs1 : J.skipWs r1 with
        | nil => simp [hs1] at hv
        | cons d ds =>
          simp only [hs1] at hv
          by_cases hd1 : (d == 0x2C) = true
          · simp only [hd1, ↓reduceIte] at hv
            have hvx : v ∈ xs := items_acc_mem true f ds (v :: acc) false xs r hv v (List.mem_cons_self ..)
            have hdl : Delim r1 := delim_of_skipWs r1 d ds hs1 (Or.inl (by simpa using hd1))
            obtain ⟨a1, a2, a3⟩ := hV L (c :: cs) v r1 (s.bump k0) hval hdl (hx v hvx)
            generalize consumeAny qs cap f L (c :: cs) (s.bump k0) = res at a1 a2
            obtain ⟨rv, s2⟩ := res
            simp only at a1 a2
            subst a1
            rw [hs1]
            simp only [hd1, ↓reduceIte]
            obtain ⟨i1, i2, i3⟩ := hI L ds (v :: acc) false xs r s2.bump hv hx
            have h1 := skipWs_length_le r1
            rw [hs1] at h1 a2
            simp only [List.length_cons, bump_ib] at h1 a2 a3 i2
            refine ⟨i1, ?_, by omega⟩
            rw [i2]
            omega
          · have hd1' : (d == 0x2C) = false := by simpa using hd1
            simp only [hd1', Bool.false_eq_true, ↓reduceIte] at hv
            split at hv
            · rename_i hd2
              simp only [J.R.ok.injEq, J.JVal.arr.injEq] at hv
              obtain ⟨hxs, rfl⟩ := hv
              have hvx : v ∈ xs := by rw [← hxs]; simp
              have hdl : Delim r1 := delim_of_skipWs r1 d ds hs1 (Or.inr (Or.inl (by simpa using hd2)))
              obtain ⟨a1, a2, a3⟩ := hV L (c :: cs) v r1 (s.bump k0) hval hdl (hx v hvx)
              generalize consumeAny qs cap f L (c :: cs) (s.bump k0) = res at a1 a2
              obtain ⟨rv, s2⟩ := res
              simp only at a1 a2
              subst a1
              rw [hs1]
              simp only [hd1', Bool.false_eq_true, ↓reduceIte, hd2]
              have h1 := skipWs_length_le r1
              rw [hs1] at h1 a2
              simp only [List.length_cons, bump_ib] at h1 a2 a3
              refine ⟨by simp, ?_, by omega⟩
              simp only [pop_ib, bump_ib, a2]
              omega
            · cases hv

end Mime.JsonForward

namespace Mime.JsonForward
open Mime Mime.Json Mime.Spec Mime.JsonLeaf

@[simp] theorem applyQuery_ib (q : Option Gen.Json.Query) (v : Bytes) (s : PState) : (applyQuery q v s).ib = s.ib := by
  unfold applyQuery
  split
  · rfl
  · split <;> split <;> rfl

theorem step_members (qs : List Gen.Json.Query) (cap f : Nat) (hV : FValue qs cap f) (hM : FMembers qs cap f) :
    FMembers qs cap (f + 1) := by
  intro L b acc first ms r s hv hx
  simp only [J.members] at hv
  cases hsk : J.skipWs b with
  | nil => simp [hsk] at hv
  | cons c cs =>
    simp only [hsk] at hv
    have hcs := consumeSpace_spec b s
    rw [hsk] at hcs
    have hlen : b.length = (b.length - (c :: cs).length) + (cs.length + 1) := by
      have := skipWs_length_le b
      rw [hsk] at this
      simp only [List.length_cons] at this ⊢
      omega
    simp only [objectLoop, hcs]
    generalize hk0 : b.length - (c :: cs).length = k0 at hlen ⊢
    by_cases hc : (c == 0x7D) = true
    · simp only [hc, ↓reduceIte]
      simp only [hc, Bool.true_and] at hv
      split at hv
      · simp only [J.R.ok.injEq] at hv
        obtain ⟨_, rfl⟩ := hv
        refine ⟨by simp, ?_, by omega⟩
        simp only [bump_ib]; omega
      · exfalso
        have hc' : c = 0x7D := by simpa using hc
        subst hc'
        simp at hv
    · have hc' : (c == 0x7D) = false := by simpa using hc
      simp only [hc', Bool.false_and, Bool.false_eq_true, ↓reduceIte] at hv ⊢
      by_cases hq : (c != 0x22) = true
      · simp [hq] at hv
      · have hq' : (c != 0x22) = false := by simpa using hq
        simp only [hq', Bool.false_eq_true, ↓reduceIte] at hv ⊢
        cases hstr : J.str true cs [] with
        | more => simp [hstr] at hv
        | bad => simp [hstr] at hv
        | ok key r0 =>
          simp only [hstr] at hv
          obtain ⟨k1, k2⟩ := str_forward true cs [] key r0 (s.bump k0).bump hstr
          rw [k1]
          simp only
          cases hs0 : J.skipWs r0 with
          | nil => simp [hs0] at hv
          | cons d ds =>
            simp only [hs0] at hv
            have hcs0 := consumeSpace_spec r0 ((((s.bump k0).bump).bump (cs.length - r0.length)).push ((consumed cs r0).dropLast))
            rw [hs0] at hcs0
            rw [hcs0]
            simp only
            by_cases hcol : (d != 0x3A) = true
            · simp [hcol] at hv
            · have hcol' : (d != 0x3A) = false := by simpa using hcol
              simp only [hcol', Bool.false_eq_true, ↓reduceIte] at hv ⊢
              cases hval : J.value true f ds with
              | more => simp [hval] at hv
              | bad => simp [hval] at hv
              | ok v r2 =>
                simp only [hval] at hv
                -- the model skips the white space before the value itself
                cases hs2 : J.skipWs ds with
                | nil =>
                  exfalso
                  rw [value_skipWs, hs2] at hval
                  cases f <;> simp [J.value, J.skipWs] at hval
                | cons e es =>
                  have hcs2 := consumeSpace_spec ds (((((s.bump k0).bump).bump (cs.length - r0.length)).push ((consumed cs r0).dropLast)).bump (r0.length - (d :: ds).length)).bump
                  rw [hs2] at hcs2
                  rw [hcs2]
                  simp only
                  have hval' : J.value true f (e :: es) = .ok v r2 := by rw [← hs2, ← value_skipWs]; exact hval
                  cases hs3 : J.skipWs r2 with
                  | nil => simp [hs3] at hv
                  | cons g gs =>
                    simp only [hs3] at hv
                    have hdelim : (g = 0x2C ∨ g = 0x5D ∨ g = 0x7D) := by
                      by_cases hg1 : (g == 0x2C) = true
                      · left; simpa using hg1
                      · have hg1' : (g == 0x2C) = false := by simpa using hg1
                        simp only [hg1', Bool.false_eq_true, ↓reduceIte] at hv
                        split at hv
                        · rename_i hg2; right; right; simpa using hg2
                        · cases hv
                    have hdl : Delim r2 := delim_of_skipWs r2 g gs hs3 hdelim
                    have hvm : (key, v) ∈ ms := by
                      by_cases hg1 : (g == 0x2C) = true
                      · simp only [hg1, ↓reduceIte] at hv
                        exact members_acc_mem true f gs ((key, v) :: acc) false ms r hv (key, v) (List.mem_cons_self ..)
                      · have hg1' : (g == 0x2C) = false := by simpa using hg1
                        simp only [hg1', Bool.false_eq_true, ↓reduceIte] at hv
                        split at hv
                        · simp only [J.R.ok.injEq, J.JVal.obj.injEq] at hv
                          rw [← hv.1]; simp
                        · cases hv
                    obtain ⟨a1, a2, a3⟩ := hV L (e :: es) v r2 _ hval' hdl (hx (key, v) hvm)
                    generalize consumeAny qs cap f L (e :: es) _ = res at a1 a2
                    obtain ⟨rv, s6⟩ := res
                    simp only at a1 a2
                    subst a1
                    rw [hs3]
                    simp only
                    have h0 := skipWs_length_le r0
                    have h2 := skipWs_length_le ds
                    have h3 := skipWs_length_le r2
                    rw [hs0] at h0
                    rw [hs2] at h2
                    rw [hs3] at h3 a2
                    simp only [List.length_cons, bump_ib, push_ib] at h0 h2 h3 a2 a3 k2
                    by_cases hg1 : (g == 0x2C) = true
                    · simp only [hg1, ↓reduceIte] at hv ⊢
                      obtain ⟨i1, i2, i3⟩ := hM L gs ((key, v) :: acc) false ms r _ hv hx
                      refine ⟨i1, ?_, by omega⟩
                      rw [i2]
                      simp only [bump_ib, pop_ib, applyQuery_ib, a2]
                      omega
                    · have hg1' : (g == 0x2C) = false := by simpa using hg1
                      simp only [hg1', Bool.false_eq_true, ↓reduceIte] at hv ⊢
                      split at hv
                      · rename_i hg2
                        simp only [J.R.ok.injEq] at hv
                        obtain ⟨_, rfl⟩ := hv
                        simp only [hg2, ↓reduceIte]
                        refine ⟨by simp, ?_, by omega⟩
                        simp only [bump_ib, pop_ib, applyQuery_ib, a2]
                        omega
                      · cases hv

/-- **forward simulation**: for every fuel, level, input and state, whatever the reference
    RFC 8259 recogniser accepts is consumed by the scanner, counting every byte -/
theorem forward_all (qs : List Gen.Json.Query) (cap : Nat) : ∀ fuel : Nat,
    FValue qs cap fuel ∧ FItems qs cap fuel ∧ FMembers qs cap fuel := by
  intro fuel
  induction fuel with
  | zero =>
    refine ⟨?_, ?_, ?_⟩
    · intro lvl b v r s h; simp [J.value] at h
    · intro L b acc first xs r s h; simp [J.items] at h
    · intro L b acc first ms r s h; simp [J.members] at h
  | succ f ih =>
    obtain ⟨hV, hI, hM⟩ := ih
    exact ⟨step_value qs cap f hI hM, step_items qs cap f hV hI, step_members qs cap f hV hM⟩

end Mime.JsonForward
