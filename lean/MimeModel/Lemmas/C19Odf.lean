import MimeModel.Props.C19_Detect
import MimeModel.Lemmas.ZipConverse
import MimeModel.Lemmas.ZipOdf
import MimeModel.Model.Closed
/-
  C19, the OpenDocument / EPUB clause, from the zip layout, through `Detect` (limit 0):

    "For archives produced by a standard zip writer and examined in full: … one whose first entry
     is the stored 'mimetype' file naming an OpenDocument or EPUB type is reported as that type.
     … every such verdict has application/zip as its parent."
-/
namespace Mime.C19Odf
open Mime.C19
open Mime Mime.Cust Mime.Tree Mime.WalkPath Mime.Spec.Zip Mime.ZipLayout Mime.ZipConverse Mime.ZipOdf

/-! ### 2. the regenerated detectors -/

/-- `offset([]byte("mimetype" + mime), 30)` of zip.go, as the extractor renders it -/
def odfDet (mime : Bytes) : Det := .expr (.and (.lenGe 31) (.prefixAt 30 (mtB ++ mime)))

/-- a template: the child `t` of the zip child `d` -/
def tplChild (d t : String) : Tree Info := ((zipChild d).children.find? (isNamed t)).getD Gen.builtin

/-- the twelve nodes -/
def odfNodes : List (Tree Info) :=
  [zipChild "epub", zipChild "odt", tplChild "odt" "ott", zipChild "ods", tplChild "ods" "ots",
   zipChild "odp", tplChild "odp" "otp", zipChild "odg", tplChild "odg" "otg",
   zipChild "odf", zipChild "odc", zipChild "sxc"]

/-- they are the nodes of these names (no lookup fell through to its default) -/
theorem odf_names : odfNodes.map (·.info.name) =
    ["epub", "odt", "ott", "ods", "ots", "odp", "otp", "odg", "otg", "odf", "odc", "sxc"] := by decide

/-- **2. detector facts**: the signature of each of the twelve nodes is `mimetype` followed by the
    node's own registered MIME type, looked for at offset 30 -/
theorem odf_dets : ∀ t ∈ odfNodes, t.info.det =
    .expr (.and (.lenGe 31) (.prefixAt 30 (ofString "mimetype" ++ t.info.mime))) := by
  rw [mtB_eq]
  have h : odfNodes.all (fun t => t.info.det == odfDet t.info.mime) = true := by decide
  intro t ht
  simpa [odfDet] using List.all_eq_true.mp h t ht

/-- the registered types, readably -/
theorem odf_mimes : odfNodes.map (·.info.mime) =
    [ofString "application/epub+zip",
     ofString "application/vnd.oasis.opendocument.text",
     ofString "application/vnd.oasis.opendocument.text-template",
     ofString "application/vnd.oasis.opendocument.spreadsheet",
     ofString "application/vnd.oasis.opendocument.spreadsheet-template",
     ofString "application/vnd.oasis.opendocument.presentation",
     ofString "application/vnd.oasis.opendocument.presentation-template",
     ofString "application/vnd.oasis.opendocument.graphics",
     ofString "application/vnd.oasis.opendocument.graphics-template",
     ofString "application/vnd.oasis.opendocument.formula",
     ofString "application/vnd.oasis.opendocument.chart",
     ofString "application/vnd.sun.xml.calc"] := by decide +kernel

/-! ### 3. acceptance -/

theorem accepts_congr (ext : Ext) (raw : Bytes) (lim : Nat) (i j : Info) (h : i.det = j.det) :
    accepts ext raw lim i = accepts ext raw lim j := by
  unfold accepts; rw [h]

/-- what such a check computes on at least 30 bytes -/
theorem accepts_odfDet (ext : Ext) (raw : Bytes) (lim : Nat) (i : Info) (m : Bytes)
    (hd : i.det = odfDet m) (hl : 30 ≤ raw.length) :
    accepts ext raw lim i = (decide (31 ≤ raw.length) && hasPrefix (raw.drop 30) (mtB ++ m)) := by
  unfold accepts Cust.detEval
  rw [hd]
  by_cases h31 : 31 ≤ raw.length <;> simp [odfDet, Det.evalWith, BExp.eval, hl, h31]

/-- **3. acceptance**: the node whose type the stored `mimetype` file names accepts the archive
    (limit 0: the header is the whole input) -/
theorem odf_accepts (ext : Ext) (e : Entry) (es : List Entry) (tail : Bytes) (t : Tree Info)
    (ht : t ∈ odfNodes) (h : StoredMimetype e t.info.mime) :
    accepts ext (archive (e :: es) tail) 0 t.info = true := by
  have hd : t.info.det = odfDet t.info.mime := by
    have := odf_dets t ht; rw [mtB_eq] at this; exact this
  obtain ⟨hp, hl⟩ := mimetype_at_30 h es tail
  rw [mtB_eq] at hp
  rw [accepts_odfDet ext _ 0 _ _ hd (by omega), hp]
  simp [hl]

/-! ### 4. the OOXML checks reject such an archive -/

def ooxmlMarkers : List Bytes := [[120, 108, 47], [119, 111, 114, 100, 47], [112, 112, 116, 47]]

theorem ooxmlMarkers_eq : ooxmlMarkers = [ofString "xl/", ofString "word/", ofString "ppt/"] := by
  decide +kernel

/-- **4.** first entry named `mimetype`: the `msoCheck` branch of `zipContains` answers `false`
    at the first entry, for the three OOXML markers -/
theorem ooxml_rejects (e : Entry) (es : List Entry) (tail sig : Bytes) (hwf : e.WF)
    (hname : e.name = ofString "mimetype") (hsig : sig ∈ ooxmlMarkers) :
    zipContains (archive (e :: es) tail) sig true = some false := by
  refine mso_rejects_first_entry e es tail sig hwf ?_ ?_
  · rw [hname, mtB_eq]
    have : ooxmlMarkers.all (fun s => incomp mtB s) = true := by decide
    exact List.all_eq_true.mp this sig hsig
  · rw [hname, mtB_eq]; exact mimetype_skip

/-- hence xlsx, docx and pptx do not accept it -/
theorem ooxml_not_accepts (ext : Ext) (e : Entry) (es : List Entry) (tail : Bytes) (hwf : e.WF)
    (hname : e.name = ofString "mimetype") (n : String) (hn : n ∈ ["xlsx", "docx", "pptx"]) :
    accepts ext (archive (e :: es) tail) 0 (zipChild n).info = false := by
  have hd : ∃ sig ∈ ooxmlMarkers, (zipChild n).info.det = .expr (.prim (.zipContains sig true)) := by
    simp only [List.mem_cons, List.not_mem_nil, or_false] at hn
    rcases hn with rfl | rfl | rfl
    · exact ⟨_, by simp [ooxmlMarkers], child_facts.2.2.1⟩
    · exact ⟨_, by simp [ooxmlMarkers], child_facts.1⟩
    · exact ⟨_, by simp [ooxmlMarkers], child_facts.2.2.2.2.1⟩
  obtain ⟨sig, hs, hd⟩ := hd
  rw [accepts_zipContains ext _ 0 _ sig true hd, ooxml_rejects e es tail sig hwf hname hs]
  rfl

/-! ### which detectors provably reject, which provably accept -/

/-- detectors that reject every buffer starting with `PK\x03\x04` that shows `mimetype ++ ty` at
    offset 30 — recognised by shape: a prefix check at 0 for something else than the signature,
    an OOXML `zipContains` for a marker that is not comparable with `mimetype`, an offset-30
    check for a string that is not comparable with `mimetype ++ ty` -/
def rej (ty : Bytes) : Det → Bool
  | .expr (.prefixAt 0 s) => incomp pk34 s
  | .expr (.prim (.zipContains sig true)) => incomp mtB sig
  | .expr (.and (.lenGe _) (.prefixAt 30 s)) => incomp (mtB ++ ty) s
  | _ => false

theorem rej_sound (ext : Ext) (raw ty : Bytes) (lim : Nat) (i : Info)
    (hpk : hasPrefix raw pk34 = true) (hl : 30 ≤ raw.length)
    (hp : hasPrefix (raw.drop 30) (mtB ++ ty) = true) (h : rej ty i.det = true) :
    accepts ext raw lim i = false := by
  unfold rej at h
  split at h
  · rename_i s hd
    unfold accepts Cust.detEval
    rw [hd]
    simp [Det.evalWith, BExp.eval, incomp_false h hpk]
  · rename_i sig hd
    have hm : hasPrefix (raw.drop 30) mtB = true := by
      rw [hasPrefix_iff] at hp ⊢
      exact List.IsPrefix.trans (List.prefix_append _ _) hp
    rw [accepts_zipContains ext raw lim i sig true hd,
      zipContains_mso_first_name raw sig mtB hl hpk hm h mimetype_skip]
    rfl
  · rename_i k s hd
    unfold accepts Cust.detEval
    rw [hd]
    by_cases hk : k ≤ raw.length <;> simp [Det.evalWith, BExp.eval, hl, hk, incomp_false h hp]
  · cases h

/-- detectors that accept every such buffer: the `Zip` check, and an offset-30 check for a
    beginning of `mimetype ++ ty` -/
def acc (ty : Bytes) (d : Det) : Bool :=
  d == Gen.d_Zip ||
  (match d with
   | .expr (.and (.lenGe 31) (.prefixAt 30 s)) => hasPrefix (mtB ++ ty) s
   | _ => false)

theorem acc_sound (ext : Ext) (raw ty : Bytes) (lim : Nat) (i : Info)
    (hpk : hasPrefix raw pk34 = true) (hl : 31 ≤ raw.length)
    (hp : hasPrefix (raw.drop 30) (mtB ++ ty) = true) (h : acc ty i.det = true) :
    accepts ext raw lim i = true := by
  unfold acc at h
  rw [Bool.or_eq_true] at h
  rcases h with h | h
  · have hd : i.det = Gen.d_Zip := by simpa using h
    obtain ⟨r, rfl⟩ := hasPrefix_iff.mp hpk
    unfold accepts Cust.detEval
    rw [hd]
    simp [Gen.d_Zip, Det.evalWith, BExp.eval, IExp.eval, Cmp.eval, pk34]
  · split at h
    · rename_i s hd
      unfold accepts Cust.detEval
      rw [hd]
      have h30 : 30 ≤ raw.length := by omega
      simp [Det.evalWith, BExp.eval, hl, h30, hasPrefix_trans hp h]
    · cases h

theorem acc_zip (ty : Bytes) : acc ty zipNode.info.det = true := by
  have hd : zipNode.info.det = Gen.d_Zip := by decide
  simp [acc, hd]

/-! ### 5. through `Detect`, generically -/

/-- **the walk on an archive whose first entry is the stored `mimetype` file**: along a path of
    the tree all of whose nodes accept by shape (`acc`), to a node none of whose children accepts,
    the result is that path — unless one of the siblings consulted on the way accepts, and those
    that reject by shape (`rej`) are excluded -/
theorem mimetype_walk (ext : Ext) (T : Tree Info) (e : Entry) (es : List Entry) (tail ty : Bytes)
    (h : StoredMimetype e ty)
    (ps : List (Tree Info → Bool)) (target : Tree Info) (hdesc : descend ps T = some target)
    (hpath : ∀ n ∈ pathNodes ps T, acc ty n.info.det = true)
    (hkids : ∀ c ∈ target.children, accepts ext (archive (e :: es) tail) 0 c.info = false) :
    (detect ext T (archive (e :: es) tail) 0).chain = (T.info :: (pathNodes ps T).map (·.info)).reverse ∨
    (∃ d ∈ rivals ps T, rej ty d.info.det = false ∧ accepts ext (archive (e :: es) tail) 0 d.info = true) := by
  obtain ⟨hp, hl⟩ := mimetype_at_30 h es tail
  rw [mtB_eq] at hp
  have hpk := archive_hasPrefix_pk34 e es tail
  generalize archive (e :: es) tail = raw at *
  have hhdr : header raw 0 = raw := rfl
  simp only [detect, hhdr]
  rcases walk_exact (accepts ext raw 0) ps T target hdesc
      (fun n hn => acc_sound ext raw ty 0 n.info hpk hl hp (hpath n hn)) hkids with hw | ⟨d, hd, hda⟩
  · left; rw [hw]
  · right
    refine ⟨d, hd, ?_, hda⟩
    cases hr : rej ty d.info.det with
    | false => rfl
    | true => rw [rej_sound ext raw ty 0 d.info hpk (by omega) hp hr] at hda; cases hda

/-! ### 5a. EPUB -/

theorem descend_zipPath (n : String) (hf : (zipNode.children.find? (isNamed n)).isSome = true) :
    descend (zipPath n) Gen.builtin = some (zipChild n) ∧
    pathNodes (zipPath n) Gen.builtin = [zipNode, zipChild n] := by
  simp [zipPath, descend, pathNodes, zip_found, child_found n hf]

/-- regenerated: everything consulted before epub (at the root, then below zip); all of it rejects
    by shape -/
theorem epub_rival_names :
    (rivals (zipPath "epub") Gen.builtin).map (·.info.name) = ["xpm", "sevenZ", "xlsx", "docx", "pptx"] ∧
    (rivals (zipPath "epub") Gen.builtin).all (fun d => rej (zipChild "epub").info.mime d.info.det) = true := by
  constructor <;> decide

/-- **EPUB through `Detect`**: an archive whose first entry is the stored `mimetype` file naming
    `application/epub+zip` is reported as EPUB, below application/zip, below the root.  No rival
    remains hypothetical: xpm and 7z (consulted before zip) want other first bytes, xlsx, docx and
    pptx (consulted before epub) are stopped by the first-entry check of `zipContains`. -/
theorem epub_detected (ext : Ext) (e : Entry) (es : List Entry) (tail : Bytes)
    (h : StoredMimetype e (ofString "application/epub+zip")) :
    (detect ext Gen.builtin (archive (e :: es) tail) 0).chain =
      [(zipChild "epub").info, zipNode.info, Gen.builtin.info] := by
  have hm : ofString "application/epub+zip" = (zipChild "epub").info.mime := by decide +kernel
  rw [hm] at h
  obtain ⟨hdesc, hnodes⟩ := descend_zipPath "epub" (by decide)
  rcases mimetype_walk ext Gen.builtin e es tail _ h (zipPath "epub") (zipChild "epub") hdesc
      (by rw [hnodes]; decide) (by have : (zipChild "epub").children = [] := by decide
                                   rw [this]; simp) with hc | ⟨d, hd, hr, _⟩
  · rw [hc, hnodes]; rfl
  · exfalso
    rw [List.all_eq_true.mp epub_rival_names.2 d hd] at hr
    cases hr

/-! ### 5b. the OpenDocument documents (and sxc) -/

/-- the zip children with an offset-30 signature that come after epub (since the repair of
    tree.go they are consulted before apk and jar) -/
def odfDocs : List String := ["odt", "ods", "odp", "odg", "odf", "odc", "sxc"]

/-- the regenerated facts used for a document `n`: it is a child of zip, with the offset-30
    signature for its own type, so are its children (the template), and every detector consulted
    before it — at the root and below zip — rejects by shape -/
def docOK (n : String) : Bool :=
  (zipNode.children.find? (isNamed n)).isSome &&
  ((zipChild n).info.det == odfDet (zipChild n).info.mime) &&
  (zipChild n).children.all (fun c => c.info.det == odfDet c.info.mime) &&
  (rivals (zipPath n) Gen.builtin).all (fun d => rej (zipChild n).info.mime d.info.det)

theorem docs_ok : odfDocs.all docOK = true := by decide

/-- regenerated: the order below zip — the OpenDocument formats in front of apk and jar -/
theorem zip_children_order : zipNode.children.map (·.info.name) =
    ["xlsx", "docx", "pptx", "epub", "odt", "ods", "odp", "odg", "odf", "odc", "sxc", "apk", "jar"] := by
  decide

/-- none of the detectors consulted before odt … sxc fails to reject by shape; the last of them,
    sxc, is preceded by everything but apk and jar -/
theorem odf_rival_names :
    (∀ n ∈ odfDocs, ((rivals (zipPath n) Gen.builtin).filter
      (fun d => !rej (zipChild n).info.mime d.info.det)).map (·.info.name) = []) ∧
    (rivals (zipPath "odt") Gen.builtin).map (·.info.name) =
      ["xpm", "sevenZ", "xlsx", "docx", "pptx", "epub"] ∧
    (rivals (zipPath "sxc") Gen.builtin).map (·.info.name) =
      ["xpm", "sevenZ", "xlsx", "docx", "pptx", "epub", "odt", "ods", "odp", "odg", "odf", "odc"] := by
  refine ⟨by decide, by decide, by decide⟩

/-- **OpenDocument through `Detect`**: for `n` among odt, ods, odp, odg, odf, odc, sxc: an archive
    whose first entry is the stored `mimetype` file naming `n`'s type, and that does not go on to
    spell the type of a child of `n` (its template), is reported as `n`, below application/zip,
    below the root.  No rival remains hypothetical: xpm, 7z, xlsx, docx, pptx, epub and the
    OpenDocument formats in front of `n` are excluded by proof, apk and jar are consulted after
    `n` (tree.go as repaired). -/
theorem odf_detected (ext : Ext) (n : String) (hn : n ∈ odfDocs) (e : Entry) (es : List Entry)
    (tail : Bytes) (h : StoredMimetype e (zipChild n).info.mime)
    (hkids : ∀ c ∈ (zipChild n).children,
      hasPrefix ((archive (e :: es) tail).drop 30) (ofString "mimetype" ++ c.info.mime) = false) :
    (detect ext Gen.builtin (archive (e :: es) tail) 0).chain =
      [(zipChild n).info, zipNode.info, Gen.builtin.info] := by
  have hok := List.all_eq_true.mp docs_ok n hn
  simp only [docOK, Bool.and_eq_true, beq_iff_eq] at hok
  obtain ⟨⟨⟨hf, hdet⟩, hcd⟩, hriv⟩ := hok
  obtain ⟨hdesc, hnodes⟩ := descend_zipPath n hf
  have hl := archive_length_38 h es tail
  have hpath : ∀ x ∈ pathNodes (zipPath n) Gen.builtin, acc (zipChild n).info.mime x.info.det = true := by
    rw [hnodes]
    intro x hx
    simp only [List.mem_cons, List.not_mem_nil, or_false] at hx
    rcases hx with rfl | rfl
    · exact acc_zip _
    · rw [hdet]
      simp only [acc, odfDet, Bool.or_eq_true]
      right
      rw [hasPrefix_iff]
      exact List.prefix_refl _
  have hkids' : ∀ c ∈ (zipChild n).children, accepts ext (archive (e :: es) tail) 0 c.info = false := by
    intro c hc
    have hcd' : c.info.det = odfDet c.info.mime := by
      simpa using List.all_eq_true.mp hcd c hc
    have hk := hkids c hc
    rw [mtB_eq] at hk
    rw [accepts_odfDet ext _ 0 _ _ hcd' (by omega), hk, Bool.and_false]
  rcases mimetype_walk ext Gen.builtin e es tail _ h (zipPath n) (zipChild n) hdesc hpath hkids' with
    hc | ⟨d, hd, hr, _⟩
  · rw [hc, hnodes]; rfl
  · rw [List.all_eq_true.mp hriv d hd] at hr
    cases hr

/-! ### 5c. the templates -/

/-- (document, template) -/
def odfTemplates : List (String × String) := [("odt", "ott"), ("ods", "ots"), ("odp", "otp"), ("odg", "otg")]

def tplPath (d t : String) : List (Tree Info → Bool) := [isNamed "zip", isNamed d, isNamed t]

/-- the regenerated facts used for a template `t` of `d`: `d` is a child of zip, `t` a child of `d`
    and a leaf, both have the offset-30 signature for their own type, the document's signature is
    a beginning of the template's, and every detector consulted before them rejects by shape -/
def tplOK (dt : String × String) : Bool :=
  (zipNode.children.find? (isNamed dt.1)).isSome &&
  ((zipChild dt.1).children.find? (isNamed dt.2)).isSome &&
  ((zipChild dt.1).info.det == odfDet (zipChild dt.1).info.mime) &&
  ((tplChild dt.1 dt.2).info.det == odfDet (tplChild dt.1 dt.2).info.mime) &&
  hasPrefix (tplChild dt.1 dt.2).info.mime (zipChild dt.1).info.mime &&
  (tplChild dt.1 dt.2).children.isEmpty &&
  (rivals (tplPath dt.1 dt.2) Gen.builtin).all (fun x => rej (tplChild dt.1 dt.2).info.mime x.info.det)

theorem tpls_ok : odfTemplates.all tplOK = true := by decide

theorem tpl_rival_names : ∀ dt ∈ odfTemplates,
    ((rivals (tplPath dt.1 dt.2) Gen.builtin).filter
      (fun x => !rej (tplChild dt.1 dt.2).info.mime x.info.det)).map (·.info.name) = [] := by
  decide

theorem tpl_found (d t : String) (h : ((zipChild d).children.find? (isNamed t)).isSome = true) :
    (zipChild d).children.find? (isNamed t) = some (tplChild d t) := by
  unfold tplChild
  cases hf : (zipChild d).children.find? (isNamed t) with
  | none => rw [hf] at h; cases h
  | some c => rfl

/-- **templates through `Detect`**: for (d, t) among (odt, ott), (ods, ots), (odp, otp), (odg, otg):
    an archive whose first entry is the stored `mimetype` file naming the template's type is
    reported as the template, below its document type (whose signature is a beginning of the
    template's: it accepts too), below application/zip, below the root.  No rival remains
    hypothetical: xpm, 7z, xlsx, docx, pptx, epub and the OpenDocument formats in front of `d` are
    excluded by proof, apk and jar are consulted after `d`; `t` is the only child of `d` and a
    leaf. -/
theorem template_detected (ext : Ext) (d t : String) (hdt : (d, t) ∈ odfTemplates) (e : Entry)
    (es : List Entry) (tail : Bytes) (h : StoredMimetype e (tplChild d t).info.mime) :
    (detect ext Gen.builtin (archive (e :: es) tail) 0).chain =
      [(tplChild d t).info, (zipChild d).info, zipNode.info, Gen.builtin.info] := by
  have hok := List.all_eq_true.mp tpls_ok (d, t) hdt
  simp only [tplOK, Bool.and_eq_true, beq_iff_eq, List.isEmpty_iff] at hok
  obtain ⟨⟨⟨⟨⟨⟨hfd, hft⟩, hdd⟩, hdt'⟩, hpre⟩, hleaf⟩, hriv⟩ := hok
  have hdesc : descend (tplPath d t) Gen.builtin = some (tplChild d t) ∧
      pathNodes (tplPath d t) Gen.builtin = [zipNode, zipChild d, tplChild d t] := by
    simp [tplPath, descend, pathNodes, zip_found, child_found d hfd, tpl_found d t hft]
  obtain ⟨hdesc, hnodes⟩ := hdesc
  have hpath : ∀ x ∈ pathNodes (tplPath d t) Gen.builtin,
      acc (tplChild d t).info.mime x.info.det = true := by
    rw [hnodes]
    intro x hx
    simp only [List.mem_cons, List.not_mem_nil, or_false] at hx
    rcases hx with rfl | rfl | rfl
    · exact acc_zip _
    · rw [hdd]
      simp only [acc, odfDet, Bool.or_eq_true]
      right
      rw [hasPrefix_append_left]; exact hpre
    · rw [hdt']
      simp only [acc, odfDet, Bool.or_eq_true]
      right
      rw [hasPrefix_iff]
      exact List.prefix_refl _
  have hkids : ∀ c ∈ (tplChild d t).children, accepts ext (archive (e :: es) tail) 0 c.info = false := by
    rw [hleaf]; simp
  rcases mimetype_walk ext Gen.builtin e es tail _ h (tplPath d t) (tplChild d t) hdesc hpath hkids with
    hc | ⟨x, hx, hr, _⟩
  · rw [hc, hnodes]; rfl
  · rw [List.all_eq_true.mp hriv x hx] at hr
    cases hr

/-! ### 5d. the template discharged for a stored file; apk and jar

  Since the repair of tree.go (OpenDocument formats in front of apk and jar) the two lemmas on apk
  and jar below are no longer used by the `Detect`-level theorems of this file; they are kept as
  facts of their own: an OpenDocument archive that carries no APK/JAR marker name is not an APK
  or JAR for `zipContains` either. -/

/-- the entry names the APK check (five) and the JAR check (the last) look for -/
def apkJarMarkers : List Bytes :=
  [[65, 110, 100, 114, 111, 105, 100, 77, 97, 110, 105, 102, 101, 115, 116, 46, 120, 109, 108],
   [77, 69, 84, 65, 45, 73, 78, 70, 47, 99, 111, 109, 47, 97, 110, 100, 114, 111, 105, 100, 47, 98, 117, 105, 108, 100, 47, 103, 114, 97, 100, 108, 101, 47, 97, 112, 112, 45, 109, 101, 116, 97, 100, 97, 116, 97, 46, 112, 114, 111, 112, 101, 114, 116, 105, 101, 115],
   [99, 108, 97, 115, 115, 101, 115, 46, 100, 101, 120],
   [114, 101, 115, 111, 117, 114, 99, 101, 115, 46, 97, 114, 115, 99],
   [114, 101, 115, 47, 100, 114, 97, 119, 97, 98, 108, 101],
   [77, 69, 84, 65, 45, 73, 78, 70, 47, 77, 65, 78, 73, 70, 69, 83, 84, 46, 77, 70]]

theorem apkJarMarkers_eq : apkJarMarkers =
    [ofString "AndroidManifest.xml", ofString "META-INF/com/android/build/gradle/app-metadata.properties",
     ofString "classes.dex", ofString "resources.arsc", ofString "res/drawable",
     ofString "META-INF/MANIFEST.MF"] := by decide +kernel

/-- apk and jar, rivals as `zipContains` verdicts: no marker found ⇒ neither accepts -/
theorem apk_jar_not_accept (ext : Ext) (raw : Bytes) (lim : Nat)
    (h : ∀ s ∈ apkJarMarkers, zipContains raw s false = some false) :
    accepts ext raw lim (zipChild "apk").info = false ∧ accepts ext raw lim (zipChild "jar").info = false := by
  have ha : (zipChild "apk").info.det = Gen.d_APK := by decide
  have hj : (zipChild "jar").info.det = Gen.d_Jar := by decide
  simp only [apkJarMarkers, List.forall_mem_cons, List.not_mem_nil, false_imp_iff, implies_true, and_true] at h
  obtain ⟨h1, h2, h3, h4, h5, h6⟩ := h
  constructor
  · unfold accepts Cust.detEval
    rw [ha]
    simp [Gen.d_APK, Det.evalWith, BExp.eval, Prim.eval, h1, h2, h3, h4, h5]
  · unfold accepts Cust.detEval
    rw [hj]
    simp [Gen.d_Jar, Det.evalWith, BExp.eval, Prim.eval, h6]

/-- **apk and jar from the layout**: in a clean archive (entry bodies and tail free of embedded
    local-header signatures) whose first entry is named `mimetype` and none of whose other entry
    names is comparable with an APK/JAR marker, no marker is found -/
theorem apk_jar_markers_absent (e : Entry) (es : List Entry) (tail : Bytes)
    (hname : e.name = ofString "mimetype")
    (hwf : ∀ x ∈ e :: es, x.WF) (hclean : ∀ x ∈ e :: es, x.Clean) (htail : CleanTail tail)
    (hnames : ∀ x ∈ es, ∀ s ∈ apkJarMarkers, incomp x.name s = true) :
    ∀ s ∈ apkJarMarkers, zipContains (archive (e :: es) tail) s false = some false := by
  intro s hs
  refine no_marker_plain_zip' (e :: es) tail s false hwf hclean htail ?_
  intro x hx
  have hi : incomp x.name s = true := by
    rcases List.mem_cons.mp hx with rfl | hx
    · rw [hname, mtB_eq]
      have : apkJarMarkers.all (fun s => incomp mtB s) = true := by decide
      exact List.all_eq_true.mp this s hs
    · exact hnames x hx s hs
  simpa [incomp] using hi

/-- the templates' types are their documents' types followed by `-template` -/
theorem tpl_dash : ∀ n ∈ odfDocs, ∀ c ∈ (zipChild n).children,
    hasPrefix c.info.mime ((zipChild n).info.mime ++ [45]) = true := by decide

/-- **the template from the layout**: when the stored `mimetype` file *is* the type (no further
    bytes), has no data descriptor and another entry follows, the file does not go on to spell
    the template's type: after the type comes `P` of the next local header, not `-` -/
theorem stored_exact_kids (n : String) (hn : n ∈ odfDocs) (e : Entry) (es : List Entry) (tail : Bytes)
    (h : StoredMimetype e (zipChild n).info.mime) (hdata : e.data = (zipChild n).info.mime)
    (hdesc : e.desc = []) (hes : es ≠ []) :
    ∀ c ∈ (zipChild n).children,
      hasPrefix ((archive (e :: es) tail).drop 30) (ofString "mimetype" ++ c.info.mime) = false := by
  intro c hc
  obtain ⟨e2, es', rfl⟩ : ∃ e2 es', es = e2 :: es' := by
    cases es with
    | nil => exact absurd rfl hes
    | cons a b => exact ⟨a, b, rfl⟩
  rw [drop30 h, mtB_eq, hasPrefix_append_left, hdata, hdesc, List.nil_append, archive_pk34]
  cases hp : hasPrefix _ c.info.mime with
  | false => rfl
  | true =>
    exfalso
    have h2 := hasPrefix_trans hp (tpl_dash n hn c hc)
    rw [hasPrefix_append_left] at h2
    simp [hasPrefix, pk34, List.isPrefixOf] at h2

/-- **OpenDocument through `Detect`, from the layout alone** (the property's sentence): an archive
    whose first entry is the stored `mimetype` file consisting of the type of `n` (one of odt, ods,
    odp, odg, odf, odc, sxc), without data descriptor, followed by at least one more entry, is
    reported as `n`, with application/zip as its parent and the root above.  Nothing is asked of
    the other entries nor of the tail (no well-formedness, no cleanliness, no condition on their
    names): every detector consulted before `n` decides on the first entry, and apk and jar come
    after `n`.  What is still needed, and why: `hdata`, `hdesc`, `hes` make the byte after the type
    the `P` of the next header, so that the file does not spell `<type>-template` (`hkids` of
    `odf_detected`; vacuous for odf, odc, sxc, which have no template). -/
theorem odf_reported (ext : Ext) (n : String) (hn : n ∈ odfDocs) (e : Entry) (es : List Entry)
    (tail : Bytes) (h : StoredMimetype e (zipChild n).info.mime)
    (hdata : e.data = (zipChild n).info.mime) (hdesc : e.desc = []) (hes : es ≠ []) :
    (detect ext Gen.builtin (archive (e :: es) tail) 0).chain =
      [(zipChild n).info, zipNode.info, Gen.builtin.info] :=
  odf_detected ext n hn e es tail h (stored_exact_kids n hn e es tail h hdata hdesc hes)

/-- **templates through `Detect`, from the layout alone**: nothing beyond the first entry is needed
    (`template_detected` under its property-level name: the hypotheses on the other entries and on
    the tail that this theorem carried while apk and jar were consulted first are gone) -/
theorem template_reported (ext : Ext) (d t : String) (hdt : (d, t) ∈ odfTemplates) (e : Entry)
    (es : List Entry) (tail : Bytes) (h : StoredMimetype e (tplChild d t).info.mime) :
    (detect ext Gen.builtin (archive (e :: es) tail) 0).chain =
      [(tplChild d t).info, (zipChild d).info, zipNode.info, Gen.builtin.info] :=
  template_detected ext d t hdt e es tail h

/-! ### 6. the parent clause -/

/-- the second element of the chains of `epub_detected`, `odf_detected`, `odf_reported` — the
    parent of the verdict — is `zipNode.info`: application/zip, and the root is
    application/octet-stream.  (For a template the parent is its document type and
    application/zip the grandparent: `template_detected`, third element.) -/
theorem zip_parent : zipNode.info.mime = ofString "application/zip" ∧
    Gen.builtin.info.mime = ofString "application/octet-stream" := by
  constructor <;> decide +kernel

/-- the templates' parents are their documents -/
theorem template_parents : odfTemplates.map (fun dt => ((tplChild dt.1 dt.2).info.name, (zipChild dt.1).info.name)) =
    [("ott", "odt"), ("ots", "ods"), ("otp", "odp"), ("otg", "odg")] := by decide

/-! ### 7. non-vacuity -/

/-- stored `mimetype` file of an EPUB: 20 bytes of data, 8 bytes of name -/
def exEpubMime : Entry :=
  ⟨exFixed 20 8, mtB, [], [97, 112, 112, 108, 105, 99, 97, 116, 105, 111, 110, 47, 101, 112, 117, 98, 43, 122, 105, 112], []⟩
/-- `META-INF/container.xml`, 20 bytes of data -/
def exContainer : Entry :=
  ⟨exFixed 20 22, [77, 69, 84, 65, 45, 73, 78, 70, 47, 99, 111, 110, 116, 97, 105, 110, 101, 114, 46, 120, 109, 108], [],
   List.replicate 20 120, []⟩
/-- stored `mimetype` file of an OpenDocument text (39 bytes) and of a text template (48 bytes) -/
def exOdtMime : Entry := ⟨exFixed 39 8, mtB, [], (zipChild "odt").info.mime, []⟩
def exOttMime : Entry := ⟨exFixed 48 8, mtB, [], (tplChild "odt" "ott").info.mime, []⟩
/-- `content.xml` -/
def exContent : Entry :=
  ⟨exFixed 20 11, [99, 111, 110, 116, 101, 110, 116, 46, 120, 109, 108], [], List.replicate 20 120, []⟩

example : exContainer.name = ofString "META-INF/container.xml" ∧ exContent.name = ofString "content.xml" := by
  decide +kernel

/-- the hypothesis of `epub_detected` holds for `mimetype, META-INF/container.xml` + tail … -/
example : StoredMimetype exEpubMime (ofString "application/epub+zip") := by decide +kernel

example (ext : Ext) : (detect ext Gen.builtin (archive [exEpubMime, exContainer] exTail) 0).chain =
    [(zipChild "epub").info, zipNode.info, Gen.builtin.info] :=
  epub_detected ext exEpubMime [exContainer] exTail (by decide +kernel)

/-- … and direct evaluation of the closed model (independent of the theorems) gives
    application/epub+zip, application/zip, application/octet-stream -/
example : (Closed.detect (archive [exEpubMime, exContainer] exTail) 0).chain.map (·.mime) =
    [ofString "application/epub+zip", ofString "application/zip", ofString "application/octet-stream"] := by
  decide +kernel

example : accepts Closed.ext (archive [exEpubMime, exContainer] exTail) 0 (zipChild "epub").info = true ∧
    zipContains (archive [exEpubMime, exContainer] exTail) [119, 111, 114, 100, 47] true = some false := by
  decide +kernel

/-- all hypotheses of `odf_reported` hold for `mimetype, content.xml` + tail (odt) … -/
example (ext : Ext) : (detect ext Gen.builtin (archive [exOdtMime, exContent] exTail) 0).chain =
    [(zipChild "odt").info, zipNode.info, Gen.builtin.info] :=
  odf_reported ext "odt" (by decide) exOdtMime [exContent] exTail (by decide +kernel) (by decide +kernel)
    (by decide) (by decide)

/-- … and of `template_reported` (ott below odt) … -/
example (ext : Ext) : (detect ext Gen.builtin (archive [exOttMime, exContent] exTail) 0).chain =
    [(tplChild "odt" "ott").info, (zipChild "odt").info, zipNode.info, Gen.builtin.info] :=
  template_reported ext "odt" "ott" (by decide) exOttMime [exContent] exTail (by decide +kernel)

/-- … which direct evaluation of the closed model confirms -/
example : (Closed.detect (archive [exOdtMime, exContent] exTail) 0).chain.map (·.mime) =
      [ofString "application/vnd.oasis.opendocument.text", ofString "application/zip",
       ofString "application/octet-stream"] ∧
    (Closed.detect (archive [exOttMime, exContent] exTail) 0).chain.map (·.mime) =
      [ofString "application/vnd.oasis.opendocument.text-template",
       ofString "application/vnd.oasis.opendocument.text", ofString "application/zip",
       ofString "application/octet-stream"] := by
  decide +kernel

/-- an entry named `META-INF/MANIFEST.MF` -/
def exManifest : Entry := ⟨exFixed 20 20, C19Base.kManifest, [], List.replicate 20 120, []⟩

/-- **the repaired behaviour** (before the repair of tree.go this archive was the counterexample
    to the clause: jar was consulted before odt and the verdict was application/jar):
    `mimetype` (odt), `content.xml`, then an entry named `META-INF/MANIFEST.MF` is reported as
    OpenDocument text below application/zip — by the theorem … -/
example (ext : Ext) : (detect ext Gen.builtin (archive [exOdtMime, exContent, exManifest] exTail) 0).chain =
    [(zipChild "odt").info, zipNode.info, Gen.builtin.info] :=
  odf_reported ext "odt" (by decide) exOdtMime [exContent, exManifest] exTail (by decide +kernel)
    (by decide +kernel) (by decide) (by decide)

/-- … and by direct evaluation of the closed model; the Jar check itself still finds the manifest
    in that archive (it is the order of the tree that decides), and with the manifest as second
    entry too the verdict is odt -/
example : (Closed.detect (archive [exOdtMime, exContent, exManifest] exTail) 0).chain.map (·.mime) =
      [ofString "application/vnd.oasis.opendocument.text", ofString "application/zip",
       ofString "application/octet-stream"] ∧
    zipContains (archive [exOdtMime, exContent, exManifest] exTail) C19Base.kManifest false = some true ∧
    accepts Closed.ext (archive [exOdtMime, exContent, exManifest] exTail) 0 (zipChild "jar").info = true ∧
    (Closed.detect (archive [exOdtMime, exManifest] exTail) 0).chain.map (·.mime) =
      [ofString "application/vnd.oasis.opendocument.text", ofString "application/zip",
       ofString "application/octet-stream"] := by
  decide +kernel

/-- **a jar is still a jar**: first entry `META-INF/MANIFEST.MF`, then `content.xml`: reported as
    application/jar below application/zip (no OpenDocument node accepts: no `mimetype` at
    offset 30) -/
example : (Closed.detect (archive [exManifest, exContent] exTail) 0).chain.map (·.mime) =
      [ofString "application/jar", ofString "application/zip", ofString "application/octet-stream"] ∧
    odfNodes.all (fun t => !accepts Closed.ext (archive [exManifest, exContent] exTail) 0 t.info) = true := by
  decide +kernel

end Mime.C19Odf
