import MimeModel.Lemmas.C19Odf
/-
  Helper lemmas for `MimeModel.Props.C19_Reported`: the OOXML and JAR clauses of C19 from the zip
  layout (Spec/Zip.lean) to the result of `Detect` (limit 0), the rivals excluded by proof.

  * `rejN n` / `rejN_sound`: the shape classifier of C19Odf (`rej`) for an arbitrary first entry
    name `n` instead of `mimetype…`: a detector that looks for another prefix than `PK\x03\x04`, an
    OOXML `zipContains` whose first-entry check stops at `n`, an offset-30 check for a string
    not comparable with `n` — all reject a buffer `PK\x03\x04 … n …`;
  * `name_walk`, `child_reported`: the walk to a zip child, only the rivals that do not reject by
    shape left;
  * `marker_absent`: no entry name comparable with the marker, archive clean ⇒ `some false`;
  * `window_absent`: the same from the first six entries alone (the window of zip.go).
-/
namespace Mime.C19Rep
open Mime.C19
open Mime Mime.Cust Mime.Tree Mime.WalkPath Mime.Spec.Zip Mime.ZipLayout Mime.ZipConverse Mime.ZipOdf Mime.C19Odf

/-! ### byte strings -/

/-- `[Content_Types].xml` -/
def ctB : Bytes := C19Base.exContentTypes
/-- `META-INF/MANIFEST.MF` -/
def mfB : Bytes := C19Base.kManifest
def xlB : Bytes := [120, 108, 47]
def wordB : Bytes := [119, 111, 114, 100, 47]
def pptB : Bytes := [112, 112, 116, 47]

theorem ctB_eq : ofString "[Content_Types].xml" = ctB := by decide +kernel
theorem mfB_eq : ofString "META-INF/MANIFEST.MF" = mfB := by decide +kernel
theorem xlB_eq : ofString "xl/" = xlB := by decide +kernel
theorem wordB_eq : ofString "word/" = wordB := by decide +kernel
theorem pptB_eq : ofString "ppt/" = pptB := by decide +kernel

/-- the five entry names the APK check looks for -/
def apkMarkers : List Bytes :=
  [[65, 110, 100, 114, 111, 105, 100, 77, 97, 110, 105, 102, 101, 115, 116, 46, 120, 109, 108],
   [77, 69, 84, 65, 45, 73, 78, 70, 47, 99, 111, 109, 47, 97, 110, 100, 114, 111, 105, 100, 47, 98, 117, 105, 108, 100, 47, 103, 114, 97, 100, 108, 101, 47, 97, 112, 112, 45, 109, 101, 116, 97, 100, 97, 116, 97, 46, 112, 114, 111, 112, 101, 114, 116, 105, 101, 115],
   [99, 108, 97, 115, 115, 101, 115, 46, 100, 101, 120],
   [114, 101, 115, 111, 117, 114, 99, 101, 115, 46, 97, 114, 115, 99],
   [114, 101, 115, 47, 100, 114, 97, 119, 97, 98, 108, 101]]

theorem apkMarkers_eq : apkMarkers =
    [ofString "AndroidManifest.xml", ofString "META-INF/com/android/build/gradle/app-metadata.properties",
     ofString "classes.dex", ofString "resources.arsc", ofString "res/drawable"] := by decide +kernel

/-- a string that starts with `p` is not comparable with anything `p` is not comparable with -/
theorem incomp_of_prefix {a p s : Bytes} (hp : hasPrefix a p = true) (hi : incomp p s = true) :
    incomp a s = true := by
  have h1 : hasPrefix a s = false := incomp_false hi hp
  have h2 : hasPrefix s a = false := by
    cases h : hasPrefix s a with
    | false => rfl
    | true =>
      have := hasPrefix_trans h hp
      simp only [incomp, Bool.and_eq_true, Bool.not_eq_true'] at hi
      rw [hi.2] at this; cases this
  simp [incomp, h1, h2]

theorem incomp_self_prefix {a s : Bytes} (hi : incomp a s = true) :
    hasPrefix a s = false ∧ hasPrefix s a = false := by
  simpa [incomp] using hi

/-! ### the archive, seen from its first entry -/

theorem archive_length_30 (e : Entry) (es : List Entry) (tail : Bytes) (hwf : e.WF) :
    30 ≤ (archive (e :: es) tail).length := by
  have h1 := archive_length_ge e es tail
  have h2 := Entry.image_length e
  have h4 := hwf.1
  omega

theorem archive_name_at_30 (e : Entry) (es : List Entry) (tail : Bytes) (hwf : e.WF) :
    hasPrefix ((archive (e :: es) tail).drop 30) e.name = true := by
  rw [archive_cons, drop_image_name e _ hwf.1, hasPrefix_iff]
  exact List.prefix_append _ _

/-! ### detectors that reject by shape -/

/-- the OOXML "skip files" of zip.go as byte lists -/
def skipB : List Bytes :=
  [[91, 67, 111, 110, 116, 101, 110, 116, 95, 84, 121, 112, 101, 115, 93, 46, 120, 109, 108],
   [95, 114, 101, 108, 115, 47, 46, 114, 101, 108, 115],
   [100, 111, 99, 80, 114, 111, 112, 115],
   [99, 117, 115, 116, 111, 109, 88, 109, 108],
   [91, 116, 114, 97, 115, 104, 93]]

theorem skipB_eq : msoSkipFiles = skipB := by decide +kernel

/-- detectors that reject every buffer starting with `PK\x03\x04` that shows `n` at offset 30 -/
def rejN (n : Bytes) : Det → Bool
  | .expr (.prefixAt 0 s) => incomp pk34 s
  | .expr (.prim (.zipContains sig true)) => incomp n sig && skipB.all (fun sf => incomp n sf)
  | .expr (.and (.lenGe _) (.prefixAt 30 s)) => incomp n s
  | _ => false

theorem rejN_sound (ext : Ext) (raw n : Bytes) (lim : Nat) (i : Info)
    (hpk : hasPrefix raw pk34 = true) (hl : 30 ≤ raw.length)
    (hn : hasPrefix (raw.drop 30) n = true) (h : rejN n i.det = true) :
    accepts ext raw lim i = false := by
  unfold rejN at h
  split at h
  · rename_i s hd
    unfold accepts Cust.detEval
    rw [hd]
    simp [Det.evalWith, BExp.eval, incomp_false h hpk]
  · rename_i sig hd
    rw [Bool.and_eq_true] at h
    rw [accepts_zipContains ext raw lim i sig true hd,
      zipContains_mso_first_name raw sig n hl hpk hn h.1 (by rw [skipB_eq]; exact h.2)]
    rfl
  · rename_i k s hd
    unfold accepts Cust.detEval
    rw [hd]
    by_cases hk : k ≤ raw.length <;> simp [Det.evalWith, BExp.eval, hl, hk, incomp_false h hn]
  · cases h

/-- the `Zip` check accepts whatever starts with a local file header -/
theorem zip_accepts' (ext : Ext) (raw : Bytes) (lim : Nat) (hpk : hasPrefix raw pk34 = true) :
    accepts ext raw lim zipNode.info = true := by
  obtain ⟨r, rfl⟩ := hasPrefix_iff.mp hpk
  exact zip_accepts ext r lim

/-- **the walk on a buffer `PK\x03\x04 …` that shows `n` at offset 30**: along an accepted path to
    a node none of whose children accepts, the result is that path — unless a sibling consulted on
    the way accepts, and those that reject by shape (`rejN n`) are excluded -/
theorem name_walk (ext : Ext) (T : Tree Info) (raw n : Bytes)
    (hpk : hasPrefix raw pk34 = true) (hl : 30 ≤ raw.length) (hn : hasPrefix (raw.drop 30) n = true)
    (ps : List (Tree Info → Bool)) (target : Tree Info) (hdesc : descend ps T = some target)
    (hpath : ∀ x ∈ pathNodes ps T, accepts ext raw 0 x.info = true)
    (hkids : ∀ c ∈ target.children, accepts ext raw 0 c.info = false) :
    (detect ext T raw 0).chain = (T.info :: (pathNodes ps T).map (·.info)).reverse ∨
    (∃ d ∈ rivals ps T, rejN n d.info.det = false ∧ accepts ext raw 0 d.info = true) := by
  have hhdr : header raw 0 = raw := rfl
  simp only [detect, hhdr]
  rcases walk_exact (accepts ext raw 0) ps T target hdesc hpath hkids with hw | ⟨d, hd, hda⟩
  · left; rw [hw]
  · right
    refine ⟨d, hd, ?_, hda⟩
    cases hr : rejN n d.info.det with
    | false => rfl
    | true => rw [rejN_sound ext raw n 0 d.info hpk hl hn hr] at hda; cases hda

/-- **to a leaf below zip**: the child `c` of zip is a leaf and accepts, every detector consulted
    before it either rejects by shape or is shown not to accept: the chain is `c`, zip, root -/
theorem child_reported (ext : Ext) (raw n : Bytes) (c : String)
    (hpk : hasPrefix raw pk34 = true) (hl : 30 ≤ raw.length) (hn : hasPrefix (raw.drop 30) n = true)
    (hf : (zipNode.children.find? (isNamed c)).isSome = true)
    (hleaf : (zipChild c).children = [])
    (hacc : accepts ext raw 0 (zipChild c).info = true)
    (hriv : ∀ d ∈ rivals (zipPath c) Gen.builtin, rejN n d.info.det = false →
      accepts ext raw 0 d.info = false) :
    (detect ext Gen.builtin raw 0).chain = [(zipChild c).info, zipNode.info, Gen.builtin.info] := by
  obtain ⟨hdesc, hnodes⟩ := descend_zipPath c hf
  have hpath : ∀ x ∈ pathNodes (zipPath c) Gen.builtin, accepts ext raw 0 x.info = true := by
    rw [hnodes]
    intro x hx
    simp only [List.mem_cons, List.not_mem_nil, or_false] at hx
    rcases hx with rfl | rfl
    · exact zip_accepts' ext raw 0 hpk
    · exact hacc
  rcases name_walk ext Gen.builtin raw n hpk hl hn (zipPath c) (zipChild c) hdesc hpath
      (by rw [hleaf]; simp) with hc | ⟨d, hd, hr, hda⟩
  · rw [hc, hnodes]; rfl
  · rw [hriv d hd hr] at hda; cases hda

/-! ### the rivals, by shape (regenerated) -/

def zcDet (sig : Bytes) (mso : Bool) : Det := .expr (.prim (.zipContains sig mso))

/-- format, marker, markers of the OOXML siblings consulted before it -/
def ooxmlTable : List (String × Bytes × List Bytes) :=
  [("xlsx", xlB, []), ("docx", wordB, [xlB]), ("pptx", pptB, [xlB, wordB])]

/-- the regenerated facts used for an OOXML format: it is a child of zip and a leaf, its check is
    the zip walk for its marker with the first-entry rule; every detector consulted before it
    either rejects by shape an archive that starts with `[Content_Types].xml`, or is the walk for
    an earlier sibling's marker; those markers are not comparable with `[Content_Types].xml` nor
    with the format's own marker -/
def ooxmlOK (t : String × Bytes × List Bytes) : Bool :=
  (zipNode.children.find? (isNamed t.1)).isSome &&
  ((zipChild t.1).info.det == zcDet t.2.1 true) &&
  (zipChild t.1).children.isEmpty &&
  (rivals (zipPath t.1) Gen.builtin).all (fun d => rejN ctB d.info.det ||
    t.2.2.any (fun s => d.info.det == zcDet s true)) &&
  t.2.2.all (fun s => incomp ctB s && incomp t.2.1 s)

theorem ooxml_ok : ooxmlTable.all ooxmlOK = true := by decide

/-- in front of jar: everything but apk rejects an archive that starts with `META-INF/MANIFEST.MF` -/
theorem jar_rivals_shape :
    (rivals (zipPath "jar") Gen.builtin).all (fun d => rejN mfB d.info.det || d.info.det == Gen.d_APK) = true := by
  decide

/-- in front of apk: everything rejects -/
theorem apk_rivals_shape :
    (rivals (zipPath "apk") Gen.builtin).all (fun d => rejN mfB d.info.det) = true := by decide

/-- the names, readably -/
theorem rival_names :
    (rivals (zipPath "xlsx") Gen.builtin).map (·.info.name) = ["xpm", "sevenZ"] ∧
    (rivals (zipPath "docx") Gen.builtin).map (·.info.name) = ["xpm", "sevenZ", "xlsx"] ∧
    (rivals (zipPath "pptx") Gen.builtin).map (·.info.name) = ["xpm", "sevenZ", "xlsx", "docx"] ∧
    (rivals (zipPath "apk") Gen.builtin).map (·.info.name) =
      ["xpm", "sevenZ", "xlsx", "docx", "pptx", "epub", "odt", "ods", "odp", "odg", "odf", "odc", "sxc"] ∧
    (rivals (zipPath "jar") Gen.builtin).map (·.info.name) =
      ["xpm", "sevenZ", "xlsx", "docx", "pptx", "epub", "odt", "ods", "odp", "odg", "odf", "odc", "sxc", "apk"] ∧
    ((rivals (zipPath "docx") Gen.builtin).filter (fun d => !rejN ctB d.info.det)).map (·.info.name) = ["xlsx"] ∧
    ((rivals (zipPath "pptx") Gen.builtin).filter (fun d => !rejN ctB d.info.det)).map (·.info.name) = ["xlsx", "docx"] ∧
    ((rivals (zipPath "jar") Gen.builtin).filter (fun d => !rejN mfB d.info.det)).map (·.info.name) = ["apk"] := by
  refine ⟨by decide, by decide, by decide, by decide, by decide, by decide, by decide, by decide⟩

/-! ### acceptance of the APK check -/

theorem prim_total (raw sig : Bytes) (mso : Bool) :
    ∃ v, (BExp.prim (.zipContains sig mso)).eval raw = some v := by
  simp only [BExp.eval, Prim.eval]; exact zipContains_total raw sig mso

theorem bor_left {a b : BExp} {raw : Bytes} (h : a.eval raw = some true) :
    (BExp.or a b).eval raw = some true := by simp [BExp.eval, h]

theorem bor_right {a b : BExp} {raw : Bytes} (ha : ∃ v, a.eval raw = some v) (h : b.eval raw = some true) :
    (BExp.or a b).eval raw = some true := by
  obtain ⟨v, hv⟩ := ha
  cases v <;> simp [BExp.eval, hv, h]

theorem bor_false {a b : BExp} {raw : Bytes} (ha : a.eval raw = some false) (hb : b.eval raw = some false) :
    (BExp.or a b).eval raw = some false := by simp [BExp.eval, ha, hb]

/-- one APK marker found ⇒ the APK check accepts -/
theorem apk_accepts (ext : Ext) (raw : Bytes) (lim : Nat) (s : Bytes) (hs : s ∈ apkMarkers)
    (h : zipContains raw s false = some true) : accepts ext raw lim (zipChild "apk").info = true := by
  have ha : (zipChild "apk").info.det = Gen.d_APK := by decide
  have hp : (BExp.prim (.zipContains s false)).eval raw = some true := by simpa [BExp.eval, Prim.eval] using h
  unfold accepts Cust.detEval
  rw [ha]
  simp only [Gen.d_APK, Det.evalWith]
  simp only [apkMarkers, List.mem_cons, List.not_mem_nil, or_false] at hs
  have key : ∀ {x : Option Bool}, x = some true → (x == some true) = true := by intro x hx; rw [hx]; rfl
  apply key
  rcases hs with rfl | rfl | rfl | rfl | rfl
  · exact bor_left hp
  · exact bor_right (prim_total _ _ _) (bor_left hp)
  · exact bor_right (prim_total _ _ _) (bor_right (prim_total _ _ _) (bor_left hp))
  · exact bor_right (prim_total _ _ _) (bor_right (prim_total _ _ _) (bor_right (prim_total _ _ _) (bor_left hp)))
  · exact bor_right (prim_total _ _ _) (bor_right (prim_total _ _ _) (bor_right (prim_total _ _ _)
      (bor_right (prim_total _ _ _) hp)))

/-- no APK marker found ⇒ the APK check does not accept -/
theorem apk_not_accepts (ext : Ext) (raw : Bytes) (lim : Nat)
    (h : ∀ s ∈ apkMarkers, zipContains raw s false = some false) :
    accepts ext raw lim (zipChild "apk").info = false := by
  have ha : (zipChild "apk").info.det = Gen.d_APK := by decide
  simp only [apkMarkers, List.forall_mem_cons, List.not_mem_nil, false_imp_iff, implies_true, and_true] at h
  obtain ⟨h1, h2, h3, h4, h5⟩ := h
  unfold accepts Cust.detEval
  rw [ha]
  simp [Gen.d_APK, Det.evalWith, BExp.eval, Prim.eval, h1, h2, h3, h4, h5]

/-! ### absence of a marker, whole archive -/

/-- clean archive, no entry name comparable with the marker ⇒ `some false` -/
theorem marker_absent (es : List Entry) (tail sig : Bytes) (mso : Bool)
    (hwf : ∀ e ∈ es, e.WF) (hclean : ∀ e ∈ es, e.Clean) (htail : CleanTail tail)
    (hno : ∀ e ∈ es, incomp e.name sig = true) :
    zipContains (archive es tail) sig mso = some false :=
  no_marker_plain_zip' es tail sig mso hwf hclean htail (fun e he => incomp_self_prefix (hno e he))

/-! ### absence of a marker, from the first six entries alone -/

/-- one iteration of the loop of `zipContains` along a hop -/
theorem zipLoop_hop (raw sig : Bytes) (fuel p q : Nat) (h : C19Base.Hop raw p q) :
    zipLoop sig (fuel + 1) (raw.drop p) =
      (if hasPrefix (raw.drop (q + 0x1E)) sig then true else zipLoop sig fuel (raw.drop (q + 0x1E))) := by
  obtain ⟨h1, h2, h3, h4⟩ := h
  rw [zipLoop]
  have l1 : ¬ ((raw.drop p).length < 0x1A) := by simp only [List.length_drop]; omega
  simp only [l1, ↓reduceIte, List.drop_drop, h3]
  have l2 : ¬ ((raw.drop (p + 0x1A)).length < q - (p + 0x1A) + 0x1E) := by simp only [List.length_drop]; omega
  simp only [l2, ↓reduceIte]
  have e : p + 0x1A + (q - (p + 0x1A) + 0x1E) = q + 0x1E := by omega
  rw [e]

/-- what follows the fixed part of a clean entry is clean -/
theorem clean_after_fixed (m : Entry) (hf : m.fixed.length = 26) (hc : m.Clean) :
    indexOf pk34 (m.name ++ m.extra ++ m.data ++ m.desc) = none := by
  have h := indexOf_drop_none 26 m.body hc
  have e : m.body.drop 26 = m.name ++ m.extra ++ m.data ++ m.desc := by
    have : m.body = m.fixed ++ (m.name ++ m.extra ++ m.data ++ m.desc) := by
      simp only [Entry.body, List.append_assoc]
    rw [this]; exact List.drop_left' hf
  rw [e] at h; exact h

/-- the loop stops without a verdict at the end of the archive: from the name of the last entry
    (clean, in front of a clean tail) no further signature is found -/
theorem zipLoop_last (sig : Bytes) (fuel : Nat) (pre : Bytes) (m : Entry) (tail : Bytes)
    (hwf : m.WF) (hc : m.Clean) (htail : CleanTail tail) :
    zipLoop sig fuel ((pre ++ (m.image ++ tail)).drop (pre.length + 30)) = false := by
  cases fuel with
  | zero => rfl
  | succ f =>
    rw [drop_to_name pre m tail hwf.1, zipLoop]
    split
    · rfl
    · have hX := clean_after_fixed m hwf.1 hc
      have e : m.name ++ (m.extra ++ m.data ++ m.desc ++ tail) = (m.name ++ m.extra ++ m.data ++ m.desc) ++ tail := by
        simp only [List.append_assoc]
      have hnone : indexOf pk34 ((m.name ++ (m.extra ++ m.data ++ m.desc ++ tail)).drop 0x1A) = none := by
        rw [e]
        exact indexOf_drop_none _ _ (indexOf_append_none _ tail hX htail.1 htail.2)
      simp only [hnone]

/-- **the loop over entries whose names are not comparable with the marker**: the cursor is at
    the name of `m`; the next `fuel` entries (as far as there are any) are well-formed with names
    not comparable with the marker, the entries hopped over (`m` and the first `fuel - 1` after
    it) are clean and of realistic length; if the archive ends within reach, its tail is clean -/
theorem zipLoop_absent (sig tail : Bytes) : ∀ (fuel : Nat) (win : List Entry) (pre : Bytes) (m : Entry),
    m.WF → (∀ e ∈ (m :: win).take fuel, e.Clean ∧ e.Realistic) →
    (∀ e ∈ win.take fuel, e.WF ∧ incomp e.name sig = true) →
    (fuel ≤ win.length ∨ CleanTail tail) →
    zipLoop sig fuel ((pre ++ (m.image ++ archive win tail)).drop (pre.length + 30)) = false := by
  intro fuel
  induction fuel with
  | zero => intro _ _ _ _ _ _ _; rfl
  | succ f ih =>
    intro win pre m hmwf hcr hwn hend
    have hm := hcr m (by simp)
    cases win with
    | nil =>
      rcases hend with h | h
      · simp at h
      · rw [archive_nil]
        exact zipLoop_last sig (f + 1) pre m tail hmwf hm.1 h
    | cons w ws =>
      have hw := hwn w (by simp)
      have hmc : indexOf pk34 m.body = none := hm.1
      have hmr : 26 ≤ m.name.length + m.extra.length + m.data.length + m.desc.length := hm.2
      have hbl : 52 ≤ m.body.length := by rw [Entry.body_length, hmwf.1]; omega
      have hnl : 26 ≤ (w.body ++ archive ws tail).length := by
        have := hw.1.1
        simp only [List.length_append, Entry.body_length]; omega
      have e : pre ++ (m.image ++ archive (w :: ws) tail)
          = pre ++ (pk34 ++ m.body ++ (pk34 ++ (w.body ++ archive ws tail))) := by
        rw [archive_cons]; simp only [Entry.image, List.append_assoc]
      have l : (pre ++ m.image).length = pre.length + (4 + m.body.length) := by
        simp only [List.length_append, Entry.image, pk34_length]
      have hop : C19Base.Hop (pre ++ (m.image ++ archive (w :: ws) tail)) (pre.length + 30)
          ((pre ++ m.image).length) := by
        rw [e, l]
        exact hop_bytes pre m.body _ hmc hbl hnl
      have regroup : pre ++ (m.image ++ archive (w :: ws) tail)
          = (pre ++ m.image) ++ (w.image ++ archive ws tail) := by
        rw [archive_cons]; simp only [List.append_assoc]
      rw [zipLoop_hop _ sig f _ _ hop]
      have hnot : hasPrefix ((pre ++ (m.image ++ archive (w :: ws) tail)).drop ((pre ++ m.image).length + 0x1E)) sig
          = false := by
        rw [regroup, drop_to_name (pre ++ m.image) w _ hw.1.1]
        exact incomp_false hw.2 (by rw [hasPrefix_iff]; exact List.prefix_append _ _)
      rw [hnot]
      simp only [Bool.false_eq_true, ↓reduceIte]
      rw [regroup]
      refine ih ws (pre ++ m.image) w hw.1 ?_ ?_ ?_
      · intro x hx
        exact hcr x (by simp only [List.take_succ_cons, List.mem_cons]; exact Or.inr hx)
      · intro x hx
        exact hwn x (by simp only [List.take_succ_cons, List.mem_cons]; exact Or.inr hx)
      · rcases hend with h | h
        · left; simp only [List.length_cons] at h; omega
        · exact Or.inr h

/-- **no marker among the first six entries**: the first six entries are well-formed and none of
    their names is comparable with the marker; the first five are clean, entries 2..5 of
    realistic length; the first hop lands inside entry 1; if the archive has fewer than six
    entries its tail is clean.  Then the walk answers `false` — whatever the later entries are. -/
theorem window_absent (e1 : Entry) (es : List Entry) (tail sig : Bytes) (mso : Bool)
    (hwf : ∀ e ∈ e1 :: es.take 5, e.WF)
    (hclean : ∀ e ∈ e1 :: es.take 4, e.Clean) (hreal : ∀ e ∈ es.take 4, e.Realistic)
    (hfirst : e1.csizeField + 49 ≤ 30 + e1.name.length + e1.extra.length + e1.data.length + e1.desc.length)
    (hnowrap : e1.csizeField + 49 < 4294967296)
    (hend : 5 ≤ es.length ∨ CleanTail tail)
    (hno : ∀ e ∈ e1 :: es.take 5, incomp e.name sig = true) :
    zipContains (archive (e1 :: es) tail) sig mso = some false := by
  have hwf1 : e1.WF := hwf e1 (by simp)
  have hc1 : indexOf pk34 e1.body = none := hclean e1 (by simp)
  have hpk := archive_hasPrefix_pk34 e1 es tail
  have hl := archive_length_30 e1 es tail hwf1
  have hn0 : hasPrefix ((archive (e1 :: es) tail).drop 0x1E) sig = false :=
    incomp_false (hno e1 (by simp)) (archive_name_at_30 e1 es tail hwf1)
  have hil : e1.image.length = 30 + e1.name.length + e1.extra.length + e1.data.length + e1.desc.length := by
    rw [Entry.image_length, hwf1.1]; omega
  have hbl : 4 + e1.body.length = e1.image.length := by simp only [Entry.image, List.length_append, pk34_length]
  have hge := archive_length_ge e1 es tail
  have hcs : u32le (archive (e1 :: es) tail) 18 = e1.csizeField := by
    rw [archive_cons]; exact u32le_image e1 _ hwf1.1
  have hmod : (e1.csizeField + 49) % 4294967296 = e1.csizeField + 49 := Nat.mod_eq_of_lt hnowrap
  rw [zipContains_of_header _ sig mso hl hpk]
  unfold zipWalk
  simp only [hn0, Bool.false_eq_true, ↓reduceIte]
  split
  · rfl
  · rw [getU32le_isSome (by omega), hcs]
    simp only [hmod]
    split
    · rfl
    · rename_i hlt
      simp only [List.length_drop] at hlt
      have l2 : ¬ ((archive (e1 :: es) tail).length < e1.csizeField + 49) := by omega
      simp only [l2, ↓reduceIte]
      cases es with
      | nil =>
        have htl : CleanTail tail := by
          rcases hend with h | h
          · simp at h
          · exact h
        have hnone : indexOf pk34 ((archive [e1] tail).drop (e1.csizeField + 49)) = none := by
          obtain ⟨k, hk⟩ : ∃ k, e1.csizeField + 49 = pk34.length + k := ⟨e1.csizeField + 45, by rw [pk34_length]; omega⟩
          rw [archive_cons, archive_nil, hk]
          have : e1.image ++ tail = pk34 ++ (e1.body ++ tail) := by simp only [Entry.image, List.append_assoc]
          rw [this, ← List.drop_drop, List.drop_left]
          exact indexOf_drop_none _ _ (indexOf_append_none _ tail hc1 htl.1 htl.2)
        simp only [hnone]
      | cons w ws =>
        have hw : w.WF := hwf w (by simp)
        have hwn : incomp w.name sig = true := hno w (by simp)
        have hraw : archive (e1 :: w :: ws) tail = pk34 ++ e1.body ++ (pk34 ++ (w.body ++ archive ws tail)) := by
          rw [archive_cons, archive_cons]; simp only [Entry.image, List.append_assoc]
        have hidx : indexOf pk34 ((archive (e1 :: w :: ws) tail).drop (e1.csizeField + 49))
            = some (4 + e1.body.length - (e1.csizeField + 49)) := by
          rw [hraw]
          exact indexOf_in_image e1.body _ _ hc1 (by omega) (by omega)
        have hlen2 : e1.image.length + 30 ≤ (archive (e1 :: w :: ws) tail).length := by
          rw [archive_cons, archive_cons]
          have := Entry.image_length w
          have := hw.1
          simp only [List.length_append]; omega
        simp only [hidx, List.drop_drop, List.length_drop]
        have l3 : ¬ ((archive (e1 :: w :: ws) tail).length - (0x1E + (e1.csizeField + 49)) <
            4 + e1.body.length - (e1.csizeField + 49)) := by omega
        simp only [l3, ↓reduceIte]
        have hpos : 0x1E + (e1.csizeField + 49) + (4 + e1.body.length - (e1.csizeField + 49)) = e1.image.length + 30 := by
          omega
        rw [hpos]
        have hshape : archive (e1 :: w :: ws) tail = e1.image ++ (w.image ++ archive ws tail) := by
          rw [archive_cons, archive_cons]
        have hnot : hasPrefix ((archive (e1 :: w :: ws) tail).drop (e1.image.length + 30)) sig = false := by
          rw [hshape, drop_to_name e1.image w _ hw.1]
          exact incomp_false hwn (by rw [hasPrefix_iff]; exact List.prefix_append _ _)
        rw [hnot]
        simp only [Bool.false_eq_true, ↓reduceIte, Option.some.injEq]
        rw [hshape]
        refine zipLoop_absent sig tail 4 ws e1.image w hw ?_ ?_ ?_
        · intro x hx
          exact ⟨hclean x (List.mem_cons_of_mem _ hx), hreal x hx⟩
        · intro x hx
          have hx' : x ∈ (w :: ws).take 5 := by
            simp only [List.take_succ_cons, List.mem_cons]; exact Or.inr hx
          exact ⟨hwf x (List.mem_cons_of_mem _ hx'), hno x (List.mem_cons_of_mem _ hx')⟩
        · rcases hend with h | h
          · left; simp only [List.length_cons] at h; omega
          · exact Or.inr h

/-! ### OOXML -/

/-- **OOXML, from verdicts of the walk**: first entry `[Content_Types].xml`; the format's marker
    is found, the markers of the OOXML siblings consulted before it are not -/
theorem ooxml_core (ext : Ext) (t : String × Bytes × List Bytes) (ht : t ∈ ooxmlTable)
    (e1 : Entry) (es : List Entry) (tail : Bytes) (hwf1 : e1.WF)
    (hname : e1.name = ofString "[Content_Types].xml")
    (hfound : zipContains (archive (e1 :: es) tail) t.2.1 true = some true)
    (hearlier : ∀ s ∈ t.2.2, zipContains (archive (e1 :: es) tail) s true = some false) :
    (detect ext Gen.builtin (archive (e1 :: es) tail) 0).chain =
      [(zipChild t.1).info, zipNode.info, Gen.builtin.info] := by
  have hok := List.all_eq_true.mp ooxml_ok t ht
  simp only [ooxmlOK, Bool.and_eq_true, beq_iff_eq, List.isEmpty_iff] at hok
  obtain ⟨⟨⟨⟨hf, hdet⟩, hleaf⟩, hriv⟩, _⟩ := hok
  have hn := archive_name_at_30 e1 es tail hwf1
  rw [hname, ctB_eq] at hn
  refine child_reported ext _ ctB t.1 (archive_hasPrefix_pk34 e1 es tail)
    (archive_length_30 e1 es tail hwf1) hn hf hleaf ?_ ?_
  · rw [accepts_zipContains ext _ 0 _ t.2.1 true hdet, hfound]; rfl
  · intro d hd hr
    have := List.all_eq_true.mp hriv d hd
    rw [hr, Bool.false_or, List.any_eq_true] at this
    obtain ⟨s, hs, hds⟩ := this
    rw [accepts_zipContains ext _ 0 _ s true (by simpa [zcDet] using hds), hearlier s hs]
    rfl

/-- the markers of the earlier siblings are absent from a clean archive none of whose entry names —
    other than the first, `[Content_Types].xml`, and the marker entry — is comparable with them -/
theorem earlier_absent (t : String × Bytes × List Bytes) (ht : t ∈ ooxmlTable)
    (e1 : Entry) (mid : List Entry) (em : Entry) (rest : List Entry) (tail : Bytes)
    (hwf : ∀ e ∈ e1 :: mid ++ em :: rest, e.WF)
    (hclean : ∀ e ∈ e1 :: mid ++ em :: rest, e.Clean) (htail : CleanTail tail)
    (hname : e1.name = ofString "[Content_Types].xml")
    (hmark : hasPrefix em.name t.2.1 = true)
    (hprio : ∀ e ∈ mid ++ rest, ∀ s ∈ t.2.2, incomp e.name s = true) :
    ∀ s ∈ t.2.2, zipContains (archive (e1 :: mid ++ em :: rest) tail) s true = some false := by
  have hok := List.all_eq_true.mp ooxml_ok t ht
  simp only [ooxmlOK, Bool.and_eq_true, List.all_eq_true] at hok
  obtain ⟨_, hinc⟩ := hok
  intro s hs
  refine marker_absent _ tail s true hwf hclean htail ?_
  intro e he
  simp only [List.cons_append, List.mem_cons, List.mem_append] at he
  rcases he with rfl | he | rfl | he
  · rw [hname, ctB_eq]; exact (hinc s hs).1
  · exact hprio e (by simp [he]) s hs
  · exact incomp_of_prefix hmark (hinc s hs).2
  · exact hprio e (by simp [he]) s hs

/-- **OOXML from the layout, sizes in the local header** -/
theorem ooxml_reported (ext : Ext) (t : String × Bytes × List Bytes) (ht : t ∈ ooxmlTable)
    (e1 : Entry) (mid : List Entry) (em : Entry) (rest : List Entry) (tail : Bytes)
    (hwf : ∀ e ∈ e1 :: mid ++ em :: rest, e.WF)
    (hclean : ∀ e ∈ e1 :: mid ++ em :: rest, e.Clean) (htail : CleanTail tail)
    (hreal : ∀ e ∈ mid, e.Realistic) (hmid : mid.length ≤ 4)
    (hname : e1.name = ofString "[Content_Types].xml") (hcsize : e1.csizeField = e1.data.length)
    (hsmall : (archive (e1 :: mid ++ em :: rest) tail).length < 4294967296)
    (hmark : hasPrefix em.name t.2.1 = true)
    (hprio : ∀ e ∈ mid ++ rest, ∀ s ∈ t.2.2, incomp e.name s = true) :
    (detect ext Gen.builtin (archive (e1 :: mid ++ em :: rest) tail) 0).chain =
      [(zipChild t.1).info, zipNode.info, Gen.builtin.info] := by
  have hwf' : ∀ e ∈ e1 :: mid ++ [em], e.WF := fun e he => hwf e (by
    simp only [List.cons_append, List.mem_cons, List.mem_append, List.not_mem_nil, or_false] at he ⊢
    rcases he with h | h | h <;> simp [h])
  have hclean' : ∀ e ∈ e1 :: mid, e.Clean := fun e he => hclean e (by
    simp only [List.cons_append, List.mem_cons, List.mem_append] at he ⊢
    rcases he with h | h <;> simp [h])
  rw [List.cons_append]
  refine ooxml_core ext t ht e1 _ tail (hwf e1 (by simp)) hname ?_ ?_
  · exact ooxml_second_entry e1 mid em rest tail _ true hwf' hclean' hreal hmid hname hcsize hsmall hmark
  · exact earlier_absent t ht e1 mid em rest tail hwf hclean htail hname hmark hprio

theorem ct_skip : msoSkipFiles.any (fun sf => hasPrefix (ofString "[Content_Types].xml") sf) = true := by
  decide +kernel

/-- **OOXML from the layout, streamed** (size field 0, sizes in a data descriptor) -/
theorem ooxml_reported_streamed (ext : Ext) (t : String × Bytes × List Bytes) (ht : t ∈ ooxmlTable)
    (e1 : Entry) (mid : List Entry) (em : Entry) (rest : List Entry) (tail : Bytes)
    (hwf : ∀ e ∈ e1 :: mid ++ em :: rest, e.WF)
    (hclean : ∀ e ∈ e1 :: mid ++ em :: rest, e.Clean) (htail : CleanTail tail)
    (hreal : ∀ e ∈ mid, e.Realistic) (hmid : mid.length ≤ 4)
    (hname : e1.name = ofString "[Content_Types].xml") (hcsize : e1.csizeField = 0)
    (hmark : hasPrefix em.name t.2.1 = true)
    (hprio : ∀ e ∈ mid ++ rest, ∀ s ∈ t.2.2, incomp e.name s = true) :
    (detect ext Gen.builtin (archive (e1 :: mid ++ em :: rest) tail) 0).chain =
      [(zipChild t.1).info, zipNode.info, Gen.builtin.info] := by
  have hwf' : ∀ e ∈ e1 :: mid ++ [em], e.WF := fun e he => hwf e (by
    simp only [List.cons_append, List.mem_cons, List.mem_append, List.not_mem_nil, or_false] at he ⊢
    rcases he with h | h | h <;> simp [h])
  have hclean' : ∀ e ∈ e1 :: mid, e.Clean := fun e he => hclean e (by
    simp only [List.cons_append, List.mem_cons, List.mem_append] at he ⊢
    rcases he with h | h <;> simp [h])
  have hn : e1.name.length = 19 := by rw [hname, ctB_eq]; rfl
  rw [List.cons_append]
  refine ooxml_core ext t ht e1 _ tail (hwf e1 (by simp)) hname ?_ ?_
  · exact descriptor_first_entry e1 mid em rest tail _ true hwf' hclean' hreal hmid hcsize (by omega)
      (fun _ => by rw [hname]; exact ct_skip) hmark
  · exact earlier_absent t ht e1 mid em rest tail hwf hclean htail hname hmark hprio

/-- xlsx has no OOXML sibling in front of it: only the hypotheses of the layout lemma remain -/
theorem xlsx_core (ext : Ext) (e1 : Entry) (es : List Entry) (tail : Bytes) (hwf1 : e1.WF)
    (hname : e1.name = ofString "[Content_Types].xml")
    (hfound : zipContains (archive (e1 :: es) tail) xlB true = some true) :
    (detect ext Gen.builtin (archive (e1 :: es) tail) 0).chain =
      [(zipChild "xlsx").info, zipNode.info, Gen.builtin.info] :=
  ooxml_core ext ("xlsx", xlB, []) (by simp [ooxmlTable]) e1 es tail hwf1 hname hfound (by simp)

/-! ### OOXML, the earlier siblings excluded from the first six entries alone -/

theorem take5_split {α : Type} (mid rest : List α) (em : α) (h : mid.length ≤ 4) :
    (mid ++ em :: rest).take 5 = mid ++ em :: rest.take (4 - mid.length) := by
  rw [List.take_append, List.take_of_length_le (by omega)]
  have : 5 - mid.length = (4 - mid.length) + 1 := by omega
  rw [this, List.take_succ_cons]

theorem mem_take_left {α : Type} (l₁ l₂ : List α) (n : Nat) (x : α) (hx : x ∈ l₁) (h : l₁.length ≤ n) :
    x ∈ (l₁ ++ l₂).take n := by
  rw [List.take_append, List.take_of_length_le h]
  exact List.mem_append_left _ hx

/-- the markers of the earlier siblings are absent when none of the names of the first six
    entries — other than `[Content_Types].xml` and the marker entry — is comparable with them -/
theorem earlier_absent_window (t : String × Bytes × List Bytes) (ht : t ∈ ooxmlTable)
    (e1 : Entry) (mid : List Entry) (em : Entry) (rest : List Entry) (tail : Bytes)
    (hwf : ∀ e ∈ e1 :: (mid ++ em :: rest).take 5, e.WF)
    (hclean : ∀ e ∈ e1 :: (mid ++ em :: rest).take 4, e.Clean)
    (hreal : ∀ e ∈ (mid ++ em :: rest).take 4, e.Realistic) (hmid : mid.length ≤ 4)
    (hfirst : e1.csizeField + 49 ≤ 30 + e1.name.length + e1.extra.length + e1.data.length + e1.desc.length)
    (hnowrap : e1.csizeField + 49 < 4294967296)
    (hend : 5 ≤ (mid ++ em :: rest).length ∨ CleanTail tail)
    (hname : e1.name = ofString "[Content_Types].xml")
    (hmark : hasPrefix em.name t.2.1 = true)
    (hprio : ∀ e ∈ mid ++ rest.take (4 - mid.length), ∀ s ∈ t.2.2, incomp e.name s = true) :
    ∀ s ∈ t.2.2, zipContains (archive (e1 :: (mid ++ em :: rest)) tail) s true = some false := by
  have hok := List.all_eq_true.mp ooxml_ok t ht
  simp only [ooxmlOK, Bool.and_eq_true, List.all_eq_true] at hok
  obtain ⟨_, hinc⟩ := hok
  intro s hs
  refine window_absent e1 _ tail s true hwf hclean hreal hfirst hnowrap hend ?_
  intro e he
  rw [take5_split mid rest em hmid] at he
  simp only [List.mem_cons, List.mem_append] at he
  rcases he with rfl | he | rfl | he
  · rw [hname, ctB_eq]; exact (hinc s hs).1
  · exact hprio e (by simp [he]) s hs
  · exact incomp_of_prefix hmark (hinc s hs).2
  · exact hprio e (by simp [he]) s hs

/-- what the forward layout lemmas need follows from the hypotheses on the window -/
theorem window_forward_hyps (e1 : Entry) (mid : List Entry) (em : Entry) (rest : List Entry)
    (hwf : ∀ e ∈ e1 :: (mid ++ em :: rest).take 5, e.WF)
    (hclean : ∀ e ∈ e1 :: (mid ++ em :: rest).take 4, e.Clean)
    (hreal : ∀ e ∈ (mid ++ em :: rest).take 4, e.Realistic) (hmid : mid.length ≤ 4) :
    (∀ e ∈ e1 :: mid ++ [em], e.WF) ∧ (∀ e ∈ e1 :: mid, e.Clean) ∧ (∀ e ∈ mid, e.Realistic) := by
  refine ⟨?_, ?_, ?_⟩
  · intro e he
    simp only [List.cons_append, List.mem_cons, List.mem_append, List.not_mem_nil, or_false] at he
    rcases he with rfl | he | rfl
    · exact hwf _ (by simp)
    · exact hwf e (List.mem_cons_of_mem _ (mem_take_left mid _ 5 e he (by omega)))
    · refine hwf _ (List.mem_cons_of_mem _ ?_)
      rw [take5_split mid rest _ hmid]; simp
  · intro e he
    rcases List.mem_cons.mp he with rfl | he
    · exact hclean _ (by simp)
    · exact hclean e (List.mem_cons_of_mem _ (mem_take_left mid _ 4 e he hmid))
  · intro e he
    exact hreal e (mem_take_left mid _ 4 e he hmid)

/-- **OOXML from the layout, sizes in the local header; only the first six entries matter** -/
theorem ooxml_reported_window (ext : Ext) (t : String × Bytes × List Bytes) (ht : t ∈ ooxmlTable)
    (e1 : Entry) (mid : List Entry) (em : Entry) (rest : List Entry) (tail : Bytes)
    (hwf : ∀ e ∈ e1 :: (mid ++ em :: rest).take 5, e.WF)
    (hclean : ∀ e ∈ e1 :: (mid ++ em :: rest).take 4, e.Clean)
    (hreal : ∀ e ∈ (mid ++ em :: rest).take 4, e.Realistic) (hmid : mid.length ≤ 4)
    (hend : 5 ≤ (mid ++ em :: rest).length ∨ CleanTail tail)
    (hname : e1.name = ofString "[Content_Types].xml") (hcsize : e1.csizeField = e1.data.length)
    (hsmall : (archive (e1 :: mid ++ em :: rest) tail).length < 4294967296)
    (hmark : hasPrefix em.name t.2.1 = true)
    (hprio : ∀ e ∈ mid ++ rest.take (4 - mid.length), ∀ s ∈ t.2.2, incomp e.name s = true) :
    (detect ext Gen.builtin (archive (e1 :: mid ++ em :: rest) tail) 0).chain =
      [(zipChild t.1).info, zipNode.info, Gen.builtin.info] := by
  obtain ⟨hwf', hclean', hreal'⟩ := window_forward_hyps e1 mid em rest hwf hclean hreal hmid
  have hwf1 : e1.WF := hwf e1 (by simp)
  have hn : e1.name.length = 19 := by rw [hname, ctB_eq]; rfl
  have hfound := ooxml_second_entry e1 mid em rest tail t.2.1 true hwf' hclean' hreal' hmid hname hcsize hsmall hmark
  rw [List.cons_append] at hsmall hfound ⊢
  have h1 := archive_length_ge e1 (mid ++ em :: rest) tail
  have h2 : e1.image.length = 30 + e1.name.length + e1.extra.length + e1.data.length + e1.desc.length := by
    rw [Entry.image_length, hwf1.1]; omega
  refine ooxml_core ext t ht e1 _ tail hwf1 hname hfound ?_
  exact earlier_absent_window t ht e1 mid em rest tail hwf hclean hreal hmid (by rw [hcsize, hn]; omega)
    (by rw [hcsize]; omega) hend hname hmark hprio

/-- **OOXML from the layout, streamed; only the first six entries matter** -/
theorem ooxml_reported_window_streamed (ext : Ext) (t : String × Bytes × List Bytes) (ht : t ∈ ooxmlTable)
    (e1 : Entry) (mid : List Entry) (em : Entry) (rest : List Entry) (tail : Bytes)
    (hwf : ∀ e ∈ e1 :: (mid ++ em :: rest).take 5, e.WF)
    (hclean : ∀ e ∈ e1 :: (mid ++ em :: rest).take 4, e.Clean)
    (hreal : ∀ e ∈ (mid ++ em :: rest).take 4, e.Realistic) (hmid : mid.length ≤ 4)
    (hend : 5 ≤ (mid ++ em :: rest).length ∨ CleanTail tail)
    (hname : e1.name = ofString "[Content_Types].xml") (hcsize : e1.csizeField = 0)
    (hmark : hasPrefix em.name t.2.1 = true)
    (hprio : ∀ e ∈ mid ++ rest.take (4 - mid.length), ∀ s ∈ t.2.2, incomp e.name s = true) :
    (detect ext Gen.builtin (archive (e1 :: mid ++ em :: rest) tail) 0).chain =
      [(zipChild t.1).info, zipNode.info, Gen.builtin.info] := by
  obtain ⟨hwf', hclean', hreal'⟩ := window_forward_hyps e1 mid em rest hwf hclean hreal hmid
  have hwf1 : e1.WF := hwf e1 (by simp)
  have hn : e1.name.length = 19 := by rw [hname, ctB_eq]; rfl
  have hfound := descriptor_first_entry e1 mid em rest tail t.2.1 true hwf' hclean' hreal' hmid hcsize (by omega)
    (fun _ => by rw [hname]; exact ct_skip) hmark
  rw [List.cons_append] at hfound ⊢
  refine ooxml_core ext t ht e1 _ tail hwf1 hname hfound ?_
  exact earlier_absent_window t ht e1 mid em rest tail hwf hclean hreal hmid (by rw [hcsize]; omega)
    (by rw [hcsize]; omega) hend hname hmark hprio

/-! ### JAR and APK -/

theorem mf_apk_incomp : apkMarkers.all (fun s => incomp mfB s) = true := by decide

/-- **JAR**: first entry `META-INF/MANIFEST.MF`; clean archive, no other entry name comparable
    with one of the five APK markers -/
theorem jar_reported (ext : Ext) (e1 : Entry) (es : List Entry) (tail : Bytes)
    (hname : e1.name = ofString "META-INF/MANIFEST.MF")
    (hwf : ∀ e ∈ e1 :: es, e.WF) (hclean : ∀ e ∈ e1 :: es, e.Clean) (htail : CleanTail tail)
    (hapk : ∀ e ∈ es, ∀ s ∈ apkMarkers, incomp e.name s = true) :
    (detect ext Gen.builtin (archive (e1 :: es) tail) 0).chain =
      [(zipChild "jar").info, zipNode.info, Gen.builtin.info] := by
  have hwf1 := hwf e1 (by simp)
  have hpk := archive_hasPrefix_pk34 e1 es tail
  have hl := archive_length_30 e1 es tail hwf1
  have hn := archive_name_at_30 e1 es tail hwf1
  rw [hname, mfB_eq] at hn
  refine child_reported ext _ mfB "jar" hpk hl hn (by decide) child_facts.2.2.2.2.2.2.2 ?_ ?_
  · rw [accepts_zipContains ext _ 0 _ mfB false child_facts.2.2.2.2.2.2.1,
      C19Base.first_entry_marker _ mfB false hl hpk hn]
    rfl
  · intro d hd hr
    have := List.all_eq_true.mp jar_rivals_shape d hd
    rw [hr, Bool.false_or, beq_iff_eq] at this
    have ha : (zipChild "apk").info.det = Gen.d_APK := by decide
    rw [accepts_congr ext _ 0 d.info (zipChild "apk").info (by rw [this, ha])]
    refine apk_not_accepts ext _ 0 ?_
    intro s hs
    refine marker_absent _ tail s false hwf hclean htail ?_
    intro e he
    rcases List.mem_cons.mp he with rfl | he
    · rw [hname, mfB_eq]; exact List.all_eq_true.mp mf_apk_incomp s hs
    · exact hapk e he s hs

/-- **JAR, only the first six entries matter**: the size field of the manifest's header is its
    stored size, or 0 (streamed) -/
theorem jar_reported_window (ext : Ext) (e1 : Entry) (es : List Entry) (tail : Bytes)
    (hname : e1.name = ofString "META-INF/MANIFEST.MF")
    (hwf : ∀ e ∈ e1 :: es.take 5, e.WF)
    (hclean : ∀ e ∈ e1 :: es.take 4, e.Clean) (hreal : ∀ e ∈ es.take 4, e.Realistic)
    (hcsize : e1.csizeField = e1.data.length ∨ e1.csizeField = 0)
    (hsmall : (archive (e1 :: es) tail).length < 4294967296)
    (hend : 5 ≤ es.length ∨ CleanTail tail)
    (hapk : ∀ e ∈ es.take 5, ∀ s ∈ apkMarkers, incomp e.name s = true) :
    (detect ext Gen.builtin (archive (e1 :: es) tail) 0).chain =
      [(zipChild "jar").info, zipNode.info, Gen.builtin.info] := by
  have hwf1 := hwf e1 (by simp)
  have hpk := archive_hasPrefix_pk34 e1 es tail
  have hl := archive_length_30 e1 es tail hwf1
  have hn := archive_name_at_30 e1 es tail hwf1
  rw [hname, mfB_eq] at hn
  have hnl : e1.name.length = 20 := by rw [hname, mfB_eq]; rfl
  have h1 := archive_length_ge e1 es tail
  have h2 : e1.image.length = 30 + e1.name.length + e1.extra.length + e1.data.length + e1.desc.length := by
    rw [Entry.image_length, hwf1.1]; omega
  refine child_reported ext _ mfB "jar" hpk hl hn (by decide) child_facts.2.2.2.2.2.2.2 ?_ ?_
  · rw [accepts_zipContains ext _ 0 _ mfB false child_facts.2.2.2.2.2.2.1,
      C19Base.first_entry_marker _ mfB false hl hpk hn]
    rfl
  · intro d hd hr
    have := List.all_eq_true.mp jar_rivals_shape d hd
    rw [hr, Bool.false_or, beq_iff_eq] at this
    have ha : (zipChild "apk").info.det = Gen.d_APK := by decide
    rw [accepts_congr ext _ 0 d.info (zipChild "apk").info (by rw [this, ha])]
    refine apk_not_accepts ext _ 0 ?_
    intro s hs
    refine window_absent e1 es tail s false hwf hclean hreal ?_ ?_ hend ?_
    · rcases hcsize with h | h <;> rw [h] <;> omega
    · rcases hcsize with h | h <;> rw [h] <;> omega
    · intro e he
      rcases List.mem_cons.mp he with rfl | he
      · rw [hname, mfB_eq]; exact List.all_eq_true.mp mf_apk_incomp s hs
      · exact hapk e he s hs

/-- **APK, from a verdict of the walk**: first entry `META-INF/MANIFEST.MF`, an APK marker found -/
theorem apk_core (ext : Ext) (e1 : Entry) (es : List Entry) (tail s : Bytes) (hs : s ∈ apkMarkers)
    (hwf1 : e1.WF) (hname : e1.name = ofString "META-INF/MANIFEST.MF")
    (hfound : zipContains (archive (e1 :: es) tail) s false = some true) :
    (detect ext Gen.builtin (archive (e1 :: es) tail) 0).chain =
      [(zipChild "apk").info, zipNode.info, Gen.builtin.info] := by
  have hn := archive_name_at_30 e1 es tail hwf1
  rw [hname, mfB_eq] at hn
  refine child_reported ext _ mfB "apk" (archive_hasPrefix_pk34 e1 es tail)
    (archive_length_30 e1 es tail hwf1) hn (by decide) (by decide) (apk_accepts ext _ 0 s hs hfound) ?_
  intro d hd hr
  rw [List.all_eq_true.mp apk_rivals_shape d hd] at hr
  cases hr

/-- **APK from the layout**: manifest first (size field = stored size), an APK marker name among
    entries 2..6 -/
theorem apk_reported (ext : Ext) (e1 : Entry) (mid : List Entry) (em : Entry) (rest : List Entry)
    (tail s : Bytes) (hs : s ∈ apkMarkers)
    (hwf : ∀ e ∈ e1 :: mid ++ [em], e.WF) (hclean : ∀ e ∈ e1 :: mid, e.Clean)
    (hreal : ∀ e ∈ mid, e.Realistic) (hmid : mid.length ≤ 4)
    (hname : e1.name = ofString "META-INF/MANIFEST.MF") (hcsize : e1.csizeField = e1.data.length)
    (hsmall : (archive (e1 :: mid ++ em :: rest) tail).length < 4294967296)
    (hmark : hasPrefix em.name s = true) :
    (detect ext Gen.builtin (archive (e1 :: mid ++ em :: rest) tail) 0).chain =
      [(zipChild "apk").info, zipNode.info, Gen.builtin.info] := by
  have hn : e1.name.length = 20 := by rw [hname, mfB_eq]; rfl
  have hf := ZipLayout.layout_forward e1 mid em rest tail s false hwf hclean hreal hmid (by rw [hcsize, hn]; omega)
    hsmall (fun h => by cases h) hmark
  rw [List.cons_append] at hf ⊢
  exact apk_core ext e1 _ tail s hs (hwf e1 (by simp)) hname hf

/-- the same for a streamed archive (size field 0) -/
theorem apk_reported_streamed (ext : Ext) (e1 : Entry) (mid : List Entry) (em : Entry) (rest : List Entry)
    (tail s : Bytes) (hs : s ∈ apkMarkers)
    (hwf : ∀ e ∈ e1 :: mid ++ [em], e.WF) (hclean : ∀ e ∈ e1 :: mid, e.Clean)
    (hreal : ∀ e ∈ mid, e.Realistic) (hmid : mid.length ≤ 4)
    (hname : e1.name = ofString "META-INF/MANIFEST.MF") (hcsize : e1.csizeField = 0)
    (hmark : hasPrefix em.name s = true) :
    (detect ext Gen.builtin (archive (e1 :: mid ++ em :: rest) tail) 0).chain =
      [(zipChild "apk").info, zipNode.info, Gen.builtin.info] := by
  have hn : e1.name.length = 20 := by rw [hname, mfB_eq]; rfl
  have hf := descriptor_first_entry e1 mid em rest tail s false hwf hclean hreal hmid hcsize (by omega)
    (fun h => by cases h) hmark
  rw [List.cons_append] at hf ⊢
  exact apk_core ext e1 _ tail s hs (hwf e1 (by simp)) hname hf

end Mime.C19Rep
