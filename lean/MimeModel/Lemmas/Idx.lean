import MimeModel.Model.Idx
/-
  C01 for the hand-coded byte scanners: the index-level transliterations of `Model/Idx.lean`
  never panic (no index or slice expression is out of range), never run out of the stated
  fuel (every loop terminates within it), and compute the list models.  Each statement has the
  shape `fIdx x = .ok (f x)`; `.ok` excludes both `.panic` and `.fuel`.

    charset.go   fromBOMIdx_refines, asciiIdx_refines, latinIdx_refines (AllBytes),
                 fromPlainIdx_refines (AllBytes), stripLoop_fuel (any fuel ≥ 4),
                 fromMetaElementIdx_refines / fromMetaElementIdx_fuel (any fuel ≥ len + 1),
                 xmlEncodingIdx_refines, trimLWSIdx_refines
    magic.go     trimLWSIdx_refines (same code), trimRWSIdx_refines
    text_csv.go  dropLastLineIdx_refines (readLimit = 0 ∨ len < 2^32), dropLastLineIdx_header
    text.go      dropCRIdx_refines, scanLineIdx_refines, ndjsonIdx_refines (same hypothesis),
                 ndjsonIdx_header, ndjsonLoopIdx_fuel (any fuel ≥ len + 1), textIdx_refines
    archive.go   tarParseOctalIdx_refines (len ≤ 21: no `int64` overflow),
                 tarChksumIdx_refines (AllBytes, len < 2^55: no `int64` overflow),
                 tarIdx_refines (AllBytes)

  `range` loops: `forRange_eq` shows once and for all that the index loop with fuel `len + 1`
  is the structural recursion `foldRange` over the elements (its `s[i]` is always in range);
  the per-function lemmas `…_fold` then work on `foldRange`.

  `AllBytes` is needed exactly where `textChars[b]` (a `[256]byte` indexed by a `byte`) or
  `int8(c)` is evaluated on an arbitrary element.
-/
namespace Mime.IdxLemmas
open Mime Mime.Idx Mime.Charset Mime.Cust Mime.Gen.Charset

/-! ### the outcome monad and the checked primitives -/

@[simp] theorem ok_bind {α β : Type} (v : α) (f : α → Out β) : (Out.ok v >>= f) = f v := rfl
@[simp] theorem pure_eq {α : Type} (v : α) : (pure v : Out α) = Out.ok v := rfl

theorem elemAt_lt {α : Type} {l : List α} {i : Nat} (h : i < l.length) : elemAt l i = .ok l[i] := by
  simp [elemAt, h]

/-- `l[i]` read off the suffix `l[i:]` -/
theorem elemAt_of_drop {α : Type} {l : List α} {i : Nat} {c : α} {r : List α} (h : l.drop i = c :: r) :
    elemAt l i = .ok c := by
  have : l[i]? = some c := by rw [← List.head?_drop, h]; rfl
  simp [elemAt, this]

theorem elemAt_zero_cons {α : Type} (c : α) (r : List α) : elemAt (c :: r) 0 = .ok c := rfl

theorem sliceFrom_le {b : Bytes} {n : Nat} (h : n ≤ b.length) : sliceFrom b n = .ok (b.drop n) := by
  simp [sliceFrom, h]

theorem sliceTo_le {b : Bytes} {n : Nat} (h : n ≤ b.length) : sliceTo b n = .ok (b.take n) := by
  simp [sliceTo, h]

theorem slice_le {b : Bytes} {lo hi : Nat} (h1 : lo ≤ hi) (h2 : hi ≤ b.length) :
    Idx.slice b lo hi = .ok ((b.take hi).drop lo) := by
  simp [Idx.slice, h1, h2]

theorem elemAtI_ofNat {α : Type} (l : List α) (i : Nat) : elemAtI l (i : Int) = elemAt l i := by
  simp [elemAtI]; omega

theorem sliceFromI_ofNat (b : Bytes) (n : Nat) : sliceFromI b (n : Int) = sliceFrom b n := by
  simp [sliceFromI]; omega

theorem sliceToI_ofNat (b : Bytes) (n : Nat) : sliceToI b (n : Int) = sliceTo b n := by
  simp [sliceToI]; omega

set_option maxRecDepth 4000 in
theorem textChars_length : textChars.length = 256 := by decide

theorem elemAt_getD {l : List Nat} {i : Nat} (h : i < l.length) : elemAt l i = .ok (l.getD i 0) := by
  simp [elemAt, h, List.getD_eq_getElem?_getD]

theorem textCharsAt_lt {b : Nat} (h : b < 256) : textCharsAt b = .ok (textClass b) :=
  elemAt_getD (by rw [textChars_length]; exact h)

/-! ### `range` loops -/

/-- the `range` loop by structural recursion on what is left of the slice -/
def foldRange {α ρ σ : Type} (body : Nat → α → σ → Out (Step ρ σ)) : List α → Nat → σ → Out (Step ρ σ)
  | [], _, s => .ok (.next s)
  | c :: cs, i, s =>
    match body i c s with
    | .ok (.next s') => foldRange body cs (i + 1) s'
    | .ok (.ret r) => .ok (.ret r)
    | .panic => .panic
    | .fuel => .fuel

/-- with fuel `len + 1` the index loop never runs dry and never indexes out of range -/
theorem forRange_eq {α ρ σ : Type} (l : List α) (body : Nat → α → σ → Out (Step ρ σ)) :
    ∀ (fuel i : Nat) (s : σ), i ≤ l.length → l.length + 1 ≤ fuel + i →
      forRange l body fuel i s = foldRange body (l.drop i) i s := by
  intro fuel
  induction fuel with
  | zero => intro i s h1 h2; omega
  | succ fuel ih =>
    intro i s h1 h2
    unfold forRange
    by_cases hi : i < l.length
    · rw [if_pos hi, elemAt_lt hi, List.drop_eq_getElem_cons hi]
      simp only [foldRange]
      cases hb : body i l[i] s with
      | ok st =>
        cases st with
        | ret r => rfl
        | next s' => simp only []; exact ih (i + 1) s' (by omega) (by omega)
      | panic => rfl
      | fuel => rfl
    · rw [if_neg hi]
      have : l.drop i = [] := List.drop_eq_nil_of_le (by omega)
      rw [this]; rfl

theorem forRange_start {α ρ σ : Type} (l : List α) (body : Nat → α → σ → Out (Step ρ σ)) (s : σ) :
    forRange l body (l.length + 1) 0 s = foldRange body l 0 s := by
  rw [forRange_eq l body _ 0 s (by omega) (by omega)]; rfl

/-! ### charset.go: FromBOM, ascii, latin -/

def bomVal : Step Bytes Unit → Bytes
  | .ret enc => enc
  | .next _ => []

theorem fromBOM_fold (content : Bytes) : ∀ (tbl : List (Bytes × Bytes)) (i : Nat),
    ∃ st, foldRange (fun _ (b : Bytes × Bytes) (_ : Unit) =>
        if hasPrefix content b.1 then (.ok (.ret b.2) : Out (Step Bytes Unit)) else .ok (.next ())) tbl i () = .ok st
      ∧ bomVal st = fromBOMIn tbl content := by
  intro tbl
  induction tbl with
  | nil => intro i; exact ⟨_, rfl, rfl⟩
  | cons b rest ih =>
    intro i
    obtain ⟨bom, enc⟩ := b
    simp only [foldRange, fromBOMIn]
    by_cases h : hasPrefix content bom = true
    · simp only [h, if_true]; exact ⟨_, rfl, rfl⟩
    · simp only [h]; exact ih (i + 1)

theorem fromBOMIdx_refines (content : Bytes) : fromBOMIdx content = .ok (fromBOM content) := by
  unfold fromBOMIdx fromBOM
  rw [forRange_start]
  obtain ⟨st, h1, h2⟩ := fromBOM_fold content boms 0
  rw [h1, ← h2]
  cases st <;> rfl

theorem ascii_fold : ∀ (cs : Bytes) (i : Nat),
    foldRange (fun _ b (_ : Unit) =>
      if b ≥ 0x80 then (.ok (.ret false) : Out (Step Bool Unit)) else do
        let t ← textCharsAt b
        if t != cT then .ok (.ret false) else .ok (.next ())) cs i ()
    = .ok (if ascii cs then .next () else .ret false) := by
  intro cs
  induction cs with
  | nil => intro i; rfl
  | cons b rest ih =>
    intro i
    simp only [foldRange]
    by_cases hb : b ≥ 0x80
    · simp [hb, ascii]
    · rw [if_neg hb, textCharsAt_lt (by omega)]
      simp only [ok_bind]
      by_cases ht : textClass b = cT
      · simp only [ht, bne_self_eq_false, Bool.false_eq_true, if_false]
        rw [ih (i + 1)]
        simp [ascii, hb, ht]
      · have : (textClass b != cT) = true := by simpa using ht
        simp [this, ascii, ht]

theorem asciiIdx_refines (content : Bytes) : asciiIdx content = .ok (ascii content) := by
  unfold asciiIdx
  rw [forRange_start, ascii_fold]
  cases ascii content <;> rfl

theorem allBytes_tail {b : Nat} {cs : Bytes} (h : AllBytes (b :: cs)) : AllBytes cs :=
  fun x hx => h x (List.mem_cons_of_mem _ hx)

theorem allBytes_head {b : Nat} {cs : Bytes} (h : AllBytes (b :: cs)) : b < 256 :=
  h b (List.mem_cons_self ..)

theorem bne_and_bne (x a b : Nat) : (x != a && x != b) = !(x == a || x == b) := by
  simp [bne, Bool.not_or]

theorem latin_fold : ∀ (cs : Bytes) (i : Nat) (st : Bool), AllBytes cs →
    foldRange (fun _ b (hasControlBytes : Bool) => do
      let t ← textCharsAt b
      if t != cT && t != cI then (.ok (.ret csNone) : Out (Step Bytes Bool))
      else if b ≥ 0x80 && b ≤ 0x9F then .ok (.next true)
      else .ok (.next hasControlBytes)) cs i st
    = .ok (if cs.all (fun b => textClass b == cT || textClass b == cI)
        then .next (st || cs.any (fun b => 0x80 ≤ b && b ≤ 0x9F)) else .ret csNone) := by
  intro cs
  induction cs with
  | nil => intro i st _; simp [foldRange]
  | cons b rest ih =>
    intro i st h
    simp only [foldRange]
    rw [textCharsAt_lt (allBytes_head h)]
    simp only [ok_bind]
    by_cases ht : (textClass b == cT || textClass b == cI) = true
    · have ht' : (textClass b != cT && textClass b != cI) = false := by
        rw [bne_and_bne, ht]; rfl
      simp only [ht', Bool.false_eq_true, if_false, List.all_cons, ht, Bool.true_and, List.any_cons]
      by_cases hc : (decide (b ≥ 0x80) && decide (b ≤ 0x9F)) = true
      · simp only [hc, if_true]
        rw [ih (i + 1) true (allBytes_tail h)]
        simp
      · have hc' := Bool.eq_false_iff.mpr hc
        simp only [hc', Bool.false_eq_true, if_false]
        rw [ih (i + 1) st (allBytes_tail h)]
        simp
    · have ht' : (textClass b != cT && textClass b != cI) = true := by
        rw [bne_and_bne]; simpa using ht
      simp [ht', ht]

theorem latinIdx_refines (content : Bytes) (h : AllBytes content) : latinIdx content = .ok (latin content) := by
  unfold latinIdx latin
  rw [forRange_start, latin_fold content 0 false h]
  simp only [ok_bind, Bool.false_or]
  generalize (content.all fun b => textClass b == cT || textClass b == cI) = a
  generalize (content.any fun b => decide (0x80 ≤ b) && decide (b ≤ 0x9F)) = c
  cases a <;> cases c <;> rfl

/-! ### charset.go: FromPlain -/

theorem elemAtI_append {α : Type} (pre : List α) (c : α) (suf : List α) (i : Int) (h : i = pre.length) :
    elemAtI (pre ++ c :: suf) i = .ok c := by
  subst h
  rw [elemAtI_ofNat]
  exact elemAt_of_drop (r := suf) (by simp)

theorem sliceFromI_append (pre suf : Bytes) (i : Int) (h : i = pre.length) :
    sliceFromI (pre ++ suf) i = .ok suf := by
  subst h
  rw [sliceFromI_ofNat, sliceFrom_le (by simp)]
  simp

theorem sliceToI_append (pre suf : Bytes) (i : Int) (h : i = pre.length) :
    sliceToI (pre ++ suf) i = .ok pre := by
  subst h
  rw [sliceToI_ofNat, sliceTo_le (by simp)]
  simp

theorem stripLoop_exit (fuel : Nat) (content : Bytes) (i : Int)
    (h : ¬ (i ≥ 0 ∧ i > (content.length : Int) - 4)) : stripLoop (fuel + 1) content i = .ok content := by
  unfold stripLoop
  rw [if_neg h]; rfl

theorem stripLoop_step (fuel : Nat) (pre : Bytes) (b : Nat) (suf : Bytes) (i : Int) (hi : i = pre.length)
    (hs : suf.length ≤ 2) :
    stripLoop (fuel + 1) (pre ++ b :: suf) i =
      if b < 0x80 then .ok (pre ++ b :: suf)
      else if runeStart b then (if fullRune (b :: suf) then .ok (pre ++ b :: suf) else .ok pre)
      else stripLoop fuel (pre ++ b :: suf) (i - 1) := by
  conv => lhs; unfold stripLoop
  have hc : i ≥ 0 ∧ i > ((pre ++ b :: suf).length : Int) - 4 := by
    subst hi; simp; omega
  rw [if_pos hc, elemAtI_append pre b suf i hi]
  simp only [ok_bind]
  split
  · rfl
  · split
    · rw [sliceFromI_append pre (b :: suf) i hi]
      simp only [ok_bind]
      cases fullRune (b :: suf)
      · simp only [Bool.not_false, if_true]
        rw [sliceToI_append pre (b :: suf) i hi]
        simp
      · simp
    · rfl

/-- four units of fuel are enough for the loop (three bytes are looked at, at most) -/
theorem stripLoop_fuel (fuel : Nat) (hf : 4 ≤ fuel) (content : Bytes) :
    stripLoop fuel content ((content.length : Int) - 1) = .ok (stripPartial content) := by
  obtain ⟨k, rfl⟩ : ∃ k, fuel = k + 4 := ⟨fuel - 4, by omega⟩
  obtain ⟨rc, rfl⟩ : ∃ rc, content = rc.reverse := ⟨content.reverse, by simp⟩
  unfold stripPartial
  simp only [List.reverse_reverse]
  cases rc with
  | nil => exact stripLoop_exit (k + 3) _ _ (by simp)
  | cons b1 r1 =>
    simp only [List.reverse_cons]
    rw [stripLoop_step (k + 3) r1.reverse b1 [] _ (by simp) (by simp)]
    split
    · rfl
    split
    · split <;> rfl
    cases r1 with
    | nil => exact stripLoop_exit (k + 2) _ _ (by simp)
    | cons b2 r2 =>
      simp only [List.reverse_cons, List.append_assoc, List.cons_append, List.nil_append]
      rw [stripLoop_step (k + 2) r2.reverse b2 [b1] _ (by simp; omega) (by simp)]
      split
      · rfl
      split
      · split <;> rfl
      cases r2 with
      | nil => exact stripLoop_exit (k + 1) _ _ (by simp)
      | cons b3 r3 =>
        simp only [List.reverse_cons, List.append_assoc, List.cons_append, List.nil_append]
        rw [stripLoop_step (k + 1) r3.reverse b3 [b2, b1] _ (by simp; omega) (by simp)]
        split
        · rfl
        split
        · split <;> rfl
        exact stripLoop_exit k _ _ (by simp; omega)

theorem stripLoop_refines (content : Bytes) :
    stripLoop 4 content ((content.length : Int) - 1) = .ok (stripPartial content) :=
  stripLoop_fuel 4 (Nat.le_refl _) content

theorem highBit_fold : ∀ (cs : Bytes) (i : Nat) (st : Bool),
    foldRange (fun _ c (hasHighBit : Bool) =>
      if c ≥ 0x80 then (.ok (.ret true) : Out (Step Bool Bool)) else .ok (.next hasHighBit)) cs i st
    = .ok (if cs.any (fun b => b ≥ 0x80) then .ret true else .next st) := by
  intro cs
  induction cs with
  | nil => intro i st; rfl
  | cons b rest ih =>
    intro i st
    simp only [foldRange]
    by_cases hb : b ≥ 0x80
    · simp [hb]
    · rw [if_neg hb]
      simp only []
      rw [ih (i + 1) st]
      simp [hb]

theorem fromPlainIdx_refines (content : Bytes) (h : AllBytes content) :
    fromPlainIdx content = .ok (fromPlain content) := by
  unfold fromPlainIdx fromPlain
  by_cases he : content = []
  · subst he; rfl
  · have hl : (content.length == 0) = false := by
      cases content with
      | nil => exact absurd rfl he
      | cons a as => rfl
    have hi : content.isEmpty = false := by
      cases content with
      | nil => exact absurd rfl he
      | cons a as => rfl
    simp only [hl, hi, Bool.false_eq_true, if_false]
    rw [fromBOMIdx_refines]
    simp only [ok_bind]
    split
    · rfl
    · rw [stripLoop_refines]
      simp only [ok_bind]
      rw [forRange_start, highBit_fold]
      simp only [ok_bind]
      rw [asciiIdx_refines, latinIdx_refines content h]
      simp only [ok_bind]
      have hv : ((if (stripPartial content).any (fun b => decide (b ≥ 0x80)) = true then
          (Step.ret true : Step Bool Bool) else Step.next false).val)
          = (stripPartial content).any (fun b => decide (b ≥ 0x80)) := by
        cases (stripPartial content).any (fun b => decide (b ≥ 0x80)) <;> rfl
      rw [hv]
      split
      · rfl
      · split <;> rfl

/-! ### text.go: Text -/

theorem text_fold : ∀ (cs : Bytes) (i : Nat),
    foldRange (fun _ b (_ : Unit) =>
      if b ≤ 0x08 || b == 0x0B || (0x0E ≤ b && b ≤ 0x1A) || (0x1C ≤ b && b ≤ 0x1F)
      then (.ok (.ret false) : Out (Step Bool Unit)) else .ok (.next ())) cs i ()
    = .ok (if cs.any binaryByte then .ret false else .next ()) := by
  intro cs
  induction cs with
  | nil => intro i; rfl
  | cons b rest ih =>
    intro i
    simp only [foldRange, List.any_cons]
    by_cases hb : binaryByte b = true
    · have hb' := hb
      unfold binaryByte at hb'
      rw [if_pos hb']
      simp [hb]
    · have hb' := hb
      unfold binaryByte at hb'
      rw [if_neg hb']
      simp only []
      rw [ih (i + 1)]
      simp [hb]

theorem textIdx_refines (raw : Bytes) : textIdx raw = .ok (text raw) := by
  unfold textIdx text
  rw [fromBOMIdx_refines]
  simp only [ok_bind]
  split
  · rfl
  · rw [forRange_start, text_fold]
    simp only [ok_bind]
    cases raw.any binaryByte <;> rfl

/-! ### charset.go: fromMetaElement, xmlEncoding, trimLWS -/

theorem indexOf_bound (sep : Bytes) : ∀ (b : Bytes) (k : Nat), indexOf sep b = some k → k + sep.length ≤ b.length := by
  intro b
  induction b with
  | nil =>
    intro k h
    simp only [indexOf] at h
    split at h
    · rename_i he
      have : sep = [] := by simpa using he
      subst this; cases h; simp
    · cases h
  | cons a as ih =>
    intro k h
    simp only [indexOf] at h
    split at h
    · rename_i hp
      cases h
      have := (List.isPrefixOf_iff_prefix.mp hp).length_le
      simpa using this
    · cases hi : indexOf sep as with
      | none => simp [hi] at h
      | some j =>
        simp only [hi, Option.some.injEq] at h
        subst h
        have := ih j hi
        simp; omega

theorem indexByte_lt (c : Nat) : ∀ (s : Bytes) (k : Nat), indexByte c s = some k → k < s.length := by
  intro s
  induction s with
  | nil => intro k h; cases h
  | cons a as ih =>
    intro k h
    simp only [indexByte] at h
    split at h
    · cases h; simp
    · cases hi : indexByte c as with
      | none => simp [hi] at h
      | some j =>
        simp only [hi, Option.map_some, Option.some.injEq] at h
        subst h
        have := ih j hi
        simp; omega

theorem indexWhere_le (p : Nat → Bool) : ∀ (s : Bytes), (indexWhere p s).getD s.length ≤ s.length := by
  intro s
  induction s with
  | nil => simp [indexWhere]
  | cons a as ih =>
    simp only [indexWhere]
    split
    · simp
    · cases hi : indexWhere p as with
      | none => simp
      | some j => simp [hi] at ih ⊢; omega

theorem take_indexWhere (p : Nat → Bool) : ∀ (s : Bytes),
    s.take ((indexWhere p s).getD s.length) = takeUntil p s := by
  intro s
  induction s with
  | nil => simp [indexWhere, takeUntil]
  | cons a as ih =>
    simp only [indexWhere, takeUntil]
    split
    · simp
    · cases hi : indexWhere p as with
      | none => simp [hi] at ih ⊢; exact ih
      | some j => simp [hi] at ih ⊢; exact ih

theorem fromMetaElementF_nil (fuel : Nat) : fromMetaElementF fuel [] = [] := by
  cases fuel <;> rfl

theorem kwCharset_length : kwCharset.length = 7 := rfl

theorem fromMetaElementIdx_fuel : ∀ (fuel : Nat) (s : Bytes), s.length + 1 ≤ fuel →
    fromMetaElementIdx fuel s = .ok (fromMetaElementF fuel s) := by
  intro fuel
  induction fuel with
  | zero => intro s h; omega
  | succ fuel ih =>
    intro s h
    unfold fromMetaElementIdx fromMetaElementF
    cases s with
    | nil => rfl
    | cons a as =>
      have e1 : ((a :: as).length == 0) = false := rfl
      have e2 : (a :: as).isEmpty = false := rfl
      simp only [e1, e2, Bool.false_eq_true, if_false]
      cases hix : indexOf kwCharset (a :: as) with
      | none => rfl
      | some loc =>
        have hb := indexOf_bound kwCharset _ _ hix
        rw [kwCharset_length] at hb ⊢
        simp only []
        rw [sliceFrom_le hb]
        simp only [ok_bind]
        have hlen : (((a :: as).drop (loc + 7)).dropWhile isMetaWS).length + 7 ≤ (a :: as).length := by
          have := (List.dropWhile_sublist isMetaWS (l := (a :: as).drop (loc + 7))).length_le
          simp only [List.length_drop] at this
          omega
        generalize ((a :: as).drop (loc + 7)).dropWhile isMetaWS = s1 at hlen
        cases s1 with
        | nil =>
          have : (!hasPrefix [] [0x3D]) = true := rfl
          simp only [this, if_true]
          rw [ih [] (by simp at h ⊢; omega), fromMetaElementF_nil]
        | cons c rest =>
          by_cases hc : c = 0x3D
          · subst hc
            have h1 : (!hasPrefix (0x3D :: rest) [0x3D]) = false := by simp [hasPrefix]
            have h2 : ((0x3D : Nat) != 0x3D) = false := rfl
            simp only [h1, h2, Bool.false_eq_true, if_false]
            rw [sliceFrom_le (by simp)]
            simp only [ok_bind, List.drop_one, List.tail_cons]
            generalize rest.dropWhile isMetaWS = s2
            cases s2 with
            | nil => rfl
            | cons q s3 =>
              have e3 : ((q :: s3).length == 0) = false := rfl
              simp only [e3, Bool.false_eq_true, if_false, elemAt_zero_cons, ok_bind]
              split
              · rw [sliceFrom_le (by simp)]
                simp only [ok_bind, List.drop_one, List.tail_cons]
                cases hq : indexByte q s3 with
                | none => rfl
                | some k =>
                  simp only []
                  rw [sliceTo_le (Nat.le_of_lt (indexByte_lt q s3 k hq))]
              · rw [sliceTo_le (indexWhere_le _ _), take_indexWhere]
          · have h1 : (!hasPrefix (c :: rest) [0x3D]) = true := by
              simp [hasPrefix, List.isPrefixOf]; omega
            have h2 : (c != 0x3D) = true := by simpa using hc
            simp only [h1, h2, if_true]
            exact ih _ (by simp at h hlen ⊢; omega)

theorem fromMetaElementIdx_refines (s : Bytes) :
    fromMetaElementIdx (fuel := s.length + 1) s = .ok (fromMetaElement s) :=
  fromMetaElementIdx_fuel _ s (Nat.le_refl _)

theorem kwEncodingEq_length : kwEncodingEq.length = 9 := rfl

theorem xmlEncodingIdx_refines (s : Bytes) : xmlEncodingIdx s = .ok (xmlEncoding s) := by
  unfold xmlEncodingIdx xmlEncoding
  cases hix : indexOf kwEncodingEq s with
  | none => rfl
  | some idx =>
    have hb := indexOf_bound kwEncodingEq _ _ hix
    rw [kwEncodingEq_length] at hb ⊢
    simp only []
    rw [sliceFrom_le hb]
    simp only [ok_bind]
    generalize s.drop (idx + 9) = v
    cases v with
    | nil => rfl
    | cons q v1 =>
      have e : ((q :: v1).length == 0) = false := rfl
      simp only [e, Bool.false_eq_true, if_false, elemAt_zero_cons, ok_bind]
      split
      · rfl
      · rw [sliceFrom_le (by simp)]
        simp only [ok_bind, List.drop_one, List.tail_cons]
        cases hq : indexByte q v1 with
        | none => rfl
        | some k =>
          have hk := indexByte_lt q v1 k hq
          simp only []
          rw [slice_le (by omega) (by simp; omega)]
          simp

theorem trimLWSLoop_spec (inp : Bytes) : ∀ (fuel i : Nat), i ≤ inp.length → inp.length + 1 ≤ fuel + i →
    ∃ j, trimLWSLoop inp fuel i = .ok j ∧ j ≤ inp.length ∧ inp.drop j = trimLWS (inp.drop i) := by
  intro fuel
  induction fuel with
  | zero => intro i h1 h2; omega
  | succ fuel ih =>
    intro i h1 h2
    unfold trimLWSLoop
    by_cases hi : i < inp.length
    · rw [if_pos hi, elemAt_lt hi, List.drop_eq_getElem_cons hi]
      simp only [ok_bind, trimLWS]
      by_cases hw : isWS inp[i] = true
      · simp only [hw, if_true]
        exact ih (i + 1) (by omega) (by omega)
      · simp only [hw, Bool.false_eq_true, if_false]
        exact ⟨i, rfl, h1, List.drop_eq_getElem_cons hi⟩
    · rw [if_neg hi]
      refine ⟨i, rfl, h1, ?_⟩
      rw [List.drop_eq_nil_of_le (by omega)]; rfl

theorem trimLWSIdx_refines (inp : Bytes) : trimLWSIdx inp = .ok (trimLWS inp) := by
  unfold trimLWSIdx
  obtain ⟨j, h1, h2, h3⟩ := trimLWSLoop_spec inp (inp.length + 1) 0 (by omega) (by omega)
  rw [h1]
  simp only [ok_bind]
  rw [sliceFrom_le h2, h3]; rfl

/-! ### text_csv.go: dropLastLine; text.go: dropCR, scanLine, NdJSON -/

theorem lastIdx_concat (c x : Nat) : ∀ (l : Bytes),
    lastIdx c (l ++ [x]) = if x == c then some l.length else lastIdx c l := by
  intro l
  induction l with
  | nil => simp [lastIdx]
  | cons a as ih =>
    simp only [List.cons_append, lastIdx, ih]
    by_cases hx : (x == c) = true
    · simp [hx]
    · simp only [hx, Bool.false_eq_true, if_false]

theorem take_succ_drop_one (b : Bytes) (n : Nat) (h1 : 1 ≤ n) (h2 : n < b.length) :
    (b.take (n + 1)).drop 1 = (b.take n).drop 1 ++ [b[n]] := by
  rw [List.take_succ_eq_append_getElem h2, List.drop_append_of_le_length (by simp; omega)]

/-- what `dropLastLine` returns given the last line feed after index 0 -/
def dllVal (b : Bytes) : Option Nat → Bytes
  | some j => b.take (j + 1)
  | none => b

theorem dropLastLineLoop_spec (b : Bytes) : ∀ (i fuel : Nat), i < b.length → i + 1 ≤ fuel →
    dropLastLineLoop b fuel (i : Int) = .ok (dllVal b (lastIdx 0x0A ((b.take (i + 1)).drop 1))) := by
  intro i
  induction i with
  | zero =>
    intro fuel h1 h2
    obtain ⟨f, rfl⟩ : ∃ f, fuel = f + 1 := ⟨fuel - 1, by omega⟩
    unfold dropLastLineLoop
    rw [if_neg (by simp)]
    cases b with
    | nil => simp at h1
    | cons a t => simp [lastIdx, dllVal]
  | succ i ih =>
    intro fuel h1 h2
    obtain ⟨f, rfl⟩ : ∃ f, fuel = f + 1 := ⟨fuel - 1, by omega⟩
    unfold dropLastLineLoop
    rw [if_pos (by omega), elemAtI_ofNat, elemAt_lt h1]
    simp only [ok_bind]
    rw [take_succ_drop_one b (i + 1) (by omega) h1, lastIdx_concat]
    have hl : ((b.take (i + 1)).drop 1).length = i := by simp; omega
    by_cases hc : (b[i + 1] == 0x0A) = true
    · simp only [hc, if_true, hl, dllVal]
      rw [sliceToI_ofNat, sliceTo_le (by omega)]
    · simp only [hc, Bool.false_eq_true, if_false]
      have : ((i + 1 : Nat) : Int) - 1 = (i : Int) := by omega
      rw [this]
      exact ih f (by omega) (by omega)

/-- `readLimit` is a `uint32` and `Detect` hands the signature checks at most `readLimit` bytes
    when it is not 0, so the hypothesis always holds inside the library
    (`dropLastLineIdx_header`); see `dropLastLine_uint32_witness` for what happens without it. -/
theorem dropLastLineIdx_refines (b : Bytes) (lim : Nat) (hlen : lim = 0 ∨ b.length < 4294967296) :
    dropLastLineIdx b lim = .ok (dropLastLine b lim) := by
  unfold dropLastLineIdx dropLastLine
  rcases hlen with rfl | hlen
  · rfl
  rw [Nat.mod_eq_of_lt hlen]
  split
  · rfl
  · cases b with
    | nil => rfl
    | cons a t =>
      have : ((a :: t).length : Int) - 1 = (t.length : Int) := by simp
      rw [this, dropLastLineLoop_spec (a :: t) t.length _ (by simp) (by simp)]
      have : ((a :: t).take (t.length + 1)).drop 1 = t := by simp
      rw [this]
      cases hl : lastIdx 0x0A t <;> simp only [hl, dllVal]

theorem header_small (x : Bytes) (lim : Nat) (hl : lim < 4294967296) :
    lim = 0 ∨ (header x lim).length < 4294967296 := by
  by_cases h : lim = 0
  · exact Or.inl h
  · exact Or.inr (Nat.lt_of_le_of_lt (header_length_le x lim h) hl)

theorem dropLastLineIdx_header (x : Bytes) (lim : Nat) (hl : lim < 4294967296) :
    dropLastLineIdx (header x lim) lim = .ok (dropLastLine (header x lim) lim) :=
  dropLastLineIdx_refines _ _ (header_small x lim hl)

theorem sliceI_append (pre suf : Bytes) (i : Int) (h : i = pre.length) :
    sliceI (pre ++ suf) 0 i = .ok pre := by
  subst h
  unfold sliceI
  rw [if_neg (by omega)]
  simp only [Int.toNat_zero, Int.toNat_natCast]
  rw [slice_le (by omega) (by simp)]
  simp

theorem dropCRIdx_refines (data : Bytes) : dropCRIdx data = .ok (dropCR data) := by
  obtain ⟨rc, rfl⟩ : ∃ rc, data = rc.reverse := ⟨data.reverse, by simp⟩
  unfold dropCRIdx dropCR
  cases rc with
  | nil => rfl
  | cons c r =>
    simp only [List.reverse_cons]
    rw [if_pos (by simp), elemAtI_append r.reverse c [] _ (by simp)]
    simp only [ok_bind, List.getLast?_append, List.getLast?_singleton, Option.some_or,
      List.dropLast_concat]
    by_cases hc : (c == 0x0D) = true
    · have : c = 0x0D := by simpa using hc
      subst this
      simp only [beq_self_eq_true, if_true]
      exact sliceI_append r.reverse [0x0D] _ (by simp)
    · have h2 : (some c == some 0x0D) = false := by simpa using hc
      simp only [hc, h2, Bool.false_eq_true, if_false]
      rfl

theorem scanLineIdx_refines (b : Bytes) : scanLineIdx b = .ok (scanLine b) := by
  unfold scanLineIdx scanLine
  cases cutNL b with
  | mk l r => simp only [dropCRIdx_refines, ok_bind, pure_eq]

theorem cutNL_snd_length : ∀ (cs : Bytes) (c : Nat), (cutNL (c :: cs)).2.length ≤ cs.length := by
  intro cs
  induction cs with
  | nil => intro c; simp only [cutNL]; split <;> simp
  | cons d ds ih =>
    intro c
    have := ih d
    rw [cutNL]
    split
    · simp
    · simp only [List.length_cons]; omega

theorem ndjsonLoopIdx_fuel : ∀ (fuel : Nat) (raw : Bytes) (lc oa : Nat), raw.length + 1 ≤ fuel →
    ndjsonLoopIdx fuel raw lc oa = .ok (match ndjsonLoop fuel raw lc oa with
      | none => false
      | some (lc, oa) => decide (lc > 1) && decide (oa > 0)) := by
  intro fuel
  induction fuel with
  | zero => intro raw lc oa h; omega
  | succ fuel ih =>
    intro raw lc oa h
    unfold ndjsonLoopIdx ndjsonLoop
    cases raw with
    | nil => rfl
    | cons a as =>
      have e1 : ((a :: as).length != 0) = true := rfl
      have e2 : (a :: as).isEmpty = false := rfl
      simp only [e1, e2, if_true, Bool.false_eq_true, if_false]
      rw [scanLineIdx_refines]
      simp only [ok_bind]
      have hlen : (scanLine (a :: as)).2.length ≤ as.length := cutNL_snd_length as a
      generalize scanLine (a :: as) = p at hlen
      obtain ⟨l, rest⟩ := p
      simp only []
      split
      · rfl
      · exact ih rest _ _ (by simp at h hlen ⊢; omega)

theorem ndjsonIdx_refines (raw : Bytes) (lim : Nat) (hlen : lim = 0 ∨ raw.length < 4294967296) :
    ndjsonIdx raw lim = .ok (ndjson raw lim) := by
  unfold ndjsonIdx ndjson
  rw [dropLastLineIdx_refines raw lim hlen]
  simp only [ok_bind]
  rw [ndjsonLoopIdx_fuel _ _ 0 0 (Nat.le_refl _)]
  cases ndjsonLoop ((dropLastLine raw lim).length + 1) (dropLastLine raw lim) 0 0 with
  | none => rfl
  | some p => rfl

theorem ndjsonIdx_header (x : Bytes) (lim : Nat) (hl : lim < 4294967296) :
    ndjsonIdx (header x lim) lim = .ok (ndjson (header x lim) lim) :=
  ndjsonIdx_refines _ _ (header_small x lim hl)

/-! ### archive.go: tarParseOctal, tarChksum, Tar -/

theorem i64_id (x : Int) (h1 : -9223372036854775808 ≤ x) (h2 : x < 9223372036854775808) : i64 x = x := by
  unfold i64; omega

/-- the value `tarParseOctal` returns, as the Go `int64` -/
def optInt : Option Nat → Int
  | none => -1
  | some n => (n : Int)

def octFinal : Step (Option Nat) Nat → Int
  | .ret (some r) => i64 r
  | .ret none => -1
  | .next r => i64 r

theorem shl3_or (acc d : Nat) (hd : d < 8) : (acc <<< 3) ||| d = acc * 8 + d := by
  rw [← Nat.shiftLeft_add_eq_or_of_lt (i := 3) (by omega), Nat.shiftLeft_eq]

theorem octal_fold : ∀ (cs : Bytes) (i acc n : Nat), acc < 8 ^ n → n + cs.length ≤ 21 →
    ∃ st, foldRange (fun _ c (ret : Nat) =>
      if c == 0 then (.ok (.ret (some ret)) : Out (Step (Option Nat) Nat))
      else if c < 0x30 || c > 0x37 then .ok (.ret none)
      else .ok (.next (((ret <<< 3) ||| (c - 0x30)) % 18446744073709551616))) cs i acc = .ok st
      ∧ octFinal st = optInt (octalLoop cs acc) := by
  intro cs
  induction cs with
  | nil =>
    intro i acc n h1 h2
    refine ⟨_, rfl, ?_⟩
    have : 8 ^ n ≤ 8 ^ 21 := Nat.pow_le_pow_right (by omega) (by omega)
    simp only [octFinal, octalLoop, optInt]
    exact i64_id _ (by omega) (by omega)
  | cons c rest ih =>
    intro i acc n h1 h2
    have hp : 8 ^ n ≤ 8 ^ 20 := Nat.pow_le_pow_right (by omega) (by simp at h2; omega)
    simp only [foldRange, octalLoop]
    by_cases hc0 : (c == 0) = true
    · simp only [hc0, if_true]
      refine ⟨_, rfl, ?_⟩
      simp only [octFinal, optInt]
      exact i64_id _ (by omega) (by omega)
    · simp only [hc0, Bool.false_eq_true, if_false]
      by_cases hc1 : (decide (c < 0x30) || decide (c > 0x37)) = true
      · simp only [hc1, if_true]
        exact ⟨_, rfl, rfl⟩
      · simp only [hc1, Bool.false_eq_true, if_false]
        have hd : c - 0x30 < 8 := by
          simp only [Bool.or_eq_true, decide_eq_true_eq, not_or] at hc1; omega
        have hlt : acc * 8 + (c - 0x30) < 8 ^ (n + 1) := by rw [Nat.pow_succ]; omega
        have hm : (acc * 8 + (c - 0x30)) % 18446744073709551616 = acc * 8 + (c - 0x30) :=
          Nat.mod_eq_of_lt (by rw [Nat.pow_succ] at hlt; omega)
        rw [shl3_or acc _ hd, hm]
        exact ih (i + 1) _ (n + 1) hlt (by simp at h2 ⊢; omega)

theorem trimTar_length_le (b : Bytes) : (trimTar b).length ≤ b.length := by
  unfold trimTar
  simp only [List.length_reverse]
  have h1 := (List.dropWhile_sublist (fun c => c == 0x20 || c == 0)
    (l := (b.dropWhile (fun c => c == 0x20 || c == 0)).reverse)).length_le
  have h2 := (List.dropWhile_sublist (fun c => c == 0x20 || c == 0) (l := b)).length_le
  simp only [List.length_reverse] at h1
  omega

theorem tarParseOctalIdx_refines (b : Bytes) (h : b.length ≤ 21) :
    tarParseOctalIdx b = .ok (optInt (tarParseOctal b)) := by
  unfold tarParseOctalIdx tarParseOctal
  have hl := trimTar_length_le b
  generalize trimTar b = t at hl
  cases t with
  | nil => rfl
  | cons a as =>
    have e1 : ((a :: as).length == 0) = false := rfl
    have e2 : (a :: as).isEmpty = false := rfl
    simp only [e1, e2, Bool.false_eq_true, if_false]
    rw [forRange_start]
    obtain ⟨st, h1, h2⟩ := octal_fold (a :: as) 0 0 0 (by simp) (by omega)
    rw [h1, ← h2]
    simp only [ok_bind]
    cases st with
    | ret r => cases r <;> rfl
    | next r => rfl

theorem tarByte_lt {i c : Nat} (h : c < 256) : tarByte i c < 256 := by
  unfold tarByte; split <;> omega

theorem int8_bounds {c : Nat} (h : c < 256) : -128 ≤ int8 c ∧ int8 c ≤ 127 := by
  unfold int8; split <;> omega

theorem chksum_fold : ∀ (cs : Bytes) (i : Nat) (u s : Int), AllBytes cs →
    0 ≤ u → u + 255 * (cs.length : Int) < 9223372036854775808 →
    -9223372036854775808 ≤ s - 128 * (cs.length : Int) → s + 127 * (cs.length : Int) < 9223372036854775808 →
    foldRange (fun i c (acc : Int × Int) =>
      (.ok (.next (i64 (acc.1 + (tarByte i c : Nat)), i64 (acc.2 + int8 (tarByte i c)))) :
        Out (Step (Int × Int) (Int × Int)))) cs i (u, s)
    = .ok (.next (u + (tarSumU i cs : Nat), s + tarSumS i cs)) := by
  intro cs
  induction cs with
  | nil => intro i u s _ _ _ _ _; simp [foldRange, tarSumU, tarSumS]
  | cons c rest ih =>
    intro i u s hb h1 h2 h3 h4
    have hc := tarByte_lt (i := i) (allBytes_head hb)
    have h8 := int8_bounds hc
    simp only [List.length_cons, Int.natCast_add, Int.natCast_one] at h2 h3 h4
    simp only [foldRange, tarSumU, tarSumS]
    rw [i64_id _ (by omega) (by omega), i64_id _ (by omega) (by omega)]
    rw [ih (i + 1) _ _ (allBytes_tail hb) (by omega) (by omega) (by omega) (by omega)]
    simp only [Int.natCast_add, Int.add_assoc]

theorem tarChksumIdx_refines (b : Bytes) (h : AllBytes b) (hl : b.length < 36028797018963968) :
    tarChksumIdx b = .ok ((tarSumU 0 b : Nat), tarSumS 0 b) := by
  unfold tarChksumIdx
  rw [forRange_start, chksum_fold b 0 0 0 h (by omega) (by omega) (by omega) (by omega)]
  simp [Step.val]

theorem natCast_beq (n m : Nat) : ((n : Int) == (m : Int)) = (n == m) := by
  rw [Bool.eq_iff_iff]; simp only [beq_iff_eq]; omega

theorem allBytes_take {b : Bytes} (n : Nat) (h : AllBytes b) : AllBytes (b.take n) :=
  fun x hx => h x (List.mem_of_mem_take hx)

theorem tarIdx_refines (raw : Bytes) (h : AllBytes raw) : tarIdx raw = .ok (tar raw) := by
  unfold tarIdx tar
  split
  · rfl
  · rename_i hlen
    rw [sliceTo_le (by omega)]
    simp only [ok_bind]
    have hbl : (raw.take 512).length = 512 := by simp; omega
    have hba := allBytes_take 512 h
    generalize raw.take 512 = blk at hbl hba
    rw [sliceTo_le (by omega)]
    simp only [ok_bind]
    split
    · rfl
    · rw [slice_le (by omega) (by omega)]
      simp only [ok_bind]
      rw [tarParseOctalIdx_refines _ (by simp; omega), tarChksumIdx_refines blk hba (by omega)]
      simp only [ok_bind, Mime.slice]
      cases tarParseOctal (List.drop 148 (List.take 156 blk)) with
      | none => rfl
      | some n =>
        simp only [optInt]
        have : ((n : Int) == -1) = false := by rw [beq_eq_false_iff_ne]; omega
        simp only [this, Bool.false_eq_true, if_false, pure_eq, natCast_beq]

/-! ### magic.go: trimRWS -/

theorem dropTrailWS_concat (l : Bytes) (x : Nat) :
    dropTrailWS (l ++ [x]) = if isWS x then dropTrailWS l else l ++ [x] := by
  unfold dropTrailWS
  simp only [List.reverse_append, List.reverse_cons, List.reverse_nil, List.nil_append,
    List.singleton_append, List.dropWhile_cons]
  split <;> simp

theorem trimRWSLoop_spec (a : Nat) (t : Bytes) : ∀ (i fuel : Nat), i ≤ t.length → i + 1 ≤ fuel →
    ∃ j : Nat, trimRWSLoop (a :: t) fuel (i : Int) = .ok (j : Int) ∧ j ≤ i ∧
      (a :: t).take (j + 1) = a :: dropTrailWS (t.take i) := by
  intro i
  induction i with
  | zero =>
    intro fuel h1 h2
    obtain ⟨f, rfl⟩ : ∃ f, fuel = f + 1 := ⟨fuel - 1, by omega⟩
    refine ⟨0, ?_, Nat.le_refl _, ?_⟩
    · unfold trimRWSLoop
      rw [if_neg (by simp)]; rfl
    · simp [dropTrailWS]
  | succ i ih =>
    intro fuel h1 h2
    obtain ⟨f, rfl⟩ : ∃ f, fuel = f + 1 := ⟨fuel - 1, by omega⟩
    have hi : i < t.length := by omega
    unfold trimRWSLoop
    rw [if_pos (by omega), elemAtI_ofNat, elemAt_lt (by simp; omega)]
    simp only [ok_bind, List.getElem_cons_succ]
    rw [List.take_succ_eq_append_getElem hi, dropTrailWS_concat]
    by_cases hw : isWS t[i] = true
    · simp only [hw, if_true]
      have : ((i + 1 : Nat) : Int) - 1 = (i : Int) := by omega
      rw [this]
      obtain ⟨j, h3, h4, h5⟩ := ih f (by omega) (by omega)
      exact ⟨j, h3, by omega, h5⟩
    · simp only [hw, Bool.false_eq_true, if_false]
      refine ⟨i + 1, rfl, Nat.le_refl _, ?_⟩
      rw [List.take_succ_cons, List.take_succ_eq_append_getElem hi]

theorem trimRWSIdx_refines (inp : Bytes) : trimRWSIdx inp = .ok (trimRWS inp) := by
  unfold trimRWSIdx
  cases inp with
  | nil => rfl
  | cons a t =>
    have : ((a :: t).length : Int) - 1 = (t.length : Int) := by simp
    rw [this]
    obtain ⟨j, h1, h2, h3⟩ := trimRWSLoop_spec a t t.length ((a :: t).length + 1) (Nat.le_refl _) (by simp)
    rw [h1]
    simp only [ok_bind]
    have : (j : Int) + 1 = ((j + 1 : Nat) : Int) := by omega
    rw [this, sliceToI_ofNat, sliceTo_le (by simp; omega), h3]
    simp [trimRWS]

/-! ### where the list models and the Go code part (outside what mimetype can reach) -/

theorem lastIdx_lt (c : Nat) : ∀ (t : Bytes) (j : Nat), lastIdx c t = some j → j < t.length := by
  intro t
  induction t with
  | nil => intro j h; cases h
  | cons a as ih =>
    intro j h
    simp only [lastIdx] at h
    cases hi : lastIdx c as with
    | some k =>
      simp only [hi, Option.some.injEq] at h
      have := ih k hi
      simp; omega
    | none =>
      simp only [hi] at h
      split at h
      · cases h; simp
      · cases h

/-- `uint32(len(b))` wraps: on 2^32 line feeds with `readLimit = 1` the Go code returns its
    input, the list model (which compares `len(b)` itself) drops the last line.  `Detect`
    cuts its input to `readLimit < 2^32` bytes first, so the library never gets here. -/
theorem dropLastLine_uint32_witness (n : Nat) (h0 : n % 4294967296 = 0) (h2 : 2 ≤ n) :
    dropLastLineIdx (List.replicate n 0x0A) 1 = .ok (List.replicate n 0x0A) ∧
    (dropLastLine (List.replicate n 0x0A) 1).length < n := by
  constructor
  · unfold dropLastLineIdx
    simp [h0]
  · obtain ⟨m, rfl⟩ : ∃ m, n = m + 2 := ⟨n - 2, by omega⟩
    unfold dropLastLine
    simp only [List.replicate_succ]
    cases hl : lastIdx 0x0A (0x0A :: List.replicate m 0x0A) with
    | none =>
      simp only [lastIdx] at hl
      cases h : lastIdx 0x0A (List.replicate m 0x0A) <;> simp [h] at hl
    | some j =>
      have := lastIdx_lt _ _ _ hl
      simp at this ⊢
      omega

/-! ### sanity checks (evaluated by the kernel) -/

-- "aé" cut inside the two-byte rune: the partial rune is dropped, the rest is ASCII → latin
example : fromPlainIdx [0x61, 0xC3] = .ok csLatin1 := by decide
example : fromPlainIdx [0x61, 0xC3, 0xA9, 0xE2, 0x82] = .ok csUtf8 := by decide
example : fromPlainIdx [] = .ok [] := by decide
example : fromPlainIdx [0xFF, 0xFE, 0x61, 0x00] = .ok [117, 116, 102, 45, 49, 54, 108, 101] := by decide
-- not a byte: `textChars[b]` is out of range
example : fromPlainIdx [300] = .panic := by decide
-- of 0x80 … 0x9F only NEL (0x85) is classed `T`: it alone yields windows-1252
example : latinIdx [0x61, 0x85] = .ok csWin1252 := by decide
example : latinIdx [0x61, 0x93] = .ok [] := by decide
example : asciiIdx [0x61, 0x85] = .ok false := by decide
-- "charset charset=x;" → "x"
example : fromMetaElementIdx 19 [99, 104, 97, 114, 115, 101, 116, 32, 99, 104, 97, 114, 115, 101, 116, 61, 120, 59]
    = .ok [120] := by decide
-- one iteration is not enough for it
example : fromMetaElementIdx 1 [99, 104, 97, 114, 115, 101, 116, 32, 99, 104, 97, 114, 115, 101, 116, 61, 120, 59]
    = .fuel := by decide
-- "encoding='l1'"
example : xmlEncodingIdx [101, 110, 99, 111, 100, 105, 110, 103, 61, 39, 108, 49, 39] = .ok [108, 49] := by decide
example : xmlEncodingIdx [101, 110, 99, 111, 100, 105, 110, 103, 61] = .ok [] := by decide
example : trimLWSIdx [32, 9, 120, 32] = .ok [120, 32] := by decide
example : trimRWSIdx [32, 32, 32] = .ok [32] := by decide
example : trimRWSIdx [] = .ok [] := by decide
example : dropLastLineIdx [97, 10, 98, 10, 99] 5 = .ok [97, 10, 98] := by decide
example : dropLastLineIdx [10, 97, 98, 99] 4 = .ok [10, 97, 98, 99] := by decide
example : dropLastLineIdx [] 0 = .ok [] := by decide
example : scanLineIdx [97, 98, 13, 10, 99, 100] = .ok ([97, 98], [99, 100]) := by decide
-- "{}\n[1]\n" and the same with the second line cut short
example : ndjsonIdx [123, 125, 10, 91, 49, 93, 10] 0 = .ok true := by decide
example : ndjsonIdx [123, 125, 10, 91, 49, 10] 0 = .ok false := by decide
example : textIdx [1, 2] = .ok false := by decide
example : textIdx [0xEF, 0xBB, 0xBF, 1] = .ok true := by decide
-- " 0001234 \x00"
example : tarParseOctalIdx [32, 48, 48, 48, 49, 50, 51, 52, 32, 0] = .ok 668 := by decide
example : tarParseOctalIdx [48, 57] = .ok (-1) := by decide
-- 22 sevens: 2^66 − 1 does not fit an `int64`; the Go code answers −1 (the model: `some (8^22 − 1)`)
example : tarParseOctalIdx (List.replicate 22 0x37) = .ok (-1) := by decide
example : tarChksumIdx [1, 2, 255] = .ok (258, 2) := by decide
example : tarIdx [1, 2, 3] = .ok false := by decide
-- the primitives
example : elemAt [1, 2, 3] 3 = (.panic : Out Nat) := by decide
example : elemAtI [1, 2, 3] (-1) = (.panic : Out Nat) := by decide
example : sliceFrom [1, 2, 3] 3 = .ok [] := by decide
example : sliceFrom [1, 2, 3] 4 = .panic := by decide
example : Idx.slice [1, 2, 3] 2 1 = .panic := by decide
example : Idx.slice [1, 2, 3] 1 3 = .ok [2, 3] := by decide
example : textCharsAt 256 = .panic := by decide

end Mime.IdxLemmas
