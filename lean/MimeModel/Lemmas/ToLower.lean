import MimeModel.Model.XmlFull
import MimeModel.Lemmas.ToLowerIndex
import MimeModel.Lemmas.MediaTypeU
import MimeModel.Props.C12_Xml
/-
  Lemmas about the full model of Go's `strings.ToLower` (`Mime.Lower.goToLower`, Model/ToLower.lean)
  and about `charset.FromXML` with the label lower-cased by it (Model/XmlFull.lean).

    goToLower_ascii            on ASCII input it is `Charset.lowerASCII`
    goToLower_length_ascii     … and keeps the length (NOT true in general: U+023A grows, U+212A shrinks)
    goToLower_eq_map           the ASCII fast path is an instance of `strings.Map(unicode.ToLower, ·)`
    runes_goToLower            the result, read back as runes, is the rune-wise image (U+FFFD for bad bytes)
    goToLower_idem             lower-casing twice = once (also on invalid UTF-8)
    goToLower_eq_nil           only the empty string lower-cases to the empty string
    toLowerRune_ascii / _valid / _idem, lowerTab_sorted / _entries / _closed / _length
                               facts about the regenerated table, by `decide +kernel`
    fromXML*Full_of_ascii_label, fromXMLDeclFull_of_ascii, fromXMLBytesFull_of_ascii
                               the Full definitions agree with the existing ones when the label is ASCII
    xml_declared_bytes_full    … in particular on every document of `C12.xml_declared_bytes`
    fromXMLBytesFull_declared  a declared label, ASCII or not, is reported as `goToLower` leaves it
    fromXMLDeclFull_eq / fromXMLBytesFull_eq
                               what the Full definitions compute, in one line each

  Kernel cost: a structural list step costs the kernel ~0.1 ms, so facts that look up every table value in the
  table (idempotence: 1433 x 1433) are decided through a CERTIFIED index: Lemmas/ToLowerIndex.lean holds the
  same entries as a balanced search tree (generated); `lowerTree_toList` (in-order list = `lowerTab`),
  `lowerTree_ok` (search-tree invariant) and `LTree.find_eq` (tree search = list search) are proved here, so
  nothing about the index is trusted.  The model itself (`toLowerRune`) only uses the flat list.
-/
namespace Mime.Lower
open Mime Mime.MTU Mime.Charset

/-! ### the table -/

theorem lookupTab_mem : ∀ (t : List (Nat × Nat)) (r l : Nat), lookupTab t r = some l → (r, l) ∈ t := by
  intro t
  induction t with
  | nil => intro r l h; simp [lookupTab] at h
  | cons p rest ih =>
    intro r l h
    obtain ⟨k, v⟩ := p
    simp only [lookupTab] at h
    split at h
    · rename_i hk
      simp only [beq_iff_eq] at hk
      simp only [Option.some.injEq] at h
      subst hk; subst h
      exact List.mem_cons_self ..
    · exact List.mem_cons_of_mem _ (ih r l h)

theorem lookupTab_none : ∀ (t : List (Nat × Nat)) (r : Nat), (∀ p ∈ t, p.1 ≠ r) → lookupTab t r = none := by
  intro t
  induction t with
  | nil => intro r _; rfl
  | cons p rest ih =>
    intro r h
    obtain ⟨k, v⟩ := p
    have hk : (r == k) = false := by
      rw [beq_eq_false_iff_ne]; exact fun e => h (k, v) (List.mem_cons_self ..) e.symm
    simp only [lookupTab, hk, Bool.false_eq_true, if_false]
    exact ih r (fun q hq => h q (List.mem_cons_of_mem _ hq))

theorem lookupTab_append : ∀ (a b : List (Nat × Nat)) (r : Nat),
    lookupTab (a ++ b) r = match lookupTab a r with | some v => some v | none => lookupTab b r := by
  intro a
  induction a with
  | nil => intro b r; rfl
  | cons p rest ih =>
    intro b r
    obtain ⟨k, v⟩ := p
    simp only [List.cons_append, lookupTab]
    split
    · rfl
    · exact ih b r

/-! #### a certified logarithmic search (proofs only: `decide` over the flat table is quadratic) -/

/-- in-order entries -/
def LTree.toList : LTree → List (Nat × Nat)
  | .leaf => []
  | .node l k v r => l.toList ++ (k, v) :: r.toList

/-- in-order entries, with an accumulator (linear; this is what `decide` runs) -/
def LTree.toListAcc : LTree → List (Nat × Nat) → List (Nat × Nat)
  | .leaf, acc => acc
  | .node l k v r, acc => l.toListAcc ((k, v) :: r.toListAcc acc)

/-- search-tree invariant: every key in `[lo, hi)`, left keys `< k <` right keys -/
def LTree.ok : LTree → Nat → Nat → Bool
  | .leaf, _, _ => true
  | .node l k _ r, lo, hi => decide (lo ≤ k) && decide (k < hi) && l.ok lo k && r.ok (k + 1) hi

def LTree.find : LTree → Nat → Option Nat
  | .leaf, _ => none
  | .node l k v r, x => if x < k then l.find x else if x == k then some v else r.find x

theorem LTree.toListAcc_eq : ∀ (t : LTree) (acc : List (Nat × Nat)), t.toListAcc acc = t.toList ++ acc := by
  intro t
  induction t with
  | leaf => intro acc; rfl
  | node l k v r ihl ihr =>
    intro acc
    simp only [LTree.toListAcc, LTree.toList, ihl, ihr, List.append_assoc, List.cons_append]

theorem LTree.ok_keys : ∀ (t : LTree) (lo hi : Nat), t.ok lo hi = true → ∀ p ∈ t.toList, lo ≤ p.1 ∧ p.1 < hi := by
  intro t
  induction t with
  | leaf => intro lo hi _ p hp; simp [LTree.toList] at hp
  | node l k v r ihl ihr =>
    intro lo hi h p hp
    simp only [LTree.ok, Bool.and_eq_true, decide_eq_true_eq] at h
    obtain ⟨⟨⟨h1, h2⟩, h3⟩, h4⟩ := h
    simp only [LTree.toList, List.mem_append, List.mem_cons] at hp
    rcases hp with hp | rfl | hp
    · have := ihl lo k h3 p hp; omega
    · exact ⟨h1, h2⟩
    · have := ihr (k + 1) hi h4 p hp; omega

/-- on a search tree the logarithmic search finds what the linear search of the in-order list finds -/
theorem LTree.find_eq : ∀ (t : LTree) (lo hi : Nat), t.ok lo hi = true → ∀ x, t.find x = lookupTab t.toList x := by
  intro t
  induction t with
  | leaf => intro _ _ _ x; rfl
  | node l k v r ihl ihr =>
    intro lo hi h x
    have hk := LTree.ok_keys _ _ _ h
    simp only [LTree.ok, Bool.and_eq_true, decide_eq_true_eq] at h
    obtain ⟨⟨⟨_, _⟩, h3⟩, h4⟩ := h
    have kl := LTree.ok_keys _ _ _ h3
    have kr := LTree.ok_keys _ _ _ h4
    simp only [LTree.find, LTree.toList, lookupTab_append, lookupTab]
    by_cases hx : x < k
    · have e : (x == k) = false := by rw [beq_eq_false_iff_ne]; omega
      have hr : lookupTab r.toList x = none :=
        lookupTab_none _ _ (fun p hp => by have := kr p hp; omega)
      simp only [hx, if_true, e, Bool.false_eq_true, if_false, hr, ihl lo k h3 x]
      cases lookupTab l.toList x <;> rfl
    · have hl : lookupTab l.toList x = none :=
        lookupTab_none _ _ (fun p hp => by have := kl p hp; omega)
      simp only [hx, if_false, hl]
      by_cases e : (x == k) = true
      · simp only [e, if_true]
      · simp only [e, Bool.false_eq_true, if_false]
        exact ihr (k + 1) hi h4 x

/-- the generated table has the announced size -/
theorem lowerTab_length : lowerTab.length = lowerTabSize := by decide +kernel

/-- the index lists the same entries in the same order -/
theorem lowerTree_toListAcc : lowerTree.toListAcc [] = lowerTab := by decide +kernel

theorem lowerTree_toList : lowerTree.toList = lowerTab := by
  have := LTree.toListAcc_eq lowerTree []
  rw [List.append_nil] at this
  rw [← this]; exact lowerTree_toListAcc

theorem lowerTree_ok : lowerTree.ok 0 0x110000 = true := by decide +kernel

/-- `unicode.ToLower` by the logarithmic search -/
def fastLower (r : Nat) : Nat := (lowerTree.find r).getD r

theorem find_lowerTab (r : Nat) : lowerTree.find r = lookupTab lowerTab r := by
  rw [← lowerTree_toList]; exact LTree.find_eq _ _ _ lowerTree_ok r

theorem fastLower_eq (r : Nat) : fastLower r = toLowerRune r := by
  unfold fastLower toLowerRune; rw [find_lowerTab]
  cases lookupTab lowerTab r <;> rfl

/-- keys strictly increasing: every rune has at most one entry, whatever the search order -/
theorem lowerTab_sorted : (lowerTab.zip lowerTab.tail).all (fun p => p.1.1 < p.2.1) = true := by decide +kernel

/-- an entry changes its rune, and both sides are Unicode scalar values -/
theorem lowerTab_entries :
    lowerTab.all (fun p => p.1 != p.2 &&
      (p.1 < 0xD800 || (0xE000 ≤ p.1 && p.1 < 0x110000)) &&
      (p.2 < 0xD800 || (0xE000 ≤ p.2 && p.2 < 0x110000))) = true := by decide +kernel

/-- no lower-case value is itself a key (checked through the logarithmic search) -/
theorem lowerTab_closed' : lowerTab.all (fun p => (lowerTree.find p.2).isNone) = true := by decide +kernel

theorem lowerTab_closed : lowerTab.all (fun p => (lookupTab lowerTab p.2).isNone) = true := by
  have h := lowerTab_closed'
  simp only [find_lowerTab] at h
  exact h

/-- `unicode.ToLower` on ASCII -/
theorem fastLower_ascii_all :
    ∀ c, c < 0x80 → fastLower c = (if 0x41 ≤ c && c ≤ 0x5A then c + 0x20 else c) := by decide +kernel

theorem toLowerRune_ascii_all (c : Nat) (h : c < 0x80) :
    toLowerRune c = (if 0x41 ≤ c && c ≤ 0x5A then c + 0x20 else c) := by
  rw [← fastLower_eq]; exact fastLower_ascii_all c h

theorem toLowerRune_ascii (c : Nat) (h : c < 0x80) :
    toLowerRune c = (if 0x41 ≤ c && c ≤ 0x5A then c + 0x20 else c) := toLowerRune_ascii_all c h

theorem toLowerRune_valid (r : Nat) (h : ValidRune r) : ValidRune (toLowerRune r) := by
  unfold toLowerRune
  cases hl : lookupTab lowerTab r with
  | none => exact h
  | some l =>
    have hm := lookupTab_mem _ _ _ hl
    have := List.all_eq_true.mp lowerTab_entries _ hm
    simp only [Bool.and_eq_true, Bool.or_eq_true, decide_eq_true_eq] at this
    exact this.2

/-- `unicode.ToLower (unicode.ToLower r) = unicode.ToLower r` -/
theorem toLowerRune_idem (r : Nat) : toLowerRune (toLowerRune r) = toLowerRune r := by
  cases hl : lookupTab lowerTab r with
  | none =>
    have e : toLowerRune r = r := by simp only [toLowerRune, hl]
    rw [e, e]
  | some l =>
    have e : toLowerRune r = l := by simp only [toLowerRune, hl]
    have hm := lookupTab_mem _ _ _ hl
    have := List.all_eq_true.mp lowerTab_closed _ hm
    simp only [Option.isNone_iff_eq_none] at this
    rw [e]
    simp only [toLowerRune, this]

/-- a rune without an entry is fixed (caseless or lower case; surrogates; anything > U+10FFFF) -/
theorem toLowerRune_fixed (r : Nat) (h : lookupTab lowerTab r = none) : toLowerRune r = r := by
  simp only [toLowerRune, h]

/-! ### ASCII -/

theorem asc_of_all {s : Bytes} (h : s.all (fun b => b < 0x80) = true) : Asc s := by
  intro b hb
  have := List.all_eq_true.mp h b hb
  simpa using this

theorem all_of_asc {s : Bytes} (h : ∀ b ∈ s, b < 0x80) : s.all (fun b => b < 0x80) = true := by
  apply List.all_eq_true.mpr
  intro b hb
  simpa using h b hb

/-- **ASCII strings**: `strings.ToLower` is the byte-wise `A`–`Z` mapping -/
theorem goToLower_ascii (s : Bytes) (h : ∀ b ∈ s, b < 0x80) : goToLower s = Charset.lowerASCII s := by
  unfold goToLower
  rw [all_of_asc h]
  rfl

/-- on ASCII strings the length is kept -/
theorem goToLower_length_ascii (s : Bytes) (h : ∀ b ∈ s, b < 0x80) : (goToLower s).length = s.length := by
  rw [goToLower_ascii s h]
  unfold Charset.lowerASCII
  exact List.length_map _

/-- the general path on an ASCII string gives the fast path's answer -/
theorem mapLower_ascii (s : Bytes) (h : ∀ b ∈ s, b < 0x80) : mapLower s = Charset.lowerASCII s := by
  unfold mapLower Charset.lowerASCII
  rw [runes_ascii s h]
  induction s with
  | nil => rfl
  | cons c cs ih =>
    have hc : c < 0x80 := h c (List.mem_cons_self ..)
    have hcs : ∀ b ∈ cs, b < 0x80 := fun b hb => h b (List.mem_cons_of_mem _ hb)
    simp only [List.flatMap_cons, List.map_cons]
    rw [ih hcs, toLowerRune_ascii c hc]
    generalize hX : (if (0x41 ≤ c && c ≤ 0x5A) then c + 0x20 else c) = X
    have hlt : X < 0x80 := by
      subst hX
      split
      · rename_i hh; simp at hh; omega
      · exact hc
    simp [encodeRune, hlt]

/-- **`strings.ToLower(s) = strings.Map(unicode.ToLower, s)` for every `s`**: the ASCII fast path of
    `ToLower` is an optimisation, not a different function -/
theorem goToLower_eq_map (s : Bytes) : goToLower s = mapLower s := by
  unfold goToLower
  split
  · rename_i h
    exact (mapLower_ascii s (asc_of_all h)).symm
  · rfl

/-! ### the result as a rune sequence; idempotence -/

/-- the rune sequence of the result is the rune-wise image of the rune sequence of the argument
    (an invalid byte counts as U+FFFD, as in `for _, c := range s`) -/
theorem runes_goToLower (s : Bytes) : runes (goToLower s) = (runes s).map toLowerRune := by
  rw [goToLower_eq_map]
  unfold mapLower
  have hv : ∀ r ∈ (runes s).map toLowerRune, ValidRune r := by
    intro r hr
    obtain ⟨x, hx, rfl⟩ := List.mem_map.mp hr
    exact toLowerRune_valid x (runes_valid _ s (Nat.le_refl _) x hx)
  have := runes_encode _ hv []
  rw [List.append_nil, runes_nil, List.append_nil, List.flatMap_map] at this
  exact this

theorem flatMap_congr' {f g : Nat → Bytes} : ∀ (l : List Nat), (∀ x ∈ l, f x = g x) → l.flatMap f = l.flatMap g := by
  intro l
  induction l with
  | nil => intro _; rfl
  | cons a l ih =>
    intro h
    simp only [List.flatMap_cons]
    rw [h a (List.mem_cons_self ..), ih (fun x hx => h x (List.mem_cons_of_mem _ hx))]

/-- **idempotence**, for every byte string (valid UTF-8 or not) -/
theorem goToLower_idem (s : Bytes) : goToLower (goToLower s) = goToLower s := by
  rw [goToLower_eq_map (goToLower s)]
  unfold mapLower
  rw [runes_goToLower, goToLower_eq_map s]
  unfold mapLower
  rw [List.flatMap_map]
  apply flatMap_congr'
  intro r _
  simp only [toLowerRune_idem]

theorem encodeRune_ne_nil (r : Nat) : encodeRune r ≠ [] := by
  unfold encodeRune
  repeat' split
  all_goals simp

/-- `strings.ToLower(s) == ""` only for `s == ""` (no rune is dropped) -/
theorem goToLower_eq_nil (s : Bytes) : goToLower s = [] ↔ s = [] := by
  constructor
  · intro h
    cases s with
    | nil => rfl
    | cons b0 t =>
      rw [goToLower_eq_map] at h
      unfold mapLower at h
      rw [runes_cons, List.flatMap_cons] at h
      have := List.append_eq_nil_iff.mp h
      exact absurd this.1 (encodeRune_ne_nil _)
  · intro h; subst h; rfl

end Mime.Lower

namespace Mime.XmlFull
open Mime Mime.MTU Mime.Charset Mime.XmlTok Mime.Lower

/-! ### `FromXML` with the full lower-casing -/

/-- what `fromXMLDeclFull` computes -/
theorem fromXMLDeclFull_eq (content : Bytes) :
    fromXMLDeclFull content = goToLower (((firstProcInst (trimLWS content)).map xmlEncoding).getD []) := by
  unfold fromXMLDeclFull
  cases firstProcInst (trimLWS content) <;> rfl

/-- `FromXML` = the declared label if there is one, else `FromPlain` of the (untrimmed) content -/
theorem fromXMLBytesFull_eq (content : Bytes) :
    fromXMLBytesFull content =
      if fromXMLDeclFull content != [] then fromXMLDeclFull content else fromPlain content := by
  unfold fromXMLBytesFull fromXMLFull fromXMLDeclFull
  cases firstProcInst (trimLWS content) <;> rfl

/-- **the Full model extends the existing one**: with the decoder's answer as a parameter, whenever the
    extracted label (`xmlEncoding` of the instruction) is ASCII -/
theorem fromXMLFull_of_ascii_label (content : Bytes) (inst : Option Bytes)
    (h : ∀ i, inst = some i → ∀ b ∈ xmlEncoding i, b < 0x80) :
    fromXMLFull content inst = Charset.fromXML content inst := by
  unfold fromXMLFull Charset.fromXML
  cases inst with
  | none => rfl
  | some i => simp only [goToLower_ascii _ (h i rfl)]

theorem fromXMLDeclFull_of_ascii_label (content : Bytes)
    (h : ∀ i, firstProcInst (trimLWS content) = some i → ∀ b ∈ xmlEncoding i, b < 0x80) :
    fromXMLDeclFull content = fromXMLDecl content := by
  unfold fromXMLDeclFull fromXMLDecl
  cases hi : firstProcInst (trimLWS content) with
  | none => rfl
  | some i => simp only [goToLower_ascii _ (h i hi)]

theorem fromXMLBytesFull_of_ascii_label (content : Bytes)
    (h : ∀ i, firstProcInst (trimLWS content) = some i → ∀ b ∈ xmlEncoding i, b < 0x80) :
    fromXMLBytesFull content = fromXMLBytes content :=
  fromXMLFull_of_ascii_label content _ h

theorem lowerASCII_asc_iff (s : Bytes) : (∀ b ∈ lowerASCII s, b < 0x80) ↔ (∀ b ∈ s, b < 0x80) := by
  unfold lowerASCII
  constructor
  · intro h b hb
    have := h _ (List.mem_map.mpr ⟨b, hb, rfl⟩)
    split at this <;> omega
  · intro h b hb
    obtain ⟨c, hc, rfl⟩ := List.mem_map.mp hb
    have := h c hc
    split
    · rename_i hh; simp at hh; omega
    · exact this

/-- the same with a hypothesis on the RESULT of the existing model: when `fromXMLDecl` (ASCII lower-casing)
    answers with an ASCII string — `[]` included — the Full versions give the same answers -/
theorem fromXMLDeclFull_of_ascii (content : Bytes) (h : ∀ b ∈ fromXMLDecl content, b < 0x80) :
    fromXMLDeclFull content = fromXMLDecl content := by
  apply fromXMLDeclFull_of_ascii_label
  intro i hi
  unfold fromXMLDecl at h
  rw [hi] at h
  exact (lowerASCII_asc_iff _).mp h

theorem fromXMLBytesFull_of_ascii (content : Bytes) (h : ∀ b ∈ fromXMLDecl content, b < 0x80) :
    fromXMLBytesFull content = fromXMLBytes content := by
  apply fromXMLBytesFull_of_ascii_label
  intro i hi
  unfold fromXMLDecl at h
  rw [hi] at h
  exact (lowerASCII_asc_iff _).mp h

/-- **C12 (XML 1.0 declaration, byte level) for the Full model**: on every document covered by
    `C12.xml_declared_bytes` the Full versions report the label in (ASCII) lower case too -/
theorem xml_declared_bytes_full (lead S L tail rest : Bytes) (q : Nat)
    (hlead : ∀ c ∈ lead, isWS c = true) (hq : q = 0x22 ∨ q = 0x27)
    (hS : ∀ c ∈ S, isXmlSpace c = true)
    (hL : ∀ c ∈ L, MT.isTokenChar c = true ∧ c ≠ 0x27) (hne : L ≠ [])
    (ht : XmlTokLemmas.TailForm tail) :
    fromXMLBytesFull (lead ++ XmlTokLemmas.prologStart ++ [0x20] ++ kwVersionEq ++ [q] ++ v10 ++ [q] ++ S ++
        kwEncodingEq ++ [q] ++ L ++ [q] ++ tail ++ piEnd ++ rest) = lowerASCII L ∧
    fromXMLDeclFull (lead ++ XmlTokLemmas.prologStart ++ [0x20] ++ kwVersionEq ++ [q] ++ v10 ++ [q] ++ S ++
        kwEncodingEq ++ [q] ++ L ++ [q] ++ tail ++ piEnd ++ rest) = lowerASCII L := by
  obtain ⟨h1, h2⟩ := C12.xml_declared_bytes lead S L tail rest q hlead hq hS hL hne ht
  have hasc : ∀ b ∈ lowerASCII L, b < 0x80 :=
    (lowerASCII_asc_iff L).mpr (fun c hc => Nat.lt_trans (isTokenChar_lt c (hL c hc).1) (by decide))
  constructor
  · rw [fromXMLBytesFull_of_ascii _ (by rw [h2]; exact hasc), h1]
  · rw [fromXMLDeclFull_of_ascii _ (by rw [h2]; exact hasc), h2]

/-- a label with a byte ≥ 0x80 is reported as `strings.ToLower` leaves it: the answer of the Full model in
    terms of the decoder's instruction (no ASCII restriction) -/
theorem fromXMLBytesFull_declared (content i : Bytes) (hi : firstProcInst (trimLWS content) = some i)
    (hne : xmlEncoding i ≠ []) :
    fromXMLBytesFull content = goToLower (xmlEncoding i) ∧ fromXMLDeclFull content = goToLower (xmlEncoding i) := by
  have hn : goToLower (xmlEncoding i) ≠ [] := fun h => hne ((goToLower_eq_nil _).mp h)
  constructor
  · unfold fromXMLBytesFull fromXMLFull
    rw [hi]
    simp [hn]
  · unfold fromXMLDeclFull
    rw [hi]

end Mime.XmlFull

/-! ### behaviour examples (kernel-checked) -/
namespace Mime.Lower
open Mime Mime.XmlFull

-- É (C3 89) -> é (C3 A9)
example : goToLower [0xC3, 0x89] = [0xC3, 0xA9] := by decide +kernel
-- İ U+0130 (C4 B0) -> i, WITHOUT the combining dot U+0307: the simple mapping, not SpecialCasing
example : goToLower [0xC4, 0xB0] = [0x69] := by decide +kernel
-- K U+212A KELVIN SIGN (E2 84 AA) -> k: three bytes become one
example : goToLower [0xE2, 0x84, 0xAA] = [0x6B] := by decide +kernel
-- ẞ U+1E9E (E1 BA 9E) -> ß U+00DF (C3 9F)
example : goToLower [0xE1, 0xBA, 0x9E] = [0xC3, 0x9F] := by decide +kernel
-- Σ U+03A3 (CE A3) -> σ U+03C3 (CF 83), also at the end of a word: "ΑΣ" -> "ασ", never ς (CF 82)
example : goToLower [0xCE, 0xA3] = [0xCF, 0x83] := by decide +kernel
example : goToLower [0xCE, 0x91, 0xCE, 0xA3] = [0xCE, 0xB1, 0xCF, 0x83] := by decide +kernel
-- Ⱥ U+023A (C8 BA) -> ⱥ U+2C65 (E2 B1 A5): the output is LONGER than the input
example : goToLower [0xC8, 0xBA] = [0xE2, 0xB1, 0xA5] := by decide +kernel
-- ǅ U+01C5 (title case, C7 85) -> ǆ U+01C6
example : goToLower [0xC7, 0x85] = [0xC7, 0x86] := by decide +kernel
-- 𐐀 U+10400 DESERET CAPITAL LONG I (F0 90 90 80) -> U+10428 (F0 90 90 A8)
example : goToLower [0xF0, 0x90, 0x90, 0x80] = [0xF0, 0x90, 0x90, 0xA8] := by decide +kernel
-- a lone 0xFF -> U+FFFD (EF BF BD); every byte of an invalid sequence separately
example : goToLower [0xFF] = [0xEF, 0xBF, 0xBD] := by decide +kernel
example : goToLower [0xED, 0xA0, 0x80] = [0xEF, 0xBF, 0xBD, 0xEF, 0xBF, 0xBD, 0xEF, 0xBF, 0xBD] := by decide +kernel
-- … also when the rest is ASCII: "A\xffB" -> "a�b"
example : goToLower [0x41, 0xFF, 0x42] = [0x61, 0xEF, 0xBF, 0xBD, 0x62] := by decide +kernel
-- a truncated É keeps nothing of É: "\xc3" -> U+FFFD
example : goToLower [0xC3] = [0xEF, 0xBF, 0xBD] := by decide +kernel
-- "ISO-8859-1" -> "iso-8859-1" (fast path), as before
example : goToLower (ofString "ISO-8859-1") = ofString "iso-8859-1" := by decide +kernel
example : goToLower (ofString "ISO-8859-1") = Charset.lowerASCII (ofString "ISO-8859-1") := by decide +kernel
example : goToLower [] = [] := by decide +kernel

-- <?xml version="1.0" encoding="É"?><r/> : the label is reported as é; the ASCII model kept É
example : fromXMLBytesFull (ofString "<?xml version=\"1.0\" encoding=\"" ++ [0xC3, 0x89] ++ ofString "\"?><r/>") = [0xC3, 0xA9] := by
  decide +kernel
example : XmlTok.fromXMLBytes (ofString "<?xml version=\"1.0\" encoding=\"" ++ [0xC3, 0x89] ++ ofString "\"?><r/>") = [0xC3, 0x89] := by
  decide +kernel
-- encoding="\xff": three bytes EF BF BD are reported for a one-byte label
example : fromXMLBytesFull (ofString "<?xml version=\"1.0\" encoding=\"" ++ [0xFF] ++ ofString "\"?><r/>") = [0xEF, 0xBF, 0xBD] := by
  decide +kernel
-- encoding="Shift_JIS" as before
example : fromXMLBytesFull (ofString "<?xml version=\"1.0\" encoding=\"Shift_JIS\"?><a/>") = ofString "shift_jis" := by
  decide +kernel

end Mime.Lower
