import MimeModel.Model.Csv
import MimeModel.Lemmas.C13Base
/-
  Theorems about the model of `encoding/csv` as used by the CSV/TSV detectors
  (`MimeModel/Model/Csv.lean`).

  * `records_quoteFree`      — on input without `"` the reader is a plain line/comma counter
  * `sv_iff`                 — what the `for { r.Read() }` loop and the final test compute
  * `sv_converse_quoteFree`  — a `"`-free input is reported only if it is a table
  * `sv_forward`, `sv_forward_crlf` — tables of plain cells are reported, whole or cut
  * `records_rfc4180`, `sv_forward_rfc4180` — the same for RFC 4180 tables with quoted cells
-/
namespace Mime.CsvLemmas
open Mime Mime.Cust Mime.Csv Mime.C13Base

/-! ### specification side (independent of the model) -/

/-- a cell without delimiter, quote, LF, CR -/
def PlainCell (comma : Nat) (c : Bytes) : Prop := ∀ x ∈ c, x ≠ comma ∧ x ≠ 0x22 ∧ x ≠ 0x0A ∧ x ≠ 0x0D

/-- the cells joined by the delimiter -/
def row (comma : Nat) : List Bytes → Bytes
  | [] => []
  | [c] => c
  | c :: c2 :: cs => c ++ comma :: row comma (c2 :: cs)

/-- a row of a table: at least one cell, all cells plain, the text of the row is not empty and
    does not start with `#` -/
def PlainRow (comma : Nat) (cells : List Bytes) : Prop :=
  cells ≠ [] ∧ (∀ c ∈ cells, PlainCell comma c) ∧ row comma cells ≠ [] ∧ (row comma cells).head? ≠ some 0x23

/-- rows separated by LF (`C13Base.joinLF`: no LF after the last one) -/
def table (comma : Nat) (rows : List (List Bytes)) : Bytes := joinLF (rows.map (row comma))

/-- rows separated by CR LF; the last row ends with CR -/
def tableCRLF (comma : Nat) (rows : List (List Bytes)) : Bytes :=
  joinLF (rows.map (fun r => row comma r ++ [0x0D]))

/-- split at every LF (the LF removed); `n` LFs give `n + 1` pieces -/
def splitLF : Bytes → List Bytes
  | [] => [[]]
  | c :: cs =>
    if c == 0x0A then [] :: splitLF cs
    else match splitLF cs with
      | [] => [[c]]
      | l :: ls => (c :: l) :: ls

/-- a line that yields a record: not empty, not a `#` comment -/
def isRecordLine : Bytes → Bool
  | [] => false
  | c :: _ => c != 0x23

/-- (number of delimiters + 1) for every record line -/
def countsOf (comma : Nat) (ls : List Bytes) : List Nat :=
  (ls.filter isRecordLine).map (fun l => l.count comma + 1)

/-- the reference for `"`-free input: the lines (split at LF, one trailing CR removed from each,
    the last piece included — Go's `readLine`), those that are neither empty nor comments, and
    for each the number of delimiter bytes + 1 -/
def specCounts (comma : Nat) (b : Bytes) : List Nat := countsOf comma ((splitLF b).map dropCR)

/-! ### `splitLF`, `dropCR`, `norm` -/

theorem splitLF_ne (b : Bytes) : ∃ l ls, splitLF b = l :: ls := by
  induction b with
  | nil => exact ⟨[], [], rfl⟩
  | cons c cs ih =>
    obtain ⟨l, ls, h⟩ := ih
    by_cases hc : (c == 0x0A) = true
    · exact ⟨[], splitLF cs, by simp [splitLF, hc]⟩
    · exact ⟨c :: l, ls, by simp [splitLF, hc, h]⟩

theorem splitLF_lf (cs : Bytes) : splitLF (0x0A :: cs) = [] :: splitLF cs := by
  simp [splitLF]

theorem splitLF_cons (c : Nat) (cs l : Bytes) (lss : List Bytes) (hc : (c == 0x0A) = false)
    (h : splitLF cs = l :: lss) : splitLF (c :: cs) = (c :: l) :: lss := by
  simp [splitLF, hc, h]

theorem dropCR_nil : dropCR [] = [] := rfl

theorem dropCR_single (c : Nat) : dropCR [c] = if c == 0x0D then [] else [c] := by
  by_cases h : c = 0x0D <;> simp [dropCR, h]

theorem dropCR_cons_cons (c d : Nat) (l : Bytes) : dropCR (c :: d :: l) = c :: dropCR (d :: l) := by
  unfold dropCR
  rw [List.getLast?_cons_cons]
  split <;> simp

theorem dropCR_cons_ne (c : Nat) (l : Bytes) (hc : (c == 0x0D) = false) : dropCR (c :: l) = c :: dropCR l := by
  cases l with
  | nil => simp [dropCR_single, hc, dropCR_nil]
  | cons d l => exact dropCR_cons_cons c d l

theorem dropCR_noCR (l : Bytes) (h : 0x0D ∉ l) : dropCR l = l := by
  unfold dropCR
  split
  · rename_i hl
    exact absurd (List.mem_of_getLast? (by simpa using hl)) h
  · rfl

theorem dropCR_concat (l : Bytes) : dropCR (l ++ [0x0D]) = l := by
  simp [dropCR]

theorem norm_mem : ∀ (b : Bytes) (x : Nat), x ∈ norm b → x ∈ b := by
  intro b
  induction b with
  | nil => intro x h; simp [norm] at h
  | cons c cs ih =>
    intro x h
    unfold norm at h
    split at h
    · split at h
      · simp at h
      · split at h
        · exact List.mem_cons_of_mem _ (ih x h)
        · rcases List.mem_cons.mp h with rfl | h
          · exact List.mem_cons_self ..
          · exact List.mem_cons_of_mem _ (ih x h)
    · rcases List.mem_cons.mp h with rfl | h
      · exact List.mem_cons_self ..
      · exact List.mem_cons_of_mem _ (ih x h)

/-- the lines of the normalised stream are the lines of the input with one trailing CR removed -/
theorem splitLF_norm (b : Bytes) : splitLF (norm b) = (splitLF b).map dropCR := by
  induction b with
  | nil => rfl
  | cons c cs ih =>
    obtain ⟨l, ls, hs⟩ := splitLF_ne cs
    rw [hs] at ih
    by_cases hcr : (c == 0x0D) = true
    · have hc : c = 0x0D := by simpa using hcr
      subst hc
      cases cs with
      | nil => simp [norm, splitLF, dropCR_single]
      | cons d ds =>
        by_cases hd : (d == 0x0A) = true
        · have : d = 0x0A := by simpa using hd
          subst this
          rw [splitLF_lf] at hs
          have hl : l = [] := by simpa using (List.cons.inj hs).1.symm
          subst hl
          have hnorm : norm (0x0D :: 0x0A :: ds) = norm (0x0A :: ds) := by simp [norm]
          rw [hnorm, ih, splitLF_cons 0x0D _ [] ls (by decide) (by rw [splitLF_lf]; exact hs)]
          simp [dropCR_single, dropCR_nil]
        · have hd' : (d == 0x0A) = false := by simpa using hd
          have hnorm : norm (0x0D :: d :: ds) = 0x0D :: norm (d :: ds) := by simp [norm, hd']
          -- the first line of `d :: ds` starts with `d`
          obtain ⟨l2, ls2, hs2⟩ := splitLF_ne ds
          have hs' := splitLF_cons d ds l2 ls2 hd' hs2
          rw [hs] at hs'
          obtain ⟨rfl, rfl⟩ := List.cons.inj hs'
          rw [hnorm, splitLF_cons 0x0D _ _ _ (by decide) ih, splitLF_cons 0x0D _ _ _ (by decide) hs]
          simp [dropCR_cons_cons]
    · have hcr' : (c == 0x0D) = false := by simpa using hcr
      have hnorm : norm (c :: cs) = c :: norm cs := by simp [norm, hcr']
      rw [hnorm]
      by_cases hlf : (c == 0x0A) = true
      · have : c = 0x0A := by simpa using hlf
        subst this
        rw [splitLF_lf, splitLF_lf, ih, hs]
        simp [dropCR_nil]
      · have hlf' : (c == 0x0A) = false := by simpa using hlf
        rw [splitLF_cons c _ _ _ hlf' ih, splitLF_cons c _ _ _ hlf' hs]
        simp [dropCR_cons_ne c l hcr']

/-! ### the reader on `"`-free input -/

theorem countsOf_nil_cons (comma : Nat) (ls : List Bytes) : countsOf comma ([] :: ls) = countsOf comma ls := by
  simp [countsOf, isRecordLine]

theorem countsOf_cons_rec (comma : Nat) (l : Bytes) (ls : List Bytes) (h : isRecordLine l = true) :
    countsOf comma (l :: ls) = (l.count comma + 1) :: countsOf comma ls := by
  simp [countsOf, h]

theorem countsOf_cons_skip (comma : Nat) (l : Bytes) (ls : List Bytes) (h : isRecordLine l = false) :
    countsOf comma (l :: ls) = countsOf comma ls := by
  simp [countsOf, h]

/-- on a stream without `"` the machine counts delimiters per line -/
theorem run_quoteFree (comma : Nat) (hl : comma ≠ 0x0A) : ∀ (s : Bytes), 0x22 ∉ s → ∀ l ls, splitLF s = l :: ls →
    run comma .lineStart s = countsOf comma (l :: ls) ∧
    run comma .comment s = countsOf comma ls ∧
    (∀ k, run comma (.fieldStart k) s = (k + l.count comma + 1) :: countsOf comma ls) ∧
    (∀ k, run comma (.unq k) s = (k + l.count comma + 1) :: countsOf comma ls) := by
  intro s
  induction s with
  | nil =>
    intro _ l ls h
    simp only [splitLF, List.cons.injEq] at h
    obtain ⟨rfl, rfl⟩ := h
    simp [run, atEnd, countsOf, isRecordLine]
  | cons c cs ih =>
    intro hq l ls h
    have hcq : (c == 0x22) = false := by
      have : c ≠ 0x22 := fun e => hq (by rw [e]; exact List.mem_cons_self ..)
      simpa using this
    have hq' : 0x22 ∉ cs := fun e => hq (List.mem_cons_of_mem _ e)
    obtain ⟨l', ls', h'⟩ := splitLF_ne cs
    obtain ⟨i1, i2, i3, i4⟩ := ih hq' l' ls' h'
    by_cases hlf : (c == 0x0A) = true
    · have hc : c = 0x0A := by simpa using hlf
      subst hc
      rw [splitLF_lf, h'] at h
      obtain ⟨rfl, rfl⟩ := List.cons.inj h
      have hcomma : ((0x0A : Nat) == comma) = false := by
        simpa using fun e : 0x0A = comma => hl e.symm
      refine ⟨?_, ?_, ?_, ?_⟩
      · simp only [run, step]
        rw [countsOf_nil_cons]; exact i1
      · simp only [run, step]; exact i1
      · intro k
        simp only [run, step, stepField, stepUnq, hcomma]
        simp [i1]
      · intro k
        simp only [run, step, stepUnq, hcomma]
        simp [i1]
    · have hlf' : (c == 0x0A) = false := by simpa using hlf
      rw [splitLF_cons c cs l' ls' hlf' h'] at h
      obtain ⟨rfl, rfl⟩ := List.cons.inj h
      have hunq : ∀ k, run comma (.unq k) (c :: cs) = (k + (c :: l').count comma + 1) :: countsOf comma ls' := by
        intro k
        by_cases hcm : (c == comma) = true
        · simp only [run, step, stepUnq, hcm, ↓reduceIte]
          rw [i3, List.count_cons, hcm]
          simp only [↓reduceIte, List.cons.injEq, and_true]; omega
        · have hcm' : (c == comma) = false := by simpa using hcm
          simp only [run, step, stepUnq, hcm', hlf', Bool.false_eq_true, ↓reduceIte]
          rw [i4, List.count_cons, hcm']
          simp
      have hfs : ∀ k, run comma (.fieldStart k) (c :: cs) = (k + (c :: l').count comma + 1) :: countsOf comma ls' := by
        intro k
        have := hunq k
        simp only [run, step, stepUnq] at this
        simp only [run, step, stepField, stepUnq, hcq, Bool.false_eq_true, ↓reduceIte]
        exact this
      refine ⟨?_, ?_, hfs, hunq⟩
      · by_cases hh : (c == 0x23) = true
        · simp only [run, step, hh, ↓reduceIte]
          rw [i2, countsOf_cons_skip]
          have : c = 0x23 := by simpa using hh
          simp [isRecordLine, this]
        · have hh' : (c == 0x23) = false := by simpa using hh
          have := hfs 0
          simp only [run, step] at this
          simp only [run, step, hh', hlf', Bool.false_eq_true, ↓reduceIte]
          have hne : c ≠ 0x23 := by simpa using hh
          rw [this, countsOf_cons_rec _ _ _ (by simp [isRecordLine, hne])]
          simp
      · simp only [run, step, hlf', Bool.false_eq_true, ↓reduceIte]
        exact i2

/-- **`"`-free input**: the records `csv.Reader` returns are exactly the non-empty, non-comment
    lines, and each has (number of delimiter bytes + 1) fields -/
theorem records_quoteFree (comma : Nat) (b : Bytes) (hl : comma ≠ 0x0A) (hq : 0x22 ∉ b) :
    records comma b = specCounts comma b := by
  obtain ⟨l, ls, h⟩ := splitLF_ne (norm b)
  have := (run_quoteFree comma hl (norm b) (fun e => hq (norm_mem b _ e)) l ls h).1
  unfold records specCounts
  rw [this, ← h, splitLF_norm]

/-! ### the loop of `sv` -/

theorem step_emit_pos (comma : Nat) (m : Mode) (c k : Nat) (h : step comma m c = .emit k) : 0 < k := by
  cases m <;> simp only [step, stepField, stepUnq] at h <;> (repeat' split at h) <;> cases h <;> omega

/-- every record has at least one field -/
theorem run_pos (comma : Nat) : ∀ (s : Bytes) (m : Mode), ∀ k ∈ run comma m s, 0 < k := by
  intro s
  induction s with
  | nil => intro m k hk; cases m <;> simp [run, atEnd] at hk <;> omega
  | cons c cs ih =>
    intro m k hk
    rw [run] at hk
    split at hk
    · exact ih _ k hk
    · rename_i j hj
      rcases List.mem_cons.mp hk with rfl | hk
      · exact step_emit_pos comma m c _ hj
      · exact ih _ k hk

theorem records_pos (comma : Nat) (b : Bytes) : ∀ k ∈ records comma b, 0 < k := run_pos comma _ _

/-- the loop refuses nothing exactly when all counts agree with the first one -/
theorem loop_some : ∀ (ks : List Nat) (fpr n fpr' n' : Nat), (∀ c ∈ ks, 0 < c) → loop fpr n ks = some (fpr', n') →
    n' = n + ks.length ∧ (0 < fpr → fpr' = fpr ∧ ∀ c ∈ ks, c = fpr) ∧ (fpr = 0 → ∀ c ∈ ks, c = fpr') := by
  intro ks
  induction ks with
  | nil =>
    intro fpr n fpr' n' _ h
    simp only [loop, Option.some.injEq, Prod.mk.injEq] at h
    obtain ⟨rfl, rfl⟩ := h
    simp
  | cons k ks ih =>
    intro fpr n fpr' n' hpos h
    have hk : 0 < k := hpos k (List.mem_cons_self ..)
    have hpos' : ∀ c ∈ ks, 0 < c := fun c hc => hpos c (List.mem_cons_of_mem _ hc)
    rw [loop] at h
    split at h
    · rename_i h0
      have h0 : fpr = 0 := by simpa using h0
      obtain ⟨e1, e2, _⟩ := ih k (n + 1) fpr' n' hpos' h
      obtain ⟨e3, e4⟩ := e2 hk
      refine ⟨by simp only [List.length_cons]; omega, fun hp => by omega, fun _ c hc => ?_⟩
      rcases List.mem_cons.mp hc with rfl | hc
      · exact e3.symm
      · rw [e3]; exact e4 c hc
    · rename_i h0
      have h0 : fpr ≠ 0 := by simpa using h0
      split at h
      · rename_i hkf
        have hkf : k = fpr := by simpa using hkf
        obtain ⟨e1, e2, _⟩ := ih fpr (n + 1) fpr' n' hpos' h
        obtain ⟨e3, e4⟩ := e2 (by omega)
        refine ⟨by simp only [List.length_cons]; omega, fun _ => ⟨e3, fun c hc => ?_⟩, fun hz => absurd hz h0⟩
        rcases List.mem_cons.mp hc with rfl | hc
        · exact hkf
        · exact e4 c hc
      · cases h

theorem loop_const : ∀ (ks : List Nat) (fpr n : Nat), 0 < fpr → (∀ c ∈ ks, c = fpr) →
    loop fpr n ks = some (fpr, n + ks.length) := by
  intro ks
  induction ks with
  | nil => intro fpr n _ _; simp [loop]
  | cons k ks ih =>
    intro fpr n hp hall
    have hk : k = fpr := hall k (List.mem_cons_self ..)
    subst hk
    have h0 : (k == 0) = false := by simpa using (show k ≠ 0 by omega)
    rw [loop]
    simp only [h0, Bool.false_eq_true, ↓reduceIte, beq_self_eq_true]
    rw [ih k (n + 1) hp (fun c hc => hall c (List.mem_cons_of_mem _ hc))]
    simp only [List.length_cons, Option.some.injEq, Prod.mk.injEq, true_and]; omega

/-- **what `sv` computes**: the delimiter is valid, `Read` returns at least two records, all with
    the same number (at least two) of fields -/
theorem svOn_iff (comma : Nat) (b : Bytes) :
    svOn comma b = true ↔
      validComma comma = true ∧ ∃ k, 2 ≤ k ∧ 2 ≤ (records comma b).length ∧ ∀ c ∈ records comma b, c = k := by
  unfold svOn
  constructor
  · intro h
    split at h
    · rename_i hv
      refine ⟨hv, ?_⟩
      split at h
      · cases h
      · rename_i fpr n hloop
        simp only [Bool.and_eq_true, decide_eq_true_eq] at h
        obtain ⟨e1, _, e3⟩ := loop_some _ _ _ _ _ (records_pos comma b) hloop
        exact ⟨fpr, by omega, by omega, e3 rfl⟩
    · cases h
  · rintro ⟨hv, k, hk, hlen, hall⟩
    rw [if_pos hv]
    match hr : records comma b, hlen, hall with
    | k0 :: rest, hlen, hall =>
      have hk0 : k0 = k := hall k0 (List.mem_cons_self ..)
      subst hk0
      have : loop 0 0 (k0 :: rest) = some (k0, 0 + 1 + rest.length) := by
        rw [loop]
        simp only [beq_self_eq_true, ↓reduceIte]
        exact loop_const rest k0 (0 + 1) (by omega) (fun c hc => hall c (List.mem_cons_of_mem _ hc))
      simp only [this, Bool.and_eq_true, decide_eq_true_eq]
      simp only [List.length_cons] at hlen
      omega

theorem sv_iff (raw : Bytes) (lim comma : Nat) :
    sv raw lim comma = true ↔
      validComma comma = true ∧ ∃ k, 2 ≤ k ∧ 2 ≤ (records comma (dropLastLine raw lim)).length ∧
        ∀ c ∈ records comma (dropLastLine raw lim), c = k :=
  svOn_iff comma _

theorem validComma_ne (comma : Nat) (h : validComma comma = true) :
    comma ≠ 0x22 ∧ comma ≠ 0x0D ∧ comma ≠ 0x0A ∧ comma ≠ 0x23 := by
  simp only [validComma, Bool.and_eq_true, bne_iff_ne, ne_eq, decide_eq_true_eq] at h
  exact ⟨h.1.1.1.1.2, h.1.1.1.2, h.1.1.2, h.1.2⟩

/-- **converse, `"`-free input**: CSV/TSV is reported only if the examined bytes (the cut-off
    last line dropped in truncated mode) have at least two record lines, all with the same number
    `k - 1 ≥ 1` of delimiters -/
theorem sv_converse_quoteFree (raw : Bytes) (lim comma : Nat) (hq : 0x22 ∉ raw) (h : sv raw lim comma = true) :
    let cs := specCounts comma (dropLastLine raw lim)
    2 ≤ cs.length ∧ ∃ k, 2 ≤ k ∧ ∀ c ∈ cs, c = k := by
  obtain ⟨hv, k, hk, hlen, hall⟩ := (sv_iff raw lim comma).mp h
  have hq' : 0x22 ∉ dropLastLine raw lim := fun e => hq ((dropLastLine_prefix raw lim).subset e)
  rw [records_quoteFree comma _ (validComma_ne comma hv).2.2.1 hq'] at hlen hall
  exact ⟨hlen, k, hk, hall⟩

/-! ### tables are reported -/

theorem splitLF_noLF (l : Bytes) (h : NoLF l) : splitLF l = [l] := by
  induction l with
  | nil => rfl
  | cons c cs ih =>
    have hc : (c == 0x0A) = false := by simpa using h c (List.mem_cons_self ..)
    exact splitLF_cons c cs cs [] hc (ih (fun x hx => h x (List.mem_cons_of_mem _ hx)))

theorem splitLF_line (l r : Bytes) (h : NoLF l) : splitLF (l ++ 0x0A :: r) = l :: splitLF r := by
  induction l with
  | nil => simp [splitLF]
  | cons c cs ih =>
    have hc : (c == 0x0A) = false := by simpa using h c (List.mem_cons_self ..)
    exact splitLF_cons c _ cs _ hc (ih (fun x hx => h x (List.mem_cons_of_mem _ hx)))

theorem splitLF_join (tail : Bytes) (T : List Bytes) (hT : ∀ l, NoLF l → splitLF (l ++ tail) = l :: T) :
    ∀ (ls : List Bytes), ls ≠ [] → (∀ l ∈ ls, NoLF l) → splitLF (joinLF ls ++ tail) = ls ++ T := by
  intro ls
  induction ls with
  | nil => intro h; exact absurd rfl h
  | cons l rest ih =>
    intro _ hall
    cases rest with
    | nil => simpa [joinLF] using hT l (hall l (List.mem_cons_self ..))
    | cons l2 rest2 =>
      have := ih (by simp) (fun x hx => hall x (List.mem_cons_of_mem _ hx))
      simp only [joinLF, List.append_assoc, List.cons_append]
      rw [splitLF_line l _ (hall l (List.mem_cons_self ..)), this]
      rfl

theorem countsOf_append_nil (comma : Nat) (ls : List Bytes) : countsOf comma (ls ++ [[]]) = countsOf comma ls := by
  simp [countsOf, isRecordLine]

/-- the reference counts of LF-separated lines, with or without a final LF -/
theorem specCounts_join (comma : Nat) (ls : List Bytes) (hne : ls ≠ []) (hall : ∀ l ∈ ls, NoLF l)
    (tail : Bytes) (ht : tail = [] ∨ tail = [0x0A]) :
    specCounts comma (joinLF ls ++ tail) = countsOf comma (ls.map dropCR) := by
  unfold specCounts
  rcases ht with rfl | rfl
  · rw [splitLF_join [] [] (fun l hl => by simpa using splitLF_noLF l hl) ls hne hall]
    simp
  · rw [splitLF_join [0x0A] [[]] (fun l hl => by rw [splitLF_line l [] hl]; rfl) ls hne hall]
    simp only [List.map_append, List.map_cons, List.map_nil, dropCR_nil]
    exact countsOf_append_nil comma _

theorem joinLF_mem : ∀ (ls : List Bytes) (x : Nat), x ∈ joinLF ls → x = 0x0A ∨ ∃ l ∈ ls, x ∈ l := by
  intro ls
  induction ls with
  | nil => intro x h; simp [joinLF] at h
  | cons l rest ih =>
    intro x h
    cases rest with
    | nil => exact Or.inr ⟨l, List.mem_cons_self .., by simpa [joinLF] using h⟩
    | cons l2 rest2 =>
      simp only [joinLF, List.mem_append, List.mem_cons] at h
      rcases h with h | h | h
      · exact Or.inr ⟨l, List.mem_cons_self .., h⟩
      · exact Or.inl h
      · rcases ih x h with e | ⟨l', hl', hx⟩
        · exact Or.inl e
        · exact Or.inr ⟨l', List.mem_cons_of_mem _ hl', hx⟩

theorem joinLF_ne_nil (l l2 : Bytes) (rest : List Bytes) : joinLF (l :: l2 :: rest) ≠ [] := by
  simp [joinLF]

/-- the general form: at least two `"`-free lines, every one (its CRLF's CR removed) a record
    line with `k - 1 ≥ 1` delimiters -/
theorem sv_lines (comma : Nat) (hv : validComma comma = true) (ls : List Bytes) (k : Nat)
    (h2 : 2 ≤ ls.length) (hk : 2 ≤ k)
    (hall : ∀ l ∈ ls, NoLF l ∧ 0x22 ∉ l ∧ isRecordLine (dropCR l) = true ∧ (dropCR l).count comma + 1 = k) :
    (∀ tail lim, (tail = [] ∨ tail = [0x0A]) → (lim = 0 ∨ (joinLF ls ++ tail).length < lim) →
      sv (joinLF ls ++ tail) lim comma = true) ∧
    (∀ part lim, NoLF part → lim ≠ 0 → lim ≤ (joinLF ls ++ 0x0A :: part).length →
      sv (joinLF ls ++ 0x0A :: part) lim comma = true) := by
  have hne : ls ≠ [] := by intro e; subst e; simp at h2
  have hcounts : countsOf comma (ls.map dropCR) = ls.map (fun _ => k) := by
    unfold countsOf
    rw [List.filter_eq_self.mpr (by
      intro l hl
      obtain ⟨l0, hl0, rfl⟩ := List.mem_map.mp hl
      exact (hall l0 hl0).2.2.1)]
    rw [List.map_map]
    apply List.map_congr_left
    intro l hl
    exact (hall l hl).2.2.2
  have hrun : ∀ tail, (tail = [] ∨ tail = [0x0A]) → svOn comma (joinLF ls ++ tail) = true := by
    intro tail ht
    have hq : 0x22 ∉ joinLF ls ++ tail := by
      intro e
      rcases List.mem_append.mp e with e | e
      · rcases joinLF_mem ls _ e with e | ⟨l, hl, hx⟩
        · cases e
        · exact (hall l hl).2.1 hx
      · rcases ht with rfl | rfl <;> simp at e
    rw [svOn_iff]
    refine ⟨hv, k, hk, ?_⟩
    rw [records_quoteFree comma _ (validComma_ne comma hv).2.2.1 hq,
      specCounts_join comma ls hne (fun l hl => (hall l hl).1) tail ht, hcounts]
    refine ⟨by simpa using h2, ?_⟩
    intro c hc
    obtain ⟨_, _, rfl⟩ := List.mem_map.mp hc
    rfl
  constructor
  · intro tail lim ht hw
    unfold sv
    rw [dropLastLine_whole _ _ hw]
    exact hrun tail ht
  · intro part lim hp hl hlen
    have hjne : joinLF ls ≠ [] := by
      match ls, h2 with
      | l :: l2 :: rest, _ => exact joinLF_ne_nil l l2 rest
    unfold sv
    rw [dropLastLine_cut (joinLF ls) part lim hjne hp hl hlen]
    simpa using hrun [] (Or.inl rfl)

theorem row_mem (comma : Nat) : ∀ (cells : List Bytes) (x : Nat), x ∈ row comma cells → x = comma ∨ ∃ c ∈ cells, x ∈ c := by
  intro cells
  induction cells with
  | nil => intro x h; simp [row] at h
  | cons c rest ih =>
    intro x h
    cases rest with
    | nil => exact Or.inr ⟨c, List.mem_cons_self .., by simpa [row] using h⟩
    | cons c2 rest2 =>
      simp only [row, List.mem_append, List.mem_cons] at h
      rcases h with h | h | h
      · exact Or.inr ⟨c, List.mem_cons_self .., h⟩
      · exact Or.inl h
      · rcases ih x h with e | ⟨c', hc', hx⟩
        · exact Or.inl e
        · exact Or.inr ⟨c', List.mem_cons_of_mem _ hc', hx⟩

/-- a row of `n ≥ 1` plain cells holds `n - 1` delimiters -/
theorem row_count (comma : Nat) : ∀ (cells : List Bytes), cells ≠ [] → (∀ c ∈ cells, PlainCell comma c) →
    (row comma cells).count comma + 1 = cells.length := by
  intro cells
  induction cells with
  | nil => intro h; exact absurd rfl h
  | cons c rest ih =>
    intro _ hall
    have hc0 : c.count comma = 0 :=
      List.count_eq_zero.mpr (fun hm => (hall c (List.mem_cons_self ..) comma hm).1 rfl)
    cases rest with
    | nil => simp [row, hc0]
    | cons c2 rest2 =>
      have := ih (by simp) (fun x hx => hall x (List.mem_cons_of_mem _ hx))
      simp only [row, List.count_append, List.count_cons_self, hc0, List.length_cons] at this ⊢
      omega

/-- what a plain row provides to `sv_lines` -/
theorem plainRow_line (comma : Nat) (hv : validComma comma = true) (r : List Bytes) (h : PlainRow comma r) :
    NoLF (row comma r) ∧ 0x22 ∉ row comma r ∧ 0x0D ∉ row comma r ∧ isRecordLine (row comma r) = true ∧
      (row comma r).count comma + 1 = r.length := by
  obtain ⟨hne, hcells, htext, hhash⟩ := h
  obtain ⟨c1, c2, c3, _⟩ := validComma_ne comma hv
  have hmem : ∀ x ∈ row comma r, x ≠ 0x22 ∧ x ≠ 0x0A ∧ x ≠ 0x0D := by
    intro x hx
    rcases row_mem comma r x hx with rfl | ⟨c, hc, hxc⟩
    · exact ⟨c1, c3, c2⟩
    · exact (hcells c hc x hxc).2
  refine ⟨fun x hx => (hmem x hx).2.1, fun e => (hmem _ e).1 rfl, fun e => (hmem _ e).2.2 rfl, ?_, row_count comma r hne hcells⟩
  cases hr : row comma r with
  | nil => exact absurd hr htext
  | cons x xs =>
    rw [hr] at hhash
    have : x ≠ 0x23 := by simpa using hhash
    simp [isRecordLine, this]

/-- **forward**: a table of at least two rows of plain cells, all rows with the same number
    `k ≥ 2` of cells, one row per LF-terminated line, is reported (`comma` = `,` for `Csv`, TAB
    for `Tsv`): when examined whole (with or without a final newline), and when the limit cuts it
    anywhere after these lines — `part` is the incomplete last line (arbitrary bytes: quotes,
    delimiters, …), which is ignored -/
theorem sv_forward (comma : Nat) (hv : validComma comma = true) (rows : List (List Bytes)) (k : Nat)
    (h2 : 2 ≤ rows.length) (hk : 2 ≤ k) (hall : ∀ r ∈ rows, PlainRow comma r ∧ r.length = k) :
    (∀ tail lim, (tail = [] ∨ tail = [0x0A]) → (lim = 0 ∨ (table comma rows ++ tail).length < lim) →
      sv (table comma rows ++ tail) lim comma = true) ∧
    (∀ part lim, NoLF part → lim ≠ 0 → lim ≤ (table comma rows ++ 0x0A :: part).length →
      sv (table comma rows ++ 0x0A :: part) lim comma = true) := by
  unfold table
  apply sv_lines comma hv (rows.map (row comma)) k (by simpa using h2) hk
  intro l hl
  obtain ⟨r, hr, rfl⟩ := List.mem_map.mp hl
  obtain ⟨hrow, hlen⟩ := hall r hr
  obtain ⟨p1, p2, p3, p4, p5⟩ := plainRow_line comma hv r hrow
  rw [dropCR_noCR _ p3]
  exact ⟨p1, p2, p4, by omega⟩

/-- **forward, CRLF**: the same with CR LF line ends (the last complete row ends with CR, with or
    without its LF) -/
theorem sv_forward_crlf (comma : Nat) (hv : validComma comma = true) (rows : List (List Bytes)) (k : Nat)
    (h2 : 2 ≤ rows.length) (hk : 2 ≤ k) (hall : ∀ r ∈ rows, PlainRow comma r ∧ r.length = k) :
    (∀ tail lim, (tail = [] ∨ tail = [0x0A]) → (lim = 0 ∨ (tableCRLF comma rows ++ tail).length < lim) →
      sv (tableCRLF comma rows ++ tail) lim comma = true) ∧
    (∀ part lim, NoLF part → lim ≠ 0 → lim ≤ (tableCRLF comma rows ++ 0x0A :: part).length →
      sv (tableCRLF comma rows ++ 0x0A :: part) lim comma = true) := by
  unfold tableCRLF
  apply sv_lines comma hv (rows.map (fun r => row comma r ++ [0x0D])) k (by simpa using h2) hk
  intro l hl
  obtain ⟨r, hr, rfl⟩ := List.mem_map.mp hl
  obtain ⟨hrow, hlen⟩ := hall r hr
  obtain ⟨p1, p2, p3, p4, p5⟩ := plainRow_line comma hv r hrow
  rw [dropCR_concat]
  refine ⟨?_, ?_, p4, by omega⟩
  · intro x hx
    rcases List.mem_append.mp hx with hx | hx
    · exact p1 x hx
    · have : x = 0x0D := by simpa using hx
      subst this; decide
  · intro e
    rcases List.mem_append.mp e with e | e
    · exact p2 e
    · simp at e

theorem validComma_csv : validComma 0x2C = true := by decide
theorem validComma_tsv : validComma 0x09 = true := by decide

/-! ### RFC 4180 tables: quoted cells with delimiters, line breaks and doubled quotes -/

/-- a cell as written in the file: bare text, or a body between quotes with every `"` doubled -/
inductive Cell where
  | plain (text : Bytes)
  | quoted (body : Bytes)

/-- RFC 4180 escaping: `"` → `""` -/
def esc : Bytes → Bytes
  | [] => []
  | c :: cs => if c == 0x22 then 0x22 :: 0x22 :: esc cs else c :: esc cs

def Cell.text : Cell → Bytes
  | .plain t => t
  | .quoted b => 0x22 :: (esc b ++ [0x22])

/-- plain text as in `PlainCell`; a quoted body may hold anything (delimiters, LF, `"`, `#`) but CR -/
def Cell.OK (comma : Nat) : Cell → Prop
  | .plain t => PlainCell comma t
  | .quoted b => 0x0D ∉ b

def qrow (comma : Nat) (cells : List Cell) : Bytes := row comma (cells.map Cell.text)

def QRow (comma : Nat) (cells : List Cell) : Prop :=
  cells ≠ [] ∧ (∀ c ∈ cells, c.OK comma) ∧ qrow comma cells ≠ [] ∧ (qrow comma cells).head? ≠ some 0x23

def qtable (comma : Nat) (rows : List (List Cell)) : Bytes := joinLF (rows.map (qrow comma))

theorem norm_noCR : ∀ (b : Bytes), 0x0D ∉ b → norm b = b := by
  intro b
  induction b with
  | nil => intro _; rfl
  | cons c cs ih =>
    intro h
    have hc : (c == 0x0D) = false := by
      have : c ≠ 0x0D := fun e => h (by rw [e]; exact List.mem_cons_self ..)
      simpa using this
    simp only [norm, hc, Bool.false_eq_true, ↓reduceIte, List.cons.injEq, true_and]
    exact ih (fun e => h (List.mem_cons_of_mem _ e))

theorem esc_mem : ∀ (b : Bytes) (x : Nat), x ∈ esc b → x = 0x22 ∨ x ∈ b := by
  intro b
  induction b with
  | nil => intro x h; simp [esc] at h
  | cons c cs ih =>
    intro x h
    unfold esc at h
    split at h
    · simp only [List.mem_cons] at h
      rcases h with h | h | h
      · exact Or.inl h
      · exact Or.inl h
      · rcases ih x h with e | e
        · exact Or.inl e
        · exact Or.inr (List.mem_cons_of_mem _ e)
    · rcases List.mem_cons.mp h with rfl | h
      · exact Or.inr (List.mem_cons_self ..)
      · rcases ih x h with e | e
        · exact Or.inl e
        · exact Or.inr (List.mem_cons_of_mem _ e)

/-- what may follow a cell: end of input, a delimiter, an LF -/
def CellEnd (comma : Nat) (X : Bytes) : Prop := X = [] ∨ ∃ c r, X = c :: r ∧ (c = comma ∨ c = 0x0A)

theorem cellEnd_notQuote (comma : Nat) (hv : validComma comma = true) (c : Nat) (h : c = comma ∨ c = 0x0A) :
    (c == 0x22) = false := by
  obtain ⟨c1, _, _, _⟩ := validComma_ne comma hv
  rcases h with rfl | rfl
  · simpa using c1
  · decide

theorem run_fieldStart_end (comma : Nat) (hv : validComma comma = true) (k : Nat) (X : Bytes) (hX : CellEnd comma X) :
    run comma (.fieldStart k) X = run comma (.unq k) X := by
  rcases hX with rfl | ⟨c, r, rfl, hc⟩
  · rfl
  · simp [run, step, stepField, cellEnd_notQuote comma hv c hc]

theorem run_afterQ_end (comma : Nat) (hv : validComma comma = true) (k : Nat) (X : Bytes) (hX : CellEnd comma X) :
    run comma (.afterQ k) X = run comma (.unq k) X := by
  rcases hX with rfl | ⟨c, r, rfl, hc⟩
  · rfl
  · have hq := cellEnd_notQuote comma hv c hc
    by_cases hcm : (c == comma) = true
    · simp [run, step, stepUnq, hq, hcm]
    · have hcm' : (c == comma) = false := by simpa using hcm
      have hlf : c = 0x0A := by
        rcases hc with rfl | rfl
        · simp at hcm
        · rfl
      subst hlf
      simp [run, step, stepUnq, hcm']

/-- a plain cell is skipped by the non-quoted scan -/
theorem run_unq_plain (comma : Nat) (k : Nat) (X : Bytes) : ∀ (t : Bytes), PlainCell comma t →
    run comma (.unq k) (t ++ X) = run comma (.unq k) X := by
  intro t
  induction t with
  | nil => intro _; rfl
  | cons c cs ih =>
    intro h
    obtain ⟨h1, _, h3, _⟩ := h c (List.mem_cons_self ..)
    have e1 : (c == comma) = false := by simpa using h1
    have e3 : (c == 0x0A) = false := by simpa using h3
    simp only [List.cons_append, run, step, stepUnq, e1, e3, Bool.false_eq_true, ↓reduceIte]
    exact ih (fun x hx => h x (List.mem_cons_of_mem _ hx))

/-- the body of a quoted cell, up to and including the closing quote -/
theorem run_quoted_esc (comma : Nat) (k : Nat) (X : Bytes) : ∀ (b : Bytes),
    run comma (.quoted k) (esc b ++ 0x22 :: X) = run comma (.afterQ k) X := by
  intro b
  induction b with
  | nil => simp [esc, run, step]
  | cons c cs ih =>
    by_cases hc : (c == 0x22) = true
    · simp only [esc, hc, ↓reduceIte, List.cons_append, run, step]
      simpa using ih
    · have hc' : (c == 0x22) = false := by simpa using hc
      simp only [esc, hc', Bool.false_eq_true, ↓reduceIte, List.cons_append, run, step]
      exact ih

/-- one cell, plain or quoted, followed by a delimiter, an LF or the end of input -/
theorem run_cell (comma : Nat) (hv : validComma comma = true) (k : Nat) (X : Bytes) (hX : CellEnd comma X)
    (c : Cell) (hc : c.OK comma) :
    run comma (.fieldStart k) (c.text ++ X) = run comma (.unq k) X := by
  cases c with
  | plain t =>
    simp only [Cell.text]
    cases t with
    | nil => exact run_fieldStart_end comma hv k X hX
    | cons x xs =>
      have hp : PlainCell comma (x :: xs) := hc
      obtain ⟨_, h2, _, _⟩ := hp x (List.mem_cons_self ..)
      have e2 : (x == 0x22) = false := by simpa using h2
      have := run_unq_plain comma k X (x :: xs) hp
      simp only [List.cons_append, run, step] at this
      simp only [List.cons_append, run, step, stepField, e2, Bool.false_eq_true, ↓reduceIte]
      exact this
  | quoted b =>
    simp only [Cell.text, List.cons_append, List.append_assoc, List.nil_append, run, step, stepField]
    simp only [beq_self_eq_true, ↓reduceIte]
    rw [run_quoted_esc, run_afterQ_end comma hv k X hX]

theorem run_unq_comma (comma k : Nat) (r : Bytes) : run comma (.unq k) (comma :: r) = run comma (.fieldStart (k + 1)) r := by
  simp [run, step, stepUnq]

theorem run_unq_lf (comma : Nat) (hv : validComma comma = true) (k : Nat) (r : Bytes) :
    run comma (.unq k) (0x0A :: r) = (k + 1) :: run comma .lineStart r := by
  obtain ⟨_, _, c3, _⟩ := validComma_ne comma hv
  have : ((0x0A : Nat) == comma) = false := by simpa using fun e : 0x0A = comma => c3 e.symm
  simp [run, step, stepUnq, this]

/-- a row of cells followed by an LF or the end of input -/
theorem run_row (comma : Nat) (hv : validComma comma = true) (X : Bytes) (hX : X = [] ∨ ∃ r, X = 0x0A :: r) :
    ∀ (cs : List Cell) (c : Cell) (k : Nat), (∀ x ∈ c :: cs, x.OK comma) →
      run comma (.fieldStart k) (qrow comma (c :: cs) ++ X) = run comma (.unq (k + cs.length)) X := by
  have hX' : CellEnd comma X := by
    rcases hX with rfl | ⟨r, rfl⟩
    · exact Or.inl rfl
    · exact Or.inr ⟨_, r, rfl, Or.inr rfl⟩
  intro cs
  induction cs with
  | nil =>
    intro c k hok
    simpa [qrow, row] using run_cell comma hv k X hX' c (hok c (List.mem_cons_self ..))
  | cons c2 cs ih =>
    intro c k hok
    have hstep := run_cell comma hv k (comma :: (qrow comma (c2 :: cs) ++ X)) (Or.inr ⟨_, _, rfl, Or.inl rfl⟩) c
      (hok c (List.mem_cons_self ..))
    have : qrow comma (c :: c2 :: cs) ++ X = c.text ++ comma :: (qrow comma (c2 :: cs) ++ X) := by
      simp [qrow, row]
    rw [this, hstep, run_unq_comma, ih c2 (k + 1) (fun x hx => hok x (List.mem_cons_of_mem _ hx))]
    simp only [List.length_cons]
    congr 2
    omega

/-- a row never starts with LF -/
theorem qrow_head (comma : Nat) (hv : validComma comma = true) (cells : List Cell) (hok : ∀ x ∈ cells, x.OK comma)
    (x : Nat) (xs : Bytes) (h : qrow comma cells = x :: xs) : x ≠ 0x0A := by
  obtain ⟨_, _, c3, _⟩ := validComma_ne comma hv
  have key : ∀ (c : Cell) (R : Bytes), c.OK comma → (R = [] ∨ ∃ r, R = comma :: r) → c.text ++ R = x :: xs → x ≠ 0x0A := by
    intro c R hc hR e
    cases c with
    | quoted b =>
      simp only [Cell.text, List.cons_append, List.cons.injEq] at e
      rw [← e.1]; decide
    | plain t =>
      cases t with
      | cons y ys =>
        simp only [Cell.text, List.cons_append, List.cons.injEq] at e
        have hp : PlainCell comma (y :: ys) := hc
        rw [← e.1]
        exact (hp y (List.mem_cons_self ..)).2.2.1
      | nil =>
        rcases hR with rfl | ⟨r, rfl⟩
        · simp [Cell.text] at e
        · simp only [Cell.text, List.nil_append, List.cons.injEq] at e
          rw [← e.1]; exact c3
  match cells, hok, h with
  | [], _, h => simp [qrow, row] at h
  | [c], hok, h =>
    exact key c [] (hok c (List.mem_cons_self ..)) (Or.inl rfl) (by simpa [qrow, row] using h)
  | c :: c2 :: cs, hok, h =>
    exact key c _ (hok c (List.mem_cons_self ..)) (Or.inr ⟨_, rfl⟩) (by simpa [qrow, row] using h)

/-- a complete row at the start of a line is one record with as many fields as cells -/
theorem run_line (comma : Nat) (hv : validComma comma = true) (cells : List Cell) (h : QRow comma cells)
    (X : Bytes) (hX : X = [] ∨ ∃ r, X = 0x0A :: r) :
    run comma .lineStart (qrow comma cells ++ X) = run comma (.unq (cells.length - 1)) X := by
  obtain ⟨hne, hok, htext, hhash⟩ := h
  match cells, hne, hok, htext, hhash with
  | c :: cs, _, hok, htext, hhash =>
    have hrow := run_row comma hv X hX cs c 0 hok
    cases hq : qrow comma (c :: cs) with
    | nil => exact absurd hq htext
    | cons x xs =>
      have h1 : (x == 0x0A) = false := by simpa using qrow_head comma hv _ hok x xs hq
      have h2 : (x == 0x23) = false := by
        rw [hq] at hhash
        simpa using hhash
      rw [hq] at hrow
      simp only [List.cons_append, run, step] at hrow
      simp only [List.cons_append, run, step, h1, h2, Bool.false_eq_true, ↓reduceIte]
      rw [hrow]
      simp

/-- **RFC 4180 tables**: the reader returns one record per row, with one field per cell — also
    when quoted cells hold delimiters, line breaks, `#` and doubled quotes -/
theorem run_qtable (comma : Nat) (hv : validComma comma = true) :
    ∀ (rows : List (List Cell)), rows ≠ [] → (∀ r ∈ rows, QRow comma r) →
    ∀ tail, (tail = [] ∨ tail = [0x0A]) →
      run comma .lineStart (qtable comma rows ++ tail) = rows.map List.length := by
  intro rows
  induction rows with
  | nil => intro h; exact absurd rfl h
  | cons r rest ih =>
    intro _ hall tail ht
    have hr := hall r (List.mem_cons_self ..)
    have hlen : 0 < r.length := List.length_pos_iff.mpr hr.1
    cases rest with
    | nil =>
      simp only [qtable, List.map_cons, List.map_nil, joinLF]
      rcases ht with rfl | rfl
      · rw [run_line comma hv r hr [] (Or.inl rfl)]
        simp only [run, atEnd, List.cons.injEq, and_true]; omega
      · rw [run_line comma hv r hr [0x0A] (Or.inr ⟨[], rfl⟩), run_unq_lf comma hv]
        simp only [run, atEnd, List.cons.injEq, and_true]; omega
    | cons r2 rest2 =>
      have := ih (by simp) (fun x hx => hall x (List.mem_cons_of_mem _ hx)) tail ht
      simp only [qtable, List.map_cons, joinLF, List.append_assoc, List.cons_append] at this ⊢
      rw [run_line comma hv r hr _ (Or.inr ⟨_, rfl⟩), run_unq_lf comma hv, this]
      simp only [List.cons.injEq, and_true]; omega

theorem qtable_noCR (comma : Nat) (hv : validComma comma = true) (rows : List (List Cell))
    (hall : ∀ r ∈ rows, QRow comma r) : 0x0D ∉ qtable comma rows := by
  obtain ⟨_, c2, _, _⟩ := validComma_ne comma hv
  intro e
  rcases joinLF_mem _ _ e with e | ⟨l, hl, hx⟩
  · cases e
  · obtain ⟨r, hr, rfl⟩ := List.mem_map.mp hl
    rcases row_mem comma _ _ hx with e | ⟨t, ht, hxt⟩
    · exact c2 e.symm
    · obtain ⟨c, hc, rfl⟩ := List.mem_map.mp ht
      have hok := (hall r hr).2.1 c hc
      cases c with
      | plain t => exact (hok _ hxt).2.2.2 rfl
      | quoted b =>
        simp only [Cell.text, List.mem_cons, List.mem_append, List.not_mem_nil, or_false] at hxt
        rcases hxt with e | e | e
        · cases e
        · rcases esc_mem b _ e with e | e
          · cases e
          · exact hok e
        · cases e

theorem records_rfc4180 (comma : Nat) (hv : validComma comma = true) (rows : List (List Cell)) (hne : rows ≠ [])
    (hall : ∀ r ∈ rows, QRow comma r) (tail : Bytes) (ht : tail = [] ∨ tail = [0x0A]) :
    records comma (qtable comma rows ++ tail) = rows.map List.length := by
  unfold records
  rw [norm_noCR, run_qtable comma hv rows hne hall tail ht]
  intro e
  rcases List.mem_append.mp e with e | e
  · exact qtable_noCR comma hv rows hall e
  · rcases ht with rfl | rfl <;> simp at e

/-- **forward, RFC 4180**: `sv_forward` for tables whose cells may be quoted.  `part`, the
    incomplete last line, must still start after an LF that ends a row: a cut inside a quoted cell
    that spans lines is NOT covered (and such input can be refused, see the examples below) -/
theorem sv_forward_rfc4180 (comma : Nat) (hv : validComma comma = true) (rows : List (List Cell)) (k : Nat)
    (h2 : 2 ≤ rows.length) (hk : 2 ≤ k) (hall : ∀ r ∈ rows, QRow comma r ∧ r.length = k) :
    (∀ tail lim, (tail = [] ∨ tail = [0x0A]) → (lim = 0 ∨ (qtable comma rows ++ tail).length < lim) →
      sv (qtable comma rows ++ tail) lim comma = true) ∧
    (∀ part lim, NoLF part → lim ≠ 0 → lim ≤ (qtable comma rows ++ 0x0A :: part).length →
      sv (qtable comma rows ++ 0x0A :: part) lim comma = true) := by
  have hne : rows ≠ [] := by intro e; subst e; simp at h2
  have hrun : ∀ tail, (tail = [] ∨ tail = [0x0A]) → svOn comma (qtable comma rows ++ tail) = true := by
    intro tail ht
    rw [svOn_iff, records_rfc4180 comma hv rows hne (fun r hr => (hall r hr).1) tail ht]
    refine ⟨hv, k, hk, by simpa using h2, ?_⟩
    intro c hc
    obtain ⟨r, hr, rfl⟩ := List.mem_map.mp hc
    exact (hall r hr).2
  constructor
  · intro tail lim ht hw
    unfold sv
    rw [dropLastLine_whole _ _ hw]
    exact hrun tail ht
  · intro part lim hp hl hlen
    have hjne : qtable comma rows ≠ [] := by
      match rows, h2 with
      | r :: r2 :: rest, _ => exact joinLF_ne_nil _ _ _
    unfold sv
    rw [dropLastLine_cut (qtable comma rows) part lim hjne hp hl hlen]
    simpa using hrun [] (Or.inl rfl)

/-! ### non-vacuity -/

/-- `a,b` LF `c,d` -/
example : csv [0x61, 0x2C, 0x62, 0x0A, 0x63, 0x2C, 0x64] 0 = true := by decide
/-- the same bytes are not TSV -/
example : tsv [0x61, 0x2C, 0x62, 0x0A, 0x63, 0x2C, 0x64] 0 = false := by decide
/-- `a,b` LF `c,d` is the `table` of the theorem -/
example : table 0x2C [[[0x61], [0x62]], [[0x63], [0x64]]] = [0x61, 0x2C, 0x62, 0x0A, 0x63, 0x2C, 0x64] := by decide
example : PlainRow 0x2C [[0x61], [0x62]] := by
  refine ⟨by decide, ?_, by decide, by decide⟩
  intro c hc x hx
  simp only [List.mem_cons, List.not_mem_nil, or_false] at hc
  rcases hc with rfl | rfl <;> simp only [List.mem_cons, List.not_mem_nil, or_false] at hx <;> subst hx <;> decide
/-- ragged: `a,b` LF `c` is refused (`ErrFieldCount`) -/
example : csv [0x61, 0x2C, 0x62, 0x0A, 0x63] 0 = false := by decide
example : records 0x2C [0x61, 0x2C, 0x62, 0x0A, 0x63] = [2, 1] := by decide
/-- a quoted cell holding a delimiter and a line break: `a,"b` LF `,c"` LF `d,e` LF is two records of two fields -/
example : records 0x2C [0x61, 0x2C, 0x22, 0x62, 0x0A, 0x2C, 0x63, 0x22, 0x0A, 0x64, 0x2C, 0x65, 0x0A] = [2, 2] := by decide
example : csv [0x61, 0x2C, 0x22, 0x62, 0x0A, 0x2C, 0x63, 0x22, 0x0A, 0x64, 0x2C, 0x65, 0x0A] 0 = true := by decide
/-- lazy quotes: `a"b,c` LF `"d"e",f` LF -/
example : records 0x2C [0x61, 0x22, 0x62, 0x2C, 0x63, 0x0A, 0x22, 0x64, 0x22, 0x65, 0x22, 0x2C, 0x66, 0x0A] = [2, 2] := by decide
/-- an unterminated quote swallows the rest of the input: `a,b` LF `c,"d` LF `e,f` LF is two records -/
example : records 0x2C [0x61, 0x2C, 0x62, 0x0A, 0x63, 0x2C, 0x22, 0x64, 0x0A, 0x65, 0x2C, 0x66, 0x0A] = [2, 2] := by decide
/-- comment and empty lines are skipped, CR LF and a final CR are removed: `#x` CRLF `a,b` CRLF CRLF `c,d` CR -/
example : records 0x2C [0x23, 0x78, 0x0D, 0x0A, 0x61, 0x2C, 0x62, 0x0D, 0x0A, 0x0D, 0x0A, 0x63, 0x2C, 0x64, 0x0D] = [2, 2] := by decide
/-- truncated mode: the cut-off last line `c,d,` … is dropped, leaving one record: refused -/
example : csv [0x61, 0x2C, 0x62, 0x0A, 0x63, 0x2C, 0x64, 0x2C] 8 = false := by decide
example : csv [0x61, 0x2C, 0x62, 0x0A, 0x63, 0x2C, 0x64, 0x0A, 0x65, 0x2C] 10 = true := by decide

/-- `a,b,c` LF `d,"e` LF `f",g` LF : whole, it is a table of two rows of three cells -/
example : qtable 0x2C [[.plain [0x61], .plain [0x62], .plain [0x63]], [.plain [0x64], .quoted [0x65, 0x0A, 0x66], .plain [0x67]]] ++ [0x0A]
    = [0x61, 0x2C, 0x62, 0x2C, 0x63, 0x0A, 0x64, 0x2C, 0x22, 0x65, 0x0A, 0x66, 0x22, 0x2C, 0x67, 0x0A] := by decide
example : csv [0x61, 0x2C, 0x62, 0x2C, 0x63, 0x0A, 0x64, 0x2C, 0x22, 0x65, 0x0A, 0x66, 0x22, 0x2C, 0x67, 0x0A] 0 = true := by decide
/-- … but cut by the limit inside the quoted cell (`a,b,c` LF `d,"e` LF `f`, limit = length), the
    "last line" that is dropped starts inside the quotes, the unterminated record `d,"e` has two
    fields, and the input is refused -/
example : csv [0x61, 0x2C, 0x62, 0x2C, 0x63, 0x0A, 0x64, 0x2C, 0x22, 0x65, 0x0A, 0x66] 12 = false := by decide
example : records 0x2C (dropLastLine [0x61, 0x2C, 0x62, 0x2C, 0x63, 0x0A, 0x64, 0x2C, 0x22, 0x65, 0x0A, 0x66] 12) = [3, 2] := by decide

end Mime.CsvLemmas
