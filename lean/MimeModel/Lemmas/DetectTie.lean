import MimeModel.Model.Sync
import MimeModel.Gen.Sync
/-
  Regenerated obligation shared by every property whose statement runs through `Detect` /
  `DetectReader` with a limit: the limit is loaded exactly once, atomically, per detection, so
  the bytes are cut with the same value that is handed to the detectors (the model's `detect`
  has a single `lim`).  A second load, or a plain read of the variable, breaks this tie.
-/
namespace Mime.DetectTie
open Mime Mime.Sync

def SingleLimit : Prop :=
    (["Detect", "DetectReader"].all fun n =>
      match Gen.Sync.progs.lookup n with
      | some evs =>
        (evs.filter (fun e => e == .atomicLoadLimit)).length == 1 &&
        !(evs.any (fun e => e == .plainReadLimit || e == .plainWriteLimit))
      | none => false) = true ∧
    -- the walk and the result construction never look at the variable again: they work with the
    -- value they were handed
    (["MIME.match", "MIME.clone", "MIME.cloneHierarchy", "MIME.lookup", "MIME.flatten"].all fun n =>
      match Gen.Sync.progs.lookup n with
      | some evs => !(evs.any (fun e => e == .atomicLoadLimit || e == .atomicStoreLimit || e == .plainReadLimit || e == .plainWriteLimit))
      | none => false) = true

theorem single_limit : SingleLimit := by
  unfold SingleLimit
  exact ⟨by decide, by decide⟩

end Mime.DetectTie
