import MimeModel.Lemmas.JsonPrefixC
/-
  The fuel argument of the container scanners is a modelling device (the Go code recurses
  without one).  Here: with fuel `2·len + 1` (values) / `2·len + 2` (loops) the result no
  longer depends on the fuel, so `parse`, which supplies `2·len + 4`, computes what an
  unbounded recursion computes.
-/
namespace Mime.JsonPrefix
open Mime Mime.Json Mime.Spec Mime.JsonLeaf

variable (qs : List Mime.Gen.Json.Query) (cap : Nat)

def MAny (f : Nat) : Prop := ∀ lvl b s, 2 * b.length + 1 ≤ f → consumeAny qs cap f lvl b s = consumeAny qs cap (f + 1) lvl b s
def MArr (f : Nat) : Prop := ∀ lvl b s, 2 * b.length + 2 ≤ f → arrayLoop qs cap f lvl b s = arrayLoop qs cap (f + 1) lvl b s
def MObj (f : Nat) : Prop := ∀ lvl b s, 2 * b.length + 2 ≤ f → objectLoop qs cap f lvl b s = objectLoop qs cap (f + 1) lvl b s

theorem consumeAny_rest_le (f lvl : Nat) (b : Bytes) (s : PState) (r : Bytes) (s' : PState)
    (h : consumeAny qs cap f lvl b s = (some r, s')) : r.length ≤ b.length :=
  ((prefix_all qs cap f).1 _ _ _ _ _ h).1

theorem spaceScan_fst (b : Bytes) (s : PState) : (spaceScan b s) = (some (J.skipWs b), s.bump (b.length - (J.skipWs b).length)) :=
  spaceScan_val b s

theorem kindScan_mono (f lvl : Nat) (hA : MArr qs cap f) (hO : MObj qs cap f) (k : Kind) (y : Bytes) (st : PState)
    (hy : 2 * y.length ≤ f) : kindScan qs cap f lvl k y st = kindScan qs cap (f + 1) lvl k y st := by
  cases k with
  | arr =>
    cases y with
    | nil => rfl
    | cons c cs =>
      simp only [kindScan]
      split
      · rfl
      · exact hA _ _ _ (by simp only [List.length_cons] at hy; omega)
  | obj =>
    cases y with
    | nil => rfl
    | cons c cs =>
      simp only [kindScan]
      exact hO _ _ _ (by simp only [List.length_cons] at hy; omega)
  | _ => rfl

theorem anyHead_mono (f lvl : Nat) (hA : MArr qs cap f) (hO : MObj qs cap f) (y : Bytes) (st : PState)
    (hy : 2 * y.length ≤ f) : anyHead qs cap f lvl y st = anyHead qs cap (f + 1) lvl y st := by
  cases y with
  | nil => rfl
  | cons c cs =>
    simp only [anyHead, finishScan]
    rw [kindScan_mono qs cap f lvl hA hO _ _ _ hy]

theorem any_mono_step (f : Nat) (hA : MArr qs cap f) (hO : MObj qs cap f) : MAny qs cap (f + 1) := by
  intro lvl b s hb
  rw [consumeAny_eq, consumeAny_eq]
  split
  · rfl
  · rw [spaceScan_val]
    simp only
    have := skipWs_length_le b
    exact anyHead_mono qs cap f lvl hA hO _ _ (by omega)

theorem arrAfter_mono (f lvl : Nat) (hA : MArr qs cap f) (r2 : Bytes) (s2 : PState) (h : 2 * r2.length ≤ f) :
    arrAfter qs cap f lvl r2 s2 = arrAfter qs cap (f + 1) lvl r2 s2 := by
  cases r2 with
  | nil => rfl
  | cons d ds =>
    simp only [arrAfter]
    split
    · exact hA _ _ _ (by simp only [List.length_cons] at h; omega)
    · rfl

theorem arrHead_mono (f lvl : Nat) (hV : MAny qs cap f) (hA : MArr qs cap f) (y : Bytes) (s1 : PState) (h : 2 * y.length + 1 ≤ f) :
    arrHead qs cap f lvl y s1 = arrHead qs cap (f + 1) lvl y s1 := by
  cases y with
  | nil => rfl
  | cons c cs =>
    simp only [arrHead]
    split
    · rfl
    · rw [← hV _ _ _ h]
      generalize hres : consumeAny qs cap f lvl (c :: cs) s1 = res
      obtain ⟨o, s2⟩ := res
      cases o with
      | none => rfl
      | some r2 =>
        have := consumeAny_rest_le qs cap f lvl _ _ _ _ hres
        exact arrAfter_mono qs cap f lvl hA _ _ (by omega)

theorem arr_mono_step (f : Nat) (hV : MAny qs cap f) (hA : MArr qs cap f) : MArr qs cap (f + 1) := by
  intro lvl b s hb
  rw [arrayLoop_eq, arrayLoop_eq, spaceScan_val]
  simp only
  have := skipWs_length_le b
  exact arrHead_mono qs cap f lvl hV hA _ _ (by omega)

theorem objAfterVal_mono (f lvl : Nat) (qm : Option Mime.Gen.Json.Query) (tag : Bytes) (hO : MObj qs cap f)
    (r2 : Bytes) (s6 : PState) (h : 2 * r2.length ≤ f) :
    objAfterVal qs cap f lvl qm tag r2 s6 = objAfterVal qs cap (f + 1) lvl qm tag r2 s6 := by
  cases r2 with
  | nil => rfl
  | cons g gs =>
    simp only [objAfterVal]
    split
    · exact hO _ _ _ (by simp only [List.length_cons] at h; omega)
    · rfl

theorem objValue_mono (f lvl : Nat) (qm : Option Mime.Gen.Json.Query) (hV : MAny qs cap f) (hO : MObj qs cap f)
    (y : Bytes) (s5 : PState) (h : 2 * y.length + 1 ≤ f) :
    objValue qs cap f lvl qm y s5 = objValue qs cap (f + 1) lvl qm y s5 := by
  cases y with
  | nil => rfl
  | cons e es =>
    simp only [objValue]
    rw [← hV _ _ _ h]
    generalize hres : consumeAny qs cap f lvl (e :: es) s5 = res
    obtain ⟨o, s6⟩ := res
    cases o with
    | none => rfl
    | some r2 =>
      have := consumeAny_rest_le qs cap f lvl _ _ _ _ hres
      exact objAfterVal_mono qs cap f lvl qm _ hO _ _ (by omega)

theorem objColon_mono (f lvl : Nat) (qm : Option Mime.Gen.Json.Query) (hV : MAny qs cap f) (hO : MObj qs cap f)
    (y : Bytes) (s4 : PState) (h : 2 * y.length + 1 ≤ f) :
    objColon qs cap f lvl qm y s4 = objColon qs cap (f + 1) lvl qm y s4 := by
  cases y with
  | nil => rfl
  | cons d ds =>
    simp only [objColon]
    split
    · rfl
    · rw [spaceScan_val]
      simp only
      have := skipWs_length_le ds
      exact objValue_mono qs cap f lvl qm hV hO _ _ (by simp only [List.length_cons] at h; omega)

theorem objAfterKey_mono (f lvl : Nat) (tag : Bytes) (hV : MAny qs cap f) (hO : MObj qs cap f)
    (r : Bytes) (s2 : PState) (h : 2 * r.length + 1 ≤ f) :
    objAfterKey qs cap f lvl tag r s2 = objAfterKey qs cap (f + 1) lvl tag r s2 := by
  simp only [objAfterKey]
  rw [spaceScan_val]
  simp only
  have := skipWs_length_le r
  exact objColon_mono qs cap f lvl _ hV hO _ _ (by omega)

theorem objHead_mono (f lvl : Nat) (hV : MAny qs cap f) (hO : MObj qs cap f) (y : Bytes) (s1 : PState) (h : 2 * y.length + 1 ≤ f) :
    objHead qs cap f lvl y s1 = objHead qs cap (f + 1) lvl y s1 := by
  cases y with
  | nil => rfl
  | cons c cs =>
    simp only [objHead]
    split
    · rfl
    split
    · rfl
    generalize hres : consumeString .norm cs s1.bump = res
    obtain ⟨o, s2⟩ := res
    cases o with
    | none => rfl
    | some r =>
      have := (consumeString_prefix _ _ _ _ _ hres).1
      exact objAfterKey_mono qs cap f lvl _ hV hO _ _ (by simp only [List.length_cons] at h; omega)

theorem obj_mono_step (f : Nat) (hV : MAny qs cap f) (hO : MObj qs cap f) : MObj qs cap (f + 1) := by
  intro lvl b s hb
  rw [objectLoop_eq, objectLoop_eq, spaceScan_val]
  simp only
  have := skipWs_length_le b
  exact objHead_mono qs cap f lvl hV hO _ _ (by omega)

theorem mono_all : ∀ f, MAny qs cap f ∧ MArr qs cap f ∧ MObj qs cap f := by
  intro f
  induction f with
  | zero =>
    refine ⟨?_, ?_, ?_⟩ <;> intro lvl b s h <;> omega
  | succ f ih =>
    obtain ⟨hV, hA, hO⟩ := ih
    exact ⟨any_mono_step qs cap f hA hO, arr_mono_step qs cap f hV hA, obj_mono_step qs cap f hV hO⟩

/-- **fuel adequacy**: any two fuels above `2·len + 1` give the same run -/
theorem consumeAny_fuel (lvl : Nat) (b : Bytes) (s : PState) (f g : Nat) (hf : 2 * b.length + 1 ≤ f) (hg : 2 * b.length + 1 ≤ g) :
    consumeAny qs cap f lvl b s = consumeAny qs cap g lvl b s := by
  have up : ∀ d f, 2 * b.length + 1 ≤ f → consumeAny qs cap f lvl b s = consumeAny qs cap (f + d) lvl b s := by
    intro d
    induction d with
    | zero => intro f _; rfl
    | succ d ih =>
      intro f hf
      rw [ih f hf, (mono_all qs cap (f + d)).1 lvl b s (by omega)]
      rfl
  by_cases hfg : f ≤ g
  · have := up (g - f) f hf
    rwa [Nat.add_sub_cancel' hfg] at this
  · have := up (f - g) g hg
    rw [Nat.add_sub_cancel' (by omega)] at this
    exact this.symm

end Mime.JsonPrefix
