import MimeModel.Lemmas.Tree
/-
  From detector verdicts to the result of the walk, generically: if every node along a path
  of the tree (selected level by level by predicates on the children) accepts the header, the
  walk goes through the path's end — unless, at some level, a sibling *in front of* the
  selected child accepts too (the "higher-priority signature" of the properties).
  Used by the Detect-level theorems of C10, C13, C18, C19 (C08 has its own older instance).
-/
namespace Mime.WalkPath
open Mime Mime.Tree

variable {α : Type}

/-- follow `ps` from `t`: at each level the first child satisfying the predicate -/
def descend : List (Tree α → Bool) → Tree α → Option (Tree α)
  | [], t => some t
  | p :: ps, t => match t.children.find? p with
    | some c => descend ps c
    | none => none

/-- the nodes selected along the path (the start node excluded) -/
def pathNodes : List (Tree α → Bool) → Tree α → List (Tree α)
  | [], _ => []
  | p :: ps, t => match t.children.find? p with
    | some c => c :: pathNodes ps c
    | none => []

/-- the siblings that are consulted before the selected child, at every level -/
def rivals : List (Tree α → Bool) → Tree α → List (Tree α)
  | [], _ => []
  | p :: ps, t => t.children.takeWhile (fun x => !p x) ++
    (match t.children.find? p with
     | some c => rivals ps c
     | none => [])

theorem walkList_first (acc : α → Bool) (p : Tree α → Bool) : ∀ (cs : List (Tree α)) (c : Tree α),
    cs.find? p = some c → acc c.info = true →
    (∃ d ∈ cs.takeWhile (fun x => !p x), acc d.info = true) ∨ walkList acc cs = walk acc c := by
  intro cs
  induction cs with
  | nil => intro c h; simp at h
  | cons x xs ih =>
    intro c h hacc
    simp only [List.find?] at h
    cases hp : p x with
    | true =>
      simp only [hp, Option.some.injEq] at h
      subst h
      right
      simp [walkList, hacc]
    | false =>
      simp only [hp] at h
      by_cases hx : acc x.info = true
      · left
        exact ⟨x, by simp [List.takeWhile, hp], hx⟩
      · have hx' : acc x.info = false := by simpa using hx
        rcases ih c h hacc with ⟨d, hd, hda⟩ | hw
        · left
          exact ⟨d, by simp [List.takeWhile, hp, hd], hda⟩
        · right
          simp [walkList, hx', hw]

theorem walk_unfold (acc : α → Bool) (t : Tree α) : walk acc t = t.info :: walkList acc t.children := by
  cases t; simp [walk, Tree.info, Tree.children]

/-- **the walk follows an accepted path unless a rival accepts**: the walk from `t` ends with the
    walk from the path's end (so it passes through it and continues below it) -/
theorem walk_follows (acc : α → Bool) : ∀ (ps : List (Tree α → Bool)) (t target : Tree α),
    descend ps t = some target → (∀ n ∈ pathNodes ps t, acc n.info = true) →
    (∃ pre, walk acc t = pre ++ walk acc target) ∨ (∃ d ∈ rivals ps t, acc d.info = true) := by
  intro ps
  induction ps with
  | nil =>
    intro t target h _
    simp only [descend, Option.some.injEq] at h
    subst h
    exact Or.inl ⟨[], rfl⟩
  | cons p ps ih =>
    intro t target h hall
    simp only [descend] at h
    cases hf : t.children.find? p with
    | none => simp [hf] at h
    | some c =>
      simp only [hf] at h
      have hc : acc c.info = true := hall c (by simp [pathNodes, hf])
      have hrest : ∀ n ∈ pathNodes ps c, acc n.info = true := fun n hn => hall n (by simp [pathNodes, hf, hn])
      rcases walkList_first acc p t.children c hf hc with ⟨d, hd, hda⟩ | hw
      · right
        exact ⟨d, by simp [rivals, hd], hda⟩
      · rcases ih c target h hrest with ⟨pre, hpre⟩ | ⟨d, hd, hda⟩
        · left
          refine ⟨t.info :: pre, ?_⟩
          rw [walk_unfold acc t, hw, hpre]
          rfl
        · right
          exact ⟨d, by simp [rivals, hf, hd], hda⟩

/-- corollary: the path's end is on the walked path -/
theorem walk_reaches (acc : α → Bool) (ps : List (Tree α → Bool)) (t target : Tree α)
    (h : descend ps t = some target) (hall : ∀ n ∈ pathNodes ps t, acc n.info = true) :
    target.info ∈ walk acc t ∨ (∃ d ∈ rivals ps t, acc d.info = true) := by
  rcases walk_follows acc ps t target h hall with ⟨pre, hpre⟩ | hr
  · left
    rw [hpre, walk_unfold acc target]
    simp
  · exact Or.inr hr

/-- if moreover no child of the path's end accepts, the path's end is the leaf of the result -/
theorem walk_ends (acc : α → Bool) (ps : List (Tree α → Bool)) (t target : Tree α)
    (h : descend ps t = some target) (hall : ∀ n ∈ pathNodes ps t, acc n.info = true)
    (hleaf : ∀ c ∈ target.children, acc c.info = false) :
    (walk acc t).getLast? = some target.info ∨ (∃ d ∈ rivals ps t, acc d.info = true) := by
  rcases walk_follows acc ps t target h hall with ⟨pre, hpre⟩ | hr
  · left
    have hnil : ∀ cs : List (Tree α), (∀ c ∈ cs, acc c.info = false) → walkList acc cs = [] := by
      intro cs
      induction cs with
      | nil => intro _; rfl
      | cons x xs ihx =>
        intro hx
        simp [walkList, hx x (by simp), ihx (fun c hc => hx c (by simp [hc]))]
    rw [hpre, walk_unfold acc target, hnil _ hleaf]
    simp
  · exact Or.inr hr

end Mime.WalkPath
