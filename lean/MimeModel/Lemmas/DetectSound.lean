import MimeModel.Props.C03
/-
  From the result of `detect` back to the verdicts of the checks, generically (any tree, any
  external parameters, any input, any limit): everything on the reported chain except the root
  was accepted by its own detector on the examined header, and everything on the chain is a node
  of the tree.  Used by the Detect-level soundness theorems (C09_Detect, C11_Detect): "the leaf is
  X" ⇒ "the check of X said yes on the header".
-/
namespace Mime.DetectSound
open Mime Mime.Tree

/-- the chain is the walked path, leaf first -/
theorem chain_eq (ext : Ext) (T : Tree Info) (x : Bytes) (lim : Nat) :
    (detect ext T x lim).chain = (T.walk (accepts ext (header x lim) lim)).reverse := rfl

/-- the charset parameter is computed from the leaf's type and the examined header -/
theorem charset_eq (ext : Ext) (T : Tree Info) (x : Bytes) (lim : Nat) :
    (detect ext T x lim).charset =
      (match (detect ext T x lim).chain with
       | [] => []
       | leaf :: _ => charsetFor ext leaf.mime (header x lim)) := rfl

theorem chain_ne_nil (ext : Ext) (T : Tree Info) (x : Bytes) (lim : Nat) :
    (detect ext T x lim).chain ≠ [] := by
  rw [chain_eq]
  intro h
  exact walk_ne_nil _ T (by simpa using h)

/-- **every element of the chain except the last (the root) was accepted** by its detector on
    the examined header -/
theorem leaf_accepted (ext : Ext) (T : Tree Info) (x : Bytes) (lim : Nat) :
    ∀ i ∈ (detect ext T x lim).chain.dropLast, accepts ext (header x lim) lim i = true := by
  intro i hi
  rw [chain_eq, List.dropLast_reverse, List.mem_reverse] at hi
  exact C03.ancestors_accept _ T i hi

/-- **every element of the chain is (the `info` of) a node of the tree** -/
theorem chain_mem_tree (ext : Ext) (T : Tree Info) (x : Bytes) (lim : Nat) :
    ∀ i ∈ (detect ext T x lim).chain, i ∈ T.flatten := by
  intro i hi
  rw [chain_eq, List.mem_reverse] at hi
  exact (walk_sub_flatten _).1 T i hi

/-- the last element of the chain is the root -/
theorem chain_last (ext : Ext) (T : Tree Info) (x : Bytes) (lim : Nat) :
    (detect ext T x lim).chain.getLast? = some T.info := by
  rw [chain_eq, List.getLast?_reverse]
  exact walk_head _ T

/-- the head of a list with at least two elements is in its `dropLast` -/
theorem head_mem_dropLast {α : Type} (a b : α) (l : List α) : a ∈ (a :: b :: l).dropLast := by
  simp [List.dropLast]

/-- the leaf (head of the chain) is a node of the tree, and it is the root itself or a node
    whose detector accepted the examined header -/
theorem leaf_cases (ext : Ext) (T : Tree Info) (x : Bytes) (lim : Nat) (leaf : Info)
    (h : (detect ext T x lim).chain.head? = some leaf) :
    leaf ∈ T.flatten ∧ (leaf = T.info ∨ accepts ext (header x lim) lim leaf = true) := by
  have hacc := leaf_accepted ext T x lim
  have hmem := chain_mem_tree ext T x lim
  have hlast := chain_last ext T x lim
  generalize (detect ext T x lim).chain = c at h hacc hmem hlast
  match c, h with
  | [a], h =>
    simp only [List.head?_cons, Option.some.injEq] at h
    subst h
    refine ⟨hmem _ (List.mem_cons_self ..), Or.inl ?_⟩
    simpa using hlast
  | a :: b :: l, h =>
    simp only [List.head?_cons, Option.some.injEq] at h
    subst h
    exact ⟨hmem _ (List.mem_cons_self ..), Or.inr (hacc _ (head_mem_dropLast a b l))⟩

/-- the charset parameter, given the leaf -/
theorem charset_of_leaf (ext : Ext) (T : Tree Info) (x : Bytes) (lim : Nat) (leaf : Info)
    (h : (detect ext T x lim).chain.head? = some leaf) :
    (detect ext T x lim).charset = charsetFor ext leaf.mime (header x lim) := by
  rw [charset_eq]
  generalize (detect ext T x lim).chain = c at h
  match c, h with
  | a :: l, h =>
    simp only [List.head?_cons, Option.some.injEq] at h
    subst h
    rfl

/-- there always is a leaf -/
theorem leaf_exists (ext : Ext) (T : Tree Info) (x : Bytes) (lim : Nat) :
    ∃ leaf, (detect ext T x lim).chain.head? = some leaf := by
  have := chain_ne_nil ext T x lim
  cases h : (detect ext T x lim).chain with
  | nil => exact absurd h this
  | cons a l => exact ⟨a, rfl⟩

/-- the examined header is the whole input when the limit is 0 or not smaller than the input -/
theorem header_whole (x : Bytes) (lim : Nat) (h : lim = 0 ∨ x.length ≤ lim) : header x lim = x := by
  unfold header
  split
  · rfl
  · rcases h with h | h
    · contradiction
    · exact List.take_of_length_le h

/-- the examined header has exactly `lim` bytes when the input was cut -/
theorem header_cut_length (x : Bytes) (lim : Nat) (h0 : lim ≠ 0) (h : lim ≤ x.length) :
    (header x lim).length = lim := by
  unfold header
  simp only [h0, ↓reduceIte, List.length_take]
  omega

end Mime.DetectSound
