import MimeModel.Props.C03
import MimeModel.Lemmas.DetectSound
/-
  What the *leaf* of the first-match walk tells about its surroundings, for every tree and every
  verdict function: the sub-formats of the leaf all rejected, and — unless the leaf is the root —
  the leaf accepted and all its higher-priority siblings rejected.

  Nodes are seen through their payloads, so the surroundings are given as two tables computed from
  the tree: `kids` (payload of a node, payloads of its children) and `older` (payload of a non-root
  node, payloads of the siblings consulted before it).  For a concrete tree, facts about these
  tables are decidable ("whatever is called har has a GeoJSON node among its older siblings").
-/
namespace Mime.Tree
variable {α : Type}

mutual
/-- for every node of the tree: its payload and the payloads of its children, in order -/
def kids : Tree α → List (α × List α)
  | .node a cs => (a, cs.map info) :: kidsList cs
def kidsList : List (Tree α) → List (α × List α)
  | [] => []
  | c :: cs => kids c ++ kidsList cs
end

mutual
/-- for every node of the tree except the root: its payload and the payloads of the siblings that
    come before it (those `match` consults first) -/
def older : Tree α → List (α × List α)
  | .node _ cs => olderList [] cs
def olderList (pre : List α) : List (Tree α) → List (α × List α)
  | [] => []
  | c :: cs => (c.info, pre) :: (older c ++ olderList (pre ++ [c.info]) cs)
end

theorem kids_head (t : Tree α) : (t.info, t.children.map info) ∈ kids t := by
  cases t; simp [kids, info, children]

theorem kidsList_mem (c : Tree α) (x : α × List α) (hx : x ∈ kids c) :
    ∀ cs : List (Tree α), c ∈ cs → x ∈ kidsList cs := by
  intro cs
  induction cs with
  | nil => intro h; cases h
  | cons d ds ih =>
    intro h
    simp only [kidsList, List.mem_append]
    cases h with
    | head => exact Or.inl hx
    | tail _ h' => exact Or.inr (ih h')

theorem olderList_mem_sub (c : Tree α) (x : α × List α) (hx : x ∈ older c) :
    ∀ (cs : List (Tree α)) (p : List α), c ∈ cs → x ∈ olderList p cs := by
  intro cs
  induction cs with
  | nil => intro p h; cases h
  | cons d ds ih =>
    intro p h
    simp only [olderList, List.mem_cons, List.mem_append]
    cases h with
    | head => exact Or.inr (Or.inl hx)
    | tail _ h' => exact Or.inr (Or.inr (ih _ h'))

theorem olderList_mem_self (c : Tree α) (post : List (Tree α)) :
    ∀ (pre : List (Tree α)) (p : List α), (c.info, p ++ pre.map info) ∈ olderList p (pre ++ c :: post) := by
  intro pre
  induction pre with
  | nil => intro p; simp [olderList]
  | cons d ds ih =>
    intro p
    simp only [List.cons_append, olderList, List.mem_cons, List.mem_append, List.map_cons]
    right; right
    have := ih (p ++ [d.info])
    simpa using this

/-- the leaf of a first-match path: its children all rejected; and it is the root, or it accepted
    and its older siblings all rejected -/
theorem path_leaf (acc : α → Bool) (t : Tree α) (p : List α) (h : C03.Path acc t p) :
    ∃ l, p.getLast? = some l ∧
      (∃ cs, (l, cs) ∈ kids t ∧ ∀ c ∈ cs, acc c = false) ∧
      (l = t.info ∨ ∃ pre, (l, pre) ∈ older t ∧ (∀ d ∈ pre, acc d = false) ∧ acc l = true) := by
  induction h with
  | stop a cs hnone =>
    refine ⟨a, by simp, ⟨cs.map info, by simp [kids], ?_⟩, Or.inl rfl⟩
    intro c hc
    obtain ⟨n, hn, rfl⟩ := List.mem_map.1 hc
    exact hnone n hn
  | descend a pre c post p hp hc hpath ih =>
    obtain ⟨l, hl, ⟨cs, hk, hrej⟩, hcase⟩ := ih
    have hcm : c ∈ pre ++ c :: post := by simp
    refine ⟨l, ?_, ⟨cs, ?_, hrej⟩, Or.inr ?_⟩
    · cases p with
      | nil => cases hpath
      | cons x xs => simpa [List.getLast?_cons_cons] using hl
    · simp only [kids, List.mem_cons]
      exact Or.inr (kidsList_mem c _ hk _ hcm)
    · rcases hcase with rfl | ⟨pre', ho, hr, ha⟩
      · refine ⟨pre.map info, ?_, ?_, hc⟩
        · have := olderList_mem_self c post pre []
          simpa [older] using this
        · intro d hd
          obtain ⟨n, hn, rfl⟩ := List.mem_map.1 hd
          exact hp n hn
      · exact ⟨pre', by simpa [older] using olderList_mem_sub c _ ho _ [] hcm, hr, ha⟩

/-- the same about the reported leaf of `detect` -/
theorem detect_leaf (ext : Ext) (T : Tree Info) (x : Bytes) (lim : Nat) (leaf : Info)
    (h : (detect ext T x lim).chain.head? = some leaf) :
    (∃ cs, (leaf, cs) ∈ kids T ∧ ∀ c ∈ cs, accepts ext (header x lim) lim c = false) ∧
    (leaf = T.info ∨ ∃ pre, (leaf, pre) ∈ older T ∧
      (∀ d ∈ pre, accepts ext (header x lim) lim d = false) ∧ accepts ext (header x lim) lim leaf = true) := by
  obtain ⟨l, hl, h1, h2⟩ := path_leaf _ T _ (C03.walk_spec (accepts ext (header x lim) lim) T)
  have : leaf = l := by
    rw [DetectSound.chain_eq, List.head?_reverse, hl] at h
    simpa using h.symm
  subst this
  exact ⟨h1, h2⟩

/- non-vacuity of the two tables -/
example : kids (.node 1 [.node 3 [], .node 4 [.node 5 [], .node 6 []], .node 8 []]) =
    [(1, [3, 4, 8]), (3, []), (4, [5, 6]), (5, []), (6, []), (8, [])] := by decide
example : older (.node 1 [.node 3 [], .node 4 [.node 5 [], .node 6 []], .node 8 []]) =
    [(3, []), (4, [3]), (5, []), (6, [5]), (8, [3, 4])] := by decide

end Mime.Tree
