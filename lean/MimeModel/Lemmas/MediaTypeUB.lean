import MimeModel.Lemmas.MediaTypeU
/-
  The byte-level transcription of `mime.ParseMediaType` (`parseB` / `typeOfB` / `errB`,
  Model/MediaTypeU.lean) EQUALS the rune-level model (`parseU` / `typeOfU` / `errU`), for every
  byte string, valid UTF-8 or not.

    decodeLast_spec        what `utf8.DecodeLastRuneInString` returns: the last 1..4 bytes `b0 :: t`, which
                           `decode1` consumes completely, or U+FFFD for the last byte alone
    decodeLast_spaceEnc    … behind a white-space encoding it returns that white-space rune, whatever precedes
    decodeLast_space_fwd / decodeLast_space_bwd
                           backward and forward decoding agree on trailing white space (they may cut invalid
                           UTF-8 differently elsewhere; no claim is made, or needed, about that)
    lastIdxF_spec, trimRightB_spec
                           `lastIndexFunc` / `TrimRightFunc`: a run of white-space encodings is cut off
    runes_trimRightB       runes (trimRightB s) = trimRightR (runes s)
    runes_trimLeftU        runes (trimLeftU s)  = (runes s).dropWhile isSpaceRune
    runes_tsRight, runes_trimSpaceB
                           runes (trimSpaceB s) = trimR (runes s), both ASCII fast paths included
    trimSpaceB_spec        s = a ++ trimSpaceB s ++ w with `WS a`, `WS w`
    trimSpaceB_valid, typeB_encode
                           on valid UTF-8 `trimSpaceB s = (trimR (runes s)).flatMap encodeRune`
    semiOnlyB_eq, parseParamsB_eq
                           the trailing-`;` test and the parameter loop
    parseB_eq_parseU, typeOfB_eq_typeOfU, errB_eq_errU
-/
namespace Mime.MTU
open Mime Mime.MT

/-! ### small facts about `decode1` / `runes` -/

theorem decode1_nil (b0 : Nat) (h : 0x80 ≤ b0) : decode1 b0 [] = (0xFFFD, []) := by
  have h' : ¬ b0 < 0x80 := by omega
  unfold decode1
  simp only [h', ↓reduceIte]
  repeat' split
  all_goals rfl

/-- a rune below 0x80 is decoded from an ASCII byte only (no over-long forms) -/
theorem decode1_lt (b0 : Nat) (t : Bytes) (h : (decode1 b0 t).1 < 0x80) : b0 < 0x80 := by
  cases hd : decode1 b0 t with
  | mk r rest =>
    rw [hd] at h
    simp only at h
    have hne : r ≠ 0xFFFD := by omega
    have := decode1_encode b0 t r rest hd hne
    have he : encodeRune r = [r] := by simp [encodeRune, h]
    rw [he] at this
    simp only [List.cons_append, List.nil_append, List.cons.injEq] at this
    omega

theorem decode1_snd_nil_ascii (b0 : Nat) (t : Bytes) (h : b0 < 0x80) (h2 : (decode1 b0 t).2 = []) : t = [] := by
  rw [decode1_ascii b0 t h] at h2
  exact h2

theorem runes_eq_nil (p : Bytes) (h : runes p = []) : p = [] := by
  cases p with
  | nil => rfl
  | cons b0 t => rw [runes_cons] at h; cases h

/-- a string whose runes are all `< 0x80` is ASCII, hence its own rune sequence -/
theorem runes_small : ∀ (n : Nat) (x : Bytes), x.length ≤ n → (∀ r ∈ runes x, r < 0x80) → runes x = x := by
  intro n
  induction n with
  | zero =>
    intro x hx _
    cases x with
    | nil => rfl
    | cons _ _ => simp at hx
  | succ n ih =>
    intro x hx h
    cases x with
    | nil => rfl
    | cons b0 t =>
      rw [runes_cons] at h ⊢
      have h0 := decode1_lt b0 t (h _ (List.mem_cons_self ..))
      rw [decode1_ascii b0 t h0] at h ⊢
      simp only [List.length_cons] at hx
      simp only
      rw [ih t (by omega) (fun r hr => h r (List.mem_cons_of_mem _ hr))]

/-! ### `utf8.DecodeLastRuneInString` -/

theorem decodeLast_spec (r0 : Nat) (more : Bytes) :
    ∃ b0 t, r0 :: more = (b0 :: t).reverse ++ (decodeLast r0 more).2 ∧ (decode1 b0 t).2 = [] ∧
      (decodeLast r0 more).1 = (decode1 b0 t).1 := by
  by_cases h0 : r0 < 0x80
  · refine ⟨r0, [], ?_, ?_, ?_⟩ <;> simp [decodeLast, h0, decode1_ascii]
  · have fb : ∀ x : Nat × Bytes, x = (0xFFFD, more) →
        ∃ b0 t, r0 :: more = (b0 :: t).reverse ++ x.2 ∧ (decode1 b0 t).2 = [] ∧ x.1 = (decode1 b0 t).1 := by
      intro x hx
      subst hx
      exact ⟨r0, [], by simp, by rw [decode1_nil r0 (by omega)], by rw [decode1_nil r0 (by omega)]⟩
    have fin : ∀ (b0 : Nat) (t restOk : Bytes), r0 :: more = (b0 :: t).reverse ++ restOk →
        ∀ x : Nat × Bytes, x = (if (decode1 b0 t).2.isEmpty then ((decode1 b0 t).1, restOk) else (0xFFFD, more)) →
        ∃ b0 t, r0 :: more = (b0 :: t).reverse ++ x.2 ∧ (decode1 b0 t).2 = [] ∧ x.1 = (decode1 b0 t).1 := by
      intro b0 t restOk he x hx
      split at hx
      · rename_i hemp
        subst hx
        exact ⟨b0, t, he, by simpa using hemp, rfl⟩
      · exact fb x hx
    unfold decodeLast
    simp only [h0, ↓reduceIte]
    split
    · exact fb _ rfl
    · split
      · exact fin _ _ _ (by simp) _ rfl
      · split
        · exact fb _ rfl
        · split
          · exact fin _ _ _ (by simp) _ rfl
          · split
            · exact fb _ rfl
            · split
              · exact fin _ _ _ (by simp) _ rfl
              · exact fb _ rfl

theorem decodeLast_spaceEnc (e : Bytes) (he : e ∈ spaceEncodings) (q : Bytes) :
    ∃ r0 more, e.reverse ++ q = r0 :: more ∧ (decodeLast r0 more).2 = q ∧
      isSpaceRune (decodeLast r0 more).1 = true ∧ runes e = [(decodeLast r0 more).1] := by
  simp only [spaceEncodings, List.mem_cons, List.not_mem_nil, or_false] at he
  rcases he with rfl | rfl | rfl | rfl | rfl | rfl | rfl | rfl | rfl | rfl | rfl | rfl | rfl | rfl | rfl | rfl | rfl | rfl |
    rfl | rfl | rfl | rfl | rfl | rfl | rfl
  all_goals
    refine ⟨_, _, rfl, ?_⟩
    simp [decodeLast, decode1, isCont, lo3, hi3, isSpaceRune, runes_cons, runes_nil]

/-! ### `lastIndexFunc` / `TrimRightFunc` -/

theorem WS.append {a b : Bytes} (ha : WS a) (hb : WS b) : WS (a ++ b) := by
  induction ha with
  | nil => exact hb
  | cons he _ ih => rw [List.append_assoc]; exact WS.cons he ih

theorem WS.single {e : Bytes} (he : e ∈ spaceEncodings) : WS e := by
  have := WS.cons he WS.nil
  rwa [List.append_nil] at this

theorem decode1_encode_all (b0 : Nat) (t : Bytes) (h2 : (decode1 b0 t).2 = []) (hne : (decode1 b0 t).1 ≠ 0xFFFD) :
    b0 :: t = encodeRune (decode1 b0 t).1 := by
  cases hd : decode1 b0 t with
  | mk r rest =>
    rw [hd] at h2 hne
    simp only at h2 hne
    subst h2
    have := decode1_encode b0 t r [] hd hne
    rwa [List.append_nil] at this

/-- forward decoding: a last rune other than U+FFFD is decoded from its own encoding, which ends the string -/
theorem runes_last_enc : ∀ (n : Nat) (p : Bytes), p.length ≤ n → ∀ rs r, runes p = rs ++ [r] → r ≠ 0xFFFD →
    ∃ p', p = p' ++ encodeRune r := by
  intro n
  induction n with
  | zero =>
    intro p hp rs r h _
    cases p with
    | nil => simp [runes_nil] at h
    | cons _ _ => simp at hp
  | succ n ih =>
    intro p hp rs r h hr
    cases p with
    | nil => simp [runes_nil] at h
    | cons b0 t =>
      rw [runes_cons] at h
      simp only [List.length_cons] at hp
      cases hd : decode1 b0 t with
      | mk x rest =>
        rw [hd] at h
        simp only at h
        have hsuf : rest <:+ t := by have := decode1_suffix b0 t; rwa [hd] at this
        cases rs with
        | nil =>
          simp only [List.nil_append, List.cons.injEq] at h
          obtain ⟨rfl, h2⟩ := h
          have := runes_eq_nil rest h2
          subst this
          exact ⟨[], by rw [decode1_encode b0 t x [] hd hr]; simp⟩
        | cons y rs' =>
          simp only [List.cons_append, List.cons.injEq] at h
          obtain ⟨_, h2⟩ := h
          obtain ⟨q, hq⟩ := ih rest (by have := hsuf.length_le; omega) rs' r h2 hr
          obtain ⟨pre, hpre⟩ := hsuf
          exact ⟨b0 :: pre ++ q, by rw [← hpre, hq]; simp⟩

/-- `lastIndexFunc(s, unicode.IsSpace, false)`: it walks over a run of white-space encodings -/
theorem lastIdxF_spec : ∀ (f : Nat) (rs : Bytes), rs.length ≤ f →
    (lastIdxF f rs = none ∧ WS rs.reverse) ∨
    (∃ w r0 more, rs = w.reverse ++ r0 :: more ∧ WS w ∧ isSpaceRune (decodeLast r0 more).1 = false ∧
      lastIdxF f rs = some (decodeLast r0 more).2.length) := by
  intro f
  induction f with
  | zero =>
    intro rs h
    cases rs with
    | nil => exact Or.inl ⟨rfl, WS.nil⟩
    | cons _ _ => simp at h
  | succ f ih =>
    intro rs h
    cases rs with
    | nil => exact Or.inl ⟨rfl, WS.nil⟩
    | cons r0 more =>
      simp only [lastIdxF]
      obtain ⟨b0, t, he, hd2, hd1⟩ := decodeLast_spec r0 more
      cases hsp : isSpaceRune (decodeLast r0 more).1 with
      | false =>
        simp only [Bool.false_eq_true, ↓reduceIte]
        exact Or.inr ⟨[], r0, more, rfl, WS.nil, hsp, rfl⟩
      | true =>
        simp only [↓reduceIte]
        have hne : (decode1 b0 t).1 ≠ 0xFFFD := by
          intro e; rw [hd1, e] at hsp; revert hsp; decide
        have henc := decode1_encode_all b0 t hd2 hne
        have hmem : (b0 :: t) ∈ spaceEncodings := by
          rw [henc]; exact encode_space _ (by rw [← hd1]; exact hsp)
        have hlen : (decodeLast r0 more).2.length ≤ f := by
          have := congrArg List.length he
          simp only [List.length_cons, List.length_append, List.length_reverse] at this h
          omega
        rw [he]
        rcases ih _ hlen with ⟨h1, h2⟩ | ⟨w, r0', more', h1, h2, h3, h4⟩
        · refine Or.inl ⟨h1, ?_⟩
          rw [List.reverse_append, List.reverse_reverse]
          exact h2.append (WS.single hmem)
        · refine Or.inr ⟨w ++ (b0 :: t), r0', more', ?_, h2.append (WS.single hmem), h3, h4⟩
          rw [List.reverse_append, List.append_assoc, ← h1]

/-- `strings.TrimRightFunc(s, unicode.IsSpace)` cuts a run `w` of white-space encodings off the end, and what
    is left is empty or ends (decoding BACKWARDS) with a rune that is not white space -/
theorem trimRightB_spec (s : Bytes) :
    ∃ w, WS w ∧ s = trimRightB s ++ w ∧
      (trimRightB s = [] ∨ ∃ r0 more, (trimRightB s).reverse = r0 :: more ∧ isSpaceRune (decodeLast r0 more).1 = false) := by
  unfold trimRightB
  rcases lastIdxF_spec s.length s.reverse (by simp) with ⟨h1, h2⟩ | ⟨w, r0, more, h1, h2, h3, h4⟩
  · rw [h1]
    exact ⟨s, by simpa using h2, rfl, Or.inl rfl⟩
  · rw [h4]
    simp only
    obtain ⟨b0, t, he, hd2, hd1⟩ := decodeLast_spec r0 more
    generalize (decodeLast r0 more).2 = d2 at he
    have hs : s = d2.reverse ++ (b0 :: (t ++ w)) := by
      have := congrArg List.reverse h1
      rw [List.reverse_reverse, List.reverse_append, List.reverse_reverse, he] at this
      rw [this]; simp
    have hp : (r0 :: more).reverse = d2.reverse ++ (b0 :: t) := by rw [he]; simp
    refine ⟨w, h2, ?_⟩
    have hdrop : s.drop d2.length = b0 :: (t ++ w) := by
      rw [hs]; exact List.drop_left' (by simp)
    rw [hdrop]
    simp only
    have key : (if b0 ≥ 0x80 then s.take (d2.length + ((t ++ w).length + 1 - (decode1 b0 (t ++ w)).2.length))
        else s.take (d2.length + 1)) = (r0 :: more).reverse := by
      split
      · rw [decode1_append b0 t w h2.startOK]
        simp only [hd2, List.nil_append, List.length_append]
        rw [hp, hs]
        have : d2.reverse ++ b0 :: (t ++ w) = (d2.reverse ++ b0 :: t) ++ w := by simp
        rw [this]
        exact List.take_left' (by simp; omega)
      · rename_i hb
        have := decode1_snd_nil_ascii b0 t (by omega) hd2
        subst this
        rw [hp, hs]
        have : d2.reverse ++ b0 :: ([] ++ w) = (d2.reverse ++ [b0]) ++ w := by simp
        rw [this]
        exact List.take_left' (by simp)
    rw [key]
    refine ⟨?_, Or.inr ⟨r0, more, by simp, h3⟩⟩
    rw [hp, hs]; simp

/-! ### rune level -/

/-- `TrimRightFunc(·, unicode.IsSpace)` on a rune sequence -/
def trimRightR (rs : List Nat) : List Nat := (rs.reverse.dropWhile isSpaceRune).reverse

theorem trimR_eq (rs : List Nat) : trimR rs = trimRightR (rs.dropWhile isSpaceRune) := rfl

theorem trimRightR_append_space (l sp : List Nat) (h : ∀ r ∈ sp, isSpaceRune r = true) :
    trimRightR (l ++ sp) = trimRightR l := by
  unfold trimRightR
  rw [List.reverse_append, List.dropWhile_append_of_pos (fun c hc => h c (List.mem_reverse.mp hc))]

theorem trimRightR_id (l : List Nat) (h : ∀ rs r, l = rs ++ [r] → isSpaceRune r = false) : trimRightR l = l := by
  unfold trimRightR
  cases hr : l.reverse with
  | nil =>
    have : l = [] := by simpa using hr
    subst this; rfl
  | cons x xs =>
    have hl : l = xs.reverse ++ [x] := by
      have := congrArg List.reverse hr
      simpa using this
    have hx := h _ _ hl
    simp only [List.dropWhile_cons, hx, Bool.false_eq_true, ↓reduceIte]
    rw [hl]; simp

/-- **backward = forward**: `TrimRightFunc`, which decodes backwards with `DecodeLastRuneInString`, removes
    exactly the trailing white-space runes of the FORWARD decoding — on every byte string -/
theorem runes_trimRightB (s : Bytes) : runes (trimRightB s) = trimRightR (runes s) := by
  obtain ⟨w, hw, hs, hlast⟩ := trimRightB_spec s
  generalize trimRightB s = p at hs hlast ⊢
  obtain ⟨sp, hsp, e⟩ := hw.runes []
  rw [List.append_nil, runes_nil, List.append_nil] at e
  rw [hs, runes_append' p w hw.startOK, e, trimRightR_append_space _ _ hsp]
  symm
  apply trimRightR_id
  intro rs r hl
  cases hr : isSpaceRune r with
  | false => rfl
  | true =>
    exfalso
    have hne : r ≠ 0xFFFD := by intro e; rw [e] at hr; revert hr; decide
    obtain ⟨p', hp'⟩ := runes_last_enc _ p (Nat.le_refl _) rs r hl hne
    rcases hlast with h0 | ⟨r0, more, h1, h2⟩
    · rw [h0, runes_nil] at hl
      simp at hl
    · obtain ⟨r0', more', g1, _, g3, _⟩ := decodeLast_spaceEnc _ (encode_space r hr) p'.reverse
      rw [hp', List.reverse_append, g1] at h1
      simp only [List.cons.injEq] at h1
      obtain ⟨rfl, rfl⟩ := h1
      rw [g3] at h2
      cases h2

theorem runes_trimLeftU : ∀ (n : Nat) (s : Bytes), s.length ≤ n → runes (trimLeftU s) = (runes s).dropWhile isSpaceRune := by
  intro n
  induction n with
  | zero =>
    intro s hs
    cases s with
    | nil => rfl
    | cons _ _ => simp at hs
  | succ n ih =>
    intro s hs
    cases s with
    | nil => rfl
    | cons b0 t =>
      rw [trimLeftU_cons, runes_cons, List.dropWhile_cons]
      have hl := decode1_len b0 t
      simp only [List.length_cons] at hs
      split
      · exact ih _ (by omega)
      · rw [runes_cons]

theorem runes_trimLeftU' (s : Bytes) : runes (trimLeftU s) = (runes s).dropWhile isSpaceRune :=
  runes_trimLeftU s.length s (Nat.le_refl _)

theorem runes_snoc_ascii (a : Bytes) (c : Nat) (h : c < 0x80) : runes (a ++ [c]) = runes a ++ [c] := by
  rw [runes_append' a [c] (startOK_cons c [] (by unfold isCont; simp; omega)), runes_cons, decode1_ascii c [] h]
  rfl

/-- the second loop of `strings.TrimSpace` (ASCII fast path from the right, `TrimRightFunc` on the first byte `>= 0x80`) -/
theorem runes_tsRight : ∀ (l : Bytes), runes (tsRight l) = trimRightR (runes l.reverse) := by
  intro l
  induction l with
  | nil => rfl
  | cons c cs ih =>
    simp only [tsRight]
    split
    · exact runes_trimRightB _
    · rename_i hc
      have hc' : c < 0x80 := by omega
      rw [List.reverse_cons, runes_snoc_ascii _ c hc']
      split
      · rename_i hsp
        rw [ih, trimRightR_append_space]
        intro r hr
        simp only [List.mem_singleton] at hr
        subst hr
        rw [isSpaceRune_ascii r hc']; exact hsp
      · rename_i hsp
        rw [runes_snoc_ascii _ c hc']
        symm
        apply trimRightR_id
        intro rs r hl
        have := List.append_inj' hl rfl
        simp only [List.cons.injEq, and_true] at this
        rw [← this.2, isSpaceRune_ascii c hc']
        simpa using hsp

/-- **`strings.TrimSpace`, byte level = rune level**, with both ASCII fast paths, on every byte string -/
theorem runes_trimSpaceB : ∀ (s : Bytes), runes (trimSpaceB s) = trimR (runes s) := by
  intro s
  induction s with
  | nil => rfl
  | cons c cs ih =>
    simp only [trimSpaceB]
    split
    · rw [runes_trimRightB, runes_trimLeftU', trimR_eq]
    · rename_i hc
      have hc' : c < 0x80 := by omega
      have hr : runes (c :: cs) = c :: runes cs := by rw [runes_cons, decode1_ascii c cs hc']
      split
      · rename_i hsp
        rw [ih, hr, trimR_eq, trimR_eq, List.dropWhile_cons, isSpaceRune_ascii c hc', hsp]
        rfl
      · rename_i hsp
        rw [runes_tsRight, List.reverse_reverse, hr, trimR_eq, List.dropWhile_cons, isSpaceRune_ascii c hc']
        simp only [hsp, Bool.false_eq_true, ↓reduceIte]

/-! ### the parser -/

theorem runes_small' (x : Bytes) (h : ∀ r ∈ runes x, r < 0x80) : runes x = x := runes_small x.length x (Nat.le_refl _) h

/-- a string that passes `checkMediaTypeDisposition`, or whose rune sequence does, is its own rune sequence -/
theorem runes_of_checkType (x : Bytes) (h : checkType x = true ∨ checkType (runes x) = true) : runes x = x := by
  rcases h with h | h
  · exact runes_ascii x (fun b hb => by have := checkType_lt x h b hb; omega)
  · exact runes_small' x (fun r hr => by have := checkType_lt _ h r hr; omega)

theorem runes_eq_semi (x : Bytes) : runes x = [0x3B] ↔ x = [0x3B] := by
  constructor
  · intro h
    have := runes_small' x (by rw [h]; intro r hr; simp at hr; omega)
    rw [← this, h]
  · intro h; subst h; rfl

/-- `strings.TrimSpace(rest) == ";"`: byte level = rune level -/
theorem semiOnlyB_eq (rest : Bytes) : semiOnlyB rest = semiOnlyU rest := by
  unfold semiOnlyB semiOnlyU
  rw [← runes_trimSpaceB]
  rw [Bool.eq_iff_iff]
  simp only [beq_iff_eq]
  exact (runes_eq_semi _).symm

/-- the parameter loop does not tell the two tests for a trailing `;` apart -/
theorem parseParamsB_eq (f : Nat) (v : Bytes) (acc : List (Bytes × Bytes)) :
    parseParamsU semiOnlyB f v acc = parseParamsU semiOnlyU f v acc := by
  have : semiOnlyB = semiOnlyU := funext semiOnlyB_eq
  rw [this]

/-- `strings.TrimSpace(strings.ToLower(base))`, read back as runes, is the normalised type of the rune model -/
theorem runes_typeB (base : Bytes) : runes (trimSpaceB (lowerB base)) = trimR ((runes base).map lowerRune) := by
  rw [runes_trimSpaceB, runes_lowerB]

/-- … and the two agree as byte strings as soon as either passes `checkMediaTypeDisposition` -/
theorem typeB_eq (base : Bytes)
    (h : checkType (trimSpaceB (lowerB base)) = true ∨ checkType (trimR ((runes base).map lowerRune)) = true) :
    trimSpaceB (lowerB base) = trimR ((runes base).map lowerRune) := by
  rw [← runes_typeB] at h ⊢
  exact (runes_of_checkType _ h).symm

/-- **the byte-level transcription of `mime.ParseMediaType` is the rune-level model** -/
theorem parseB_eq_parseU (v : Bytes) : parseB v = parseU v := by
  unfold parseB parseU
  simp only [parseParamsB_eq]
  cases hB : checkType (trimSpaceB (lowerB (cutSemi v).1)) with
  | true =>
    rw [← typeB_eq _ (Or.inl hB), hB]
  | false =>
    cases hU : checkType (trimR ((runes (cutSemi v).1).map lowerRune)) with
    | true =>
      rw [typeB_eq _ (Or.inr hU), hU] at hB
      cases hB
    | false => rfl

theorem typeOfB_eq_typeOfU (v : Bytes) : typeOfB v = typeOfU v := by
  unfold typeOfB typeOfU; rw [parseB_eq_parseU]

theorem errB_eq_errU (v : Bytes) : errB v = errU v := by
  unfold errB errU; rw [parseB_eq_parseU]

/-! ### backward decoding against forward decoding, stated on its own

  Backward (`DecodeLastRuneInString`) and forward (`range`) decoding of INVALID UTF-8 can cut a string
  differently, so "`decodeLast` walks `runes s` in reverse" is not the statement.  What holds, and what
  `TrimRightFunc` needs, is that the two agree on white space: the last rune seen from the back is a
  white-space rune `r` iff the last rune of the forward decoding is, and then both have consumed exactly the
  bytes `encodeRune r`. -/

theorem runes_encode_space (r : Nat) (h : isSpaceRune r = true) : runes (encodeRune r) = [r] := by
  obtain ⟨r0, more, _, _, _, g4⟩ := decodeLast_spaceEnc _ (encode_space r h) []
  have hv : ValidRune r := by
    unfold isSpaceRune at h
    simp only [Bool.or_eq_true, Bool.and_eq_true, beq_iff_eq, decide_eq_true_eq] at h
    left; omega
  have := runes_encode [r] (by intro x hx; simp at hx; subst hx; exact hv) []
  simpa [runes_nil] using this

/-- backward ⇒ forward -/
theorem decodeLast_space_fwd (r0 : Nat) (more : Bytes) (h : isSpaceRune (decodeLast r0 more).1 = true) :
    (r0 :: more).reverse = (decodeLast r0 more).2.reverse ++ encodeRune (decodeLast r0 more).1 ∧
    runes (r0 :: more).reverse = runes (decodeLast r0 more).2.reverse ++ [(decodeLast r0 more).1] := by
  obtain ⟨b0, t, he, hd2, hd1⟩ := decodeLast_spec r0 more
  have hne : (decode1 b0 t).1 ≠ 0xFFFD := by
    intro e; rw [hd1, e] at h; revert h; decide
  have henc := decode1_encode_all b0 t hd2 hne
  rw [← hd1] at henc
  have hrev : (r0 :: more).reverse = (decodeLast r0 more).2.reverse ++ encodeRune (decodeLast r0 more).1 := by
    rw [← henc]
    generalize (decodeLast r0 more).2 = d2 at he
    rw [he]; simp
  refine ⟨hrev, ?_⟩
  rw [hrev, runes_append' _ _ (WS.single (encode_space _ h)).startOK, runes_encode_space _ h]

/-- forward ⇒ backward -/
theorem decodeLast_space_bwd (p : Bytes) (rs : List Nat) (r : Nat) (h : runes p = rs ++ [r]) (hr : isSpaceRune r = true) :
    ∃ r0 more, p.reverse = r0 :: more ∧ (decodeLast r0 more).1 = r ∧ p = (decodeLast r0 more).2.reverse ++ encodeRune r := by
  have hne : r ≠ 0xFFFD := by intro e; rw [e] at hr; revert hr; decide
  obtain ⟨p', hp'⟩ := runes_last_enc _ p (Nat.le_refl _) rs r h hne
  obtain ⟨r0, more, g1, g2, _, g4⟩ := decodeLast_spaceEnc _ (encode_space r hr) p'.reverse
  refine ⟨r0, more, by rw [hp', List.reverse_append, g1], ?_, by rw [g2, List.reverse_reverse]; exact hp'⟩
  rw [runes_encode_space r hr] at g4
  simp only [List.cons.injEq, and_true] at g4
  exact g4.symm

/-! ### byte-level form: what `TrimSpace` cuts off, and the result as an encoded rune sequence -/

theorem WS_valid {w : Bytes} (h : WS w) : (runes w).flatMap encodeRune = w := by
  induction h with
  | nil => rfl
  | @cons e w he hw ih =>
    have hst := hw.startOK
    obtain ⟨r0, more, _, _, g3, g4⟩ := decodeLast_spaceEnc e he []
    generalize (decodeLast r0 more).1 = r at g3 g4
    have hne : r ≠ 0xFFFD := by intro e; rw [e] at g3; revert g3; decide
    have hee : e = encodeRune r := by
      obtain ⟨q, hq⟩ := runes_last_enc _ e (Nat.le_refl _) [] r g4 hne
      have hl : (runes e).length = (runes (q ++ encodeRune r)).length := by rw [← hq]
      rw [runes_append' _ _ (WS.single (encode_space r g3)).startOK, runes_encode_space r g3, g4] at hl
      simp only [List.length_cons, List.length_nil, List.length_append] at hl
      have : q = [] := runes_eq_nil q (List.eq_nil_of_length_eq_zero (by omega))
      rw [hq, this, List.nil_append]
    rw [runes_append' e w hst, g4, List.cons_append, List.nil_append, List.flatMap_cons, ih, ← hee]

theorem trimLeftU_spec : ∀ (n : Nat) (s : Bytes), s.length ≤ n → ∃ a, WS a ∧ s = a ++ trimLeftU s := by
  intro n
  induction n with
  | zero =>
    intro s hs
    cases s with
    | nil => exact ⟨[], WS.nil, rfl⟩
    | cons _ _ => simp at hs
  | succ n ih =>
    intro s hs
    cases s with
    | nil => exact ⟨[], WS.nil, rfl⟩
    | cons b0 t =>
      rw [trimLeftU_cons]
      have hl := decode1_len b0 t
      simp only [List.length_cons] at hs
      cases hd : decode1 b0 t with
      | mk r rest =>
        rw [hd] at hl
        simp only at hl ⊢
        split
        · rename_i hsp
          have hne : r ≠ 0xFFFD := by intro e; rw [e] at hsp; revert hsp; decide
          obtain ⟨a, ha, e⟩ := ih rest (by omega)
          refine ⟨encodeRune r ++ a, WS.cons (encode_space r hsp) ha, ?_⟩
          rw [decode1_encode b0 t r rest hd hne, List.append_assoc, ← e]
        · exact ⟨[], WS.nil, rfl⟩

theorem isSp_spaceEnc (c : Nat) (h : isSp c = true) : [c] ∈ spaceEncodings := by
  have h80 : c < 0x80 := by
    simp only [isSp, Bool.or_eq_true, beq_iff_eq] at h; omega
  have := encode_space c (by rw [isSpaceRune_ascii c h80]; exact h)
  simpa [encodeRune, h80] using this

theorem tsRight_spec : ∀ (l : Bytes), ∃ w, WS w ∧ l.reverse = tsRight l ++ w := by
  intro l
  induction l with
  | nil => exact ⟨[], WS.nil, rfl⟩
  | cons c cs ih =>
    simp only [tsRight]
    split
    · obtain ⟨w, hw, e, _⟩ := trimRightB_spec (c :: cs).reverse
      exact ⟨w, hw, e⟩
    · split
      · rename_i hsp
        obtain ⟨w, hw, e⟩ := ih
        exact ⟨w ++ [c], hw.append (WS.single (isSp_spaceEnc c hsp)), by rw [List.reverse_cons, e, List.append_assoc]⟩
      · exact ⟨[], WS.nil, by simp⟩

/-- `strings.TrimSpace` returns a substring; what it cuts off on either side is a run of white-space encodings -/
theorem trimSpaceB_spec : ∀ (s : Bytes), ∃ a w, WS a ∧ WS w ∧ s = a ++ trimSpaceB s ++ w := by
  intro s
  induction s with
  | nil => exact ⟨[], [], WS.nil, WS.nil, rfl⟩
  | cons c cs ih =>
    simp only [trimSpaceB]
    split
    · obtain ⟨a, ha, e1⟩ := trimLeftU_spec _ (c :: cs) (Nat.le_refl _)
      obtain ⟨w, hw, e2, _⟩ := trimRightB_spec (trimLeftU (c :: cs))
      exact ⟨a, w, ha, hw, by rw [List.append_assoc, ← e2, ← e1]⟩
    · split
      · rename_i hsp
        obtain ⟨a, w, ha, hw, e⟩ := ih
        refine ⟨[c] ++ a, w, WS.cons (isSp_spaceEnc c hsp) ha, hw, ?_⟩
        simp only [List.cons_append, List.nil_append, List.cons.injEq, true_and]
        exact e
      · obtain ⟨w, hw, e⟩ := tsRight_spec (c :: cs).reverse
        rw [List.reverse_reverse] at e
        exact ⟨[], w, WS.nil, hw, by rw [List.nil_append]; exact e⟩

/-- a run of white space can be split off in front of ANY string without changing how the rest decodes -/
theorem WS_runes_append {a : Bytes} (h : WS a) (x : Bytes) : runes (a ++ x) = runes a ++ runes x := by
  induction h with
  | nil => rfl
  | @cons e w he hw ih =>
    obtain ⟨b0, t, rfl, _, _, _, hd, _⟩ := spaceEnc_decode e he
    have h1 := hd (w ++ x)
    have h2 := hd w
    simp only [List.cons_append, List.append_assoc, runes_cons, h1, h2, ih]

/-- on valid UTF-8 (a string that is the encoding of its rune sequence) `TrimSpace` is the encoding of the
    trimmed rune sequence -/
theorem trimSpaceB_valid (s : Bytes) (hv : (runes s).flatMap encodeRune = s) :
    trimSpaceB s = (trimR (runes s)).flatMap encodeRune := by
  obtain ⟨a, w, ha, hw, e⟩ := trimSpaceB_spec s
  rw [← runes_trimSpaceB]
  generalize trimSpaceB s = m at e ⊢
  have hr : runes s = runes a ++ runes m ++ runes w := by
    rw [e, List.append_assoc, WS_runes_append ha, runes_append' m w hw.startOK, List.append_assoc]
  rw [hr, List.flatMap_append, List.flatMap_append, WS_valid ha, WS_valid hw] at hv
  rw [e] at hv
  exact (List.append_cancel_left (List.append_cancel_right hv)).symm

theorem lowerB_valid (s : Bytes) : (runes (lowerB s)).flatMap encodeRune = lowerB s := by
  rw [runes_lowerB, List.flatMap_map]; rfl

/-- `strings.TrimSpace(strings.ToLower(base))` is the UTF-8 encoding of the normalised type of the rune model -/
theorem typeB_encode (base : Bytes) :
    trimSpaceB (lowerB base) = (trimR ((runes base).map lowerRune)).flatMap encodeRune := by
  rw [trimSpaceB_valid _ (lowerB_valid base), runes_lowerB]

end Mime.MTU
