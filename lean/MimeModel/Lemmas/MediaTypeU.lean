import MimeModel.Model.MediaTypeU
import MimeModel.Lemmas.MediaType
/-
  Lemmas about the Unicode-aware model of `mime.ParseMediaType` (`Mime.MTU`):
  fuel irrelevance, the ASCII restriction (`typeOfU = MT.typeOf`), decoding across an append,
  Unicode white space, U+212A / U+0130, other non-ASCII runes.
-/
namespace Mime.MTU
open Mime Mime.MT

theorem decode1_suffix (b0 : Nat) (t : Bytes) : (decode1 b0 t).2 <:+ t := by
  unfold decode1
  repeat' split
  all_goals first
    | exact List.suffix_refl _
    | exact List.suffix_cons _ _
    | exact (List.suffix_cons _ _).trans (List.suffix_cons _ _)
    | exact ((List.suffix_cons _ _).trans (List.suffix_cons _ _)).trans (List.suffix_cons _ _)

theorem decode1_len (b0 : Nat) (t : Bytes) : (decode1 b0 t).2.length ≤ t.length :=
  (decode1_suffix b0 t).length_le

theorem decode1_ascii (b0 : Nat) (t : Bytes) (h : b0 < 0x80) : decode1 b0 t = (b0, t) := by
  simp [decode1, h]

theorem runesF_fuel : ∀ (f : Nat) (s : Bytes), s.length ≤ f → runesF f s = runesF s.length s := by
  intro f
  induction f using Nat.strongRecOn with
  | _ f ih =>
    intro s hs
    cases s with
    | nil => cases f <;> rfl
    | cons b0 t =>
      cases f with
      | zero => simp at hs
      | succ f =>
        simp only [List.length_cons, runesF]
        have hl := decode1_len b0 t
        simp only [List.length_cons] at hs
        rw [ih f (Nat.lt_succ_self f) _ (by omega), ih t.length (by omega) _ hl]

theorem runes_nil : runes [] = [] := rfl

theorem runes_cons (b0 : Nat) (t : Bytes) : runes (b0 :: t) = (decode1 b0 t).1 :: runes (decode1 b0 t).2 := by
  unfold runes
  simp only [List.length_cons, runesF]
  rw [runesF_fuel _ _ (decode1_len b0 t)]


theorem trimLeftF_fuel : ∀ (f : Nat) (s : Bytes), s.length ≤ f → trimLeftF f s = trimLeftF s.length s := by
  intro f
  induction f using Nat.strongRecOn with
  | _ f ih =>
    intro s hs
    cases s with
    | nil => cases f <;> rfl
    | cons b0 t =>
      cases f with
      | zero => simp at hs
      | succ f =>
        simp only [List.length_cons, trimLeftF]
        have hl := decode1_len b0 t
        simp only [List.length_cons] at hs
        rw [ih f (Nat.lt_succ_self f) _ (by omega), ih t.length (by omega) _ hl]

theorem trimLeftU_nil : trimLeftU [] = [] := rfl

theorem trimLeftU_cons (b0 : Nat) (t : Bytes) :
    trimLeftU (b0 :: t) = if isSpaceRune (decode1 b0 t).1 then trimLeftU (decode1 b0 t).2 else b0 :: t := by
  unfold trimLeftU
  simp only [List.length_cons, trimLeftF]
  rw [trimLeftF_fuel _ _ (decode1_len b0 t)]

theorem trimLeftU_suffix : ∀ (n : Nat) (s : Bytes), s.length ≤ n → trimLeftU s <:+ s := by
  intro n
  induction n with
  | zero => intro s hs; cases s with
    | nil => exact List.suffix_refl _
    | cons _ _ => simp at hs
  | succ n ih =>
    intro s hs
    cases s with
    | nil => exact List.suffix_refl _
    | cons b0 t =>
      rw [trimLeftU_cons]
      split
      · have hl := decode1_len b0 t
        simp only [List.length_cons] at hs
        exact ((ih _ (by omega)).trans (decode1_suffix b0 t)).trans (List.suffix_cons _ _)
      · exact List.suffix_refl _

theorem trimLeftU_suffix' (s : Bytes) : trimLeftU s <:+ s := trimLeftU_suffix s.length s (Nat.le_refl _)

/-- the result of `TrimLeftFunc` is empty or starts with a rune that is not white space -/
theorem trimLeftU_head : ∀ (n : Nat) (s : Bytes), s.length ≤ n → ∀ b0 t, trimLeftU s = b0 :: t → isSpaceRune (decode1 b0 t).1 = false := by
  intro n
  induction n with
  | zero => intro s hs b0 t h; cases s with
    | nil => simp [trimLeftU_nil] at h
    | cons _ _ => simp at hs
  | succ n ih =>
    intro s hs b0 t h
    cases s with
    | nil => simp [trimLeftU_nil] at h
    | cons c cs =>
      rw [trimLeftU_cons] at h
      split at h
      · have hl := decode1_len c cs
        simp only [List.length_cons] at hs
        exact ih _ (by omega) b0 t h
      · rename_i hns
        simp only [List.cons.injEq] at h
        obtain ⟨rfl, rfl⟩ := h
        simpa using hns

/-! ### ASCII -/

def Asc (v : Bytes) : Prop := ∀ b ∈ v, b < 0x80

theorem Asc.suffix {a b : Bytes} (h : Asc b) (hs : a <:+ b) : Asc a := fun x hx => h x (hs.subset hx)
theorem Asc.tail {c : Nat} {cs : Bytes} (h : Asc (c :: cs)) : Asc cs := fun x hx => h x (List.mem_cons_of_mem _ hx)

theorem runes_ascii : ∀ (v : Bytes), Asc v → runes v = v := by
  intro v
  induction v with
  | nil => intro _; rfl
  | cons c cs ih =>
    intro h
    rw [runes_cons, decode1_ascii c cs (h c (List.mem_cons_self ..))]
    simp only
    rw [ih h.tail]

theorem isSpaceRune_ascii (c : Nat) (h : c < 0x80) : isSpaceRune c = isSp c := by
  unfold isSpaceRune isSp
  rw [Bool.eq_iff_iff]
  simp only [Bool.or_eq_true, Bool.and_eq_true, beq_iff_eq, decide_eq_true_eq]
  omega

theorem lowerRune_ascii (c : Nat) (h : c < 0x80) :
    lowerRune c = (if 0x41 ≤ c && c ≤ 0x5A then c + 0x20 else c) := by
  unfold lowerRune
  split
  · rfl
  · have h1 : (c == 0x212A) = false := by simp; omega
    have h2 : (c == 0x130) = false := by simp; omega
    simp [h1, h2]

theorem map_lowerRune_ascii (v : Bytes) (h : Asc v) : v.map lowerRune = lower v := by
  unfold lower
  apply List.map_congr_left
  intro c hc
  exact lowerRune_ascii c (h c hc)

theorem lower_asc (v : Bytes) (h : Asc v) : Asc (lower v) := by
  intro b hb
  simp only [lower, List.mem_map] at hb
  obtain ⟨c, hc, rfl⟩ := hb
  have := h c hc
  split
  · rename_i hh; simp at hh; omega
  · exact this

theorem dropWhile_congr_mem {p q : Nat → Bool} : ∀ (l : List Nat), (∀ x ∈ l, p x = q x) → l.dropWhile p = l.dropWhile q := by
  intro l
  induction l with
  | nil => intro _; rfl
  | cons c cs ih =>
    intro h
    simp only [List.dropWhile_cons, h c (List.mem_cons_self ..)]
    rw [ih (fun x hx => h x (List.mem_cons_of_mem _ hx))]

theorem trimR_ascii (v : Bytes) (h : Asc v) : trimR v = trim v := by
  unfold trimR trim
  have e1 : v.dropWhile isSpaceRune = v.dropWhile isSp :=
    dropWhile_congr_mem v (fun x hx => isSpaceRune_ascii x (h x hx))
  rw [e1]
  have h2 : Asc (v.dropWhile isSp).reverse := by
    intro x hx
    exact h x ((List.dropWhile_suffix isSp).subset (List.mem_reverse.mp hx))
  rw [dropWhile_congr_mem _ (fun x hx => isSpaceRune_ascii x (h2 x hx))]

theorem trimLeftU_ascii : ∀ (v : Bytes), Asc v → trimLeftU v = trimLeft v := by
  intro v
  induction v with
  | nil => intro _; rfl
  | cons c cs ih =>
    intro h
    have hc := h c (List.mem_cons_self ..)
    rw [trimLeftU_cons, decode1_ascii c cs hc]
    simp only [trimLeft, List.dropWhile_cons, isSpaceRune_ascii c hc]
    split
    · exact ih h.tail
    · rfl

theorem semiOnlyU_ascii (v : Bytes) (h : Asc v) : semiOnlyU v = (trim v == [0x3B]) := by
  unfold semiOnlyU
  rw [runes_ascii v h, trimR_ascii v h]

/-! ### what is left over is a suffix -/

theorem consumeToken_suffix : ∀ (s : Bytes), (consumeToken s).2 <:+ s := by
  intro s
  induction s with
  | nil => exact List.suffix_refl _
  | cons c cs ih =>
    simp only [consumeToken]
    split
    · exact ih.trans (List.suffix_cons _ _)
    · exact List.suffix_refl _

theorem unquote_suffix : ∀ (n : Nat) (s acc x r : Bytes), s.length ≤ n → unquote s acc = some (x, r) → r <:+ s ∧ r.length < s.length := by
  intro n
  induction n with
  | zero =>
    intro s acc x r hs h
    cases s with
    | nil => simp [unquote] at h
    | cons _ _ => simp at hs
  | succ n ih =>
    intro s acc x r hs h
    cases s with
    | nil => simp [unquote] at h
    | cons c cs =>
      simp only [List.length_cons] at hs
      rw [unquote.eq_def] at h
      simp only at h
      split at h
      · simp only [Option.some.injEq, Prod.mk.injEq] at h
        obtain ⟨_, rfl⟩ := h
        exact ⟨List.suffix_cons _ _, by simp⟩
      · split at h
        · split at h
          · rename_i d ds
            split at h
            · have := ih ds _ x r (by simp only [List.length_cons] at hs ⊢; omega) h
              exact ⟨(this.1.trans (List.suffix_cons _ _)).trans (List.suffix_cons _ _), by simp only [List.length_cons]; omega⟩
            · have := ih (d :: ds) _ x r (by omega) h
              exact ⟨this.1.trans (List.suffix_cons _ _), by simp only [List.length_cons] at this ⊢; omega⟩
          · simp [unquote] at h
        · split at h
          · simp at h
          · have := ih cs _ x r (by omega) h
            exact ⟨this.1.trans (List.suffix_cons _ _), by simp only [List.length_cons]; omega⟩

theorem consumeValue_suffix (s x r : Bytes) (h : consumeValue s = some (x, r)) : r <:+ s := by
  unfold consumeValue at h
  split at h
  · simp at h
  · rename_i q
    exact ((unquote_suffix _ q [] x r (Nat.le_refl _) h).1).trans (List.suffix_cons _ _)
  · simp only at h
    split at h
    · simp at h
    · simp only [Option.some.injEq, Prod.mk.injEq] at h
      obtain ⟨_, rfl⟩ := h
      exact consumeToken_suffix _

theorem consumeParamU_suffix (v k val rest : Bytes) (h : consumeParamU v = some (k, val, rest)) :
    rest <:+ v ∧ rest.length < v.length := by
  unfold consumeParamU at h
  split at h
  · rename_i r hr
    have s1 : (0x3B :: r) <:+ v := hr ▸ trimLeftU_suffix' v
    simp only at h
    split at h
    · simp at h
    · split at h
      · rename_i r2 hr2
        have s2 := trimLeftU_suffix' r
        have s3 := consumeToken_suffix (trimLeftU r)
        have s4 : (0x3D :: r2) <:+ (consumeToken (trimLeftU r)).2 := hr2 ▸ trimLeftU_suffix' _
        have s5 := trimLeftU_suffix' r2
        split at h
        · rename_i val' r3 hv
          simp only [Option.some.injEq, Prod.mk.injEq] at h
          obtain ⟨_, _, rfl⟩ := h
          have s6 := consumeValue_suffix _ _ _ hv
          have sr : r3 <:+ r := (((s6.trans s5).trans (List.suffix_cons _ _)).trans s4).trans (s3.trans s2)
          exact ⟨(sr.trans (List.suffix_cons _ _)).trans s1, by
            have := sr.length_le
            have := s1.length_le
            simp only [List.length_cons] at this
            omega⟩
        · simp at h
      · simp at h
  · simp at h

theorem consumeParamU_ascii (v : Bytes) (h : Asc v) : consumeParamU v = consumeParam v := by
  unfold consumeParamU consumeParam
  rw [trimLeftU_ascii v h]
  have a1 : Asc (trimLeft v) := h.suffix (List.dropWhile_suffix _)
  generalize trimLeft v = w at a1
  split
  next r =>
    have ar : Asc r := a1.tail
    rw [trimLeftU_ascii r ar]
    have a2 : Asc (trimLeft r) := ar.suffix (List.dropWhile_suffix _)
    have a3 : Asc (consumeToken (trimLeft r)).2 := a2.suffix (consumeToken_suffix _)
    simp only
    rw [trimLeftU_ascii _ a3]
    have a4 : Asc (trimLeft (consumeToken (trimLeft r)).2) := a3.suffix (List.dropWhile_suffix _)
    generalize trimLeft (consumeToken (trimLeft r)).2 = w2 at a4
    split
    · rfl
    · split
      next r2 =>
        have ar2 : Asc r2 := a4.tail
        rw [trimLeftU_ascii r2 ar2]
        rfl
      next hno =>
        split
        next r2 => exact (hno r2 rfl).elim
        next => rfl
  next hno =>
    split
    next r => exact (hno r rfl).elim
    next => rfl

theorem parseParamsU_ascii : ∀ (f : Nat) (v : Bytes) (acc : List (Bytes × Bytes)), Asc v →
    parseParamsU semiOnlyU f v acc = (parseParams f v acc).1 := by
  intro f
  induction f with
  | zero => intro v acc _; rfl
  | succ f ih =>
    intro v acc h
    simp only [parseParamsU, parseParams]
    rw [trimLeftU_ascii v h]
    have a1 : Asc (trimLeft v) := h.suffix (List.dropWhile_suffix _)
    rw [consumeParamU_ascii _ a1, semiOnlyU_ascii _ a1]
    split
    · rfl
    · cases hc : consumeParam (trimLeft v) with
      | none =>
        simp only
        split <;> rfl
      | some q =>
        obtain ⟨k, val, rest⟩ := q
        simp only
        split
        · rfl
        · have hs := consumeParamU_suffix (trimLeft v) k val rest (by rw [consumeParamU_ascii _ a1]; exact hc)
          exact ih rest _ (a1.suffix hs.1)

theorem cutSemi_append : ∀ (v : Bytes), (cutSemi v).1 ++ (cutSemi v).2 = v := by
  intro v
  induction v with
  | nil => rfl
  | cons c cs ih =>
    simp only [cutSemi]
    split
    · rfl
    · simp only [List.cons_append, ih]

theorem cutSemi_fst_no_semi : ∀ (v : Bytes), ∀ c ∈ (cutSemi v).1, c ≠ 0x3B := by
  intro v
  induction v with
  | nil => intro c hc; simp [cutSemi] at hc
  | cons x xs ih =>
    intro c hc
    simp only [cutSemi] at hc
    split at hc
    · simp at hc
    · rename_i hx
      simp only [List.mem_cons] at hc
      rcases hc with rfl | hc
      · simpa using hx
      · exact ih c hc

/-- the parser restricted to ASCII input is the old model -/
theorem parseU_ascii (v : Bytes) (h : Asc v) : parseU v = ((parse v).1, (parse v).2.2) := by
  have hb : Asc (cutSemi v).1 := fun b hb => h b (by rw [← cutSemi_append v]; exact List.mem_append_left _ hb)
  have hr : Asc (cutSemi v).2 := fun b hb => h b (by rw [← cutSemi_append v]; exact List.mem_append_right _ hb)
  unfold parseU parse
  simp only
  rw [runes_ascii _ hb, map_lowerRune_ascii _ hb, trimR_ascii _ (lower_asc _ hb), parseParamsU_ascii _ _ _ hr]
  split
  · rfl
  · generalize parseParams (v.length + 1) (cutSemi v).2 [] = pp
    obtain ⟨e, ps⟩ := pp
    cases e <;> rfl

/-! ### decoding across an append

  UTF-8 is self-synchronising: a string can be cut in front of any byte that is not a
  continuation byte without changing how either part decodes. -/

/-- `b` is empty or starts with a byte that is not a continuation byte -/
def StartOK (b : Bytes) : Prop := ∀ c ∈ b.head?, isCont c = false

theorem acc3_cont (b0 c : Nat) (h : isCont c = false) : (decide (lo3 b0 ≤ c) && decide (c ≤ hi3 b0)) = false := by
  unfold isCont at h
  unfold lo3 hi3
  rw [Bool.eq_false_iff] at h ⊢
  intro hh
  apply h
  simp only [Bool.and_eq_true, decide_eq_true_eq] at hh ⊢
  split at hh <;> split at hh <;> omega

theorem acc4_cont (b0 c : Nat) (h : isCont c = false) : (decide (lo4 b0 ≤ c) && decide (c ≤ hi4 b0)) = false := by
  unfold isCont at h
  unfold lo4 hi4
  rw [Bool.eq_false_iff] at h ⊢
  intro hh
  apply h
  simp only [Bool.and_eq_true, decide_eq_true_eq] at hh ⊢
  split at hh <;> split at hh <;> omega

theorem decode1_append (b0 : Nat) (t b : Bytes) (hb : StartOK b) :
    decode1 b0 (t ++ b) = ((decode1 b0 t).1, (decode1 b0 t).2 ++ b) := by
  have hc : ∀ c b', b = c :: b' → isCont c = false := fun c b' e => hb c (by simp [e])
  unfold decode1
  split
  · rfl
  · split
    · -- two bytes
      cases t with
      | nil =>
        cases b with
        | nil => rfl
        | cons c b' => simp [hc c b' rfl]
      | cons b1 t1 =>
        simp only [List.cons_append]
        split <;> rfl
    · split
      · -- three bytes
        rcases t with _ | ⟨b1, _ | ⟨b2, t2⟩⟩
        · rcases b with _ | ⟨c, _ | ⟨c2, b'⟩⟩
          · rfl
          · rfl
          · simp [acc3_cont b0 c (hc c _ rfl)]
        · rcases b with _ | ⟨c, b'⟩
          · rfl
          · simp [hc c b' rfl]
        · simp only [List.cons_append]
          split <;> rfl
      · split
        · -- four bytes
          rcases t with _ | ⟨b1, _ | ⟨b2, _ | ⟨b3, t3⟩⟩⟩
          · rcases b with _ | ⟨c, _ | ⟨c2, _ | ⟨c3, b'⟩⟩⟩
            · rfl
            · rfl
            · rfl
            · simp [acc4_cont b0 c (hc c _ rfl)]
          · rcases b with _ | ⟨c, _ | ⟨c2, b'⟩⟩
            · rfl
            · rfl
            · simp [hc c _ rfl]
          · rcases b with _ | ⟨c, b'⟩
            · rfl
            · simp [hc c _ rfl]
          · simp only [List.cons_append]
            split <;> rfl
        · rfl

theorem runes_append : ∀ (n : Nat) (a : Bytes), a.length ≤ n → ∀ b, StartOK b → runes (a ++ b) = runes a ++ runes b := by
  intro n
  induction n with
  | zero =>
    intro a ha b _
    cases a with
    | nil => rfl
    | cons _ _ => simp at ha
  | succ n ih =>
    intro a ha b hb
    cases a with
    | nil => rfl
    | cons b0 t =>
      simp only [List.cons_append, runes_cons, decode1_append b0 t b hb]
      have hl := decode1_len b0 t
      simp only [List.length_cons] at ha
      rw [ih _ (by omega) b hb]

theorem runes_append' (a b : Bytes) (hb : StartOK b) : runes (a ++ b) = runes a ++ runes b :=
  runes_append a.length a (Nat.le_refl _) b hb

/-! ### Unicode white space -/

/-- the UTF-8 encodings of the 25 runes `unicode.IsSpace` accepts:
    U+0009..U+000D, U+0020, U+0085, U+00A0, U+1680, U+2000..U+200A, U+2028, U+2029, U+202F, U+205F, U+3000 -/
def spaceEncodings : List Bytes :=
  [[0x09], [0x0A], [0x0B], [0x0C], [0x0D], [0x20], [0xC2, 0x85], [0xC2, 0xA0], [0xE1, 0x9A, 0x80],
   [0xE2, 0x80, 0x80], [0xE2, 0x80, 0x81], [0xE2, 0x80, 0x82], [0xE2, 0x80, 0x83], [0xE2, 0x80, 0x84], [0xE2, 0x80, 0x85],
   [0xE2, 0x80, 0x86], [0xE2, 0x80, 0x87], [0xE2, 0x80, 0x88], [0xE2, 0x80, 0x89], [0xE2, 0x80, 0x8A],
   [0xE2, 0x80, 0xA8], [0xE2, 0x80, 0xA9], [0xE2, 0x80, 0xAF], [0xE2, 0x81, 0x9F], [0xE3, 0x80, 0x80]]

/-- a (possibly empty) run of white space: a concatenation of `spaceEncodings` -/
inductive WS : Bytes → Prop
  | nil : WS []
  | cons {e w : Bytes} : e ∈ spaceEncodings → WS w → WS (e ++ w)

theorem spaceEnc_decode (e : Bytes) (he : e ∈ spaceEncodings) :
    ∃ b0 t, e = b0 :: t ∧ isCont b0 = false ∧ b0 ≠ 0x3B ∧ (∀ c ∈ t, c ≠ 0x3B) ∧
      (∀ s, decode1 b0 (t ++ s) = ((decode1 b0 t).1, s)) ∧ isSpaceRune (decode1 b0 t).1 = true := by
  simp only [spaceEncodings, List.mem_cons, List.not_mem_nil, or_false] at he
  rcases he with rfl | rfl | rfl | rfl | rfl | rfl | rfl | rfl | rfl | rfl | rfl | rfl | rfl | rfl | rfl | rfl | rfl | rfl |
    rfl | rfl | rfl | rfl | rfl | rfl | rfl
  all_goals
    refine ⟨_, _, rfl, by decide, by decide, by decide, fun s => ?_, by decide⟩
    simp [decode1, isCont, lo3, hi3]

theorem lowerRune_space (r : Nat) (h : isSpaceRune r = true) : lowerRune r = r := by
  unfold isSpaceRune at h
  simp only [Bool.or_eq_true, Bool.and_eq_true, beq_iff_eq, decide_eq_true_eq] at h
  unfold lowerRune
  have h1 : (decide (0x41 ≤ r) && decide (r ≤ 0x5A)) = false := by
    rw [Bool.eq_false_iff]; simp only [Bool.and_eq_true, decide_eq_true_eq, ne_eq]; omega
  have h2 : (r == 0x212A) = false := by simp; omega
  have h3 : (r == 0x130) = false := by simp; omega
  simp [h1, h2, h3]

theorem WS.startOK {w : Bytes} (h : WS w) : StartOK w := by
  cases h with
  | nil => intro c hc; simp at hc
  | cons he _ =>
    obtain ⟨b0, t, rfl, hb0, _⟩ := spaceEnc_decode _ he
    intro c hc
    simp at hc
    subst hc
    exact hb0

theorem WS.no_semi {w : Bytes} (h : WS w) : ∀ c ∈ w, c ≠ 0x3B := by
  induction h with
  | nil => intro c hc; simp at hc
  | cons he _ ih =>
    obtain ⟨b0, t, rfl, _, h1, h2, _⟩ := spaceEnc_decode _ he
    intro c hc
    simp only [List.cons_append, List.mem_cons, List.mem_append] at hc
    rcases hc with rfl | hc | hc
    · exact h1
    · exact h2 c hc
    · exact ih c hc

/-- a run of white space decodes, whatever follows, to white-space runes -/
theorem WS.runes {w : Bytes} (h : WS w) (s : Bytes) :
    ∃ sp : List Nat, (∀ r ∈ sp, isSpaceRune r = true) ∧ runes (w ++ s) = sp ++ runes s := by
  induction h with
  | nil => exact ⟨[], by simp, rfl⟩
  | cons he _ ih =>
    obtain ⟨b0, t, rfl, _, _, _, hd, hsp⟩ := spaceEnc_decode _ he
    obtain ⟨sp, h1, h2⟩ := ih
    refine ⟨(decode1 b0 t).1 :: sp, ?_, ?_⟩
    · intro r hr
      simp only [List.mem_cons] at hr
      rcases hr with rfl | hr
      · exact hsp
      · exact h1 r hr
    · simp only [List.cons_append, List.append_assoc, runes_cons, hd, h2]

theorem WS.trimLeftU {w : Bytes} (h : WS w) (s : Bytes) : trimLeftU (w ++ s) = trimLeftU s := by
  induction h with
  | nil => rfl
  | cons he _ ih =>
    obtain ⟨b0, t, rfl, _, _, _, hd, hsp⟩ := spaceEnc_decode _ he
    simp only [List.cons_append, List.append_assoc, trimLeftU_cons, hd, hsp, ↓reduceIte, ih]

theorem map_lowerRune_space (sp : List Nat) (h : ∀ r ∈ sp, isSpaceRune r = true) : sp.map lowerRune = sp := by
  induction sp with
  | nil => rfl
  | cons r rs ih =>
    simp only [List.map_cons, lowerRune_space r (h r (List.mem_cons_self ..)),
      ih (fun x hx => h x (List.mem_cons_of_mem _ hx))]

/-- `TrimSpace` ignores white space on both sides -/
theorem trimR_pad (s1 m s2 : List Nat) (h1 : ∀ r ∈ s1, isSpaceRune r = true) (h2 : ∀ r ∈ s2, isSpaceRune r = true) :
    trimR (s1 ++ m ++ s2) = trimR m := by
  unfold trimR
  rw [List.append_assoc, List.dropWhile_append_of_pos h1, List.dropWhile_append]
  split
  · rename_i he
    have : m.dropWhile isSpaceRune = [] := by simpa using he
    rw [this]
    have : s2.dropWhile isSpaceRune = [] := by
      have := List.dropWhile_append_of_pos (l₂ := []) h2
      simpa using this
    rw [this]
  · rw [List.reverse_append, List.dropWhile_append_of_pos (fun c hc => h2 c (List.mem_reverse.mp hc))]

/-! ### fuel -/

theorem parseParamsU_fuel (so : Bytes → Bool) : ∀ (f : Nat) (v : Bytes) (acc : List (Bytes × Bytes)), v.length < f →
    parseParamsU so f v acc = parseParamsU so (v.length + 1) v acc := by
  intro f
  induction f using Nat.strongRecOn with
  | _ f ih =>
    intro v acc hv
    cases f with
    | zero => omega
    | succ f =>
      simp only [parseParamsU]
      split
      · rfl
      · cases hc : consumeParamU (trimLeftU v) with
        | none => rfl
        | some q =>
          obtain ⟨k, val, rest⟩ := q
          simp only
          split
          · rfl
          · have hs := consumeParamU_suffix _ _ _ _ hc
            have hl := (trimLeftU_suffix' v).length_le
            rw [ih f (Nat.lt_succ_self f) rest _ (by omega)]
            by_cases hvl : v.length = rest.length + 1
            · rw [hvl]
            · rw [ih v.length hv rest _ (by omega)]

/-! ### the parser in terms of the two halves of its input -/

/-- what `ParseMediaType` does once the input is cut at the first `;` and the type is normalised -/
def parseCore (mt rest : Bytes) : Bytes × PErr :=
  if !checkType mt then ([], .noType) else
  match parseParamsU semiOnlyU (rest.length + 1) rest [] with
  | .invalidParam => (mt, .invalidParam)
  | .duplicate => ([], .duplicate)
  | _ => (mt, .none)

/-- the normalised type: `strings.TrimSpace(strings.ToLower(base))` as a rune sequence -/
def normType (base : Bytes) : Bytes := trimR ((runes base).map lowerRune)

theorem parseU_eq (v : Bytes) : parseU v = parseCore (normType (cutSemi v).1) (cutSemi v).2 := by
  unfold parseU parseCore normType
  simp only
  have hl : (cutSemi v).2.length ≤ v.length := by
    have := congrArg List.length (cutSemi_append v)
    simp only [List.length_append] at this
    omega
  rw [parseParamsU_fuel semiOnlyU (v.length + 1) _ _ (by omega)]
  split
  · rfl
  · generalize parseParamsU semiOnlyU _ _ _ = e
    cases e <;> rfl

theorem startOK_cons (c : Nat) (cs : Bytes) (h : isCont c = false) : StartOK (c :: cs) := by
  intro x hx
  simp at hx; subst hx; exact h

theorem cutSemi_app2 : ∀ (a b : Bytes), (∀ c ∈ a, c ≠ 0x3B) → cutSemi (a ++ b) = (a ++ (cutSemi b).1, (cutSemi b).2) := by
  intro a
  induction a with
  | nil => intro b _; rfl
  | cons c cs ih =>
    intro b ha
    have hc : (c == 0x3B) = false := by simpa using ha c (List.mem_cons_self ..)
    simp only [List.cons_append, cutSemi, hc, Bool.false_eq_true, ↓reduceIte,
      ih b (fun x hx => ha x (List.mem_cons_of_mem _ hx))]

theorem cutSemi_rest (rest : Bytes) (h : rest = [] ∨ ∃ r, rest = 0x3B :: r) : cutSemi rest = ([], rest) := by
  rcases h with rfl | ⟨r, rfl⟩
  · rfl
  · simp [cutSemi]

theorem cutSemi_split (a rest : Bytes) (ha : ∀ c ∈ a, c ≠ 0x3B) (h : rest = [] ∨ ∃ r, rest = 0x3B :: r) :
    cutSemi (a ++ rest) = (a, rest) := by
  rw [cutSemi_app2 a rest ha, cutSemi_rest rest h, List.append_nil]

/-- Unicode white space around the type part is ignored -/
theorem normType_pad (w1 t w2 : Bytes) (h1 : WS w1) (h2 : WS w2) : normType (w1 ++ t ++ w2) = normType t := by
  unfold normType
  obtain ⟨sp1, hs1, e1⟩ := h1.runes (t ++ w2)
  obtain ⟨sp2, hs2, e2⟩ := h2.runes []
  rw [List.append_nil] at e2
  rw [List.append_assoc, e1, runes_append' t w2 h2.startOK, e2, runes_nil, List.append_nil]
  simp only [List.map_append, map_lowerRune_space sp1 hs1, map_lowerRune_space sp2 hs2]
  rw [← List.append_assoc]
  exact trimR_pad sp1 _ sp2 hs1 hs2

theorem parseU_trim_unicode (w1 t w2 rest : Bytes) (h1 : WS w1) (h2 : WS w2) (ht : ∀ c ∈ t, c ≠ 0x3B)
    (hrest : rest = [] ∨ ∃ r, rest = 0x3B :: r) : parseU (w1 ++ t ++ w2 ++ rest) = parseU (t ++ rest) := by
  have hb : ∀ c ∈ w1 ++ t ++ w2, c ≠ 0x3B := by
    intro c hc
    simp only [List.mem_append] at hc
    rcases hc with (hc | hc) | hc
    · exact h1.no_semi c hc
    · exact ht c hc
    · exact h2.no_semi c hc
  rw [parseU_eq, parseU_eq, cutSemi_split _ rest hb hrest, cutSemi_split t rest ht hrest]
  simp only [normType_pad w1 t w2 h1 h2]

/-- U+212A KELVIN SIGN in the type part counts as `k`, U+0130 as `i` -/
theorem normType_subst (a b x : Bytes) (y r : Nat) (hx : ∀ s, runes (x ++ s) = r :: runes s) (hs : StartOK x)
    (hy : isCont y = false) (hy2 : y < 0x80) (hl : lowerRune r = lowerRune y) :
    normType (a ++ x ++ b) = normType (a ++ [y] ++ b) := by
  unfold normType
  have s1 : StartOK (x ++ b) := by
    intro c hc
    cases x with
    | nil => have := hx []; simp [runes_nil] at this
    | cons x0 xs => exact hs c (by simpa using hc)
  have s2 : StartOK ([y] ++ b) := by
    intro c hc
    simp at hc; subst hc; exact hy
  rw [List.append_assoc, List.append_assoc, runes_append' a _ s1, runes_append' a _ s2, hx]
  simp only [List.singleton_append, runes_cons, decode1_ascii y b hy2, List.map_append, List.map_cons, hl]

theorem runes_kelvin (s : Bytes) : runes ([0xE2, 0x84, 0xAA] ++ s) = 0x212A :: runes s := by
  simp [runes_cons, decode1, isCont, lo3, hi3]

theorem runes_idot (s : Bytes) : runes ([0xC4, 0xB0] ++ s) = 0x130 :: runes s := by
  simp [runes_cons, decode1, isCont]

theorem parseU_subst (a b x : Bytes) (y r : Nat) (ha : ∀ c ∈ a, c ≠ 0x3B) (hxs : ∀ c ∈ x, c ≠ 0x3B) (hy3 : y ≠ 0x3B)
    (hx : ∀ s, runes (x ++ s) = r :: runes s) (hs : StartOK x)
    (hy : isCont y = false) (hy2 : y < 0x80) (hl : lowerRune r = lowerRune y) :
    parseU (a ++ x ++ b) = parseU (a ++ [y] ++ b) := by
  have h1 : ∀ c ∈ a ++ x, c ≠ 0x3B := by
    intro c hc
    rcases List.mem_append.mp hc with hc | hc
    · exact ha c hc
    · exact hxs c hc
  have h2 : ∀ c ∈ a ++ [y], c ≠ 0x3B := by
    intro c hc
    rcases List.mem_append.mp hc with hc | hc
    · exact ha c hc
    · simp at hc; subst hc; exact hy3
  rw [parseU_eq, parseU_eq, cutSemi_app2 _ b h1, cutSemi_app2 _ b h2]
  simp only [normType_subst a (cutSemi b).1 x y r hx hs hy hy2 hl]

theorem parseU_kelvin (a b : Bytes) (ha : ∀ c ∈ a, c ≠ 0x3B) :
    parseU (a ++ [0xE2, 0x84, 0xAA] ++ b) = parseU (a ++ [0x6B] ++ b) :=
  parseU_subst a b _ 0x6B 0x212A ha (by decide) (by decide) runes_kelvin (startOK_cons _ _ (by decide)) (by decide) (by decide) (by decide)

theorem parseU_idot (a b : Bytes) (ha : ∀ c ∈ a, c ≠ 0x3B) :
    parseU (a ++ [0xC4, 0xB0] ++ b) = parseU (a ++ [0x69] ++ b) :=
  parseU_subst a b _ 0x69 0x130 ha (by decide) (by decide) runes_idot (startOK_cons _ _ (by decide)) (by decide) (by decide) (by decide)

/-! ### other non-ASCII runes -/

theorem consumeToken_spec : ∀ (s : Bytes), s = (consumeToken s).1 ++ (consumeToken s).2 ∧ ∀ c ∈ (consumeToken s).1, isTokenChar c = true := by
  intro s
  induction s with
  | nil => exact ⟨rfl, by simp [consumeToken]⟩
  | cons c cs ih =>
    simp only [consumeToken]
    split
    · rename_i hc
      refine ⟨by simp only [List.cons_append]; rw [← ih.1], ?_⟩
      intro x hx
      simp only [List.mem_cons] at hx
      rcases hx with rfl | hx
      · exact hc
      · exact ih.2 x hx
    · exact ⟨rfl, by simp⟩

theorem isTokenChar_lt (c : Nat) (h : isTokenChar c = true) : c < 0x7F := by
  simp only [isTokenChar, Bool.and_eq_true, decide_eq_true_eq] at h
  exact h.1.2

/-- a string that passes `checkMediaTypeDisposition` is pure ASCII -/
theorem checkType_lt (s : Bytes) (h : checkType s = true) : ∀ c ∈ s, c < 0x7F := by
  unfold checkType at h
  simp only at h
  obtain ⟨e1, t1⟩ := consumeToken_spec s
  split at h
  · simp at h
  · split at h
    · rename_i _ he
      have : (consumeToken s).2 = [] := by simpa using he
      rw [this, List.append_nil] at e1
      intro c hc
      rw [e1] at hc
      exact isTokenChar_lt c (t1 c hc)
    · split at h
      · rename_i r hr
        obtain ⟨e2, t2⟩ := consumeToken_spec r
        simp only [Bool.and_eq_true, Bool.not_eq_true', List.isEmpty_iff] at h
        rw [h.2, List.append_nil] at e2
        intro c hc
        rw [e1, hr] at hc
        simp only [List.mem_append, List.mem_cons] at hc
        rcases hc with hc | rfl | hc
        · exact isTokenChar_lt c (t1 c hc)
        · decide
        · rw [e2] at hc
          exact isTokenChar_lt c (t2 c hc)
      · simp at h

theorem mem_dropWhile_of_false {p : Nat → Bool} {x : Nat} : ∀ (l : List Nat), x ∈ l → p x = false → x ∈ l.dropWhile p := by
  intro l
  induction l with
  | nil => intro h; simp at h
  | cons c cs ih =>
    intro h hp
    simp only [List.dropWhile_cons]
    split
    · rename_i hc
      simp only [List.mem_cons] at h
      rcases h with rfl | h
      · rw [hp] at hc; cases hc
      · exact ih h hp
    · exact h

theorem mem_trimR {x : Nat} (l : List Nat) (h : x ∈ l) (hp : isSpaceRune x = false) : x ∈ trimR l := by
  unfold trimR
  rw [List.mem_reverse]
  apply mem_dropWhile_of_false _ _ hp
  rw [List.mem_reverse]
  exact mem_dropWhile_of_false _ h hp

/-- a rune `>= 0x80` in the type part that is not white space, U+212A or U+0130 (this includes
    U+FFFD, which every invalid byte decodes to) makes the normalised type fail the token check -/
theorem normType_bad (base : Bytes) (r : Nat) (hr : r ∈ runes base) (h80 : 0x80 ≤ r) (hk : r ≠ 0x212A) (hi : r ≠ 0x130)
    (hsp : isSpaceRune r = false) : checkType (normType base) = false := by
  rw [Bool.eq_false_iff]
  intro hc
  have hl : lowerRune r = r := by
    unfold lowerRune
    have h1 : (decide (0x41 ≤ r) && decide (r ≤ 0x5A)) = false := by
      rw [Bool.eq_false_iff]; simp only [Bool.and_eq_true, decide_eq_true_eq, ne_eq]; omega
    simp [h1, hk, hi]
  have hm : r ∈ (runes base).map lowerRune := List.mem_map.mpr ⟨r, hr, hl⟩
  have := checkType_lt _ hc r (mem_trimR _ hm hsp)
  omega

theorem parseU_nonascii_invalid (v : Bytes) (r : Nat) (hr : r ∈ runes (cutSemi v).1) (h80 : 0x80 ≤ r)
    (hk : r ≠ 0x212A) (hi : r ≠ 0x130) (hsp : isSpaceRune r = false) : parseU v = ([], .noType) := by
  rw [parseU_eq]
  unfold parseCore
  rw [normType_bad _ r hr h80 hk hi hsp]
  rfl

/-! ### decode / encode -/

/-- a successfully decoded rune re-encodes to the bytes it was decoded from -/
theorem decode1_encode (b0 : Nat) (t : Bytes) (r : Nat) (rest : Bytes) (hd : decode1 b0 t = (r, rest)) (h : r ≠ 0xFFFD) :
    b0 :: t = encodeRune r ++ rest := by
  unfold decode1 at hd
  split at hd
  · rename_i h0
    simp only [Prod.mk.injEq] at hd
    obtain ⟨rfl, rfl⟩ := hd
    simp [encodeRune, h0]
  · split at hd
    · rename_i h0 h1
      simp only [Bool.and_eq_true, decide_eq_true_eq] at h1
      split at hd
      · rename_i b1 t1
        split at hd
        · rename_i hc
          simp only [isCont, Bool.and_eq_true, decide_eq_true_eq] at hc
          simp only [Prod.mk.injEq] at hd
          obtain ⟨rfl, rfl⟩ := hd
          simp only [encodeRune]
          have e1 : ¬ ((b0 - 0xC0) * 64 + (b1 - 0x80) < 0x80) := by omega
          have e2 : (b0 - 0xC0) * 64 + (b1 - 0x80) < 0x800 := by omega
          simp only [e1, e2, ↓reduceIte, List.cons_append, List.nil_append, List.cons.injEq, and_true]
          omega
        · simp only [Prod.mk.injEq] at hd; exact absurd hd.1.symm h
      · simp only [Prod.mk.injEq] at hd; exact absurd hd.1.symm h
    · split at hd
      · rename_i h0 h1 h2
        simp only [Bool.and_eq_true, decide_eq_true_eq] at h2
        split at hd
        · rename_i b1 b2 t2
          split at hd
          · rename_i hc
            simp only [isCont, lo3, hi3, Bool.and_eq_true, decide_eq_true_eq] at hc
            simp only [Prod.mk.injEq] at hd
            obtain ⟨rfl, rfl⟩ := hd
            simp only [encodeRune]
            have hb1 : 0x80 ≤ b1 ∧ b1 ≤ 0xBF ∧ (b0 = 0xE0 → 0xA0 ≤ b1) ∧ (b0 = 0xED → b1 ≤ 0x9F) := by
              obtain ⟨⟨ha, hb⟩, _⟩ := hc
              split at ha <;> split at hb <;> simp_all <;> omega
            have e1 : ¬ (((b0 - 0xE0) * 64 + (b1 - 0x80)) * 64 + (b2 - 0x80) < 0x80) := by omega
            have e2 : ¬ (((b0 - 0xE0) * 64 + (b1 - 0x80)) * 64 + (b2 - 0x80) < 0x800) := by omega
            have e3 : ((b0 - 0xE0) * 64 + (b1 - 0x80)) * 64 + (b2 - 0x80) < 0x10000 := by omega
            have e4 : ¬ (0xD800 ≤ ((b0 - 0xE0) * 64 + (b1 - 0x80)) * 64 + (b2 - 0x80) ∧ ((b0 - 0xE0) * 64 + (b1 - 0x80)) * 64 + (b2 - 0x80) ≤ 0xDFFF) := by omega
            have e5 : ¬ (((b0 - 0xE0) * 64 + (b1 - 0x80)) * 64 + (b2 - 0x80) > 0x10FFFF) := by omega
            simp only [e1, e2, e3, e4, e5, ↓reduceIte, Bool.and_eq_true, decide_eq_true_eq, Bool.or_eq_true, or_self, List.cons_append, List.nil_append, List.cons.injEq, and_true]
            omega
          · simp only [Prod.mk.injEq] at hd; exact absurd hd.1.symm h
        · simp only [Prod.mk.injEq] at hd; exact absurd hd.1.symm h
      · split at hd
        · rename_i h0 h1 h2 h3
          simp only [Bool.and_eq_true, decide_eq_true_eq] at h3
          split at hd
          · rename_i b1 b2 b3 t3
            split at hd
            · rename_i hc
              simp only [isCont, lo4, hi4, Bool.and_eq_true, decide_eq_true_eq] at hc
              simp only [Prod.mk.injEq] at hd
              obtain ⟨rfl, rfl⟩ := hd
              simp only [encodeRune]
              have hb1 : 0x80 ≤ b1 ∧ b1 ≤ 0xBF ∧ (b0 = 0xF0 → 0x90 ≤ b1) ∧ (b0 = 0xF4 → b1 ≤ 0x8F) := by
                obtain ⟨⟨⟨ha, hb⟩, _⟩, _⟩ := hc
                split at ha <;> split at hb <;> simp_all <;> omega
              generalize hr : (((b0 - 0xF0) * 64 + (b1 - 0x80)) * 64 + (b2 - 0x80)) * 64 + (b3 - 0x80) = r
              have e1 : ¬ (r < 0x80) := by omega
              have e2 : ¬ (r < 0x800) := by omega
              have e3 : ¬ (r < 0x10000) := by omega
              have e4 : ¬ (0xD800 ≤ r ∧ r ≤ 0xDFFF) := by omega
              have e5 : ¬ (r > 0x10FFFF) := by omega
              simp only [e1, e2, e3, e4, e5, ↓reduceIte, Bool.and_eq_true, decide_eq_true_eq, Bool.or_eq_true, or_self, List.cons_append, List.nil_append, List.cons.injEq, and_true]
              omega
            · simp only [Prod.mk.injEq] at hd; exact absurd hd.1.symm h
          · simp only [Prod.mk.injEq] at hd; exact absurd hd.1.symm h
        · simp only [Prod.mk.injEq] at hd; exact absurd hd.1.symm h

theorem encode_space (r : Nat) (h : isSpaceRune r = true) : encodeRune r ∈ spaceEncodings := by
  unfold isSpaceRune at h
  simp only [Bool.or_eq_true, Bool.and_eq_true, beq_iff_eq, decide_eq_true_eq] at h
  have : r = 0x09 ∨ r = 0x0A ∨ r = 0x0B ∨ r = 0x0C ∨ r = 0x0D ∨ r = 0x20 ∨ r = 0x85 ∨ r = 0xA0 ∨ r = 0x1680 ∨
      r = 0x2000 ∨ r = 0x2001 ∨ r = 0x2002 ∨ r = 0x2003 ∨ r = 0x2004 ∨ r = 0x2005 ∨ r = 0x2006 ∨ r = 0x2007 ∨
      r = 0x2008 ∨ r = 0x2009 ∨ r = 0x200A ∨ r = 0x2028 ∨ r = 0x2029 ∨ r = 0x202F ∨ r = 0x205F ∨ r = 0x3000 := by omega
  rcases this with rfl | rfl | rfl | rfl | rfl | rfl | rfl | rfl | rfl | rfl | rfl | rfl | rfl | rfl | rfl | rfl | rfl | rfl |
    rfl | rfl | rfl | rfl | rfl | rfl | rfl <;> decide

/-- byte strings made of ASCII bytes, the encodings of U+212A and U+0130, and white-space encodings -/
inductive Clean : Bytes → Prop
  | nil : Clean []
  | ascii {c : Nat} {s : Bytes} : c < 0x80 → Clean s → Clean (c :: s)
  | kelvin {s : Bytes} : Clean s → Clean (0xE2 :: 0x84 :: 0xAA :: s)
  | idot {s : Bytes} : Clean s → Clean (0xC4 :: 0xB0 :: s)
  | space {e s : Bytes} : e ∈ spaceEncodings → Clean s → Clean (e ++ s)

theorem clean_of_runes : ∀ (n : Nat) (s : Bytes), s.length ≤ n →
    (∀ r ∈ runes s, r < 0x80 ∨ r = 0x212A ∨ r = 0x130 ∨ isSpaceRune r = true) → Clean s := by
  intro n
  induction n with
  | zero =>
    intro s hs _
    cases s with
    | nil => exact .nil
    | cons _ _ => simp at hs
  | succ n ih =>
    intro s hs h
    cases s with
    | nil => exact .nil
    | cons b0 t =>
      rw [runes_cons] at h
      have hl := decode1_len b0 t
      simp only [List.length_cons] at hs
      cases hd : decode1 b0 t with
      | mk r rest =>
        rw [hd] at h hl
        simp only at h hl
        have hrest : Clean rest := ih _ (by omega) (fun r hr => h r (List.mem_cons_of_mem _ hr))
        have hr := h _ (List.mem_cons_self ..)
        have hne : r ≠ 0xFFFD := by
          intro e
          rw [e] at hr
          revert hr
          decide
        rw [decode1_encode b0 t r rest hd hne]
        rcases hr with hr | hr | hr | hr
        · have : encodeRune r = [r] := by simp [encodeRune, hr]
          rw [this]
          exact .ascii hr hrest
        · rw [hr]; exact .kelvin hrest
        · rw [hr]; exact .idot hrest
        · exact .space (encode_space _ hr) hrest


/-- byte-level converse: when a media type comes back, the part in front of the first `;` consists
    of ASCII bytes, `E2 84 AA`, `C4 B0` and white-space encodings only -/
theorem parseU_clean (v : Bytes) (h : (parseU v).1 ≠ []) : Clean (cutSemi v).1 := by
  apply clean_of_runes _ _ (Nat.le_refl _)
  intro r hr
  by_cases h80 : r < 0x80
  · exact Or.inl h80
  · by_cases hk : r = 0x212A
    · exact Or.inr (Or.inl hk)
    · by_cases hi : r = 0x130
      · exact Or.inr (Or.inr (Or.inl hi))
      · cases hsp : isSpaceRune r with
        | true => exact Or.inr (Or.inr (Or.inr rfl))
        | false =>
          exfalso
          apply h
          rw [parseU_nonascii_invalid v r hr (by omega) hk hi hsp]

/-! ### encode / decode: the representation of `strings.ToLower`'s result by its rune sequence -/

/-- Unicode scalar value (`utf8.ValidRune`) -/
def ValidRune (r : Nat) : Prop := r < 0xD800 ∨ (0xE000 ≤ r ∧ r < 0x110000)

theorem band {p q : Prop} [Decidable p] [Decidable q] (hp : p) (hq : q) : (decide p && decide q) = true := by simp [hp, hq]
theorem bandf {p q : Prop} [Decidable p] [Decidable q] (h : ¬ (p ∧ q)) : (decide p && decide q) = false := by
  rw [Bool.eq_false_iff]; simpa using h

/-- decoding undoes encoding (`utf8.DecodeRune(utf8.AppendRune(nil, r)) = r` for scalar values) -/
theorem decode1_of_encode (r : Nat) (hv : ValidRune r) (s : Bytes) :
    ∃ b0 t, encodeRune r ++ s = b0 :: t ∧ decode1 b0 t = (r, s) := by
  unfold encodeRune
  split
  · rename_i h1
    exact ⟨r, s, rfl, decode1_ascii r s h1⟩
  · split
    · rename_i h1 h2
      refine ⟨0xC0 + r / 64, (0x80 + r % 64) :: s, rfl, ?_⟩
      unfold decode1
      have c1 : ¬ (0xC0 + r / 64 < 0x80) := by omega
      have c2 : (decide (0xC2 ≤ 0xC0 + r / 64) && decide (0xC0 + r / 64 ≤ 0xDF)) = true := band (by omega) (by omega)
      have c3 : isCont (0x80 + r % 64) = true := by unfold isCont; exact band (by omega) (by omega)
      simp only [c1, c2, c3, ↓reduceIte, Prod.mk.injEq, and_true]
      omega
    · rename_i h1 h2
      have hs : ((decide (0xD800 ≤ r) && decide (r ≤ 0xDFFF)) || decide (r > 0x10FFFF)) = false := by
        rw [Bool.eq_false_iff]
        simp only [Bool.or_eq_true, Bool.and_eq_true, decide_eq_true_eq, ne_eq]
        unfold ValidRune at hv
        omega
      simp only [hs, Bool.false_eq_true, ↓reduceIte]
      split
      · rename_i h3
        refine ⟨0xE0 + r / 4096, (0x80 + r / 64 % 64) :: (0x80 + r % 64) :: s, rfl, ?_⟩
        unfold decode1
        have c1 : ¬ (0xE0 + r / 4096 < 0x80) := by omega
        have c2 : (decide (0xC2 ≤ 0xE0 + r / 4096) && decide (0xE0 + r / 4096 ≤ 0xDF)) = false := bandf (by omega)
        have c3 : (decide (0xE0 ≤ 0xE0 + r / 4096) && decide (0xE0 + r / 4096 ≤ 0xEF)) = true := band (by omega) (by omega)
        have c4 : (decide (lo3 (0xE0 + r / 4096) ≤ 0x80 + r / 64 % 64) && decide (0x80 + r / 64 % 64 ≤ hi3 (0xE0 + r / 4096))) = true := by
          unfold ValidRune at hv
          unfold lo3 hi3
          apply band
          · split
            · rename_i e; simp at e; omega
            · omega
          · split
            · rename_i e; simp at e; omega
            · omega
        have c5 : isCont (0x80 + r % 64) = true := by unfold isCont; exact band (by omega) (by omega)
        simp only [c1, c2, c3, c4, c5, ↓reduceIte, Bool.false_eq_true, Bool.and_self, Prod.mk.injEq, and_true]
        omega
      · rename_i h3
        refine ⟨0xF0 + r / 262144, (0x80 + r / 4096 % 64) :: (0x80 + r / 64 % 64) :: (0x80 + r % 64) :: s, rfl, ?_⟩
        unfold decode1
        have hr : r < 0x110000 := by unfold ValidRune at hv; omega
        have c1 : ¬ (0xF0 + r / 262144 < 0x80) := by omega
        have c2 : (decide (0xC2 ≤ 0xF0 + r / 262144) && decide (0xF0 + r / 262144 ≤ 0xDF)) = false := bandf (by omega)
        have c3 : (decide (0xE0 ≤ 0xF0 + r / 262144) && decide (0xF0 + r / 262144 ≤ 0xEF)) = false := bandf (by omega)
        have c3' : (decide (0xF0 ≤ 0xF0 + r / 262144) && decide (0xF0 + r / 262144 ≤ 0xF4)) = true := band (by omega) (by omega)
        have c4 : (decide (lo4 (0xF0 + r / 262144) ≤ 0x80 + r / 4096 % 64) && decide (0x80 + r / 4096 % 64 ≤ hi4 (0xF0 + r / 262144))) = true := by
          unfold lo4 hi4
          apply band
          · split
            · rename_i e; simp at e; omega
            · omega
          · split
            · rename_i e; simp at e; omega
            · omega
        have c5 : isCont (0x80 + r / 64 % 64) = true := by unfold isCont; exact band (by omega) (by omega)
        have c6 : isCont (0x80 + r % 64) = true := by unfold isCont; exact band (by omega) (by omega)
        simp only [c1, c2, c3, c3', c4, c5, c6, ↓reduceIte, Bool.false_eq_true, Bool.and_self, Prod.mk.injEq, and_true]
        omega


/-- what `range` yields is a scalar value -/
theorem decode1_valid (b0 : Nat) (t : Bytes) : ValidRune (decode1 b0 t).1 := by
  unfold decode1 ValidRune
  split
  · left; simp only; omega
  · split
    · rename_i h0 h1
      simp only [Bool.and_eq_true, decide_eq_true_eq] at h1
      split
      · split
        · rename_i b1 t1 hc
          simp only [isCont, Bool.and_eq_true, decide_eq_true_eq] at hc
          left; simp only; omega
        · right; simp only; omega
      · right; simp only; omega
    · split
      · rename_i h0 h1 h2
        simp only [Bool.and_eq_true, decide_eq_true_eq] at h2
        split
        · split
          · rename_i b1 b2 t2 hc
            simp only [isCont, lo3, hi3, Bool.and_eq_true, decide_eq_true_eq] at hc
            have hb1 : 0x80 ≤ b1 ∧ b1 ≤ 0xBF ∧ (b0 = 0xE0 → 0xA0 ≤ b1) ∧ (b0 = 0xED → b1 ≤ 0x9F) := by
              obtain ⟨⟨ha, hb⟩, _⟩ := hc
              split at ha <;> split at hb <;> simp_all <;> omega
            simp only
            omega
          · right; simp only; omega
        · right; simp only; omega
      · split
        · rename_i h0 h1 h2 h3
          simp only [Bool.and_eq_true, decide_eq_true_eq] at h3
          split
          · split
            · rename_i b1 b2 b3 t3 hc
              simp only [isCont, lo4, hi4, Bool.and_eq_true, decide_eq_true_eq] at hc
              have hb1 : 0x80 ≤ b1 ∧ b1 ≤ 0xBF ∧ (b0 = 0xF0 → 0x90 ≤ b1) ∧ (b0 = 0xF4 → b1 ≤ 0x8F) := by
                obtain ⟨⟨⟨ha, hb⟩, _⟩, _⟩ := hc
                split at ha <;> split at hb <;> simp_all <;> omega
              simp only
              omega
            · right; simp only; omega
          · right; simp only; omega
        · right; simp only; omega

theorem runes_valid : ∀ (n : Nat) (s : Bytes), s.length ≤ n → ∀ r ∈ runes s, ValidRune r := by
  intro n
  induction n with
  | zero =>
    intro s hs r hr
    cases s with
    | nil => simp [runes_nil] at hr
    | cons _ _ => simp at hs
  | succ n ih =>
    intro s hs r hr
    cases s with
    | nil => simp [runes_nil] at hr
    | cons b0 t =>
      rw [runes_cons] at hr
      have hl := decode1_len b0 t
      simp only [List.length_cons] at hs
      simp only [List.mem_cons] at hr
      rcases hr with rfl | hr
      · exact decode1_valid b0 t
      · exact ih _ (by omega) r hr

theorem lowerRune_valid (r : Nat) (h : ValidRune r) : ValidRune (lowerRune r) := by
  unfold lowerRune
  split
  · rename_i h1; simp at h1; left; omega
  · split
    · left; decide
    · split
      · left; decide
      · exact h

/-- `range string(utf8.AppendRune…)`: the rune sequence of an encoded sequence of scalar values is that sequence -/
theorem runes_encode : ∀ (rs : List Nat), (∀ r ∈ rs, ValidRune r) → ∀ s, runes (rs.flatMap encodeRune ++ s) = rs ++ runes s := by
  intro rs
  induction rs with
  | nil => intro _ s; rfl
  | cons r rs ih =>
    intro hv s
    obtain ⟨b0, t, e, hd⟩ := decode1_of_encode r (hv r (List.mem_cons_self ..)) (rs.flatMap encodeRune ++ s)
    simp only [List.flatMap_cons, List.append_assoc, e, runes_cons, hd, List.cons_append,
      ih (fun x hx => hv x (List.mem_cons_of_mem _ hx)) s]

/-- **the representation argument for `strings.ToLower`**: the rune sequence of (the byte-level model of) its
    result is the rune-wise image of the rune sequence of its argument — invalid bytes included (U+FFFD) -/
theorem runes_lowerB (s : Bytes) : runes (lowerB s) = (runes s).map lowerRune := by
  unfold lowerB
  have hv : ∀ r ∈ (runes s).map lowerRune, ValidRune r := by
    intro r hr
    obtain ⟨x, hx, rfl⟩ := List.mem_map.mp hr
    exact lowerRune_valid x (runes_valid _ s (Nat.le_refl _) x hx)
  have := runes_encode _ hv []
  rw [List.append_nil, runes_nil, List.append_nil, List.flatMap_map] at this
  exact this

end Mime.MTU
