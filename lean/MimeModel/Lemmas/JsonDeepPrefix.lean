import MimeModel.Props.C09
import MimeModel.Lemmas.JsonDepth
/-
  C16 for inputs that merely *begin* deep: the scanner gives up as soon as it is asked to enter
  level cap + 1, without looking at anything behind that point.  So an examined header that begins
  with cap + 2 opening brackets (or with cap + 1 times `{"k":` and one more `{`) — whatever
  follows them, closed or not, cut by the limit or not — is refused by every detector of the JSON family: the run fails (whole input: nothing parsed) and
  has inspected at most cap + 1 bytes (cut input: not everything was inspected).

  This does not go through the reference grammar (the header need not be a document), it is read
  off the model of the scanner.
-/
namespace Mime.JsonDeep
open Mime Mime.Json
open Mime.JsonDepth (okey)

variable (qs : List Gen.Json.Query) (cap : Nat)

theorem consumeSpace_open (c : Nat) (cs : Bytes) (s : PState) (h : isSpace c = false) :
    consumeSpace (c :: cs) s = (c :: cs, s) := by
  simp [consumeSpace, h]

theorem finishAny_none (q : Bool) (lvl t : Nat) (res : Option Bytes × PState) (h : res.1 = none) :
    (finishAny q lvl t res).1 = none ∧ (finishAny q lvl t res).2.ib = res.2.ib := by
  unfold finishAny
  rw [h]
  refine ⟨rfl, ?_⟩
  simp only [PState.setFirst, PState.setQ]
  split <;> split <;> rfl

/-- entering an array whose first byte is another `[`, one level below the cap or more: the run
    fails, and has inspected no more than the brackets down to level cap + 1 -/
theorem brackets_fail (hc : cap ≠ 0) : ∀ (k fuel lvl : Nat) (rest : Bytes) (s : PState), lvl + k = cap + 1 →
    (consumeAny qs cap fuel lvl (List.replicate k 0x5B ++ 0x5B :: rest) s).1 = none ∧
    (consumeAny qs cap fuel lvl (List.replicate k 0x5B ++ 0x5B :: rest) s).2.ib ≤ s.ib + k := by
  intro k
  induction k with
  | zero =>
    intro fuel lvl rest s hl
    cases fuel with
    | zero => simp [consumeAny]
    | succ fuel =>
      have hgt : (cap != 0 && decide (lvl > cap)) = true := by simp [hc]; omega
      simp [consumeAny, hgt, PState.enter]
  | succ k ih =>
    intro fuel lvl rest s hl
    cases fuel with
    | zero => simp [consumeAny]
    | succ fuel =>
      have hgt : (cap != 0 && decide (lvl > cap)) = false := by simp; omega
      have hne : (List.replicate k 0x5B ++ 0x5B :: rest).isEmpty = false := by
        cases k <;> rfl
      simp only [List.replicate_succ, List.cons_append, consumeAny, hgt, Bool.false_eq_true, ↓reduceIte,
        consumeSpace_open 0x5B _ _ (by decide : isSpace 0x5B = false)]
      have hcl : classify 0x5B = .arr := by decide
      simp only [hcl, hne, Bool.false_eq_true, ↓reduceIte]
      -- the array loop at level lvl + 1
      have harr : (arrayLoop qs cap fuel (lvl + 1) (List.replicate k 0x5B ++ 0x5B :: rest)
            (((s.enter lvl).bump).push [0x5B])).1 = none ∧
          (arrayLoop qs cap fuel (lvl + 1) (List.replicate k 0x5B ++ 0x5B :: rest)
            (((s.enter lvl).bump).push [0x5B])).2.ib ≤ s.ib + (k + 1) := by
        cases fuel with
        | zero => simp [arrayLoop, PState.push, PState.bump, PState.enter]
        | succ fuel =>
          obtain ⟨cs, hcs⟩ : ∃ cs, List.replicate k 0x5B ++ 0x5B :: rest = 0x5B :: cs := by
            cases k with
            | zero => exact ⟨rest, rfl⟩
            | succ k => exact ⟨_, rfl⟩
          have h := ih fuel (lvl + 1) rest (((s.enter lvl).bump).push [0x5B]) (by omega)
          rw [hcs] at h ⊢
          simp only [arrayLoop, consumeSpace_open 0x5B _ _ (by decide : isSpace 0x5B = false)]
          have hnc : ((0x5B : Nat) == 0x5D) = false := by decide
          simp only [hnc, Bool.false_eq_true, ↓reduceIte]
          generalize consumeAny qs cap fuel (lvl + 1) (0x5B :: cs) (((s.enter lvl).bump).push [0x5B]) = run at h
          obtain ⟨o, s2⟩ := run
          simp only at h
          obtain ⟨h1, h2⟩ := h
          subst h1
          refine ⟨rfl, ?_⟩
          simp only [PState.push, PState.bump, PState.enter] at h2 ⊢
          omega
      obtain ⟨f1, f2⟩ := finishAny_none qs.isEmpty lvl (Kind.tok .arr) _ harr.1
      exact ⟨f1, by rw [f2]; exact harr.2⟩

/-- **a header that begins with cap + 2 opening brackets is refused**, whatever follows, at every
    limit, by every query and wanted token -/
theorem deep_prefix_refused (hc : cap ≠ 0) (rest : Bytes) (lim : Nat) (w : Nat) :
    jsonHelperCap cap (List.replicate (cap + 2) 0x5B ++ rest) lim qs w = false := by
  cases hh : jsonHelperCap cap (List.replicate (cap + 2) 0x5B ++ rest) lim qs w with
  | false => rfl
  | true =>
    exfalso
    obtain ⟨_, hrun⟩ := Mime.C09.helper_inv cap _ lim qs w hh
    simp only at hrun
    have hraw : List.replicate (cap + 2) 0x5B ++ rest = List.replicate (cap + 1) 0x5B ++ 0x5B :: rest := by
      rw [List.replicate_succ' (n := cap + 1)]; simp
    have hlen : (List.replicate (cap + 2) 0x5B ++ rest).length = cap + 2 + rest.length := by simp
    obtain ⟨b1, b2⟩ := brackets_fail qs cap hc (cap + 1) (fuelFor (List.replicate (cap + 2) 0x5B ++ rest)) 0 rest
      PState.fresh.reset (by omega)
    rw [← hraw] at b1 b2
    generalize consumeAny qs cap (fuelFor (List.replicate (cap + 2) 0x5B ++ rest)) 0
      (List.replicate (cap + 2) 0x5B ++ rest) PState.fresh.reset = run at hrun b1 b2
    obtain ⟨o, s'⟩ := run
    simp only at b1 b2
    subst b1
    have h0 : PState.fresh.reset.ib = 0 := rfl
    split at hrun
    · simp only at hrun; omega
    · simp only at hrun; omega

/-- for the detectors as wired (cap = `maxRecursion` = 4096): 4098 opening brackets -/
theorem deep_prefix_refused_real (rest : Bytes) (lim : Nat) (qs : List Gen.Json.Query) (w : Nat) :
    jsonHelper (List.replicate (Gen.Json.maxRecursion + 2) 0x5B ++ rest) lim qs w = false := by
  rw [Mime.C09.jsonHelper_eq]
  exact deep_prefix_refused qs _ (by decide) rest lim w

/-! ### the same for objects: (`{"k":`)^(cap+1) `{` -/

/-- one member `"k":` whose value fails: the object fails, having inspected the four bytes of the
    key and colon and what the value inspected -/
theorem member_fails (fuel lvl : Nat) (cs : Bytes) (s : PState) (B : Nat)
    (H : ∀ S : PState, (consumeAny qs cap fuel lvl (0x7B :: cs) S).1 = none ∧
      (consumeAny qs cap fuel lvl (0x7B :: cs) S).2.ib ≤ S.ib + B) :
    (objectLoop qs cap (fuel + 1) lvl (0x22 :: 0x6B :: 0x22 :: 0x3A :: 0x7B :: cs) s).1 = none ∧
    (objectLoop qs cap (fuel + 1) lvl (0x22 :: 0x6B :: 0x22 :: 0x3A :: 0x7B :: cs) s).2.ib ≤ s.ib + 4 + B := by
  have h1 : ∀ S o s6, consumeAny qs cap fuel lvl (0x7B :: cs) S = (o, s6) → o = none ∧ s6.ib ≤ S.ib + B := by
    intro S o s6 hS
    have := H S
    rw [hS] at this
    exact this
  have hstr : ∀ S, consumeString .norm (0x6B :: 0x22 :: 0x3A :: 0x7B :: cs) S = (some (0x3A :: 0x7B :: cs), S.bump.bump) := by
    intro S
    rw [consumeString.eq_def]
    simp only [beq_iff_eq, Nat.reduceEqDiff, ↓reduceIte]
    rw [consumeString.eq_def]
    simp
  simp only [objectLoop, consumeSpace_open 0x22 _ _ (by decide : isSpace 0x22 = false),
    consumeSpace_open 0x3A _ _ (by decide : isSpace 0x3A = false),
    consumeSpace_open 0x7B _ _ (by decide : isSpace 0x7B = false), hstr,
    (by decide : ((0x22 : Nat) == 0x7D) = false), (by decide : ((0x22 : Nat) != 0x22) = false),
    (by decide : ((0x3A : Nat) != 0x3A) = false), Bool.false_eq_true, ↓reduceIte]
  split
  · rename_i s6 heq
    obtain ⟨_, hib⟩ := h1 _ _ _ heq
    refine ⟨rfl, ?_⟩
    simp only [PState.bump, PState.push] at hib ⊢
    omega
  · rename_i r2 s6 heq
    have := (h1 _ _ _ heq).1
    cases this

theorem okeys_fail (hc : cap ≠ 0) : ∀ (k fuel lvl : Nat) (rest : Bytes) (s : PState), lvl + k = cap + 1 →
    (consumeAny qs cap fuel lvl ((List.replicate k okey).flatten ++ 0x7B :: rest) s).1 = none ∧
    (consumeAny qs cap fuel lvl ((List.replicate k okey).flatten ++ 0x7B :: rest) s).2.ib ≤ s.ib + 5 * k := by
  intro k
  induction k with
  | zero =>
    intro fuel lvl rest s hl
    cases fuel with
    | zero => simp [consumeAny]
    | succ fuel =>
      have hgt : (cap != 0 && decide (lvl > cap)) = true := by simp [hc]; omega
      simp [consumeAny, hgt, PState.enter]
  | succ k ih =>
    intro fuel lvl rest s hl
    cases fuel with
    | zero => simp [consumeAny]
    | succ fuel =>
      have hgt : (cap != 0 && decide (lvl > cap)) = false := by simp; omega
      obtain ⟨cs, hcs⟩ : ∃ cs, (List.replicate k okey).flatten ++ 0x7B :: rest = 0x7B :: cs := by
        cases k with
        | zero => exact ⟨rest, rfl⟩
        | succ k => exact ⟨_, rfl⟩
      have hin : (List.replicate (k + 1) okey).flatten ++ 0x7B :: rest =
          0x7B :: 0x22 :: 0x6B :: 0x22 :: 0x3A :: 0x7B :: cs := by
        rw [List.replicate_succ, List.flatten_cons, List.append_assoc, hcs]; rfl
      rw [hin]
      simp only [consumeAny, hgt, Bool.false_eq_true, ↓reduceIte,
        consumeSpace_open 0x7B _ _ (by decide : isSpace 0x7B = false)]
      have hcl : classify 0x7B = .obj := by decide
      simp only [hcl]
      have hobj : (objectLoop qs cap fuel (lvl + 1) (0x22 :: 0x6B :: 0x22 :: 0x3A :: 0x7B :: cs) (s.enter lvl).bump).1 = none ∧
          (objectLoop qs cap fuel (lvl + 1) (0x22 :: 0x6B :: 0x22 :: 0x3A :: 0x7B :: cs) (s.enter lvl).bump).2.ib ≤
            s.ib + 5 * (k + 1) := by
        cases fuel with
        | zero => simp [objectLoop, PState.bump, PState.enter]; omega
        | succ fuel =>
          have H : ∀ S : PState, (consumeAny qs cap fuel (lvl + 1) (0x7B :: cs) S).1 = none ∧
              (consumeAny qs cap fuel (lvl + 1) (0x7B :: cs) S).2.ib ≤ S.ib + 5 * k := by
            intro S
            have := ih fuel (lvl + 1) rest S (by omega)
            rwa [hcs] at this
          obtain ⟨m1, m2⟩ := member_fails qs cap fuel (lvl + 1) cs (s.enter lvl).bump (5 * k) H
          refine ⟨m1, ?_⟩
          simp only [PState.bump, PState.enter] at m2 ⊢
          omega
      obtain ⟨f1, f2⟩ := finishAny_none qs.isEmpty lvl (Kind.tok .obj) _ hobj.1
      exact ⟨f1, by rw [f2]; exact hobj.2⟩

/-- **a header that begins with cap + 1 times `{"k":` and one more `{` is refused**, whatever
    follows, at every limit, by every query and wanted token -/
theorem deep_object_prefix_refused (hc : cap ≠ 0) (rest : Bytes) (lim : Nat) (w : Nat) :
    jsonHelperCap cap ((List.replicate (cap + 1) okey).flatten ++ 0x7B :: rest) lim qs w = false := by
  cases hh : jsonHelperCap cap ((List.replicate (cap + 1) okey).flatten ++ 0x7B :: rest) lim qs w with
  | false => rfl
  | true =>
    exfalso
    obtain ⟨_, hrun⟩ := Mime.C09.helper_inv cap _ lim qs w hh
    simp only at hrun
    have hlen : ((List.replicate (cap + 1) okey).flatten ++ 0x7B :: rest).length = 5 * (cap + 1) + 1 + rest.length := by
      simp [okey]; omega
    obtain ⟨b1, b2⟩ := okeys_fail qs cap hc (cap + 1)
      (fuelFor ((List.replicate (cap + 1) okey).flatten ++ 0x7B :: rest)) 0 rest PState.fresh.reset (by omega)
    generalize consumeAny qs cap (fuelFor ((List.replicate (cap + 1) okey).flatten ++ 0x7B :: rest)) 0
      ((List.replicate (cap + 1) okey).flatten ++ 0x7B :: rest) PState.fresh.reset = run at hrun b1 b2
    obtain ⟨o, s'⟩ := run
    simp only at b1 b2
    subst b1
    have h0 : PState.fresh.reset.ib = 0 := rfl
    split at hrun
    · simp only at hrun; omega
    · simp only at hrun; omega

theorem deep_object_prefix_refused_real (rest : Bytes) (lim : Nat) (qs : List Gen.Json.Query) (w : Nat) :
    jsonHelper ((List.replicate (Gen.Json.maxRecursion + 1) okey).flatten ++ 0x7B :: rest) lim qs w = false := by
  rw [Mime.C09.jsonHelper_eq]
  exact deep_object_prefix_refused qs _ (by decide) rest lim w

/- tight at cap 2: four brackets are refused whatever follows; three are accepted when cut -/
example : jsonHelperCap 2 (List.replicate 4 0x5B) 4 Gen.Json.q_json (tokObject ||| tokArray) = false := by decide
example : jsonHelperCap 2 (List.replicate 3 0x5B) 3 Gen.Json.q_json (tokObject ||| tokArray) = true := by decide

example : jsonHelperCap 2 ((List.replicate 3 okey).flatten ++ [0x7B]) 16 Gen.Json.q_json (tokObject ||| tokArray) = false := by decide
example : jsonHelperCap 2 ((List.replicate 2 okey).flatten ++ [0x7B]) 11 Gen.Json.q_json (tokObject ||| tokArray) = true := by decide

end Mime.JsonDeep
