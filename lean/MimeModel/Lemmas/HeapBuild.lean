import MimeModel.Lemmas.Heap
import MimeModel.Lemmas.HeapAbs
import MimeModel.Model.HeapBuild
import MimeModel.Gen.Tree
/-
  The bottom-up construction of the detector tree (`Model/HeapBuild.lean`: nested `newMIME`
  calls, children first, left to right, as tree.go does) yields a heap that represents the tree.

    `build_rep`      the heap built for `t` on top of any heap `h` represents `t` at the address
                     returned, with a footprint of fresh addresses; it has grown by the number of
                     nodes of `t`; the node is the last one allocated; `h` is untouched
    `buildList_rep`  the same for an argument list: a forest of parentless roots, which is the
                     hypothesis of `newMIME_rep`
    `build_wf`, `build_abs`   on the empty heap: the invariant holds, the abstraction is `t`
    `sched_rep`      any other order of the `newMIME` calls (children before the node, every node
                     given as a child at most once: Go's package initialisation order) represents
                     the same trees; `build_sched`: `build` is one such order
    `builtin_rep`    the built-in tree of tree.go (`Gen.builtin`)
    `builtin_detect`, `extended_detect`, `builtin_result_stable`
                     the pointer-level `match` on the built heap, before and after any history of
                     `Extend` calls, computes `Mime.detect`'s chain; earlier results stay as they are
-/
namespace Mime.HeapBuild
open Mime Mime.Tree Mime.Heap Mime.HeapLemmas

variable {α : Type}

/-! ### the equations of `build` -/

theorem build_node (a : α) (ts : List (Tree α)) (h : Heap α) :
    build (.node a ts) h = newMIME (buildList ts h).1 a (buildList ts h).2 := by
  simp only [build]

theorem buildList_nil (h : Heap α) : buildList ([] : List (Tree α)) h = (h, []) := by
  simp only [buildList]

theorem buildList_cons (t : Tree α) (ts : List (Tree α)) (h : Heap α) :
    buildList (t :: ts) h =
      ((buildList ts (build t h).1).1, (build t h).2 :: (buildList ts (build t h).1).2) := by
  simp only [buildList]

/-- the definition in the `let (h1, cs) := …` form of the specification -/
theorem build_eq (a : α) (ts : List (Tree α)) (h : Heap α) :
    build (.node a ts) h = (let (h1, cs) := buildList ts h; newMIME h1 a cs) := by
  rw [build_node]

theorem buildList_eq (t : Tree α) (ts : List (Tree α)) (h : Heap α) :
    buildList (t :: ts) h = (let (h1, c) := build t h; let (h2, cs) := buildList ts h1; (h2, c :: cs)) := by
  rw [buildList_cons]

/-! ### the construction represents the tree -/

/-- what `build t h` guarantees, for the result `r` -/
def BuildSpec (h : Heap α) (t : Tree α) (r : Heap α × Ptr) : Prop :=
  (∃ fp, RepF r.1 r.2 none t fp ∧ ∀ x : Nat, x ∈ fp → h.length ≤ x) ∧
  r.1.length = h.length + (flatten t).length ∧
  r.2 = r.1.length - 1 ∧
  ∀ x : Nat, x < h.length → r.1[x]? = h[x]?

/-- what `buildList ts h` guarantees, for the result `r` -/
def BuildListSpec (h : Heap α) (ts : List (Tree α)) (r : Heap α × List Ptr) : Prop :=
  (∃ fp, RepListF r.1 none r.2 ts fp ∧ ∀ x : Nat, x ∈ fp → h.length ≤ x) ∧
  r.1.length = h.length + (flattenList ts).length ∧
  ∀ x : Nat, x < h.length → r.1[x]? = h[x]?

/-- one `newMIME` over a forest built on top of `h` -/
theorem newMIME_spec {h : Heap α} {ts : List (Tree α)} {r : Heap α × List Ptr} (a : α)
    (hs : BuildListSpec h ts r) : BuildSpec h (.node a ts) (newMIME r.1 a r.2) := by
  obtain ⟨⟨fp, hf, hfresh⟩, hlen, hframe⟩ := hs
  obtain ⟨hp, hrep, hl, hold⟩ := newMIME_rep a hf
  have hle : h.length ≤ r.1.length := by omega
  refine ⟨⟨r.1.length :: fp, ?_, ?_⟩, ?_, ?_, ?_⟩
  · rw [hp]; exact hrep
  · intro x hx
    rcases List.mem_cons.mp hx with rfl | hx
    · exact hle
    · exact hfresh x hx
  · rw [hl, hlen]; simp only [flatten, List.length_cons]; omega
  · rw [hp, hl]; exact (Nat.add_sub_cancel ..).symm
  · intro x hx
    have hx1 : x < r.1.length := by omega
    obtain ⟨n, hn⟩ : ∃ n, r.1[x]? = some n := ⟨r.1[x], List.getElem?_eq_getElem hx1⟩
    obtain ⟨n', hn', _, _, hsame, _⟩ := hold x n hn
    have hnot : x ∉ r.2 := fun hm => by
      have := hfresh x (repListF_roots ts hf x hm)
      omega
    rw [hn', hsame hnot, ← hn]
    exact hframe x hx

/-- one more argument in front of an argument list -/
theorem cons_spec {h : Heap α} {t : Tree α} {ts : List (Tree α)} {r1 : Heap α × Ptr} {r2 : Heap α × List Ptr}
    (h1 : BuildSpec h t r1) (h2 : BuildListSpec r1.1 ts r2) :
    BuildListSpec h (t :: ts) (r2.1, r1.2 :: r2.2) := by
  obtain ⟨⟨fp1, hr1, hfresh1⟩, hlen1, _, hframe1⟩ := h1
  obtain ⟨⟨fp2, hr2, hfresh2⟩, hlen2, hframe2⟩ := h2
  have hlt1 := repF_lt t hr1
  refine ⟨⟨fp1 ++ fp2, ?_, ?_⟩, ?_, ?_⟩
  · refine repListF_cons.mpr ⟨r1.2, r2.2, fp1, fp2, rfl, ?_, hr2, ?_, rfl⟩
    · exact repF_frame t hr1 (fun x hx => hframe2 x (hlt1 x hx))
    · intro x hx1 hx2
      have := hlt1 x hx1
      have := hfresh2 x hx2
      omega
  · intro x hx
    rcases List.mem_append.mp hx with hx | hx
    · exact hfresh1 x hx
    · have := hfresh2 x hx
      omega
  · show r2.1.length = _
    rw [hlen2, hlen1]; simp only [flattenList, List.length_append]; omega
  · intro x hx
    show r2.1[x]? = _
    rw [hframe2 x (by omega)]
    exact hframe1 x hx

mutual
theorem build_spec : ∀ (t : Tree α) (h : Heap α), BuildSpec h t (build t h)
  | .node a ts, h => by
    rw [build_node]
    exact newMIME_spec a (buildList_spec ts h)
theorem buildList_spec : ∀ (ts : List (Tree α)) (h : Heap α), BuildListSpec h ts (buildList ts h)
  | [], h => by
    rw [buildList_nil]
    exact ⟨⟨[], repListF_nil.mpr ⟨rfl, rfl⟩, fun x hx => by cases hx⟩, by simp [flattenList], fun _ _ => rfl⟩
  | t :: ts, h => by
    rw [buildList_cons]
    exact cons_spec (build_spec t h) (buildList_spec ts (build t h).1)
end

/-- **`build` builds a represented tree**, on top of any heap `h`: the new heap represents `t` at
    the address returned, all of the addresses it occupies are new; the heap has grown by the
    number of nodes of `t`; the node itself was allocated last; nothing of `h` was touched. -/
theorem build_rep (t : Tree α) (h : Heap α) :
    (∃ fp, RepF (build t h).1 (build t h).2 none t fp ∧ ∀ x : Nat, x ∈ fp → h.length ≤ x) ∧
    (build t h).1.length = h.length + (flatten t).length ∧
    (build t h).2 = (build t h).1.length - 1 ∧
    ∀ x : Nat, x < h.length → (build t h).1[x]? = h[x]? :=
  build_spec t h

/-- **an argument list builds a represented forest**: the addresses returned are the roots of
    pairwise disjoint sub-heaps representing the trees, in order, every root without a parent
    (until `newMIME` is called on them: this is the hypothesis of `newMIME_rep`). -/
theorem buildList_rep (ts : List (Tree α)) (h : Heap α) :
    (∃ fp, RepListF (buildList ts h).1 none (buildList ts h).2 ts fp ∧ ∀ x : Nat, x ∈ fp → h.length ≤ x) ∧
    (buildList ts h).1.length = h.length + (flattenList ts).length ∧
    ∀ x : Nat, x < h.length → (buildList ts h).1[x]? = h[x]? :=
  buildList_spec ts h

/-- the same with the result destructured -/
theorem build_rep' {t : Tree α} {h h' : Heap α} {p : Ptr} (hb : build t h = (h', p)) :
    (∃ fp, RepF h' p none t fp ∧ ∀ x : Nat, x ∈ fp → h.length ≤ x) ∧
    h'.length = h.length + (flatten t).length ∧
    p = h'.length - 1 ∧
    ∀ x : Nat, x < h.length → h'[x]? = h[x]? := by
  have := build_rep t h
  rw [hb] at this
  exact this

/-- `build` only appends: the old heap is a prefix of the new one -/
theorem build_prefix (t : Tree α) (h : Heap α) : ∃ e, (build t h).1 = h ++ e := by
  obtain ⟨_, hlen, _, hframe⟩ := build_rep t h
  refine ⟨(build t h).1.drop h.length, ?_⟩
  apply List.ext_getElem?
  intro x
  by_cases hx : x < h.length
  · rw [hframe x hx, List.getElem?_append_left hx]
  · rw [List.getElem?_append_right (by omega), List.getElem?_drop]
    congr 1; omega

theorem build_rep_nil (t : Tree α) : Rep (build t []).1 (build t []).2 none t := by
  obtain ⟨⟨fp, hr, _⟩, _⟩ := build_rep t ([] : Heap α)
  exact ⟨fp, hr⟩

/-- the invariant holds of the heap built from nothing -/
theorem build_wf (t : Tree α) : WF (build t []).1 (build t []).2 := ⟨t, build_rep_nil t⟩

/-- and the abstraction function gives the tree back -/
theorem build_abs (t : Tree α) : HeapAbs.abs (build t []).1 (build t []).2 = some t :=
  HeapAbs.abs_iff.mpr (build_rep_nil t)

/-- the heap built from nothing has one node per tree node, the root at the last address -/
theorem build_nil_size (t : Tree α) :
    (build t []).1.length = (flatten t).length ∧ (build t []).2 = (flatten t).length - 1 := by
  obtain ⟨_, hlen, hp, _⟩ := build_rep t ([] : Heap α)
  simp only [List.length_nil, Nat.zero_add] at hlen
  exact ⟨hlen, by rw [hp, hlen]⟩

/-! ### any order of the calls

  tree.go does not write the tree as one nested expression: every node is a package-level
  variable (`zip = newMIME(…, xlsx, docx, …)`), and Go initialises package-level variables in
  dependency order (repeatedly the earliest declared variable whose initialiser mentions only
  initialised variables), which puts the children of a node before the node but is not the
  post-order of `build` (and `errMIME`, a node outside the tree, is allocated somewhere in between).
  `Sched` describes every such run: any sequence of `newMIME` calls, each taking as children some
  of the nodes built so far that have not been given to a call yet, in any order.  Whatever the
  order, each available node represents its tree (`sched_rep`); `build` is one such run
  (`build_sched`). -/

/-- the forest `l` of (address, tree) pairs -/
def RepPairs (h : Heap α) (par : Option Ptr) (l : List (Ptr × Tree α)) (fp : List Ptr) : Prop :=
  RepListF h par (l.map (·.1)) (l.map (·.2)) fp

theorem repPairs_nil {h : Heap α} {par : Option Ptr} {fp : List Ptr} : RepPairs h par [] fp ↔ fp = [] := by
  simp only [RepPairs, List.map_nil]
  rw [repListF_nil]
  exact ⟨fun hh => hh.2, fun hh => ⟨rfl, hh⟩⟩

theorem repPairs_cons {h : Heap α} {par : Option Ptr} {p : Ptr} {t : Tree α} {l : List (Ptr × Tree α)}
    {fp : List Ptr} :
    RepPairs h par ((p, t) :: l) fp ↔
      ∃ fp1 fp2, RepF h p par t fp1 ∧ RepPairs h par l fp2 ∧ (∀ x ∈ fp1, x ∉ fp2) ∧ fp = fp1 ++ fp2 := by
  simp only [RepPairs, List.map_cons]
  rw [repListF_cons]
  constructor
  · rintro ⟨c, cs, fp1, fp2, hc, h1, h2, hd, rfl⟩
    obtain ⟨rfl, rfl⟩ := List.cons.inj hc
    exact ⟨fp1, fp2, h1, h2, hd, rfl⟩
  · rintro ⟨fp1, fp2, h1, h2, hd, rfl⟩
    exact ⟨p, _, fp1, fp2, rfl, h1, h2, hd, rfl⟩

theorem repPairs_split {h : Heap α} {par : Option Ptr} : ∀ (l1 : List (Ptr × Tree α)) {l2 : List (Ptr × Tree α)}
    {fp : List Ptr}, RepPairs h par (l1 ++ l2) fp →
    ∃ fp1 fp2, RepPairs h par l1 fp1 ∧ RepPairs h par l2 fp2 ∧ (∀ x ∈ fp1, x ∉ fp2) ∧
      ∀ x, x ∈ fp ↔ x ∈ fp1 ∨ x ∈ fp2
  | [], l2, fp, hr =>
    ⟨[], fp, repPairs_nil.mpr rfl, hr, fun x hx => (by cases hx), fun x => (by simp)⟩
  | (p, t) :: l1, l2, fp, hr => by
    obtain ⟨fa, fb, hra, hrb, hd, rfl⟩ := repPairs_cons.mp hr
    obtain ⟨f1, f2, h1, h2, hd12, hmem⟩ := repPairs_split l1 hrb
    refine ⟨fa ++ f1, f2, repPairs_cons.mpr ⟨fa, f1, hra, h1, ?_, rfl⟩, h2, ?_, ?_⟩
    · exact fun x hx hx1 => hd x hx ((hmem x).mpr (Or.inl hx1))
    · intro x hx hx2
      rcases List.mem_append.mp hx with hx | hx
      · exact hd x hx ((hmem x).mpr (Or.inr hx2))
      · exact hd12 x hx hx2
    · intro x
      simp only [List.mem_append, hmem x, or_assoc]

/-- the order in which a forest is listed does not matter -/
theorem repPairs_perm {h : Heap α} {par : Option Ptr} {l1 l2 : List (Ptr × Tree α)} (hp : l1.Perm l2) :
    ∀ fp, RepPairs h par l1 fp → ∃ fp', RepPairs h par l2 fp' ∧ ∀ x, x ∈ fp' ↔ x ∈ fp := by
  induction hp with
  | nil => exact fun fp hr => ⟨fp, hr, fun _ => Iff.rfl⟩
  | cons a _ ih =>
    intro fp hr
    obtain ⟨p, t⟩ := a
    obtain ⟨fa, fb, hra, hrb, hd, rfl⟩ := repPairs_cons.mp hr
    obtain ⟨fb', hrb', hm⟩ := ih fb hrb
    refine ⟨fa ++ fb', repPairs_cons.mpr ⟨fa, fb', hra, hrb', fun x hx hx' => hd x hx ((hm x).mp hx'), rfl⟩, ?_⟩
    intro x
    simp only [List.mem_append, hm x]
  | swap a b l =>
    intro fp hr
    obtain ⟨pa, ta⟩ := a
    obtain ⟨pb, tb⟩ := b
    obtain ⟨fb, f1, hrb, hr1, hd1, rfl⟩ := repPairs_cons.mp hr
    obtain ⟨fa, fl, hra, hrl, hd2, rfl⟩ := repPairs_cons.mp hr1
    refine ⟨fa ++ (fb ++ fl), repPairs_cons.mpr ⟨fa, fb ++ fl, hra,
      repPairs_cons.mpr ⟨fb, fl, hrb, hrl, fun x hx hx' => hd1 x hx (List.mem_append_right _ hx'), rfl⟩, ?_, rfl⟩, ?_⟩
    · intro x hx hx'
      rcases List.mem_append.mp hx' with hx' | hx'
      · exact hd1 x hx' (List.mem_append_left _ hx)
      · exact hd2 x hx hx'
    · intro x
      simp only [List.mem_append]
      constructor
      · rintro (h1 | h1 | h1)
        · exact Or.inr (Or.inl h1)
        · exact Or.inl h1
        · exact Or.inr (Or.inr h1)
      · rintro (h1 | h1 | h1)
        · exact Or.inr (Or.inl h1)
        · exact Or.inl h1
        · exact Or.inr (Or.inr h1)
  | trans _ _ ih1 ih2 =>
    intro fp hr
    obtain ⟨fp1, hr1, hm1⟩ := ih1 fp hr
    obtain ⟨fp2, hr2, hm2⟩ := ih2 fp1 hr1
    exact ⟨fp2, hr2, fun x => (hm2 x).trans (hm1 x)⟩

theorem repPairs_mem {h : Heap α} {par : Option Ptr} {p : Ptr} {t : Tree α} :
    ∀ (l : List (Ptr × Tree α)) {fp : List Ptr}, RepPairs h par l fp → (p, t) ∈ l → ∃ fp1, RepF h p par t fp1
  | [], _, _, hm => by cases hm
  | (q, u) :: l, fp, hr, hm => by
    obtain ⟨fa, fb, hra, hrb, _, _⟩ := repPairs_cons.mp hr
    rcases List.mem_cons.mp hm with he | hm
    · obtain ⟨rfl, rfl⟩ := Prod.mk.inj he
      exact ⟨fa, hra⟩
    · exact repPairs_mem l hrb hm

/-- one `newMIME` call on some of the available nodes (`sel`): the others (`rest`) stay as they
    are, the new node is available and represents `node a (the trees of sel)` -/
theorem call_inv {h : Heap α} (a : α) {sel rest : List (Ptr × Tree α)} {fp : List Ptr}
    (hr : RepPairs h none (sel ++ rest) fp) :
    ∃ fp', RepPairs (newMIME h a (sel.map (·.1))).1 none
      (((newMIME h a (sel.map (·.1))).2, .node a (sel.map (·.2))) :: rest) fp' := by
  obtain ⟨fs, fr, hs, hrest, hd, _⟩ := repPairs_split sel hr
  obtain ⟨hp, hrep, _, hold⟩ := newMIME_rep a hs
  have hltr := repListF_lt _ hrest
  refine ⟨(h.length :: fs) ++ fr, repPairs_cons.mpr ⟨h.length :: fs, fr, ?_, ?_, ?_, rfl⟩⟩
  · rw [hp]; exact hrep
  · refine repListF_frame _ hrest (fun x hx => ?_)
    have hx1 : x < h.length := hltr x hx
    obtain ⟨n, hn⟩ : ∃ n, h[x]? = some n := ⟨h[x], List.getElem?_eq_getElem hx1⟩
    obtain ⟨n', hn', _, _, hsame, _⟩ := hold x n hn
    have hnot : x ∉ sel.map (·.1) := fun hm => hd x (repListF_roots _ hs x hm) hx
    rw [hn', hsame hnot, hn]
  · intro x hx hx'
    rcases List.mem_cons.mp hx with rfl | hx
    · exact Nat.lt_irrefl _ (hltr _ hx')
    · exact hd x hx hx'

/-- the heaps reachable by `newMIME` calls in which every node is given as a child at most once,
    together with the nodes not yet given to a call and the trees they stand for -/
inductive Sched : Heap α → List (Ptr × Tree α) → Prop
  | init (h : Heap α) : Sched h []
  | call {h : Heap α} {avail : List (Ptr × Tree α)} (a : α) (sel rest : List (Ptr × Tree α)) :
      Sched h avail → avail.Perm (sel ++ rest) →
      Sched (newMIME h a (sel.map (·.1))).1
        (((newMIME h a (sel.map (·.1))).2, .node a (sel.map (·.2))) :: rest)

theorem sched_inv {h : Heap α} {avail : List (Ptr × Tree α)} (hs : Sched h avail) :
    ∃ fp, RepPairs h none avail fp := by
  induction hs with
  | init h => exact ⟨[], repPairs_nil.mpr rfl⟩
  | call a sel rest _ hp ih =>
    obtain ⟨fp, hr⟩ := ih
    obtain ⟨fp', hr', _⟩ := repPairs_perm hp fp hr
    exact call_inv a hr'

/-- **whatever the order of the calls**, every node not yet given to a call represents its tree
    (with no parent); in particular the last node built, when everything else has been used -/
theorem sched_rep {h : Heap α} {avail : List (Ptr × Tree α)} {p : Ptr} {t : Tree α}
    (hs : Sched h avail) (hm : (p, t) ∈ avail) : Rep h p none t := by
  obtain ⟨fp, hr⟩ := sched_inv hs
  exact repPairs_mem avail hr hm

mutual
/-- `build` is one of these runs -/
theorem build_sched : ∀ (t : Tree α) (h : Heap α) (avail : List (Ptr × Tree α)), Sched h avail →
    Sched (build t h).1 (((build t h).2, t) :: avail)
  | .node a ts, h, avail, hs => by
    obtain ⟨l, hp, ht, hl⟩ := buildList_sched ts h avail hs
    have := Sched.call a l avail hl ((List.reverse_perm l).append_right avail)
    rw [hp, ht] at this
    rw [build_node]
    exact this
theorem buildList_sched : ∀ (ts : List (Tree α)) (h : Heap α) (avail : List (Ptr × Tree α)), Sched h avail →
    ∃ l : List (Ptr × Tree α), l.map (·.1) = (buildList ts h).2 ∧ l.map (·.2) = ts ∧
      Sched (buildList ts h).1 (l.reverse ++ avail)
  | [], h, avail, hs => by
    rw [buildList_nil]
    exact ⟨[], rfl, rfl, hs⟩
  | t :: ts, h, avail, hs => by
    have h1 := build_sched t h avail hs
    obtain ⟨l, hp, ht, h2⟩ := buildList_sched ts _ _ h1
    rw [buildList_cons]
    refine ⟨((build t h).2, t) :: l, ?_, ?_, ?_⟩
    · simp only [List.map_cons, hp]
    · simp only [List.map_cons, ht]
    · rw [List.reverse_cons, List.append_assoc]
      exact h2
end

/-! ### the built-in tree -/

/-- the heap tree.go builds at package initialisation: `root` and everything below it -/
def builtinHeap : Heap Info × Ptr := build Mime.Gen.builtin []

/-- **the heap of the built-in tree represents `Gen.builtin`** -/
theorem builtin_rep : Rep builtinHeap.1 builtinHeap.2 none Mime.Gen.builtin := build_rep_nil _

theorem builtin_wf : WF builtinHeap.1 builtinHeap.2 := build_wf _

theorem builtin_abs : HeapAbs.abs builtinHeap.1 builtinHeap.2 = some Mime.Gen.builtin := build_abs _

theorem builtin_size :
    builtinHeap.1.length = (flatten Mime.Gen.builtin).length ∧
    builtinHeap.2 = (flatten Mime.Gen.builtin).length - 1 := build_nil_size _

/-! ### everything composed -/

/-- **`Detect` on the heap tree.go builds**: the pointer-level `match` from `root`, with the heap
    size as fuel, succeeds, and what a caller sees walking `Parent()` from the result is the
    chain of `Mime.detect` on the value-level built-in tree (the leaf altered by `leafF`, the
    `needsCharset` step) -/
theorem builtin_detect (ext : Ext) (x : Bytes) (lim : Nat) (leafF : Info → Info) :
    ∃ h' r, matchH (accepts ext (header x lim) lim) leafF builtinHeap.1 builtinHeap.2 builtinHeap.1.length
        = .ok (h', r) ∧
      ∀ f, (detect ext Gen.builtin x lim).chain.length ≤ f →
        parentChain h' r f = some (applyHead leafF (detect ext Gen.builtin x lim).chain) :=
  match_refines_detect ext x lim leafF builtin_rep _ (Nat.le_refl _)

/-- **the same after any history of `Extend` calls** on tree nodes (named by child-index paths,
    resolved in the heap at the time of the call): the heap represents the value-level tree after
    the same calls (`C14.applyAll`), and the pointer-level `match` computes `Mime.detect`'s chain
    on that tree -/
theorem extended_detect (ops : List (List Nat × Info)) {h1 : Heap Info}
    (hrun : runExt builtinHeap.2 ops builtinHeap.1 = some h1)
    (ext : Ext) (x : Bytes) (lim : Nat) (leafF : Info → Info) :
    ∃ T', C14.applyAll ops Gen.builtin = some T' ∧ Rep h1 builtinHeap.2 none T' ∧
      ∃ h' r, matchH (accepts ext (header x lim) lim) leafF h1 builtinHeap.2 h1.length = .ok (h', r) ∧
        ∀ f, (detect ext T' x lim).chain.length ≤ f →
          parentChain h' r f = some (applyHead leafF (detect ext T' x lim).chain) := by
  obtain ⟨T', happ, hrep, _⟩ := runExt_rep ops builtin_rep hrun
  exact ⟨T', happ, hrep, match_refines_detect ext x lim leafF hrep _ (Nat.le_refl _)⟩

/-- **and the earlier results stay as they are**: `r` is the result of a detection on the built
    heap after the history `ops`; whatever `Extend` and detection calls follow (`Steps`), the
    `Parent()` chain seen from `r` is the chain of `Mime.detect` on the tree as it was at the
    time of the call -/
theorem builtin_result_stable (ops : List (List Nat × Info)) {h1 h2 h3 : Heap Info} {r : Ptr}
    (hrun : runExt builtinHeap.2 ops builtinHeap.1 = some h1)
    (ext : Ext) (x : Bytes) (lim : Nat) (leafF : Info → Info)
    (hm : matchH (accepts ext (header x lim) lim) leafF h1 builtinHeap.2 h1.length = .ok (h2, r))
    (hs : Steps h2 h3) :
    ∃ T', C14.applyAll ops Gen.builtin = some T' ∧
      ∀ f, (detect ext T' x lim).chain.length ≤ f →
        parentChain h3 r f = some (applyHead leafF (detect ext T' x lim).chain) := by
  obtain ⟨T', happ, hrep, _⟩ := runExt_rep ops builtin_rep hrun
  refine ⟨T', happ, fun f hf => ?_⟩
  have hst := (results_stable hrep (rep_height_le hrep) hm hs).2 f
  have hch : (detect ext T' x lim).chain = (walk (accepts ext (header x lim) lim) T').reverse := rfl
  rw [hch] at hf ⊢
  exact hst (by simpa using hf)

/-! ### non-vacuity: a root with two children and one grandchild -/

section Examples
open Mime.HeapLemmas

/- `exTree = node 0 [node 1 [node 3 []], node 2 []]`: grandchild, first child, second child, root
   are allocated in this order, at 0, 1, 2, 3 -/
example : build exTree [] = (exHeap, 3) := by decide
example : build exTree [] = exBuild := by decide
example : (build exTree []).1 =
    [⟨3, some 1, []⟩, ⟨1, some 3, [0]⟩, ⟨2, some 3, []⟩, ⟨0, none, [1, 2]⟩] := by decide
example : HeapAbs.abs (build exTree []).1 (build exTree []).2 = some exTree := by decide
example : HeapAbs.abs (build exTree []).1 (build exTree []).2 = some exTree := build_abs exTree
/- the argument list alone: two parentless roots at 1 and 2 -/
example : buildList [Tree.node 1 [.node 3 []], .node 2 []] ([] : Heap Nat) =
    ([⟨3, some 1, []⟩, ⟨1, none, [0]⟩, ⟨2, none, []⟩], [1, 2]) := by decide
/- on top of an existing heap: the old nodes stay, the addresses are shifted -/
example : build exTree [⟨7, none, []⟩] =
    ([⟨7, none, []⟩, ⟨3, some 2, []⟩, ⟨1, some 4, [1]⟩, ⟨2, some 4, []⟩, ⟨0, none, [2, 3]⟩], 4) := by decide
/- another order of the same calls (Go's order for
     `var root = newMIME(0, c1, c2); var errM = newMIME(9); var c2 = newMIME(2); var c1 = newMIME(1, g); var g = newMIME(3)`
   is errM, c2, g, c1, root): other addresses, a node outside the tree in between, the same tree -/
def exSched : Heap Nat × Ptr :=
  let (h0, _) := newMIME [] 9 []
  let (h1, c2) := newMIME h0 2 []
  let (h2, g) := newMIME h1 3 []
  let (h3, c1) := newMIME h2 1 [g]
  newMIME h3 0 [c1, c2]
example : exSched = ([⟨9, none, []⟩, ⟨2, some 4, []⟩, ⟨3, some 3, []⟩, ⟨1, some 4, [2]⟩, ⟨0, none, [3, 1]⟩], 4) := by
  decide
example : HeapAbs.abs exSched.1 exSched.2 = some exTree := by decide
example : exSched.1 ≠ (build exTree []).1 := by decide
/- a detection on the built heap -/
example : matchH exAcc (· + 100) (build exTree []).1 (build exTree []).2 4 = .ok (exHeap1, 4) := by decide

end Examples

end Mime.HeapBuild
