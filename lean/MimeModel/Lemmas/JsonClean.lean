import MimeModel.Lemmas.JsonQuery
import MimeModel.Model.Custom
/-
  An RFC 8259 document (the strict reference grammar) contains no binary-data byte: every byte
  the recogniser consumes is printable, or one of the four white-space bytes.  Hence the
  `text/plain` detector accepts every such document and every prefix of it.
-/
namespace Mime.JsonClean
open Mime Mime.Json Mime.Spec Mime.JsonLeaf Mime.JsonForward Mime.JsonQuery

/-- a byte RFC 8259 text may contain outside strings, or inside them: never a binary-data byte -/
def Good (c : Nat) : Prop := 0x20 ≤ c ∨ c = 0x09 ∨ c = 0x0A ∨ c = 0x0D

def GoodL (p : Bytes) : Prop := ∀ c ∈ p, Good c

theorem GoodL.append {a b : Bytes} (ha : GoodL a) (hb : GoodL b) : GoodL (a ++ b) := by
  intro c hc
  rcases List.mem_append.mp hc with h | h
  · exact ha c h
  · exact hb c h

theorem GoodL.cons {c : Nat} {b : Bytes} (hc : Good c) (hb : GoodL b) : GoodL (c :: b) := by
  intro x hx
  rcases List.mem_cons.mp hx with h | h
  · rw [h]; exact hc
  · exact hb x h

theorem goodL_nil : GoodL [] := by intro c hc; cases hc

theorem good_not_binary (c : Nat) (h : Good c) : Cust.binaryByte c = false := by
  unfold Cust.binaryByte
  simp only [Bool.or_eq_false_iff, decide_eq_false_iff_not, beq_eq_false_iff_ne, Bool.and_eq_false_iff]
  unfold Good at h
  omega

theorem ws_good (w : Bytes) (h : ∀ c ∈ w, isSpace c = true) : GoodL w := by
  intro c hc
  have := h c hc
  simp only [isSpace, Bool.or_eq_true, beq_iff_eq] at this
  unfold Good; omega

/-- strict strings contain no raw control byte -/
theorem str_strict_good (cs acc : Bytes) : ∀ (body r : Bytes),
    J.str true cs acc = .ok body r → GoodL acc → GoodL body := by
  fun_induction J.str true cs acc with
  | case1 => intro body r h; cases h
  | case2 c cs acc hq =>
    intro body r h ha
    simp only [J.R.ok.injEq] at h
    rw [← h.1]
    intro x hx; exact ha x (List.mem_reverse.mp hx)
  | case3 => intro body r h; cases h
  | case4 c acc hq hb e es he ih =>
    intro body r h ha
    apply ih body r h
    have hc : c = 0x5C := by simpa using hb
    have he' : Good e := by
      simp only [Bool.or_eq_true, beq_iff_eq] at he
      unfold Good; omega
    exact GoodL.cons he' (GoodL.cons (by unfold Good; omega) ha)
  | case5 c acc hq hb e he hu h1 h2 h3 h4 r' hh ih =>
    intro body r h ha
    apply ih body r h
    have hc : c = 0x5C := by simpa using hb
    have hue : e = 0x75 := by simpa using hu
    have hx : ∀ x, J.hexd x = true → Good x := by
      intro x hx
      simp only [J.hexd, J.digit, Bool.or_eq_true, Bool.and_eq_true, decide_eq_true_eq] at hx
      unfold Good; omega
    simp only [Bool.and_eq_true] at hh
    exact GoodL.cons (hx _ hh.2) (GoodL.cons (hx _ hh.1.2) (GoodL.cons (hx _ hh.1.1.2) (GoodL.cons (hx _ hh.1.1.1)
      (GoodL.cons (by unfold Good; omega) (GoodL.cons (by unfold Good; omega) ha)))))
  | case6 => intro body r h; cases h
  | case7 => intro body r h; cases h
  | case8 => intro body r h; cases h
  | case9 => intro body r h; cases h
  | case10 => intro body r h; cases h
  | case11 c cs acc hq hb hctl ih =>
    intro body r h ha
    apply ih body r h
    have : ¬ c < 0x20 := by simpa using hctl
    exact GoodL.cons (by unfold Good; omega) ha

/-- the consumed part of an input: `b = p ++ r` with `p` free of binary-data bytes -/
def Consumed (b r : Bytes) : Prop := ∃ p, b = p ++ r ∧ GoodL p

theorem Consumed.refl (b : Bytes) : Consumed b b := ⟨[], rfl, goodL_nil⟩

theorem Consumed.trans {a b c : Bytes} (h1 : Consumed a b) (h2 : Consumed b c) : Consumed a c := by
  obtain ⟨p, e1, g1⟩ := h1
  obtain ⟨q, e2, g2⟩ := h2
  exact ⟨p ++ q, by rw [e1, e2]; simp, g1.append g2⟩

theorem Consumed.cons {c : Nat} {b r : Bytes} (hc : Good c) (h : Consumed b r) : Consumed (c :: b) r := by
  obtain ⟨p, e, g⟩ := h
  exact ⟨c :: p, by rw [e]; rfl, GoodL.cons hc g⟩

theorem consumed_skipWs (b : Bytes) : Consumed b (J.skipWs b) := by
  obtain ⟨w, e, hw⟩ := skipWs_split b
  exact ⟨w, e, ws_good w hw⟩

theorem digit_good (c : Nat) (h : J.digit c = true) : Good c := by
  simp only [J.digit, Bool.and_eq_true, decide_eq_true_eq] at h
  unfold Good; omega

theorem consumed_digits (b : Bytes) : Consumed b (J.digits b).2 := by
  obtain ⟨ds, e, _, hd, _⟩ := digits_spec b
  exact ⟨ds, e, fun c hc => digit_good c (hd c hc)⟩

theorem consumed_digits1 (t r : Bytes) (h : J.digits1 t = .ok () r) : Consumed t r := by
  obtain ⟨d, ds, e, hd, _⟩ := digits1_ok t r h
  exact ⟨d :: ds, e, fun c hc => digit_good c (hd c hc)⟩

theorem consumed_dropSign (t : Bytes) : Consumed t (J.dropSign t) := by
  cases t with
  | nil => exact Consumed.refl _
  | cons s t' =>
    simp only [J.dropSign]
    split
    · rename_i hs
      refine Consumed.cons ?_ (Consumed.refl _)
      simp only [Bool.or_eq_true, beq_iff_eq] at hs
      unfold Good; omega
    · exact Consumed.refl _

theorem consumed_expPart (r r' : Bytes) (h : J.expPart r = .ok () r') : Consumed r r' := by
  cases r with
  | nil => simp only [J.expPart, J.R.ok.injEq, true_and] at h; subst h; exact Consumed.refl _
  | cons e t =>
    simp only [J.expPart] at h
    split at h
    · rename_i he
      have hg : Good e := by
        simp only [J.isExpChar, Bool.or_eq_true, beq_iff_eq] at he
        unfold Good; omega
      exact Consumed.cons hg ((consumed_dropSign t).trans (consumed_digits1 _ _ h))
    · simp only [J.R.ok.injEq, true_and] at h; subst h; exact Consumed.refl _

theorem consumed_fracStrict (r r' : Bytes) (h : J.fracStrict r = .ok () r') : Consumed r r' := by
  unfold J.fracStrict at h
  split at h
  · exact Consumed.cons (by unfold Good; omega) (consumed_digits1 _ _ h)
  · simp only [J.R.ok.injEq, true_and] at h; subst h; exact Consumed.refl _

theorem consumed_numStrict (b r : Bytes) (h : J.numStrict b = .ok () r) : Consumed b r := by
  have hm : Consumed b (J.dropMinus b) := by
    unfold J.dropMinus
    split
    · exact Consumed.cons (by unfold Good; omega) (Consumed.refl _)
    · exact Consumed.refl _
  refine hm.trans ?_
  unfold J.numStrict at h
  generalize J.dropMinus b = b1 at h
  cases b1 with
  | nil => cases h
  | cons c cs =>
    simp only at h
    split at h
    · cases h
    · rename_i hd
      have hdc : J.digit c = true := by simpa using hd
      have hint : Consumed (c :: cs) (if c == 0x30 then cs else (J.digits cs).2) := by
        split
        · exact Consumed.cons (digit_good c hdc) (Consumed.refl _)
        · exact Consumed.cons (digit_good c hdc) (consumed_digits cs)
      refine hint.trans ?_
      generalize (if c == 0x30 then cs else (J.digits cs).2) = ai at h
      unfold J.andThen at h
      cases hf : J.fracStrict ai with
      | ok u r1 =>
        rw [hf] at h
        exact (consumed_fracStrict ai r1 hf).trans (consumed_expPart r1 r h)
      | more => rw [hf] at h; cases h
      | bad => rw [hf] at h; cases h

theorem consumed_lit (w b r : Bytes) (hw : GoodL w) (h : J.lit w b = .ok () r) : Consumed b r :=
  ⟨w, lit_ok_iff w b r h, hw⟩

theorem consumed_str (cs body r : Bytes) (h : J.str true cs [] = .ok body r) : Consumed cs r := by
  have e := str_body true cs [] body r h
  have g := str_strict_good cs [] body r h goodL_nil
  simp only [List.reverse_nil, List.nil_append] at e
  refine ⟨body ++ [0x22], by rw [e]; simp, g.append ?_⟩
  intro c hc
  simp at hc; subst hc; unfold Good; omega

def CV (f : Nat) : Prop := ∀ b v r, J.value true f b = .ok v r → Consumed b r
def CI (f : Nat) : Prop := ∀ b acc first v r, J.items true f b acc first = .ok v r → Consumed b r
def CM (f : Nat) : Prop := ∀ b acc first v r, J.members true f b acc first = .ok v r → Consumed b r

theorem good_of (c : Nat) (h : 0x20 ≤ c) : Good c := Or.inl h

theorem cv_step (f : Nat) (hI : CI f) (hM : CM f) : CV (f + 1) := by
  intro b v r h
  refine (consumed_skipWs b).trans ?_
  simp only [J.value] at h
  cases hsk : J.skipWs b with
  | nil => simp [hsk] at h
  | cons c cs =>
    simp only [hsk] at h
    split at h
    · rename_i hc
      have : c = 0x22 := by simpa using hc
      cases hs : J.str true cs [] with
      | ok body r' =>
        simp only [hs, J.R.ok.injEq] at h
        rw [← h.2]
        exact Consumed.cons (good_of c (by omega)) (consumed_str cs body r' hs)
      | more => simp [hs] at h
      | bad => simp [hs] at h
    split at h
    · rename_i _ hc
      have : c = 0x5B := by simpa using hc
      exact Consumed.cons (good_of c (by omega)) (hI _ _ _ _ _ h)
    split at h
    · rename_i _ _ hc
      have : c = 0x7B := by simpa using hc
      exact Consumed.cons (good_of c (by omega)) (hM _ _ _ _ _ h)
    split at h
    · cases hl : J.lit [0x74, 0x72, 0x75, 0x65] (c :: cs) with
      | ok u r' =>
        simp only [hl, J.R.ok.injEq] at h
        rw [← h.2]
        exact consumed_lit _ _ _ (by intro x hx; simp at hx; rcases hx with rfl | rfl | rfl | rfl <;> exact good_of _ (by omega)) hl
      | more => simp [hl] at h
      | bad => simp [hl] at h
    split at h
    · cases hl : J.lit [0x66, 0x61, 0x6C, 0x73, 0x65] (c :: cs) with
      | ok u r' =>
        simp only [hl, J.R.ok.injEq] at h
        rw [← h.2]
        exact consumed_lit _ _ _ (by intro x hx; simp at hx; rcases hx with rfl | rfl | rfl | rfl | rfl <;> exact good_of _ (by omega)) hl
      | more => simp [hl] at h
      | bad => simp [hl] at h
    split at h
    · cases hl : J.lit [0x6E, 0x75, 0x6C, 0x6C] (c :: cs) with
      | ok u r' =>
        simp only [hl, J.R.ok.injEq] at h
        rw [← h.2]
        exact consumed_lit _ _ _ (by intro x hx; simp at hx; rcases hx with rfl | rfl | rfl | rfl <;> exact good_of _ (by omega)) hl
      | more => simp [hl] at h
      | bad => simp [hl] at h
    · simp only [↓reduceIte] at h
      cases hn : J.numStrict (c :: cs) with
      | ok u r' =>
        simp only [hn, J.R.ok.injEq] at h
        rw [← h.2]
        exact consumed_numStrict _ _ hn
      | more => simp [hn] at h
      | bad => simp [hn] at h

theorem ci_step (f : Nat) (hV : CV f) (hI : CI f) : CI (f + 1) := by
  intro b acc first v r h
  refine (consumed_skipWs b).trans ?_
  simp only [J.items] at h
  cases hsk : J.skipWs b with
  | nil => simp [hsk] at h
  | cons c cs =>
    simp only [hsk] at h
    split at h
    · rename_i hc
      simp only [J.R.ok.injEq] at h
      rw [← h.2]
      have : c = 0x5D := by simp only [Bool.and_eq_true, beq_iff_eq] at hc; exact hc.1
      exact Consumed.cons (good_of c (by omega)) (Consumed.refl _)
    · cases hval : J.value true f (c :: cs) with
      | more => simp [hval] at h
      | bad => simp [hval] at h
      | ok v1 r1 =>
        simp only [hval] at h
        refine (hV _ _ _ hval).trans ((consumed_skipWs r1).trans ?_)
        cases hs1 : J.skipWs r1 with
        | nil => simp [hs1] at h
        | cons d ds =>
          simp only [hs1] at h
          split at h
          · rename_i hd
            have : d = 0x2C := by simpa using hd
            exact Consumed.cons (good_of d (by omega)) (hI _ _ _ _ _ h)
          · split at h
            · rename_i _ hd
              simp only [J.R.ok.injEq] at h
              rw [← h.2]
              have : d = 0x5D := by simpa using hd
              exact Consumed.cons (good_of d (by omega)) (Consumed.refl _)
            · cases h

theorem cm_step (f : Nat) (hV : CV f) (hM : CM f) : CM (f + 1) := by
  intro b acc first v r h
  refine (consumed_skipWs b).trans ?_
  simp only [J.members] at h
  cases hsk : J.skipWs b with
  | nil => simp [hsk] at h
  | cons c cs =>
    simp only [hsk] at h
    split at h
    · rename_i hc
      simp only [J.R.ok.injEq] at h
      rw [← h.2]
      have : c = 0x7D := by simp only [Bool.and_eq_true, beq_iff_eq] at hc; exact hc.1
      exact Consumed.cons (good_of c (by omega)) (Consumed.refl _)
    · split at h
      · cases h
      · rename_i _ hq
        have hc : c = 0x22 := by simpa using hq
        cases hstr : J.str true cs [] with
        | more => simp [hstr] at h
        | bad => simp [hstr] at h
        | ok key r0 =>
          simp only [hstr] at h
          refine Consumed.cons (good_of c (by omega)) ((consumed_str cs key r0 hstr).trans ((consumed_skipWs r0).trans ?_))
          cases hs0 : J.skipWs r0 with
          | nil => simp [hs0] at h
          | cons d ds =>
            simp only [hs0] at h
            split at h
            · cases h
            · rename_i hcol
              have hd : d = 0x3A := by simpa using hcol
              refine Consumed.cons (good_of d (by omega)) ?_
              cases hval : J.value true f ds with
              | more => simp [hval] at h
              | bad => simp [hval] at h
              | ok v1 r2 =>
                simp only [hval] at h
                refine (hV _ _ _ hval).trans ((consumed_skipWs r2).trans ?_)
                cases hs3 : J.skipWs r2 with
                | nil => simp [hs3] at h
                | cons g gs =>
                  simp only [hs3] at h
                  split at h
                  · rename_i hg
                    have : g = 0x2C := by simpa using hg
                    exact Consumed.cons (good_of g (by omega)) (hM _ _ _ _ _ h)
                  · split at h
                    · rename_i _ hg
                      simp only [J.R.ok.injEq] at h
                      rw [← h.2]
                      have : g = 0x7D := by simpa using hg
                      exact Consumed.cons (good_of g (by omega)) (Consumed.refl _)
                    · cases h

theorem consumed_all : ∀ f, CV f ∧ CI f ∧ CM f := by
  intro f
  induction f with
  | zero =>
    refine ⟨?_, ?_, ?_⟩
    · intro b v r h; simp [J.value] at h
    · intro b acc first v r h; simp [J.items] at h
    · intro b acc first v r h; simp [J.members] at h
  | succ f ih =>
    obtain ⟨hV, hI, hM⟩ := ih
    exact ⟨cv_step f hI hM, ci_step f hV hI, cm_step f hV hM⟩

/-- **an RFC 8259 document contains no binary-data byte** -/
theorem doc_good (D : Bytes) (v : J.JVal) (h : J.doc true D = some v) : GoodL D := by
  unfold J.doc at h
  cases hf : J.firstNonWs D with
  | none => simp [hf] at h
  | some c =>
    simp only [hf] at h
    split at h
    · cases h
    · cases hval : J.value true (J.fuelFor D) D with
      | more => simp [hval] at h
      | bad => simp [hval] at h
      | ok v' r =>
        simp only [hval] at h
        split at h
        · rename_i hws
          obtain ⟨p, e, g⟩ := (consumed_all (J.fuelFor D)).1 D v' r hval
          obtain ⟨w, e2, hw⟩ := skipWs_split r
          have hr : J.skipWs r = [] := by simpa using hws
          rw [hr, List.append_nil] at e2
          rw [e, e2]
          exact g.append (ws_good w hw)
        · cases h


end Mime.JsonClean
