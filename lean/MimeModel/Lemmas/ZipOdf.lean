import MimeModel.Lemmas.ZipConverse
import MimeModel.Lemmas.WalkPath
/-
  Helper lemmas for the OpenDocument / EPUB clause of C19 (`MimeModel.Props.C19_Odf`):

  * byte lists that are not comparable (`incomp`): a buffer cannot start with both;
  * the layout of an archive whose first entry is the stored `mimetype` file
    (`StoredMimetype`, `mimetype_at_30`): the name sits at offset 30, the type right after it;
  * `zipContains … true` (the OOXML variant, with the first-entry check of zip.go) answers
    `false` at the first entry when its name is neither the marker nor one of the OOXML
    "skip files" (`zipContains_mso_first`, `mso_rejects_first_entry`);
  * the exact result of the walk along an accepted path (`walk_exact`).
-/
namespace Mime.ZipOdf
open Mime Mime.Spec.Zip Mime.ZipLayout Mime.Tree Mime.WalkPath

/-! ### incomparable byte strings -/

/-- neither starts with the other -/
def incomp (a b : Bytes) : Bool := !hasPrefix a b && !hasPrefix b a

/-- a buffer that starts with `a` does not start with a `b` that is not comparable with `a` -/
theorem incomp_false {a b x : Bytes} (h : incomp a b = true) (ha : hasPrefix x a = true) :
    hasPrefix x b = false := by
  cases hb : hasPrefix x b with
  | false => rfl
  | true =>
    exfalso
    simp only [incomp, Bool.and_eq_true, Bool.not_eq_true'] at h
    rw [hasPrefix_iff] at ha hb
    rcases List.prefix_or_prefix_of_prefix ha hb with h1 | h1
    · have := hasPrefix_iff.mpr h1
      rw [h.2] at this; cases this
    · have := hasPrefix_iff.mpr h1
      rw [h.1] at this; cases this

/-- `hasPrefix` cancels a common front -/
theorem hasPrefix_append_left (p a b : Bytes) : hasPrefix (p ++ a) (p ++ b) = hasPrefix a b := by
  cases h : hasPrefix a b with
  | true =>
    rw [hasPrefix_iff] at h ⊢
    exact (List.prefix_append_right_inj p).mpr h
  | false =>
    cases h' : hasPrefix (p ++ a) (p ++ b) with
    | false => rfl
    | true =>
      rw [hasPrefix_iff] at h'
      have := hasPrefix_iff.mpr ((List.prefix_append_right_inj p).mp h')
      rw [h] at this; cases this

/-- prefixes compose -/
theorem hasPrefix_trans {x a b : Bytes} (h1 : hasPrefix x a = true) (h2 : hasPrefix a b = true) :
    hasPrefix x b = true := by
  rw [hasPrefix_iff] at *
  exact List.IsPrefix.trans h2 h1

/-! ### the stored `mimetype` entry -/

/-- the bytes of `mimetype` -/
def mtB : Bytes := [109, 105, 109, 101, 116, 121, 112, 101]

theorem mtB_eq : ofString "mimetype" = mtB := by decide +kernel

/-- **the first entry is the stored `mimetype` file naming the type `ty`**: well-formed header,
    name `mimetype`, no extra field, and the data (stored, i.e. the file's own bytes) start
    with `ty` -/
structure StoredMimetype (e : Entry) (ty : Bytes) : Prop where
  wf : e.WF
  name : e.name = ofString "mimetype"
  extra : e.extra = []
  data : hasPrefix e.data ty = true

instance (e : Entry) (ty : Bytes) : Decidable (StoredMimetype e ty) :=
  if h : e.WF ∧ e.name = ofString "mimetype" ∧ e.extra = [] ∧ hasPrefix e.data ty = true
  then isTrue ⟨h.1, h.2.1, h.2.2.1, h.2.2.2⟩
  else isFalse (fun s => h ⟨s.wf, s.name, s.extra, s.data⟩)

/-- what is found 30 bytes into the archive: the name, the data, the descriptor, the rest -/
theorem drop30 {e : Entry} {ty : Bytes} (h : StoredMimetype e ty) (es : List Entry) (tail : Bytes) :
    (archive (e :: es) tail).drop 30 = mtB ++ (e.data ++ (e.desc ++ archive es tail)) := by
  rw [archive_cons, drop_image_name e _ h.wf.1, h.name, mtB_eq, h.extra]
  simp only [List.nil_append, List.append_assoc]

/-- the archive starts with a local file header signature -/
theorem archive_pk34 (e : Entry) (es : List Entry) (tail : Bytes) :
    archive (e :: es) tail = pk34 ++ (e.body ++ archive es tail) := by
  rw [archive_cons]; simp only [Entry.image, List.append_assoc]

theorem archive_hasPrefix_pk34 (e : Entry) (es : List Entry) (tail : Bytes) :
    hasPrefix (archive (e :: es) tail) pk34 = true := by
  rw [archive_pk34, hasPrefix_iff]; exact List.prefix_append _ _

/-- the header and the name alone are 38 bytes -/
theorem archive_length_38 {e : Entry} {ty : Bytes} (h : StoredMimetype e ty) (es : List Entry)
    (tail : Bytes) : 38 ≤ (archive (e :: es) tail).length := by
  have h1 := archive_length_ge e es tail
  have h2 := Entry.image_length e
  have h3 : e.name.length = 8 := by rw [h.name, mtB_eq]; rfl
  have h4 := h.wf.1
  omega

/-- **1. layout lemma**: `mimetype` followed by the type is what the file shows at offset 30,
    and the file has more than 30 bytes (whatever `ty`: the name alone reaches offset 38) -/
theorem mimetype_at_30 {e : Entry} {ty : Bytes} (h : StoredMimetype e ty) (es : List Entry)
    (tail : Bytes) :
    hasPrefix ((archive (e :: es) tail).drop 30) (ofString "mimetype" ++ ty) = true ∧
    31 ≤ (archive (e :: es) tail).length := by
  refine ⟨?_, by have := archive_length_38 h es tail; omega⟩
  rw [drop30 h, mtB_eq, hasPrefix_append_left]
  exact hasPrefix_append _ h.data

/-! ### the OOXML variant of `zipContains` stops at a first entry that is not an OOXML part -/

/-- zip.go, `msoCheck` branch: the marker is not at the first name position and the first name
    is none of the "skip files" ⇒ `false`, immediately -/
theorem zipContains_mso_first (raw sig : Bytes) (hl : 30 ≤ raw.length)
    (hpk : hasPrefix raw pk34 = true)
    (h1 : hasPrefix (raw.drop 30) sig = false)
    (h2 : msoSkipFiles.any (fun sf => hasPrefix (raw.drop 30) sf) = false) :
    zipContains raw sig true = some false := by
  rw [zipContains_of_header raw sig true hl hpk]
  unfold zipWalk
  simp only [h1, h2, Bool.false_eq_true, ↓reduceIte, Bool.not_false, Bool.and_self]

/-- the same at byte level, for a buffer that shows `n` at the first name position, `n` not
    comparable with the marker nor with any skip file -/
theorem zipContains_mso_first_name (raw sig n : Bytes) (hl : 30 ≤ raw.length)
    (hpk : hasPrefix raw pk34 = true) (hn : hasPrefix (raw.drop 30) n = true)
    (hsig : incomp n sig = true) (hskip : msoSkipFiles.all (fun sf => incomp n sf) = true) :
    zipContains raw sig true = some false := by
  refine zipContains_mso_first raw sig hl hpk (incomp_false hsig hn) ?_
  rw [List.any_eq_false]
  intro sf hsf
  rw [List.all_eq_true] at hskip
  rw [incomp_false (hskip sf hsf) hn]
  exact Bool.false_ne_true

/-- **4. from the layout**: the first entry's name is not comparable with the marker nor with
    any of the OOXML skip files ⇒ the OOXML check answers `false` -/
theorem mso_rejects_first_entry (e : Entry) (es : List Entry) (tail sig : Bytes) (hwf : e.WF)
    (hsig : incomp e.name sig = true) (hskip : msoSkipFiles.all (fun sf => incomp e.name sf) = true) :
    zipContains (archive (e :: es) tail) sig true = some false := by
  refine zipContains_mso_first_name _ sig e.name ?_ (archive_hasPrefix_pk34 e es tail) ?_ hsig hskip
  · have h1 := archive_length_ge e es tail
    have h2 := Entry.image_length e
    have h4 := hwf.1
    omega
  · rw [archive_cons, drop_image_name e _ hwf.1, hasPrefix_iff]
    exact List.prefix_append _ _

theorem mimetype_skip : msoSkipFiles.all (fun sf => incomp mtB sf) = true := by decide +kernel

/-! ### the walk along an accepted path, exactly -/

variable {α : Type}

theorem walkList_none (acc : α → Bool) : ∀ cs : List (Tree α), (∀ c ∈ cs, acc c.info = false) →
    walkList acc cs = [] := by
  intro cs
  induction cs with
  | nil => intro _; rfl
  | cons x xs ih =>
    intro hx
    simp [walkList, hx x (by simp), ih (fun c hc => hx c (by simp [hc]))]

/-- every node of the path accepts, no child of its end accepts: the walk is the path — unless
    a sibling in front of a path node accepts -/
theorem walk_exact (acc : α → Bool) : ∀ (ps : List (Tree α → Bool)) (t target : Tree α),
    descend ps t = some target → (∀ n ∈ pathNodes ps t, acc n.info = true) →
    (∀ c ∈ target.children, acc c.info = false) →
    walk acc t = t.info :: (pathNodes ps t).map (·.info) ∨ (∃ d ∈ rivals ps t, acc d.info = true) := by
  intro ps
  induction ps with
  | nil =>
    intro t target h _ hleaf
    simp only [descend, Option.some.injEq] at h
    subst h
    left
    rw [walk_unfold, walkList_none acc _ hleaf]
    rfl
  | cons p ps ih =>
    intro t target h hall hleaf
    simp only [descend] at h
    cases hf : t.children.find? p with
    | none => simp [hf] at h
    | some c =>
      simp only [hf] at h
      have hc : acc c.info = true := hall c (by simp [pathNodes, hf])
      have hrest : ∀ n ∈ pathNodes ps c, acc n.info = true := fun n hn => hall n (by simp [pathNodes, hf, hn])
      rcases walkList_first acc p t.children c hf hc with ⟨d, hd, hda⟩ | hw
      · right
        exact ⟨d, by simp [rivals, hd], hda⟩
      · rcases ih c target h hrest hleaf with hex | ⟨d, hd, hda⟩
        · left
          rw [walk_unfold acc t, hw, hex]
          simp [pathNodes, hf]
        · right
          exact ⟨d, by simp [rivals, hf, hd], hda⟩

end Mime.ZipOdf
