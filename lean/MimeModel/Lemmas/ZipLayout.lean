import MimeModel.Spec.Zip
import MimeModel.Lemmas.C19Base
/-
  C19 forward clause derived from the zip layout specification (`MimeModel.Spec.Zip`).
-/
namespace Mime.ZipLayout
open Mime Mime.Spec.Zip Mime.C19Base

/-! ### byte-level library -/

theorem pk34_length : pk34.length = 4 := rfl

/-- `indexOf … = none` unfolds to: no match here, none later -/
theorem indexOf_cons_none {sep : Bytes} {a : Nat} {as : Bytes} (h : indexOf sep (a :: as) = none) :
    sep.isPrefixOf (a :: as) = false ∧ indexOf sep as = none := by
  simp only [indexOf] at h
  split at h
  · cases h
  · rename_i hp
    refine ⟨Bool.eq_false_iff.mpr hp, ?_⟩
    cases hi : indexOf sep as with
    | none => rfl
    | some k => simp [hi] at h

/-- cleanliness is inherited by suffixes -/
theorem indexOf_drop_none {sep : Bytes} : ∀ (k : Nat) (s : Bytes), indexOf sep s = none →
    indexOf sep (s.drop k) = none := by
  intro k
  induction k with
  | zero => intro s h; simpa using h
  | succ k ih =>
    intro s h
    cases s with
    | nil => simpa using h
    | cons a as => simpa using ih as (indexOf_cons_none h).2

/-- **no straddling occurrence**: `PK\x03\x04` has no proper border, so it cannot start inside a
    non-empty block `s` (that it is not a prefix of) and end inside the `PK\x03\x04` that follows -/
theorem no_straddle (s r : Bytes) (hs : s ≠ []) (h : pk34.isPrefixOf s = false) :
    pk34.isPrefixOf (s ++ pk34 ++ r) = false := by
  match s, hs, h with
  | [a], _, _ => simp [pk34, List.isPrefixOf]
  | [a, b], _, _ => simp [pk34, List.isPrefixOf]
  | [a, b, c], _, _ => simp [pk34, List.isPrefixOf]
  | a :: b :: c :: d :: t, _, h => simpa [pk34, List.isPrefixOf] using h

theorem indexOf_pk34_self (r : Bytes) : indexOf pk34 (pk34 ++ r) = some 0 := by
  simp [pk34, indexOf, List.isPrefixOf]

/-- a clean block followed by a signature: the first signature is right after the block -/
theorem indexOf_append_clean : ∀ (s r : Bytes), indexOf pk34 s = none →
    indexOf pk34 (s ++ pk34 ++ r) = some s.length := by
  intro s
  induction s with
  | nil => intro r _; simpa using indexOf_pk34_self r
  | cons a as ih =>
    intro r h
    obtain ⟨h1, h2⟩ := indexOf_cons_none h
    have hn := no_straddle (a :: as) r (by simp) h1
    have ih' := ih r h2
    simp only [List.cons_append, List.append_assoc] at hn ih' ⊢
    simp only [indexOf, hn, Bool.false_eq_true, ↓reduceIte, ih', List.length_cons]


/-- the same from anywhere at or after the start of a clean block `body` that follows a
    signature: searching from offset `so` (`4 ≤ so ≤ 4 + body.length`) of
    `pk34 ++ body ++ pk34 ++ nxt` finds the second signature -/
theorem indexOf_in_image (body nxt : Bytes) (so : Nat) (hc : indexOf pk34 body = none)
    (h4 : 4 ≤ so) (hso : so ≤ 4 + body.length) :
    indexOf pk34 ((pk34 ++ body ++ (pk34 ++ nxt)).drop so) = some (4 + body.length - so) := by
  obtain ⟨k, rfl⟩ : ∃ k, so = pk34.length + k := ⟨so - 4, by rw [pk34_length]; omega⟩
  rw [pk34_length] at hso
  rw [List.append_assoc, ← List.drop_drop, List.drop_left,
    List.drop_append_of_le_length (by omega), ← List.append_assoc,
    indexOf_append_clean _ _ (indexOf_drop_none k body hc), List.length_drop, pk34_length]
  congr 1; omega

/-- one hop, at byte level: after `pre`, an entry image `pk34 ++ body` with a clean body of at
    least 26 + 26 bytes, then the next image `pk34 ++ nxt` with a complete header -/
theorem hop_bytes (pre body nxt : Bytes) (hc : indexOf pk34 body = none)
    (hl : 52 ≤ body.length) (hn : 26 ≤ nxt.length) :
    Hop (pre ++ (pk34 ++ body ++ (pk34 ++ nxt))) (pre.length + 30) (pre.length + (4 + body.length)) := by
  refine ⟨?_, ?_, ?_, ?_⟩
  · simp only [List.length_append, pk34_length]; omega
  · omega
  · have e1 : pre.length + 30 + 0x1A = pre.length + 56 := by omega
    have e2 : pre.length + (4 + body.length) - (pre.length + 30 + 0x1A) = 4 + body.length - 56 := by omega
    rw [e1, e2, ← List.drop_drop, List.drop_left]
    exact indexOf_in_image body nxt 56 hc (by omega) (by omega)
  · simp only [List.length_append, pk34_length]; omega

/-! ### entry-level library -/

/-- the name of an entry sits 30 bytes after the start of its image -/
theorem drop_image_name (e : Entry) (x : Bytes) (hf : e.fixed.length = 26) :
    (e.image ++ x).drop 30 = e.name ++ (e.extra ++ e.data ++ e.desc ++ x) := by
  have : e.image ++ x = (pk34 ++ e.fixed) ++ (e.name ++ (e.extra ++ e.data ++ e.desc ++ x)) := by
    simp only [Entry.image, Entry.body, List.append_assoc]
  rw [this]
  exact List.drop_left' (by simp only [List.length_append, pk34_length, hf])

theorem getD_image (e : Entry) (x : Bytes) (i : Nat) (hf : e.fixed.length = 26) (hi : i < 26) :
    (e.image ++ x).getD (4 + i) 0 = e.fixed.getD i 0 := by
  have : e.image ++ x = pk34 ++ (e.fixed ++ (e.name ++ e.extra ++ e.data ++ e.desc ++ x)) := by
    simp only [Entry.image, Entry.body, List.append_assoc]
  rw [this, List.getD_eq_getElem?_getD, List.getD_eq_getElem?_getD,
    List.getElem?_append_right (by rw [pk34_length]; omega), pk34_length,
    List.getElem?_append_left (by omega)]
  congr 2; omega

/-- the compressed-size field read by `zipContains` at offset 18 is the first entry's -/
theorem u32le_image (e : Entry) (x : Bytes) (hf : e.fixed.length = 26) :
    u32le (e.image ++ x) 18 = e.csizeField := by
  simp only [Entry.csizeField, u32le]
  rw [← getD_image e x 14 hf (by omega), ← getD_image e x 15 hf (by omega),
    ← getD_image e x 16 hf (by omega), ← getD_image e x 17 hf (by omega)]

/-- `u32le` of four real bytes is below 2^32 -/
theorem u32le_lt (b : Bytes) (off : Nat) (h : ∀ x ∈ b, x < 256) : u32le b off < 4294967296 := by
  have g : ∀ i, b.getD i 0 < 256 := by
    intro i
    rw [List.getD_eq_getElem?_getD]
    cases hi : b[i]? with
    | none => simp
    | some v => exact h v (List.mem_of_getElem? hi)
  have h0 := g off; have h1 := g (off + 1); have h2 := g (off + 2); have h3 := g (off + 3)
  unfold u32le; omega

theorem csizeField_lt (e : Entry) (h : e.WF) : e.csizeField < 4294967296 :=
  u32le_lt e.fixed 14 (fun x hx => h.2 x (by simp only [Entry.body, List.mem_append]; simp [hx]))

theorem archive_cons (e : Entry) (es : List Entry) (tail : Bytes) :
    archive (e :: es) tail = e.image ++ archive es tail := by
  simp only [archive, List.map_cons, List.flatten_cons, List.append_assoc]

theorem archive_append (es fs : List Entry) (tail : Bytes) :
    archive (es ++ fs) tail = (es.map Entry.image).flatten ++ archive fs tail := by
  simp only [archive, List.map_append, List.flatten_append, List.append_assoc]


/-- whatever follows an entry inside `mid ++ [em]` starts with a complete local header -/
theorem next_is_header (mid : List Entry) (em : Entry) (suf : Bytes)
    (hwf : ∀ e ∈ mid, e.WF) (hem : em.WF) :
    ∃ nxt, 26 ≤ nxt.length ∧ (mid.map Entry.image).flatten ++ (em.image ++ suf) = pk34 ++ nxt := by
  cases mid with
  | nil =>
    refine ⟨em.body ++ suf, ?_, by simp only [List.map_nil, List.flatten_nil, List.nil_append, Entry.image, List.append_assoc]⟩
    have := hem.1
    simp only [List.length_append, Entry.body_length]; omega
  | cons m t =>
    refine ⟨m.body ++ ((t.map Entry.image).flatten ++ (em.image ++ suf)), ?_, by
      simp only [List.map_cons, List.flatten_cons, Entry.image, List.append_assoc]⟩
    have := (hwf m (by simp)).1
    simp only [List.length_append, Entry.body_length]; omega

/-- the name position reached after the images `pre ++ m.image` shows the next entry's name -/
theorem drop_to_name (pre : Bytes) (e : Entry) (x : Bytes) (hf : e.fixed.length = 26) :
    (pre ++ (e.image ++ x)).drop (pre.length + 30) = e.name ++ (e.extra ++ e.data ++ e.desc ++ x) := by
  rw [← List.drop_drop, List.drop_left, drop_image_name e x hf]

/-- **the walk through the middle entries**: from the name of the first entry of a non-empty
    `mid` (clean, realistic entries), a chain of at most `mid.length` hops reaches a name that
    starts with the marker — the name of `em`, or an earlier one that happens to start with it -/
theorem chain_of_layout (sig : Bytes) (em : Entry) (suf : Bytes) (hem : em.WF)
    (hmark : hasPrefix em.name sig = true) :
    ∀ (mid : List Entry) (pre : Bytes), mid ≠ [] → (∀ e ∈ mid, e.WF) → (∀ e ∈ mid, e.Clean) →
      (∀ e ∈ mid, e.Realistic) →
      ∃ n, n ≤ mid.length ∧
        Chain (pre ++ ((mid.map Entry.image).flatten ++ (em.image ++ suf))) sig (pre.length + 30) n := by
  intro mid
  induction mid with
  | nil => intro pre h; exact absurd rfl h
  | cons m t ih =>
    intro pre _ hwf hclean hreal
    have hwft : ∀ e ∈ t, e.WF := fun e he => hwf e (List.mem_cons_of_mem _ he)
    have hmwf := hwf m (by simp)
    have hmc : indexOf pk34 m.body = none := hclean m (by simp)
    have hmr : 26 ≤ m.name.length + m.extra.length + m.data.length + m.desc.length := hreal m (by simp)
    obtain ⟨nxt, hnl, hnxt⟩ := next_is_header t em suf hwft hem
    have hbl : 52 ≤ m.body.length := by rw [Entry.body_length, hmwf.1]; omega
    -- the hop over `m`
    have hop : Hop (pre ++ (((m :: t).map Entry.image).flatten ++ (em.image ++ suf))) (pre.length + 30)
        ((pre ++ m.image).length) := by
      have e : pre ++ (((m :: t).map Entry.image).flatten ++ (em.image ++ suf))
          = pre ++ (pk34 ++ m.body ++ (pk34 ++ nxt)) := by
        rw [← hnxt]; simp only [List.map_cons, List.flatten_cons, Entry.image, List.append_assoc]
      have l : (pre ++ m.image).length = pre.length + (4 + m.body.length) := by
        simp only [List.length_append, Entry.image, pk34_length]
      rw [e, l]
      exact hop_bytes pre m.body nxt hmc hbl hnl
    -- regroup: the rest of the file after `pre ++ m.image`
    have regroup : pre ++ (((m :: t).map Entry.image).flatten ++ (em.image ++ suf))
        = (pre ++ m.image) ++ ((t.map Entry.image).flatten ++ (em.image ++ suf)) := by
      simp only [List.map_cons, List.flatten_cons, List.append_assoc]
    cases t with
    | nil =>
      refine ⟨1, by simp, Chain.last _ _ hop ?_⟩
      rw [regroup]
      simp only [List.map_nil, List.flatten_nil, List.nil_append]
      rw [drop_to_name (pre ++ m.image) em suf hem.1]
      exact hasPrefix_append _ hmark
    | cons m' t' =>
      by_cases hp : hasPrefix ((pre ++ (((m :: m' :: t').map Entry.image).flatten ++ (em.image ++ suf))).drop
          ((pre ++ m.image).length + 0x1E)) sig = true
      · exact ⟨1, by simp, Chain.last _ _ hop hp⟩
      · obtain ⟨n, hn, hc⟩ := ih (pre ++ m.image) (by simp) hwft
          (fun e he => hclean e (List.mem_cons_of_mem _ he))
          (fun e he => hreal e (List.mem_cons_of_mem _ he))
        refine ⟨n + 1, by simp only [List.length_cons] at hn ⊢; omega, Chain.step _ _ _ hop (by simpa using hp) ?_⟩
        rw [regroup]
        exact hc

/-- core form of `layout_forward`, with the weakest no-wrap condition: the 32-bit addition
    `compressedSize + 49` of zip.go does not overflow.  (It is implied by `hfirst` as soon as the
    first entry — a fortiori the archive — is shorter than 4 GiB; without it the claim is false:
    a first entry of ≥ 4 GiB whose size field is 2^32 - 49 sends the search back to offset 0.) -/
theorem layout_forward_core (e1 : Entry) (mid : List Entry) (em : Entry) (rest : List Entry)
    (tail sig : Bytes) (mso : Bool)
    (hwf : ∀ e ∈ e1 :: mid ++ [em], e.WF)
    (hclean : ∀ e ∈ e1 :: mid, e.Clean)
    (hreal : ∀ e ∈ mid, e.Realistic)
    (hmid : mid.length ≤ 4)
    (hfirst : e1.csizeField + 49 ≤
      30 + e1.name.length + e1.extra.length + e1.data.length + e1.desc.length)
    (hnowrap : e1.csizeField + 49 < 4294967296)
    (hmso : mso = true → msoSkipFiles.any (fun sf => hasPrefix e1.name sf) = true)
    (hmark : hasPrefix em.name sig = true) :
    zipContains (archive (e1 :: mid ++ em :: rest) tail) sig mso = some true := by
  have hwf1 : e1.WF := hwf e1 (by simp)
  have hwfm : ∀ e ∈ mid, e.WF := fun e he => hwf e (by simp [he])
  have hwfe : em.WF := hwf em (by simp)
  have hc1 : indexOf pk34 e1.body = none := hclean e1 (by simp)
  have hcm : ∀ e ∈ mid, e.Clean := fun e he => hclean e (List.mem_cons_of_mem _ he)
  -- the file, regrouped
  have hraw : archive (e1 :: mid ++ em :: rest) tail
      = e1.image ++ ((mid.map Entry.image).flatten ++ (em.image ++ archive rest tail)) := by
    rw [List.cons_append, archive_cons, archive_append, archive_cons]
  rw [hraw]
  generalize archive rest tail = suf
  obtain ⟨nxt, hnl, hnxt⟩ := next_is_header mid em suf hwfm hwfe
  have hil : e1.image.length = 30 + e1.name.length + e1.extra.length + e1.data.length + e1.desc.length := by
    rw [Entry.image_length, hwf1.1]; omega
  have hbl : 4 + e1.body.length = e1.image.length := by simp only [Entry.image, List.length_append, pk34_length]
  have hcs : u32le (e1.image ++ ((mid.map Entry.image).flatten ++ (em.image ++ suf))) 18 = e1.csizeField :=
    u32le_image e1 _ hwf1.1
  have hlen : (e1.image ++ ((mid.map Entry.image).flatten ++ (em.image ++ suf))).length
      = e1.image.length + (4 + nxt.length) := by
    rw [hnxt]; simp only [List.length_append, pk34_length]
  have hmod : (e1.csizeField + 49) % 4294967296 = e1.csizeField + 49 :=
    Nat.mod_eq_of_lt hnowrap
  have hpos : 0x1E + (e1.csizeField + 49) + (e1.image.length - (e1.csizeField + 49)) = e1.image.length + 30 := by
    omega
  apply zipContains_forward _ sig mso (e1.image.length - (e1.csizeField + 49))
  · rw [hlen]; omega
  · -- the archive starts with the local header of its first entry
    simp [Entry.image, pk34, hasPrefix, List.isPrefixOf]
  · intro h
    have := hmso h
    rw [drop_image_name e1 _ hwf1.1]
    rw [List.any_eq_true] at this ⊢
    obtain ⟨sf, hsf, hp⟩ := this
    exact ⟨sf, hsf, hasPrefix_append _ hp⟩
  · rw [hcs, hmod, hpos, hlen]; omega
  · rw [hcs, hmod, hnxt]
    have e : e1.image ++ (pk34 ++ nxt) = pk34 ++ e1.body ++ (pk34 ++ nxt) := by
      simp only [Entry.image]
    rw [e, ← hbl]
    exact indexOf_in_image e1.body nxt _ hc1 (by omega) (by omega)
  · rw [hcs, hmod, hpos]
    cases mid with
    | nil =>
      left
      simp only [List.map_nil, List.flatten_nil, List.nil_append]
      rw [drop_to_name e1.image em suf hwfe.1]
      exact hasPrefix_append _ hmark
    | cons m t =>
      by_cases hp : hasPrefix ((e1.image ++ (((m :: t).map Entry.image).flatten ++ (em.image ++ suf))).drop
          (e1.image.length + 30)) sig = true
      · exact Or.inl hp
      · obtain ⟨n, hn, hc⟩ := chain_of_layout sig em suf hwfe hmark (m :: t) e1.image (by simp) hwfm hcm hreal
        exact Or.inr ⟨n, by omega, hc⟩


theorem archive_length_ge (e1 : Entry) (es : List Entry) (tail : Bytes) :
    e1.image.length ≤ (archive (e1 :: es) tail).length := by
  rw [archive_cons, List.length_append]; omega

/-- **C19 forward clause, from the layout**: in a (< 4 GiB) archive made of the entries
    `e1, mid…, em, rest…` followed by `tail` (central directory…), where `em` — one of the
    entries 2..6 — has a name starting with the marker `sig`, `zipContains` finds the marker. -/
theorem layout_forward (e1 : Entry) (mid : List Entry) (em : Entry) (rest : List Entry)
    (tail sig : Bytes) (mso : Bool)
    (hwf : ∀ e ∈ e1 :: mid ++ [em], e.WF)
    (hclean : ∀ e ∈ e1 :: mid, e.Clean)                       -- entries before the marker entry
    (hreal : ∀ e ∈ mid, e.Realistic)                          -- entries 2..j-1
    (hmid : mid.length ≤ 4)                                   -- the marker entry is among entries 2..6
    (hfirst : e1.csizeField + 49 ≤
      30 + e1.name.length + e1.extra.length + e1.data.length + e1.desc.length)
                                                              -- the first hop lands inside entry 1
    (hsmall : (archive (e1 :: mid ++ em :: rest) tail).length < 4294967296)
    (hmso : mso = true → msoSkipFiles.any (fun sf => hasPrefix e1.name sf) = true)
    (hmark : hasPrefix em.name sig = true) :
    zipContains (archive (e1 :: mid ++ em :: rest) tail) sig mso = some true := by
  refine layout_forward_core e1 mid em rest tail sig mso hwf hclean hreal hmid hfirst ?_ hmso hmark
  have h1 := archive_length_ge e1 (mid ++ em :: rest) tail
  have h2 : e1.image.length = 30 + e1.name.length + e1.extra.length + e1.data.length + e1.desc.length := by
    rw [Entry.image_length, (hwf e1 (by simp)).1]; omega
  rw [List.cons_append] at hsmall
  omega

/-! ### the property's own qualifiers imply `hfirst` -/

theorem contentTypes_eq : ofString "[Content_Types].xml" = exContentTypes := by decide +kernel

/-- an OOXML package as office writers lay it out: first entry `[Content_Types].xml` (19 bytes),
    size field = stored size: the marker in the name of any of the entries 2..6 is found, with or
    without the mso check.  (`e1.desc = []` is the usual situation but is not needed: a descriptor
    only makes entry 1 longer, and the first hop still lands inside it.) -/
theorem ooxml_second_entry (e1 : Entry) (mid : List Entry) (em : Entry) (rest : List Entry)
    (tail sig : Bytes) (mso : Bool)
    (hwf : ∀ e ∈ e1 :: mid ++ [em], e.WF)
    (hclean : ∀ e ∈ e1 :: mid, e.Clean)
    (hreal : ∀ e ∈ mid, e.Realistic)
    (hmid : mid.length ≤ 4)
    (hname : e1.name = ofString "[Content_Types].xml")
    (hcsize : e1.csizeField = e1.data.length)
    (hsmall : (archive (e1 :: mid ++ em :: rest) tail).length < 4294967296)
    (hmark : hasPrefix em.name sig = true) :
    zipContains (archive (e1 :: mid ++ em :: rest) tail) sig mso = some true := by
  have hn : e1.name.length = 19 := by rw [hname, contentTypes_eq]; rfl
  refine layout_forward e1 mid em rest tail sig mso hwf hclean hreal hmid ?_ hsmall ?_ hmark
  · rw [hcsize, hn]; omega
  · intro _
    rw [List.any_eq_true]
    refine ⟨ofString "[Content_Types].xml", by simp [msoSkipFiles], ?_⟩
    rw [hname, hasPrefix_iff]; exact List.prefix_refl _

/-- a streamed archive: size field 0 in the first local header (sizes in the data descriptor),
    and at least 19 bytes of name+extra+data+descriptor in the first entry -/
theorem descriptor_first_entry (e1 : Entry) (mid : List Entry) (em : Entry) (rest : List Entry)
    (tail sig : Bytes) (mso : Bool)
    (hwf : ∀ e ∈ e1 :: mid ++ [em], e.WF)
    (hclean : ∀ e ∈ e1 :: mid, e.Clean)
    (hreal : ∀ e ∈ mid, e.Realistic)
    (hmid : mid.length ≤ 4)
    (hcsize : e1.csizeField = 0)
    (hlen : 19 ≤ e1.name.length + e1.extra.length + e1.data.length + e1.desc.length)
    (hmso : mso = true → msoSkipFiles.any (fun sf => hasPrefix e1.name sf) = true)
    (hmark : hasPrefix em.name sig = true) :
    zipContains (archive (e1 :: mid ++ em :: rest) tail) sig mso = some true := by
  refine layout_forward_core e1 mid em rest tail sig mso hwf hclean hreal hmid ?_ ?_ hmso hmark
  · rw [hcsize]; omega
  · rw [hcsize]; omega

/-! ### non-vacuity -/

/-- a local header's fixed part for a stored entry of `size` (< 256) bytes, name length `nlen` -/
def exFixed (size nlen : Nat) : Bytes :=
  [20, 0, 0, 0, 0, 0, 0, 0, 0x21, 0x5A] ++ [0xDE, 0xAD, 0xBE, 0xEF] ++ [size, 0, 0, 0] ++ [size, 0, 0, 0] ++
    [nlen, 0] ++ [0, 0]

def exDocProps : Bytes := [100, 111, 99, 80, 114, 111, 112, 115, 47, 97, 112, 112, 46, 120, 109, 108]

def ex1 : Entry := ⟨exFixed 5 19, exContentTypes, [], List.replicate 5 120, []⟩
def ex2 : Entry := ⟨exFixed 20 11, exRels, [], List.replicate 20 120, []⟩
def ex3 : Entry := ⟨exFixed 12 16, exDocProps, [], List.replicate 12 120, []⟩
def ex4 : Entry := ⟨exFixed 10 17, exWordDoc, [], List.replicate 10 120, []⟩
/-- stand-in for the central directory -/
def exTail : Bytes := [0x50, 0x4B, 1, 2] ++ List.replicate 42 0 ++ [0x50, 0x4B, 5, 6] ++ List.replicate 18 0

/-- all hypotheses of `layout_forward` hold for `[Content_Types].xml, _rels/.rels,
    docProps/app.xml, word/document.xml` with marker `word/` and the mso check on -/
example : zipContains (archive (ex1 :: [ex2, ex3] ++ ex4 :: []) exTail) exWord true = some true :=
  layout_forward ex1 [ex2, ex3] ex4 [] exTail exWord true
    (by decide +kernel) (by decide +kernel) (by decide +kernel) (by decide) (by decide +kernel)
    (by decide +kernel) (by decide +kernel) (by decide +kernel)

/-- … and of `ooxml_second_entry` -/
example : zipContains (archive (ex1 :: [ex2, ex3] ++ ex4 :: []) exTail) exWord true = some true :=
  ooxml_second_entry ex1 [ex2, ex3] ex4 [] exTail exWord true
    (by decide +kernel) (by decide +kernel) (by decide +kernel) (by decide) (by decide +kernel)
    (by decide +kernel) (by decide +kernel) (by decide +kernel)

/-- … and of `descriptor_first_entry`: a streamed first entry (size fields 0, 16-byte descriptor) -/
example : zipContains (archive (⟨exFixed 0 19, exContentTypes, [], List.replicate 5 120,
      [0x50, 0x4B, 7, 8, 0xDE, 0xAD, 0xBE, 0xEF, 5, 0, 0, 0, 5, 0, 0, 0]⟩ :: [ex2, ex3] ++ ex4 :: []) exTail)
    exWord true = some true :=
  descriptor_first_entry _ [ex2, ex3] ex4 [] exTail exWord true
    (by decide +kernel) (by decide +kernel) (by decide +kernel) (by decide) (by decide +kernel)
    (by decide +kernel) (by decide +kernel) (by decide +kernel)

/-- the same verdict by direct evaluation of the model (independent of the theorem) -/
example : zipContains (archive [ex1, ex2, ex3, ex4] exTail) exWord true = some true := by decide +kernel

/-- the hypotheses are not redundant on this example: with the realistic-length qualifier
    violated (10-byte second entry) the walk overshoots and the verdict is negative -/
example : zipContains (archive [ex1, ⟨exFixed 0 10, List.replicate 10 97, [], [], []⟩, ex4] exTail) exWord true
    = some false := by decide +kernel

end Mime.ZipLayout
