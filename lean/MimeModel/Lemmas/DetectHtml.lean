import MimeModel.Props.C12_Detect
import MimeModel.Lemmas.DetectSound
import MimeModel.Lemmas.XmlTok
/-
  Helper lemmas for `Props/C12_DetectHtml.lean` (C12, HTML clause, on the result of `Detect`).

  * `markupView`, `accepts_markup_view`, `html_accepts_lead`, `html_rejects_head`
        what the `HTML` check looks at: the header behind an optional UTF-8 BOM and white space
  * `html_detected_header`
        the walk: text/plain accepts + `HTML` accepts  ⇒  leaf `text/html`, charset = `FromHTML`
  * `PrologueR`, `PrologueR.skips`, `MetaSrc`, `fromHTMLBytesFull_meta_decides_src`
        the prologue grammar extended by `<script>…</script>` and the raw-text elements
  * `attrVal`, `charset_toks`
        `<meta … charset=L …>`: the answer is the DECODED value (`TagAttr`), no `&` / CR hypothesis
  * `metaAttrs_skip_inert`, `meta_pragma_anywhere`, `pragma_toks`
        the pragma with inert attributes in front of, between and behind the two deciding ones
  * `EqWs`, `tagTextW`, `run_attrsW`, `metaSrc_tagTextW`
        white space around the `=` of an attribute
-/
namespace Mime.DetectHtml
open Mime Mime.Charset Mime.HtmlTok Mime.HtmlTokLemmas Mime.HtmlUnescapeLemmas Mime.HtmlEnt
open Mime.Tree Mime.WalkPath Mime.Cust Mime.C12

/-! ### what the `markup` combinator looks at -/

/-- the part of the header the `markup` checks are applied to: behind a UTF-8 BOM (and only that
    BOM) and leading white space -/
def markupView (raw : Bytes) : Bytes :=
  if hasPrefix raw utf8BOM then trimLWS (raw.drop 3) else trimLWS raw

theorem accepts_markup_view (ext : Ext) (i : Info) (sigs : List Bytes) (hdet : i.det = .markup sigs)
    (raw1 raw2 : Bytes) (lim1 lim2 : Nat) (h : markupView raw1 = markupView raw2) :
    accepts ext raw1 lim1 i = accepts ext raw2 lim2 i := by
  unfold accepts Cust.detEval
  rw [hdet]
  simp only [Det.evalWith]
  unfold markupView at h
  rw [h]

theorem hasPrefix_bom_lead (lead : Bytes) (r : Bytes) (hlead : ∀ c ∈ lead, isWS c = true) :
    hasPrefix (lead ++ 0x3C :: r) utf8BOM = false := by
  cases lead with
  | nil => simp [hasPrefix, utf8BOM, List.isPrefixOf]
  | cons c cs =>
    have hc := hlead c (List.mem_cons_self ..)
    have : c ≠ 0xEF := by
      intro e; subst e; simp [isWS] at hc
    have e : ((0xEF : Nat) == c) = false := by simpa using fun e => this e.symm
    simp [hasPrefix, utf8BOM, List.isPrefixOf, e]

theorem markupView_lead (lead r : Bytes) (hlead : ∀ c ∈ lead, isWS c = true) :
    markupView (lead ++ 0x3C :: r) = 0x3C :: r := by
  unfold markupView
  rw [hasPrefix_bom_lead lead r hlead]
  simp only [Bool.false_eq_true, ↓reduceIte]
  exact XmlTokLemmas.trimLWS_lead lead 0x3C r hlead (by decide)

theorem markupView_bom_lead (lead r : Bytes) (hlead : ∀ c ∈ lead, isWS c = true) :
    markupView (utf8BOM ++ (lead ++ 0x3C :: r)) = 0x3C :: r := by
  unfold markupView
  have : hasPrefix (utf8BOM ++ (lead ++ 0x3C :: r)) utf8BOM = true := by
    simp [hasPrefix, utf8BOM, List.isPrefixOf]
  rw [this]
  simp only [↓reduceIte]
  have : (utf8BOM ++ (lead ++ 0x3C :: r)).drop 3 = lead ++ 0x3C :: r := by simp [utf8BOM]
  rw [this]
  exact XmlTokLemmas.trimLWS_lead lead 0x3C r hlead (by decide)

/-- the `<html …>` start tags the `HTML` check recognises: the byte behind the name is `>` or a
    SPACE (not a TAB, not a line break: `markupCheck` wants `' '` or `'>'` behind the signature) -/
def HtmlTagOk (hws : Bytes) (has : List AttrSrc) : Prop :=
  (∀ x ∈ hws, isWS x = true) ∧ (hws = [] → has = []) ∧ attrsWf has ∧ (∀ x, hws.head? = some x → x = 0x20)

theorem htmlTagOk_nil : HtmlTagOk [] [] := by
  refine ⟨?_, fun _ => rfl, trivial, ?_⟩
  · intro x hx; cases hx
  · intro x hx; cases hx

/-- `<html ws attrs>` as the `HTML` check wants it: `<`, name, then `>` or SPACE -/
theorem tagText_html_shape (htmlNm hws : Bytes) (has : List AttrSrc) (body : Bytes) (h : HtmlTagOk hws has) :
    ∃ c tail, (c = 0x3E ∨ c = 0x20) ∧ tagText htmlNm hws has ++ body = 0x3C :: htmlNm ++ c :: tail := by
  obtain ⟨_, h0, _, hh⟩ := h
  cases hws with
  | nil =>
    rw [h0 rfl]
    exact ⟨0x3E, body, Or.inl rfl, by simp [tagText, attrsText]⟩
  | cons x w =>
    have := hh x rfl
    subst this
    exact ⟨0x20, w ++ attrsText has ++ [0x3E] ++ body, Or.inr rfl, by simp [tagText]⟩

/-- the `HTML` check accepts `[BOM] ws <html …>` — through the UTF-8 BOM and leading white space -/
theorem html_accepts_lead (ext : Ext) (bom : Bool) (lead htmlNm hws : Bytes) (has : List AttrSrc) (body : Bytes) (lim : Nat)
    (hlead : ∀ c ∈ lead, isWS c = true) (hh : lowerASCII htmlNm = kHtml) (htag : HtmlTagOk hws has) :
    accepts ext ((if bom then utf8BOM else []) ++ (lead ++ (tagText htmlNm hws has ++ body))) lim htmlNode.info = true := by
  obtain ⟨c, tail, hc, hshape⟩ := tagText_html_shape htmlNm hws has body htag
  obtain ⟨_, _, _, sigs, hdet, _⟩ := html_node_facts
  rw [hshape]
  have hplain := html_accepts ext htmlNm tail c lim hh hc
  refine Eq.trans ?_ hplain
  apply accepts_markup_view ext _ sigs hdet
  have e1 : markupView (0x3C :: htmlNm ++ c :: tail) = 0x3C :: (htmlNm ++ c :: tail) := by
    simpa using markupView_lead [] (htmlNm ++ c :: tail) (by intro x hx; cases hx)
  rw [e1]
  cases bom with
  | false => simpa using markupView_lead lead (htmlNm ++ c :: tail) hlead
  | true => simpa using markupView_bom_lead lead (htmlNm ++ c :: tail) hlead

theorem anyG_false {α} (f : α → Option Bool) (l : List α) (h : ∀ a ∈ l, f a = some false) : anyG f l = some false := by
  induction l with
  | nil => rfl
  | cons x xs ih =>
    simp only [anyG, h x (List.mem_cons_self ..)]
    exact ih (fun a ha => h a (List.mem_cons_of_mem _ ha))

theorem markupCheck_head_ne (bs r : Bytes) (c : Nat) (hc : c ≠ 0x3C) :
    markupCheck (0x3C :: bs) (c :: r) = some false := by
  unfold markupCheck
  split
  · rfl
  · have e : ((0x3C : Nat) != c) = true := by simpa using fun e => hc e.symm
    simp [ciMatch, e]

/-- every signature of the `HTML` table starts with `<` -/
theorem html_sigs_lt : ∃ sigs, Gen.d_HTML = .markup sigs ∧ ∀ s ∈ sigs, s.head? = some 0x3C := by
  refine ⟨_, rfl, by decide⟩

/-- **the `HTML` check rejects every header whose first byte is not white space, `<` or 0xEF** —
    in particular every header that starts with a UTF-16 / UTF-32 byte-order mark -/
theorem html_rejects_head (ext : Ext) (i : Info) (hdet : i.det = Gen.d_HTML) (c : Nat) (r : Bytes) (lim : Nat)
    (hws : isWS c = false) (hlt : c ≠ 0x3C) (hef : c ≠ 0xEF) :
    accepts ext (c :: r) lim i = false := by
  obtain ⟨sigs, hs, hall⟩ := html_sigs_lt
  unfold accepts Cust.detEval
  rw [hdet, hs]
  simp only [Det.evalWith]
  have e : ((0xEF : Nat) == c) = false := by simpa using fun e => hef e.symm
  have hbom : hasPrefix (c :: r) utf8BOM = false := by simp [hasPrefix, utf8BOM, List.isPrefixOf, e]
  have htrim : trimLWS (c :: r) = c :: r := by simp [trimLWS, hws]
  simp only [hbom, Bool.false_eq_true, ↓reduceIte, htrim, List.isEmpty_cons]
  rw [anyG_false]
  · rfl
  · intro s hs'
    have := hall s hs'
    cases s with
    | nil => simp at this
    | cons b bs =>
      simp only [List.head?_cons, Option.some.injEq] at this
      subst this
      exact markupCheck_head_ne bs r c hlt

/-! ### the walk -/

/-- **the core**: if the text/plain check and the `HTML` check accept the examined header, the leaf
    is the `text/html` node and the charset parameter is `FromHTML` of the header (the tokenizer
    model in full) — unless a rival (a root format in front of text/plain; `html` is the first child
    of text/plain) accepts -/
theorem html_detected_header (doc : Bytes) (lim : Nat)
    (htext : Cust.text (header doc lim) = true)
    (hacc : accepts Closed.ext (header doc lim) lim htmlNode.info = true) :
    ((Mime.detect Closed.ext Gen.builtin doc lim).chain.head? = some htmlNode.info ∧
      (Mime.detect Closed.ext Gen.builtin doc lim).charset = fromHTMLBytesFull (header doc lim)) ∨
    (∃ d ∈ rivals htmlPath Gen.builtin, accepts Closed.ext (header doc lim) lim d.info = true) := by
  have hacc_text : accepts Closed.ext (header doc lim) lim C08.textNode.info = true := by
    rw [C08.accepts_text Closed.ext _ lim _ C08.node_dets.1]; exact htext
  have hd : descend htmlPath Gen.builtin = some htmlNode := by
    simp only [htmlPath, descend, C08.text_found, html_found]
  have hp : pathNodes htmlPath Gen.builtin = [C08.textNode, htmlNode] := by
    simp only [htmlPath, pathNodes, C08.text_found, html_found]
  rcases walk_ends (accepts Closed.ext (header doc lim) lim) htmlPath Gen.builtin htmlNode hd
      (by rw [hp]; intro m hm; simp at hm; rcases hm with rfl | rfl <;> assumption)
      (by rw [html_node_facts.2.1]; intro c hc; cases hc) with h | h
  · left
    have hleaf : (Mime.detect Closed.ext Gen.builtin doc lim).chain.head? = some htmlNode.info := by
      rw [DetectSound.chain_eq, List.head?_reverse]; exact h
    refine ⟨hleaf, ?_⟩
    rw [DetectSound.charset_of_leaf _ _ _ _ _ hleaf, html_node_facts.2.2.1]
    unfold charsetFor
    have hne1 : (mimeTextHtml == mimeTextPlain) = false := by decide
    simp only [hne1, Bool.false_eq_true, ↓reduceIte, beq_self_eq_true]
    rfl
  · exact Or.inr h

/-! ### the prologue grammar, extended by the elements whose content is not tokenized -/

theorem skips_script (nm ws0 : Bytes) (as : List AttrSrc) (body cnm cws : Bytes)
    (hnm : lowerASCII nm = kScript) (hws : ∀ x ∈ ws0, isWS x = true) (hws0 : ws0 = [] → as = [])
    (hwf : attrsWf as) (hbody : scriptBodyOk body = true)
    (hcnm : lowerASCII cnm = kScript) (hcws : ∀ x ∈ cws, isWS x = true) :
    Skips (tagText nm ws0 as ++ body ++ endTagText cnm cws) := by
  refine ⟨[{ name := kScript, attrs := parsed as }], ?_, fun rest => ?_⟩
  · intro t ht
    simp only [List.mem_singleton] at ht
    subst ht
    show kScript ≠ kMeta
    decide
  · exact script_hides_meta nm ws0 as body cnm cws rest hnm hws hws0 hwf hbody hcnm hcws

theorem rawNames_ne_meta : ∀ tag ∈ rawNames, tag ≠ kMeta := by decide

theorem skips_rawtext (tag nm ws0 : Bytes) (as : List AttrSrc) (body cnm cws : Bytes)
    (htag : tag ∈ rawNames)
    (hnm : lowerASCII nm = tag) (hws : ∀ x ∈ ws0, isWS x = true) (hws0 : ws0 = [] → as = [])
    (hwf : attrsWf as) (hbody : rawBodyOk tag body = true)
    (hcnm : lowerASCII cnm = tag) (hcws : ∀ x ∈ cws, isWS x = true) :
    Skips (tagText nm ws0 as ++ body ++ endTagText cnm cws) := by
  refine ⟨[{ name := tag, attrs := parsed as }], ?_, fun rest => ?_⟩
  · intro t ht
    simp only [List.mem_singleton] at ht
    subst ht
    exact rawNames_ne_meta tag htag
  · exact rawtext_hides_meta tag nm ws0 as body cnm cws rest htag hnm hws hws0 hwf hbody hcnm hcws

/-- `Prologue` (text without `<`, comments, doctype / markup declarations, ordinary start tags other
    than `meta`, end tags) extended by complete `<script …>…</script …>` elements (text without
    `</script` and `<!--`) and complete raw-text / RCDATA elements — title, textarea, style, xmp,
    iframe, noembed, noframes, noscript (text without `</name`) — in any letter case -/
inductive PrologueR : Bytes → Prop
  | nil : PrologueR []
  | plain (Q P : Bytes) : Prologue Q → PrologueR P → PrologueR (Q ++ P)
  | script (nm ws0 : Bytes) (as : List AttrSrc) (body cnm cws P : Bytes) :
      lowerASCII nm = kScript → (∀ x ∈ ws0, isWS x = true) → (ws0 = [] → as = []) → attrsWf as →
      scriptBodyOk body = true → lowerASCII cnm = kScript → (∀ x ∈ cws, isWS x = true) → PrologueR P →
      PrologueR (tagText nm ws0 as ++ body ++ endTagText cnm cws ++ P)
  | rawtext (tag nm ws0 : Bytes) (as : List AttrSrc) (body cnm cws P : Bytes) :
      tag ∈ rawNames → lowerASCII nm = tag → (∀ x ∈ ws0, isWS x = true) → (ws0 = [] → as = []) → attrsWf as →
      rawBodyOk tag body = true → lowerASCII cnm = tag → (∀ x ∈ cws, isWS x = true) → PrologueR P →
      PrologueR (tagText nm ws0 as ++ body ++ endTagText cnm cws ++ P)

theorem PrologueR.skips {P : Bytes} (h : PrologueR P) : Skips P := by
  induction h with
  | nil => exact Skips.nil
  | plain Q P hQ _ ih => exact hQ.skips.append ih
  | script nm ws0 as body cnm cws P h1 h2 h3 h4 h5 h6 h7 _ ih =>
    exact (skips_script nm ws0 as body cnm cws h1 h2 h3 h4 h5 h6 h7).append ih
  | rawtext tag nm ws0 as body cnm cws P h0 h1 h2 h3 h4 h5 h6 h7 _ ih =>
    exact (skips_rawtext tag nm ws0 as body cnm cws h0 h1 h2 h3 h4 h5 h6 h7).append ih

theorem PrologueR.of_prologue {P : Bytes} (h : Prologue P) : PrologueR P := by
  have := PrologueR.plain P [] h .nil
  rwa [List.append_nil] at this

/-- `M` is the source text of a `<meta …>` start tag with the attributes `as`: read from the text
    state it is reported as `meta` with the lower-cased keys and the literal values of `as`, and
    tokenization continues in the text state behind it -/
def MetaSrc (M : Bytes) (as : List AttrSrc) : Prop :=
  ∀ rest, rawTags (M ++ rest) = { name := kMeta, attrs := parsed as } :: rawTags rest

/-- `<meta ws attrs>`, `meta` in any letter case, a well-formed attribute list -/
theorem metaSrc_tagText (nm ws0 : Bytes) (as : List AttrSrc)
    (hnm : lowerASCII nm = kMeta) (hws : ∀ x ∈ ws0, isWS x = true) (hws0 : ws0 = [] → as = [])
    (hwf : attrsWf as) : MetaSrc (tagText nm ws0 as) as :=
  fun rest => meta_first_tag_raw nm ws0 as rest hnm hws hws0 hwf

/-- `fromHTMLBytesFull_meta_decides` with the semantic forms of the prologue and of the tag -/
theorem fromHTMLBytesFull_meta_decides_src (P M : Bytes) (as : List AttrSrc) (rest result : Bytes)
    (hP : Skips P) (hM : MetaSrc M as)
    (hres : ∀ more, fromHTMLToks (finishTagFull { name := kMeta, attrs := parsed as } :: more) = result)
    (hne : result ≠ [])
    (hbom : fromBOM (P ++ M ++ rest) = csNone) :
    fromHTMLBytesFull (P ++ M ++ rest) = result := by
  obtain ⟨T, hT, hrun⟩ := hP
  have hraw : rawTags (P ++ M ++ rest) =
      T ++ { name := kMeta, attrs := parsed as } :: rawTags rest := by
    have := hM rest
    simp only [rawTags] at this ⊢
    rw [List.append_assoc, hrun, this]
  unfold fromHTMLBytesFull startTagsFull
  rw [hraw]
  unfold fromHTML
  simp only [hbom, bne_self_eq_false, Bool.false_eq_true, ↓reduceIte]
  have hskip : ∀ t ∈ T.map finishTagFull, t.name ≠ kMeta := by
    intro t ht
    obtain ⟨u, hu, rfl⟩ := List.mem_map.mp ht
    exact hT u hu
  have hval : fromHTMLToks (List.map finishTagFull
      (T ++ { name := kMeta, attrs := parsed as } :: rawTags rest)) = result := by
    rw [List.map_append, fromHTMLToks_skip _ _ hskip, List.map_cons]
    exact hres _
  rw [hval]
  have : (result != []) = true := by simpa using hne
  simp [this]

/-! ### the value `TagAttr` returns -/

/-- `Tokenizer.TagAttr` on a raw value: `unescape(convertNewlines(val), true)` -/
def attrVal (v : Bytes) : Bytes := unescape true (convNL v)

theorem attrVal_plain (v : Bytes) (hcr : ∀ c ∈ v, c ≠ 0x0D) (hamp : v.contains 0x26 = false) : attrVal v = v := by
  unfold attrVal
  rw [convNL_id v hcr, unescape_noAmp true v hamp]

/-- `<meta pre… charset=L post…>`: the prescan answers the DECODED value of the attribute
    (character references replaced, CR / CR LF → LF), lower-cased, utf-8 for utf-16 —
    no hypothesis about `&` or CR anywhere -/
theorem charset_toks (pre post : List AttrSrc) (cs : Bytes) (form : ValForm) (L sep : Bytes)
    (hcs : lowerASCII cs = kwCharset)
    (hpre : ∀ a ∈ pre, inertKey a.key) (hpost : ∀ a ∈ post, inertKey a.key) (more : List Tag) :
    fromHTMLToks (finishTagFull { name := kMeta, attrs := parsed (pre ++ charsetAttr cs form L sep :: post) } :: more) =
      norm (attrVal L) := by
  have hparsed : (parsed (pre ++ charsetAttr cs form L sep :: post)).map (fun kv => (kv.1, unescape true (convNL kv.2))) =
      (parsed pre).map (fun kv => (kv.1, unescape true (convNL kv.2))) ++ (kwCharset, attrVal L) ::
        (parsed post).map (fun kv => (kv.1, unescape true (convNL kv.2))) := by
    simp [parsed, charsetAttr, hcs, attrVal]
  simp only [finishTagFull, hparsed]
  exact C12.meta_charset_anywhere (attrVal L) _ _ _ (inert_finishedFull pre hpre) (inert_finishedFull post hpost)

/-! ### the pragma, inert attributes anywhere -/

/-- a key the attribute loop of `fromHTML` does nothing with -/
def InertK (k : Bytes) : Prop := k ≠ kContent ∧ k ≠ kwCharset ∧ k ≠ kHttpEquiv

theorem not_contains_of {seen : List Bytes} {k : Bytes} (h : ∀ x ∈ seen, x ≠ k) : seen.contains k = false := by
  rw [List.contains_eq_any_beq, List.any_eq_false]
  intro x hx
  simpa using fun e => h x hx e.symm

/-- inert attributes only grow the `seen` set by inert keys -/
theorem metaAttrs_skip_inert : ∀ (pre rest : List (Bytes × Bytes)) (seen : List Bytes) (g : Bool) (n : Need) (name : Bytes),
    (∀ p ∈ pre, InertK p.1) →
    ∃ seen', (∀ k ∈ seen', k ∈ seen ∨ InertK k) ∧
      metaAttrs (pre ++ rest) seen g n name = metaAttrs rest seen' g n name
  | [], rest, seen, g, n, name, _ => ⟨seen, fun k hk => Or.inl hk, rfl⟩
  | (k, v) :: pre, rest, seen, g, n, name, hp => by
    have h1 : InertK k := hp (k, v) (List.mem_cons_self ..)
    have hp' : ∀ p ∈ pre, InertK p.1 := fun q hq => hp q (List.mem_cons_of_mem _ hq)
    simp only [List.cons_append, metaAttrs]
    split
    · exact metaAttrs_skip_inert pre rest seen g n name hp'
    · have a1 : (k == kHttpEquiv) = false := by simpa using h1.2.2
      have a2 : (k == kContent) = false := by simpa using h1.1
      have a3 : (k == kwCharset) = false := by simpa using h1.2.1
      simp only [a1, a2, a3, Bool.false_eq_true, ↓reduceIte]
      obtain ⟨s', hs', e⟩ := metaAttrs_skip_inert pre rest (k :: seen) g n name hp'
      refine ⟨s', fun x hx => ?_, e⟩
      rcases hs' x hx with h | h
      · rcases List.mem_cons.mp h with rfl | h
        · exact Or.inr h1
        · exact Or.inl h
      · exact Or.inr h

/-- **pragma, any attribute position**: `http-equiv` = Content-Type (any letter case) and a
    `content` whose extracted label is non-empty decide, in either order, with inert attributes in
    front of, between and behind them -/
theorem meta_pragma_anywhere (v1 v2 : Bytes) (pre mid post : List (Bytes × Bytes)) (ts : List Tag)
    (hct : lowerASCII v1 = kContentType) (hl : fromMetaElement (lowerASCII v2) ≠ [])
    (hpre : ∀ p ∈ pre, InertK p.1) (hmid : ∀ p ∈ mid, InertK p.1) (hpost : ∀ p ∈ post, InertK p.1) :
    fromHTMLToks ({ name := kMeta, attrs := pre ++ (kHttpEquiv, v1) :: (mid ++ (kContent, v2) :: post) } :: ts) =
      finalLabel (fromMetaElement (lowerASCII v2)) ∧
    fromHTMLToks ({ name := kMeta, attrs := pre ++ (kContent, v2) :: (mid ++ (kHttpEquiv, v1) :: post) } :: ts) =
      finalLabel (fromMetaElement (lowerASCII v2)) := by
  have hl' : (fromMetaElement (lowerASCII v2) != []) = true := by simpa using hl
  have e1 : (kContent == kHttpEquiv) = false := by decide
  have hpost' : ∀ p ∈ post, p.1 ≠ kContent ∧ p.1 ≠ kwCharset ∧ p.1 ≠ kHttpEquiv := hpost
  constructor
  · simp only [fromHTMLToks, bne_self_eq_false, Bool.false_eq_true, ↓reduceIte]
    obtain ⟨s1, hs1, q1⟩ := metaAttrs_skip_inert pre ((kHttpEquiv, v1) :: (mid ++ (kContent, v2) :: post)) [] false .dontKnow [] hpre
    have c1 : s1.contains kHttpEquiv = false := not_contains_of (fun x hx => by
      rcases hs1 x hx with h | h
      · cases h
      · exact h.2.2)
    rw [q1]
    simp only [metaAttrs, c1, Bool.false_eq_true, ↓reduceIte, beq_self_eq_true, hct]
    obtain ⟨s2, hs2, q2⟩ := metaAttrs_skip_inert mid ((kContent, v2) :: post) (kHttpEquiv :: s1) true .dontKnow [] hmid
    have c2 : s2.contains kContent = false := not_contains_of (fun x hx => by
      rcases hs2 x hx with h | h
      · rcases List.mem_cons.mp h with rfl | h
        · decide
        · rcases hs1 x h with h | h
          · cases h
          · exact h.1
      · exact h.1)
    rw [q2]
    simp only [metaAttrs, c2, Bool.false_eq_true, ↓reduceIte, beq_self_eq_true, e1, hl']
    rw [metaAttrs_inert post _ _ _ _ hpost']
    simp [finalLabel]
  · simp only [fromHTMLToks, bne_self_eq_false, Bool.false_eq_true, ↓reduceIte]
    obtain ⟨s1, hs1, q1⟩ := metaAttrs_skip_inert pre ((kContent, v2) :: (mid ++ (kHttpEquiv, v1) :: post)) [] false .dontKnow [] hpre
    have c1 : s1.contains kContent = false := not_contains_of (fun x hx => by
      rcases hs1 x hx with h | h
      · cases h
      · exact h.1)
    rw [q1]
    simp only [metaAttrs, c1, Bool.false_eq_true, ↓reduceIte, beq_self_eq_true, e1, hl']
    obtain ⟨s2, hs2, q2⟩ := metaAttrs_skip_inert mid ((kHttpEquiv, v1) :: post) (kContent :: s1) false .doNeed
      (fromMetaElement (lowerASCII v2)) hmid
    have c2 : s2.contains kHttpEquiv = false := not_contains_of (fun x hx => by
      rcases hs2 x hx with h | h
      · rcases List.mem_cons.mp h with rfl | h
        · decide
        · rcases hs1 x h with h | h
          · cases h
          · exact h.2.2
      · exact h.2.2)
    rw [q2]
    simp only [metaAttrs, c2, Bool.false_eq_true, ↓reduceIte, beq_self_eq_true, hct]
    rw [metaAttrs_inert post _ _ _ _ hpost']
    simp [finalLabel]

theorem inert_full (l : List AttrSrc) (hl : ∀ a ∈ l, inertKey a.key) :
    ∀ p ∈ (parsed l).map (fun kv => (kv.1, unescape true (convNL kv.2))), InertK p.1 :=
  inert_finishedFull l hl

/-- the two source orders of the pragma: `a1` is the `http-equiv` attribute, `a2` the `content`
    attribute; `pre`, `mid`, `post` are inert attributes -/
def pragmaAttrs {α : Type} (order : Bool) (a1 a2 : α) (pre mid post : List α) : List α :=
  if order then pre ++ a1 :: (mid ++ a2 :: post) else pre ++ a2 :: (mid ++ a1 :: post)

theorem finalLabel_ne_nil (n : Bytes) (h : n ≠ []) : finalLabel n ≠ [] := by
  unfold finalLabel
  split
  · decide
  · exact h

/-- `<meta pre… http-equiv=V1 mid… content=V2 post…>` (or `content` first): with
    the DECODED values `v1 = attrVal V1`, `v2 = attrVal V2`: if `v1` is `content-type` in any letter
    case and `fromMetaElement` extracts a non-empty label from the lower-cased `v2`, that label is
    the answer of the prescan (utf-8 for utf-16 labels) -/
theorem pragma_toks (order : Bool) (a1 a2 : AttrSrc) (pre mid post : List AttrSrc)
    (hk1 : lowerASCII a1.key = kHttpEquiv) (hk2 : lowerASCII a2.key = kContent)
    (hv1 : lowerASCII (attrVal a1.val) = kContentType)
    (hv2 : fromMetaElement (lowerASCII (attrVal a2.val)) ≠ [])
    (hpre : ∀ a ∈ pre, inertKey a.key) (hmid : ∀ a ∈ mid, inertKey a.key) (hpost : ∀ a ∈ post, inertKey a.key)
    (more : List Tag) :
    fromHTMLToks (finishTagFull { name := kMeta, attrs := parsed (pragmaAttrs order a1 a2 pre mid post) } :: more) =
      finalLabel (fromMetaElement (lowerASCII (attrVal a2.val))) := by
  have hpr := fun ts => meta_pragma_anywhere (attrVal a1.val) (attrVal a2.val) _ _ _ ts hv1 hv2
    (inert_full pre hpre) (inert_full mid hmid) (inert_full post hpost)
  cases order with
  | true =>
    have hparsed : (parsed (pragmaAttrs true a1 a2 pre mid post)).map (fun kv => (kv.1, unescape true (convNL kv.2))) =
        (parsed pre).map (fun kv => (kv.1, unescape true (convNL kv.2))) ++ (kHttpEquiv, attrVal a1.val) ::
          ((parsed mid).map (fun kv => (kv.1, unescape true (convNL kv.2))) ++ (kContent, attrVal a2.val) ::
            (parsed post).map (fun kv => (kv.1, unescape true (convNL kv.2)))) := by
      simp [pragmaAttrs, parsed, hk1, hk2, attrVal]
    simp only [finishTagFull, hparsed]
    exact (hpr more).1
  | false =>
    have hparsed : (parsed (pragmaAttrs false a1 a2 pre mid post)).map (fun kv => (kv.1, unescape true (convNL kv.2))) =
        (parsed pre).map (fun kv => (kv.1, unescape true (convNL kv.2))) ++ (kContent, attrVal a2.val) ::
          ((parsed mid).map (fun kv => (kv.1, unescape true (convNL kv.2))) ++ (kHttpEquiv, attrVal a1.val) ::
            (parsed post).map (fun kv => (kv.1, unescape true (convNL kv.2)))) := by
      simp [pragmaAttrs, parsed, hk1, hk2, attrVal]
    simp only [finishTagFull, hparsed]
    exact (hpr more).2

/-! ### white space around the `=` of an attribute -/

/-- the white space in front of and behind the `=` of an attribute -/
structure EqWs where
  before : Bytes
  after : Bytes

def EqWs.none : EqWs := ⟨[], []⟩

def EqWs.ok (e : EqWs) : Prop := (∀ c ∈ e.before, isWS c = true) ∧ (∀ c ∈ e.after, isWS c = true)

/-- `key ws = ws value sep` -/
def attrTextW (a : AttrSrc) (e : EqWs) : Bytes := a.key ++ e.before ++ 0x3D :: (e.after ++ a.valText ++ a.sep)

def attrsTextW : List (AttrSrc × EqWs) → Bytes
  | [] => []
  | p :: l => attrTextW p.1 p.2 ++ attrsTextW l

/-- the source text of a start tag whose attributes may have white space around `=` -/
def tagTextW (nm ws0 : Bytes) (l : List (AttrSrc × EqWs)) : Bytes := 0x3C :: nm ++ ws0 ++ attrsTextW l ++ [0x3E]

/-- the attributes without the white space -/
def plainAttrs (l : List (AttrSrc × EqWs)) : List AttrSrc := l.map Prod.fst

theorem run_afterKey_ws_eq (t : TagAcc) (k ws rest : Bytes) (h : ∀ c ∈ ws, isWS c = true) :
    run (.afterKey t k) (ws ++ 0x3D :: rest) = run (.beforeVal t k) rest := by
  induction ws with
  | nil =>
    rw [List.nil_append, run_cons]
    have : isWS 0x3D = false := by decide
    simp [step, afterKeyStep, this]
  | cons c cs ih =>
    have hc := h c (List.mem_cons_self ..)
    rw [List.cons_append, run_cons]
    simp only [step, afterKeyStep, hc, ↓reduceIte, run'_nx]
    exact ih (fun y hy => h y (List.mem_cons_of_mem _ hy))

theorem run_beforeVal_ws (t : TagAcc) (k ws rest : Bytes) (h : ∀ c ∈ ws, isWS c = true) :
    run (.beforeVal t k) (ws ++ rest) = run (.beforeVal t k) rest := by
  induction ws with
  | nil => rfl
  | cons c cs ih =>
    have hc := h c (List.mem_cons_self ..)
    rw [List.cons_append, run_cons]
    simp only [step, beforeValStep, hc, ↓reduceIte, run'_nx]
    exact ih (fun y hy => h y (List.mem_cons_of_mem _ hy))

/-- `key ws =` : from the attribute loop head to the value -/
theorem run_key_ws_eq (t : TagAcc) (k ws rest : Bytes) (hne : k ≠ []) (h : ∀ c ∈ k, keyChar c = true)
    (hws : ∀ c ∈ ws, isWS c = true) :
    run (.beforeAttr t) (k ++ ws ++ 0x3D :: rest) = run (.beforeVal t k) rest := by
  cases ws with
  | nil => rw [List.append_nil]; exact run_key_eq t k rest hne h
  | cons w ws =>
    cases k with
    | nil => exact absurd rfl hne
    | cons c cs =>
      have hc := h c (List.mem_cons_self ..)
      simp only [keyChar, Bool.not_eq_true', Bool.or_eq_false_iff] at hc
      have hw := hws w (List.mem_cons_self ..)
      simp only [List.cons_append, List.append_assoc]
      rw [run_cons]
      simp only [step, beforeAttrStep, hc, Bool.false_eq_true, ↓reduceIte, run'_nx]
      rw [run_attrKey_chars t [c] cs _ (fun y hy => h y (List.mem_cons_of_mem _ hy)), run_cons]
      simp only [step, attrKeyStep, afterKeyStep, hw, Bool.or_true, Bool.true_or, ↓reduceIte, run'_nx, List.cons_append,
        List.nil_append]
      exact run_afterKey_ws_eq t (c :: cs) ws rest (fun y hy => hws y (List.mem_cons_of_mem _ hy))

/-- `run_attrs` with white space around the `=` signs: the tokenizer reports the same attributes -/
theorem run_attrsW (l : List (AttrSrc × EqWs)) (hwf : attrsWf (plainAttrs l)) (hw : ∀ p ∈ l, p.2.ok)
    (t : TagAcc) (rest : Bytes) :
    run (.beforeAttr t) (attrsTextW l ++ 0x3E :: rest) =
      run' (emit { t with attrs := t.attrs ++ parsed (plainAttrs l) }) rest := by
  induction l generalizing t with
  | nil =>
    simp only [attrsTextW, List.nil_append, plainAttrs, parsed, List.map_nil, List.append_nil]
    exact run_beforeAttr_gt t rest
  | cons p l ih =>
    obtain ⟨a, e⟩ := p
    obtain ⟨⟨hk, hkc, hsep, hval⟩, hlast, hwf'⟩ := hwf
    obtain ⟨he1, he2⟩ := hw (a, e) (List.mem_cons_self ..)
    have hw' : ∀ p ∈ l, p.2.ok := fun q hq => hw q (List.mem_cons_of_mem _ hq)
    obtain ⟨key, form, val, sep⟩ := a
    simp only at hk hkc hsep hval hlast he1 he2
    simp only [attrsTextW, attrTextW, List.append_assoc, List.cons_append]
    rw [← List.append_assoc key, run_key_ws_eq t key e.before _ hk hkc he1, run_beforeVal_ws t key e.after _ he2]
    cases form with
    | dq =>
      simp only [AttrSrc.valText, List.cons_append, List.append_assoc, List.nil_append]
      rw [run_val_quoted t key 0x22 val _ (Or.inl rfl) hval, run_beforeAttr_ws _ sep _ hsep, ih hwf' hw']
      simp [save, parsed, plainAttrs, List.append_assoc]
    | sq =>
      simp only [AttrSrc.valText, List.cons_append, List.append_assoc, List.nil_append]
      rw [run_val_quoted t key 0x27 val _ (Or.inr rfl) hval, run_beforeAttr_ws _ sep _ hsep, ih hwf' hw']
      simp [save, parsed, plainAttrs, List.append_assoc]
    | bare =>
      obtain ⟨hne, hbc, hq1, hq2⟩ := hval
      cases val with
      | nil => exact absurd rfl hne
      | cons c cs =>
        simp only [AttrSrc.valText, List.cons_append]
        rw [run_val_bare t key c cs _ hbc (by simpa using hq1) (by simpa using hq2)]
        cases sep with
        | nil =>
          have hl : plainAttrs l = [] := hlast rfl rfl
          have : l = [] := by
            cases l with
            | nil => rfl
            | cons x xs => simp [plainAttrs] at hl
          subst this
          simp only [attrsTextW, List.nil_append, plainAttrs, parsed, List.map_cons, List.map_nil]
          rw [run_unquoted_gt]
          simp [save]
        | cons w ws =>
          rw [List.cons_append, run_unquoted_ws _ _ _ _ _ (hsep w (List.mem_cons_self ..)),
            run_beforeAttr_ws _ ws _ (fun y hy => hsep y (List.mem_cons_of_mem _ hy)), ih hwf' hw']
          simp [save, parsed, plainAttrs, List.append_assoc]

/-- `run_startTag` for `tagTextW` -/
theorem run_startTagW (c : Nat) (cs ws0 : Bytes) (l : List (AttrSrc × EqWs)) (rest : Bytes)
    (hc : isLetter c = true) (hcs : ∀ x ∈ cs, nameChar x = true)
    (hws : ∀ x ∈ ws0, isWS x = true) (hws0 : ws0 = [] → l = []) (hwf : attrsWf (plainAttrs l))
    (hw : ∀ p ∈ l, p.2.ok) :
    run .data (0x3C :: (c :: cs) ++ ws0 ++ attrsTextW l ++ 0x3E :: rest) =
      run' (emit { start := true, name := c :: cs, attrs := parsed (plainAttrs l) }) rest := by
  simp only [List.cons_append, List.append_assoc]
  rw [run_cons]
  simp only [step, dataStep, beq_self_eq_true, ↓reduceIte, run'_nx]
  rw [run_cons]
  simp only [step, ltStep, hc, ↓reduceIte, run'_nx]
  rw [run_tagName_chars _ cs _ hcs]
  simp only [List.cons_append, List.nil_append]
  cases ws0 with
  | nil =>
    rw [hws0 rfl]
    simp only [List.nil_append, attrsTextW, plainAttrs, parsed, List.map_nil]
    rw [run_tagName_gt]
  | cons w ws =>
    rw [List.cons_append, run_tagName_ws _ _ _ (hws w (List.mem_cons_self ..)),
      run_beforeAttr_ws _ ws _ (fun y hy => hws y (List.mem_cons_of_mem _ hy)), run_attrsW l hwf hw]
    simp

/-- `<meta ws key ws = ws value …>`: white space around `=` changes nothing -/
theorem metaSrc_tagTextW (nm ws0 : Bytes) (l : List (AttrSrc × EqWs))
    (hnm : lowerASCII nm = kMeta) (hws : ∀ x ∈ ws0, isWS x = true) (hws0 : ws0 = [] → l = [])
    (hwf : attrsWf (plainAttrs l)) (hw : ∀ p ∈ l, p.2.ok) : MetaSrc (tagTextW nm ws0 l) (plainAttrs l) := by
  intro rest
  have hl := letters_of_lower nm kMeta hnm kMeta_lower
  cases nm with
  | nil => exact absurd hnm (by decide)
  | cons c cs =>
    have := run_startTagW c cs ws0 l rest (hl c (List.mem_cons_self ..))
      (fun x hx => isLetter_nameChar (hl x (List.mem_cons_of_mem _ hx))) hws hws0 hwf hw
    simp only [rawTags, tagTextW, List.append_assoc, List.cons_append, List.nil_append] at this ⊢
    rw [this]
    simp only [emit, ↓reduceIte, hnm, afterStart_meta, run']

theorem plainAttrs_append_cons (pre post : List (AttrSrc × EqWs)) (p : AttrSrc × EqWs) :
    plainAttrs (pre ++ p :: post) = plainAttrs pre ++ p.1 :: plainAttrs post := by
  simp [plainAttrs]

theorem plainAttrs_pragma (order : Bool) (p1 p2 : AttrSrc × EqWs) (pre mid post : List (AttrSrc × EqWs)) :
    plainAttrs (pragmaAttrs order p1 p2 pre mid post) =
      pragmaAttrs order p1.1 p2.1 (plainAttrs pre) (plainAttrs mid) (plainAttrs post) := by
  cases order <;> simp [pragmaAttrs, plainAttrs]

theorem plainAttrs_none (as : List AttrSrc) : plainAttrs (as.map (fun a => (a, EqWs.none))) = as := by
  simp [plainAttrs, Function.comp_def]

theorem eqWs_none_ok (as : List AttrSrc) : ∀ p ∈ as.map (fun a => (a, EqWs.none)), p.2.ok := by
  intro p hp
  obtain ⟨a, _, rfl⟩ := List.mem_map.mp hp
  constructor <;> (intro c hc; exact absurd hc (by simp [EqWs.none]))

theorem inert_plainAttrs (l : List (AttrSrc × EqWs)) (h : ∀ p ∈ l, inertKey p.1.key) :
    ∀ a ∈ plainAttrs l, inertKey a.key := by
  intro a ha
  obtain ⟨p, hp, rfl⟩ := List.mem_map.mp ha
  exact h p hp

/-- without white space around `=`, `tagTextW` is `tagText` -/
theorem tagTextW_plain (nm ws0 : Bytes) (as : List AttrSrc) :
    tagTextW nm ws0 (as.map (fun a => (a, EqWs.none))) = tagText nm ws0 as := by
  have : attrsTextW (as.map (fun a => (a, EqWs.none))) = attrsText as := by
    induction as with
    | nil => rfl
    | cons a as ih =>
      simp only [List.map_cons, attrsTextW, attrsText, ih]
      simp [attrTextW, AttrSrc.text, EqWs.none]
  simp [tagTextW, tagText, this]

/-! ### no BOM in front of white space and `<` -/

theorem fromBOM_lead_lt (lead r : Bytes) (hlead : ∀ c ∈ lead, isWS c = true) : fromBOM (lead ++ 0x3C :: r) = csNone := by
  cases lead with
  | nil => exact fromBOM_lt r
  | cons c cs =>
    have hc := hlead c (List.mem_cons_self ..)
    refine fromBOM_head c _ ?_
    simp only [isWS, Bool.or_eq_true, beq_iff_eq] at hc
    omega

theorem fromBOM_utf8 (r : Bytes) : fromBOM (utf8BOM ++ r) = csUtf8 := by
  simp [fromBOM, Gen.Charset.boms, fromBOMIn, hasPrefix, utf8BOM, List.isPrefixOf, csUtf8]

/-! ### deciding the side conditions on concrete documents (for the non-vacuity examples) -/

/-- the condition of `AttrSrc.wf` on the value -/
def valOk (f : ValForm) (v : Bytes) : Prop :=
  match f with
  | .dq => ∀ c ∈ v, c ≠ 0x22
  | .sq => ∀ c ∈ v, c ≠ 0x27
  | .bare => v ≠ [] ∧ (∀ c ∈ v, bareChar c = true) ∧ v.head? ≠ some 0x22 ∧ v.head? ≠ some 0x27

instance : (f : ValForm) → (v : Bytes) → Decidable (valOk f v)
  | .dq, v => inferInstanceAs (Decidable (∀ c ∈ v, c ≠ 0x22))
  | .sq, v => inferInstanceAs (Decidable (∀ c ∈ v, c ≠ 0x27))
  | .bare, v => inferInstanceAs (Decidable (v ≠ [] ∧ (∀ c ∈ v, bareChar c = true) ∧ v.head? ≠ some 0x22 ∧ v.head? ≠ some 0x27))

instance (a : AttrSrc) : Decidable a.wf :=
  inferInstanceAs (Decidable (a.key ≠ [] ∧ (∀ c ∈ a.key, keyChar c = true) ∧ (∀ c ∈ a.sep, isWS c = true) ∧ valOk a.form a.val))

instance decAttrsWf : (as : List AttrSrc) → Decidable (attrsWf as)
  | [] => isTrue trivial
  | a :: [] =>
    have : Decidable (attrsWf []) := decAttrsWf []
    inferInstanceAs (Decidable (a.wf ∧ (a.form = .bare → a.sep = [] → ([] : List AttrSrc) = []) ∧ attrsWf []))
  | a :: b :: as =>
    have : Decidable (attrsWf (b :: as)) := decAttrsWf (b :: as)
    have : Decidable (b :: as = []) := isFalse (by simp)
    inferInstanceAs (Decidable (a.wf ∧ (a.form = .bare → a.sep = [] → b :: as = []) ∧ attrsWf (b :: as)))

instance (k : Bytes) : Decidable (inertKey k) :=
  inferInstanceAs (Decidable (lowerASCII k ≠ kContent ∧ lowerASCII k ≠ kwCharset ∧ lowerASCII k ≠ kHttpEquiv))

instance (e : EqWs) : Decidable e.ok :=
  inferInstanceAs (Decidable ((∀ c ∈ e.before, isWS c = true) ∧ (∀ c ∈ e.after, isWS c = true)))

instance (hws : Bytes) (has : List AttrSrc) : Decidable (HtmlTagOk hws has) :=
  match has with
  | [] => inferInstanceAs (Decidable ((∀ x ∈ hws, isWS x = true) ∧ (hws = [] → ([] : List AttrSrc) = []) ∧ attrsWf [] ∧
      (∀ x, hws.head? = some x → x = 0x20)))
  | a :: as =>
    have : Decidable (a :: as = []) := isFalse (by simp)
    inferInstanceAs (Decidable ((∀ x ∈ hws, isWS x = true) ∧ (hws = [] → a :: as = []) ∧ attrsWf (a :: as) ∧
      (∀ x, hws.head? = some x → x = 0x20)))

/-! ### the openings the `HTML` check recognises -/

/-- the signature table of the `HTML` check (regenerated) -/
def htmlSigs : List Bytes := match Gen.d_HTML with
  | .markup s => s
  | _ => []

theorem d_HTML_eq : Gen.d_HTML = .markup htmlSigs := rfl

theorem htmlNode_det : htmlNode.info.det = .markup htmlSigs := by
  have hd : htmlNode.info.det = Gen.d_HTML := by decide
  rw [hd, d_HTML_eq]

/-- no lower-case letter: the signatures are written in upper case -/
def noLowerB (s : Bytes) : Bool := s.all (fun b => !(0x61 ≤ b && b ≤ 0x7A))

theorem and_DF_upper : ∀ b ∈ List.range 0x5B, 0x41 ≤ b → (b &&& 0xDF = b ∧ (b + 0x20) &&& 0xDF = b) := by decide

/-- one step of `ciMatch`: a byte whose ASCII lower-casing equals that of the signature byte matches -/
theorem ci_byte (b d : Nat) (hb : ¬ (0x61 ≤ b ∧ b ≤ 0x7A))
    (h : (if (0x41 ≤ d && d ≤ 0x5A) = true then d + 0x20 else d) =
         (if (0x41 ≤ b && b ≤ 0x5A) = true then b + 0x20 else b)) :
    (if 0x41 ≤ b ∧ b ≤ 0x5A then d &&& 0xDF else d) = b := by
  by_cases hu : 0x41 ≤ b ∧ b ≤ 0x5A
  · have hb' : (0x41 ≤ b && b ≤ 0x5A) = true := by simp [hu]
    rw [if_pos hu]
    rw [if_pos hb'] at h
    obtain ⟨e1, e2⟩ := and_DF_upper b (List.mem_range.mpr (by omega)) hu.1
    split at h
    · have : d = b := by omega
      rw [this]; exact e1
    · rw [h]; exact e2
  · have hb' : ¬ ((0x41 ≤ b && b ≤ 0x5A) = true) := by simpa using hu
    rw [if_neg hu]
    rw [if_neg hb'] at h
    split at h
    · rename_i hd
      simp only [Bool.and_eq_true, decide_eq_true_eq] at hd
      omega
    · exact h

/-- the case-insensitive comparison accepts every letter-case variant of a signature -/
theorem ciMatch_lower (sig x tail : Bytes) (hsig : noLowerB sig = true) (h : lowerASCII x = lowerASCII sig) :
    ciMatch sig (x ++ tail) = some true := by
  induction sig generalizing x with
  | nil => simp [ciMatch]
  | cons b bs ih =>
    cases x with
    | nil => simp [lowerASCII] at h
    | cons d ds =>
      simp only [lowerASCII, List.map_cons, List.cons.injEq] at h
      simp only [noLowerB, List.all_cons, Bool.and_eq_true, Bool.not_eq_true', Bool.and_eq_false_iff,
        decide_eq_false_iff_not] at hsig
      have hb : ¬ (0x61 ≤ b ∧ b ≤ 0x7A) := by
        rcases hsig.1 with h1 | h1 <;> omega
      simp only [List.cons_append, ciMatch]
      rw [ci_byte b d hb h.1]
      simp only [bne_self_eq_false, Bool.false_eq_true, ↓reduceIte]
      exact ih ds hsig.2 h.2

theorem getB_at_length (x : Bytes) (c : Nat) (tail : Bytes) : getB (x ++ c :: tail) x.length = some c := by
  rw [getB_isSome (by simp)]
  induction x with
  | nil => rfl
  | cons a as ih => simp

/-- `markupCheck` accepts a letter-case variant of the signature followed by `>` or SPACE -/
theorem markupCheck_lower (sig x : Bytes) (c : Nat) (tail : Bytes) (hsig : noLowerB sig = true)
    (h : lowerASCII x = lowerASCII sig) (hc : c = 0x3E ∨ c = 0x20) :
    markupCheck sig (x ++ c :: tail) = some true := by
  have hlen : x.length = sig.length := by
    have := congrArg List.length h
    simpa [lowerASCII] using this
  unfold markupCheck
  have hl : ¬ (x ++ c :: tail).length < sig.length + 1 := by
    simp [hlen]
  rw [if_neg hl, ciMatch_lower sig x (c :: tail) hsig h]
  simp only
  rw [← hlen, getB_at_length]
  rcases hc with rfl | rfl <;> rfl

/-- a header that (behind an optional UTF-8 BOM and white space) consists of a letter-case variant of a
    signature of the table followed by `>` or SPACE is accepted by the `HTML` check -/
theorem html_accepts_sig (ext : Ext) (bom : Bool) (lead sig x : Bytes) (c : Nat) (tail : Bytes) (lim : Nat)
    (hlead : ∀ c ∈ lead, isWS c = true) (hmem : sig ∈ htmlSigs) (hsig : noLowerB sig = true)
    (hx : lowerASCII x = lowerASCII sig) (hhead : x.head? = some 0x3C) (hc : c = 0x3E ∨ c = 0x20) :
    accepts ext ((if bom then utf8BOM else []) ++ (lead ++ (x ++ c :: tail))) lim htmlNode.info = true := by
  cases x with
  | nil => simp at hhead
  | cons x0 xs =>
    simp only [List.head?_cons, Option.some.injEq] at hhead
    subst hhead
    have hplain : accepts ext (0x3C :: xs ++ c :: tail) lim htmlNode.info = true := by
      unfold accepts Cust.detEval
      rw [htmlNode_det]
      simp only [Det.evalWith]
      have hbom : hasPrefix (0x3C :: xs ++ c :: tail) utf8BOM = false := by simp [hasPrefix, utf8BOM, List.isPrefixOf]
      have htrim : trimLWS (0x3C :: xs ++ c :: tail) = 0x3C :: xs ++ c :: tail := by simp [trimLWS, isWS]
      simp only [hbom, Bool.false_eq_true, ↓reduceIte, htrim]
      rw [anyG_true _ htmlSigs (fun a _ => C01.markupCheck_total a _) sig hmem
        (markupCheck_lower sig (0x3C :: xs) c tail hsig hx hc)]
      rfl
    refine Eq.trans ?_ hplain
    apply accepts_markup_view ext _ htmlSigs htmlNode_det
    have e1 : markupView (0x3C :: xs ++ c :: tail) = 0x3C :: (xs ++ c :: tail) := by
      simpa using markupView_lead [] (xs ++ c :: tail) (by intro y hy; cases hy)
    rw [e1]
    cases bom with
    | false => simpa using markupView_lead lead (xs ++ c :: tail) hlead
    | true => simpa using markupView_bom_lead lead (xs ++ c :: tail) hlead

/-- the element names among the signatures whose start tag is an ordinary one (no raw text) -/
def openNames : List Bytes :=
  [[104, 116, 109, 108], [104, 101, 97, 100], [98, 111, 100, 121], [100, 105, 118], [102, 111, 110, 116],
   [116, 97, 98, 108, 101], [97], [98], [98, 114], [112]]   -- html head body div font table a b br p

theorem openNames_ok : ∀ n ∈ openNames,
    (∃ sig ∈ htmlSigs, noLowerB sig = true ∧ lowerASCII sig = 0x3C :: n) ∧
    n ≠ kMeta ∧ afterStart n = .data ∧ n ≠ [] ∧ (∀ c ∈ n, 0x61 ≤ c ∧ c ≤ 0x7A) := by decide

def kDoctypeHtml : Bytes := [100, 111, 99, 116, 121, 112, 101, 32, 104, 116, 109, 108]   -- "doctype html"
def sigDoctype : Bytes := [60, 33, 68, 79, 67, 84, 89, 80, 69, 32, 72, 84, 77, 76]        -- "<!DOCTYPE HTML"

theorem sigDoctype_ok : sigDoctype ∈ htmlSigs ∧ noLowerB sigDoctype = true ∧
    lowerASCII sigDoctype = 0x3C :: 0x21 :: kDoctypeHtml := by decide

/-- **the openings**: what an HTML document starts with so that the `HTML` check says yes — leading
    white space, then
    * a start tag `<name>` or `<name` SPACE attributes `>` of html, head, body, div, font, table, a, b,
      br or p (any letter case), or
    * `<!DOCTYPE html>` / `<!DOCTYPE html` SPACE anything-without-`>` `>` (any letter case).
    (The remaining signatures — script, iframe, style, title, h1 — start raw text or have a digit in
    the name and are left out.) -/
inductive HtmlOpen : Bytes → Prop
  | tag (lead nm hsp : Bytes) (has : List AttrSrc) :
      (∀ c ∈ lead, isWS c = true) → lowerASCII nm ∈ openNames → HtmlTagOk hsp has →
      HtmlOpen (lead ++ tagText nm hsp has)
  | doctype (lead dt more : Bytes) :
      (∀ c ∈ lead, isWS c = true) → lowerASCII dt = kDoctypeHtml →
      (∀ x, more.head? = some x → x = 0x20) → (∀ c ∈ more, c ≠ 0x3E) →
      HtmlOpen (lead ++ declText (dt ++ more))

theorem skips_lead (lead : Bytes) (hlead : ∀ c ∈ lead, isWS c = true) : Skips lead := by
  refine skips_text lead ?_
  intro c hc e
  have := hlead c hc
  subst e
  simp [isWS] at this

theorem letters_of_lower_or (dt : Bytes) (c : Nat) (hc : c ∈ dt) (h : lowerASCII dt = kDoctypeHtml) : c ≠ 0x3E := by
  intro e
  subst e
  have : (if (0x41 ≤ (0x3E : Nat) && (0x3E : Nat) ≤ 0x5A) = true then 0x3E + 0x20 else 0x3E) ∈ kDoctypeHtml := by
    rw [← h]; exact List.mem_map.mpr ⟨0x3E, hc, rfl⟩
  revert this
  decide

theorem HtmlOpen.skips {O : Bytes} (h : HtmlOpen O) : Skips O := by
  cases h with
  | tag lead nm hsp has hlead hnm htag =>
    obtain ⟨h1, h2, h3, _⟩ := htag
    obtain ⟨_, hm, ha, hne, hlow⟩ := openNames_ok _ hnm
    refine (skips_lead lead hlead).append (skips_startTag nm hsp has ?_ (letters_of_lower nm _ rfl hlow) hm ha h1 h2 h3)
    intro e
    subst e
    exact hne rfl
  | doctype lead dt more hlead hdt hmore hgt =>
    refine (skips_lead lead hlead).append (skips_decl (dt ++ more) ?_ ?_)
    · intro c hc
      rcases List.mem_append.mp hc with h | h
      · have := letters_of_lower_or dt c h hdt
        exact this
      · exact hgt c h
    · cases dt with
      | nil => simp [lowerASCII, kDoctypeHtml] at hdt
      | cons d ds =>
        simp only [lowerASCII, kDoctypeHtml, List.map_cons, List.cons.injEq] at hdt
        have hd : d ≠ 0x2D := by
          intro e; subst e; simp at hdt
        have e : ((0x2D : Nat) == d) = false := by simpa using fun e => hd e.symm
        simp [hasPrefix, List.isPrefixOf, e]

/-- an opening, seen by the `HTML` check: white space, a letter-case variant of a signature, `>` or SPACE -/
theorem HtmlOpen.view {O : Bytes} (h : HtmlOpen O) (body : Bytes) :
    ∃ lead sig x c tail, (∀ c ∈ lead, isWS c = true) ∧ sig ∈ htmlSigs ∧ noLowerB sig = true ∧
      lowerASCII x = lowerASCII sig ∧ x.head? = some 0x3C ∧ (c = 0x3E ∨ c = 0x20) ∧
      O ++ body = lead ++ (x ++ c :: tail) := by
  cases h with
  | tag lead nm hsp has hlead hnm htag =>
    obtain ⟨⟨sig, hmem, hsig, hlow⟩, _⟩ := openNames_ok _ hnm
    obtain ⟨c, tail, hc, hshape⟩ := tagText_html_shape nm hsp has body htag
    refine ⟨lead, sig, 0x3C :: nm, c, tail, hlead, hmem, hsig, ?_, rfl, hc, ?_⟩
    · rw [hlow]; simp [lowerASCII]
    · rw [List.append_assoc, hshape]
  | doctype lead dt more hlead hdt hmore hgt =>
    obtain ⟨hmem, hsig, hlow⟩ := sigDoctype_ok
    have hx : lowerASCII (0x3C :: 0x21 :: dt) = lowerASCII sigDoctype := by
      rw [hlow, ← hdt]; simp [lowerASCII]
    cases more with
    | nil =>
      refine ⟨lead, sigDoctype, 0x3C :: 0x21 :: dt, 0x3E, body, hlead, hmem, hsig, hx, rfl, Or.inl rfl, ?_⟩
      simp [declText]
    | cons m ms =>
      have := hmore m rfl
      subst this
      refine ⟨lead, sigDoctype, 0x3C :: 0x21 :: dt, 0x20, ms ++ [0x3E] ++ body, hlead, hmem, hsig, hx, rfl, Or.inr rfl, ?_⟩
      simp [declText]

/-- the `HTML` check accepts `[BOM] O body` for every opening `O` -/
theorem HtmlOpen.accepts {O : Bytes} (h : HtmlOpen O) (ext : Ext) (bom : Bool) (body : Bytes) (lim : Nat) :
    accepts ext ((if bom then utf8BOM else []) ++ (O ++ body)) lim htmlNode.info = true := by
  obtain ⟨lead, sig, x, c, tail, hlead, hmem, hsig, hx, hhead, hc, hshape⟩ := h.view body
  rw [hshape]
  exact html_accepts_sig ext bom lead sig x c tail lim hlead hmem hsig hx hhead hc

/-- no BOM in front of an opening -/
theorem HtmlOpen.noBOM {O : Bytes} (h : HtmlOpen O) (body : Bytes) : fromBOM (O ++ body) = csNone := by
  obtain ⟨lead, sig, x, c, tail, hlead, _, _, _, hhead, _, hshape⟩ := h.view body
  rw [hshape]
  cases x with
  | nil => simp at hhead
  | cons x0 xs =>
    simp only [List.head?_cons, Option.some.injEq] at hhead
    subst hhead
    exact fromBOM_lead_lt lead _ hlead

/-- `<html>` in any letter case is an opening -/
theorem htmlOpen_html (htmlNm : Bytes) (hh : lowerASCII htmlNm = kHtml) : HtmlOpen (tagText htmlNm [] []) := by
  have := HtmlOpen.tag [] htmlNm [] [] (by intro c hc; cases hc) (by rw [hh]; decide) htmlTagOk_nil
  simpa using this

instance decMemBytes (n : Bytes) (l : List Bytes) : Decidable (n ∈ l) := inferInstance

end Mime.DetectHtml
