import MimeModel.Model.Heap
import MimeModel.Model.Detect
import MimeModel.Lemmas.Tree
import MimeModel.Props.C14
/-
  The pointer-level model of the detector tree (`Model/Heap.lean`) refines the inductive-tree
  model (`Model/Tree.lean`, `Model/Detect.lean`).
-/
namespace Mime.HeapLemmas
open Mime Mime.Tree Mime.Heap
variable {α : Type}

/-! ### loads and stores -/

theorem lt_of_getElem? {h : Heap α} {x : Nat} {n : Node α} (hx : h[x]? = some n) : x < h.length := by
  have := (List.getElem?_eq_some_iff.mp hx).1; exact this

theorem getElem?_append_of_some {h : Heap α} {x : Ptr} {n : Node α} (k : Heap α) (hx : h[x]? = some n) :
    (h ++ k)[x]? = some n := by
  rw [List.getElem?_append_left (lt_of_getElem? hx)]; exact hx

theorem setParent_length (h : Heap α) (c : Ptr) (p : Option Ptr) : (setParent h c p).length = h.length := by
  unfold setParent; split <;> simp

theorem setParent_ne (h : Heap α) (c : Ptr) (p : Option Ptr) (x : Ptr) (hx : x ≠ c) :
    (setParent h c p)[x]? = h[x]? := by
  unfold setParent; split
  · rfl
  · exact List.getElem?_set_ne (Ne.symm hx)

theorem setParent_self {h : Heap α} {c : Ptr} {n : Node α} (p : Option Ptr) (hc : h[c]? = some n) :
    (setParent h c p)[c]? = some { n with parent := p } := by
  unfold setParent; rw [hc]; simp only
  exact List.getElem?_set_self (lt_of_getElem? hc)

theorem setParent_append_right (g e : Heap α) (x : Ptr) (p : Option Ptr) (hx : g.length ≤ x) :
    setParent (g ++ e) x p = g ++ setParent e (x - g.length) p := by
  unfold setParent
  rw [List.getElem?_append_right hx]
  cases e[x - g.length]? with
  | none => rfl
  | some n => simp only; rw [List.set_append_right _ _ hx]

theorem setParents_length (p : Option Ptr) : ∀ (cs : List Ptr) (h : Heap α), (setParents h p cs).length = h.length
  | [], _ => rfl
  | c :: cs, h => by simp only [setParents]; rw [setParents_length p cs, setParent_length]

theorem setParents_notMem (p : Option Ptr) (x : Ptr) :
    ∀ (cs : List Ptr) (h : Heap α), x ∉ cs → (setParents h p cs)[x]? = h[x]?
  | [], _, _ => rfl
  | c :: cs, h, hx => by
    simp only [setParents]
    rw [setParents_notMem p x cs _ (fun hm => hx (List.mem_cons_of_mem _ hm))]
    exact setParent_ne h c p x (fun he => hx (he ▸ List.mem_cons_self ..))

/-! ### the representation predicate: unfolding, allocation, frame -/

theorem repF_node {h : Heap α} {p : Ptr} {par : Option Ptr} {a : α} {ts : List (Tree α)} {fp : List Ptr} :
    RepF h p par (.node a ts) fp ↔
      ∃ cps fps, h[p]? = some ⟨a, par, cps⟩ ∧ RepListF h (some p) cps ts fps ∧ p ∉ fps ∧ fp = p :: fps := by
  simp only [RepF]

theorem repListF_nil {h : Heap α} {par : Option Ptr} {cps : List Ptr} {fp : List Ptr} :
    RepListF h par cps [] fp ↔ cps = [] ∧ fp = [] := by
  simp only [RepListF]

theorem repListF_cons {h : Heap α} {par : Option Ptr} {cps : List Ptr} {t : Tree α} {ts : List (Tree α)}
    {fp : List Ptr} :
    RepListF h par cps (t :: ts) fp ↔
      ∃ c cs fp1 fp2, cps = c :: cs ∧ RepF h c par t fp1 ∧ RepListF h par cs ts fp2 ∧
        (∀ x ∈ fp1, x ∉ fp2) ∧ fp = fp1 ++ fp2 := by
  simp only [RepListF]

mutual
/-- every address of the footprint is allocated -/
theorem repF_lt {h : Heap α} : ∀ (t : Tree α) {p : Ptr} {par : Option Ptr} {fp : List Ptr},
    RepF h p par t fp → ∀ x : Nat, x ∈ fp → x < h.length
  | .node a ts, p, par, fp, hr, x, hx => by
    obtain ⟨cps, fps, hp, hl, _, rfl⟩ := repF_node.mp hr
    rcases List.mem_cons.mp hx with rfl | hx
    · exact lt_of_getElem? hp
    · exact repListF_lt ts hl x hx
theorem repListF_lt {h : Heap α} : ∀ (ts : List (Tree α)) {par : Option Ptr} {cps : List Ptr} {fp : List Ptr},
    RepListF h par cps ts fp → ∀ x : Nat, x ∈ fp → x < h.length
  | [], par, cps, fp, hr, x, hx => by
    obtain ⟨_, rfl⟩ := repListF_nil.mp hr
    cases hx
  | t :: ts, par, cps, fp, hr, x, hx => by
    obtain ⟨c, cs, fp1, fp2, _, h1, h2, _, rfl⟩ := repListF_cons.mp hr
    rcases List.mem_append.mp hx with hx | hx
    · exact repF_lt t h1 x hx
    · exact repListF_lt ts h2 x hx
end

mutual
/-- **frame**: the predicate only reads the addresses of the footprint -/
theorem repF_frame {h h' : Heap α} : ∀ (t : Tree α) {p : Ptr} {par : Option Ptr} {fp : List Ptr},
    RepF h p par t fp → (∀ x ∈ fp, h'[x]? = h[x]?) → RepF h' p par t fp
  | .node a ts, p, par, fp, hr, hf => by
    obtain ⟨cps, fps, hp, hl, hn, rfl⟩ := repF_node.mp hr
    refine repF_node.mpr ⟨cps, fps, ?_, ?_, hn, rfl⟩
    · rw [hf p (List.mem_cons_self ..)]; exact hp
    · exact repListF_frame ts hl (fun x hx => hf x (List.mem_cons_of_mem _ hx))
theorem repListF_frame {h h' : Heap α} : ∀ (ts : List (Tree α)) {par : Option Ptr} {cps : List Ptr} {fp : List Ptr},
    RepListF h par cps ts fp → (∀ x ∈ fp, h'[x]? = h[x]?) → RepListF h' par cps ts fp
  | [], par, cps, fp, hr, _ => by
    exact repListF_nil.mpr (repListF_nil.mp hr)
  | t :: ts, par, cps, fp, hr, hf => by
    obtain ⟨c, cs, fp1, fp2, hc, h1, h2, hd, rfl⟩ := repListF_cons.mp hr
    refine repListF_cons.mpr ⟨c, cs, fp1, fp2, hc, ?_, ?_, hd, rfl⟩
    · exact repF_frame t h1 (fun x hx => hf x (List.mem_append_left _ hx))
    · exact repListF_frame ts h2 (fun x hx => hf x (List.mem_append_right _ hx))
end

/-- allocation (and stores to the new addresses) do not disturb a represented tree -/
theorem repF_append {h : Heap α} (k : Heap α) {t : Tree α} {p : Ptr} {par : Option Ptr} {fp : List Ptr}
    (hr : RepF h p par t fp) : RepF (h ++ k) p par t fp :=
  repF_frame t hr (fun x hx => List.getElem?_append_left (repF_lt t hr x hx))

theorem repListF_append {h : Heap α} (k : Heap α) {ts : List (Tree α)} {par : Option Ptr} {cps : List Ptr}
    {fp : List Ptr} (hr : RepListF h par cps ts fp) : RepListF (h ++ k) par cps ts fp :=
  repListF_frame ts hr (fun x hx => List.getElem?_append_left (repListF_lt ts hr x hx))

/-- the roots of a represented forest are in its footprint -/
theorem repListF_roots {h : Heap α} : ∀ (ts : List (Tree α)) {par : Option Ptr} {cps : List Ptr} {fp : List Ptr},
    RepListF h par cps ts fp → ∀ c ∈ cps, c ∈ fp
  | [], par, cps, fp, hr, c, hc => by
    obtain ⟨rfl, _⟩ := repListF_nil.mp hr
    cases hc
  | t :: ts, par, cps, fp, hr, c, hc => by
    obtain ⟨c0, cs, fp1, fp2, rfl, h1, h2, _, rfl⟩ := repListF_cons.mp hr
    rcases List.mem_cons.mp hc with rfl | hc
    · cases t with
      | node a us =>
        obtain ⟨_, fps, _, _, _, rfl⟩ := repF_node.mp h1
        exact List.mem_append_left _ (List.mem_cons_self ..)
    · exact List.mem_append_right _ (repListF_roots ts h2 c hc)

theorem repF_root_mem {h : Heap α} {t : Tree α} {p : Ptr} {par : Option Ptr} {fp : List Ptr}
    (hr : RepF h p par t fp) : p ∈ fp := by
  cases t with
  | node a us =>
    obtain ⟨_, fps, _, _, _, rfl⟩ := repF_node.mp hr
    exact List.mem_cons_self ..

mutual
/-- no address occurs twice in the footprint: the children relation is a tree -/
theorem repF_nodup {h : Heap α} : ∀ (t : Tree α) {p : Ptr} {par : Option Ptr} {fp : List Ptr},
    RepF h p par t fp → fp.Nodup
  | .node a ts, p, par, fp, hr => by
    obtain ⟨cps, fps, _, hl, hn, rfl⟩ := repF_node.mp hr
    exact List.nodup_cons.mpr ⟨hn, repListF_nodup ts hl⟩
theorem repListF_nodup {h : Heap α} : ∀ (ts : List (Tree α)) {par : Option Ptr} {cps : List Ptr} {fp : List Ptr},
    RepListF h par cps ts fp → fp.Nodup
  | [], par, cps, fp, hr => by
    obtain ⟨_, rfl⟩ := repListF_nil.mp hr
    exact List.nodup_nil
  | t :: ts, par, cps, fp, hr => by
    obtain ⟨c, cs, fp1, fp2, _, h1, h2, hd, rfl⟩ := repListF_cons.mp hr
    refine List.nodup_append.mpr ⟨repF_nodup t h1, repListF_nodup ts h2, ?_⟩
    intro x hx y hy hxy
    exact hd x hx (hxy ▸ hy)
end

mutual
/-- the height of the represented tree is at most the size of its footprint -/
theorem repF_height {h : Heap α} : ∀ (t : Tree α) {p : Ptr} {par : Option Ptr} {fp : List Ptr},
    RepF h p par t fp → t.height ≤ fp.length
  | .node a ts, p, par, fp, hr => by
    obtain ⟨cps, fps, _, hl, _, rfl⟩ := repF_node.mp hr
    have := repListF_height ts hl
    simp only [height, List.length_cons]; omega
theorem repListF_height {h : Heap α} : ∀ (ts : List (Tree α)) {par : Option Ptr} {cps : List Ptr} {fp : List Ptr},
    RepListF h par cps ts fp → heightList ts ≤ fp.length
  | [], par, cps, fp, hr => by simp [heightList]
  | t :: ts, par, cps, fp, hr => by
    obtain ⟨c, cs, fp1, fp2, _, h1, h2, _, rfl⟩ := repListF_cons.mp hr
    have := repF_height t h1
    have := repListF_height ts h2
    simp only [heightList, List.length_append]; omega
end

/-- pigeonhole: a duplicate-free list of numbers below `n` has at most `n` elements -/
theorem nodup_length_le : ∀ (n : Nat) (l : List Nat), l.Nodup → (∀ x ∈ l, x < n) → l.length ≤ n
  | 0, l, _, hb => by
    cases l with
    | nil => simp
    | cons x xs => exact absurd (hb x (List.mem_cons_self ..)) (Nat.not_lt_zero _)
  | n + 1, l, hn, hb => by
    by_cases hm : n ∈ l
    · obtain ⟨s, t, rfl⟩ := List.append_of_mem hm
      have hn' := List.nodup_append.mp hn
      have hnt := List.nodup_cons.mp hn'.2.1
      have hst : (s ++ t).Nodup :=
        List.nodup_append.mpr ⟨hn'.1, hnt.2, fun a ha b hb => hn'.2.2 a ha b (List.mem_cons_of_mem _ hb)⟩
      have hbound : ∀ x ∈ s ++ t, x < n := by
        intro x hx
        have hx' : x ∈ s ++ n :: t := by
          rcases List.mem_append.mp hx with h1 | h1
          · exact List.mem_append_left _ h1
          · exact List.mem_append_right _ (List.mem_cons_of_mem _ h1)
        have h1 := hb x hx'
        have h2 : x ≠ n := by
          rintro rfl
          rcases List.mem_append.mp hx with h3 | h3
          · exact hn'.2.2 x h3 x (List.mem_cons_self ..) rfl
          · exact hnt.1 h3
        omega
      have := nodup_length_le n (s ++ t) hst hbound
      simp only [List.length_append, List.length_cons] at this ⊢; omega
    · have hbound : ∀ x ∈ l, x < n := by
        intro x hx
        have h1 := hb x hx
        have h2 : x ≠ n := fun he => hm (he ▸ hx)
        omega
      have := nodup_length_le n l hn hbound
      omega

/-- the represented tree is not higher than the heap is long: fuel `h.length` is enough -/
theorem rep_height_le {h : Heap α} {t : Tree α} {p : Ptr} {par : Option Ptr} (hr : Rep h p par t) :
    t.height ≤ h.length := by
  obtain ⟨fp, hr⟩ := hr
  exact Nat.le_trans (repF_height t hr) (nodup_length_le _ fp (repF_nodup t hr) (repF_lt t hr))

/-! ### parent chains -/

theorem chain_lt {h : Heap α} {o : Option Ptr} {ps : List Ptr} {as : List α} (hc : Chain h o ps as) :
    ∀ x : Nat, x ∈ ps → x < h.length := by
  induction hc with
  | nil => intro x hx; cases hx
  | cons hp _ ih =>
    intro x hx
    rcases List.mem_cons.mp hx with rfl | hx
    · exact lt_of_getElem? hp
    · exact ih x hx

theorem chain_length {h : Heap α} {o : Option Ptr} {ps : List Ptr} {as : List α} (hc : Chain h o ps as) :
    ps.length = as.length := by
  induction hc with
  | nil => rfl
  | cons _ _ ih => simp [ih]

/-- a chain only reads `info` and `parent` of the nodes on it -/
theorem chain_frame {h h' : Heap α} {o : Option Ptr} {ps : List Ptr} {as : List α} (hc : Chain h o ps as)
    (hf : ∀ x ∈ ps, ∀ n, h[x]? = some n → ∃ n', h'[x]? = some n' ∧ n'.info = n.info ∧ n'.parent = n.parent) :
    Chain h' o ps as := by
  induction hc with
  | nil => exact Chain.nil
  | @cons p n ps as hp _ ih =>
    obtain ⟨n', hn', hi, hpar⟩ := hf p (List.mem_cons_self ..) n hp
    have := Chain.cons (h := h') hn' (hpar ▸ ih (fun x hx => hf x (List.mem_cons_of_mem _ hx)))
    rw [hi] at this; exact this

theorem chain_append {h : Heap α} (k : Heap α) {o : Option Ptr} {ps : List Ptr} {as : List α}
    (hc : Chain h o ps as) : Chain (h ++ k) o ps as :=
  chain_frame hc (fun _ _ n hn => ⟨n, getElem?_append_of_some k hn, rfl, rfl⟩)

/-- the chain from a given start is unique -/
theorem chain_unique {h : Heap α} {o : Option Ptr} {ps : List Ptr} {as : List α} (hc : Chain h o ps as) :
    ∀ {ps' : List Ptr} {as' : List α}, Chain h o ps' as' → ps' = ps ∧ as' = as := by
  induction hc with
  | nil => intro ps' as' hc'; cases hc'; exact ⟨rfl, rfl⟩
  | @cons p n ps as hp _ ih =>
    intro ps' as' hc'
    cases hc' with
    | @cons _ n' ps'' as'' hp' hc'' =>
      have : n' = n := Option.some.inj (hp'.symm.trans hp)
      subst this
      obtain ⟨rfl, rfl⟩ := ih hc''
      exact ⟨rfl, rfl⟩

/-- `parentChain` computes the chain, exactly when the fuel covers its length -/
theorem parentChain_of_chain {h : Heap α} {p : Ptr} {ps : List Ptr} {as : List α}
    (hc : Chain h (some p) ps as) :
    ∀ fuel, parentChain h p fuel = if ps.length ≤ fuel then some as else none := by
  generalize ho : some p = o at hc
  induction hc generalizing p with
  | nil => cases ho
  | @cons q n ps as hq hc' ih =>
    cases ho
    intro fuel
    cases fuel with
    | zero => simp [parentChain]
    | succ fuel =>
      simp only [parentChain, hq]
      cases hpar : n.parent with
      | none =>
        rw [hpar] at hc'
        cases hc'
        simp
      | some r =>
        simp only
        rw [ih hpar.symm fuel]
        simp only [List.length_cons, Nat.add_le_add_iff_right]
        split <;> simp

/-- a successful `parentChain` walked a chain -/
theorem chain_of_parentChain {h : Heap α} : ∀ (fuel : Nat) (p : Ptr) (l : List α),
    parentChain h p fuel = some l → ∃ ps, Chain h (some p) ps l
  | 0, p, l, hp => by simp [parentChain] at hp
  | fuel + 1, p, l, hp => by
    simp only [parentChain] at hp
    cases hn : h[p]? with
    | none => simp [hn] at hp
    | some n =>
      simp only [hn] at hp
      cases hpar : n.parent with
      | none =>
        simp only [hpar, Option.some.injEq] at hp
        subst hp
        exact ⟨[p], Chain.cons hn (hpar ▸ Chain.nil)⟩
      | some q =>
        simp only [hpar, Option.map_eq_some_iff] at hp
        obtain ⟨l', hl', rfl⟩ := hp
        obtain ⟨ps, hc⟩ := chain_of_parentChain fuel q l' hl'
        exact ⟨p :: ps, Chain.cons hn (hpar ▸ hc)⟩

/-! ### `cloneHierarchy`: exactly which nodes it allocates -/

theorem cloneNodes_length : ∀ (base : Nat) (l : List α), (cloneNodes base l).length = l.length
  | _, [] => rfl
  | _, [_] => rfl
  | base, _ :: b :: rest => by
    simp only [cloneNodes, List.length_cons]
    rw [cloneNodes_length (base + 1) (b :: rest)]; rfl

/-- the nodes allocated by `cloneHierarchy` form a parent chain at consecutive new addresses -/
theorem cloneNodes_chain : ∀ (l : List α) (a : α) (g : Heap α),
    Chain (g ++ cloneNodes g.length (a :: l)) (some g.length) (List.range' g.length (l.length + 1)) (a :: l)
  | [], a, g => by
    have h1 : (g ++ cloneNodes g.length [a])[g.length]? = some ⟨a, none, []⟩ := by
      simp [cloneNodes]
    exact Chain.cons h1 Chain.nil
  | b :: rest, a, g => by
    have ih := cloneNodes_chain rest b (g ++ [⟨a, some (g.length + 1), []⟩])
    have e1 : g ++ cloneNodes g.length (a :: b :: rest) =
        (g ++ [⟨a, some (g.length + 1), []⟩]) ++ cloneNodes (g ++ [(⟨a, some (g.length + 1), []⟩ : Node α)]).length (b :: rest) := by
      simp [cloneNodes]
    have e2 : (g ++ [(⟨a, some (g.length + 1), []⟩ : Node α)]).length = g.length + 1 := by simp
    rw [e1]
    rw [e2] at ih ⊢
    have h1 : ((g ++ [⟨a, some (g.length + 1), []⟩]) ++ cloneNodes (g.length + 1) (b :: rest))[g.length]? =
        some (⟨a, some (g.length + 1), []⟩ : Node α) := by
      rw [List.getElem?_append_left (by simp)]
      exact List.getElem?_concat_length
    have := Chain.cons h1 ih
    rw [List.length_cons, List.range'_succ]
    exact this

theorem setParent_last (g : Heap α) (nb cn : Node α) (v : Option Ptr) :
    setParent ((g ++ [nb]) ++ [cn]) g.length v = (g ++ [{ nb with parent := v }]) ++ [cn] := by
  rw [List.append_assoc, setParent_append_right g _ g.length v (Nat.le_refl _), Nat.sub_self]
  simp [setParent]

/-- the loop of `cloneHierarchy` entered with `lastChild` = the node allocated last -/
theorem cloneLoop_exact : ∀ (as : List α) (g : Heap α) (o : Option Ptr) (ps : List Ptr) (b : α) (fuel : Nat),
    Chain g o ps as → as.length ≤ fuel →
    cloneLoop (g ++ [⟨b, none, []⟩]) o g.length fuel = .ok (g ++ cloneNodes g.length (b :: as))
  | [], g, o, ps, b, fuel, hc, _ => by
    cases hc
    simp [cloneLoop, cloneNodes]
  | a :: as, g, o, ps, b, fuel, hc, hf => by
    cases hc with
    | @cons p n ps' _ hp hc' =>
      cases fuel with
      | zero => simp at hf
      | succ fuel =>
        have hp1 : (g ++ [(⟨b, none, []⟩ : Node α)])[p]? = some n := getElem?_append_of_some _ hp
        have hlen : (g ++ [(⟨b, none, []⟩ : Node α)]).length = g.length + 1 := by simp
        have hp2 : ((g ++ [(⟨b, some (g.length + 1), []⟩ : Node α)]) ++ [⟨n.info, none, []⟩])[p]? = some n := by
          rw [List.append_assoc]; exact getElem?_append_of_some _ hp
        have ih := cloneLoop_exact as (g ++ [⟨b, some (g.length + 1), []⟩]) n.parent ps' n.info fuel
          (chain_append _ hc') (by simpa using hf)
        simp only [cloneLoop, clone, hp1, id, hlen, setParent_last, hp2]
        rw [List.length_append, List.length_singleton] at ih
        rw [ih]
        simp [cloneNodes]

/-- **`cloneHierarchy` exactly**: started at a node with a finite parent chain it appends one
    clone per node of the chain, linked leaf to root, and returns the address of the first -/
theorem cloneHierarchy_exact {h : Heap α} {m : Ptr} {ps : List Ptr} {a : α} {as : List α}
    (leafF : α → α) (fuel : Nat) (hc : Chain h (some m) ps (a :: as)) (hf : as.length ≤ fuel) :
    cloneHierarchy h m leafF fuel = .ok (h ++ cloneNodes h.length (leafF a :: as), h.length) := by
  cases hc with
  | @cons _ n ps' _ hm hc' =>
    have hm1 : (h ++ [(⟨leafF n.info, none, []⟩ : Node α)])[m]? = some n := getElem?_append_of_some _ hm
    simp only [cloneHierarchy, clone, hm, hm1]
    rw [cloneLoop_exact as h n.parent ps' (leafF n.info) fuel hc' hf]

/-! ### `match` -/

mutual
theorem walk_length_le_height (acc : α → Bool) : ∀ t : Tree α, (walk acc t).length ≤ t.height
  | .node a ts => by
    have := walkList_length_le_height acc ts
    simp only [walk, height, List.length_cons]; omega
theorem walkList_length_le_height (acc : α → Bool) : ∀ ts : List (Tree α), (walkList acc ts).length ≤ heightList ts
  | [] => by simp [walkList]
  | t :: ts => by
    have h1 := walk_length_le_height acc t
    have h2 := walkList_length_le_height acc ts
    simp only [walkList, heightList]
    split <;> omega
end

theorem repF_load {h : Heap α} {t : Tree α} {p : Ptr} {par : Option Ptr} {fp : List Ptr}
    (hr : RepF h p par t fp) : ∃ n, h[p]? = some n ∧ n.info = t.info ∧ n.parent = par := by
  cases t with
  | node a us =>
    obtain ⟨cps, _, hp, _, _, _⟩ := repF_node.mp hr
    exact ⟨_, hp, rfl, rfl⟩

mutual
/-- the descent of `match` over a represented tree: it ends in `cloneHierarchy` at a node whose
    parent chain carries the walked path reversed, followed by the chain above the start -/
theorem matchGo_descent (acc : α → Bool) (leafF : α → α) (h : Heap α) (chf : Nat) :
    ∀ (t : Tree α) {p : Ptr} {par : Option Ptr} {fp ps : List Ptr} {as : List α} (F : Nat),
    RepF h p par t fp → Chain h par ps as → t.height ≤ F →
    ∃ leaf qs, Chain h (some leaf) qs ((walk acc t).reverse ++ as) ∧
      matchGo acc leafF h chf p F = cloneHierarchy h leaf leafF chf
  | .node a ts, p, par, fp, ps, as, F, hr, hc, hF => by
    obtain ⟨cps, fps, hp, hl, _, rfl⟩ := repF_node.mp hr
    cases F with
    | zero => simp [height] at hF
    | succ F =>
      have hc1 : Chain h (some p) (p :: ps) (a :: as) := Chain.cons hp hc
      have hF' : heightList ts ≤ F := by simp only [height] at hF; omega
      rcases matchGo_descentList acc leafF h chf ts F hl hc1 hF' with ⟨h1, h2⟩ | ⟨c, h1, leaf, qs, h2, h3⟩
      · refine ⟨p, p :: ps, ?_, ?_⟩
        · simpa [walk, h2] using hc1
        · simp only [matchGo, hp, h1]
      · refine ⟨leaf, qs, ?_, ?_⟩
        · simpa [walk] using h2
        · simp only [matchGo, hp, h1]; exact h3
theorem matchGo_descentList (acc : α → Bool) (leafF : α → α) (h : Heap α) (chf : Nat) :
    ∀ (ts : List (Tree α)) {p : Ptr} {cps fp pps : List Ptr} {aas : List α} (F : Nat),
    RepListF h (some p) cps ts fp → Chain h (some p) pps aas → heightList ts ≤ F →
    (firstAcc acc h cps = some none ∧ walkList acc ts = []) ∨
    (∃ c, firstAcc acc h cps = some (some c) ∧ ∃ leaf qs,
      Chain h (some leaf) qs ((walkList acc ts).reverse ++ aas) ∧
      matchGo acc leafF h chf c F = cloneHierarchy h leaf leafF chf)
  | [], p, cps, fp, pps, aas, F, hr, _, _ => by
    obtain ⟨rfl, _⟩ := repListF_nil.mp hr
    left; simp [firstAcc, walkList]
  | t :: ts, p, cps, fp, pps, aas, F, hr, hc, hF => by
    obtain ⟨c, cs, fp1, fp2, rfl, h1, h2, _, rfl⟩ := repListF_cons.mp hr
    obtain ⟨n, hn, hi, _⟩ := repF_load h1
    simp only [heightList] at hF
    by_cases hacc : acc t.info = true
    · right
      refine ⟨c, by simp [firstAcc, hn, hi, hacc], ?_⟩
      obtain ⟨leaf, qs, hq, hm⟩ := matchGo_descent acc leafF h chf t F h1 hc (by omega)
      exact ⟨leaf, qs, by simpa [walkList, hacc] using hq, hm⟩
    · rcases matchGo_descentList acc leafF h chf ts F h2 hc (by omega) with ⟨h3, h4⟩ | ⟨d, h3, h4⟩
      · left; simp [firstAcc, hn, hi, hacc, h3, walkList, h4]
      · right
        refine ⟨d, by simp [firstAcc, hn, hi, hacc, h3], ?_⟩
        simpa [walkList, hacc] using h4
end

theorem applyHead_reverse_walk_ne_nil (acc : α → Bool) (t : Tree α) :
    ∃ b l, (walk acc t).reverse = b :: l := by
  cases hw : (walk acc t).reverse with
  | nil => exact absurd (List.reverse_eq_nil_iff.mp hw) (walk_ne_nil acc t)
  | cons b l => exact ⟨b, l, rfl⟩

/-- **`match` refines `walk`**.  Over a represented tree, with fuel at least
    the height of the tree, `matchH`
    * succeeds,
    * returns the heap it was given followed by newly allocated nodes (the tree part is
      untouched),
    * returns as result the first new address `h.length`; the nodes on the result's `Parent()`
      chain are at the new addresses `h.length, h.length + 1, …` — none is a node of the tree,
    * and that chain carries `(Tree.walk acc t).reverse` with `leafF` applied to its head: the
      chain of `Mime.detect`. -/
theorem match_refines {h : Heap α} {root : Ptr} {t : Tree α} (acc : α → Bool) (leafF : α → α)
    (hrep : Rep h root none t) (fuel : Nat) (hfuel : t.height ≤ fuel) :
    ∃ h' r ps,
      matchH acc leafF h root fuel = .ok (h', r) ∧
      (∃ ext, h' = h ++ ext) ∧
      Rep h' root none t ∧
      r = h.length ∧ ps = List.range' h.length (walk acc t).length ∧
      (∀ x ∈ ps, h.length ≤ x ∧ x < h'.length) ∧
      Chain h' (some r) ps (applyHead leafF (walk acc t).reverse) ∧
      ∀ f, ps.length ≤ f → parentChain h' r f = some (applyHead leafF (walk acc t).reverse) := by
  obtain ⟨fp, hrep⟩ := hrep
  obtain ⟨leaf, qs, hq, hm⟩ := matchGo_descent acc leafF h fuel t fuel hrep Chain.nil hfuel
  obtain ⟨b, l, hbl⟩ := applyHead_reverse_walk_ne_nil acc t
  have hlen : l.length + 1 = (walk acc t).length := by
    have := congrArg List.length hbl
    simpa using this.symm
  rw [List.append_nil, hbl] at hq
  have hwl := walk_length_le_height acc t
  have hex := cloneHierarchy_exact leafF fuel hq (by omega)
  have hch := cloneNodes_chain l (leafF b) h
  refine ⟨h ++ cloneNodes h.length (leafF b :: l), h.length, List.range' h.length (l.length + 1), ?_, ⟨_, rfl⟩,
    ⟨fp, repF_append _ hrep⟩, rfl, by rw [hlen], ?_, ?_, ?_⟩
  · unfold matchH; rw [hm, hex]
  · intro x hx
    obtain ⟨i, hi, rfl⟩ := List.mem_range'.mp hx
    simp only [List.length_append, cloneNodes_length, List.length_cons]
    omega
  · rw [hbl]; exact hch
  · intro f hf
    rw [hbl, parentChain_of_chain hch f, if_pos hf]; rfl

/-! ### nodes named by child-index paths; termination of the parent walk -/

theorem nodeAt_nil {h : Heap α} {p m : Nat} (hn : nodeAt h p [] = some m) : m = p ∧ p < h.length := by
  simp only [nodeAt] at hn
  split at hn
  · exact ⟨(Option.some.inj hn).symm, by assumption⟩
  · cases hn

theorem nodeAt_cons {h : Heap α} {p m : Ptr} {i : Nat} {is : List Nat} (hn : nodeAt h p (i :: is) = some m) :
    ∃ n c, h[p]? = some n ∧ n.children[i]? = some c ∧ nodeAt h c is = some m := by
  simp only [nodeAt] at hn
  cases hp : h[p]? with
  | none => simp [hp] at hn
  | some n =>
    simp only [hp] at hn
    cases hc : n.children[i]? with
    | none => simp [hc] at hn
    | some c =>
      simp only [hc] at hn
      exact ⟨n, c, rfl, hc, hn⟩

mutual
/-- a node reached by a child-index path lies in the footprint, and following `parent` from it
    reaches nil after (length of the path + 1) nodes, plus the nodes above the start -/
theorem nodeAt_spec {h : Heap α} : ∀ (t : Tree α) {p : Ptr} {par : Option Ptr} {fp ps : List Ptr} {as : List α}
    (path : List Nat) (m : Ptr),
    RepF h p par t fp → Chain h par ps as → nodeAt h p path = some m →
    m ∈ fp ∧ ∃ qs bs, Chain h (some m) qs bs ∧ qs.length = path.length + 1 + ps.length
  | .node a ts, p, par, fp, ps, as, [], m, hr, hc, hn => by
    obtain ⟨cps, fps, hp, _, _, rfl⟩ := repF_node.mp hr
    obtain ⟨rfl, _⟩ := nodeAt_nil hn
    exact ⟨List.mem_cons_self .., m :: ps, a :: as, Chain.cons hp hc, by simp only [List.length_cons, List.length_nil]; omega⟩
  | .node a ts, p, par, fp, ps, as, i :: is, m, hr, hc, hn => by
    obtain ⟨cps, fps, hp, hl, _, rfl⟩ := repF_node.mp hr
    obtain ⟨n, c, hp', hci, hn'⟩ := nodeAt_cons hn
    have : n = ⟨a, par, cps⟩ := Option.some.inj (hp'.symm.trans hp)
    subst this
    obtain ⟨h1, qs, bs, h2, h3⟩ := nodeAtList_spec ts i c is m hl (Chain.cons hp hc) hci hn'
    exact ⟨List.mem_cons_of_mem _ h1, qs, bs, h2, by simp only [List.length_cons] at h3 ⊢; omega⟩
theorem nodeAtList_spec {h : Heap α} : ∀ (ts : List (Tree α)) {par : Option Ptr} {cps fp pps : List Ptr} {aas : List α}
    (i : Nat) (c : Ptr) (is : List Nat) (m : Ptr),
    RepListF h par cps ts fp → Chain h par pps aas → cps[i]? = some c → nodeAt h c is = some m →
    m ∈ fp ∧ ∃ qs bs, Chain h (some m) qs bs ∧ qs.length = is.length + 1 + pps.length
  | [], par, cps, fp, pps, aas, i, c, is, m, hr, _, hci, _ => by
    obtain ⟨rfl, _⟩ := repListF_nil.mp hr
    simp at hci
  | t :: ts, par, cps, fp, pps, aas, 0, c, is, m, hr, hc, hci, hn => by
    obtain ⟨c0, cs, fp1, fp2, rfl, h1, _, _, rfl⟩ := repListF_cons.mp hr
    simp only [List.getElem?_cons_zero, Option.some.injEq] at hci
    subst hci
    obtain ⟨h3, h4⟩ := nodeAt_spec t is m h1 hc hn
    exact ⟨List.mem_append_left _ h3, h4⟩
  | t :: ts, par, cps, fp, pps, aas, i + 1, c, is, m, hr, hc, hci, hn => by
    obtain ⟨c0, cs, fp1, fp2, rfl, _, h2, _, rfl⟩ := repListF_cons.mp hr
    simp only [List.getElem?_cons_succ] at hci
    obtain ⟨h3, h4⟩ := nodeAtList_spec ts i c is m h2 hc hci hn
    exact ⟨List.mem_append_right _ h3, h4⟩
end

/-- **fuel adequacy / termination of `cloneHierarchy`**: under the representation invariant,
    from the node reached by a child-index path of length `d` (its depth) the parent pointers
    reach nil after exactly `d + 1` nodes.  Hence `parentChain` succeeds with fuel `d + 1` and
    `cloneHierarchy` (one unit per loop iteration, i.e. per proper ancestor) with fuel `d`, and
    the clones are new addresses. -/
theorem cloneHierarchy_terminates {h : Heap α} {root : Ptr} {t : Tree α} (hrep : Rep h root none t)
    (path : List Nat) (m : Ptr) (hm : nodeAt h root path = some m) (leafF : α → α) :
    ∃ qs b bs, Chain h (some m) qs (b :: bs) ∧ qs.length = path.length + 1 ∧
      (∀ fuel, path.length + 1 ≤ fuel → parentChain h m fuel = some (b :: bs)) ∧
      (∀ fuel, path.length ≤ fuel →
        cloneHierarchy h m leafF fuel = .ok (h ++ cloneNodes h.length (leafF b :: bs), h.length)) := by
  obtain ⟨fp, hrep⟩ := hrep
  obtain ⟨_, qs, bs, hc, hl⟩ := nodeAt_spec t path m hrep Chain.nil hm
  simp only [List.length_nil, Nat.add_zero] at hl
  cases bs with
  | nil => cases hc
  | cons b bs =>
    have hlen := chain_length hc
    simp only [List.length_cons] at hlen
    refine ⟨qs, b, bs, hc, hl, ?_, ?_⟩
    · intro fuel hf
      rw [parentChain_of_chain hc fuel, if_pos (by omega)]
    · intro fuel hf
      exact cloneHierarchy_exact leafF fuel hc (by omega)

/-- the hypothesis is needed: on a heap with a parent cycle (two nodes that are each other's
    parent) `cloneHierarchy` runs out of fuel, whatever the fuel -/
def cycleHeap : Heap Nat := [⟨10, some 1, []⟩, ⟨11, some 0, []⟩]

theorem cycle_keep {h : Heap Nat} {x : Nat} {n : Node Nat} (cn : Node Nat) (last : Nat) (v : Option Ptr)
    (hx : h[x]? = some n) (hl : x < last) : (setParent (h ++ [cn]) last v)[x]? = some n := by
  rw [setParent_ne _ _ _ _ (Nat.ne_of_lt hl)]; exact getElem?_append_of_some _ hx

theorem cloneLoop_cycle : ∀ (fuel : Nat) (h : Heap Nat) (p last : Nat) (n0 n1 : Node Nat),
    h[0]? = some n0 → h[1]? = some n1 → n0.parent = some 1 → n1.parent = some 0 →
    (p = 0 ∨ p = 1) → 2 ≤ last → cloneLoop h (some p) last fuel = .oof
  | 0, _, _, _, _, _, _, _, _, _, _, _ => rfl
  | fuel + 1, h, p, last, n0, n1, h0, h1, p0, p1, hp, hl => by
    have hlen : 2 ≤ h.length := lt_of_getElem? h1
    rcases hp with rfl | rfl
    · have e0 := cycle_keep ⟨n0.info, none, []⟩ last (some h.length) h0 (by omega)
      have e1 := cycle_keep ⟨n0.info, none, []⟩ last (some h.length) h1 (by omega)
      simp only [cloneLoop, clone, h0, id, e0, p0]
      exact cloneLoop_cycle fuel _ 1 h.length n0 n1 e0 e1 p0 p1 (Or.inr rfl) hlen
    · have e0 := cycle_keep ⟨n1.info, none, []⟩ last (some h.length) h0 (by omega)
      have e1 := cycle_keep ⟨n1.info, none, []⟩ last (some h.length) h1 (by omega)
      simp only [cloneLoop, clone, h1, id, e1, p1]
      exact cloneLoop_cycle fuel _ 0 h.length n0 n1 e0 e1 p0 p1 (Or.inl rfl) hlen

/-- on any heap where the nodes at 0 and 1 are each other's parent -/
theorem cloneHierarchy_cycle (h : Heap Nat) (n0 n1 : Node Nat) (h0 : h[0]? = some n0) (h1 : h[1]? = some n1)
    (p0 : n0.parent = some 1) (p1 : n1.parent = some 0) (leafF : Nat → Nat) (fuel : Nat) :
    cloneHierarchy h 0 leafF fuel = .oof := by
  have hlen : 2 ≤ h.length := lt_of_getElem? h1
  have e0 := getElem?_append_of_some [(⟨leafF n0.info, none, []⟩ : Node Nat)] h0
  have e1 := getElem?_append_of_some [(⟨leafF n0.info, none, []⟩ : Node Nat)] h1
  simp only [cloneHierarchy, clone, h0, e0, p0]
  rw [cloneLoop_cycle fuel _ 1 h.length n0 n1 e0 e1 p0 p1 (Or.inr rfl) hlen]

theorem cloneHierarchy_cycle_oof (leafF : Nat → Nat) (fuel : Nat) :
    cloneHierarchy cycleHeap 0 leafF fuel = .oof :=
  cloneHierarchy_cycle cycleHeap ⟨10, some 1, []⟩ ⟨11, some 0, []⟩ rfl rfl rfl rfl leafF fuel

example : cloneHierarchy cycleHeap 0 id 0 = .oof := by decide
example : cloneHierarchy cycleHeap 0 id 7 = .oof := by decide
example : cloneHierarchy cycleHeap 1 (· + 1) 40 = .oof := by decide
example : parentChain cycleHeap 0 40 = none := by decide
/- whereas a dangling pointer is a fault, not a fuel problem -/
example : cloneHierarchy cycleHeap 5 id 7 = .fault := by decide

/-! ### `Extend` -/

/-- the heap after `m.Extend(…a…)`, `nm` being the node at `m` -/
def extHeap (h : Heap α) (m : Ptr) (nm : Node α) (a : α) : Heap α :=
  (h ++ [(⟨a, some m, []⟩ : Node α)]).set m { nm with children := h.length :: nm.children }

theorem extend_eq {h : Heap α} {m : Ptr} {nm : Node α} (a : α) (hm : h[m]? = some nm) :
    extend h m a = some (extHeap h m nm a, h.length) := by
  simp [extend, hm, extHeap]

theorem extHeap_length (h : Heap α) (m : Ptr) (nm : Node α) (a : α) : (extHeap h m nm a).length = h.length + 1 := by
  simp [extHeap]

theorem extHeap_ne {h : Heap α} {m : Ptr} (nm : Node α) (a : α) {x : Ptr} (hx : x ≠ m) (hlt : x < h.length) :
    (extHeap h m nm a)[x]? = h[x]? := by
  unfold extHeap
  rw [List.getElem?_set_ne (Ne.symm hx), List.getElem?_append_left hlt]

theorem extHeap_self {h : Heap α} {m : Ptr} {nm : Node α} (a : α) (hm : h[m]? = some nm) :
    (extHeap h m nm a)[m]? = some { nm with children := h.length :: nm.children } := by
  unfold extHeap
  exact List.getElem?_set_self (by have := lt_of_getElem? hm; simp; omega)

theorem extHeap_new {h : Heap α} {m : Ptr} {nm : Node α} (a : α) (hm : h[m]? = some nm) :
    (extHeap h m nm a)[h.length]? = some ⟨a, some m, []⟩ := by
  unfold extHeap
  have hlt := lt_of_getElem? hm
  rw [List.getElem?_set_ne (Nat.ne_of_lt hlt)]
  exact List.getElem?_concat_length

theorem nodeAt_lt {h : Heap α} : ∀ (path : List Nat) (p m : Nat), nodeAt h p path = some m → m < h.length
  | [], p, m, hn => by obtain ⟨rfl, hl⟩ := nodeAt_nil hn; exact hl
  | i :: is, p, m, hn => by
    obtain ⟨_, c, _, _, hn'⟩ := nodeAt_cons hn
    exact nodeAt_lt is c m hn'

mutual
theorem extend_repF {h : Heap α} {m : Ptr} {nm : Node α} (a : α) (hm : h[m]? = some nm) :
    ∀ (t : Tree α) {p : Ptr} {par : Option Ptr} {fp ps : List Ptr} {as : List α} (path : List Nat),
    RepF h p par t fp → Chain h par ps as → nodeAt h p path = some m →
    ∃ t' fp', extendAt (.node a []) path t = some t' ∧ RepF (extHeap h m nm a) p par t' fp' ∧
      (∀ x : Nat, x ∈ fp' → x ∈ fp ∨ x = h.length)
  | .node a0 ts, p, par, fp, ps, as, [], hr, _, hn => by
    obtain ⟨cps, fps, hp, hl, hnot, rfl⟩ := repF_node.mp hr
    obtain ⟨rfl, hlt⟩ := nodeAt_nil hn
    have : nm = ⟨a0, par, cps⟩ := Option.some.inj (hm.symm.trans hp)
    subst this
    have hfl := repListF_lt ts hl
    refine ⟨.node a0 (.node a [] :: ts), m :: ([h.length] ++ fps), by simp [extendAt], ?_, ?_⟩
    · refine repF_node.mpr ⟨h.length :: cps, [h.length] ++ fps, extHeap_self a hm, ?_, ?_, rfl⟩
      · refine repListF_cons.mpr ⟨h.length, cps, [h.length], fps, rfl, ?_, ?_, ?_, rfl⟩
        · exact repF_node.mpr ⟨[], [], extHeap_new a hm, repListF_nil.mpr ⟨rfl, rfl⟩, List.not_mem_nil, rfl⟩
        · exact repListF_frame ts hl (fun x hx =>
            extHeap_ne _ a (fun he => hnot (he ▸ hx)) (hfl x hx))
        · intro x hx hx2
          rw [List.mem_singleton] at hx; subst hx
          exact Nat.lt_irrefl _ (hfl _ hx2)
      · intro hmem
        rcases List.mem_append.mp hmem with h1 | h1
        · rw [List.mem_singleton] at h1; exact absurd h1 (Nat.ne_of_lt hlt)
        · exact hnot h1
    · intro x hx
      rcases List.mem_cons.mp hx with rfl | hx
      · exact Or.inl (List.mem_cons_self ..)
      · rcases List.mem_append.mp hx with h1 | h1
        · rw [List.mem_singleton] at h1; exact Or.inr h1
        · exact Or.inl (List.mem_cons_of_mem _ h1)
  | .node a0 ts, p, par, fp, ps, as, i :: is, hr, hc, hn => by
    obtain ⟨cps, fps, hp, hl, hnot, rfl⟩ := repF_node.mp hr
    obtain ⟨n, c, hp', hci, hn'⟩ := nodeAt_cons hn
    have : n = ⟨a0, par, cps⟩ := Option.some.inj (hp'.symm.trans hp)
    subst this
    have hc1 := Chain.cons hp hc
    obtain ⟨ts', fps', h1, h2, h3⟩ := extend_repListF a hm ts i c is hl hc1 hci hn'
    have hmem := (nodeAtList_spec ts i c is m hl hc1 hci hn').1
    have hpm : p ≠ m := fun he => hnot (he ▸ hmem)
    have hplt := lt_of_getElem? hp
    refine ⟨.node a0 ts', p :: fps', by simp [extendAt, h1], ?_, ?_⟩
    · refine repF_node.mpr ⟨cps, fps', ?_, h2, ?_, rfl⟩
      · rw [extHeap_ne _ a hpm hplt]; exact hp
      · intro hx
        rcases h3 p hx with h4 | h4
        · exact hnot h4
        · omega
    · intro x hx
      rcases List.mem_cons.mp hx with rfl | hx
      · exact Or.inl (List.mem_cons_self ..)
      · rcases h3 x hx with h4 | h4
        · exact Or.inl (List.mem_cons_of_mem _ h4)
        · exact Or.inr h4
theorem extend_repListF {h : Heap α} {m : Ptr} {nm : Node α} (a : α) (hm : h[m]? = some nm) :
    ∀ (ts : List (Tree α)) {par : Option Ptr} {cps fp pps : List Ptr} {aas : List α}
    (i : Nat) (c : Ptr) (is : List Nat),
    RepListF h par cps ts fp → Chain h par pps aas → cps[i]? = some c → nodeAt h c is = some m →
    ∃ ts' fp', extendAtList (.node a []) i is ts = some ts' ∧ RepListF (extHeap h m nm a) par cps ts' fp' ∧
      (∀ x : Nat, x ∈ fp' → x ∈ fp ∨ x = h.length)
  | [], par, cps, fp, pps, aas, i, c, is, hr, _, hci, _ => by
    obtain ⟨rfl, _⟩ := repListF_nil.mp hr
    simp at hci
  | t :: ts, par, cps, fp, pps, aas, 0, c, is, hr, hc, hci, hn => by
    obtain ⟨c0, cs, fp1, fp2, rfl, h1, h2, hd, rfl⟩ := repListF_cons.mp hr
    simp only [List.getElem?_cons_zero, Option.some.injEq] at hci
    subst hci
    obtain ⟨t', fp1', e1, e2, e3⟩ := extend_repF a hm t is h1 hc hn
    have hmem := (nodeAt_spec t is m h1 hc hn).1
    have hfl := repListF_lt ts h2
    refine ⟨t' :: ts, fp1' ++ fp2, by simp [extendAtList, e1], ?_, ?_⟩
    · refine repListF_cons.mpr ⟨c0, cs, fp1', fp2, rfl, e2, ?_, ?_, rfl⟩
      · exact repListF_frame ts h2 (fun x hx =>
          extHeap_ne _ a (fun he => hd m hmem (he ▸ hx)) (hfl x hx))
      · intro x hx hx2
        rcases e3 x hx with h4 | h4
        · exact hd x h4 hx2
        · have := hfl x hx2; omega
    · intro x hx
      rcases List.mem_append.mp hx with h4 | h4
      · rcases e3 x h4 with h5 | h5
        · exact Or.inl (List.mem_append_left _ h5)
        · exact Or.inr h5
      · exact Or.inl (List.mem_append_right _ h4)
  | t :: ts, par, cps, fp, pps, aas, i + 1, c, is, hr, hc, hci, hn => by
    obtain ⟨c0, cs, fp1, fp2, rfl, h1, h2, hd, rfl⟩ := repListF_cons.mp hr
    simp only [List.getElem?_cons_succ] at hci
    obtain ⟨ts', fp2', e1, e2, e3⟩ := extend_repListF a hm ts i c is h2 hc hci hn
    have hmem := (nodeAtList_spec ts i c is m h2 hc hci hn).1
    have hfl := repF_lt t h1
    refine ⟨t :: ts', fp1 ++ fp2', by simp [extendAtList, e1], ?_, ?_⟩
    · refine repListF_cons.mpr ⟨c0, cs, fp1, fp2', rfl, ?_, e2, ?_, rfl⟩
      · exact repF_frame t h1 (fun x hx =>
          extHeap_ne _ a (fun he => hd x hx (he ▸ hmem)) (hfl x hx))
      · intro x hx hx2
        rcases e3 x hx2 with h4 | h4
        · exact hd x hx h4
        · have := hfl x hx; omega
    · intro x hx
      rcases List.mem_append.mp hx with h4 | h4
      · exact Or.inl (List.mem_append_left _ h4)
      · rcases e3 x h4 with h5 | h5
        · exact Or.inl (List.mem_append_right _ h5)
        · exact Or.inr h5
end

/-- `Extend` on a node named by a path always succeeds -/
theorem extend_ok {h : Heap α} {root m : Ptr} {path : List Nat} (a : α) (hnode : nodeAt h root path = some m) :
    ∃ h', extend h m a = some (h', h.length) := by
  have hlt := nodeAt_lt path root m hnode
  cases hm : h[m]? with
  | none => exact absurd (List.getElem?_eq_none_iff.mp hm) (by omega)
  | some nm => exact ⟨_, extend_eq a hm⟩

/-- **`Extend` refines `Tree.extendAt`**.  If the heap represents `t` and `m` is the node reached
    from the root by the child-index path `path`, then after `m.Extend(a)` the heap represents
    `Tree.extendAt (node a []) path t`; the new node is the one new address, it is a leaf whose
    parent is `m`; every old address still holds a node with the same `info` and `parent`, and
    only `m`'s children list changed (the new node was put in front). -/
theorem extend_rep {h h' : Heap α} {root m c : Ptr} {t : Tree α} {path : List Nat} {a : α}
    (hrep : Rep h root none t) (hnode : nodeAt h root path = some m) (he : extend h m a = some (h', c)) :
    ∃ t', Tree.extendAt (.node a []) path t = some t' ∧ Rep h' root none t' ∧
      c = h.length ∧ h'.length = h.length + 1 ∧ h'[c]? = some ⟨a, some m, []⟩ ∧
      ∀ x n, h[x]? = some n → ∃ n', h'[x]? = some n' ∧ n'.info = n.info ∧ n'.parent = n.parent ∧
        (x ≠ m → n' = n) ∧ (x = m → n'.children = c :: n.children) := by
  obtain ⟨fp, hrep⟩ := hrep
  have hlt := nodeAt_lt path root m hnode
  cases hm : h[m]? with
  | none => exact absurd (List.getElem?_eq_none_iff.mp hm) (by omega)
  | some nm =>
    rw [extend_eq a hm] at he
    simp only [Option.some.injEq, Prod.mk.injEq] at he
    obtain ⟨rfl, rfl⟩ := he
    obtain ⟨t', fp', h1, h2, _⟩ := extend_repF a hm t path hrep Chain.nil hnode
    refine ⟨t', h1, ⟨fp', h2⟩, rfl, extHeap_length .., extHeap_new a hm, ?_⟩
    intro x n hx
    by_cases hxm : x = m
    · subst hxm
      have : n = nm := Option.some.inj (hx.symm.trans hm)
      subst this
      exact ⟨_, extHeap_self a hm, rfl, rfl, fun hne => absurd rfl hne, fun _ => rfl⟩
    · refine ⟨n, ?_, rfl, rfl, fun _ => rfl, fun he => absurd he hxm⟩
      rw [extHeap_ne nm a hxm (lt_of_getElem? hx)]; exact hx

/-! ### `newMIME` -/

/-- `c.parent = par` on the root of a represented tree -/
theorem setParent_repF {g : Heap α} {c : Ptr} {par0 : Option Ptr} {t : Tree α} {fp : List Ptr} (par : Option Ptr)
    (hr : RepF g c par0 t fp) : RepF (setParent g c par) c par t fp := by
  cases t with
  | node a ts =>
    obtain ⟨cps, fps, hc, hl, hnot, rfl⟩ := repF_node.mp hr
    refine repF_node.mpr ⟨cps, fps, setParent_self par hc, ?_, hnot, rfl⟩
    exact repListF_frame ts hl (fun x hx => setParent_ne g c par x (fun he => hnot (he ▸ hx)))

/-- the loop of `newMIME` over a represented forest whose roots had parent `par0` -/
theorem setParents_repListF (par : Option Ptr) : ∀ (ts : List (Tree α)) {g : Heap α} {par0 : Option Ptr}
    {cps fp : List Ptr}, RepListF g par0 cps ts fp → RepListF (setParents g par cps) par cps ts fp
  | [], g, par0, cps, fp, hr => by
    obtain ⟨rfl, rfl⟩ := repListF_nil.mp hr
    exact repListF_nil.mpr ⟨rfl, rfl⟩
  | t :: ts, g, par0, cps, fp, hr => by
    obtain ⟨c, cs, fp1, fp2, rfl, h1, h2, hd, rfl⟩ := repListF_cons.mp hr
    have hc1 : c ∈ fp1 := repF_root_mem h1
    have h1' : RepF (setParent g c par) c par t fp1 := setParent_repF par h1
    have h2' : RepListF (setParent g c par) par0 cs ts fp2 :=
      repListF_frame ts h2 (fun x hx => setParent_ne g c par x (fun he => hd c hc1 (he ▸ hx)))
    have ih := setParents_repListF par ts h2'
    have hroots := repListF_roots ts h2'
    refine repListF_cons.mpr ⟨c, cs, fp1, fp2, rfl, ?_, ih, hd, rfl⟩
    exact repF_frame t h1' (fun x hx => setParents_notMem par x cs _ (fun hm => hd x hx (hroots x hm)))

theorem setParents_get (p : Option Ptr) : ∀ (cs : List Ptr) (h : Heap α) (x : Ptr) (n : Node α), h[x]? = some n →
    ∃ n', (setParents h p cs)[x]? = some n' ∧ n'.info = n.info ∧ n'.children = n.children ∧
      (x ∉ cs → n' = n) ∧ (x ∈ cs → n'.parent = p)
  | [], h, x, n, hx => ⟨n, hx, rfl, rfl, fun _ => rfl, fun hm => by cases hm⟩
  | c :: cs, h, x, n, hx => by
    by_cases hxc : x = c
    · subst hxc
      obtain ⟨n', h1, h2, h3, h4, h5⟩ := setParents_get p cs _ x _ (setParent_self p hx)
      refine ⟨n', h1, h2, h3, fun hn => absurd (List.mem_cons_self ..) hn, fun _ => ?_⟩
      by_cases hm : x ∈ cs
      · exact h5 hm
      · rw [h4 hm]
    · have hx' : (setParent h c p)[x]? = some n := by rw [setParent_ne h c p x hxc]; exact hx
      obtain ⟨n', h1, h2, h3, h4, h5⟩ := setParents_get p cs _ x n hx'
      refine ⟨n', h1, h2, h3, fun hn => h4 (fun hm => hn (List.mem_cons_of_mem _ hm)), fun hm => ?_⟩
      rcases List.mem_cons.mp hm with he | hm
      · exact absurd he hxc
      · exact h5 hm

/-- **`newMIME` builds a represented node** (this is how tree.go builds the built-in tree,
    bottom-up).  The children given to `newMIME` are the roots `cs` of a represented forest
    `ts`: each `cs[i]` represents `ts[i]`, has no parent yet, and the sub-heaps are pairwise
    disjoint (`RepListF h none cs ts fp`).  Then the new heap represents `node a ts` at the one
    new address; old nodes keep payload and children, only the `parent` of the roots `cs`
    changed. -/
theorem newMIME_rep {h : Heap α} {cs : List Ptr} {ts : List (Tree α)} {fp : List Ptr} (a : α)
    (hf : RepListF h none cs ts fp) :
    (newMIME h a cs).2 = h.length ∧
    RepF (newMIME h a cs).1 h.length none (.node a ts) (h.length :: fp) ∧
    (newMIME h a cs).1.length = h.length + 1 ∧
    ∀ x n, h[x]? = some n → ∃ n', (newMIME h a cs).1[x]? = some n' ∧ n'.info = n.info ∧
      n'.children = n.children ∧ (x ∉ cs → n' = n) ∧ (x ∈ cs → n'.parent = some h.length) := by
  have hlt := repListF_lt ts hf
  have hroots := repListF_roots ts hf
  have hnotcs : h.length ∉ cs := fun hm => Nat.lt_irrefl _ (hlt _ (hroots _ hm))
  refine ⟨rfl, ?_, ?_, ?_⟩
  · refine repF_node.mpr ⟨cs, fp, ?_, ?_, fun hm => Nat.lt_irrefl _ (hlt _ hm), rfl⟩
    · simp only [newMIME]
      rw [setParents_notMem _ _ _ _ hnotcs]
      exact List.getElem?_concat_length
    · exact setParents_repListF (some h.length) ts (repListF_append _ hf)
  · simp [newMIME, setParents_length]
  · intro x n hx
    exact setParents_get (some h.length) cs _ x n (getElem?_append_of_some _ hx)

/-! ### results handed out earlier are not affected by later calls -/

/-- every node of `h` is still there in `h'`, with the same payload and the same parent -/
def Pres (h h' : Heap α) : Prop :=
  ∀ (x : Nat) (n : Node α), h[x]? = some n → ∃ n', h'[x]? = some n' ∧ n'.info = n.info ∧ n'.parent = n.parent

theorem pres_refl (h : Heap α) : Pres h h := fun _ n hx => ⟨n, hx, rfl, rfl⟩

theorem pres_trans {h1 h2 h3 : Heap α} (h12 : Pres h1 h2) (h23 : Pres h2 h3) : Pres h1 h3 := by
  intro x n hx
  obtain ⟨n2, hx2, i2, p2⟩ := h12 x n hx
  obtain ⟨n3, hx3, i3, p3⟩ := h23 x n2 hx2
  exact ⟨n3, hx3, i3.trans i2, p3.trans p2⟩

theorem pres_append (h e : Heap α) : Pres h (h ++ e) := fun _ n hx => ⟨n, getElem?_append_of_some e hx, rfl, rfl⟩

/-- `Extend` on any allocated node (a tree node, an earlier extension, even a detection
    result) keeps payload and parent of every existing node -/
theorem extend_pres {h h' : Heap α} {m c : Ptr} {a : α} (he : extend h m a = some (h', c)) : Pres h h' := by
  cases hm : h[m]? with
  | none => simp [extend, hm] at he
  | some nm =>
    rw [extend_eq a hm] at he
    simp only [Option.some.injEq, Prod.mk.injEq] at he
    obtain ⟨rfl, rfl⟩ := he
    intro x n hx
    by_cases hxm : x = m
    · subst hxm
      have : n = nm := Option.some.inj (hx.symm.trans hm)
      subst this
      exact ⟨_, extHeap_self a hm, rfl, rfl⟩
    · exact ⟨n, by rw [extHeap_ne nm a hxm (lt_of_getElem? hx)]; exact hx, rfl, rfl⟩

/-- the loop of `cloneHierarchy` only stores into nodes allocated by `cloneHierarchy` -/
theorem cloneLoop_prefix (g : Heap α) : ∀ (fuel : Nat) (e : Heap α) (o : Option Ptr) (last : Nat) (h' : Heap α),
    g.length ≤ last → cloneLoop (g ++ e) o last fuel = .ok h' → ∃ e', h' = g ++ e'
  | _, e, none, last, h', _, hr => by
    simp only [cloneLoop, Res.ok.injEq] at hr
    exact ⟨e, hr.symm⟩
  | 0, e, some p, last, h', _, hr => by simp [cloneLoop] at hr
  | fuel + 1, e, some p, last, h', hl, hr => by
    simp only [cloneLoop, clone] at hr
    cases hp : (g ++ e)[p]? with
    | none => simp [hp] at hr
    | some n =>
      simp only [hp, id] at hr
      rw [List.append_assoc, setParent_append_right g _ last _ hl] at hr
      split at hr
      · cases hr
      · exact cloneLoop_prefix g fuel _ _ _ h' (by simp) hr

theorem cloneHierarchy_prefix {h h' : Heap α} {m r : Ptr} {leafF : α → α} {fuel : Nat}
    (hr : cloneHierarchy h m leafF fuel = .ok (h', r)) : ∃ e, h' = h ++ e := by
  simp only [cloneHierarchy, clone] at hr
  cases hm : h[m]? with
  | none => simp [hm] at hr
  | some n =>
    simp only [hm] at hr
    split at hr
    · cases hr
    · split at hr
      · rename_i h2 hcl
        simp only [Res.ok.injEq, Prod.mk.injEq] at hr
        obtain ⟨rfl, _⟩ := hr
        exact cloneLoop_prefix h fuel _ _ _ _ (Nat.le_refl _) hcl
      · cases hr
      · cases hr

theorem matchGo_prefix (acc : α → Bool) (leafF : α → α) (h : Heap α) (chf : Nat) {h' : Heap α} {r : Ptr} :
    ∀ (F : Nat) (m : Ptr), matchGo acc leafF h chf m F = .ok (h', r) → ∃ e, h' = h ++ e
  | 0, m, hr => by simp [matchGo] at hr
  | F + 1, m, hr => by
    simp only [matchGo] at hr
    split at hr
    · cases hr
    · split at hr
      · cases hr
      · exact matchGo_prefix acc leafF h chf F _ hr
      · exact cloneHierarchy_prefix hr

/-- whatever the heap and the fuel: a successful `match` returns the heap it was given,
    followed by new nodes — it never writes to an existing node -/
theorem matchH_prefix {acc : α → Bool} {leafF : α → α} {h h' : Heap α} {m r : Ptr} {fuel : Nat}
    (hr : matchH acc leafF h m fuel = .ok (h', r)) : ∃ e, h' = h ++ e :=
  matchGo_prefix acc leafF h fuel fuel m hr

/-- one later call: `Extend` on any node, or a detection started at any node -/
inductive Step : Heap α → Heap α → Prop
  | extend {h h' : Heap α} {m c : Ptr} {a : α} : extend h m a = some (h', c) → Step h h'
  | detect {h h' : Heap α} {acc : α → Bool} {leafF : α → α} {m r : Ptr} {fuel : Nat} :
      matchH acc leafF h m fuel = .ok (h', r) → Step h h'

/-- any sequence of later calls -/
inductive Steps : Heap α → Heap α → Prop
  | refl (h : Heap α) : Steps h h
  | step {h h1 h2 : Heap α} : Step h h1 → Steps h1 h2 → Steps h h2

theorem step_pres {h h' : Heap α} (hs : Step h h') : Pres h h' := by
  cases hs with
  | extend he => exact extend_pres he
  | detect hm => obtain ⟨e, rfl⟩ := matchH_prefix hm; exact pres_append h e

theorem steps_pres {h h' : Heap α} (hs : Steps h h') : Pres h h' := by
  induction hs with
  | refl h => exact pres_refl h
  | step h1 _ ih => exact pres_trans (step_pres h1) ih

/-- **stability (general form)**: a pointer whose `Parent()` chain is complete in `h1` (reaches
    nil; true of every detection result, `match_refines`) shows the same chain, node for node,
    after any sequence of later `Extend` and detection calls; `parentChain` returns the same
    for every fuel. -/
theorem chain_stable {h1 h2 : Heap α} {r : Ptr} {ps : List Ptr} {as : List α}
    (hc : Chain h1 (some r) ps as) (hs : Steps h1 h2) :
    Chain h2 (some r) ps as ∧ ∀ fuel, parentChain h2 r fuel = parentChain h1 r fuel := by
  have hc2 : Chain h2 (some r) ps as := chain_frame hc (fun x _ n hx => steps_pres hs x n hx)
  exact ⟨hc2, fun fuel => by rw [parentChain_of_chain hc2, parentChain_of_chain hc]⟩

/-- **results are stable** (C14 "values returned earlier are unaffected"): `r` is the result of
    a detection on a heap representing a tree; `h1` is the heap after that detection; `h2` is
    obtained from `h1` by any sequence of later `Extend` calls (on tree nodes, on extensions,
    on results) and detections.  What a caller sees walking `Parent()` from `r` is the same in
    `h2` as in `h1`, namely the walked path of the tree *as it was at the time of the call*. -/
theorem results_stable {h0 h1 h2 : Heap α} {root r : Ptr} {t : Tree α} {acc : α → Bool} {leafF : α → α}
    {fuel : Nat} (hrep : Rep h0 root none t) (hfuel : t.height ≤ fuel)
    (hm : matchH acc leafF h0 root fuel = .ok (h1, r)) (hs : Steps h1 h2) :
    (∀ f, parentChain h2 r f = parentChain h1 r f) ∧
    (∀ f, (walk acc t).length ≤ f → parentChain h2 r f = some (applyHead leafF (walk acc t).reverse)) := by
  obtain ⟨h', r', ps, hm', _, _, _, hps, _, hc, hpc⟩ := match_refines acc leafF hrep fuel hfuel
  rw [hm] at hm'
  simp only [Res.ok.injEq, Prod.mk.injEq] at hm'
  obtain ⟨rfl, rfl⟩ := hm'
  obtain ⟨_, h2eq⟩ := chain_stable hc hs
  refine ⟨h2eq, fun f hf => ?_⟩
  rw [h2eq f]
  exact hpc f (by rw [hps]; simpa using hf)

/-! ### `lookup` -/

mutual
theorem lookupH_descent (q : α → Bool) (h : Heap α) :
    ∀ (t : Tree α) {m : Ptr} {par : Option Ptr} {fp ps : List Ptr} {as : List α} (F : Nat),
    RepF h m par t fp → Chain h par ps as → t.height ≤ F →
    match Tree.lookup q t with
    | none => lookupH q h m F = some none
    | some l => ∃ r rs, lookupH q h m F = some (some r) ∧ r ∈ fp ∧ Chain h (some r) rs (l.reverse ++ as)
  | .node a ts, m, par, fp, ps, as, F, hr, hc, hF => by
    obtain ⟨cps, fps, hm, hl, _, rfl⟩ := repF_node.mp hr
    cases F with
    | zero => simp [height] at hF
    | succ F =>
      have hc1 : Chain h (some m) (m :: ps) (a :: as) := Chain.cons hm hc
      have hF' : heightList ts ≤ F := by simp only [height] at hF; omega
      have ih := lookupLoop_descent q h ts F hl hc1 hF'
      simp only [Tree.lookup, lookupH, hm]
      by_cases hq : q a = true
      · simp only [hq, if_true]
        exact ⟨m, m :: ps, rfl, List.mem_cons_self .., by simpa using hc1⟩
      · simp only [hq, Bool.false_eq_true, if_false]
        cases hll : lookupList q ts with
        | none => simp only [hll] at ih; simpa using ih
        | some l =>
          simp only [hll] at ih
          obtain ⟨r, rs, h1, h2, h3⟩ := ih
          exact ⟨r, rs, h1, List.mem_cons_of_mem _ h2, by simpa using h3⟩
theorem lookupLoop_descent (q : α → Bool) (h : Heap α) :
    ∀ (ts : List (Tree α)) {par : Option Ptr} {cps fp pps : List Ptr} {aas : List α} (F : Nat),
    RepListF h par cps ts fp → Chain h par pps aas → heightList ts ≤ F →
    match Tree.lookupList q ts with
    | none => lookupLoop (fun c => lookupH q h c F) cps = some none
    | some l => ∃ r rs, lookupLoop (fun c => lookupH q h c F) cps = some (some r) ∧ r ∈ fp ∧
        Chain h (some r) rs (l.reverse ++ aas)
  | [], par, cps, fp, pps, aas, F, hr, _, _ => by
    obtain ⟨rfl, _⟩ := repListF_nil.mp hr
    simp [lookupList, lookupLoop]
  | t :: ts, par, cps, fp, pps, aas, F, hr, hc, hF => by
    obtain ⟨c, cs, fp1, fp2, rfl, h1, h2, _, rfl⟩ := repListF_cons.mp hr
    simp only [heightList] at hF
    have ih1 := lookupH_descent q h t F h1 hc (by omega)
    have ih2 := lookupLoop_descent q h ts F h2 hc (by omega)
    simp only [lookupList, lookupLoop]
    cases hl1 : Tree.lookup q t with
    | some l =>
      simp only [hl1] at ih1 ⊢
      obtain ⟨r, rs, e1, e2, e3⟩ := ih1
      exact ⟨r, rs, by simp [e1], List.mem_append_left _ e2, e3⟩
    | none =>
      simp only [hl1] at ih1 ⊢
      simp only [ih1]
      cases hl2 : lookupList q ts with
      | none => simp only [hl2] at ih2 ⊢; exact ih2
      | some l =>
        simp only [hl2] at ih2 ⊢
        obtain ⟨r, rs, e1, e2, e3⟩ := ih2
        exact ⟨r, rs, e1, List.mem_append_right _ e2, e3⟩
end

mutual
theorem lookup_last (q : α → Bool) : ∀ (t : Tree α) (l : List α), Tree.lookup q t = some l →
    ∃ b, l.getLast? = some b ∧ q b = true
  | .node a ts, l, hl => by
    simp only [Tree.lookup] at hl
    split at hl
    · rename_i hq
      cases hl; exact ⟨a, rfl, hq⟩
    · simp only [Option.map_eq_some_iff] at hl
      obtain ⟨l', hl', rfl⟩ := hl
      obtain ⟨b, hb1, hb2⟩ := lookupList_last q ts l' hl'
      refine ⟨b, ?_, hb2⟩
      cases l' with
      | nil => simp at hb1
      | cons x xs => simpa [List.getLast?_cons_cons] using hb1
theorem lookupList_last (q : α → Bool) : ∀ (ts : List (Tree α)) (l : List α), lookupList q ts = some l →
    ∃ b, l.getLast? = some b ∧ q b = true
  | [], l, hl => by simp [lookupList] at hl
  | t :: ts, l, hl => by
    simp only [lookupList] at hl
    cases h1 : Tree.lookup q t with
    | some r =>
      simp only [h1, Option.some.injEq] at hl
      subst hl
      exact lookup_last q t r h1
    | none =>
      simp only [h1] at hl
      exact lookupList_last q ts l hl
end

/-- **`lookup` refines `Tree.lookup`**.  With fuel at least the height of the tree:
    if `Tree.lookup` finds nothing, `lookupH` returns nil; if it returns the payload path `l`
    (root first, found node last), `lookupH` returns a pointer `r` to a node of the tree whose
    payload is the last element of `l` and whose `Parent()` chain carries `l` reversed. -/
theorem lookup_refines {h : Heap α} {root : Ptr} {t : Tree α} (q : α → Bool) (hrep : Rep h root none t)
    (fuel : Nat) (hfuel : t.height ≤ fuel) :
    match Tree.lookup q t with
    | none => lookupH q h root fuel = some none
    | some l => ∃ r n rs, lookupH q h root fuel = some (some r) ∧ h[r]? = some n ∧ some n.info = l.getLast? ∧
        q n.info = true ∧ Chain h (some r) rs l.reverse ∧
        ∀ f, l.length ≤ f → parentChain h r f = some l.reverse := by
  obtain ⟨fp, hrep⟩ := hrep
  have key := lookupH_descent q h t fuel hrep Chain.nil hfuel
  cases hl : Tree.lookup q t with
  | none => simp only [hl] at key ⊢; exact key
  | some l =>
    simp only [hl] at key ⊢
    obtain ⟨r, rs, h1, _, h3⟩ := key
    rw [List.append_nil] at h3
    obtain ⟨b, hb1, hb2⟩ := lookup_last q t l hl
    have hlen : rs.length = l.length := by simpa using chain_length h3
    have hpc := parentChain_of_chain h3
    generalize hlr : l.reverse = lr at h3
    cases h3 with
    | @cons _ n ps' as' hr hc' =>
      have hlast : l.getLast? = some n.info := by rw [← List.head?_reverse, hlr]; rfl
      refine ⟨r, n, r :: ps', h1, hr, hlast.symm, ?_, ?_, ?_⟩
      · rw [hb1] at hlast
        rw [← Option.some.inj hlast]; exact hb2
      · exact Chain.cons hr hc'
      · intro f hf
        rw [hpc f, if_pos (by rw [hlen]; exact hf), hlr]

/-! ### the abstraction is a function of the heap; the invariant is preserved by the calls -/

mutual
/-- a sub-heap represents at most one tree (and has one footprint): the abstraction `t` of
    `WF h root` is determined by the heap -/
theorem repF_functional {h : Heap α} : ∀ (t : Tree α) {p : Ptr} {par par' : Option Ptr} {t' : Tree α}
    {fp fp' : List Ptr}, RepF h p par t fp → RepF h p par' t' fp' → t = t' ∧ fp = fp'
  | .node a ts, p, par, par', t', fp, fp', hr, hr' => by
    cases t' with
    | node a' ts' =>
      obtain ⟨cps, fps, hp, hl, _, rfl⟩ := repF_node.mp hr
      obtain ⟨cps', fps', hp', hl', _, rfl⟩ := repF_node.mp hr'
      have := Option.some.inj (hp.symm.trans hp')
      simp only [Node.mk.injEq] at this
      obtain ⟨rfl, _, rfl⟩ := this
      obtain ⟨rfl, rfl⟩ := repListF_functional ts hl hl'
      exact ⟨rfl, rfl⟩
theorem repListF_functional {h : Heap α} : ∀ (ts : List (Tree α)) {par par' : Option Ptr} {cps : List Ptr}
    {ts' : List (Tree α)} {fp fp' : List Ptr},
    RepListF h par cps ts fp → RepListF h par' cps ts' fp' → ts = ts' ∧ fp = fp'
  | [], par, par', cps, ts', fp, fp', hr, hr' => by
    obtain ⟨rfl, rfl⟩ := repListF_nil.mp hr
    cases ts' with
    | nil => obtain ⟨_, rfl⟩ := repListF_nil.mp hr'; exact ⟨rfl, rfl⟩
    | cons t' ts' =>
      obtain ⟨_, _, _, _, hc, _⟩ := repListF_cons.mp hr'
      cases hc
  | t :: ts, par, par', cps, ts', fp, fp', hr, hr' => by
    obtain ⟨c, cs, fp1, fp2, rfl, h1, h2, _, rfl⟩ := repListF_cons.mp hr
    cases ts' with
    | nil => obtain ⟨hc, _⟩ := repListF_nil.mp hr'; cases hc
    | cons t' ts' =>
      obtain ⟨c', cs', fp1', fp2', hc, h1', h2', _, rfl⟩ := repListF_cons.mp hr'
      simp only [List.cons.injEq] at hc
      obtain ⟨rfl, rfl⟩ := hc
      obtain ⟨rfl, rfl⟩ := repF_functional t h1 h1'
      obtain ⟨rfl, rfl⟩ := repListF_functional ts h2 h2'
      exact ⟨rfl, rfl⟩
end

theorem rep_functional {h : Heap α} {p : Ptr} {par par' : Option Ptr} {t t' : Tree α}
    (hr : Rep h p par t) (hr' : Rep h p par' t') : t = t' := by
  obtain ⟨fp, hr⟩ := hr
  obtain ⟨fp', hr'⟩ := hr'
  exact (repF_functional t hr hr').1

/-- a detection (from any node, with any fuel) leaves the represented tree as it is -/
theorem match_preserves_rep {h h' : Heap α} {root m r : Ptr} {t : Tree α} {acc : α → Bool} {leafF : α → α}
    {fuel : Nat} (hrep : Rep h root none t) (hm : matchH acc leafF h m fuel = .ok (h', r)) :
    Rep h' root none t := by
  obtain ⟨fp, hrep⟩ := hrep
  obtain ⟨e, rfl⟩ := matchH_prefix hm
  exact ⟨fp, repF_append e hrep⟩

/-- `Extend` on a node outside the tree (a detection result, say) leaves the represented tree
    as it is: results do not alias the tree -/
theorem extend_outside_preserves_rep {h h' : Heap α} {root m c : Ptr} {t : Tree α} {fp : List Ptr} {a : α}
    (hrep : RepF h root none t fp) (hout : m ∉ fp) (he : extend h m a = some (h', c)) :
    RepF h' root none t fp := by
  cases hm : h[m]? with
  | none => simp [extend, hm] at he
  | some nm =>
    rw [extend_eq a hm] at he
    simp only [Option.some.injEq, Prod.mk.injEq] at he
    obtain ⟨rfl, rfl⟩ := he
    exact repF_frame t hrep (fun x hx => extHeap_ne nm a (fun he => hout (he ▸ hx)) (repF_lt t hrep x hx))

/-- a sequence of `Extend` calls on tree nodes named by child-index paths, as in
    `C14.applyAll` (each path is resolved in the heap at the time of the call) -/
def runExt (root : Ptr) : List (List Nat × α) → Heap α → Option (Heap α)
  | [], h => some h
  | (path, a) :: ops, h =>
    match nodeAt h root path with
    | none => none
    | some m =>
      match extend h m a with
      | none => none
      | some (h', _) => runExt root ops h'

/-- **any history of `Extend` calls refines `C14.applyAll`**: the heap keeps representing a
    tree, namely the value-level tree after the same calls — so every C14 statement about
    `applyAll` (priority of extensions, non-interference) holds of the pointer structure -/
theorem runExt_rep {root : Ptr} : ∀ (ops : List (List Nat × α)) {h h' : Heap α} {t : Tree α},
    Rep h root none t → runExt root ops h = some h' →
    ∃ t', C14.applyAll ops t = some t' ∧ Rep h' root none t' ∧ Steps h h'
  | [], h, h', t, hrep, hr => by
    simp only [runExt, Option.some.injEq] at hr
    subst hr
    exact ⟨t, rfl, hrep, Steps.refl h⟩
  | (path, a) :: ops, h, h', t, hrep, hr => by
    simp only [runExt] at hr
    cases hn : nodeAt h root path with
    | none => simp [hn] at hr
    | some m =>
      simp only [hn] at hr
      cases he : extend h m a with
      | none => simp [he] at hr
      | some res =>
        obtain ⟨h1, c⟩ := res
        simp only [he] at hr
        obtain ⟨t1, e1, hrep1, _⟩ := extend_rep hrep hn he
        obtain ⟨t', e2, hrep', hs⟩ := runExt_rep ops hrep1 hr
        exact ⟨t', by simp [C14.applyAll, e1, e2], hrep', Steps.step (Step.extend he) hs⟩

/-- **`match` with the heap-size bound**: `h.length` units of fuel always suffice -/
theorem match_refines_heapsize {h : Heap α} {root : Ptr} {t : Tree α} (acc : α → Bool) (leafF : α → α)
    (hrep : Rep h root none t) (fuel : Nat) (hfuel : h.length ≤ fuel) :
    ∃ h' r ps,
      matchH acc leafF h root fuel = .ok (h', r) ∧
      (∃ ext, h' = h ++ ext) ∧
      Rep h' root none t ∧
      r = h.length ∧ ps = List.range' h.length (walk acc t).length ∧
      (∀ x ∈ ps, h.length ≤ x ∧ x < h'.length) ∧
      Chain h' (some r) ps (applyHead leafF (walk acc t).reverse) ∧
      ∀ f, ps.length ≤ f → parentChain h' r f = some (applyHead leafF (walk acc t).reverse) :=
  match_refines acc leafF hrep fuel (Nat.le_trans (rep_height_le hrep) hfuel)

/-- the result shares no node with the tree: its chain lies outside the footprint -/
theorem match_result_disjoint {h : Heap α} {root : Ptr} {t : Tree α} {fp : List Ptr} (hrep : RepF h root none t fp)
    (x : Nat) (hx : h.length ≤ x) : x ∉ fp :=
  fun hm => Nat.lt_irrefl _ (Nat.lt_of_lt_of_le (repF_lt t hrep x hm) hx)

/-- **the pointer-level `Detect` computes `Mime.detect`'s chain**: for the payload `Info`, the
    verdict function of `Model/Detect.lean`, and any tree (built-in or extended) -/
theorem match_refines_detect {h : Heap Info} {root : Ptr} {T : Tree Info} (ext : Ext) (x : Bytes) (lim : Nat)
    (leafF : Info → Info) (hrep : Rep h root none T) (fuel : Nat) (hfuel : h.length ≤ fuel) :
    ∃ h' r, matchH (accepts ext (header x lim) lim) leafF h root fuel = .ok (h', r) ∧
      ∀ f, (detect ext T x lim).chain.length ≤ f →
        parentChain h' r f = some (applyHead leafF (detect ext T x lim).chain) := by
  obtain ⟨h', r, ps, h1, _, _, _, hps, _, _, h2⟩ :=
    match_refines_heapsize (accepts ext (header x lim) lim) leafF hrep fuel hfuel
  refine ⟨h', r, h1, fun f hf => ?_⟩
  have : (detect ext T x lim).chain = (walk (accepts ext (header x lim) lim) T).reverse := rfl
  rw [this] at hf ⊢
  exact h2 f (by rw [hps]; simpa using hf)

/-! ### what the invariant says in first-order terms -/

mutual
/-- every node reached by a child-index path is itself the root of a represented sub-tree,
    inside the footprint -/
theorem nodeAt_sub {h : Heap α} : ∀ (t : Tree α) {p : Ptr} {par : Option Ptr} {fp : List Ptr}
    (path : List Nat) (m : Ptr), RepF h p par t fp → nodeAt h p path = some m →
    ∃ par' t' fp', RepF h m par' t' fp' ∧ ∀ x ∈ fp', x ∈ fp
  | .node a ts, p, par, fp, [], m, hr, hn => by
    obtain ⟨rfl, _⟩ := nodeAt_nil hn
    exact ⟨par, _, fp, hr, fun _ hx => hx⟩
  | .node a ts, p, par, fp, i :: is, m, hr, hn => by
    obtain ⟨cps, fps, hp, hl, _, rfl⟩ := repF_node.mp hr
    obtain ⟨n, c, hp', hci, hn'⟩ := nodeAt_cons hn
    have : n = ⟨a, par, cps⟩ := Option.some.inj (hp'.symm.trans hp)
    subst this
    obtain ⟨par', t', fp', h1, h2⟩ := nodeAtList_sub ts i c is m hl hci hn'
    exact ⟨par', t', fp', h1, fun x hx => List.mem_cons_of_mem _ (h2 x hx)⟩
theorem nodeAtList_sub {h : Heap α} : ∀ (ts : List (Tree α)) {par : Option Ptr} {cps fp : List Ptr}
    (i : Nat) (c : Ptr) (is : List Nat) (m : Ptr),
    RepListF h par cps ts fp → cps[i]? = some c → nodeAt h c is = some m →
    ∃ par' t' fp', RepF h m par' t' fp' ∧ ∀ x ∈ fp', x ∈ fp
  | [], par, cps, fp, i, c, is, m, hr, hci, _ => by
    obtain ⟨rfl, _⟩ := repListF_nil.mp hr
    simp at hci
  | t :: ts, par, cps, fp, 0, c, is, m, hr, hci, hn => by
    obtain ⟨c0, cs, fp1, fp2, rfl, h1, _, _, rfl⟩ := repListF_cons.mp hr
    simp only [List.getElem?_cons_zero, Option.some.injEq] at hci
    subst hci
    obtain ⟨par', t', fp', e1, e2⟩ := nodeAt_sub t is m h1 hn
    exact ⟨par', t', fp', e1, fun x hx => List.mem_append_left _ (e2 x hx)⟩
  | t :: ts, par, cps, fp, i + 1, c, is, m, hr, hci, hn => by
    obtain ⟨c0, cs, fp1, fp2, rfl, _, h2, _, rfl⟩ := repListF_cons.mp hr
    simp only [List.getElem?_cons_succ] at hci
    obtain ⟨par', t', fp', e1, e2⟩ := nodeAtList_sub ts i c is m h2 hci hn
    exact ⟨par', t', fp', e1, fun x hx => List.mem_append_right _ (e2 x hx)⟩
end

theorem repListF_children {h : Heap α} : ∀ (ts : List (Tree α)) {par : Option Ptr} {cps fp : List Ptr},
    RepListF h par cps ts fp → cps.Nodup ∧ ∀ c ∈ cps, ∃ nc, h[c]? = some nc ∧ nc.parent = par
  | [], par, cps, fp, hr => by
    obtain ⟨rfl, _⟩ := repListF_nil.mp hr
    exact ⟨List.nodup_nil, fun c hc => by cases hc⟩
  | t :: ts, par, cps, fp, hr => by
    obtain ⟨c0, cs, fp1, fp2, rfl, h1, h2, hd, rfl⟩ := repListF_cons.mp hr
    obtain ⟨ih1, ih2⟩ := repListF_children ts h2
    refine ⟨List.nodup_cons.mpr ⟨fun hm => hd c0 (repF_root_mem h1) (repListF_roots ts h2 c0 hm), ih1⟩, ?_⟩
    intro c hc
    rcases List.mem_cons.mp hc with rfl | hc
    · obtain ⟨n, hn, _, hp⟩ := repF_load h1
      exact ⟨n, hn, hp⟩
    · exact ih2 c hc

/-- **the invariant, spelled out**: the root has no parent; every node `m` reachable from the
    root through `children` is allocated, its children are allocated, distinct, and each has
    `parent = m`; and the reachable nodes all lie in a duplicate-free footprint (`repF_nodup`:
    no node is reachable twice, there is no cycle). -/
theorem wf_spelled_out {h : Heap α} {root : Ptr} {t : Tree α} (hrep : Rep h root none t) :
    (∃ n, h[root]? = some n ∧ n.parent = none ∧ n.info = t.info) ∧
    ∀ path m, nodeAt h root path = some m →
      ∃ nm, h[m]? = some nm ∧ nm.children.Nodup ∧
        ∀ c ∈ nm.children, ∃ nc, h[c]? = some nc ∧ nc.parent = some m := by
  obtain ⟨fp, hrep⟩ := hrep
  refine ⟨?_, fun path m hn => ?_⟩
  · obtain ⟨n, h1, h2, h3⟩ := repF_load hrep
    exact ⟨n, h1, h3, h2⟩
  · obtain ⟨par', t', fp', h1, _⟩ := nodeAt_sub t path m hrep hn
    cases t' with
    | node a ts =>
      obtain ⟨cps, fps, hp, hl, _, _⟩ := repF_node.mp h1
      obtain ⟨e1, e2⟩ := repListF_children ts hl
      exact ⟨_, hp, e1, e2⟩

/-- **`match` refines `walk`, read against C02 / C03**: the chain a caller sees from the result
    is `leafF leaf :: ancestors` where `leaf :: ancestors` reversed is the first-match deepest
    path of the tree (`C03.Path`), so it is finite and its last element is the root's payload. -/
theorem match_refines_path {h : Heap α} {root : Ptr} {t : Tree α} (acc : α → Bool) (leafF : α → α)
    (hrep : Rep h root none t) (fuel : Nat) (hfuel : h.length ≤ fuel) :
    ∃ h' r leaf ancestors,
      matchH acc leafF h root fuel = .ok (h', r) ∧
      C03.Path acc t (leaf :: ancestors).reverse ∧
      (leaf :: ancestors).getLast? = some t.info ∧
      ∀ f, ancestors.length + 1 ≤ f → parentChain h' r f = some (leafF leaf :: ancestors) := by
  obtain ⟨h', r, ps, h1, _, _, _, hps, _, _, h2⟩ := match_refines_heapsize acc leafF hrep fuel hfuel
  obtain ⟨b, l, hbl⟩ := applyHead_reverse_walk_ne_nil acc t
  have hw : walk acc t = (b :: l).reverse := by rw [← hbl, List.reverse_reverse]
  refine ⟨h', r, b, l, h1, ?_, ?_, fun f hf => ?_⟩
  · rw [← hw]; exact C03.walk_spec acc t
  · rw [← hbl, List.getLast?_reverse]; exact walk_head acc t
  · have := h2 f (by rw [hps, hw]; simpa using hf)
    rw [hbl] at this; exact this

/-! ### non-vacuity: a root with two children and one grandchild -/

section Examples

/-- payloads: root 0, children 1 and 2, grandchild 3 (under 1) -/
def exTree : Tree Nat := .node 0 [.node 1 [.node 3 []], .node 2 []]

/-- built bottom-up with `newMIME`, as tree.go does: grandchild, first child, second child, root -/
def exBuild : Heap Nat × Ptr :=
  let (h1, g) := newMIME [] 3 []
  let (h2, c1) := newMIME h1 1 [g]
  let (h3, c2) := newMIME h2 2 []
  newMIME h3 0 [c1, c2]

def exHeap : Heap Nat :=
  [⟨3, some 1, []⟩, ⟨1, some 3, [0]⟩, ⟨2, some 3, []⟩, ⟨0, none, [1, 2]⟩]

example : exBuild = (exHeap, 3) := by decide

/-- the heap represents the tree, with footprint root, child, grandchild, child -/
theorem exRepF : RepF exHeap 3 none exTree [3, 1, 0, 2] := by
  refine repF_node.mpr ⟨[1, 2], [1, 0, 2], by decide, ?_, by decide, rfl⟩
  refine repListF_cons.mpr ⟨1, [2], [1, 0], [2], rfl, ?_, ?_, by decide, rfl⟩
  · refine repF_node.mpr ⟨[0], [0], by decide, ?_, by decide, rfl⟩
    refine repListF_cons.mpr ⟨0, [], [0], [], rfl, ?_, repListF_nil.mpr ⟨rfl, rfl⟩, by decide, rfl⟩
    exact repF_node.mpr ⟨[], [], by decide, repListF_nil.mpr ⟨rfl, rfl⟩, by decide, rfl⟩
  · refine repListF_cons.mpr ⟨2, [], [2], [], rfl, ?_, repListF_nil.mpr ⟨rfl, rfl⟩, by decide, rfl⟩
    exact repF_node.mpr ⟨[], [], by decide, repListF_nil.mpr ⟨rfl, rfl⟩, by decide, rfl⟩

theorem exWF : WF exHeap 3 := ⟨exTree, [3, 1, 0, 2], exRepF⟩

/-- the same through `newMIME_rep`: a leaf, then a node over it -/
example : Rep (newMIME (newMIME ([] : Heap Nat) 3 []).1 1 [0]).1 1 none (.node 1 [.node 3 []]) := by
  have h1 := (newMIME_rep (h := ([] : Heap Nat)) (cs := []) (ts := []) 3 (repListF_nil.mpr ⟨rfl, rfl⟩)).2.1
  have h2 := newMIME_rep (h := (newMIME ([] : Heap Nat) 3 []).1) (cs := [0]) (ts := [.node 3 []]) 1
    (repListF_cons.mpr ⟨0, [], [0], [], rfl, h1, repListF_nil.mpr ⟨rfl, rfl⟩, by decide, rfl⟩)
  exact ⟨_, h2.2.1⟩

/-- odd payloads accept -/
def exAcc : Nat → Bool := fun n => n % 2 == 1

/- a detection: descends 3 → 1 → 0 (payloads 0, 1, 3), allocates three clones at 4, 5, 6;
   the tree part of the heap is untouched; `leafF` (+100) applies to the leaf clone only -/
def exHeap1 : Heap Nat := exHeap ++ [⟨103, some 5, []⟩, ⟨1, some 6, []⟩, ⟨0, none, []⟩]

example : Tree.walk exAcc exTree = [0, 1, 3] := by decide
example : matchH exAcc (· + 100) exHeap 3 4 = .ok (exHeap1, 4) := by decide
example : parentChain exHeap1 4 3 = some [103, 1, 0] := by decide
example : parentChain exHeap1 4 2 = none := by decide
/- too little fuel and a dangling start are reported as such -/
example : matchH exAcc (· + 100) exHeap 3 2 = .oof := by decide
example : matchH exAcc (· + 100) exHeap 9 4 = .fault := by decide

/- an extension of the first child (path [0]): node 7 is allocated with parent 1 and put in
   front of 1's children; the value-level tree is `extendAt` -/
def exHeap2 : Heap Nat :=
  [⟨3, some 1, []⟩, ⟨1, some 3, [7, 0]⟩, ⟨2, some 3, []⟩, ⟨0, none, [1, 2]⟩,
   ⟨103, some 5, []⟩, ⟨1, some 6, []⟩, ⟨0, none, []⟩, ⟨9, some 1, []⟩]

example : nodeAt exHeap1 3 [0] = some 1 := by decide
example : extend exHeap1 1 9 = some (exHeap2, 7) := by decide
example : Tree.extendAt (.node 9 []) [0] exTree = some (.node 0 [.node 1 [.node 9 [], .node 3 []], .node 2 []]) := rfl
/- the chain of the earlier result after the later extension: unchanged -/
example : parentChain exHeap2 4 3 = some [103, 1, 0] := by decide
/- while a new detection sees the extension first -/
example : (match matchH exAcc (· + 100) exHeap2 3 8 with
    | .ok (h, r) => parentChain h r 3
    | _ => none) = some [109, 1, 0] := by decide
/- `Extend` on the earlier result itself does not change the tree either -/
example : (match extend exHeap2 4 11 with
    | some (h, _) => (matchH exAcc id h 3 9, parentChain h 4 3)
    | none => (.fault, none)) =
    (.ok (exHeap2.set 4 ⟨103, some 5, [8]⟩ ++ [⟨11, some 4, []⟩, ⟨9, some 10, []⟩, ⟨1, some 11, []⟩, ⟨0, none, []⟩], 9),
     some [103, 1, 0]) := by decide

/- lookup: the grandchild is found at address 0; its `Parent()` chain is the path reversed -/
example : Tree.lookup (· == 3) exTree = some [0, 1, 3] := by decide
example : lookupH (· == 3) exHeap 3 3 = some (some 0) := by decide
example : parentChain exHeap 0 3 = some [3, 1, 0] := by decide
example : lookupH (· == 8) exHeap 3 3 = some none := by decide
example : lookupH (· == 3) exHeap 3 2 = none := by decide

/- the invariant matters: if `newMIME` forgot to set the grandchild's parent (it stays nil),
   the same descent returns a truncated hierarchy -/
def exBad : Heap Nat :=
  [⟨3, none, []⟩, ⟨1, some 3, [0]⟩, ⟨2, some 3, []⟩, ⟨0, none, [1, 2]⟩]
example : (match matchH exAcc id exBad 3 4 with
    | .ok (h, r) => parentChain h r 4
    | _ => none) = some [3] := by decide

end Examples

end Mime.HeapLemmas
