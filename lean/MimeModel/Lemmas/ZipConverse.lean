import MimeModel.Lemmas.ZipLayout
/-
  C19 converse clause derived from the zip layout specification (`MimeModel.Spec.Zip`):
  in a clean archive the only occurrences of `PK\x03\x04` are the signatures of the entries, so
  the byte-level "30 bytes after a signature" of `verdict_implies_marker` is the position of an
  entry's name: a positive `zipContains` verdict implies that the marker is the beginning of an
  entry name.
-/
namespace Mime.ZipConverse
open Mime Mime.Spec.Zip Mime.C19Base Mime.ZipLayout

/-! ### the tail (central directory, end record, …) -/

/-- `t` does not begin with a proper suffix of `PK\x03\x04`: no occurrence of the signature can
    start in the block before `t` and end inside `t` -/
def NoBorder (t : Bytes) : Prop :=
  hasPrefix t [0x4B, 0x03, 0x04] = false ∧ hasPrefix t [0x03, 0x04] = false ∧ hasPrefix t [0x04] = false

/-- the tail of the archive contains no local-header signature, and none can straddle the last
    entry and the tail -/
def CleanTail (t : Bytes) : Prop := indexOf pk34 t = none ∧ NoBorder t

instance (t : Bytes) : Decidable (NoBorder t) := by unfold NoBorder; infer_instance
instance (t : Bytes) : Decidable (CleanTail t) := by unfold CleanTail; infer_instance

theorem noBorder_nil : NoBorder [] := by decide

/-- whatever starts with `P` has no border with the signature… -/
theorem noBorder_P (r : Bytes) : NoBorder (0x50 :: r) := by
  simp [NoBorder, hasPrefix, List.isPrefixOf]

/-- … in particular a central directory record `PK\x01\x02…` -/
theorem noBorder_central (r : Bytes) : NoBorder ([0x50, 0x4B, 0x01, 0x02] ++ r) := noBorder_P _
/-- … an end-of-central-directory record `PK\x05\x06…` -/
theorem noBorder_end (r : Bytes) : NoBorder ([0x50, 0x4B, 0x05, 0x06] ++ r) := noBorder_P _
/-- … and the image of an entry -/
theorem noBorder_pk34 (r : Bytes) : NoBorder (pk34 ++ r) := noBorder_P _

/-- **no straddling occurrence**, general form of `ZipLayout.no_straddle`: the signature cannot
    start inside a non-empty block `s` (that it is not a prefix of) and end inside `t` -/
theorem straddle_false (s t : Bytes) (hs : s ≠ []) (h : pk34.isPrefixOf s = false) (hb : NoBorder t) :
    pk34.isPrefixOf (s ++ t) = false := by
  obtain ⟨h1, h2, h3⟩ := hb
  simp only [hasPrefix] at h1 h2 h3
  match s, hs, h with
  | [a], _, _ => simp [pk34, List.isPrefixOf, h1]
  | [a, b], _, _ => simp [pk34, List.isPrefixOf, h2]
  | [a, b, c], _, _ => simp [pk34, List.isPrefixOf, h3]
  | a :: b :: c :: d :: t, _, h => simpa [pk34, List.isPrefixOf] using h

/-- two clean blocks without border: the concatenation is clean -/
theorem indexOf_append_none : ∀ (s t : Bytes), indexOf pk34 s = none → indexOf pk34 t = none →
    NoBorder t → indexOf pk34 (s ++ t) = none := by
  intro s
  induction s with
  | nil => intro t _ ht _; simpa using ht
  | cons a as ih =>
    intro t h ht hb
    obtain ⟨h1, h2⟩ := indexOf_cons_none h
    have hn := straddle_false (a :: as) t (by simp) h1 hb
    have ih' := ih t h2 ht hb
    simp only [List.cons_append] at hn ⊢
    simp only [indexOf, hn, Bool.false_eq_true, ↓reduceIte, ih']

/-- a central directory (or end record) in front of a clean tail: a clean tail -/
theorem cleanTail_central (r : Bytes) (h : CleanTail r) : CleanTail ([0x50, 0x4B, 0x01, 0x02] ++ r) :=
  ⟨indexOf_append_none _ r (by decide) h.1 h.2, noBorder_central r⟩
theorem cleanTail_end (r : Bytes) (h : CleanTail r) : CleanTail ([0x50, 0x4B, 0x05, 0x06] ++ r) :=
  ⟨indexOf_append_none _ r (by decide) h.1 h.2, noBorder_end r⟩

/-! ### occurrences of the signature -/

/-- a clean block has no occurrence of the signature -/
theorem no_occ_of_clean (s : Bytes) (k : Nat) (h : indexOf pk34 s = none) :
    hasPrefix (s.drop k) pk34 = false := by
  have hd := indexOf_drop_none k s h
  cases hs : s.drop k with
  | nil => decide
  | cons a as =>
    rw [hs] at hd
    exact (indexOf_cons_none hd).1

/-- an occurrence in `s ++ t`, `s` clean, `t` without border, lies entirely in `t` -/
theorem occ_append (s t : Bytes) (k : Nat) (hs : indexOf pk34 s = none) (hb : NoBorder t)
    (h : hasPrefix ((s ++ t).drop k) pk34 = true) : s.length ≤ k := by
  apply Decidable.byContradiction
  intro hk
  have hk : k < s.length := by omega
  rw [List.drop_append_of_le_length (by omega)] at h
  have hne : s.drop k ≠ [] := by
    intro e
    have := congrArg List.length e
    simp only [List.length_drop, List.length_nil] at this
    omega
  have := straddle_false (s.drop k) t hne (no_occ_of_clean s k hs) hb
  simp only [hasPrefix] at h
  rw [this] at h
  cases h

/-- no occurrence starts at offsets 1..3 of a signature -/
theorem no_occ_inside_sig (r : Bytes) (k : Nat) (h0 : 0 < k) (h4 : k < 4) :
    hasPrefix ((pk34 ++ r).drop k) pk34 = false := by
  obtain rfl | rfl | rfl : k = 1 ∨ k = 2 ∨ k = 3 := by omega
  all_goals simp [pk34, hasPrefix, List.isPrefixOf]

theorem archive_nil (tail : Bytes) : archive [] tail = tail := by
  simp only [archive, List.map_nil, List.flatten_nil, List.nil_append]

/-- what follows an entry has no border with the signature -/
theorem noBorder_archive (es : List Entry) (tail : Bytes) (ht : NoBorder tail) :
    NoBorder (archive es tail) := by
  cases es with
  | nil => rw [archive_nil]; exact ht
  | cons e es =>
    rw [archive_cons]
    simp only [Entry.image, List.append_assoc]
    exact noBorder_pk34 _

/-- **1. the occurrences of `PK\x03\x04` in a clean archive are the entries' signatures**:
    if the signature occurs at offset `k`, then `k` is the start offset of an entry -/
theorem pk34_occurrences (es : List Entry) (tail : Bytes)
    (hclean : ∀ e ∈ es, e.Clean) (htail : CleanTail tail) :
    ∀ k, hasPrefix ((archive es tail).drop k) pk34 = true →
      ∃ pre e post, es = pre ++ e :: post ∧ k = ((pre.map Entry.image).flatten).length := by
  induction es with
  | nil =>
    intro k hk
    rw [archive_nil, no_occ_of_clean tail k htail.1] at hk
    cases hk
  | cons e es ih =>
    intro k hk
    have hce : indexOf pk34 e.body = none := hclean e (by simp)
    have hnb := noBorder_archive es tail htail.2
    have himg : archive (e :: es) tail = pk34 ++ (e.body ++ archive es tail) := by
      rw [archive_cons]; simp only [Entry.image, List.append_assoc]
    by_cases h0 : k = 0
    · exact ⟨[], e, es, rfl, by simp [h0]⟩
    · by_cases h4 : k < 4
      · rw [himg, no_occ_inside_sig _ k (by omega) h4] at hk
        cases hk
      · obtain ⟨j, rfl⟩ : ∃ j, k = pk34.length + j := ⟨k - 4, by rw [pk34_length]; omega⟩
        rw [himg, ← List.drop_drop, List.drop_left] at hk
        have hj := occ_append e.body (archive es tail) j hce hnb hk
        obtain ⟨m, rfl⟩ : ∃ m, j = e.body.length + m := ⟨j - e.body.length, by omega⟩
        rw [← List.drop_drop, List.drop_left] at hk
        obtain ⟨pre, e', post, hes, hm⟩ := ih (fun x hx => hclean x (List.mem_cons_of_mem _ hx)) m hk
        refine ⟨e :: pre, e', post, by rw [hes]; rfl, ?_⟩
        simp only [List.map_cons, List.flatten_cons, List.length_append, Entry.image, ← hm]
        omega

/-- the same as an equivalence: the signature occurs at `k` iff an entry starts at `k` -/
theorem pk34_occurrences_iff (es : List Entry) (tail : Bytes)
    (hclean : ∀ e ∈ es, e.Clean) (htail : CleanTail tail) (k : Nat) :
    hasPrefix ((archive es tail).drop k) pk34 = true ↔
      ∃ pre e post, es = pre ++ e :: post ∧ k = ((pre.map Entry.image).flatten).length := by
  refine ⟨pk34_occurrences es tail hclean htail k, ?_⟩
  rintro ⟨pre, e, post, rfl, rfl⟩
  rw [archive_append, List.drop_left, archive_cons]
  simp only [Entry.image, List.append_assoc]
  rw [hasPrefix_iff]
  exact List.prefix_append _ _

/-! ### 2. the converse clause -/

/-- **the bytes at the position of the verdict are an entry's, from its name on**: a positive
    verdict on a clean archive implies that some entry `e` of the archive
    shows the marker at its name position — the bytes there are the name, the extra field, the
    data and the descriptor of `e`, then the following entries and the tail -/
theorem layout_converse (es : List Entry) (tail sig : Bytes) (mso : Bool)
    (hwf : ∀ e ∈ es, e.WF) (hclean : ∀ e ∈ es, e.Clean) (htail : CleanTail tail)
    (h : zipContains (archive es tail) sig mso = some true) :
    ∃ pre e post, es = pre ++ e :: post ∧
      hasPrefix (e.name ++ (e.extra ++ e.data ++ e.desc ++ archive post tail)) sig = true := by
  obtain ⟨k, hk, hpos⟩ := verdict_implies_marker _ sig mso h
  rcases hpos with rfl | ⟨h30, hpk⟩
  · cases es with
    | nil =>
      -- an archive without entries does not start with a local file header: no verdict
      have hp := (zipContains_true _ sig mso h).2.1
      rw [archive_nil] at hp
      have := no_occ_of_clean tail 0 htail.1
      rw [List.drop_zero, hp] at this
      cases this
    | cons e es =>
      refine ⟨[], e, es, rfl, ?_⟩
      rw [archive_cons, drop_image_name e _ (hwf e (by simp)).1] at hk
      exact hk
  · obtain ⟨pre, e, post, rfl, hlen⟩ := pk34_occurrences es tail hclean htail _ hpk
    refine ⟨pre, e, post, rfl, ?_⟩
    have hk' : k = ((pre.map Entry.image).flatten).length + 30 := by omega
    rw [archive_append, archive_cons, hk', drop_to_name _ e _ (hwf e (by simp)).1] at hk
    exact hk

/-- `n` is a proper prefix of `sig` -/
def ProperPrefix (n sig : Bytes) : Prop := n.length < sig.length ∧ hasPrefix sig n = true

instance (n sig : Bytes) : Decidable (ProperPrefix n sig) := by unfold ProperPrefix; infer_instance

/-- the marker at the name position of an entry whose name is not a proper prefix of the marker
    is the beginning of the name -/
theorem marker_in_name (n rest sig : Bytes) (hn : ¬ ProperPrefix n sig)
    (h : hasPrefix (n ++ rest) sig = true) : hasPrefix n sig = true := by
  rw [hasPrefix_iff] at h ⊢
  by_cases hl : sig.length ≤ n.length
  · exact List.prefix_of_prefix_length_le h (List.prefix_append n rest) hl
  · exfalso
    apply hn
    refine ⟨by omega, ?_⟩
    rw [hasPrefix_iff]
    exact List.prefix_of_prefix_length_le (List.prefix_append n rest) h (by omega)

/-- **C19 converse clause, from the layout**: in a clean archive (bodies and
    tail free of embedded signatures) where no entry name is a proper prefix of the marker — in
    particular when every name is at least as long as the marker — a positive verdict implies that
    **the marker is the beginning of an entry name** -/
theorem layout_converse_name (es : List Entry) (tail sig : Bytes) (mso : Bool)
    (hwf : ∀ e ∈ es, e.WF) (hclean : ∀ e ∈ es, e.Clean) (htail : CleanTail tail)
    (hshort : ∀ e ∈ es, ¬ ProperPrefix e.name sig)
    (h : zipContains (archive es tail) sig mso = some true) :
    ∃ e ∈ es, hasPrefix e.name sig = true := by
  obtain ⟨pre, e, post, rfl, hp⟩ := layout_converse es tail sig mso hwf hclean htail h
  exact ⟨e, by simp, marker_in_name _ _ sig (hshort e (by simp)) hp⟩

/-- the stronger, simpler side condition: every name is at least as long as the marker -/
theorem layout_converse_name_of_long (es : List Entry) (tail sig : Bytes) (mso : Bool)
    (hwf : ∀ e ∈ es, e.WF) (hclean : ∀ e ∈ es, e.Clean) (htail : CleanTail tail)
    (hlong : ∀ e ∈ es, sig.length ≤ e.name.length)
    (h : zipContains (archive es tail) sig mso = some true) :
    ∃ e ∈ es, hasPrefix e.name sig = true :=
  layout_converse_name es tail sig mso hwf hclean htail
    (fun e he hp => by have := hlong e he; have := hp.1; omega) h

/-! ### 3. the contrapositive, in the property's words -/

/-- **a plain zip is not an OOXML/JAR/APK**: if no entry name starts with the marker (and none is
    a proper prefix of it), `zipContains` answers `false` — it neither accepts nor fails -/
theorem no_marker_plain_zip (es : List Entry) (tail sig : Bytes) (mso : Bool)
    (hwf : ∀ e ∈ es, e.WF) (hclean : ∀ e ∈ es, e.Clean) (htail : CleanTail tail)
    (hshort : ∀ e ∈ es, ¬ ProperPrefix e.name sig)
    (hno : ∀ e ∈ es, hasPrefix e.name sig = false) :
    zipContains (archive es tail) sig mso = some false := by
  obtain ⟨v, hv⟩ := zipContains_total (archive es tail) sig mso
  cases v with
  | false => exact hv
  | true =>
    obtain ⟨e, he, hp⟩ := layout_converse_name es tail sig mso hwf hclean htail hshort hv
    rw [hno e he] at hp
    cases hp

/-- one hypothesis instead of two: no entry name is comparable with the marker (neither starts
    with the other) -/
theorem no_marker_plain_zip' (es : List Entry) (tail sig : Bytes) (mso : Bool)
    (hwf : ∀ e ∈ es, e.WF) (hclean : ∀ e ∈ es, e.Clean) (htail : CleanTail tail)
    (hno : ∀ e ∈ es, hasPrefix e.name sig = false ∧ hasPrefix sig e.name = false) :
    zipContains (archive es tail) sig mso = some false :=
  no_marker_plain_zip es tail sig mso hwf hclean htail
    (fun e he hp => by have := hp.2; rw [(hno e he).2] at this; cases this) (fun e he => (hno e he).1)

/-! ### 4. non-vacuity, and the hypotheses are needed -/

/-- `[Content_Types].xml, _rels/.rels, word/document.xml` + central directory stand-in: all
    hypotheses of `layout_converse_name` hold (marker `word/`, mso check on), and the conclusion
    is witnessed by entry 3 -/
example : ∃ e ∈ [ex1, ex2, ex4], hasPrefix e.name exWord = true :=
  layout_converse_name [ex1, ex2, ex4] exTail exWord true
    (by decide +kernel) (by decide +kernel) (by decide +kernel) (by decide +kernel)
    (by decide +kernel)

example : hasPrefix ex4.name exWord = true := by decide

/-- the signature occurs at offsets 0, 54 and 115 of that archive (240 bytes) — the starts of the
    three entries — and nowhere else -/
example : (List.range 240).filter (fun k => hasPrefix ((archive [ex1, ex2, ex4] exTail).drop k) pk34)
    = [0, 54, 115] := by decide +kernel

example : CleanTail exTail := by decide +kernel

/-- an archive without the marker: the hypotheses of `no_marker_plain_zip` hold, the verdict is
    `some false` … -/
example : zipContains (archive [ex1, ex2, ex3] exTail) exWord true = some false :=
  no_marker_plain_zip [ex1, ex2, ex3] exTail exWord true
    (by decide +kernel) (by decide +kernel) (by decide +kernel) (by decide +kernel)
    (by decide +kernel)

/-- … which direct evaluation of the model confirms -/
example : zipContains (archive [ex1, ex2, ex3] exTail) exWord true = some false := by decide +kernel

/-- an entry named `wo` whose stored data starts with `rd/` -/
def exWo : Entry := ⟨exFixed 20 2, [119, 111], [], [114, 100, 47] ++ List.replicate 17 120, []⟩

/-- **`hshort` is needed**: `[Content_Types].xml`, then an entry named `wo` whose data starts with
    `rd/`: well-formed, clean, clean tail — a docx verdict, and no name starts with `word/` -/
example : (∀ e ∈ [ex1, exWo, ex3], e.WF) ∧ (∀ e ∈ [ex1, exWo, ex3], e.Clean) ∧ CleanTail exTail ∧
    zipContains (archive [ex1, exWo, ex3] exTail) exWord true = some true ∧
    (∀ e ∈ [ex1, exWo, ex3], hasPrefix e.name exWord = false) ∧
    ProperPrefix exWo.name exWord := by decide +kernel

/-- **archives without entries**: an empty archive (end record only) whose comment shows `word/`
    at offset 30 has no entry name, and gets no docx verdict: `zipContains` requires a local file
    header at offset 0. (Before the repair recorded in known_findings.txt under C19 the model — and
    the code — answered `some true` here, and `es ≠ []` was a hypothesis of the theorems above.) -/
example : CleanTail ([0x50, 0x4B, 5, 6] ++ List.replicate 16 0 ++ [13, 0] ++ List.replicate 8 32 ++ exWord) ∧
    zipContains (archive [] ([0x50, 0x4B, 5, 6] ++ List.replicate 16 0 ++ [13, 0] ++ List.replicate 8 32 ++ exWord))
      exWord false = some false ∧
    zipWalk (archive [] ([0x50, 0x4B, 5, 6] ++ List.replicate 16 0 ++ [13, 0] ++ List.replicate 8 32 ++ exWord))
      exWord false = some true := by decide +kernel

/-- a stored entry `a.zip` whose data embeds (after 30 bytes) a local header named `word/…` -/
def exInner : Entry := ⟨exFixed 0 5, [97, 46, 122, 105, 112], [], List.replicate 30 120 ++ ex4.image, []⟩

/-- **cleanliness is needed**: a zip stored inside a zip gets the verdict of the inner archive,
    with no `word/` among its own entry names -/
example : (∀ e ∈ [ex1, exInner], e.WF) ∧ CleanTail exTail ∧
    zipContains (archive [ex1, exInner] exTail) exWord true = some true ∧
    (∀ e ∈ [ex1, exInner], hasPrefix e.name exWord = false ∧ ¬ ProperPrefix e.name exWord) ∧
    ¬ exInner.Clean := by decide +kernel

end Mime.ZipConverse
