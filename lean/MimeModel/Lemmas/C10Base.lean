import MimeModel.Model.Detect
import MimeModel.Lemmas.DetectTie
import MimeModel.Gen.Tree
import MimeModel.Lemmas.JsonQuery
import MimeModel.Props.C08
/-
  C10 — JSON sub-types are decided by top-level members, wherever they appear.
-/
namespace Mime.C10Base
open Mime Mime.Json Mime.Gen.Json Mime.Spec Mime.JsonQuery Mime.JsonLeaf Mime.JsonForward

/-- regenerated facts: the sub-types are the children of `json` in the priority order
    geojson, har, gltf, with the detectors GeoJSON, HAR, GLTF -/
theorem tree_facts :
    (Gen.builtin.flatten.filter (fun i => i.name == "geoJSON" || i.name == "har" || i.name == "gltf")).map
      (fun i => (i.name, i.det)) = [("geoJSON", .custom .geojson), ("har", .custom .har), ("gltf", .custom .gltf)] := by
  decide

/-- regenerated facts: the queries of parser.go are the ones the property names -/
theorem query_facts :
    q_geo.map (·.path) = [[[116, 121, 112, 101]]] ∧ (q_geo.map (fun q => q.vals.length)) = [9] ∧
    q_har.map (·.path) = [[[108, 111, 103], [118, 101, 114, 115, 105, 111, 110]],
                          [[108, 111, 103], [99, 114, 101, 97, 116, 111, 114]],
                          [[108, 111, 103], [101, 110, 116, 114, 105, 101, 115]]] ∧
    q_har.all (fun q => q.vals.isEmpty) = true ∧
    q_gltf = [{ path := [[97, 115, 115, 101, 116], [118, 101, 114, 115, 105, 111, 110]],
                vals := [[34, 49, 46, 48, 34], [34, 50, 46, 48, 34]] }] := by
  decide

/-! ### the queries of parser.go, evaluated on the syntax tree, are the three specifications -/

section
abbrev Query := Mime.Gen.Json.Query

theorem qpm_long (qs : List Query) (n : Nat) (h : ∀ q ∈ qs, q.path.length ≤ n) (p : List Bytes) (hp : n < p.length) :
    queryPathMatch qs p = none := by
  induction qs with
  | nil => rfl
  | cons q rest ih =>
    simp only [queryPathMatch, pathEq]
    have hq := h q (List.mem_cons_self ..)
    have : ¬ (q.path = p) := by intro e; rw [e] at hq; omega
    simp only [this, decide_false, Bool.false_eq_true, ↓reduceIte]
    exact ih (fun x hx => h x (List.mem_cons_of_mem _ hx))

theorem matchHere_long (qs : List Query) (n : Nat) (h : ∀ q ∈ qs, q.path.length ≤ n) (p : List Bytes) (hp : n < p.length)
    (v : J.JVal) : matchHere qs p v = false := by
  unfold matchHere; rw [qpm_long qs n h p hp]

mutual
theorem deepV (qs : List Query) (n : Nat) (h : ∀ q ∈ qs, q.path.length ≤ n) :
    ∀ (v : J.JVal) (p : List Bytes), n ≤ p.length → qsatV qs p v = false
  | .obj ms, p, hp => by rw [qsatV]; exact deepM qs n h ms p hp
  | .arr xs, p, hp => by rw [qsatV]; exact deepL qs n h xs _ (by simp; omega)
  | .null, _, _ => by simp [qsatV]
  | .bool _, _, _ => by simp [qsatV]
  | .num, _, _ => by simp [qsatV]
  | .str _, _, _ => by simp [qsatV]
theorem deepM (qs : List Query) (n : Nat) (h : ∀ q ∈ qs, q.path.length ≤ n) :
    ∀ (ms : List (Bytes × J.JVal)) (p : List Bytes), n ≤ p.length → qsatM qs p ms = false
  | [], _, _ => by rw [qsatM]
  | (k, v) :: ms, p, hp => by
    rw [qsatM, deepV qs n h v (p ++ [k]) (by simp; omega), matchHere_long qs n h (p ++ [k]) (by simp; omega), deepM qs n h ms p hp]
    rfl
theorem deepL (qs : List Query) (n : Nat) (h : ∀ q ∈ qs, q.path.length ≤ n) :
    ∀ (xs : List J.JVal) (p : List Bytes), n ≤ p.length → qsatL qs p xs = false
  | [], _, _ => by rw [qsatL]
  | x :: xs, p, hp => by
    rw [qsatL, deepV qs n h x p hp, deepL qs n h xs p hp]
    rfl
end

open Mime.Gen.Json in
theorem geo_len : ∀ q ∈ q_geo, q.path.length ≤ 1 := by decide
open Mime.Gen.Json in
theorem har_len : ∀ q ∈ q_har, q.path.length ≤ 2 := by decide
open Mime.Gen.Json in
theorem gltf_len : ∀ q ∈ q_gltf, q.path.length ≤ 2 := by decide

def kType : Bytes := [116, 121, 112, 101]
def geoQ : Query := { path := [kType], vals := J.geoNames.map quote }

theorem q_geo_eq : q_geo = [geoQ] := by decide +kernel
theorem kType_eq : ofString "type" = kType := by decide +kernel

theorem quote_inj (a b : Bytes) (h : quote a = quote b) : a = b := by
  unfold quote at h
  have h2 := List.cons.inj h
  exact List.append_cancel_right h2.2

theorem geo_vals (s : Bytes) : (geoQ.vals.any fun x => decide (x = quote s)) = J.geoNames.contains s := by
  simp only [geoQ, List.any_map]
  rw [List.contains_eq_any_beq]
  congr 1
  funext n
  simp only [Function.comp]
  by_cases h : n = s
  · subst h; simp
  · have : quote n ≠ quote s := fun e => h (quote_inj _ _ e)
    simp [h, this]
    exact fun e => h e.symm

def geoVal (v : J.JVal) : Bool := match v with | .str s => J.geoNames.contains s | _ => false

theorem geo_here (k : Bytes) (v : J.JVal) : matchHere [geoQ] [k] v = (k == kType && geoVal v) := by
  unfold matchHere
  simp only [queryPathMatch, pathEq, geoQ]
  by_cases hk : k = kType
  · subst hk
    simp only [decide_true, ↓reduceIte, beq_self_eq_true, Bool.true_and]
    unfold matchVal strVal geoVal
    have hne : (J.geoNames.map quote).isEmpty = false := by decide +kernel
    simp only [hne, Bool.false_or]
    cases v <;> try rfl
    exact geo_vals _
  · have : ¬ ([kType] = [k]) := by intro e; simp at e; exact hk e.symm
    simp [this, hk]

theorem geo_members (ms : List (Bytes × J.JVal)) :
    qsatM [geoQ] [] ms = (J.member? ms "type").any geoVal := by
  induction ms with
  | nil => simp [qsatM, J.member?]
  | cons m rest ih =>
    obtain ⟨k, v⟩ := m
    rw [qsatM, ih]
    have hd : qsatV [geoQ] ([] ++ [k]) v = false := by
      rw [← q_geo_eq]; exact deepV _ 1 geo_len v _ (by simp)
    rw [hd, Bool.false_or]
    simp only [List.nil_append, geo_here, J.member?, List.filter_cons, kType_eq]
    by_cases hk : k = kType
    · subst hk; simp
    · have : (k == kType) = false := by simpa using hk
      simp [this]

/-- **GeoJSON**: the query of parser.go, evaluated on the syntax tree, is "a top-level `type`
    member is one of the nine RFC 7946 names" -/
theorem geo_spec (v : J.JVal) : qsatV q_geo [] v = J.isGeo v := by
  rw [q_geo_eq]
  cases v with
  | obj ms =>
    rw [qsatV, geo_members]
    simp only [J.isGeo]
    congr 1
  | arr xs =>
    rw [qsatV, ← q_geo_eq]
    simp only [J.isGeo]
    exact deepL _ 1 geo_len xs _ (by simp)
  | _ => simp [qsatV, J.isGeo]

def kLog : Bytes := [108, 111, 103]
def kVersion : Bytes := [118, 101, 114, 115, 105, 111, 110]
def kCreator : Bytes := [99, 114, 101, 97, 116, 111, 114]
def kEntries : Bytes := [101, 110, 116, 114, 105, 101, 115]
def kAsset : Bytes := [97, 115, 115, 101, 116]

def harQs : List Query :=
  [{ path := [kLog, kVersion], vals := [] }, { path := [kLog, kCreator], vals := [] }, { path := [kLog, kEntries], vals := [] }]

theorem q_har_eq : q_har = harQs := by decide
theorem kLog_eq : ofString "log" = kLog := by decide +kernel
theorem kVersion_eq : ofString "version" = kVersion := by decide +kernel
theorem kCreator_eq : ofString "creator" = kCreator := by decide +kernel
theorem kEntries_eq : ofString "entries" = kEntries := by decide +kernel
theorem kAsset_eq : ofString "asset" = kAsset := by decide +kernel

theorem har_here1 (k : Bytes) (v : J.JVal) : matchHere harQs [k] v = false := by
  unfold matchHere
  simp [queryPathMatch, pathEq, harQs]

theorem har_here2 (k k2 : Bytes) (v : J.JVal) :
    matchHere harQs [k, k2] v = (k == kLog && (k2 == kVersion || k2 == kCreator || k2 == kEntries)) := by
  unfold matchHere
  simp only [queryPathMatch, pathEq, harQs]
  by_cases hk : k = kLog
  · subst hk
    by_cases h1 : k2 = kVersion
    · subst h1; simp [matchVal]
    · by_cases h2 : k2 = kCreator
      · subst h2
        have : ¬ ([kLog, kVersion] = [kLog, kCreator]) := by decide
        simp [matchVal, this]
      · by_cases h3 : k2 = kEntries
        · subst h3
          have a1 : ¬ ([kLog, kVersion] = [kLog, kEntries]) := by decide
          have a2 : ¬ ([kLog, kCreator] = [kLog, kEntries]) := by decide
          simp [matchVal, a1, a2]
        · have e1 : ¬ ([kLog, kVersion] = [kLog, k2]) := by intro e; simp at e; exact h1 e.symm
          have e2 : ¬ ([kLog, kCreator] = [kLog, k2]) := by intro e; simp at e; exact h2 e.symm
          have e3 : ¬ ([kLog, kEntries] = [kLog, k2]) := by intro e; simp at e; exact h3 e.symm
          simp [e1, e2, e3, h1, h2, h3]
  · have e1 : ¬ ([kLog, kVersion] = [k, k2]) := by intro e; simp at e; exact hk e.1.symm
    have e2 : ¬ ([kLog, kCreator] = [k, k2]) := by intro e; simp at e; exact hk e.1.symm
    have e3 : ¬ ([kLog, kEntries] = [k, k2]) := by intro e; simp at e; exact hk e.1.symm
    simp [e1, e2, e3, hk]

def harInner (v : J.JVal) : Bool :=
  match v with
  | .obj ls => !(J.member? ls "version").isEmpty || !(J.member? ls "creator").isEmpty || !(J.member? ls "entries").isEmpty
  | _ => false

theorem member_nonempty (ls : List (Bytes × J.JVal)) (name : String) :
    (!(J.member? ls name).isEmpty) = ls.any (fun m => m.1 == ofString name) := by
  induction ls with
  | nil => rfl
  | cons m rest ih =>
    simp only [J.member?, List.filter_cons, List.any_cons] at ih ⊢
    by_cases h : (m.1 == ofString name) = true
    · simp [h]
    · have h' : (m.1 == ofString name) = false := by simpa using h
      simp only [h', Bool.false_eq_true, ↓reduceIte, Bool.false_or]
      exact ih

theorem har_inner_members (k : Bytes) (ls : List (Bytes × J.JVal)) :
    qsatM harQs [k] ls = (k == kLog && ls.any (fun m => m.1 == kVersion || m.1 == kCreator || m.1 == kEntries)) := by
  induction ls with
  | nil => simp [qsatM]
  | cons m rest ih =>
    obtain ⟨k2, v2⟩ := m
    rw [qsatM, ih]
    have hd : qsatV harQs ([k] ++ [k2]) v2 = false := by
      rw [← q_har_eq]; exact deepV _ 2 har_len v2 _ (by simp)
    rw [hd, Bool.false_or]
    simp only [List.cons_append, List.nil_append, har_here2, List.any_cons]
    cases (k == kLog) <;> simp

theorem har_inner (k : Bytes) (v : J.JVal) : qsatV harQs [k] v = (k == kLog && harInner v) := by
  cases v with
  | obj ls =>
    rw [qsatV, har_inner_members]
    simp only [harInner, member_nonempty, kVersion_eq, kCreator_eq, kEntries_eq]
    congr 1
    induction ls with
    | nil => rfl
    | cons m rest ih => simp only [List.any_cons, ih]; cases (m.1 == kVersion) <;> cases (m.1 == kCreator) <;> cases (m.1 == kEntries) <;> simp
  | arr xs =>
    rw [qsatV, ← q_har_eq]
    have := deepL _ 2 har_len xs ([k] ++ [[0x5B]]) (by simp)
    rw [this]; simp [harInner]
  | _ => simp [qsatV, harInner]

theorem har_members (ms : List (Bytes × J.JVal)) : qsatM harQs [] ms = (J.member? ms "log").any harInner := by
  induction ms with
  | nil => simp [qsatM, J.member?]
  | cons m rest ih =>
    obtain ⟨k, v⟩ := m
    rw [qsatM, ih]
    simp only [List.nil_append, har_here1, Bool.or_false, har_inner, J.member?, List.filter_cons, kLog_eq]
    by_cases hk : k = kLog
    · subst hk; simp
    · have : (k == kLog) = false := by simpa using hk
      simp [this]

/-- **HAR**: the queries of parser.go, on the syntax tree: a top-level `log` object has a
    `version`, `creator` or `entries` member -/
theorem har_spec (v : J.JVal) : qsatV q_har [] v = J.isHar v := by
  rw [q_har_eq]
  cases v with
  | obj ms =>
    rw [qsatV, har_members]
    simp only [J.isHar]
    congr 1
  | arr xs =>
    rw [qsatV, ← q_har_eq]
    simp only [J.isHar]
    -- a top-level array: every path starts with the array marker, which is not `log`
    rw [q_har_eq]
    induction xs with
    | nil => simp [qsatL]
    | cons x rest ih =>
      rw [qsatL, ih]
      simp only [List.nil_append, har_inner]
      have : (([0x5B] : Bytes) == kLog) = false := by decide
      simp [this]
  | _ => simp [qsatV, J.isHar]

def v10 : Bytes := [49, 46, 48]
def v20 : Bytes := [50, 46, 48]
def gltfQ : Query := { path := [kAsset, kVersion], vals := [quote v10, quote v20] }

theorem q_gltf_eq : q_gltf = [gltfQ] := by decide
theorem v10_eq : ofString "1.0" = v10 := by decide +kernel
theorem v20_eq : ofString "2.0" = v20 := by decide +kernel

def gltfVer (w : J.JVal) : Bool := match w with | .str s => s == v10 || s == v20 | _ => false

theorem gltf_here1 (k : Bytes) (v : J.JVal) : matchHere [gltfQ] [k] v = false := by
  unfold matchHere
  simp [queryPathMatch, pathEq, gltfQ]

theorem gltf_val (w : J.JVal) : matchVal gltfQ w = gltfVer w := by
  unfold matchVal strVal gltfVer
  cases w with
  | str s =>
    simp only [gltfQ, List.isEmpty_cons, Bool.false_or, List.any_cons, List.any_nil, Bool.or_false]
    by_cases h1 : s = v10
    · subst h1; simp
    · by_cases h2 : s = v20
      · subst h2; simp
      · have a1 : quote v10 ≠ quote s := fun e => h1 (quote_inj _ _ e).symm
        have a2 : quote v20 ≠ quote s := fun e => h2 (quote_inj _ _ e).symm
        simp [a1, a2, h1, h2]
  | _ => simp [gltfQ]

theorem gltf_here2 (k k2 : Bytes) (w : J.JVal) :
    matchHere [gltfQ] [k, k2] w = (k == kAsset && k2 == kVersion && gltfVer w) := by
  unfold matchHere
  simp only [queryPathMatch, pathEq]
  by_cases hk : k = kAsset ∧ k2 = kVersion
  · obtain ⟨rfl, rfl⟩ := hk
    have : gltfQ.path = [kAsset, kVersion] := rfl
    simp [this, gltf_val]
  · have : ¬ (gltfQ.path = [k, k2]) := by
      intro e
      simp only [gltfQ, List.cons.injEq, and_true] at e
      exact hk ⟨e.1.symm, e.2.symm⟩
    simp only [this, decide_false, Bool.false_eq_true, ↓reduceIte]
    by_cases h1 : k = kAsset
    · have h2 : k2 ≠ kVersion := fun e => hk ⟨h1, e⟩
      simp [h2]
    · simp [h1]

def gltfInner (v : J.JVal) : Bool :=
  match v with
  | .obj ls => (J.member? ls "version").any gltfVer
  | _ => false

theorem gltf_inner_members (k : Bytes) (ls : List (Bytes × J.JVal)) :
    qsatM [gltfQ] [k] ls = (k == kAsset && (J.member? ls "version").any gltfVer) := by
  induction ls with
  | nil => simp [qsatM, J.member?]
  | cons m rest ih =>
    obtain ⟨k2, v2⟩ := m
    rw [qsatM, ih]
    have hd : qsatV [gltfQ] ([k] ++ [k2]) v2 = false := by
      rw [← q_gltf_eq]; exact deepV _ 2 gltf_len v2 _ (by simp)
    rw [hd, Bool.false_or]
    simp only [List.cons_append, List.nil_append, gltf_here2, J.member?, List.filter_cons, kVersion_eq]
    by_cases h2 : k2 = kVersion
    · subst h2; cases (k == kAsset) <;> simp
    · have : (k2 == kVersion) = false := by simpa using h2
      simp [this]

theorem gltf_inner (k : Bytes) (v : J.JVal) : qsatV [gltfQ] [k] v = (k == kAsset && gltfInner v) := by
  cases v with
  | obj ls => rw [qsatV, gltf_inner_members]; rfl
  | arr xs =>
    rw [qsatV, ← q_gltf_eq]
    have := deepL _ 2 gltf_len xs ([k] ++ [[0x5B]]) (by simp)
    rw [this]; simp [gltfInner]
  | _ => simp [qsatV, gltfInner]

theorem gltf_members (ms : List (Bytes × J.JVal)) : qsatM [gltfQ] [] ms = (J.member? ms "asset").any gltfInner := by
  induction ms with
  | nil => simp [qsatM, J.member?]
  | cons m rest ih =>
    obtain ⟨k, v⟩ := m
    rw [qsatM, ih]
    simp only [List.nil_append, gltf_here1, Bool.or_false, gltf_inner, J.member?, List.filter_cons, kAsset_eq]
    by_cases hk : k = kAsset
    · subst hk; simp
    · have : (k == kAsset) = false := by simpa using hk
      simp [this]

/-- **glTF**: top-level `asset.version` is the string "1.0" or "2.0" -/
theorem gltf_spec (v : J.JVal) : qsatV q_gltf [] v = J.isGltf v := by
  rw [q_gltf_eq]
  cases v with
  | obj ms =>
    rw [qsatV, gltf_members]
    simp only [J.isGltf, v10_eq, v20_eq]
    congr 1
  | arr xs =>
    rw [qsatV]
    simp only [J.isGltf]
    induction xs with
    | nil => simp [qsatL]
    | cons x rest ih =>
      rw [qsatL, ih]
      simp only [List.nil_append, gltf_inner]
      have : (([0x5B] : Bytes) == kAsset) = false := by decide
      simp [this]
  | _ => simp [qsatV, J.isGltf]

end

/-! ### the scanner computes the query on every RFC 8259 document -/

theorem quoted_geo : ValsQuoted q_geo := by unfold ValsQuoted; decide
theorem quoted_har : ValsQuoted q_har := by unfold ValsQuoted; decide
theorem quoted_gltf : ValsQuoted q_gltf := by unfold ValsQuoted; decide

theorem finishAny_first (q : Bool) (t : Nat) (res : Option Bytes × PState) : (finishAny q 0 t res).2.firstToken = t := by
  obtain ⟨rv, s2⟩ := res
  simp only [finishAny]
  cases rv <;> cases q <;> simp [PState.setQ, PState.setFirst, consumeSpace_spec, PState.bump]

/-- the first token recorded by the top-level call is the kind of the first non-space byte -/
theorem top_first (qs : List Query) (cap fuel : Nat) (b : Bytes) (s : PState) (c : Nat) (cs : Bytes) (hsk : J.skipWs b = c :: cs)
    (hcap : (cap != 0 && decide (0 > cap)) = false) :
    (consumeAny qs cap (fuel + 1) 0 b s).2.firstToken = (classify c).tok := by
  have hcs := consumeSpace_spec b (s.enter 0)
  rw [hsk] at hcs
  simp only [consumeAny, hcap, Bool.false_eq_true, ↓reduceIte, hcs]
  exact finishAny_first _ _ _

def isObj : J.JVal → Bool
  | .obj _ => true | _ => false

theorem value_obj (f : Nat) (l : Bytes) (c : Nat) (cs : Bytes) (v : J.JVal) (r : Bytes)
    (hsk : J.skipWs l = c :: cs) (hv : J.value true f l = .ok v r) : isObj v = (c == 0x7B) := by
  cases f with
  | zero => simp [J.value] at hv
  | succ f =>
    simp only [J.value, hsk] at hv
    split at hv
    · rename_i hc
      have : c = 0x22 := by simpa using hc
      subst this
      cases hs : J.str true cs [] <;> simp only [hs] at hv
      · simp only [J.R.ok.injEq] at hv; rw [← hv.1]; rfl
      · cases hv
      · cases hv
    split at hv
    · rename_i hc
      obtain ⟨xs, rfl⟩ := items_arr true _ _ _ _ _ _ hv
      have : c = 0x5B := by simpa using hc
      subst this
      rfl
    split at hv
    · rename_i _ hc
      obtain ⟨ms, rfl⟩ := members_obj true _ _ _ _ _ _ hv
      simp [isObj, hc]
    rename_i n1 n2 n3
    have e3 : (c == 0x7B) = false := by simpa using n3
    rw [e3]
    split at hv
    · split at hv
      · simp only [J.R.ok.injEq] at hv; rw [← hv.1]; rfl
      · cases hv
      · cases hv
    split at hv
    · split at hv
      · simp only [J.R.ok.injEq] at hv; rw [← hv.1]; rfl
      · cases hv
      · cases hv
    split at hv
    · split at hv
      · simp only [J.R.ok.injEq] at hv; rw [← hv.1]; rfl
      · cases hv
      · cases hv
    split at hv
    · simp only [J.R.ok.injEq] at hv; rw [← hv.1]; rfl
    · cases hv
    · cases hv

/-- **C10 (whole documents)**: on every RFC 8259 object/array document of depth within the cap,
    examined in full, a detector of the JSON family built from queries `qs` (non-empty, values
    quoted) answers: the document is an object and the queries hold on its syntax tree -/
theorem helper_whole (qs : List Query) (hne : qs.isEmpty = false) (hq : ValsQuoted qs) (D : Bytes) (v : J.JVal) (lim : Nat)
    (hdoc : J.doc true D = some v) (hdepth : J.depth v ≤ maxRecursion) (hwhole : lim = 0 ∨ D.length < lim) :
    jsonHelper D lim qs tokObject = (isObj v && qsatV qs [] v) := by
  obtain ⟨c, cs, r, hsk, hc, hval, hr⟩ := C08.doc_inv D v hdoc
  have hlook := C08.looksLike_of_skipWs D c cs hsk hc
  have hfw := (forward_all qs maxRecursion (J.fuelFor D)).1 0 D v r PState.fresh.reset hval
    (delim_of_ws_only r (by simp [hr])) (Or.inr (by omega))
  have hqv := (query_all qs hne hq maxRecursion (J.fuelFor D)).1 0 D v r PState.fresh.reset hval
    (delim_of_ws_only r (by simp [hr])) (Or.inr (by omega))
  have hobj : isObj v = (c == 0x7B) := value_obj _ D c cs v r hsk hval
  obtain ⟨f1, _, _⟩ := hfw
  obtain ⟨_, q2⟩ := hqv
  rw [hr] at f1
  have hfirst := top_first qs maxRecursion (2 * D.length + 3) D PState.fresh.reset c cs hsk (by decide)
  have hfuel : J.fuelFor D = 2 * D.length + 3 + 1 := by simp [J.fuelFor]
  rw [hfuel] at f1 q2
  unfold jsonHelper parse parseWith
  simp only [hlook, Bool.not_true, Bool.false_eq_true, ↓reduceIte]
  have hff : fuelFor D = 2 * D.length + 3 + 1 := by simp [fuelFor]
  rw [hff]
  generalize consumeAny qs maxRecursion (2 * D.length + 3 + 1) 0 D PState.fresh.reset = res at f1 q2 hfirst
  obtain ⟨rv, s'⟩ := res
  simp only at f1 q2 hfirst ⊢
  subst f1
  have hq0 : PState.fresh.reset.querySatisfied = false := rfl
  have hp0 : PState.fresh.reset.currPath = [] := rfl
  rw [hq0, hp0, Bool.false_or] at q2
  rw [q2, hfirst]
  have hcond : (lim == 0 || decide (D.length < lim)) = true := by
    rcases hwhole with h | h <;> simp [h]
  simp only [hcond, ↓reduceIte, List.length_nil, Nat.sub_zero, beq_self_eq_true]
  rw [hobj]
  rcases hc with rfl | rfl
  · cases hqs : qsatV qs [] v <;> simp [hqs] <;> decide
  · cases hqs : qsatV qs [] v <;> simp [hqs] <;> decide

/-- **C10**: the verdicts of the three sub-type detectors on a whole RFC 8259 document are the
    three specifications evaluated on its syntax tree -/
theorem subtypes_whole (D : Bytes) (v : J.JVal) (lim : Nat)
    (hdoc : J.doc true D = some v) (hdepth : J.depth v ≤ maxRecursion) (hwhole : lim = 0 ∨ D.length < lim) :
    jsonHelper D lim q_geo tokObject = J.isGeo v ∧
    jsonHelper D lim q_har tokObject = J.isHar v ∧
    jsonHelper D lim q_gltf tokObject = J.isGltf v := by
  have hobjGeo : J.isGeo v = true → isObj v = true := by cases v <;> simp [J.isGeo, isObj]
  have hobjHar : J.isHar v = true → isObj v = true := by cases v <;> simp [J.isHar, isObj]
  have hobjGltf : J.isGltf v = true → isObj v = true := by cases v <;> simp [J.isGltf, isObj]
  refine ⟨?_, ?_, ?_⟩
  · rw [helper_whole q_geo (by decide) quoted_geo D v lim hdoc hdepth hwhole, geo_spec]
    cases h : J.isGeo v
    · simp
    · simp [hobjGeo h]
  · rw [helper_whole q_har (by decide) quoted_har D v lim hdoc hdepth hwhole, har_spec]
    cases h : J.isHar v
    · simp
    · simp [hobjHar h]
  · rw [helper_whole q_gltf (by decide) quoted_gltf D v lim hdoc hdepth hwhole, gltf_spec]
    cases h : J.isGltf v
    · simp
    · simp [hobjGltf h]

/-- regenerated tie: `Detect` / `DetectReader` load the limit once, atomically (see Lemmas/DetectTie.lean) -/
theorem tie_single_limit : Mime.DetectTie.SingleLimit := Mime.DetectTie.single_limit

end Mime.C10Base
