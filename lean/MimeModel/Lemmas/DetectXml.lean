import MimeModel.Props.C12_Detect
import MimeModel.Props.C12_Xml
/-
  A static rejection analysis for the rivals of the `xml` node (C12 through `Detect`, XML clause).

  What is known about the examined header `raw` of a document `lead <?xml version=q1.0q S encoding=q…`
  (`XmlLike raw`):
    * after the white space that `trimLWS` strips it starts with `<?`;
    * each of its first 29 bytes is white space or one of the bytes of `<?xml version="1.0"'encoding=`
      (the label and what follows it start at offset 29 at the earliest);
    * it contains no binary-data byte (text/plain accepted it).
  `rejD d = true` is a syntactic check on a detector descriptor that makes a positive verdict on
  such a header impossible (`rejD_sound`); it is evaluated on the regenerated tree by `decide`.
-/
namespace Mime.DetectXml
open Mime Mime.Cust

/-- possible first bytes: white space or `<` -/
def isF (c : Nat) : Bool := isWS c || c == 0x3C
/-- not a binary-data byte -/
def okB (c : Nat) : Bool := !binaryByte c
/-- white space and the bytes of `<?xml version="1.0"'encoding=` -/
def aSet : List Nat :=
  [0x09, 0x0A, 0x0C, 0x0D, 0x20,
   60, 63, 120, 109, 108, 118, 101, 114, 115, 105, 111, 110, 61, 49, 46, 48, 34, 39, 99, 100, 103]
def inA (c : Nat) : Bool := aSet.contains c

/-- the window in which every byte is in `aSet` -/
def win : Nat := 29

structure XmlLike (raw : Bytes) : Prop where
  trim : ∃ r, trimLWS raw = 0x3C :: 0x3F :: r
  window : ∀ i c, i < win → raw[i]? = some c → inA c = true
  txt : ∀ c ∈ raw, okB c = true

/-! ### the analysis -/

/-- `sig` cannot stand at offset `o` -/
def badAt : Nat → Bytes → Bool
  | _, [] => false
  | o, s :: ss => !okB s || (decide (o < win) && !inA s) || (o == 0 && !isF s) || badAt (o + 1) ss

/-- the first byte of `sig` after white space is not `<` -/
def badLead (sig : Bytes) : Bool :=
  match trimLWS sig with
  | x :: _ => x != 0x3C
  | [] => false

/-- upper bound of an integer expression at the start of the header -/
def ubI : IExp → Option Nat
  | .lit n => some n
  | .byte i => if i = 0 then some 60 else if i < win then some 120 else none
  | .u16be o _ => if o = 0 then some (60 * 256 + 120) else none
  | .u16le _ _ => none
  | .u32be o _ => if o = 0 then some (((60 * 256 + 120) * 256 + 120) * 256 + 120) else none
  | .u32le o _ => if o = 0 then some (60 + 256 * (120 + 256 * (120 + 256 * 120))) else none
  | .band a _ => ubI a

def ltUb (a : IExp) (n : Nat) : Bool :=
  match ubI a with
  | some u => u < n
  | none => false

/-- `a` cannot have the value `n` -/
def eqVal : IExp → Nat → Bool
  | .byte i, n => !okB n || (decide (i < win) && !inA n) || (i == 0 && !isF n)
  | .u32be o _, n => o == 0 && !isF (n / 16777216)
  | .u32le o _, n => o == 0 && !isF (n % 256)
  | .u16be o _, n => o == 0 && !isF (n / 256)
  | _, _ => false

def litOf : IExp → Option Nat
  | .lit n => some n
  | _ => none

def rejCmp (op : Cmp) (a b : IExp) : Bool :=
  match op with
  | .eq =>
    (match litOf b with | some n => eqVal a n || ltUb a n | none => false) ||
    (match litOf a with | some n => eqVal b n || ltUb b n | none => false)
  | .le => (match litOf a with | some n => ltUb b n | none => false)
  | _ => false

/-- `lo ≤ u32le(raw[0:4]) ≤ hi` with a top byte that cannot stand at offset 3 -/
def rangeRej : BExp → BExp → Bool
  | .cmp .le (.lit lo) (.u32le o _), .cmp .le (.u32le o' _) (.lit hi) =>
    o == 0 && o' == 0 && lo / 16777216 == hi / 16777216 && !inA (lo / 16777216)
  | _, _ => false

/-- `rej p e = true`: `e` cannot evaluate to `p` on an `XmlLike` header -/
def rej : Bool → BExp → Bool
  | p, .const b => p != b
  | true, .cmp op a b => rejCmp op a b
  | false, .cmp op a b => (match op with | .ne => rejCmp .eq a b | _ => false)
  | true, .prefixAt off sig => badAt off sig || (off == 0 && badLead sig)
  | true, .equalAt lo _ sig => badAt lo sig
  | true, .prim p => (match p with | .zipContains _ _ => true | _ => false)
  | true, .and a b => rej true a || rej true b || rangeRej a b
  | false, .and a b => rej false a && (rej false b || rej true a)
  | true, .or a b => rej true a && rej true b
  | false, .or a b => rej false a || rej false b
  | p, .not a => rej (!p) a
  | true, .ite _ t e => rej true t && rej true e
  | _, _ => false

def sigRej : Bytes → Bool
  | _ :: b :: _ => b != 0x3F
  | _ => false

/-- the descriptor cannot accept an `XmlLike` header -/
def rejD : Det → Bool
  | .expr e => rej true e
  | .markup sigs => sigs.all sigRej
  | .custom c => (match c with | .crx => true | .webm => true | .mkv => true | _ => false)
  | _ => false

/-! ### facts about `XmlLike` headers -/

theorem isF_le {c : Nat} (h : isF c = true) : c ≤ 60 := by
  simp [isF, isWS] at h; omega

theorem inA_le {c : Nat} (h : inA c = true) : c ≤ 120 := by
  simp [inA, aSet] at h; omega

theorem head_of_trim {raw r : Bytes} (hr : trimLWS raw = 0x3C :: r) :
    ∃ c tl, raw = c :: tl ∧ isF c = true := by
  cases raw with
  | nil => simp [trimLWS] at hr
  | cons c tl =>
    refine ⟨c, tl, rfl, ?_⟩
    unfold trimLWS at hr
    by_cases hw : isWS c = true
    · simp [isF, hw]
    · simp only [hw, Bool.false_eq_true, ↓reduceIte, List.cons.injEq] at hr
      simp [isF, hr.1]

theorem head_isF {raw : Bytes} (h : XmlLike raw) : ∃ c tl, raw = c :: tl ∧ isF c = true := by
  obtain ⟨r, hr⟩ := h.trim
  exact head_of_trim hr

theorem hasPrefix_first_of_trim {raw r : Bytes} (hr : trimLWS raw = 0x3C :: r) (s : Nat) (ss : Bytes)
    (hs : isF s = false) : hasPrefix raw (s :: ss) = false := by
  obtain ⟨c, tl, rfl, hc⟩ := head_of_trim hr
  cases hp : hasPrefix (c :: tl) (s :: ss) with
  | false => rfl
  | true =>
    simp only [hasPrefix, List.isPrefixOf, Bool.and_eq_true, beq_iff_eq] at hp
    rw [hp.1, hc] at hs; cases hs

theorem getD_get {raw : Bytes} {i : Nat} (h : i < raw.length) : raw[i]? = some (raw.getD i 0) := by
  simp [List.getD_eq_getElem?_getD, List.getElem?_eq_getElem h]

theorem getD_mem {raw : Bytes} {i : Nat} (h : i < raw.length) : raw.getD i 0 ∈ raw :=
  List.mem_of_getElem? (getD_get h)

theorem getD_inA {raw : Bytes} (hx : XmlLike raw) {i : Nat} (hi : i < win) (h : i < raw.length) :
    inA (raw.getD i 0) = true := hx.window i _ hi (getD_get h)

theorem getD0_isF {raw : Bytes} (hx : XmlLike raw) : isF (raw.getD 0 0) = true := by
  obtain ⟨c, tl, rfl, hc⟩ := head_isF hx
  simpa using hc

theorem hasPrefix_first {raw : Bytes} (hx : XmlLike raw) (s : Nat) (ss : Bytes) (hs : isF s = false) :
    hasPrefix raw (s :: ss) = false := by
  obtain ⟨c, tl, rfl, hc⟩ := head_isF hx
  cases hp : hasPrefix (c :: tl) (s :: ss) with
  | false => rfl
  | true =>
    simp only [hasPrefix, List.isPrefixOf, Bool.and_eq_true, beq_iff_eq] at hp
    rw [hp.1, hc] at hs; cases hs

/-- a signature found at offset `o` passes the positional test -/
theorem badAt_false {raw : Bytes} (hx : XmlLike raw) : ∀ (sig : Bytes) (o : Nat),
    hasPrefix (raw.drop o) sig = true → badAt o sig = false := by
  intro sig
  induction sig with
  | nil => intro o _; rfl
  | cons s ss ih =>
    intro o hp
    cases hd : raw.drop o with
    | nil => rw [hd] at hp; simp [hasPrefix, List.isPrefixOf] at hp
    | cons x t =>
      rw [hd] at hp
      simp only [hasPrefix, List.isPrefixOf, Bool.and_eq_true, beq_iff_eq] at hp
      obtain ⟨hsx, hrest⟩ := hp
      subst hsx
      have hget : raw[o]? = some s := by
        have : (raw.drop o)[0]? = some s := by rw [hd]; rfl
        simpa [List.getElem?_drop] using this
      have ht : raw.drop (o + 1) = t := by
        have : (raw.drop o).drop 1 = t := by rw [hd]; rfl
        simpa [List.drop_drop, Nat.add_comm] using this
      have hmem : s ∈ raw := List.mem_of_getElem? hget
      have h1 : okB s = true := hx.txt s hmem
      have h2 : o < win → inA s = true := fun ho => hx.window o s ho hget
      have h3 : o = 0 → isF s = true := by
        intro ho; subst ho
        obtain ⟨c, tl, rfl, hc⟩ := head_isF hx
        simp at hget; rw [← hget]; exact hc
      have h4 : badAt (o + 1) ss = false := ih (o + 1) (by rw [ht]; exact hrest)
      simp only [badAt, h1, h4, Bool.not_true, Bool.false_or, Bool.or_false]
      by_cases ho : o < win
      · by_cases h0 : o = 0
        · simp [h2 ho, h3 h0]
        · simp [h2 ho, h0]
      · have h0 : o ≠ 0 := by unfold win at ho; omega
        simp [ho, h0]

theorem slice_prefix (raw : Bytes) (lo hi : Nat) : hasPrefix (raw.drop lo) (slice raw lo hi) = true := by
  rw [hasPrefix_iff]
  unfold slice
  rw [List.drop_take]
  exact List.take_prefix _ _

theorem trimLWS_append {sig : Bytes} {x : Nat} {s' : Bytes} (t : Bytes) (h : trimLWS sig = x :: s') :
    trimLWS (sig ++ t) = x :: s' ++ t := by
  induction sig with
  | nil => simp [trimLWS] at h
  | cons a as ih =>
    unfold trimLWS at h
    simp only [List.cons_append]
    unfold trimLWS
    by_cases hw : isWS a = true
    · simp only [hw, ↓reduceIte] at h ⊢
      exact ih h
    · simp only [hw, Bool.false_eq_true, ↓reduceIte, List.cons.injEq] at h ⊢
      exact ⟨h.1, by rw [h.2]⟩

theorem badLead_false {raw : Bytes} (hx : XmlLike raw) (sig : Bytes) (hp : hasPrefix raw sig = true) :
    badLead sig = false := by
  rw [hasPrefix_iff] at hp
  obtain ⟨t, ht⟩ := hp
  unfold badLead
  cases hs : trimLWS sig with
  | nil => rfl
  | cons x s' =>
    obtain ⟨r, hr⟩ := hx.trim
    rw [← ht, trimLWS_append t hs] at hr
    simp only [List.cons_append, List.cons.injEq] at hr
    simp [hr.1]

/-! ### integer expressions -/

theorem ubI_sound {raw : Bytes} (hx : XmlLike raw) : ∀ (a : IExp) (v u : Nat),
    a.eval raw = some v → ubI a = some u → v ≤ u := by
  intro a
  induction a with
  | lit n => intro v u hv hu; simp [IExp.eval] at hv; simp [ubI] at hu; omega
  | byte i =>
    intro v u hv hu
    simp only [IExp.eval] at hv
    split at hv
    · rename_i hlen
      simp only [Option.some.injEq] at hv
      subst hv
      simp only [ubI] at hu
      split at hu
      · rename_i h0; subst h0
        simp only [Option.some.injEq] at hu; subst hu
        exact isF_le (getD0_isF hx)
      · split at hu
        · rename_i hw
          simp only [Option.some.injEq] at hu; subst hu
          exact inA_le (getD_inA hx hw hlen)
        · cases hu
    · cases hv
  | u16be o need =>
    intro v u hv hu
    simp only [ubI] at hu
    split at hu
    · rename_i h0; subst h0
      simp only [Option.some.injEq] at hu; subst hu
      simp only [IExp.eval] at hv
      split at hv
      · rename_i hlen
        simp only [Option.some.injEq] at hv; subst hv
        have h0 := isF_le (getD0_isF hx)
        have h1 := inA_le (getD_inA hx (i := 1) (by decide) (by omega))
        simp only [Mime.u16be, Nat.zero_add]; omega
      · cases hv
    · cases hu
  | u16le o need => intro v u _ hu; simp [ubI] at hu
  | u32be o need =>
    intro v u hv hu
    simp only [ubI] at hu
    split at hu
    · rename_i h0; subst h0
      simp only [Option.some.injEq] at hu; subst hu
      simp only [IExp.eval] at hv
      split at hv
      · rename_i hlen
        simp only [Option.some.injEq] at hv; subst hv
        have h0 := isF_le (getD0_isF hx)
        have h1 := inA_le (getD_inA hx (i := 1) (by decide) (by omega))
        have h2 := inA_le (getD_inA hx (i := 2) (by decide) (by omega))
        have h3 := inA_le (getD_inA hx (i := 3) (by decide) (by omega))
        simp only [Mime.u32be, Nat.zero_add]; omega
      · cases hv
    · cases hu
  | u32le o need =>
    intro v u hv hu
    simp only [ubI] at hu
    split at hu
    · rename_i h0; subst h0
      simp only [Option.some.injEq] at hu; subst hu
      simp only [IExp.eval] at hv
      split at hv
      · rename_i hlen
        simp only [Option.some.injEq] at hv; subst hv
        have h0 := isF_le (getD0_isF hx)
        have h1 := inA_le (getD_inA hx (i := 1) (by decide) (by omega))
        have h2 := inA_le (getD_inA hx (i := 2) (by decide) (by omega))
        have h3 := inA_le (getD_inA hx (i := 3) (by decide) (by omega))
        simp only [Mime.u32le, Nat.zero_add]; omega
      · cases hv
    · cases hu
  | band a m ih =>
    intro v u hv hu
    simp only [IExp.eval] at hv
    cases ha : a.eval raw with
    | none => rw [ha] at hv; cases hv
    | some w =>
      rw [ha] at hv
      simp only [Option.map_some, Option.some.injEq] at hv
      subst hv
      have := ih w u ha (by simpa [ubI] using hu)
      exact Nat.le_trans Nat.and_le_left this

theorem ltUb_sound {raw : Bytes} (hx : XmlLike raw) (a : IExp) (n v : Nat)
    (hv : a.eval raw = some v) (h : ltUb a n = true) : v < n := by
  unfold ltUb at h
  cases hu : ubI a with
  | none => rw [hu] at h; cases h
  | some u =>
    rw [hu] at h
    have := ubI_sound hx a v u hv hu
    simp at h; omega

theorem eqVal_sound {raw : Bytes} (hx : XmlLike raw) (a : IExp) (n : Nat)
    (hv : a.eval raw = some n) : eqVal a n = false := by
  cases a with
  | lit m => rfl
  | u16le o need => rfl
  | band a m => rfl
  | byte i =>
    simp only [IExp.eval] at hv
    split at hv
    · rename_i hlen
      simp only [Option.some.injEq] at hv; subst hv
      have h1 : okB (raw.getD i 0) = true := hx.txt _ (getD_mem hlen)
      simp only [eqVal, h1, Bool.not_true, Bool.false_or]
      by_cases hi : i < win
      · have h2 := getD_inA hx hi hlen
        rw [h2]
        by_cases h0 : i = 0
        · subst h0; rw [getD0_isF hx]; rfl
        · simp [h0]
      · have h0 : i ≠ 0 := by unfold win at hi; omega
        simp [hi, h0]
    · cases hv
  | u16be o need =>
    simp only [eqVal]
    by_cases h0 : o = 0
    · subst h0
      simp only [IExp.eval] at hv
      split at hv
      · rename_i hlen
        simp only [Option.some.injEq] at hv; subst hv
        have h1 := inA_le (getD_inA hx (i := 1) (by decide) (by omega))
        have : Mime.u16be raw 0 / 256 = raw.getD 0 0 := by simp only [Mime.u16be, Nat.zero_add]; omega
        rw [this, getD0_isF hx]; rfl
      · cases hv
    · simp [h0]
  | u32be o need =>
    simp only [eqVal]
    by_cases h0 : o = 0
    · subst h0
      simp only [IExp.eval] at hv
      split at hv
      · rename_i hlen
        simp only [Option.some.injEq] at hv; subst hv
        have h1 := inA_le (getD_inA hx (i := 1) (by decide) (by omega))
        have h2 := inA_le (getD_inA hx (i := 2) (by decide) (by omega))
        have h3 := inA_le (getD_inA hx (i := 3) (by decide) (by omega))
        have : Mime.u32be raw 0 / 16777216 = raw.getD 0 0 := by simp only [Mime.u32be, Nat.zero_add]; omega
        rw [this, getD0_isF hx]; rfl
      · cases hv
    · simp [h0]
  | u32le o need =>
    simp only [eqVal]
    by_cases h0 : o = 0
    · subst h0
      simp only [IExp.eval] at hv
      split at hv
      · rename_i hlen
        simp only [Option.some.injEq] at hv; subst hv
        have hf := isF_le (getD0_isF hx)
        have : Mime.u32le raw 0 % 256 = raw.getD 0 0 := by simp only [Mime.u32le, Nat.zero_add]; omega
        rw [this, getD0_isF hx]; rfl
      · cases hv
    · simp [h0]

theorem litOf_some {a : IExp} {n : Nat} (h : litOf a = some n) : a = .lit n := by
  cases a <;> simp [litOf] at h
  subst h; rfl

theorem cmp_eval {raw : Bytes} {op : Cmp} {a b : IExp} {p : Bool}
    (h : (BExp.cmp op a b).eval raw = some p) :
    ∃ x y, a.eval raw = some x ∧ b.eval raw = some y ∧ op.eval x y = p := by
  simp only [BExp.eval] at h
  cases ha : a.eval raw with
  | none => rw [ha] at h; cases h
  | some x =>
    cases hb : b.eval raw with
    | none => rw [ha, hb] at h; cases h
    | some y =>
      rw [ha, hb] at h
      simp only [Option.some.injEq] at h
      exact ⟨x, y, rfl, rfl, h⟩

theorem rejCmp_sound {raw : Bytes} (hx : XmlLike raw) (op : Cmp) (a b : IExp)
    (h : rejCmp op a b = true) : (BExp.cmp op a b).eval raw ≠ some true := by
  intro he
  obtain ⟨x, y, hax, hby, hop⟩ := cmp_eval he
  cases op with
  | lt => simp [rejCmp] at h
  | ne => simp [rejCmp] at h
  | eq =>
    simp only [Cmp.eval, beq_iff_eq] at hop
    subst hop
    simp only [rejCmp, Bool.or_eq_true] at h
    rcases h with h | h
    · cases hl : litOf b with
      | none => rw [hl] at h; cases h
      | some n =>
        rw [hl] at h
        have := litOf_some hl; subst this
        simp only [IExp.eval, Option.some.injEq] at hby; subst hby
        simp only [Bool.or_eq_true] at h
        rcases h with h | h
        · rw [eqVal_sound hx a n hax] at h; cases h
        · have := ltUb_sound hx a n n hax h; omega
    · cases hl : litOf a with
      | none => rw [hl] at h; cases h
      | some n =>
        rw [hl] at h
        have := litOf_some hl; subst this
        simp only [IExp.eval, Option.some.injEq] at hax; subst hax
        simp only [Bool.or_eq_true] at h
        rcases h with h | h
        · rw [eqVal_sound hx b n hby] at h; cases h
        · have := ltUb_sound hx b n n hby h; omega
  | le =>
    simp only [Cmp.eval, decide_eq_true_eq] at hop
    simp only [rejCmp] at h
    cases hl : litOf a with
    | none => rw [hl] at h; cases h
    | some n =>
      rw [hl] at h
      have := litOf_some hl; subst this
      simp only [IExp.eval, Option.some.injEq] at hax; subst hax
      have := ltUb_sound hx b n y hby h; omega

theorem rangeRej_sound {raw : Bytes} (hx : XmlLike raw) (a b : BExp) (h : rangeRej a b = true)
    (ha : a.eval raw = some true) (hb : b.eval raw = some true) : False := by
  unfold rangeRej at h
  split at h
  · rename_i lo o n1 o' n2 hi
    simp only [Bool.and_eq_true, beq_iff_eq, Bool.not_eq_true'] at h
    obtain ⟨⟨⟨h0, h0'⟩, hdiv⟩, hnot⟩ := h
    subst h0; subst h0'
    obtain ⟨x, y, hax, hay, hop⟩ := cmp_eval ha
    obtain ⟨x', y', hbx, hby, hop'⟩ := cmp_eval hb
    simp only [IExp.eval, Option.some.injEq] at hax hby
    subst hax; subst hby
    simp only [Cmp.eval, decide_eq_true_eq] at hop hop'
    simp only [IExp.eval] at hay hbx
    split at hay
    · rename_i hlen
      simp only [Option.some.injEq] at hay; subst hay
      split at hbx
      · simp only [Option.some.injEq] at hbx; subst hbx
        have h0 := inA_le (getD_inA hx (i := 0) (by decide) (by omega))
        have h1 := inA_le (getD_inA hx (i := 1) (by decide) (by omega))
        have h2 := inA_le (getD_inA hx (i := 2) (by decide) (by omega))
        have h3 := getD_inA hx (i := 3) (by decide) (by omega)
        have h3' := inA_le h3
        have : raw.getD 3 0 = lo / 16777216 := by
          simp only [Mime.u32le, Nat.zero_add] at hop hop'; omega
        rw [this, hnot] at h3; cases h3
      · cases hbx
    · cases hay
  · cases h

/-! ### boolean expressions -/

theorem eval_and_true {raw : Bytes} {a b : BExp} (h : (BExp.and a b).eval raw = some true) :
    a.eval raw = some true ∧ b.eval raw = some true := by
  simp only [BExp.eval] at h
  cases ha : a.eval raw with
  | none => rw [ha] at h; cases h
  | some v => cases v with
    | false => rw [ha] at h; cases h
    | true => rw [ha] at h; exact ⟨rfl, h⟩

theorem eval_and_false {raw : Bytes} {a b : BExp} (h : (BExp.and a b).eval raw = some false) :
    a.eval raw = some false ∨ (a.eval raw = some true ∧ b.eval raw = some false) := by
  simp only [BExp.eval] at h
  cases ha : a.eval raw with
  | none => rw [ha] at h; cases h
  | some v => cases v with
    | false => exact Or.inl rfl
    | true => rw [ha] at h; exact Or.inr ⟨rfl, h⟩

theorem eval_or_true {raw : Bytes} {a b : BExp} (h : (BExp.or a b).eval raw = some true) :
    a.eval raw = some true ∨ b.eval raw = some true := by
  simp only [BExp.eval] at h
  cases ha : a.eval raw with
  | none => rw [ha] at h; cases h
  | some v => cases v with
    | true => exact Or.inl rfl
    | false => rw [ha] at h; exact Or.inr h

theorem eval_or_false {raw : Bytes} {a b : BExp} (h : (BExp.or a b).eval raw = some false) :
    a.eval raw = some false ∧ b.eval raw = some false := by
  simp only [BExp.eval] at h
  cases ha : a.eval raw with
  | none => rw [ha] at h; cases h
  | some v => cases v with
    | true => rw [ha] at h; cases h
    | false => rw [ha] at h; exact ⟨rfl, h⟩

theorem eval_not {raw : Bytes} {a : BExp} {p : Bool} (h : (BExp.not a).eval raw = some p) :
    a.eval raw = some (!p) := by
  simp only [BExp.eval] at h
  cases ha : a.eval raw with
  | none => rw [ha] at h; cases h
  | some v =>
    rw [ha] at h
    simp only [Option.map_some, Option.some.injEq] at h
    subst h; simp

theorem eval_ite_true {raw : Bytes} {c t e : BExp} (h : (BExp.ite c t e).eval raw = some true) :
    t.eval raw = some true ∨ e.eval raw = some true := by
  simp only [BExp.eval] at h
  cases hc : c.eval raw with
  | none => rw [hc] at h; cases h
  | some v => cases v with
    | true => rw [hc] at h; exact Or.inl h
    | false => rw [hc] at h; exact Or.inr h

/-- **soundness of the analysis** -/
theorem rej_sound {raw : Bytes} (hx : XmlLike raw) : ∀ (e : BExp) (p : Bool),
    rej p e = true → e.eval raw ≠ some p := by
  intro e
  induction e with
  | const b =>
    intro p h he
    simp only [BExp.eval, Option.some.injEq] at he
    subst he
    cases b <;> simp [rej] at h
  | lenGe k => intro p h; cases p <;> simp [rej] at h
  | cmp op a b =>
    intro p h
    cases p with
    | true => exact rejCmp_sound hx op a b (by simpa [rej] using h)
    | false =>
      cases op with
      | ne =>
        have h' : rejCmp .eq a b = true := by simpa [rej] using h
        intro he
        obtain ⟨x, y, hax, hby, hop⟩ := cmp_eval he
        refine rejCmp_sound hx .eq a b h' ?_
        simp only [BExp.eval, hax, hby, Cmp.eval] at hop ⊢
        simp only [bne_eq_false_iff_eq] at hop
        simp [hop]
      | lt => simp [rej] at h
      | le => simp [rej] at h
      | eq => simp [rej] at h
  | prefixAt off sig =>
    intro p h
    cases p with
    | false => simp [rej] at h
    | true =>
      intro he
      simp only [BExp.eval] at he
      split at he
      · simp only [Option.some.injEq] at he
        have h1 := badAt_false hx sig off he
        simp only [rej, h1, Bool.false_or, Bool.and_eq_true, beq_iff_eq] at h
        obtain ⟨h0, hl⟩ := h
        subst h0
        rw [badLead_false hx sig (by simpa using he)] at hl; cases hl
      · cases he
  | equalAt lo hi sig =>
    intro p h
    cases p with
    | false => simp [rej] at h
    | true =>
      intro he
      simp only [BExp.eval] at he
      split at he
      · simp only [Option.some.injEq, decide_eq_true_eq] at he
        have h1 := badAt_false hx sig lo (by rw [← he]; exact slice_prefix raw lo hi)
        simp only [rej] at h
        rw [h1] at h; cases h
      · cases he
  | containsUpTo lo cap sig => intro p h; cases p <;> simp [rej] at h
  | containsAll sig => intro p h; cases p <;> simp [rej] at h
  | equalAll sig => intro p h; cases p <;> simp [rej] at h
  | prim pr =>
    intro p h
    cases p with
    | false => simp [rej] at h
    | true =>
      cases pr with
      | oleClsid c => simp [rej] at h
      | zipContains s m =>
        intro he
        simp only [BExp.eval, Prim.eval] at he
        have := (zipContains_true raw s m he).2.1
        rw [pk34, hasPrefix_first hx 0x50 _ (by decide)] at this; cases this
  | and a b iha ihb =>
    intro p h
    cases p with
    | true =>
      intro he
      obtain ⟨ha, hb⟩ := eval_and_true he
      simp only [rej, Bool.or_eq_true] at h
      rcases h with (h | h) | h
      · exact iha true h ha
      · exact ihb true h hb
      · exact rangeRej_sound hx a b h ha hb
    | false =>
      intro he
      simp only [rej, Bool.and_eq_true, Bool.or_eq_true] at h
      obtain ⟨h1, h2⟩ := h
      rcases eval_and_false he with ha | ⟨ha, hb⟩
      · exact iha false h1 ha
      · rcases h2 with h2 | h2
        · exact ihb false h2 hb
        · exact iha true h2 ha
  | or a b iha ihb =>
    intro p h
    cases p with
    | true =>
      intro he
      simp only [rej, Bool.and_eq_true] at h
      rcases eval_or_true he with ha | hb
      · exact iha true h.1 ha
      · exact ihb true h.2 hb
    | false =>
      intro he
      simp only [rej, Bool.or_eq_true] at h
      obtain ⟨ha, hb⟩ := eval_or_false he
      rcases h with h | h
      · exact iha false h ha
      · exact ihb false h hb
  | not a ih =>
    intro p h he
    have h' : rej (!p) a = true := by cases p <;> simpa [rej] using h
    exact ih (!p) h' (eval_not he)
  | ite c t e _ iht ihe =>
    intro p h
    cases p with
    | false => simp [rej] at h
    | true =>
      intro he
      simp only [rej, Bool.and_eq_true] at h
      rcases eval_ite_true he with ht | he'
      · exact iht true h.1 ht
      · exact ihe true h.2 he'

/-! ### markup tables -/

theorem anyG_some_true {α} (f : α → Option Bool) : ∀ (l : List α), anyG f l = some true →
    ∃ a ∈ l, f a = some true := by
  intro l
  induction l with
  | nil => intro h; simp [anyG] at h
  | cons x xs ih =>
    intro h
    simp only [anyG] at h
    cases hx : f x with
    | none => rw [hx] at h; cases h
    | some v => cases v with
      | true => exact ⟨x, by simp, hx⟩
      | false =>
        rw [hx] at h
        obtain ⟨a, ha, hfa⟩ := ih h
        exact ⟨a, by simp [ha], hfa⟩

theorem ciMatch_q (b : Nat) (bs r : Bytes) (h : b ≠ 0x3F) : ciMatch (b :: bs) (0x3F :: r) = some false := by
  have e : ciMatch (b :: bs) (0x3F :: r) =
      (if (b != (if 0x41 ≤ b ∧ b ≤ 0x5A then 0x3F &&& 0xDF else 0x3F)) = true then some false
       else ciMatch bs r) := rfl
  have hne : (b != (if 0x41 ≤ b ∧ b ≤ 0x5A then 0x3F &&& 0xDF else 0x3F)) = true := by
    split
    · have : (0x3F : Nat) &&& 0xDF = 0x1F := by decide
      rw [this]; simp only [bne_iff_ne, ne_eq]; omega
    · simp only [bne_iff_ne, ne_eq]; exact h
  rw [e, if_pos hne]

theorem ciMatch_sigRej (sig : Bytes) (x : Nat) (r : Bytes) (h : sigRej sig = true) :
    ciMatch sig (x :: 0x3F :: r) ≠ some true := by
  match sig, h with
  | a :: b :: bs, h =>
    simp only [sigRej, bne_iff_ne, ne_eq] at h
    have e : ciMatch (a :: b :: bs) (x :: 0x3F :: r) =
        (if (a != (if 0x41 ≤ a ∧ a ≤ 0x5A then x &&& 0xDF else x)) = true then some false
         else ciMatch (b :: bs) (0x3F :: r)) := rfl
    rw [e, ciMatch_q b bs r h]
    split <;> simp

theorem markupCheck_sigRej (sig : Bytes) (x : Nat) (r : Bytes) (h : sigRej sig = true) :
    markupCheck sig (x :: 0x3F :: r) ≠ some true := by
  unfold markupCheck
  split
  · simp
  · have := ciMatch_sigRej sig x r h
    cases hc : ciMatch sig (x :: 0x3F :: r) with
    | none => simp
    | some v => cases v with
      | false => simp
      | true => exact absurd hc this

/-! ### descriptors -/

theorem rejD_sound {raw : Bytes} (hx : XmlLike raw) (ext : Custom → Bytes → Nat → Bool) (d : Det) (lim : Nat)
    (h : rejD d = true) : detEval ext d raw lim ≠ some true := by
  cases d with
  | expr e =>
    simp only [detEval, Det.evalWith]
    exact rej_sound hx e true (by simpa [rejD] using h)
  | ciPrefix sigs => simp [rejD] at h
  | xml sigs => simp [rejD] at h
  | shebang sigs => simp [rejD] at h
  | markup sigs =>
    obtain ⟨r, hr⟩ := hx.trim
    have hbom : hasPrefix raw utf8BOM = false := hasPrefix_first hx 0xEF _ (by decide)
    simp only [detEval, Det.evalWith, hbom, Bool.false_eq_true, ↓reduceIte, hr, List.isEmpty_cons]
    intro he
    obtain ⟨s, hs, hm⟩ := anyG_some_true _ sigs he
    have hrej : sigRej s = true := by
      simp only [rejD, List.all_eq_true] at h
      exact h s hs
    exact markupCheck_sigRej s _ r hrej hm
  | custom c =>
    cases c with
    | crx =>
      simp only [detEval, Det.evalWith, custEval, customModel, Cust.crx]
      rw [hasPrefix_first hx 0x43 _ (by decide)]
      simp
    | webm =>
      simp only [detEval, Det.evalWith, custEval, customModel, matroska]
      rw [hasPrefix_first hx 0x1A _ (by decide)]
      simp
    | mkv =>
      simp only [detEval, Det.evalWith, custEval, customModel, matroska]
      rw [hasPrefix_first hx 0x1A _ (by decide)]
      simp
    | text => simp [rejD] at h
    | php => simp [rejD] at h
    | json => simp [rejD] at h
    | geojson => simp [rejD] at h
    | har => simp [rejD] at h
    | gltf => simp [rejD] at h
    | ndjson => simp [rejD] at h
    | srt => simp [rejD] at h
    | csv => simp [rejD] at h
    | tsv => simp [rejD] at h
    | tar => simp [rejD] at h
    | unknown => simp [rejD] at h

end Mime.DetectXml
