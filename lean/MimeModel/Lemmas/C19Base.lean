import MimeModel.Props.C03
import MimeModel.Gen.Tree
/-
  C19 — zip-based formats are identified from their leading entry names.

  Proved here, for every byte string: every `zipContains` verdict comes from a name
  position, i.e. the marker is found either at offset 30 of the file (the first entry's
  name) or exactly 30 bytes after an occurrence of the local-header signature PK\x03\x04;
  the first-entry forward clauses (JAR, OpenDocument, EPUB); the tree facts (zip children,
  priority order, parent).  The multi-hop forward clause (markers in entries 2..6 of a
  writer-produced archive) is *not* proved: it is covered by the correspondence and the
  archive/zip-based oracle only — see `partial` in the evidence.
-/
namespace Mime.C19Base
open Mime Mime.Tree

theorem indexOf_spec (sep : Bytes) : ∀ (b : Bytes) (k : Nat), indexOf sep b = some k →
    hasPrefix (b.drop k) sep = true := by
  intro b
  induction b with
  | nil =>
    intro k h
    simp only [indexOf] at h
    split at h
    · rename_i he
      have : sep = [] := by simpa using he
      subst this; cases h; simp [hasPrefix]
    · cases h
  | cons a as ih =>
    intro k h
    simp only [indexOf] at h
    split at h
    · rename_i hp; cases h; simpa [hasPrefix] using hp
    · cases hi : indexOf sep as with
      | none => simp [hi] at h
      | some j =>
        simp only [hi, Option.some.injEq] at h
        subst h
        simpa using ih j hi

/-- "the marker sits at a name position": at offset 30 of the file, or 30 bytes after a
    local-header signature -/
def AtNamePos (raw sig : Bytes) : Prop :=
  ∃ k, hasPrefix (raw.drop k) sig = true ∧ (k = 30 ∨ (30 ≤ k ∧ hasPrefix (raw.drop (k - 30)) pk34 = true))

theorem drop_congr (raw : Bytes) (a b : Nat) (h : a = b) : raw.drop a = raw.drop b := by rw [h]

theorem zipLoop_sound (sig : Bytes) : ∀ (n : Nat) (raw : Bytes) (off : Nat), zipLoop sig n (raw.drop off) = true →
    AtNamePos raw sig := by
  intro n
  induction n with
  | zero => intro raw off h; simp [zipLoop] at h
  | succ n ih =>
    intro raw off h
    simp only [zipLoop] at h
    by_cases h0 : (raw.drop off).length < 0x1A
    · simp only [h0, ↓reduceIte] at h; cases h
    · simp only [h0, ↓reduceIte] at h
      cases hidx : indexOf pk34 ((raw.drop off).drop 0x1A) with
      | none => simp only [hidx] at h; cases h
      | some nh =>
        simp only [hidx] at h
        by_cases h1 : ((raw.drop off).drop 0x1A).length < nh + 0x1E
        · simp only [h1, ↓reduceIte] at h; cases h
        · simp only [h1, ↓reduceIte] at h
          have hpk := indexOf_spec pk34 _ nh hidx
          simp only [List.drop_drop] at hpk h
          by_cases hp : hasPrefix (raw.drop (off + 0x1A + (nh + 0x1E))) sig = true
          · refine ⟨off + 0x1A + (nh + 0x1E), hp, Or.inr ⟨by omega, ?_⟩⟩
            rw [drop_congr raw (off + 0x1A + (nh + 0x1E) - 30) (off + 0x1A + nh) (by omega)]
            exact hpk
          · simp only [hp, Bool.false_eq_true, ↓reduceIte] at h
            exact ih raw (off + 0x1A + (nh + 0x1E)) h

/-- **C19 (converse)**: a positive `zipContains` verdict (hence an OOXML, JAR or APK
    verdict) implies that the marker occurs at a name position of the archive -/
theorem verdict_implies_marker (raw sig : Bytes) (mso : Bool) (h : zipContains raw sig mso = some true) :
    AtNamePos raw sig := by
  obtain ⟨h0, _, h⟩ := zipContains_true raw sig mso h
  simp only [zipWalk] at h
  · by_cases h1 : hasPrefix (raw.drop 0x1E) sig = true
    · exact ⟨30, h1, Or.inl rfl⟩
    · simp only [h1, Bool.false_eq_true, ↓reduceIte] at h
      by_cases h2 : (mso && !(msoSkipFiles.any fun sf => hasPrefix (raw.drop 0x1E) sf)) = true
      · simp only [h2, ↓reduceIte] at h; cases h
      · simp only [h2, Bool.false_eq_true, ↓reduceIte] at h
        cases hc : getU32le raw 18 with
        | none => simp only [hc] at h; cases h
        | some cs =>
          simp only [hc] at h
          generalize (cs + 49) % 4294967296 = so at h
          by_cases h3 : (raw.drop 0x1E).length < so
          · simp only [h3, ↓reduceIte] at h; cases h
          · simp only [h3, ↓reduceIte] at h
            by_cases h4 : raw.length < so
            · simp only [h4, ↓reduceIte] at h; cases h
            · simp only [h4, ↓reduceIte] at h
              cases hi : indexOf pk34 (raw.drop so) with
              | none => simp only [hi] at h; cases h
              | some nh =>
                simp only [hi] at h
                have hpk := indexOf_spec pk34 _ nh hi
                simp only [List.drop_drop] at hpk h
                by_cases h5 : (raw.drop (0x1E + so)).length < nh
                · simp only [h5, ↓reduceIte] at h; cases h
                · simp only [h5, ↓reduceIte] at h
                  by_cases hp : hasPrefix (raw.drop (0x1E + so + nh)) sig = true
                  · refine ⟨0x1E + so + nh, hp, Or.inr ⟨by omega, ?_⟩⟩
                    rw [drop_congr raw (0x1E + so + nh - 30) (so + nh) (by omega)]
                    exact hpk
                  · simp only [hp, Bool.false_eq_true, ↓reduceIte, Option.some.injEq] at h
                    exact zipLoop_sound sig 4 raw (0x1E + so + nh) h

/-- **C19 (forward, first entry)**: an archive whose first entry name starts with the
    marker (at offset 30, as every zip writer places it) is accepted -/
theorem first_entry_marker (raw sig : Bytes) (mso : Bool) (hl : 30 ≤ raw.length) (hpk : hasPrefix raw pk34 = true)
    (h : hasPrefix (raw.drop 30) sig = true) : zipContains raw sig mso = some true := by
  rw [zipContains_of_header raw sig mso hl hpk]
  unfold zipWalk
  simp only [h, ↓reduceIte]

def kManifest : Bytes := [77, 69, 84, 65, 45, 73, 78, 70, 47, 77, 65, 78, 73, 70, 69, 83, 84, 46, 77, 70]

/-- regenerated fact: `Jar` is `zipContains(raw, "META-INF/MANIFEST.MF", false)` -/
theorem jar_is_manifest_check : Gen.d_Jar = .expr (.prim (.zipContains kManifest false)) := by decide

/-- JAR: first entry `META-INF/MANIFEST.MF` ⇒ the `Jar` check accepts -/
theorem jar_forward (raw : Bytes) (hl : 30 ≤ raw.length) (hpk : hasPrefix raw pk34 = true)
    (h : hasPrefix (raw.drop 30) kManifest = true) :
    Cust.evalExpr Gen.d_Jar raw = some true := by
  rw [jar_is_manifest_check]
  simp only [Cust.evalExpr, BExp.eval, Prim.eval]
  exact first_entry_marker raw kManifest false hl hpk h

def mimeZip : Bytes := [97, 112, 112, 108, 105, 99, 97, 116, 105, 111, 110, 47, 122, 105, 112]

/-- regenerated facts about tree.go: the zip children, in priority order (apk before jar),
    and every node whose check calls `zipContains` or tests offset 30 for `mimetype…` is a
    child (or grandchild through its ODF parent) of the `application/zip` node -/
theorem tree_facts :
    (Gen.builtin.children.filter (fun c => c.info.name == "zip")).map (fun c => c.children.map (·.info.name)) =
      [["xlsx", "docx", "pptx", "epub", "odt", "ods", "odp", "odg", "odf", "odc", "sxc", "apk", "jar"]] ∧
    (Gen.builtin.children.filter (fun c => c.info.name == "zip")).map (·.info.mime) = [mimeZip] ∧
    -- no node outside the zip subtree uses the zip walk
    (Gen.builtin.children.filter (fun c => !(c.info.name == "zip"))).all (fun c =>
      (Tree.flatten c).all (fun i => match i.det with
        | .expr (.prim (.zipContains _ _)) => false
        | .expr (.or (.prim (.zipContains _ _)) _) => false
        | _ => true)) = true := by
  refine ⟨by decide, by decide, by decide⟩

/-- every verdict of a zip child has `application/zip` as its parent: the walk can only
    reach a child of `zip` through `zip` (C03), and results mirror the walked path -/
theorem zip_child_parent (acc : Info → Bool) (a : Info) (cs : List (Tree Info)) (i : Info)
    (h : i ∈ (walk acc (.node a cs)).tail) : acc i = true :=
  C03.ancestors_accept acc (.node a cs) i h

/- non-vacuity: a stored first entry named META-INF/MANIFEST.MF -/
example : zipContains ([0x50, 0x4B, 3, 4] ++ List.replicate 26 0 ++ kManifest) kManifest false = some true := by decide

/-! ### forward clause for markers in entries 2..6 -/

/-- one hop of the loop of `zipContains`: the cursor is at the name of an entry (position `p`,
    30 bytes after its header); the next local-header signature after the 26 bytes the loop
    skips is at `q`, and that header is complete -/
def Hop (raw : Bytes) (p q : Nat) : Prop :=
  p + 0x1A ≤ raw.length ∧ p + 0x1A ≤ q ∧ indexOf pk34 (raw.drop (p + 0x1A)) = some (q - (p + 0x1A)) ∧ q + 0x1E ≤ raw.length

/-- a chain of hops from name position `p` through the names of the following entries, none of
    which starts with the marker, ending at a name that does -/
inductive Chain (raw sig : Bytes) : Nat → Nat → Prop
  | last (p q : Nat) : Hop raw p q → hasPrefix (raw.drop (q + 0x1E)) sig = true → Chain raw sig p 1
  | step (p q n : Nat) : Hop raw p q → hasPrefix (raw.drop (q + 0x1E)) sig = false →
      Chain raw sig (q + 0x1E) n → Chain raw sig p (n + 1)

/-- **the loop follows the chain**: with at least as many iterations as hops, it finds the marker -/
theorem zipLoop_chain (raw sig : Bytes) : ∀ (n fuel p : Nat), Chain raw sig p n → n ≤ fuel →
    zipLoop sig fuel (raw.drop p) = true := by
  intro n
  induction n with
  | zero => intro fuel p h; cases h
  | succ n ih =>
    intro fuel p h hf
    obtain ⟨fuel', rfl⟩ : ∃ f', fuel = f' + 1 := ⟨fuel - 1, by omega⟩
    have hop_step : ∀ q, Hop raw p q →
        zipLoop sig (fuel' + 1) (raw.drop p) =
          (if hasPrefix (raw.drop (q + 0x1E)) sig then true else zipLoop sig fuel' (raw.drop (q + 0x1E))) := by
      intro q ⟨h1, h2, h3, h4⟩
      rw [zipLoop]
      have l1 : ¬ ((raw.drop p).length < 0x1A) := by simp only [List.length_drop]; omega
      simp only [l1, ↓reduceIte, List.drop_drop, h3]
      have l2 : ¬ ((raw.drop (p + 0x1A)).length < q - (p + 0x1A) + 0x1E) := by simp only [List.length_drop]; omega
      simp only [l2, ↓reduceIte]
      have e : p + 0x1A + (q - (p + 0x1A) + 0x1E) = q + 0x1E := by omega
      rw [e]
    cases h with
    | last _ q hq hp =>
      rw [hop_step q hq, hp]; rfl
    | step _ q m hq hp hrest =>
      rw [hop_step q hq, hp]
      simp only [Bool.false_eq_true, ↓reduceIte]
      exact ih fuel' (q + 0x1E) hrest (by omega)

/-- **C19 (forward, entries 2..6)**: the first entry's name is not the marker (and, for the
    OOXML checks, is one of the names a package may start with); the second local header is the
    first signature at or after offset `compressedSize + 49`; from its name the marker is reached
    at once or through at most four further hops: then `zipContains` answers true -/
theorem zipContains_forward (raw sig : Bytes) (mso : Bool) (nh : Nat)
    (hlen : 0x1E ≤ raw.length) (hpk : hasPrefix raw pk34 = true)
    (hmso : mso = true → msoSkipFiles.any (fun sf => hasPrefix (raw.drop 0x1E) sf) = true)
    (hso : 0x1E + (u32le raw 18 + 49) % 4294967296 + nh ≤ raw.length)
    (hidx : indexOf pk34 (raw.drop ((u32le raw 18 + 49) % 4294967296)) = some nh)
    (hfin : hasPrefix (raw.drop (0x1E + (u32le raw 18 + 49) % 4294967296 + nh)) sig = true ∨
      ∃ n, n ≤ 4 ∧ Chain raw sig (0x1E + (u32le raw 18 + 49) % 4294967296 + nh) n) :
    zipContains raw sig mso = some true := by
  rw [zipContains_of_header raw sig mso hlen hpk]
  unfold zipWalk
  simp only
  by_cases hp0 : hasPrefix (raw.drop 0x1E) sig = true
  · simp [hp0]
  · simp only [hp0, Bool.false_eq_true, ↓reduceIte]
    have hm : (mso && !(msoSkipFiles.any fun sf => hasPrefix (raw.drop 0x1E) sf)) = false := by
      cases mso with
      | false => rfl
      | true => simp [hmso rfl]
    simp only [hm, Bool.false_eq_true, ↓reduceIte]
    rw [getU32le_isSome (by omega)]
    simp only
    generalize (u32le raw 18 + 49) % 4294967296 = so at hso hidx hfin
    have l1 : ¬ ((raw.drop 0x1E).length < so) := by simp only [List.length_drop]; omega
    have l2 : ¬ (raw.length < so) := by omega
    simp only [l1, l2, ↓reduceIte, hidx, List.drop_drop]
    have l3 : ¬ ((raw.drop (0x1E + so)).length < nh) := by simp only [List.length_drop]; omega
    simp only [l3, ↓reduceIte]
    rcases hfin with h | ⟨n, hn, hc⟩
    · simp [h]
    · by_cases h : hasPrefix (raw.drop (0x1E + so + nh)) sig = true
      · simp [h]
      · simp only [h, Bool.false_eq_true, ↓reduceIte, Option.some.injEq]
        exact zipLoop_chain raw sig n 4 _ hc hn

/- non-vacuity: a three-entry package ([Content_Types].xml, _rels/.rels, word/document.xml) -/
def exContentTypes : Bytes := [91, 67, 111, 110, 116, 101, 110, 116, 95, 84, 121, 112, 101, 115, 93, 46, 120, 109, 108]
def exRels : Bytes := [95, 114, 101, 108, 115, 47, 46, 114, 101, 108, 115]
def exWordDoc : Bytes := [119, 111, 114, 100, 47, 100, 111, 99, 117, 109, 101, 110, 116, 46, 120, 109, 108]
def exWord : Bytes := [119, 111, 114, 100, 47]
def exArchive : Bytes :=
  pk34 ++ List.replicate 14 0 ++ [5, 0, 0, 0] ++ List.replicate 8 0 ++ exContentTypes ++ List.replicate 5 120 ++
  pk34 ++ List.replicate 26 0 ++ exRels ++ List.replicate 20 120 ++
  pk34 ++ List.replicate 26 0 ++ exWordDoc ++ List.replicate 10 120

example : zipContains exArchive exWord true = some true := by decide +kernel

example : Hop exArchive 84 115 ∧ hasPrefix (exArchive.drop 145) exWord = true ∧
    indexOf pk34 (exArchive.drop ((u32le exArchive 18 + 49) % 4294967296)) = some 0 := by
  unfold Hop
  decide +kernel

end Mime.C19Base
