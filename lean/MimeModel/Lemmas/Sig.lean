import MimeModel.Model.Sig
/-
  Soundness of the static analyses of `Model/Sig.lean`.
-/
namespace Mime

theorem getD_append_left (p s : Bytes) (i : Nat) (h : i < p.length) :
    (p ++ s).getD i 0 = p.getD i 0 := by
  simp [List.getD, List.getElem?_append_left h]

theorem IExp.eval_total {a : IExp} {L : Nat} {raw : Bytes} (hs : a.safe L = true) (hL : L ≤ raw.length) :
    ∃ v, a.eval raw = some v := by
  induction a with
  | lit n => exact ⟨_, rfl⟩
  | byte i =>
    simp only [IExp.safe, decide_eq_true_eq] at hs
    have : i < raw.length := by omega
    simp only [IExp.eval, if_pos this]; exact ⟨_, rfl⟩
  | u16be o need | u16le o need | u32be o need | u32le o need =>
    simp only [IExp.safe, Bool.and_eq_true, decide_eq_true_eq] at hs
    simp only [IExp.eval]
    rw [if_pos ⟨by omega, by omega⟩]; exact ⟨_, rfl⟩
  | band a m ih =>
    simp only [IExp.safe] at hs
    obtain ⟨v, hv⟩ := ih hs
    simp only [IExp.eval, hv]; exact ⟨_, rfl⟩

theorem IExp.eval_append {a : IExp} {p : Bytes} {v : Nat} (s : Bytes) (h : a.eval p = some v) :
    a.eval (p ++ s) = some v := by
  induction a generalizing v with
  | lit n => simpa [IExp.eval] using h
  | byte i =>
    simp only [IExp.eval] at h ⊢
    split at h
    · rename_i hi
      have : i < (p ++ s).length := by simp; omega
      simp only [this, ↓reduceIte]
      rw [getD_append_left p s i hi]; exact h
    · cases h
  | u16be o need =>
    simp only [IExp.eval] at h ⊢
    split at h
    · rename_i hi
      have : o + 2 ≤ (p ++ s).length ∧ need ≤ (p ++ s).length := by simp; omega
      simp only [this, and_self, ↓reduceIte]
      simp only [Mime.u16be] at h ⊢
      rw [getD_append_left p s o (by omega), getD_append_left p s (o+1) (by omega)]; exact h
    · cases h
  | u16le o need =>
    simp only [IExp.eval] at h ⊢
    split at h
    · rename_i hi
      have : o + 2 ≤ (p ++ s).length ∧ need ≤ (p ++ s).length := by simp; omega
      simp only [this, and_self, ↓reduceIte]
      simp only [Mime.u16le] at h ⊢
      rw [getD_append_left p s o (by omega), getD_append_left p s (o+1) (by omega)]; exact h
    · cases h
  | u32be o need =>
    simp only [IExp.eval] at h ⊢
    split at h
    · rename_i hi
      have : o + 4 ≤ (p ++ s).length ∧ need ≤ (p ++ s).length := by simp; omega
      simp only [this, and_self, ↓reduceIte]
      simp only [Mime.u32be] at h ⊢
      rw [getD_append_left p s o (by omega), getD_append_left p s (o+1) (by omega),
        getD_append_left p s (o+2) (by omega), getD_append_left p s (o+3) (by omega)]; exact h
    · cases h
  | u32le o need =>
    simp only [IExp.eval] at h ⊢
    split at h
    · rename_i hi
      have : o + 4 ≤ (p ++ s).length ∧ need ≤ (p ++ s).length := by simp; omega
      simp only [this, and_self, ↓reduceIte]
      simp only [Mime.u32le] at h ⊢
      rw [getD_append_left p s o (by omega), getD_append_left p s (o+1) (by omega),
        getD_append_left p s (o+2) (by omega), getD_append_left p s (o+3) (by omega)]; exact h
    · cases h
  | band a m ih =>
    simp only [IExp.eval] at h ⊢
    cases ha : a.eval p with
    | none => simp [ha] at h
    | some w =>
      rw [ih ha]
      simpa [ha] using h

/-- the length bounds derived from guards are correct -/
theorem BExp.lb_sound (e : BExp) : ∀ (L : Nat) (raw : Bytes), L ≤ raw.length →
    (e.eval raw = some true → e.lbT L ≤ raw.length) ∧
    (e.eval raw = some false → e.lbF L ≤ raw.length) := by
  induction e with
  | lenGe k =>
    intro L raw hL
    constructor
    · intro h
      simp only [BExp.eval, Option.some.injEq, decide_eq_true_eq] at h
      simp only [BExp.lbT]; omega
    · intro _; simpa [BExp.lbF] using hL
  | and a b iha ihb =>
    intro L raw hL
    constructor
    · intro h
      simp only [BExp.eval] at h
      simp only [BExp.lbT]
      cases ha : a.eval raw with
      | none => simp [ha] at h
      | some v =>
        cases v with
        | false => simp [ha] at h
        | true =>
          simp only [ha] at h
          exact (ihb _ raw ((iha L raw hL).1 ha)).1 h
    · intro _; simpa [BExp.lbF] using hL
  | or a b iha ihb =>
    intro L raw hL
    constructor
    · intro _; simpa [BExp.lbT] using hL
    · intro h
      simp only [BExp.eval] at h
      simp only [BExp.lbF]
      cases ha : a.eval raw with
      | none => simp [ha] at h
      | some v =>
        cases v with
        | true => simp [ha] at h
        | false =>
          simp only [ha] at h
          exact (ihb _ raw ((iha L raw hL).2 ha)).2 h
  | not a iha =>
    intro L raw hL
    constructor
    · intro h
      simp only [BExp.eval, Option.map_eq_some_iff] at h
      obtain ⟨v, hv, hn⟩ := h
      cases v with
      | true => simp at hn
      | false => simp only [BExp.lbT]; exact (iha L raw hL).2 hv
    · intro h
      simp only [BExp.eval, Option.map_eq_some_iff] at h
      obtain ⟨v, hv, hn⟩ := h
      cases v with
      | false => simp at hn
      | true => simp only [BExp.lbF]; exact (iha L raw hL).1 hv
  | const _ | cmp _ _ _ | prefixAt _ _ | equalAt _ _ _ | containsUpTo _ _ _ | containsAll _
  | equalAll _ | prim _ | ite _ _ _ =>
    intro L raw hL
    constructor <;> intro _ <;> simpa [BExp.lbT, BExp.lbF] using hL

theorem Prim.eval_total (p : Prim) (raw : Bytes) : ∃ v, p.eval raw = some v := by
  cases p with
  | oleClsid c => exact oleClsid_total raw c
  | zipContains s m => exact zipContains_total raw s m

/-- **Safety**: a statically safe expression never reaches a failing index/slice. -/
theorem BExp.safe_sound (e : BExp) : ∀ (L : Nat) (raw : Bytes), e.safe L = true → L ≤ raw.length →
    ∃ v, e.eval raw = some v := by
  induction e with
  | const b => intro _ _ _ _; exact ⟨_, rfl⟩
  | lenGe k => intro _ _ _ _; exact ⟨_, rfl⟩
  | cmp op a b =>
    intro L raw hs hL
    simp only [BExp.safe, Bool.and_eq_true] at hs
    obtain ⟨x, hx⟩ := IExp.eval_total hs.1 hL
    obtain ⟨y, hy⟩ := IExp.eval_total hs.2 hL
    simp only [BExp.eval, hx, hy]; exact ⟨_, rfl⟩
  | prefixAt off sig =>
    intro L raw hs hL
    simp only [BExp.safe, decide_eq_true_eq] at hs
    have : off ≤ raw.length := by omega
    simp only [BExp.eval, if_pos this]; exact ⟨_, rfl⟩
  | equalAt lo hi sig =>
    intro L raw hs hL
    simp only [BExp.safe, Bool.and_eq_true, decide_eq_true_eq] at hs
    have : lo ≤ hi ∧ hi ≤ raw.length := ⟨hs.1, by omega⟩
    exact ⟨_, by simp only [BExp.eval]; rw [if_pos this]⟩
  | containsUpTo lo cap sig =>
    intro L raw hs hL
    simp only [BExp.safe, Bool.and_eq_true, decide_eq_true_eq] at hs
    have : lo ≤ min cap raw.length := by omega
    exact ⟨_, by simp only [BExp.eval]; rw [if_pos this]⟩
  | containsAll sig => intro _ _ _ _; exact ⟨_, rfl⟩
  | equalAll sig => intro _ _ _ _; exact ⟨_, rfl⟩
  | prim p => intro _ raw _ _; exact Prim.eval_total p raw
  | and a b iha ihb =>
    intro L raw hs hL
    simp only [BExp.safe, Bool.and_eq_true] at hs
    obtain ⟨va, hva⟩ := iha L raw hs.1 hL
    cases va with
    | false => exact ⟨false, by simp [BExp.eval, hva]⟩
    | true =>
      obtain ⟨vb, hvb⟩ := ihb _ raw hs.2 ((BExp.lb_sound a L raw hL).1 hva)
      exact ⟨vb, by simp [BExp.eval, hva, hvb]⟩
  | or a b iha ihb =>
    intro L raw hs hL
    simp only [BExp.safe, Bool.and_eq_true] at hs
    obtain ⟨va, hva⟩ := iha L raw hs.1 hL
    cases va with
    | true => exact ⟨true, by simp [BExp.eval, hva]⟩
    | false =>
      obtain ⟨vb, hvb⟩ := ihb _ raw hs.2 ((BExp.lb_sound a L raw hL).2 hva)
      exact ⟨vb, by simp [BExp.eval, hva, hvb]⟩
  | not a iha =>
    intro L raw hs hL
    simp only [BExp.safe] at hs
    obtain ⟨va, hva⟩ := iha L raw hs hL
    exact ⟨!va, by simp [BExp.eval, hva]⟩
  | ite c t e ihc iht ihe =>
    intro L raw hs hL
    simp only [BExp.safe, Bool.and_eq_true] at hs
    obtain ⟨vc, hvc⟩ := ihc L raw hs.1.1 hL
    cases vc with
    | true =>
      obtain ⟨vt, hvt⟩ := iht _ raw hs.1.2 ((BExp.lb_sound c L raw hL).1 hvc)
      exact ⟨vt, by simp [BExp.eval, hvc, hvt]⟩
    | false =>
      obtain ⟨ve, hve⟩ := ihe _ raw hs.2 ((BExp.lb_sound c L raw hL).2 hvc)
      exact ⟨ve, by simp [BExp.eval, hvc, hve]⟩

theorem slice_append_left (p s : Bytes) (lo hi : Nat) (h : hi ≤ p.length) :
    slice (p ++ s) lo hi = slice p lo hi := by
  simp only [slice]
  rw [List.take_append_of_le_length h]

/-- the window `raw[lo:min(cap,len)]` only grows when the input is extended -/
theorem slice_window (p s : Bytes) (lo cap : Nat) (ho : lo ≤ min cap p.length) :
    ∃ t, slice (p ++ s) lo (min cap (p ++ s).length) = slice p lo (min cap p.length) ++ t := by
  simp only [slice]
  have hab : min cap (p ++ s).length = min cap p.length + (min cap (p ++ s).length - min cap p.length) := by
    simp; omega
  rw [hab, List.take_add, List.take_append_of_le_length (by omega)]
  rw [List.drop_append_of_le_length (by simp only [List.length_take]; omega)]
  exact ⟨_, rfl⟩

theorem indexOf_isSome_append (sep : Bytes) (b s : Bytes) (h : (indexOf sep b).isSome = true) :
    (indexOf sep (b ++ s)).isSome = true := by
  induction b with
  | nil =>
    simp only [indexOf] at h
    split at h
    · rename_i he
      have : sep = [] := by simpa using he
      subst this
      cases s <;> simp [indexOf]
    · cases h
  | cons a as ih =>
    simp only [indexOf, List.cons_append] at h ⊢
    split at h
    · rename_i hp
      have hp' : sep.isPrefixOf (a :: (as ++ s)) = true := by
        rw [List.isPrefixOf_iff_prefix] at hp ⊢
        have := List.IsPrefix.trans hp (List.prefix_append (a :: as) s)
        simpa using this
      simp [hp']
    · split
      · rfl
      · cases hi : indexOf sep as with
        | none => simp [hi] at h
        | some k =>
          have := ih (by simp [hi])
          cases hj : indexOf sep (as ++ s) with
          | none => simp [hj] at this
          | some j => simp

theorem containsSub_append (b s sep : Bytes) (h : containsSub b sep = true) :
    containsSub (b ++ s) sep = true := by
  unfold containsSub at *; exact indexOf_isSome_append sep b s h

/-- **Monotonicity**: for statically safe expressions, verdicts flagged by `pT` / `pF`
    are preserved when the input is extended by any suffix. -/
theorem BExp.preserve (e : BExp) : ∀ (L : Nat) (p s : Bytes), e.safe L = true → L ≤ p.length →
    (e.pT = true → e.eval p = some true → e.eval (p ++ s) = some true) ∧
    (e.pF = true → e.eval p = some false → e.eval (p ++ s) = some false) := by
  induction e with
  | const b =>
    intro L p s _ _
    constructor <;> intro _ h <;> simpa [BExp.eval] using h
  | lenGe k =>
    intro L p s _ _
    constructor
    · intro _ h
      simp only [BExp.eval, Option.some.injEq, decide_eq_true_eq] at h ⊢
      simp; omega
    · intro h; simp [BExp.pF] at h
  | cmp op a b =>
    intro L p s _ _
    constructor <;> intro _ h <;>
    · simp only [BExp.eval] at h ⊢
      cases ha : a.eval p with
      | none => simp [ha] at h
      | some x =>
        cases hb : b.eval p with
        | none => simp [ha, hb] at h
        | some y =>
          rw [IExp.eval_append s ha, IExp.eval_append s hb]
          simpa [ha, hb] using h
  | prefixAt off sig =>
    intro L p s _ _
    constructor
    · intro _ h
      simp only [BExp.eval] at h ⊢
      split at h
      · rename_i ho
        have : off ≤ (p ++ s).length := by simp; omega
        simp only [this, ↓reduceIte, Option.some.injEq] at h ⊢
        rw [List.drop_append_of_le_length ho]
        exact hasPrefix_append s h
      · cases h
    · intro h; simp [BExp.pF] at h
  | equalAt lo hi sig =>
    intro L p s _ _
    constructor <;> intro _ h <;>
    · simp only [BExp.eval] at h ⊢
      split at h
      · rename_i ho
        have : lo ≤ hi ∧ hi ≤ (p ++ s).length := ⟨ho.1, by simp; omega⟩
        rw [if_pos this, slice_append_left p s lo hi ho.2]
        exact h
      · cases h
  | containsUpTo lo cap sig =>
    intro L p s _ _
    constructor
    · intro _ h
      simp only [BExp.eval] at h ⊢
      split at h
      · rename_i ho
        have h1 : lo ≤ min cap (p ++ s).length := by simp; omega
        rw [if_pos h1]
        simp only [Option.some.injEq] at h ⊢
        obtain ⟨t, hw⟩ := slice_window p s lo cap ho
        rw [hw]
        exact containsSub_append _ _ _ h
      · cases h
    · intro h; simp [BExp.pF] at h
  | containsAll sig =>
    intro L p s _ _
    constructor
    · intro _ h
      simp only [BExp.eval, Option.some.injEq] at h ⊢
      exact containsSub_append _ _ _ h
    · intro h; simp [BExp.pF] at h
  | equalAll sig =>
    intro L p s _ _
    constructor <;> intro h <;> simp [BExp.pT, BExp.pF] at h
  | prim q =>
    intro L p s _ _
    constructor <;> intro h <;> simp [BExp.pT, BExp.pF] at h
  | and a b iha ihb =>
    intro L p s hs hL
    simp only [BExp.safe, Bool.and_eq_true] at hs
    have hLs : L ≤ (p ++ s).length := by simp; omega
    constructor
    · intro hp h
      simp only [BExp.pT, Bool.and_eq_true] at hp
      simp only [BExp.eval] at h ⊢
      cases ha : a.eval p with
      | none => simp [ha] at h
      | some v =>
        cases v with
        | false => simp [ha] at h
        | true =>
          simp only [ha] at h
          rw [(iha L p s hs.1 hL).1 hp.1 ha]
          exact (ihb _ p s hs.2 ((BExp.lb_sound a L p hL).1 ha)).1 hp.2 h
    · intro hp h
      simp only [BExp.pF, Bool.and_eq_true] at hp
      simp only [BExp.eval] at h ⊢
      cases ha : a.eval p with
      | none => simp [ha] at h
      | some v =>
        cases v with
        | false => rw [(iha L p s hs.1 hL).2 hp.1 ha]
        | true =>
          simp only [ha] at h
          obtain ⟨w, hw⟩ := BExp.safe_sound a L (p ++ s) hs.1 hLs
          cases w with
          | false => simp [hw]
          | true =>
            simp only [hw]
            exact (ihb _ p s hs.2 ((BExp.lb_sound a L p hL).1 ha)).2 hp.2 h
  | or a b iha ihb =>
    intro L p s hs hL
    simp only [BExp.safe, Bool.and_eq_true] at hs
    have hLs : L ≤ (p ++ s).length := by simp; omega
    constructor
    · intro hp h
      simp only [BExp.pT, Bool.and_eq_true] at hp
      simp only [BExp.eval] at h ⊢
      cases ha : a.eval p with
      | none => simp [ha] at h
      | some v =>
        cases v with
        | true => rw [(iha L p s hs.1 hL).1 hp.1 ha]
        | false =>
          simp only [ha] at h
          obtain ⟨w, hw⟩ := BExp.safe_sound a L (p ++ s) hs.1 hLs
          cases w with
          | true => simp [hw]
          | false =>
            simp only [hw]
            exact (ihb _ p s hs.2 ((BExp.lb_sound a L p hL).2 ha)).1 hp.2 h
    · intro hp h
      simp only [BExp.pF, Bool.and_eq_true] at hp
      simp only [BExp.eval] at h ⊢
      cases ha : a.eval p with
      | none => simp [ha] at h
      | some v =>
        cases v with
        | true => simp [ha] at h
        | false =>
          simp only [ha] at h
          rw [(iha L p s hs.1 hL).2 hp.1 ha]
          exact (ihb _ p s hs.2 ((BExp.lb_sound a L p hL).2 ha)).2 hp.2 h
  | not a iha =>
    intro L p s hs hL
    simp only [BExp.safe] at hs
    constructor
    · intro hp h
      simp only [BExp.pT] at hp
      simp only [BExp.eval, Option.map_eq_some_iff] at h ⊢
      obtain ⟨v, hv, hn⟩ := h
      cases v with
      | true => simp at hn
      | false => exact ⟨false, (iha L p s hs hL).2 hp hv, rfl⟩
    · intro hp h
      simp only [BExp.pF] at hp
      simp only [BExp.eval, Option.map_eq_some_iff] at h ⊢
      obtain ⟨v, hv, hn⟩ := h
      cases v with
      | false => simp at hn
      | true => exact ⟨true, (iha L p s hs hL).1 hp hv, rfl⟩
  | ite c t e ihc iht ihe =>
    intro L p s hs hL
    simp only [BExp.safe, Bool.and_eq_true] at hs
    constructor
    · intro hp h
      simp only [BExp.pT, Bool.and_eq_true] at hp
      simp only [BExp.eval] at h ⊢
      cases hc : c.eval p with
      | none => simp [hc] at h
      | some v =>
        cases v with
        | true =>
          simp only [hc] at h
          rw [(ihc L p s hs.1.1 hL).1 hp.1.1.1 hc]
          exact (iht _ p s hs.1.2 ((BExp.lb_sound c L p hL).1 hc)).1 hp.1.2 h
        | false =>
          simp only [hc] at h
          rw [(ihc L p s hs.1.1 hL).2 hp.1.1.2 hc]
          exact (ihe _ p s hs.2 ((BExp.lb_sound c L p hL).2 hc)).1 hp.2 h
    · intro hp h
      simp only [BExp.pF, Bool.and_eq_true] at hp
      simp only [BExp.eval] at h ⊢
      cases hc : c.eval p with
      | none => simp [hc] at h
      | some v =>
        cases v with
        | true =>
          simp only [hc] at h
          rw [(ihc L p s hs.1.1 hL).1 hp.1.1.1 hc]
          exact (iht _ p s hs.1.2 ((BExp.lb_sound c L p hL).1 hc)).2 hp.1.2 h
        | false =>
          simp only [hc] at h
          rw [(ihc L p s hs.1.1 hL).2 hp.1.1.2 hc]
          exact (ihe _ p s hs.2 ((BExp.lb_sound c L p hL).2 hc)).2 hp.2 h

end Mime
