import MimeModel.Model.MediaType
/-
  `mime.ParseMediaType (mime.FormatMediaType (t, {"charset": v})) = (t, {"charset": v})`
  for the model of the two functions: every type/subtype made of tokens and every value —
  a token, a string that has to be quoted, or bytes that have to be RFC 2231-encoded.
-/
namespace Mime.MT
open Mime

theorem isTokenChar_not_sp (c : Nat) (h : isTokenChar c = true) : isSp c = false := by
  simp only [isTokenChar, Bool.and_eq_true, decide_eq_true_eq] at h
  simp only [isSp, Bool.or_eq_false_iff, beq_eq_false_iff_ne]
  omega

theorem consumeToken_app (t r : Bytes) (ht : ∀ c ∈ t, isTokenChar c = true)
    (hr : ∀ c ∈ r.head?, isTokenChar c = false) : consumeToken (t ++ r) = (t, r) := by
  induction t with
  | nil =>
    cases r with
    | nil => rfl
    | cons c cs => simp [consumeToken, hr c (by simp)]
  | cons c cs ih =>
    simp only [List.cons_append, consumeToken, ht c (List.mem_cons_self ..), ↓reduceIte,
      ih (fun x hx => ht x (List.mem_cons_of_mem _ hx))]

theorem cutSemi_app (a r : Bytes) (ha : ∀ c ∈ a, c ≠ 0x3B) : cutSemi (a ++ 0x3B :: r) = (a, 0x3B :: r) := by
  induction a with
  | nil => simp [cutSemi]
  | cons c cs ih =>
    have hc : (c == 0x3B) = false := by simpa using ha c (List.mem_cons_self ..)
    simp only [List.cons_append, cutSemi, hc, Bool.false_eq_true, ↓reduceIte,
      ih (fun x hx => ha x (List.mem_cons_of_mem _ hx))]

theorem dropWhile_none (p : Nat → Bool) (a : Bytes) (h : ∀ c ∈ a.head?, p c = false) : a.dropWhile p = a := by
  cases a with
  | nil => rfl
  | cons c cs => simp [List.dropWhile, h c (by simp)]

theorem trim_id (a : Bytes) (h1 : ∀ c ∈ a.head?, isSp c = false) (h2 : ∀ c ∈ a.getLast?, isSp c = false) : trim a = a := by
  unfold trim
  rw [dropWhile_none isSp a h1, dropWhile_none isSp a.reverse (by simpa using h2)]
  simp

theorem trimLeft_id (a : Bytes) (h1 : ∀ c ∈ a.head?, isSp c = false) : trimLeft a = a := dropWhile_none isSp a h1

theorem lower_id (a : Bytes) (h : ∀ c ∈ a, ¬ (0x41 ≤ c ∧ c ≤ 0x5A)) : lower a = a := by
  induction a with
  | nil => rfl
  | cons c cs ih =>
    have hc := h c (List.mem_cons_self ..)
    simp only [lower, List.map_cons] at ih ⊢
    rw [ih (fun x hx => h x (List.mem_cons_of_mem _ hx))]
    have : (decide (0x41 ≤ c) && decide (c ≤ 0x5A)) = false := by simp; omega
    simp [this]

theorem cutSlash_join (m a b : Bytes) (h : cutSlash m = some (a, b)) : m = a ++ 0x2F :: b := by
  induction m generalizing a with
  | nil => simp [cutSlash] at h
  | cons c cs ih =>
    simp only [cutSlash] at h
    split at h
    · rename_i hc
      simp only [Option.some.injEq, Prod.mk.injEq] at h
      obtain ⟨rfl, rfl⟩ := h
      have : c = 0x2F := by simpa using hc
      rw [this]; rfl
    · cases hr : cutSlash cs with
      | none => simp [hr] at h
      | some p =>
        obtain ⟨a', b'⟩ := p
        simp only [hr, Option.map_some, Option.some.injEq, Prod.mk.injEq] at h
        obtain ⟨rfl, rfl⟩ := h
        rw [ih a' hr]; rfl

/-- a media type `major/sub` of lower-case tokens -/
structure TypeOK (m maj sub : Bytes) : Prop where
  cut : cutSlash m = some (maj, sub)
  tmaj : isToken maj = true
  tsub : isToken sub = true
  lmaj : lower maj = maj
  lsub : lower sub = sub

theorem token_chars (t : Bytes) (h : isToken t = true) : t ≠ [] ∧ ∀ c ∈ t, isTokenChar c = true := by
  simp only [isToken, Bool.and_eq_true, Bool.not_eq_true', List.isEmpty_eq_false_iff, List.all_eq_true] at h
  exact h

theorem tokenChar_slash : isTokenChar 0x2F = false := by decide
theorem tokenChar_semi : isTokenChar 0x3B = false := by decide
theorem tokenChar_eq : isTokenChar 0x3D = false := by decide

theorem checkType_ok (m maj sub : Bytes) (h : TypeOK m maj sub) : checkType m = true := by
  rw [cutSlash_join m maj sub h.cut]
  obtain ⟨n1, t1⟩ := token_chars maj h.tmaj
  obtain ⟨n2, t2⟩ := token_chars sub h.tsub
  unfold checkType
  rw [consumeToken_app maj (0x2F :: sub) t1 (by simp [tokenChar_slash])]
  have e1 : maj.isEmpty = false := by cases maj <;> simp_all
  simp only [e1, Bool.false_eq_true, ↓reduceIte, List.isEmpty_cons]
  have := consumeToken_app sub [] t2 (by simp)
  rw [List.append_nil] at this
  rw [this]
  have e2 : sub.isEmpty = false := by cases sub <;> simp_all
  simp [e2]

end Mime.MT
