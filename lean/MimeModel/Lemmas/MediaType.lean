import MimeModel.Model.MediaType
/-
  `mime.ParseMediaType (mime.FormatMediaType (t, {"charset": v})) = (t, {"charset": v})`
  for the model of the two functions: every type/subtype made of tokens and every value —
  a token, a string that has to be quoted, or bytes that have to be RFC 2231-encoded.
-/
namespace Mime.MT
open Mime

theorem isTokenChar_not_sp (c : Nat) (h : isTokenChar c = true) : isSp c = false := by
  simp only [isTokenChar, Bool.and_eq_true, decide_eq_true_eq] at h
  simp only [isSp, Bool.or_eq_false_iff, beq_eq_false_iff_ne]
  omega

theorem consumeToken_app (t r : Bytes) (ht : ∀ c ∈ t, isTokenChar c = true)
    (hr : ∀ c ∈ r.head?, isTokenChar c = false) : consumeToken (t ++ r) = (t, r) := by
  induction t with
  | nil =>
    cases r with
    | nil => rfl
    | cons c cs => simp [consumeToken, hr c (by simp)]
  | cons c cs ih =>
    simp only [List.cons_append, consumeToken, ht c (List.mem_cons_self ..), ↓reduceIte,
      ih (fun x hx => ht x (List.mem_cons_of_mem _ hx))]

theorem cutSemi_app (a r : Bytes) (ha : ∀ c ∈ a, c ≠ 0x3B) : cutSemi (a ++ 0x3B :: r) = (a, 0x3B :: r) := by
  induction a with
  | nil => simp [cutSemi]
  | cons c cs ih =>
    have hc : (c == 0x3B) = false := by simpa using ha c (List.mem_cons_self ..)
    simp only [List.cons_append, cutSemi, hc, Bool.false_eq_true, ↓reduceIte,
      ih (fun x hx => ha x (List.mem_cons_of_mem _ hx))]

theorem dropWhile_none (p : Nat → Bool) (a : Bytes) (h : ∀ c ∈ a.head?, p c = false) : a.dropWhile p = a := by
  cases a with
  | nil => rfl
  | cons c cs => simp [List.dropWhile, h c (by simp)]

theorem trim_id (a : Bytes) (h1 : ∀ c ∈ a.head?, isSp c = false) (h2 : ∀ c ∈ a.getLast?, isSp c = false) : trim a = a := by
  unfold trim
  rw [dropWhile_none isSp a h1, dropWhile_none isSp a.reverse (by simpa using h2)]
  simp

theorem trimLeft_id (a : Bytes) (h1 : ∀ c ∈ a.head?, isSp c = false) : trimLeft a = a := dropWhile_none isSp a h1

theorem lower_id (a : Bytes) (h : ∀ c ∈ a, ¬ (0x41 ≤ c ∧ c ≤ 0x5A)) : lower a = a := by
  induction a with
  | nil => rfl
  | cons c cs ih =>
    have hc := h c (List.mem_cons_self ..)
    simp only [lower, List.map_cons] at ih ⊢
    rw [ih (fun x hx => h x (List.mem_cons_of_mem _ hx))]
    have : (decide (0x41 ≤ c) && decide (c ≤ 0x5A)) = false := by simp; omega
    simp [this]

theorem cutSlash_join (m a b : Bytes) (h : cutSlash m = some (a, b)) : m = a ++ 0x2F :: b := by
  induction m generalizing a with
  | nil => simp [cutSlash] at h
  | cons c cs ih =>
    simp only [cutSlash] at h
    split at h
    · rename_i hc
      simp only [Option.some.injEq, Prod.mk.injEq] at h
      obtain ⟨rfl, rfl⟩ := h
      have : c = 0x2F := by simpa using hc
      rw [this]; rfl
    · cases hr : cutSlash cs with
      | none => simp [hr] at h
      | some p =>
        obtain ⟨a', b'⟩ := p
        simp only [hr, Option.map_some, Option.some.injEq, Prod.mk.injEq] at h
        obtain ⟨rfl, rfl⟩ := h
        rw [ih a' hr]; rfl

/-- a media type `major/sub` of lower-case tokens -/
structure TypeOK (m maj sub : Bytes) : Prop where
  cut : cutSlash m = some (maj, sub)
  tmaj : isToken maj = true
  tsub : isToken sub = true
  lmaj : lower maj = maj
  lsub : lower sub = sub

theorem token_chars (t : Bytes) (h : isToken t = true) : t ≠ [] ∧ ∀ c ∈ t, isTokenChar c = true := by
  simp only [isToken, Bool.and_eq_true, Bool.not_eq_true', List.isEmpty_eq_false_iff, List.all_eq_true] at h
  exact h

theorem tokenChar_slash : isTokenChar 0x2F = false := by decide
theorem tokenChar_semi : isTokenChar 0x3B = false := by decide
theorem tokenChar_eq : isTokenChar 0x3D = false := by decide

theorem checkType_ok (m maj sub : Bytes) (h : TypeOK m maj sub) : checkType m = true := by
  rw [cutSlash_join m maj sub h.cut]
  obtain ⟨n1, t1⟩ := token_chars maj h.tmaj
  obtain ⟨n2, t2⟩ := token_chars sub h.tsub
  unfold checkType
  rw [consumeToken_app maj (0x2F :: sub) t1 (by simp [tokenChar_slash])]
  have e1 : maj.isEmpty = false := by cases maj <;> simp_all
  simp only [e1, Bool.false_eq_true, ↓reduceIte, List.isEmpty_cons]
  have := consumeToken_app sub [] t2 (by simp)
  rw [List.append_nil] at this
  rw [this]
  have e2 : sub.isEmpty = false := by cases sub <;> simp_all
  simp [e2]

/-! ### the three spellings of a value -/

theorem quoteChar_tail (c : Nat) : quoteChar c = [c] ∨ (quoteChar c = [0x5C, c] ∧ (c = 0x22 ∨ c = 0x5C)) := by
  unfold quoteChar
  split
  · rename_i h
    right
    refine ⟨rfl, ?_⟩
    simpa using h
  · left; rfl

/-- a value that needs no RFC 2231 encoding consists of printable ASCII and tabs -/
theorem plain_chars (v : Bytes) (h : needsEncoding v = false) : ∀ c ∈ v, (0x20 ≤ c ∧ c ≤ 0x7E) ∨ c = 0x09 := by
  intro c hc
  simp only [needsEncoding, List.any_eq_false, Bool.and_eq_true, Bool.or_eq_true, decide_eq_true_eq, bne_iff_ne, ne_eq, not_and,
    Decidable.not_not] at h
  have := h c hc
  by_cases h9 : c = 0x09
  · exact Or.inr h9
  · left
    by_cases hlo : c < 0x20
    · exact absurd (this (Or.inl hlo)) h9
    · by_cases hhi : c > 0x7E
      · exact absurd (this (Or.inr hhi)) h9
      · omega

theorem unquote_close (rest acc : Bytes) : unquote (0x22 :: rest) acc = some (acc.reverse, rest) := by
  rw [unquote.eq_def]; simp

theorem unquote_plain (c : Nat) (x acc : Bytes) (h1 : c ≠ 0x22) (h2 : c ≠ 0x5C) (h3 : c ≠ 0x0D) (h4 : c ≠ 0x0A) :
    unquote (c :: x) acc = unquote x (c :: acc) := by
  have e1 : (c == 0x22) = false := by simpa using h1
  have e2 : (c == 0x5C) = false := by simpa using h2
  have e3 : (c == 0x0D || c == 0x0A) = false := by simp [h3, h4]
  rw [unquote.eq_def]
  simp [e1, e2, e3]

theorem unquote_esc (d : Nat) (x acc : Bytes) (h : isTSpecial d = true) :
    unquote (0x5C :: d :: x) acc = unquote x (d :: acc) := by
  rw [unquote.eq_def]
  simp [h]

/-- `unquote` undoes `quoteBody` -/
theorem unquote_quoteBody (v : Bytes) (hv : ∀ c ∈ v, (0x20 ≤ c ∧ c ≤ 0x7E) ∨ c = 0x09) (rest : Bytes) :
    ∀ acc : Bytes, unquote (quoteBody v ++ 0x22 :: rest) acc = some (acc.reverse ++ v, rest) := by
  induction v with
  | nil => intro acc; simp [quoteBody, unquote_close]
  | cons c cs ih =>
    intro acc
    have hc := hv c (List.mem_cons_self ..)
    have ih' := ih (fun x hx => hv x (List.mem_cons_of_mem _ hx))
    have hb : quoteBody (c :: cs) = quoteChar c ++ quoteBody cs := by simp [quoteBody]
    rw [hb]
    by_cases hq : c = 0x22 ∨ c = 0x5C
    · have e : quoteChar c = [0x5C, c] := by
        unfold quoteChar
        rcases hq with rfl | rfl <;> rfl
      have hts : isTSpecial c = true := by rcases hq with rfl | rfl <;> decide
      rw [e]
      simp only [List.cons_append, List.nil_append]
      rw [unquote_esc c _ _ hts, ih' (c :: acc)]
      simp
    · have e : quoteChar c = [c] := by
        unfold quoteChar
        have : (c == 0x22 || c == 0x5C) = false := by
          simp only [Bool.or_eq_false_iff, beq_eq_false_iff_ne]
          exact ⟨fun h => hq (Or.inl h), fun h => hq (Or.inr h)⟩
        simp [this]
      rw [e]
      simp only [List.cons_append, List.nil_append]
      rw [unquote_plain c _ _ (fun h => hq (Or.inl h)) (fun h => hq (Or.inr h)) (by omega) (by omega), ih' (c :: acc)]
      simp

theorem upperHex_unhex (n : Nat) (h : n < 16) : unhex1 (upperHex n) = some n := by
  unfold upperHex unhex1
  split
  · have : (decide (0x30 ≤ 48 + n) && decide (48 + n ≤ 0x39)) = true := by simp; omega
    simp only [this, ↓reduceIte]
    congr 1; omega
  · have a : (decide (0x30 ≤ 55 + n) && decide (55 + n ≤ 0x39)) = false := by simp; omega
    have b : (decide (0x61 ≤ 55 + n) && decide (55 + n ≤ 0x66)) = false := by simp; omega
    have c : (decide (0x41 ≤ 55 + n) && decide (55 + n ≤ 0x46)) = true := by simp; omega
    simp only [a, b, c, Bool.false_eq_true, ↓reduceIte]
    congr 1; omega

theorem pctDecode_esc (a b x y : Nat) (r t : Bytes) (ha : unhex1 a = some x) (hb : unhex1 b = some y) (hr : pctDecode r = some t) :
    pctDecode (0x25 :: a :: b :: r) = some ((x * 16 + y) :: t) := by
  rw [pctDecode.eq_def]
  simp [ha, hb, hr]

theorem pctDecode_plain (c : Nat) (r : Bytes) (h : c ≠ 0x25) : pctDecode (c :: r) = (pctDecode r).map (c :: ·) := by
  rw [pctDecode.eq_def]
  split
  · rename_i e; cases e
  · rename_i e; simp only [List.cons.injEq] at e; exact absurd e.1 h
  · rename_i e; simp only [List.cons.injEq] at e; exact absurd e.1 h
  · rename_i e; simp only [List.cons.injEq] at e; rw [e.1, e.2]

/-- `percentHexUnescape` undoes the RFC 2231 percent-encoding -/
theorem pctDecode_pctEncode (v : Bytes) (hv : AllBytes v) : pctDecode (pctEncode v) = some v := by
  induction v with
  | nil => rfl
  | cons c cs ih =>
    have hc : c < 256 := hv c (List.mem_cons_self ..)
    have ih' := ih (fun x hx => hv x (List.mem_cons_of_mem _ hx))
    have hb : pctEncode (c :: cs) = pctEncodeChar c ++ pctEncode cs := by simp [pctEncode]
    rw [hb]
    by_cases hcond : (decide (c ≤ 0x20) || decide (c ≥ 0x7F) || c == 0x2A || c == 0x27 || c == 0x25 || isTSpecial c) = true
    · have e : pctEncodeChar c = [0x25, upperHex (c / 16), upperHex (c % 16)] := by
        unfold pctEncodeChar; rw [if_pos hcond]
      rw [e]
      simp only [List.cons_append, List.nil_append]
      rw [pctDecode_esc _ _ _ _ _ _ (upperHex_unhex (c / 16) (by omega)) (upperHex_unhex (c % 16) (by omega)) ih']
      simp only [Option.some.injEq, List.cons.injEq, and_true]
      omega
    · have e : pctEncodeChar c = [c] := by
        unfold pctEncodeChar; rw [if_neg hcond]
      have hne : c ≠ 0x25 := by
        intro h; subst h; exact hcond (by decide)
      rw [e]
      simp only [List.cons_append, List.nil_append]
      rw [pctDecode_plain c _ hne, ih']
      rfl

theorem upperHex_token (n : Nat) (h : n < 16) : isTokenChar (upperHex n) = true := by
  have : n = 0 ∨ n = 1 ∨ n = 2 ∨ n = 3 ∨ n = 4 ∨ n = 5 ∨ n = 6 ∨ n = 7 ∨ n = 8 ∨ n = 9 ∨ n = 10 ∨ n = 11 ∨ n = 12 ∨
      n = 13 ∨ n = 14 ∨ n = 15 := by omega
  rcases this with rfl | rfl | rfl | rfl | rfl | rfl | rfl | rfl | rfl | rfl | rfl | rfl | rfl | rfl | rfl | rfl <;> decide

theorem pctEncode_token (v : Bytes) (hv : AllBytes v) : ∀ c ∈ pctEncode v, isTokenChar c = true := by
  induction v with
  | nil => simp [pctEncode]
  | cons x xs ih =>
    have hx : x < 256 := hv x (List.mem_cons_self ..)
    have ih' := ih (fun y hy => hv y (List.mem_cons_of_mem _ hy))
    have hb : pctEncode (x :: xs) = pctEncodeChar x ++ pctEncode xs := by simp [pctEncode]
    rw [hb]
    intro c hc
    rcases List.mem_append.mp hc with hc | hc
    · by_cases hcond : (decide (x ≤ 0x20) || decide (x ≥ 0x7F) || x == 0x2A || x == 0x27 || x == 0x25 || isTSpecial x) = true
      · have e : pctEncodeChar x = [0x25, upperHex (x / 16), upperHex (x % 16)] := by
          unfold pctEncodeChar; rw [if_pos hcond]
        rw [e] at hc
        simp only [List.mem_cons, List.mem_nil_iff, or_false] at hc
        rcases hc with rfl | rfl | rfl
        · decide
        · exact upperHex_token _ (by omega)
        · exact upperHex_token _ (by omega)
      · have e : pctEncodeChar x = [x] := by
          unfold pctEncodeChar; rw [if_neg hcond]
        rw [e] at hc
        simp only [List.mem_cons, List.mem_nil_iff, or_false] at hc
        subst hc
        simp only [Bool.or_eq_true, decide_eq_true_eq, beq_iff_eq, not_or] at hcond
        simp only [isTokenChar, Bool.and_eq_true, decide_eq_true_eq, Bool.not_eq_true']
        refine ⟨⟨by omega, by omega⟩, ?_⟩
        simpa using hcond.2
    · exact ih' c hc

/-! ### the round trip -/

theorem kCharset_token : ∀ c ∈ kCharset, isTokenChar c = true := by decide
theorem kCharsetStar_token : ∀ c ∈ kCharset ++ [0x2A], isTokenChar c = true := by decide
theorem utf8pp_token : ∀ c ∈ utf8pp, isTokenChar c = true := by decide

theorem parseParams_nil (fuel : Nat) (acc : List (Bytes × Bytes)) : parseParams fuel [] acc = (.none, acc.reverse) := by
  cases fuel with
  | zero => rfl
  | succ f => simp [parseParams, trimLeft]

theorem format1_eq (m maj sub cs : Bytes) (hm : TypeOK m maj sub) :
    format1 m kCharset cs = m ++ 0x3B :: 0x20 :: (kCharset ++ formatValue cs) := by
  unfold format1
  simp only [hm.cut, hm.tmaj, hm.tsub, Bool.and_self, ↓reduceIte, hm.lmaj, hm.lsub]
  have : isToken kCharset = true := by decide
  have hl : lower kCharset = kCharset := by decide
  simp only [this, Bool.not_true, Bool.false_eq_true, ↓reduceIte, hl]
  rw [cutSlash_join m maj sub hm.cut]
  simp

/-- the parameter as `consumeMediaParam` reads it back, for the three spellings -/
theorem consumeParam_value (cs : Bytes) (hne : cs ≠ []) (hb : AllBytes cs) :
    ∃ k val, consumeParam (0x3B :: 0x20 :: (kCharset ++ formatValue cs)) = some (k, val, []) ∧
      ((k = kCharset ∧ val = cs) ∨ (k = kCharset ++ [0x2A] ∧ val = utf8pp ++ pctEncode cs)) := by
  unfold consumeParam
  have t1 : trimLeft (0x3B :: 0x20 :: (kCharset ++ formatValue cs)) = 0x3B :: 0x20 :: (kCharset ++ formatValue cs) := by
    simp [trimLeft, List.dropWhile, isSp]
  rw [t1]
  simp only
  have t2 : trimLeft (0x20 :: (kCharset ++ formatValue cs)) = kCharset ++ formatValue cs := by
    simp [trimLeft, List.dropWhile, isSp, kCharset]
  rw [t2]
  unfold formatValue
  by_cases hE : needsEncoding cs = true
  · -- RFC 2231
    simp only [hE, ↓reduceIte]
    have e : kCharset ++ ([0x2A, 0x3D] ++ utf8pp ++ pctEncode cs) = (kCharset ++ [0x2A]) ++ 0x3D :: (utf8pp ++ pctEncode cs) := by simp
    rw [e, consumeToken_app _ _ kCharsetStar_token (by simp [tokenChar_eq])]
    have ne : (kCharset ++ [0x2A]).isEmpty = false := by decide
    simp only [ne, Bool.false_eq_true, ↓reduceIte]
    have t3 : trimLeft (0x3D :: (utf8pp ++ pctEncode cs)) = 0x3D :: (utf8pp ++ pctEncode cs) := by simp [trimLeft, List.dropWhile, isSp]
    rw [t3]
    simp only
    have t4 : trimLeft (utf8pp ++ pctEncode cs) = utf8pp ++ pctEncode cs := by simp [trimLeft, List.dropWhile, isSp, utf8pp]
    rw [t4]
    have hv : consumeValue (utf8pp ++ pctEncode cs) = some (utf8pp ++ pctEncode cs, []) := by
      have htok : ∀ c ∈ utf8pp ++ pctEncode cs, isTokenChar c = true := by
        intro c hc
        rcases List.mem_append.mp hc with h | h
        · exact utf8pp_token c h
        · exact pctEncode_token cs hb c h
      have := consumeToken_app (utf8pp ++ pctEncode cs) [] htok (by simp)
      rw [List.append_nil] at this
      simp only [utf8pp, List.cons_append] at this ⊢
      simp only [consumeValue]
      rw [this]
      simp
    rw [hv]
    exact ⟨_, _, rfl, Or.inr ⟨by decide, rfl⟩⟩
  · have hE' : needsEncoding cs = false := by simpa using hE
    simp only [hE', Bool.false_eq_true, ↓reduceIte]
    by_cases hT : isToken cs = true
    · -- token
      simp only [hT, ↓reduceIte]
      rw [consumeToken_app kCharset (0x3D :: cs) kCharset_token (by simp [tokenChar_eq])]
      have ne : kCharset.isEmpty = false := by decide
      simp only [ne, Bool.false_eq_true, ↓reduceIte]
      have t3 : trimLeft (0x3D :: cs) = 0x3D :: cs := by simp [trimLeft, List.dropWhile, isSp]
      rw [t3]
      simp only
      obtain ⟨_, htc⟩ := token_chars cs hT
      cases cs with
      | nil => exact absurd rfl hne
      | cons c rest =>
        have hc := htc c (List.mem_cons_self ..)
        have t4 : trimLeft (c :: rest) = c :: rest := trimLeft_id _ (by simp [isTokenChar_not_sp c hc])
        rw [t4]
        have hq : c ≠ 0x22 := by intro e; subst e; exact absurd hc (by decide)
        have := consumeToken_app (c :: rest) [] htc (by simp)
        rw [List.append_nil] at this
        have hv : consumeValue (c :: rest) = some (c :: rest, []) := by
          unfold consumeValue
          split
          · rename_i e; cases e
          · rename_i r e; simp only [List.cons.injEq] at e; exact absurd e.1 hq
          · rw [this]; simp
        rw [hv]
        exact ⟨_, _, rfl, Or.inl ⟨by decide, rfl⟩⟩
    · -- quoted string
      have hT' : isToken cs = false := by simpa using hT
      simp only [hT', Bool.false_eq_true, ↓reduceIte]
      have e : kCharset ++ ([0x3D, 0x22] ++ quoteBody cs ++ [0x22]) = kCharset ++ 0x3D :: (0x22 :: (quoteBody cs ++ [0x22])) := by simp
      rw [e, consumeToken_app kCharset _ kCharset_token (by simp [tokenChar_eq])]
      have ne : kCharset.isEmpty = false := by decide
      simp only [ne, Bool.false_eq_true, ↓reduceIte]
      have t3 : trimLeft (0x3D :: 0x22 :: (quoteBody cs ++ [0x22])) = 0x3D :: 0x22 :: (quoteBody cs ++ [0x22]) := by
        simp [trimLeft, List.dropWhile, isSp]
      rw [t3]
      simp only
      have t4 : trimLeft (0x22 :: (quoteBody cs ++ [0x22])) = 0x22 :: (quoteBody cs ++ [0x22]) := by simp [trimLeft, List.dropWhile, isSp]
      rw [t4]
      have hv : consumeValue (0x22 :: (quoteBody cs ++ [0x22])) = some (cs, []) := by
        simp only [consumeValue]
        have := unquote_quoteBody cs (plain_chars cs hE') [] []
        simpa using this
      rw [hv]
      exact ⟨_, _, rfl, Or.inl ⟨by decide, rfl⟩⟩

theorem decode2231_utf8 (cs : Bytes) (hb : AllBytes cs) : decode2231 (utf8pp ++ pctEncode cs) = some cs := by
  unfold decode2231
  have s1 : splitQuote (utf8pp ++ pctEncode cs) = some ([117, 116, 102, 45, 56], 0x27 :: pctEncode cs) := by
    simp [utf8pp, splitQuote]
  rw [s1]
  simp only
  have s2 : splitQuote (0x27 :: pctEncode cs) = some ([], pctEncode cs) := by simp [splitQuote]
  rw [s2]
  simp only
  have l : lower [117, 116, 102, 45, 56] = [117, 116, 102, 45, 56] := by decide
  rw [l]
  simp [pctDecode_pctEncode cs hb]

/-- **round trip**: the model of `mime.ParseMediaType` reads back exactly what the model of
    `mime.FormatMediaType` wrote: the type and the single parameter `charset`, for every
    non-empty value (token, quoted string or RFC 2231 encoded) -/
theorem format_parse_roundtrip (m maj sub cs : Bytes) (hm : TypeOK m maj sub) (hne : cs ≠ []) (hb : AllBytes cs) :
    parse (format1 m kCharset cs) = (m, [(kCharset, cs)], .none) := by
  obtain ⟨n1, t1⟩ := token_chars maj hm.tmaj
  obtain ⟨n2, t2⟩ := token_chars sub hm.tsub
  have hmj := cutSlash_join m maj sub hm.cut
  have hsemi : ∀ c ∈ m, c ≠ 0x3B := by
    intro c hc e
    subst e
    rw [hmj] at hc
    rcases List.mem_append.mp hc with h | h
    · exact absurd (t1 _ h) (by decide)
    · rcases List.mem_cons.mp h with h | h
      · cases h
      · exact absurd (t2 _ h) (by decide)
  have hlow : lower m = m := by
    rw [hmj]
    simp only [lower, List.map_append, List.map_cons] at *
    have a := hm.lmaj
    have b := hm.lsub
    simp only [lower] at a b
    rw [a, b]
    simp
  have htrim : trim m = m := by
    apply trim_id
    · intro c hc
      rw [hmj] at hc
      cases maj with
      | nil => exact absurd rfl n1
      | cons x xs =>
        simp at hc; subst hc
        exact isTokenChar_not_sp _ (t1 _ (List.mem_cons_self ..))
    · intro c hc
      rw [hmj] at hc
      have hs : sub.getLast? = some c := by
        cases sub with
        | nil => exact absurd rfl n2
        | cons y ys => simpa [List.getLast?_append, List.getLast?_cons_cons] using hc
      exact isTokenChar_not_sp _ (t2 _ (List.mem_of_getLast? hs))
  rw [format1_eq m maj sub cs hm]
  unfold parse
  rw [cutSemi_app m _ hsemi]
  simp only [hlow, htrim, checkType_ok m maj sub hm, Bool.not_true, Bool.false_eq_true, ↓reduceIte]
  obtain ⟨k, val, hcp, hkv⟩ := consumeParam_value cs hne hb
  -- the parameter loop
  have hloop : parseParams ((m ++ 0x3B :: 0x20 :: (kCharset ++ formatValue cs)).length + 1)
      (0x3B :: 0x20 :: (kCharset ++ formatValue cs)) [] = (.none, [(k, val)]) := by
    rw [parseParams]
    have t1 : trimLeft (0x3B :: 0x20 :: (kCharset ++ formatValue cs)) = 0x3B :: 0x20 :: (kCharset ++ formatValue cs) := by
      simp [trimLeft, List.dropWhile, isSp]
    simp only [t1, List.isEmpty_cons, Bool.false_eq_true, ↓reduceIte, hcp, List.any_nil, parseParams_nil]
    rfl
  rw [hloop]
  simp only
  rcases hkv with ⟨rfl, rfl⟩ | ⟨rfl, rfl⟩
  · have : ¬ (0x2A ∈ kCharset) := by decide
    simp [this]
  · have c1 : 0x2A ∈ kCharset ++ [0x2A] := by decide
    have c2 : (kCharset ++ [0x2A]).getLast? = some 0x2A := by decide
    have c3 : (kCharset ++ [0x2A]).dropLast = kCharset := by decide
    have c4 : ¬ (0x2A ∈ kCharset) := by decide
    simp only [List.filterMap_cons, List.filterMap_nil, List.contains_eq_mem, c1, decide_true, ↓reduceIte, c2, c3, c4,
      decide_false, Bool.not_false, Bool.and_self, beq_self_eq_true, decode2231_utf8 cs hb]

end Mime.MT
