import MimeModel.Model.XmlTok
import MimeModel.Model.MediaType
import MimeModel.Props.C12
/-
  Theorems about the model of the first raw token of `encoding/xml` (`Model/XmlTok.lean`)
  and the byte-level C12 XML clause: a declared encoding is reported.
-/
namespace Mime.XmlTokLemmas
open Mime Mime.Charset Mime.XmlTok

/-! ### small list facts -/

theorem dropWhile_all {p : Nat → Bool} (ws r : Bytes) (h : ∀ c ∈ ws, p c = true) :
    (ws ++ r).dropWhile p = r.dropWhile p := by
  induction ws with
  | nil => rfl
  | cons c cs ih =>
    have hc := h c (List.mem_cons_self ..)
    simp only [List.cons_append, List.dropWhile, hc]
    exact ih (fun y hy => h y (List.mem_cons_of_mem _ hy))

theorem dropWhile_append_stop {p : Nat → Bool} (s : Bytes) (x : Nat) (r : Bytes) (hx : p x = false) :
    (s ++ x :: r).dropWhile p = s.dropWhile p ++ x :: r := by
  induction s with
  | nil => simp [List.dropWhile, hx]
  | cons c cs ih =>
    simp only [List.cons_append, List.dropWhile]
    cases p c <;> simp [ih]

theorem dropWhile_suffix (p : Nat → Bool) (s : Bytes) : s.dropWhile p <:+ s := by
  induction s with
  | nil => exact List.suffix_refl _
  | cons c cs ih =>
    simp only [List.dropWhile]
    cases p c
    · exact List.suffix_refl _
    · exact List.IsSuffix.trans ih (List.suffix_cons c cs)

theorem trimLWS_lead (lead : Bytes) (x : Nat) (r : Bytes) (hl : ∀ c ∈ lead, isWS c = true)
    (hx : isWS x = false) : trimLWS (lead ++ x :: r) = x :: r := by
  induction lead with
  | nil => simp [trimLWS, hx]
  | cons c cs ih =>
    have hc := hl c (List.mem_cons_self ..)
    simp only [List.cons_append, trimLWS, hc, ↓reduceIte]
    exact ih (fun y hy => hl y (List.mem_cons_of_mem _ hy))

/-! ### the copy loop: `Inst` ends at the first `?>` -/

theorem untilPIEnd_first (inst rest : Bytes) (h : ¬ piEnd <:+: inst) :
    untilPIEnd (inst ++ piEnd ++ rest) = some inst := by
  induction inst with
  | nil => simp [untilPIEnd, piEnd, hasPrefix, List.isPrefixOf]
  | cons a t ih =>
    have ht : ¬ piEnd <:+: t := fun hi => h (List.IsInfix.trans hi (List.suffix_cons a t).isInfix)
    have hp : hasPrefix (a :: (t ++ piEnd ++ rest)) piEnd = false := by
      cases t with
      | nil =>
        simp only [piEnd, hasPrefix, List.nil_append, List.cons_append, List.isPrefixOf]
        simp
      | cons b t' =>
        simp only [piEnd, hasPrefix, List.cons_append, List.isPrefixOf, Bool.and_true]
        apply Bool.eq_false_iff.mpr
        intro hab
        simp only [Bool.and_eq_true, beq_iff_eq] at hab
        apply h
        refine ⟨[], t', ?_⟩
        simp [piEnd, hab.1, hab.2]
    simp only [List.cons_append, untilPIEnd, hp, Bool.false_eq_true, ↓reduceIte]
    have := ih ht
    simp only [List.append_assoc] at this ⊢
    rw [this]

theorem no_infix_of_no_q (x : Bytes) (h : ∀ c ∈ x, c ≠ 0x3F) : ¬ piEnd <:+: x := by
  rintro ⟨s, t, e⟩
  apply h 0x3F _ rfl
  rw [← e]
  simp [piEnd]

/-! ### the target `xml` followed by white space -/

theorem nameStop_of_space {c : Nat} (h : isXmlSpace c = true) : nameStop c = true := by
  simp only [isXmlSpace, Bool.or_eq_true, beq_iff_eq] at h
  rcases h with ((rfl | rfl) | rfl) | rfl <;> decide

theorem isXmlSpace_ne_q {c : Nat} (h : isXmlSpace c = true) : c ≠ 0x3F := by
  rintro rfl; exact absurd h (by decide)

theorem readName_xml (ws : Nat) (r : Bytes) (h : isXmlSpace ws = true) :
    readName (tXml ++ ws :: r) = some (tXml, ws :: r) := by
  have hs := nameStop_of_space h
  have e1 : nameStop 0x78 = false := by decide
  have e2 : nameStop 0x6D = false := by decide
  have e3 : nameStop 0x6C = false := by decide
  simp only [tXml, List.cons_append, List.nil_append, readName, e1, e2, e3, hs,
    Bool.false_eq_true, ↓reduceIte]

theorem isName_xml : isName tXml = true := by decide

/-- the `?` branch for the target `xml` followed by at least one white space byte -/
theorem piToken_xml (ws : Nat) (inst rest : Bytes) (hws : isXmlSpace ws = true)
    (hno : ¬ piEnd <:+: inst) (hver : versionOk (inst.dropWhile isXmlSpace) = true) :
    piToken (tXml ++ ws :: (inst ++ piEnd ++ rest)) = some (tXml, inst.dropWhile isXmlSpace) := by
  have hd : (ws :: (inst ++ piEnd ++ rest)).dropWhile isXmlSpace
      = inst.dropWhile isXmlSpace ++ piEnd ++ rest := by
    simp only [List.dropWhile, hws]
    have : inst ++ piEnd ++ rest = inst ++ 0x3F :: (0x3E :: rest) := by simp [piEnd]
    rw [this, dropWhile_append_stop inst 0x3F _ (by decide)]
    simp [piEnd]
  have hno' : ¬ piEnd <:+: inst.dropWhile isXmlSpace :=
    fun hi => hno (List.IsInfix.trans hi (dropWhile_suffix _ inst).isInfix)
  unfold piToken
  simp only [readName_xml ws _ hws, isName_xml, Bool.not_true, Bool.false_eq_true, ↓reduceIte, hd,
    untilPIEnd_first _ rest hno', hver, beq_self_eq_true, Bool.and_false]

def ltQ : Bytes := [0x3C, 0x3F]                       -- "<?"
def prologStart : Bytes := [0x3C, 0x3F, 0x78, 0x6D, 0x6C]   -- "<?xml"

/-- **prolog_inst**: `<?xml` + one XML white space byte + `inst` + `?>` + anything, where `inst`
    contains no `?>` and the version that `procInst("version", ·)` reads from the instruction is
    absent ("") or "1.0": the first raw token is a ProcInst whose `Inst` is `inst` WITHOUT ITS
    LEADING XML WHITE SPACE (`d.space()` skips all of it, not only the separator byte) -/
theorem prolog_inst (ws : Nat) (inst rest : Bytes) (hws : isXmlSpace ws = true)
    (hno : ¬ piEnd <:+: inst)
    (hver : procInst kwVersionEq (inst.dropWhile isXmlSpace) = [] ∨
            procInst kwVersionEq (inst.dropWhile isXmlSpace) = v10) :
    firstProcInst (prologStart ++ [ws] ++ inst ++ piEnd ++ rest) = some (inst.dropWhile isXmlSpace) := by
  have hv : versionOk (inst.dropWhile isXmlSpace) = true := by
    unfold versionOk
    rcases hver with h | h <;> simp [h]
  have e : prologStart ++ [ws] ++ inst ++ piEnd ++ rest
      = 0x3C :: 0x3F :: (tXml ++ ws :: (inst ++ piEnd ++ rest)) := by
    simp [prologStart, tXml]
  rw [e]
  unfold firstProcInst firstPI
  simp only [beq_self_eq_true, Bool.and_self, ↓reduceIte, piToken_xml ws inst rest hws hno hv]

/-- the same token, with its target -/
theorem prolog_token (ws : Nat) (inst rest : Bytes) (hws : isXmlSpace ws = true)
    (hno : ¬ piEnd <:+: inst) (hver : versionOk (inst.dropWhile isXmlSpace) = true) :
    firstPI (prologStart ++ [ws] ++ inst ++ piEnd ++ rest) = some (tXml, inst.dropWhile isXmlSpace) := by
  have e : prologStart ++ [ws] ++ inst ++ piEnd ++ rest
      = 0x3C :: 0x3F :: (tXml ++ ws :: (inst ++ piEnd ++ rest)) := by
    simp [prologStart, tXml]
  rw [e]
  unfold firstPI
  simp only [beq_self_eq_true, Bool.and_self, ↓reduceIte, piToken_xml ws inst rest hws hno hver]

/-- an unsupported version is an error, hence no ProcInst (and no declared charset) -/
theorem prolog_bad_version (ws : Nat) (inst rest : Bytes) (hws : isXmlSpace ws = true)
    (hno : ¬ piEnd <:+: inst) (hver : versionOk (inst.dropWhile isXmlSpace) = false) :
    firstProcInst (prologStart ++ [ws] ++ inst ++ piEnd ++ rest) = none := by
  have hd : (ws :: (inst ++ piEnd ++ rest)).dropWhile isXmlSpace
      = inst.dropWhile isXmlSpace ++ piEnd ++ rest := by
    simp only [List.dropWhile, hws]
    have : inst ++ piEnd ++ rest = inst ++ 0x3F :: (0x3E :: rest) := by simp [piEnd]
    rw [this, dropWhile_append_stop inst 0x3F _ (by decide)]
    simp [piEnd]
  have hno' : ¬ piEnd <:+: inst.dropWhile isXmlSpace :=
    fun hi => hno (List.IsInfix.trans hi (dropWhile_suffix _ inst).isInfix)
  have e : prologStart ++ [ws] ++ inst ++ piEnd ++ rest
      = 0x3C :: 0x3F :: (tXml ++ ws :: (inst ++ piEnd ++ rest)) := by
    simp [prologStart, tXml]
  rw [e]
  unfold firstProcInst firstPI piToken
  simp only [beq_self_eq_true, Bool.and_self, ↓reduceIte, readName_xml ws _ hws, isName_xml,
    Bool.not_true, Bool.false_eq_true, hd, untilPIEnd_first _ rest hno', hver, Bool.not_false]


/-! ### `procInst` / `indexOf` on the standard declaration -/

theorem indexOf_cons_ne (sep : Bytes) (a : Nat) (as : Bytes) (h : sep.isPrefixOf (a :: as) = false) :
    indexOf sep (a :: as) = (indexOf sep as).map (· + 1) := by
  simp only [indexOf, h, Bool.false_eq_true, ↓reduceIte]
  cases indexOf sep as <;> rfl

/-- bytes different from the first byte of `sep` are skipped by `bytes.Index` -/
theorem indexOf_skip (h0 : Nat) (sepT pre s : Bytes) (hpre : ∀ c ∈ pre, c ≠ h0) :
    indexOf (h0 :: sepT) (pre ++ s) = (indexOf (h0 :: sepT) s).map (· + pre.length) := by
  induction pre with
  | nil => cases h : indexOf (h0 :: sepT) s <;> simp [h]
  | cons c cs ih =>
    have hc : (h0 == c) = false := by
      have := hpre c (List.mem_cons_self ..)
      simpa using fun e => this e.symm
    rw [List.cons_append, indexOf_cons_ne _ _ _ (by simp [List.isPrefixOf, hc]),
      ih (fun y hy => hpre y (List.mem_cons_of_mem _ hy))]
    cases indexOf (h0 :: sepT) s <;> simp [Nat.add_assoc]

theorem indexOf_self_append (sep x : Bytes) (hne : sep ≠ []) : indexOf sep (sep ++ x) = some 0 := by
  cases sep with
  | nil => exact absurd rfl hne
  | cons a as =>
    have : (a :: as).isPrefixOf (a :: as ++ x) = true :=
      List.isPrefixOf_iff_prefix.mpr (List.prefix_append _ _)
    simp only [List.cons_append] at this ⊢
    simp only [indexOf, this, ↓reduceIte]

/-- the instruction of the standard declaration:
    `version=` q `1.0` q S `encoding=` q L q tail -/
def declInst (q : Nat) (S L tail : Bytes) : Bytes :=
  kwVersionEq ++ q :: (v10 ++ q :: (S ++ (kwEncodingEq ++ q :: (L ++ q :: tail))))

theorem declInst_version (q : Nat) (S L tail : Bytes) (hq : q = 0x22 ∨ q = 0x27) :
    procInst kwVersionEq (declInst q S L tail) = v10 := by
  unfold procInst
  rw [procInstF]
  have h0 : indexOf kwVersionEq (declInst q S L tail) = some 0 :=
    indexOf_self_append _ _ (by decide)
  rw [h0]
  rcases hq with rfl | rfl <;>
    simp [declInst, kwVersionEq, v10, indexByte]

theorem declInst_encoding_at (q : Nat) (S L tail : Bytes) (hq : q = 0x22 ∨ q = 0x27)
    (hS : ∀ c ∈ S, isXmlSpace c = true) :
    indexOf kwEncodingEq (declInst q S L tail) = some (13 + S.length) := by
  have hSe : ∀ c ∈ S, c ≠ 101 := by
    intro c hc e; subst e; exact absurd (hS _ hc) (by decide)
  have hin : indexOf kwEncodingEq (S ++ (kwEncodingEq ++ q :: (L ++ q :: tail))) = some S.length := by
    have := indexOf_skip 101 [110, 99, 111, 100, 105, 110, 103, 61] S
      (kwEncodingEq ++ q :: (L ++ q :: tail)) hSe
    have e : (101 :: [110, 99, 111, 100, 105, 110, 103, 61] : Bytes) = kwEncodingEq := rfl
    rw [e] at this
    rw [this, indexOf_self_append _ _ (by decide)]
    simp
  have hq101 : q ≠ 101 := by rcases hq with rfl | rfl <;> decide
  -- "v" , "e" , "rsion=" q "1.0" q
  have e : declInst q S L tail = [118] ++ (101 :: ([114, 115, 105, 111, 110, 61, q, 49, 46, 48, q] ++
      (S ++ (kwEncodingEq ++ q :: (L ++ q :: tail))))) := by
    simp [declInst, kwVersionEq, v10]
  have ek : kwEncodingEq = 101 :: [110, 99, 111, 100, 105, 110, 103, 61] := rfl
  rw [e]
  conv => lhs; rw [ek]
  rw [indexOf_skip 101 _ [118] _ (by simp)]
  rw [indexOf_cons_ne _ _ _ (by simp [List.isPrefixOf])]
  rw [indexOf_skip 101 _ [114, 115, 105, 111, 110, 61, q, 49, 46, 48, q] _ (by
    intro c hc
    simp only [List.mem_cons, List.not_mem_nil, or_false] at hc
    rcases hc with rfl | rfl | rfl | rfl | rfl | rfl | rfl | rfl | rfl | rfl | rfl <;>
      first | exact hq101 | decide)]
  rw [← ek, hin]
  simp
  omega

theorem declInst_drop (q : Nat) (S L tail : Bytes) :
    (declInst q S L tail).drop (13 + S.length + 9) = q :: L ++ q :: tail := by
  have e : declInst q S L tail = ([118, 101, 114, 115, 105, 111, 110, 61, q, 49, 46, 48, q] ++ S ++ kwEncodingEq) ++
      (q :: L ++ q :: tail) := by
    simp [declInst, kwVersionEq, v10]
  rw [e]
  apply List.drop_left'
  simp [kwEncodingEq]
  omega


/-! ### the byte-level C12 XML clause -/

def kwStandaloneEq : Bytes := [115, 116, 97, 110, 100, 97, 108, 111, 110, 101, 61]   -- "standalone="
def vYes : Bytes := [121, 101, 115]
def vNo : Bytes := [110, 111]

/-- what may follow the encoding pseudo-attribute: XML white space, optionally with a
    `standalone` pseudo-attribute (`yes` / `no`, either quote) in it -/
inductive TailForm : Bytes → Prop
  | ws (t : Bytes) : (∀ c ∈ t, isXmlSpace c = true) → TailForm t
  | standalone (w1 w2 v : Bytes) (q2 : Nat) :
      (∀ c ∈ w1, isXmlSpace c = true) → (∀ c ∈ w2, isXmlSpace c = true) →
      (q2 = 0x22 ∨ q2 = 0x27) → (v = vYes ∨ v = vNo) →
      TailForm (w1 ++ kwStandaloneEq ++ [q2] ++ v ++ [q2] ++ w2)

theorem TailForm.no_q {t : Bytes} (h : TailForm t) : ∀ c ∈ t, c ≠ 0x3F := by
  cases h with
  | ws _ hw => exact fun c hc => isXmlSpace_ne_q (hw c hc)
  | standalone w1 w2 v q2 h1 h2 hq hv =>
    intro c hc
    simp only [List.mem_append, List.mem_cons, List.not_mem_nil, or_false] at hc
    rcases hc with ((((hc | hc) | hc) | hc) | hc) | hc
    · exact isXmlSpace_ne_q (h1 c hc)
    · intro e; subst e; exact absurd hc (by decide)
    · subst hc; rcases hq with rfl | rfl <;> decide
    · intro e; subst e; rcases hv with rfl | rfl <;> exact absurd hc (by decide)
    · subst hc; rcases hq with rfl | rfl <;> decide
    · exact isXmlSpace_ne_q (h2 c hc)

theorem tokenChar_ne_q {c : Nat} (h : MT.isTokenChar c = true) : c ≠ 0x3F ∧ c ≠ 0x22 := by
  constructor <;> (rintro rfl; exact absurd h (by decide))

theorem declInst_no_q (q : Nat) (S L tail : Bytes) (hq : q = 0x22 ∨ q = 0x27)
    (hS : ∀ c ∈ S, isXmlSpace c = true) (hL : ∀ c ∈ L, MT.isTokenChar c = true)
    (ht : TailForm tail) : ∀ c ∈ declInst q S L tail, c ≠ 0x3F := by
  have hq' : q ≠ 0x3F := by rcases hq with rfl | rfl <;> decide
  intro c hc
  simp only [declInst, List.mem_append, List.mem_cons] at hc
  rcases hc with hc | hc | hc | hc | hc | hc | hc | hc | hc | hc
  · intro e; subst e; exact absurd hc (by decide)
  · exact hc ▸ hq'
  · intro e; subst e; exact absurd hc (by decide)
  · exact hc ▸ hq'
  · exact isXmlSpace_ne_q (hS c hc)
  · intro e; subst e; exact absurd hc (by decide)
  · exact hc ▸ hq'
  · exact (tokenChar_ne_q (hL c hc)).1
  · exact hc ▸ hq'
  · exact ht.no_q c hc

/-- the first raw token of the standard declaration is the ProcInst carrying it -/
theorem declared_inst (q : Nat) (S L tail rest : Bytes) (hq : q = 0x22 ∨ q = 0x27)
    (hS : ∀ c ∈ S, isXmlSpace c = true) (hL : ∀ c ∈ L, MT.isTokenChar c = true)
    (ht : TailForm tail) :
    firstProcInst (prologStart ++ [0x20] ++ declInst q S L tail ++ piEnd ++ rest)
      = some (declInst q S L tail) := by
  have hd : (declInst q S L tail).dropWhile isXmlSpace = declInst q S L tail := by
    simp [declInst, kwVersionEq, isXmlSpace]
  have := prolog_inst 0x20 (declInst q S L tail) rest (by decide)
    (no_infix_of_no_q _ (declInst_no_q q S L tail hq hS hL ht))
    (by rw [hd]; exact Or.inr (declInst_version q S L tail hq))
  rw [hd] at this
  exact this

/-- **declared_encoding_reported** (C12, XML clause, at byte level).
    `doc = lead <?xml version=q1.0q S encoding=qLq tail ?> rest` where `lead` is white space
    that `trimLWS` strips (TAB LF FF CR SP), `q` is `"` or `'`, `S` is XML white space (TAB LF CR
    SP; Go does not even require it to be non-empty), `L` a non-empty label of ASCII token
    characters other than `'`, and `tail` white space or a standalone pseudo-attribute:
    `FromXML(doc)` is `L` in lower case -/
theorem declared_encoding_reported (lead S L tail rest : Bytes) (q : Nat)
    (hlead : ∀ c ∈ lead, isWS c = true) (hq : q = 0x22 ∨ q = 0x27)
    (hS : ∀ c ∈ S, isXmlSpace c = true)
    (hL : ∀ c ∈ L, MT.isTokenChar c = true ∧ c ≠ 0x27) (hne : L ≠ [])
    (ht : TailForm tail) :
    fromXMLBytes (lead ++ prologStart ++ [0x20] ++ kwVersionEq ++ [q] ++ v10 ++ [q] ++ S ++
        kwEncodingEq ++ [q] ++ L ++ [q] ++ tail ++ piEnd ++ rest) = lowerASCII L ∧
    fromXMLDecl (lead ++ prologStart ++ [0x20] ++ kwVersionEq ++ [q] ++ v10 ++ [q] ++ S ++
        kwEncodingEq ++ [q] ++ L ++ [q] ++ tail ++ piEnd ++ rest) = lowerASCII L := by
  have hL1 : ∀ c ∈ L, MT.isTokenChar c = true := fun c hc => (hL c hc).1
  have hLq : ∀ c ∈ L, c ≠ q := by
    intro c hc
    rcases hq with rfl | rfl
    · exact (tokenChar_ne_q (hL c hc).1).2
    · exact (hL c hc).2
  have edoc : lead ++ prologStart ++ [0x20] ++ kwVersionEq ++ [q] ++ v10 ++ [q] ++ S ++
        kwEncodingEq ++ [q] ++ L ++ [q] ++ tail ++ piEnd ++ rest
      = lead ++ 0x3C :: ([0x3F, 0x78, 0x6D, 0x6C] ++ [0x20] ++ declInst q S L tail ++ piEnd ++ rest) := by
    simp [declInst, prologStart, List.append_assoc]
  have etrim : trimLWS (lead ++ 0x3C :: ([0x3F, 0x78, 0x6D, 0x6C] ++ [0x20] ++ declInst q S L tail ++ piEnd ++ rest))
      = prologStart ++ [0x20] ++ declInst q S L tail ++ piEnd ++ rest := by
    rw [trimLWS_lead lead 0x3C _ hlead (by decide)]
    simp [prologStart]
  have hinst := declared_inst q S L tail rest hq hS hL1 ht
  have hx := C12.xmlEncoding_spec (declInst q S L tail) (13 + S.length) q L tail
    (declInst_encoding_at q S L tail hq hS) hq (declInst_drop q S L tail) hLq
  rw [edoc]
  constructor
  · unfold fromXMLBytes
    rw [etrim, hinst]
    exact C12.xml_declared _ (declInst q S L tail) (13 + S.length) q L tail
      (declInst_encoding_at q S L tail hq hS) hq (declInst_drop q S L tail) hLq hne
  · unfold fromXMLDecl
    rw [etrim, hinst]
    simp only [hx]

/-! ### inputs that do not start with `<?` -/

/-- **not_prolog_none**: if the first byte is not `<`, or the second is not `?` (or either is
    missing), the first raw token is not a ProcInst -/
theorem not_prolog_none (b : Bytes) (h : b[0]? ≠ some 0x3C ∨ b[1]? ≠ some 0x3F) :
    firstProcInst b = none := by
  unfold firstProcInst firstPI
  match b, h with
  | [], _ => rfl
  | [_], _ => rfl
  | a :: c :: rest, h =>
    have : (a == 0x3C && c == 0x3F) = false := by
      apply Bool.eq_false_iff.mpr
      intro hab
      simp only [Bool.and_eq_true, beq_iff_eq] at hab
      rcases h with h | h
      · exact h (by simp [hab.1])
      · exact h (by simp [hab.2])
    simp only [this, Bool.false_eq_true, ↓reduceIte]

/-- … and `FromXML` is then `FromPlain` of the (untrimmed) content -/
theorem not_prolog_fromPlain (content : Bytes)
    (h : (trimLWS content)[0]? ≠ some 0x3C ∨ (trimLWS content)[1]? ≠ some 0x3F) :
    fromXMLBytes content = fromPlain content ∧ fromXMLDecl content = [] := by
  unfold fromXMLBytes fromXMLDecl
  rw [not_prolog_none _ h]
  simp [Charset.fromXML]


/-! ### soundness: what a reported ProcInst says about the input -/

theorem readName_split : ∀ (s n r : Bytes), readName s = some (n, r) →
    s = n ++ r ∧ (∀ c ∈ n, nameStop c = false) ∧ ∃ x r', r = x :: r' ∧ nameStop x = true := by
  intro s
  induction s with
  | nil => intro n r h; simp [readName] at h
  | cons b rest ih =>
    intro n r h
    simp only [readName] at h
    cases hb : nameStop b with
    | true =>
      simp only [hb, ↓reduceIte, Option.some.injEq, Prod.mk.injEq] at h
      obtain ⟨rfl, rfl⟩ := h
      exact ⟨rfl, by simp, b, rest, rfl, hb⟩
    | false =>
      simp only [hb, Bool.false_eq_true, ↓reduceIte] at h
      cases hr : readName rest with
      | none => simp [hr] at h
      | some p =>
        obtain ⟨n', r'⟩ := p
        simp only [hr, Option.some.injEq, Prod.mk.injEq] at h
        obtain ⟨rfl, rfl⟩ := h
        obtain ⟨e, hn, hx⟩ := ih n' r' hr
        refine ⟨by rw [e]; rfl, ?_, hx⟩
        intro c hc
        cases hc with
        | head => exact hb
        | tail _ hc => exact hn c hc

theorem untilPIEnd_split : ∀ (s d : Bytes), untilPIEnd s = some d →
    (∃ rest, s = d ++ piEnd ++ rest) ∧ ¬ piEnd <:+: d := by
  intro s
  induction s with
  | nil => intro d h; simp [untilPIEnd] at h
  | cons a rest ih =>
    intro d h
    simp only [untilPIEnd] at h
    cases hp : hasPrefix (a :: rest) piEnd with
    | true =>
      simp only [hp, ↓reduceIte, Option.some.injEq] at h
      subst h
      obtain ⟨t, ht⟩ := hasPrefix_iff.mp hp
      refine ⟨⟨t, by simp [ht]⟩, ?_⟩
      rintro ⟨x, y, e⟩
      simp [piEnd] at e
    | false =>
      simp only [hp, Bool.false_eq_true, ↓reduceIte] at h
      cases hr : untilPIEnd rest with
      | none => simp [hr] at h
      | some d' =>
        simp only [hr, Option.some.injEq] at h
        subst h
        obtain ⟨⟨t, e⟩, hno⟩ := ih d' hr
        refine ⟨⟨t, by rw [e]; simp⟩, ?_⟩
        intro hin
        rcases List.infix_cons_iff.mp hin with hpre | hin'
        · have : hasPrefix (a :: rest) piEnd = true := by
            rw [hasPrefix_iff, e]
            have := List.IsPrefix.trans hpre (List.prefix_append (a :: d') (piEnd ++ t))
            simpa [List.append_assoc] using this
          rw [hp] at this
          exact absurd this (by decide)
        · exact hno hin'

theorem mem_takeWhile_true (p : Nat → Bool) : ∀ (s : Bytes) (x : Nat), x ∈ s.takeWhile p → p x = true := by
  intro s
  induction s with
  | nil => intro x hx; simp at hx
  | cons a t ih =>
    intro x hx
    simp only [List.takeWhile] at hx
    cases ha : p a with
    | false => simp [ha] at hx
    | true =>
      simp only [ha] at hx
      cases hx with
      | head => exact ha
      | tail _ hx => exact ih x hx

theorem takeWhile_append_dropWhile' (p : Nat → Bool) (s : Bytes) :
    s = s.takeWhile p ++ s.dropWhile p := (List.takeWhile_append_dropWhile).symm

/-- **soundness of a reported ProcInst**: the input reads `<?` target ws inst `?>` rest, the
    target is an XML name ended by an ASCII non-name byte (the first of `ws ++ inst ++ "?>"`),
    `ws` is XML white space and `inst` starts with none, `inst` contains no `?>`, and for the
    target `xml` the version is absent or 1.0 -/
theorem firstPI_sound (b target inst : Bytes) (h : firstPI b = some (target, inst)) :
    ∃ ws rest, b = ltQ ++ target ++ ws ++ inst ++ piEnd ++ rest ∧
      isName target = true ∧ (∀ c ∈ target, nameStop c = false) ∧
      (∀ c ∈ ws, isXmlSpace c = true) ∧ (∀ x, inst.head? = some x → isXmlSpace x = false) ∧
      ¬ piEnd <:+: inst ∧ (target = tXml → versionOk inst = true) := by
  match b, h with
  | [], h => simp [firstPI] at h
  | [_], h => simp [firstPI] at h
  | a :: c :: s, h =>
    simp only [firstPI] at h
    cases hac : (a == 0x3C && c == 0x3F) with
    | false => simp [hac] at h
    | true =>
      simp only [hac, ↓reduceIte] at h
      simp only [Bool.and_eq_true, beq_iff_eq] at hac
      obtain ⟨rfl, rfl⟩ := hac
      unfold piToken at h
      cases hr : readName s with
      | none => simp [hr] at h
      | some pr =>
        obtain ⟨n, r⟩ := pr
        simp only [hr] at h
        cases hn : isName n with
        | false => simp [hn] at h
        | true =>
          simp only [hn, Bool.not_true, Bool.false_eq_true, ↓reduceIte] at h
          cases hu : untilPIEnd (r.dropWhile isXmlSpace) with
          | none => simp [hu] at h
          | some d =>
            simp only [hu] at h
            cases hv : (n == tXml && !versionOk d) with
            | true => simp [hv] at h
            | false =>
              simp only [hv, Bool.false_eq_true, ↓reduceIte, Option.some.injEq, Prod.mk.injEq] at h
              obtain ⟨rfl, rfl⟩ := h
              obtain ⟨es, hstop, _⟩ := readName_split s n r hr
              obtain ⟨⟨rest, ed⟩, hno⟩ := untilPIEnd_split _ d hu
              refine ⟨r.takeWhile isXmlSpace, rest, ?_, hn, hstop, ?_, ?_, hno, ?_⟩
              · have er := takeWhile_append_dropWhile' isXmlSpace r
                rw [ed] at er
                rw [es]
                conv => lhs; rw [er]
                simp [ltQ, List.append_assoc]
              · intro x hx
                exact mem_takeWhile_true _ _ x hx
              · intro x hx
                cases d with
                | nil => simp at hx
                | cons y d' =>
                  simp only [List.head?_cons, Option.some.injEq] at hx
                  subst hx
                  have hh : (r.dropWhile isXmlSpace).head? = some y := by rw [ed]; rfl
                  have := List.head?_dropWhile_not isXmlSpace r
                  rw [hh] at this
                  simpa using this
              · intro et
                subst et
                simpa using hv

/-- a charset is declared only by a first processing instruction: if the unexported `fromXML`
    reports a label, the trimmed content starts with `<?`, a name, … `?>` -/
theorem fromXMLDecl_ne_nil (content : Bytes) (h : fromXMLDecl content ≠ []) :
    ∃ target inst ws rest, trimLWS content = ltQ ++ target ++ ws ++ inst ++ piEnd ++ rest ∧
      isName target = true ∧ fromXMLDecl content = lowerASCII (xmlEncoding inst) := by
  unfold fromXMLDecl firstProcInst at h ⊢
  cases hp : firstPI (trimLWS content) with
  | none => simp [hp] at h
  | some p =>
    obtain ⟨t, i⟩ := p
    obtain ⟨ws, rest, e, hn, _⟩ := firstPI_sound _ t i hp
    exact ⟨t, i, ws, rest, e, hn, by simp⟩

/-! ### non-vacuity / behaviour examples (kernel-checked by `decide`) -/

-- the standard declaration
example : firstProcInst [60, 63, 120, 109, 108, 32, 118, 101, 114, 115, 105, 111, 110, 61, 34, 49, 46, 48, 34, 32, 101, 110, 99, 111, 100, 105, 110, 103, 61, 34, 85, 84, 70, 45, 56, 34, 63, 62, 60, 97, 47, 62] = some [118, 101, 114, 115, 105, 111, 110, 61, 34, 49, 46, 48, 34, 32, 101, 110, 99, 111, 100, 105, 110, 103, 61, 34, 85, 84, 70, 45, 56, 34] := by decide
-- ALL white space after the target is skipped; the one before ?> stays
example : firstProcInst [60, 63, 120, 109, 108, 32, 9, 13, 10, 32, 101, 110, 99, 111, 100, 105, 110, 103, 61, 39, 120, 39, 32, 63, 62] = some [101, 110, 99, 111, 100, 105, 110, 103, 61, 39, 120, 39, 32] := by decide
-- FF ends the target but is not skipped
example : firstProcInst [60, 63, 120, 109, 108, 12, 101, 110, 99, 111, 100, 105, 110, 103, 61, 39, 120, 39, 63, 62] = some [12, 101, 110, 99, 111, 100, 105, 110, 103, 61, 39, 120, 39] := by decide
-- <?xml?> : empty instruction
example : firstProcInst [60, 63, 120, 109, 108, 63, 62] = some [] := by decide
-- version 1.1 is an error
example : firstProcInst [60, 63, 120, 109, 108, 32, 118, 101, 114, 115, 105, 111, 110, 61, 34, 49, 46, 49, 34, 63, 62] = none := by decide
-- an empty version counts as absent
example : firstProcInst [60, 63, 120, 109, 108, 32, 118, 101, 114, 115, 105, 111, 110, 61, 39, 39, 32, 101, 110, 99, 111, 100, 105, 110, 103, 61, 34, 120, 34, 63, 62] = some [118, 101, 114, 115, 105, 111, 110, 61, 39, 39, 32, 101, 110, 99, 111, 100, 105, 110, 103, 61, 34, 120, 34] := by decide
-- an unquoted version counts as absent
example : firstProcInst [60, 63, 120, 109, 108, 32, 118, 101, 114, 115, 105, 111, 110, 61, 49, 46, 49, 32, 101, 110, 99, 111, 100, 105, 110, 103, 61, 34, 120, 34, 63, 62] = some [118, 101, 114, 115, 105, 111, 110, 61, 49, 46, 49, 32, 101, 110, 99, 111, 100, 105, 110, 103, 61, 34, 120, 34] := by decide
-- procInst resumes AFTER the byte following `version=`: this 1.1 is not seen
example : firstProcInst [60, 63, 120, 109, 108, 32, 118, 101, 114, 115, 105, 111, 110, 61, 118, 101, 114, 115, 105, 111, 110, 61, 34, 49, 46, 49, 34, 63, 62] = some [118, 101, 114, 115, 105, 111, 110, 61, 118, 101, 114, 115, 105, 111, 110, 61, 34, 49, 46, 49, 34] := by decide
-- procInst has no word boundary: `xversion=` is read as the version
example : firstProcInst [60, 63, 120, 109, 108, 32, 120, 118, 101, 114, 115, 105, 111, 110, 61, 34, 50, 34, 63, 62] = none := by decide
-- ... nor does it know about quoting: a version inside another value counts
example : firstProcInst [60, 63, 120, 109, 108, 32, 97, 61, 34, 118, 101, 114, 115, 105, 111, 110, 61, 39, 50, 39, 34, 63, 62] = none := by decide
-- only the exact target `xml` has its version checked
example : firstProcInst [60, 63, 88, 77, 76, 32, 118, 101, 114, 115, 105, 111, 110, 61, 34, 50, 46, 48, 34, 63, 62] = some [118, 101, 114, 115, 105, 111, 110, 61, 34, 50, 46, 48, 34] := by decide
-- any other processing instruction
example : firstProcInst [60, 63, 120, 109, 108, 45, 115, 116, 121, 108, 101, 115, 104, 101, 101, 116, 32, 104, 114, 101, 102, 61, 34, 97, 34, 63, 62] = some [104, 114, 101, 102, 61, 34, 97, 34] := by decide
-- non-ASCII letters in the target (é = U+00E9 is in `first`)
example : firstProcInst [60, 63, 195, 169, 108, 195, 169, 109, 101, 110, 116, 32, 97, 63, 62] = some [97] := by decide
-- U+00B7 is in `second`
example : firstProcInst [60, 63, 97, 194, 183, 32, 97, 63, 62] = some [97] := by decide
-- ... so it cannot come first
example : firstProcInst [60, 63, 194, 183, 97, 32, 97, 63, 62] = none := by decide
-- invalid UTF-8 in the target
example : firstProcInst [60, 63, 120, 255, 32, 97, 63, 62] = none := by decide
-- U+00D7 (multiplication sign) is not a name character
example : firstProcInst [60, 63, 120, 195, 151, 32, 97, 63, 62] = none := by decide
-- no character check inside the instruction
example : firstProcInst [60, 63, 120, 32, 255, 0, 1, 63, 62] = some [255, 0, 1] := by decide
-- a digit cannot start the target
example : firstProcInst [60, 63, 49, 120, 32, 97, 63, 62] = none := by decide
-- no ?> : unexpected EOF
example : firstProcInst [60, 63, 120, 109, 108, 32, 118, 101, 114, 115, 105, 111, 110, 61, 34, 49, 46, 48, 34] = none := by decide
-- ? and > must be adjacent
example : firstProcInst [60, 63, 120, 109, 108, 32, 118, 101, 114, 115, 105, 111, 110, 61, 34, 49, 46, 48, 34, 32, 63, 32, 62] = none := by decide
-- no target
example : firstProcInst [60, 63, 32, 120, 109, 108, 63, 62] = none := by decide
-- start element
example : firstProcInst [60, 97, 62] = none := by decide
-- comment
example : firstProcInst [60, 33, 45, 45, 99, 45, 45, 62] = none := by decide
-- character data
example : firstProcInst [116, 101, 120, 116] = none := by decide
-- empty input
example : firstProcInst [] = none := by decide
-- firstProcInst itself does not trim (fromXML does)
example : firstProcInst [32, 60, 63, 120, 109, 108, 63, 62] = none := by decide
-- leading white space incl. FF is trimmed by fromXML
example : fromXMLBytes [32, 10, 9, 12, 13, 60, 63, 120, 109, 108, 32, 118, 101, 114, 115, 105, 111, 110, 61, 34, 49, 46, 48, 34, 32, 101, 110, 99, 111, 100, 105, 110, 103, 61, 34, 73, 83, 79, 45, 56, 56, 53, 57, 45, 53, 34, 63, 62] = [105, 115, 111, 45, 56, 56, 53, 57, 45, 53] := by decide
-- single quotes, standalone
example : fromXMLBytes [60, 63, 120, 109, 108, 32, 118, 101, 114, 115, 105, 111, 110, 61, 39, 49, 46, 48, 39, 32, 101, 110, 99, 111, 100, 105, 110, 103, 61, 39, 75, 79, 73, 56, 45, 82, 39, 32, 115, 116, 97, 110, 100, 97, 108, 111, 110, 101, 61, 39, 121, 101, 115, 39, 63, 62, 60, 97, 47, 62] = [107, 111, 105, 56, 45, 114] := by decide
-- the target is not looked at: any first PI with `encoding=` declares a charset
example : fromXMLBytes [60, 63, 120, 109, 108, 45, 115, 116, 121, 108, 101, 115, 104, 101, 101, 116, 32, 101, 110, 99, 111, 100, 105, 110, 103, 61, 34, 120, 34, 63, 62] = [120] := by decide
-- ... and `encoding=` needs no word boundary
example : fromXMLBytes [60, 63, 112, 104, 112, 32, 36, 109, 121, 101, 110, 99, 111, 100, 105, 110, 103, 61, 34, 108, 97, 116, 105, 110, 49, 34, 59, 32, 63, 62] = [108, 97, 116, 105, 110, 49] := by decide
-- unsupported version: the declaration is lost, FromPlain answers
example : fromXMLBytes [60, 63, 120, 109, 108, 32, 118, 101, 114, 115, 105, 111, 110, 61, 34, 49, 46, 49, 34, 32, 101, 110, 99, 111, 100, 105, 110, 103, 61, 34, 107, 111, 105, 56, 45, 114, 34, 63, 62] = [117, 116, 102, 45, 56] := by decide
-- VT is not trimmed: character data, FromPlain answers
example : fromXMLBytes [11, 60, 63, 120, 109, 108, 32, 118, 101, 114, 115, 105, 111, 110, 61, 34, 49, 46, 48, 34, 32, 101, 110, 99, 111, 100, 105, 110, 103, 61, 34, 107, 111, 105, 56, 45, 114, 34, 63, 62] = [117, 116, 102, 45, 56] := by decide

-- the hypotheses of `declared_encoding_reported` are satisfiable, and its conclusion is the
-- expected label on a concrete document:  "\n<?xml version='1.0'\t encoding='Shift_JIS' standalone='no' ?><r/>"
example : TailForm ([0x20] ++ kwStandaloneEq ++ [0x27] ++ vNo ++ [0x27] ++ [0x20]) :=
  .standalone [0x20] [0x20] vNo 0x27 (by decide) (by decide) (Or.inr rfl) (Or.inr rfl)

example : fromXMLBytes ([0x0A] ++ prologStart ++ [0x20] ++ kwVersionEq ++ [0x27] ++ v10 ++ [0x27] ++ [0x09, 0x20] ++
      kwEncodingEq ++ [0x27] ++ [83, 104, 105, 102, 116, 95, 74, 73, 83] ++ [0x27] ++
      ([0x20] ++ kwStandaloneEq ++ [0x27] ++ vNo ++ [0x27] ++ [0x20]) ++ piEnd ++ [60, 114, 47, 62])
    = [115, 104, 105, 102, 116, 95, 106, 105, 115] :=
  (declared_encoding_reported [0x0A] [0x09, 0x20] [83, 104, 105, 102, 116, 95, 74, 73, 83] _ [60, 114, 47, 62] 0x27
    (by decide) (Or.inr rfl) (by decide) (by decide) (by decide)
    (.standalone [0x20] [0x20] vNo 0x27 (by decide) (by decide) (Or.inr rfl) (Or.inr rfl))).1

end Mime.XmlTokLemmas
