import MimeModel.Lemmas.JsonLeaf
/-
  Truncation lemmas ("prefix laws"): if a scanner function succeeds on `b` consuming `n`
  bytes, then on every cut `b.take k`
  * `k < n`  : all `k` bytes are inspected (and the result is a failure or an empty rest);
  * `n ≤ k`  : the result is the same, with the rest cut accordingly.
  These hold for every state, query and cap: the run on the prefix follows the run on the
  whole input until the cut.
-/
namespace Mime.JsonPrefix
open Mime Mime.Json Mime.Spec Mime.JsonLeaf

/-- outcome "nothing left": a failure, or a success with an empty rest -/
def EndsEmpty (o : Option Bytes) : Prop := o = none ∨ o = some []

/-- the prefix law for one successful call `F b s = (some r, s')` -/
def PrefixLaw (F : Bytes → PState → Option Bytes × PState) (b : Bytes) (s : PState) (r : Bytes) (s' : PState) : Prop :=
  r.length ≤ b.length ∧ s'.ib = s.ib + (b.length - r.length) ∧
  ∀ k : Nat,
    (k < b.length - r.length → (F (b.take k) s).2.ib = s.ib + k ∧ EndsEmpty (F (b.take k) s).1) ∧
    (b.length - r.length ≤ k → F (b.take k) s = (some (r.take (k - (b.length - r.length))), s'))

theorem take_cons_succ {α} (c : α) (cs : List α) (k : Nat) : (c :: cs).take (k + 1) = c :: cs.take k := rfl

/-! ### white space -/

theorem skipWs_take (b : Bytes) (k : Nat) :
    let m := b.length - (J.skipWs b).length
    (k < m → J.skipWs (b.take k) = [] ∧ (b.take k).length = k) ∧
    (m ≤ k → J.skipWs (b.take k) = (J.skipWs b).take (k - m) ∧ (b.take k).length - (J.skipWs (b.take k)).length = m) := by
  induction b generalizing k with
  | nil => simp [J.skipWs]
  | cons c cs ih =>
    have hle := skipWs_length_le cs
    cases k with
    | zero =>
      simp only [List.take_zero, J.skipWs, List.length_nil, Nat.zero_le, Nat.sub_zero, Nat.le_zero_eq]
      by_cases hw : J.ws c = true
      · simp only [J.skipWs, hw, ↓reduceIte, List.length_cons]
        constructor
        · intro _; trivial
        · intro h; omega
      · simp [J.skipWs, hw]
    | succ k =>
      simp only [take_cons_succ, J.skipWs]
      by_cases hw : J.ws c = true
      · simp only [hw, ↓reduceIte, List.length_cons]
        have := ih k
        simp only at this
        constructor
        · intro h
          have h' : k < cs.length - (J.skipWs cs).length := by omega
          obtain ⟨a1, a2⟩ := this.1 h'
          exact ⟨a1, by simp [a2]⟩
        · intro h
          have h' : cs.length - (J.skipWs cs).length ≤ k := by omega
          obtain ⟨a1, a2⟩ := this.2 h'
          refine ⟨?_, ?_⟩
          · rw [a1]; congr 1; omega
          · have h3 := skipWs_length_le (cs.take k)
            omega
      · simp only [hw, Bool.false_eq_true, ↓reduceIte, List.length_cons, Nat.sub_self, Nat.not_lt_zero, false_implies,
          Nat.zero_le, Nat.sub_zero, true_implies, true_and, List.take_succ_cons]

/-- `consumeSpace` on a cut -/
theorem consumeSpace_take (b : Bytes) (s : PState) (k : Nat) :
    let m := b.length - (J.skipWs b).length
    (k < m → consumeSpace (b.take k) s = ([], s.bump k)) ∧
    (m ≤ k → consumeSpace (b.take k) s = ((J.skipWs b).take (k - m), s.bump m)) := by
  have h := skipWs_take b k
  simp only at h ⊢
  constructor
  · intro hk
    obtain ⟨a1, a2⟩ := h.1 hk
    rw [consumeSpace_spec, a1, a2]; simp
  · intro hk
    obtain ⟨a1, a2⟩ := h.2 hk
    rw [consumeSpace_spec]
    rw [a1] at a2 ⊢
    rw [a2]

/-! ### literals -/

theorem consumeConst_short (w : Bytes) : ∀ (k : Nat) (s : PState), k < w.length →
    consumeConst (w.take k) w s = (none, s.bump k) := by
  induction w with
  | nil => intro k s h; simp at h
  | cons x xs ih =>
    intro k s h
    cases k with
    | zero => simp [consumeConst]
    | succ k =>
      simp only [take_cons_succ, consumeConst, beq_self_eq_true, ↓reduceIte]
      rw [ih k s.bump (by simpa using h)]
      simp [Nat.add_comm]

theorem consumeConst_prefix (w r : Bytes) (s : PState) :
    PrefixLaw (fun b s => consumeConst b w s) (w ++ r) s r (s.bump w.length) := by
  refine ⟨by simp, by simp, ?_⟩
  intro k
  simp only [List.length_append, Nat.add_sub_cancel]
  constructor
  · intro hk
    have : (w ++ r).take k = w.take k := by rw [List.take_append_of_le_length (by omega)]
    rw [this, consumeConst_short w k s hk]
    exact ⟨by simp, Or.inl rfl⟩
  · intro hk
    have : (w ++ r).take k = w ++ r.take (k - w.length) := by
      rw [List.take_append]
      congr 1
      exact List.take_of_length_le hk
    rw [this]
    exact consumeConst_ok w _ _ _ rfl

/-! ### strings -/

theorem consumeString_prefix (cs : Bytes) : ∀ (m : SMode) (s : PState) (r : Bytes) (s' : PState),
    consumeString m cs s = (some r, s') → PrefixLaw (consumeString m) cs s r s' := by
  induction cs with
  | nil => intro m s r s' h; rw [cs_nil] at h; cases h
  | cons c cs ih =>
    intro m s r s' h
    -- one step of the automaton: either it stops here, or it moves to mode `m'` on `cs`
    have step : (∃ m', consumeString m (c :: cs) s = consumeString m' cs s.bump ∧
                  ∀ k, consumeString m ((c :: cs).take (k + 1)) s = consumeString m' (cs.take k) s.bump) ∨
                (m = .norm ∧ c = 0x22 ∧ r = cs ∧ s' = s.bump) := by
      cases m with
      | norm =>
        by_cases h1 : (c == 0x5C) = true
        · left
          have : c = 0x5C := by simpa using h1
          subst this
          exact ⟨.esc, cs_norm_bs cs s, fun k => by rw [take_cons_succ, cs_norm_bs]⟩
        · by_cases h2 : (c == 0x22) = true
          · right
            have : c = 0x22 := by simpa using h2
            subst this
            rw [cs_norm_quote] at h
            simp only [Prod.mk.injEq, Option.some.injEq] at h
            exact ⟨rfl, rfl, h.1.symm, h.2.symm⟩
          · left
            have h1' : (c == 0x5C) = false := by simpa using h1
            have h2' : (c == 0x22) = false := by simpa using h2
            exact ⟨.norm, cs_norm_other c cs s h1' h2', fun k => by rw [take_cons_succ, cs_norm_other c _ s h1' h2']⟩
      | esc =>
        left
        by_cases h1 : isSimpleEsc c = true
        · exact ⟨.norm, cs_esc_simple c cs s h1, fun k => by rw [take_cons_succ, cs_esc_simple c _ s h1]⟩
        · have h1' : isSimpleEsc c = false := by simpa using h1
          by_cases h2 : (c == 0x75) = true
          · have : c = 0x75 := by simpa using h2
            subst this
            exact ⟨.hex 4, cs_esc_u cs s, fun k => by rw [take_cons_succ, cs_esc_u]⟩
          · have h2' : (c == 0x75) = false := by simpa using h2
            rw [cs_esc_bad c cs s h1' h2'] at h; cases h
      | hex j =>
        left
        by_cases h1 : isXDigit c = true
        · by_cases hj : j ≤ 1
          · refine ⟨.norm, ?_, fun k => ?_⟩
            · rw [cs_hex_ok j c cs s h1]; simp [hj]
            · rw [take_cons_succ, cs_hex_ok j c _ s h1]; simp [hj]
          · refine ⟨.hex (j - 1), ?_, fun k => ?_⟩
            · rw [cs_hex_ok j c cs s h1]; simp [hj]
            · rw [take_cons_succ, cs_hex_ok j c _ s h1]; simp [hj]
        · have h1' : isXDigit c = false := by simpa using h1
          rw [cs_hex_bad j c cs s h1'] at h; cases h
    rcases step with ⟨m', hstep, htake⟩ | ⟨rfl, rfl, rfl, rfl⟩
    · rw [hstep] at h
      obtain ⟨i1, i2, i3⟩ := ih m' s.bump r s' h
      refine ⟨by simp; omega, by simp only [List.length_cons, bump_ib] at i2 ⊢; omega, ?_⟩
      intro k
      cases k with
      | zero =>
        simp only [List.take_zero, cs_nil, Nat.zero_le, Nat.sub_zero, List.length_cons]
        constructor
        · intro _; exact ⟨by simp, Or.inl rfl⟩
        · intro hk; omega
      | succ k =>
        rw [htake k]
        have := i3 k
        simp only [List.length_cons, bump_ib] at this ⊢
        constructor
        · intro hk
          obtain ⟨a1, a2⟩ := this.1 (by omega)
          exact ⟨by rw [a1]; omega, a2⟩
        · intro hk
          rw [this.2 (by omega)]
          congr 3
          omega
    · -- the closing quote
      refine ⟨by simp, by simp, ?_⟩
      intro k
      cases k with
      | zero =>
        simp only [List.take_zero, cs_nil, List.length_cons]
        constructor
        · intro _; exact ⟨by simp, Or.inl rfl⟩
        · intro hk; omega
      | succ k =>
        simp only [take_cons_succ, cs_norm_quote, List.length_cons]
        constructor
        · intro hk; omega
        · intro _; congr 3; omega

/-! ### numbers -/

theorem consumeNumber_prefix (b : Bytes) : ∀ (m : NMode) (s : PState) (r : Bytes) (s' : PState),
    consumeNumber m b s = (some r, s') → PrefixLaw (consumeNumber m) b s r s' := by
  induction b with
  | nil =>
    intro m s r s' h
    rw [cn_nil] at h
    split at h
    · simp only [Prod.mk.injEq, Option.some.injEq] at h
      obtain ⟨rfl, rfl⟩ := h
      refine ⟨by simp, by simp, ?_⟩
      intro k
      simp only [List.take_nil, List.length_nil, Nat.sub_self, Nat.not_lt_zero, false_implies, Nat.zero_le, true_implies,
        true_and, cn_nil]
      rename_i hg
      simp [hg]
    · cases h
  | cons c cs ih =>
    intro m s r s' h
    cases hs : numStep m c with
    | some m' =>
      rw [cn_step m m' c cs s hs] at h
      obtain ⟨i1, i2, i3⟩ := ih m' s.bump r s' h
      refine ⟨by simp; omega, by simp only [List.length_cons, bump_ib] at i2 ⊢; omega, ?_⟩
      intro k
      cases k with
      | zero =>
        simp only [List.take_zero, cn_nil, List.length_cons]
        constructor
        · intro _
          refine ⟨by simp, ?_⟩
          by_cases hg : m.got = true
          · simp [hg, EndsEmpty]
          · simp [hg, EndsEmpty]
        · intro hk; omega
      | succ k =>
        rw [take_cons_succ, cn_step m m' c _ s hs]
        have := i3 k
        simp only [List.length_cons, bump_ib] at this ⊢
        constructor
        · intro hk
          obtain ⟨a1, a2⟩ := this.1 (by omega)
          exact ⟨by rw [a1]; omega, a2⟩
        · intro hk
          rw [this.2 (by omega)]
          congr 3
          omega
    | none =>
      rw [cn_stop m c cs s hs] at h
      split at h
      · rename_i hg
        simp only [Prod.mk.injEq, Option.some.injEq] at h
        obtain ⟨rfl, rfl⟩ := h
        refine ⟨by simp, by simp, ?_⟩
        intro k
        simp only [Nat.sub_self, Nat.not_lt_zero, false_implies, Nat.zero_le, true_implies, true_and, Nat.sub_zero]
        cases k with
        | zero => rw [List.take_zero, cn_nil]; simp [hg]
        | succ k => rw [take_cons_succ, cn_stop m c _ s hs]; simp [hg]
      · cases h

end Mime.JsonPrefix

namespace Mime.JsonPrefix
open Mime Mime.Json Mime.Spec Mime.JsonLeaf

abbrev Scan := Bytes → PState → Option Bytes × PState

/-- on empty input a scanner makes no progress and leaves nothing -/
def NoProgressOnEmpty (H : Scan) : Prop := ∀ x : PState, (H [] x).2.ib = x.ib ∧ EndsEmpty (H [] x).1

theorem consumed_take (b r1 : Bytes) (k : Nat) (h1 : r1.length ≤ b.length) (hk : b.length - r1.length ≤ k) :
    consumed (b.take k) (r1.take (k - (b.length - r1.length))) = consumed b r1 := by
  unfold consumed
  simp only [List.length_take, List.take_take]
  congr 1
  omega

/-- **sequencing**: `F = G ; H` on every cut of `b` (run `G`, on success continue with `H` on
    the rest; `H` may also look at the bytes `G` consumed; on failure only non-`ib` fields change) -/
theorem seq_law (G : Scan) (H : Bytes → Scan) (g : PState → PState) (F : Scan)
    (hg : ∀ x, (g x).ib = x.ib)
    (b : Bytes) (s : PState) (r1 : Bytes) (s1 : PState) (r : Bytes) (s' : PState)
    (hF : ∀ k, F (b.take k) s = match G (b.take k) s with
      | (some r1', s1') => H (consumed (b.take k) r1') r1' s1'
      | (none, s1') => (none, g s1'))
    (lG : PrefixLaw G b s r1 s1)
    (lH : PrefixLaw (H (consumed b r1)) r1 s1 r s') (hE : ∀ tag, NoProgressOnEmpty (H tag)) :
    PrefixLaw F b s r s' := by
  obtain ⟨g1, g2, g3⟩ := lG
  obtain ⟨h1, h2, h3⟩ := lH
  refine ⟨by omega, by omega, ?_⟩
  intro k
  constructor
  · intro hk
    by_cases hk1 : k < b.length - r1.length
    · obtain ⟨a1, a2⟩ := (g3 k).1 hk1
      rw [hF]
      generalize G (b.take k) s = res at a1 a2
      obtain ⟨o, x⟩ := res
      simp only at a1 a2
      rcases a2 with rfl | rfl
      · exact ⟨by simp only [hg]; exact a1, Or.inl rfl⟩
      · simp only
        obtain ⟨e1, e2⟩ := hE (consumed (b.take k) []) x
        exact ⟨by rw [e1, a1], e2⟩
    · have hk1' : b.length - r1.length ≤ k := by omega
      rw [hF, (g3 k).2 hk1']
      simp only
      rw [consumed_take b r1 k g1 hk1']
      obtain ⟨a1, a2⟩ := (h3 (k - (b.length - r1.length))).1 (by omega)
      exact ⟨by rw [a1]; omega, a2⟩
  · intro hk
    have hk1' : b.length - r1.length ≤ k := by omega
    rw [hF, (g3 k).2 hk1']
    simp only
    rw [consumed_take b r1 k g1 hk1']
    rw [(h3 (k - (b.length - r1.length))).2 (by omega)]
    congr 3
    omega

/-- the value of a scanner on the whole input is the `k = length` instance of the law -/
theorem law_whole (F : Scan) (b : Bytes) (s : PState) (r : Bytes) (s' : PState) (l : PrefixLaw F b s r s') :
    F b s = (some r, s') := by
  have := (l.2.2 b.length).2 (by omega)
  rw [List.take_length] at this
  rw [this]
  congr 2
  apply List.take_of_length_le
  have := l.1
  omega

/-- **one byte, then continue**: `F (c :: x) s = K x s.bump` -/
theorem peek_law (F K : Scan) (c : Nat) (s : PState)
    (hF : ∀ x, F (c :: x) s = K x s.bump) (hF0 : (F [] s).2.ib = s.ib ∧ EndsEmpty (F [] s).1)
    (cs r : Bytes) (s' : PState) (lK : PrefixLaw K cs s.bump r s') :
    PrefixLaw F (c :: cs) s r s' := by
  obtain ⟨k1, k2, k3⟩ := lK
  refine ⟨by simp; omega, by simp only [List.length_cons, bump_ib] at k2 ⊢; omega, ?_⟩
  intro k
  cases k with
  | zero =>
    simp only [List.take_zero, List.length_cons]
    constructor
    · intro _; exact ⟨by simpa using hF0.1, hF0.2⟩
    · intro hk; omega
  | succ k =>
    rw [take_cons_succ, hF]
    have := k3 k
    simp only [List.length_cons, bump_ib] at this ⊢
    constructor
    · intro hk
      obtain ⟨a1, a2⟩ := this.1 (by omega)
      exact ⟨by rw [a1]; omega, a2⟩
    · intro hk
      rw [this.2 (by omega)]
      congr 3
      omega

/-- **one byte, then done**: `F (c :: x) s = (some x, t)` -/
theorem last_byte_law (F : Scan) (c : Nat) (s t : PState) (ht : t.ib = s.ib + 1)
    (hF : ∀ x, F (c :: x) s = (some x, t)) (hF0 : (F [] s).2.ib = s.ib ∧ EndsEmpty (F [] s).1) (cs : Bytes) :
    PrefixLaw F (c :: cs) s cs t := by
  refine ⟨by simp, by simp [ht], ?_⟩
  intro k
  cases k with
  | zero =>
    simp only [List.take_zero, List.length_cons]
    constructor
    · intro _; exact ⟨by simpa using hF0.1, hF0.2⟩
    · intro hk; omega
  | succ k =>
    rw [take_cons_succ, hF]
    simp only [List.length_cons]
    constructor
    · intro hk; omega
    · intro _; congr 3; omega

/-- the law only looks at `ib` and at the cuts of `b`: it transfers to a function that agrees
    with `F'` on every non-empty cut and makes no progress on the empty one -/
theorem law_congr (F F' : Scan) (s s0 : PState) (hib : s0.ib = s.ib) (b r : Bytes) (s' : PState)
    (hFF : ∀ k, 0 < k → F (b.take k) s = F' (b.take k) s0)
    (hF0 : (F [] s).2.ib = s.ib ∧ EndsEmpty (F [] s).1) (hF'0 : (F' [] s0).1 = none)
    (h : PrefixLaw F' b s0 r s') : PrefixLaw F b s r s' := by
  obtain ⟨h1, h2, h3⟩ := h
  refine ⟨h1, by rw [h2, hib], ?_⟩
  intro k
  cases k with
  | zero =>
    simp only [List.take_zero]
    constructor
    · intro _; exact hF0
    · intro hk
      have := (h3 0).2 hk
      simp only [List.take_zero] at this
      rw [this] at hF'0
      cases hF'0
  | succ k =>
    rw [hFF _ (by omega), ← hib]
    exact h3 (k + 1)

/-- full agreement (including the empty cut) -/
theorem law_congr_all (F F' : Scan) (s s0 : PState) (hib : s0.ib = s.ib) (b r : Bytes) (s' : PState)
    (hFF : ∀ x, F x s = F' x s0) (h : PrefixLaw F' b s0 r s') : PrefixLaw F b s r s' := by
  obtain ⟨h1, h2, h3⟩ := h
  refine ⟨h1, by rw [h2, hib], ?_⟩
  intro k
  rw [hFF, ← hib]
  exact h3 k

/-- white space as a (never failing) scanner -/
def spaceScan : Scan := fun b s => (some (consumeSpace b s).1, (consumeSpace b s).2)

theorem spaceScan_law (b : Bytes) (s : PState) :
    PrefixLaw spaceScan b s (J.skipWs b) (s.bump (b.length - (J.skipWs b).length)) := by
  have hle := skipWs_length_le b
  refine ⟨hle, by simp, ?_⟩
  intro k
  have := consumeSpace_take b s k
  simp only at this
  constructor
  · intro hk
    simp only [spaceScan, this.1 hk]
    exact ⟨by simp, Or.inr rfl⟩
  · intro hk
    simp only [spaceScan, this.2 hk]

end Mime.JsonPrefix
