/-
  Basic definitions shared by the whole model.

  Bytes are modelled as `List Nat`.  Every theorem quantifies over *all* lists of
  naturals, which includes (the image of) every Go `[]byte`; where a proof needs
  the elements to be real bytes the hypothesis `AllBytes` is stated explicitly.
  Core Lean only: this file is linked into the `driver` executable.
-/
namespace Mime

abbrev Bytes := List Nat

/-- every element is a real byte -/
def AllBytes (b : Bytes) : Prop := ∀ x ∈ b, x < 256

instance (b : Bytes) : Decidable (AllBytes b) := by unfold AllBytes; infer_instance

/-- `bytes.HasPrefix(raw, sig)` -/
def hasPrefix (raw sig : Bytes) : Bool := sig.isPrefixOf raw

theorem hasPrefix_iff {raw sig : Bytes} : hasPrefix raw sig = true ↔ sig <+: raw := by
  unfold hasPrefix; exact List.isPrefixOf_iff_prefix

theorem hasPrefix_append {p sig : Bytes} (s : Bytes) (h : hasPrefix p sig = true) :
    hasPrefix (p ++ s) sig = true := by
  rw [hasPrefix_iff] at *
  exact List.IsPrefix.trans h (List.prefix_append p s)

/-- `bytes.Index(b, sep)`; `none` is Go's -1 -/
def indexOf (sep : Bytes) : Bytes → Option Nat
  | [] => if sep.isEmpty then some 0 else none
  | a :: as =>
    if sep.isPrefixOf (a :: as) then some 0
    else match indexOf sep as with
      | some k => some (k + 1)
      | none => none

/-- `bytes.Contains(b, sep)` -/
def containsSub (b sep : Bytes) : Bool := (indexOf sep b).isSome

/-- `bytes.IndexByte` -/
def indexByte (c : Nat) : Bytes → Option Nat
  | [] => none
  | a :: as => if a == c then some 0 else (indexByte c as).map (· + 1)

/-- Go `raw[lo:hi]` when in range (callers guard) -/
def slice (b : Bytes) (lo hi : Nat) : Bytes := (b.take hi).drop lo

def u16be (b : Bytes) (off : Nat) : Nat := b.getD off 0 * 256 + b.getD (off+1) 0
def u16le (b : Bytes) (off : Nat) : Nat := b.getD off 0 + b.getD (off+1) 0 * 256
def u32be (b : Bytes) (off : Nat) : Nat :=
  ((b.getD off 0 * 256 + b.getD (off+1) 0) * 256 + b.getD (off+2) 0) * 256 + b.getD (off+3) 0
def u32le (b : Bytes) (off : Nat) : Nat :=
  b.getD off 0 + 256 * (b.getD (off+1) 0 + 256 * (b.getD (off+2) 0 + 256 * b.getD (off+3) 0))

/-- the examined header: `in[:l]` when `l > 0 && len(in) > l` -/
def header (x : Bytes) (lim : Nat) : Bytes := if lim = 0 then x else x.take lim

theorem header_zero (x : Bytes) : header x 0 = x := by simp [header]

theorem header_idem (x : Bytes) (lim : Nat) : header (header x lim) lim = header x lim := by
  unfold header; split <;> simp [List.take_take]

theorem header_length_le (x : Bytes) (lim : Nat) (h : lim ≠ 0) : (header x lim).length ≤ lim := by
  unfold header; simp [h]; omega

/-- json.isSpace -/
def isSpace (c : Nat) : Bool := c == 0x20 || c == 0x09 || c == 0x0D || c == 0x0A
/-- magic.isWS / charset.isWS -/
def isWS (c : Nat) : Bool := c == 0x09 || c == 0x0A || c == 0x0C || c == 0x0D || c == 0x20
def isDigit (c : Nat) : Bool := 0x30 ≤ c && c ≤ 0x39
def isXDigit (c : Nat) : Bool := isDigit c || (0x61 ≤ c && c ≤ 0x66) || (0x41 ≤ c && c ≤ 0x46)

/-- magic.trimLWS -/
def trimLWS : Bytes → Bytes
  | [] => []
  | a :: as => if isWS a then trimLWS as else a :: as

theorem trimLWS_length_le (b : Bytes) : (trimLWS b).length ≤ b.length := by
  induction b with
  | nil => simp [trimLWS]
  | cons a as ih => unfold trimLWS; split <;> simp <;> omega

def hexDigit (c : Char) : Option Nat :=
  if '0' ≤ c ∧ c ≤ '9' then some (c.toNat - '0'.toNat)
  else if 'a' ≤ c ∧ c ≤ 'f' then some (c.toNat - 'a'.toNat + 10)
  else if 'A' ≤ c ∧ c ≤ 'F' then some (c.toNat - 'A'.toNat + 10)
  else none

/-- decode a hex string ("-" is the empty string) -/
def unhex (s : String) : Option Bytes :=
  if s == "-" then some [] else
  let rec go : List Char → Bytes → Option Bytes
    | [], acc => some acc.reverse
    | [_], _ => none
    | a :: b :: rest, acc =>
      match hexDigit a, hexDigit b with
      | some x, some y => go rest ((x * 16 + y) :: acc)
      | _, _ => none
  go s.toList []

def hexChar (n : Nat) : Char := if n < 10 then Char.ofNat (48 + n) else Char.ofNat (87 + n)

def tohex (b : Bytes) : String :=
  if b.isEmpty then "-" else
  String.ofList (b.foldr (fun x acc => hexChar (x / 16 % 16) :: hexChar (x % 16) :: acc) [])

def ofString (s : String) : Bytes := s.toUTF8.toList.map (·.toNat)

end Mime
